/-
  C13 — what `digitsOf` hands to the digit loops, for a sharp lawful rounding: after the
  normalisation of %e the value lies in [1, 10) (or is zero), the integer part is a decimal
  digit even after the rounding carry and the renormalisation, the number of generated
  fraction digits is small whenever the integer part is large (so that the buffer suffices).
-/
import IgrisModel.C13.ShapeLoops
namespace Igris.C13
open Igris.C06 (Ops NUL)

section
variable {rnd : Rounding} (L : Lawful rnd) (S : Sharp L) (p : Nat → Nat → FV)
include L S

/-- `while (ip == 0)`: at most `N` passes when the value is at least `8^-N` -/
theorem normUp_total10 : ∀ (N fuel : ℕ) (x : ℚ) (z : ℤ), N ≤ fuel → rnd x = some x → 0 < x → 1 ≤ x * 8 ^ N →
    z.natAbs + N ≤ 2 ^ 53 → x < 10 →
    ∃ (x' : ℚ) (j : ℕ), j ≤ N ∧ rnd x' = some x' ∧ 1 ≤ x' ∧ x' < 10 ∧ (j = 0 → x' = x) ∧
      normUp (arithP rnd p) fuel (ipOf x) (fpOf x) (epv z) = .ok (ipOf x', fpOf x', epv (z - (j : ℤ))) := by
  intro N
  induction N with
  | zero =>
    intro fuel x z _ hx h0 h1 _ h12
    have hx1 : 1 ≤ x := by simpa using h1
    have heq : (arithP rnd p).eq (ipOf x) (arithP rnd p).zero = false := by
      rw [zero_eq L p]; simp only [arithP_eq, ipOf, eq_fin, FV.sval, Bool.false_eq_true, if_false]
      have := (flr_eq_zero_iff (le_of_lt h0)).not.mpr (by linarith)
      simpa using this
    refine ⟨x, 0, le_refl _, hx, hx1, h12, fun _ => rfl, ?_⟩
    cases fuel <;> simp [normUp, heq]
  | succ N ih =>
    intro fuel x z hf hx h0 h1 hz h12
    by_cases hx1 : 1 ≤ x
    · have heq : (arithP rnd p).eq (ipOf x) (arithP rnd p).zero = false := by
        rw [zero_eq L p]; simp only [arithP_eq, ipOf, eq_fin, FV.sval, Bool.false_eq_true, if_false]
        have := (flr_eq_zero_iff (le_of_lt h0)).not.mpr (by linarith)
        simpa using this
      refine ⟨x, 0, Nat.zero_le _, hx, hx1, h12, fun _ => rfl, ?_⟩
      cases fuel <;> simp [normUp, heq]
    · have hlt1 : x < 1 := not_le.mp hx1
      have heq : (arithP rnd p).eq (ipOf x) (arithP rnd p).zero = true := by
        rw [zero_eq L p]; simp only [arithP_eq, ipOf, eq_fin, FV.sval, Bool.false_eq_true, if_false]
        have := (flr_eq_zero_iff (le_of_lt h0)).mpr hlt1
        simpa using this
      obtain ⟨f, rfl⟩ : ∃ f, fuel = f + 1 := ⟨fuel - 1, by omega⟩
      have hsm : L.small (x * 10) := L.small_down (small_nat L 10 (by norm_num)) (by push_cast; linarith)
      obtain ⟨w, hrw⟩ := L.rnd_small hsm
      have hww : rnd w = some w := L.idem hrw
      have hrel := L.rel (by linarith : (0:ℚ) < x * 10) hrw
      have htiny : 2 * L.d ≤ x := by
        rcases L.rep_tiny (le_of_lt h0) hx with h | h
        · linarith
        · exact h
      have hmax : max (x * 10 * L.u) L.d ≤ x * 10 / 8 := by
        apply max_le
        · have : x * 10 * L.u ≤ x * 10 * (1 / 8) := mul_le_mul_of_nonneg_left L.hu (by linarith)
          linarith
        · have := L.hd0; linarith
      rw [abs_le] at hrel
      have hwge : 8 * x ≤ w := by linarith [hrel.1]
      have hwlt : w < 10 := S.mul10_lt hx (le_of_lt h0) hlt1 hrw
      have hstep : (arithP rnd p).modf ((arithP rnd p).mul ((arithP rnd p).add (ipOf x) (fpOf x)) (arithP rnd p).ten)
          = (fpOf w, ipOf w) := by
        rw [ten_eq L p]; simp only [arithP_modf, arithP_mul, arithP_add]
        rw [add_modf hx (le_of_lt h0)]
        simp [FV.mul, FV.mk, hrw, modf_fin]
      have hep : (arithP rnd p).add (epv z) ((arithP rnd p).ofInt (-1)) = epv (z - 1) := by
        rw [ofInt_epv L p (-1) (by norm_num)]; simp only [arithP_add]
        have := add_epv L z (-1) (by omega)
        rw [this]; rfl
      obtain ⟨x', j, hj, hx', h1', h12', _, hrun⟩ := ih f w (z - 1) (by omega) hww (by linarith)
        (by have : (8:ℚ) ^ (N + 1) = 8 * 8 ^ N := by ring
            rw [this] at h1
            have h8 : (0:ℚ) ≤ 8 ^ N := by positivity
            nlinarith) (by omega) hwlt
      refine ⟨x', j + 1, by omega, hx', h1', h12', by omega, ?_⟩
      simp only [normUp, heq, if_true, hstep, hep]
      rw [hrun]
      have : z - 1 - (j : ℤ) = z - ((j + 1 : ℕ) : ℤ) := by push_cast; ring
      rw [this]

/-- what the normalisation phase hands on (as `Q1`), and: a normalised value lies in [1, 10) or is zero -/
def Q2 (L : Lawful rnd) (N : ℕ) (P : ℤ) (isShort norm : Bool) (x0 : ℚ) (q : FV × FV × FV × Bool) : Prop :=
  ∃ (y : ℚ) (e : ℤ), rnd y = some y ∧ 0 ≤ y ∧ q.1 = ipOf y ∧ q.2.1 = fpOf y ∧ q.2.2.1 = epv e ∧ e.natAbs ≤ N ∧
    (isShort = true → q.2.2.2 = false → -4 ≤ e ∧ e < P) ∧
    (norm = true → (1 ≤ y ∧ y < 10) ∨ (y = 0 ∧ e = 0 ∧ x0 = 0)) ∧ (norm = false → y = x0 ∧ e = 0 ∧ q.2.2.2 = false) ∧
    (isShort = false → norm = true → q.2.2.2 = true)

theorem phase1_sharp (N fuel : ℕ) (x0 : ℚ) (P : ℤ) (withExp isShort : Bool)
    (hx : rnd x0 = some x0) (h0 : 0 ≤ x0) (hN : x0 < 10 * 8 ^ N) (hN' : x0 = 0 ∨ 1 ≤ x0 * 8 ^ N) (hf : N ≤ fuel)
    (hNb : N + 2 ≤ 2 ^ 30) (hP : P.natAbs ≤ 2 ^ 53) :
    ∃ q, phase1 (arithP rnd p) fuel (.fin false x0) P withExp isShort = .ok q ∧
      Q2 L N P isShort (withExp || isShort) x0 q := by
  unfold phase1
  simp only [arithP_modf, modf_fin]
  by_cases hb : (withExp || isShort) = true
  · simp only [hb, if_true]
    obtain ⟨x1, j1, hj1, hx1, h01, hlt1, hj0, hjp, hrun1⟩ :=
      normDown_total L p N fuel x0 0 hf hx h0 hN (by omega)
    have hz : (arithP rnd p).zero = epv ((0 : ℕ) : ℤ) := by rw [zero_eq L p]; simp [epv]
    rw [hz, hrun1]
    simp only [bind, Except.bind]
    have hlt : ∀ e : ℤ, (arithP rnd p).lt (epv e) ((arithP rnd p).ofInt (-4)) = decide (e < -4) := by
      intro e; rw [ofInt_epv L p (-4) (by norm_num)]; simp only [arithP_lt]; exact lt_epv e (-4)
    have hge : ∀ e : ℤ, (arithP rnd p).ge (epv e) ((arithP rnd p).ofInt P) = decide (e ≥ P) := by
      intro e; rw [ofInt_epv L p P hP]; simp only [arithP_ge]; exact ge_epv e P
    have hwe : ∀ (e : ℤ) (w : Bool), isShort = false → (withExp || isShort) = true →
        (if (decide (e < -4) || decide (e ≥ P)) = true then true else withExp) = true := by
      intro e w hs hb'
      have : withExp = true := by cases withExp <;> simp_all
      subst this; split <;> rfl
    cases hne : (arithP rnd p).ne (fpOf x1) (epv ((0 : ℕ) : ℤ))
    · -- the fraction is zero: no second loop; x1 is an integer
      simp only [Bool.false_eq_true, if_false, pure, Except.pure]
      have hint : FV.flr x1 = x1 := by
        rw [← hz, zero_eq L p] at hne
        simp only [Arith.ne, fpOf, arithP_eq, eq_fin, FV.sval, Bool.false_eq_true, if_false] at hne
        simp at hne
        linarith
      refine ⟨_, rfl, x1, ((0 + j1 : ℕ) : ℤ), hx1, h01, rfl, rfl, rfl, by omega, ?_, ?_, ?_, ?_⟩
      · intro _ hwe'
        simp only [hlt, hge] at hwe'
        exact we_false hwe'
      · intro _
        rcases Nat.eq_zero_or_pos j1 with hj | hj
        · have e1 := hj0 hj
          subst hj
          by_cases hx10 : x1 = 0
          · right; exact ⟨hx10, by simp, by rw [← e1]; exact hx10⟩
          · left
            refine ⟨?_, hlt1⟩
            have hpos : 0 < x1 := lt_of_le_of_ne h01 (Ne.symm hx10)
            by_contra hc
            have : FV.flr x1 = 0 := (flr_eq_zero_iff h01).mpr (not_le.mp hc)
            rw [this] at hint; linarith
        · left
          refine ⟨?_, hlt1⟩
          have h78 := hjp hj
          by_contra hc
          have : FV.flr x1 = 0 := (flr_eq_zero_iff h01).mpr (not_le.mp hc)
          rw [this] at hint; linarith
      · intro h; exact absurd h (by simp)
      · intro hs _
        simp only [hlt, hge]
        exact hwe _ true hs hb
    · have hx1pos : 0 < x1 := ne_fp_pos L p h01 (by rw [hz]; exact hne)
      simp only [if_true]
      have hb1 : 1 ≤ x1 * 8 ^ N := by
        rcases Nat.eq_zero_or_pos j1 with hj | hj
        · rw [hj0 hj] at hx1pos ⊢
          rcases hN' with h | h
          · linarith
          · exact h
        · have h78 := hjp hj
          have hN1 : 1 ≤ N := by omega
          have : (8 : ℚ) ^ 1 ≤ 8 ^ N := pow_le_pow_right₀ (by norm_num) hN1
          nlinarith
      obtain ⟨x2, j2, hj2, hx2, h12, hlt2, _, hrun2⟩ :=
        normUp_total10 L S p N fuel x1 ((0 + j1 : ℕ) : ℤ) hf hx1 hx1pos hb1 (by omega) hlt1
      rw [hrun2]
      simp only [pure, Except.pure]
      refine ⟨_, rfl, x2, ((0 + j1 : ℕ) : ℤ) - (j2 : ℤ), hx2, by linarith, rfl, rfl, rfl, by omega, ?_,
        fun _ => Or.inl ⟨h12, hlt2⟩, ?_, ?_⟩
      · intro _ hwe'
        simp only [hlt, hge] at hwe'
        exact we_false hwe'
      · intro h; exact absurd h (by simp)
      · intro hs _
        simp only [hlt, hge]
        exact hwe _ true hs hb
  · simp only [hb, Bool.false_eq_true, if_false, pure, Except.pure]
    have hwf : withExp = false := by cases withExp <;> simp_all
    have hsf : isShort = false := by cases isShort <;> simp_all
    refine ⟨_, rfl, x0, 0, hx, h0, rfl, rfl, ?_, by omega, ?_, ?_, ?_, ?_⟩
    · rw [zero_eq L p]; simp [epv]
    · intro h; simp [hsf] at h
    · intro h; simp [hwf, hsf] at h
    · intro _; exact ⟨rfl, rfl, hwf⟩
    · intro _ h; simp [hwf, hsf] at h

omit S in
theorem nonint_of_ne {m : ℚ}
    (hne : (arithP rnd p).ne ((arithP rnd p).fmod (.fin false m) (arithP rnd p).one) (arithP rnd p).zero = true) :
    FV.flr m ≠ m := by
  intro heq
  rw [one_eq L p, zero_eq L p] at hne
  simp only [Arith.ne, arithP_eq, arithP_fmod, FV.fmod] at hne
  have h1 : (1 : ℚ) ≠ 0 := by norm_num
  simp only [h1, if_false, eq_fin, FV.sval, Bool.false_eq_true] at hne
  simp at hne
  apply hne
  rw [heq]; ring

omit S in
/-- one `fp *= base` of the fraction loop on a non-integer value -/
theorem mul10_Rq {m : ℚ} (hR : Rq L m) (hni : FV.flr m ≠ m) :
    ∃ v, (arithP rnd p).mul (.fin false m) (arithP rnd p).ten = .fin false v ∧ Rq L v ∧ 8 * m ≤ v := by
  obtain ⟨hm, hm0, hms⟩ := hR
  have hsm := L.nonint_small hm (by unfold FV.flr at hni; exact hni)
  have hs10 : L.small (m * 10) := L.small_down hsm (by linarith)
  obtain ⟨v, hv⟩ := L.rnd_small hs10
  have hmpos : 0 < m := by
    rcases lt_or_eq_of_le hm0 with h | h
    · exact h
    · exfalso; apply hni; rw [← h]; exact (flr_eq_zero_iff (le_refl 0)).mpr (by norm_num)
  have hrel := L.rel (by linarith : (0:ℚ) < m * 10) hv
  have htiny : 2 * L.d ≤ m := by
    rcases L.rep_tiny hm0 hm with h | h
    · linarith
    · exact h
  have hmax : max (m * 10 * L.u) L.d ≤ m * 10 / 8 := by
    apply max_le
    · have : m * 10 * L.u ≤ m * 10 * (1 / 8) := mul_le_mul_of_nonneg_left L.hu (by linarith)
      linarith
    · have := L.hd0; linarith
  rw [abs_le] at hrel
  refine ⟨v, ?_, ⟨L.idem hv, L.nonneg (by linarith) hv, L.small_down hsm (by linarith [hrel.2])⟩, by linarith [hrel.1]⟩
  rw [ten_eq L p]; simp [FV.mul, FV.mk, hv]

/-- the fraction loop stops after at most `k` passes once `m * 8^k ≥ 2^52`: values ≥ 2^52 are integers -/
theorem scaleLoop_count : ∀ (k n sc : ℕ) (m : ℚ), Rq L m → (2 : ℚ) ^ 52 ≤ m * 8 ^ k →
    (scaleLoop (arithP rnd p) n sc (.fin false m)).1 ≤ sc + k := by
  intro k
  induction k with
  | zero =>
    intro n sc m hR hk
    cases n with
    | zero => simp [scaleLoop]
    | succ n =>
      unfold scaleLoop
      split
      · rename_i hne
        exfalso
        have := S.nonint_lt hR.1 (nonint_of_ne L p hne)
        simp at hk; linarith
      · simp
  | succ k ih =>
    intro n sc m hR hk
    cases n with
    | zero => simp [scaleLoop]
    | succ n =>
      unfold scaleLoop
      split
      · rename_i hne
        obtain ⟨v, hv, hRv, h8⟩ := mul10_Rq L p hR (nonint_of_ne L p hne)
        rw [hv]
        have := ih n (sc + 1) v hRv (by
          have e : (8 : ℚ) ^ (k + 1) = 8 * 8 ^ k := by ring
          rw [e] at hk
          have h8k : (0 : ℚ) ≤ 8 ^ k := by positivity
          nlinarith)
        omega
      · simp

omit S in
theorem scaleLoop_pos {n : ℕ} {m : ℚ} (h : 0 < (scaleLoop (arithP rnd p) n 0 (.fin false m)).1) : FV.flr m ≠ m := by
  cases n with
  | zero => simp [scaleLoop] at h
  | succ n =>
    unfold scaleLoop at h
    split at h
    · rename_i hne; exact nonint_of_ne L p hne
    · simp at h

omit S in
theorem add_nn' {a1 b1 : ℚ} (ha : 0 ≤ a1) (hb : 0 ≤ b1) (hs : L.small (a1 + b1)) :
    ∃ v, FV.add rnd (.fin false a1) (.fin false b1) = .fin false v ∧ rnd (a1 + b1) = some v := by
  simp only [FV.add, FV.sval, Bool.false_eq_true, if_false]
  by_cases h0 : a1 + b1 = 0
  · refine ⟨0, by simp [h0], ?_⟩
    rw [h0]; have := L.nat_exact 0 (by norm_num); simpa using this
  · have hpos : 0 < a1 + b1 := lt_of_le_of_ne (by linarith) (Ne.symm h0)
    obtain ⟨v, hv⟩ := L.rnd_small hs
    exact ⟨v, by simp [h0, not_lt.mpr (le_of_lt hpos), FV.mk, hv], hv⟩

omit L S in
theorem flr_natCast (i : ℕ) : FV.flr (i : ℚ) = i := by
  unfold FV.flr
  have := Rat.floor_intCast (i : ℤ)
  rw [Int.cast_natCast] at this
  rw [this, Int.cast_natCast]

omit L S in
theorem flr_natCast_half (i : ℕ) : FV.flr ((i : ℚ) + 1 / 2) = i := by
  unfold FV.flr
  have : ((i : ℚ) + 1 / 2).floor = (i : ℤ) := by
    rw [ratFloor_eq, Int.floor_eq_iff]
    constructor
    · push_cast; linarith
    · push_cast; linarith
  rw [this, Int.cast_natCast]

/-- integer part and fraction after the rounding increment -/
theorem carry_ip (cfg : Cfg) (hr : cfg.repaired = true) {y : ℚ} (hy : rnd y = some y) (hy0 : 0 ≤ y) (pr : ℤ) :
    ∃ a b, (carryStep (arithP rnd p) cfg (ipOf y) (fpOf y) pr).2 = (.fin false a, .fin false b) ∧ a < 2 ^ 1024 + 1 ∧
      (y < 2 ^ 52 → ∃ i : ℕ, FV.flr y = i ∧ (a = i ∨ (a = i + 1 ∧ b ≤ 1))) := by
  have hf1 := flr_le y
  have hf2 := lt_flr_add_one y
  have hf0 := flr_nonneg hy0
  have hsy : L.small (y + 1) := L.rep_succ_small hy
  have htop : y < 2 ^ 1024 := S.top hy
  obtain ⟨i, hi⟩ := flr_isNat hy0
  have hi52 : y < 2 ^ 52 → i + 1 ≤ 2 ^ 53 := by
    intro h
    have : (i : ℚ) < 2 ^ 52 := by rw [← hi]; linarith
    have : i < 2 ^ 52 := by exact_mod_cast this
    omega
  unfold carryStep
  simp only [hr, if_true]
  by_cases hpr : pr = 0
  · subst hpr
    have hS : scaleLoop (arithP rnd p) (min (0 : ℤ).toNat cfg.fracMax) 0 (fpOf y) = (0, fpOf y) := by
      simp [scaleLoop]
    rw [hS]
    set m := y - FV.flr y with hmdef
    have hm0 : 0 ≤ m := by linarith
    have hm1 : m < 1 := by linarith
    have hfr : (arithP rnd p).round (fpOf y) = .fin false (FV.flr (m + 1 / 2)) := rfl
    obtain ⟨t, ht⟩ := flr_isNat (show (0:ℚ) ≤ m + 1 / 2 by linarith)
    have ht1 : t ≤ 1 := by
      have : FV.flr (m + 1 / 2) ≤ m + 1 / 2 := flr_le _
      have : (t : ℚ) < 2 := by rw [← ht]; linarith
      have : t < 2 := by exact_mod_cast this
      omega
    have htq : (t : ℚ) ≤ 1 := by exact_mod_cast ht1
    obtain ⟨v, hv, hrv⟩ := add_nn' L (a1 := FV.flr y) (b1 := (t : ℚ)) hf0 (Nat.cast_nonneg t)
      (L.small_down hsy (by linarith))
    have hip : (arithP rnd p).add (ipOf y) (.fin false (FV.flr (m + 1 / 2))) = .fin false v := by rw [ht]; exact hv
    have hrd : (arithP rnd p).round (.fin false v) = .fin false (FV.flr (v + 1 / 2)) := rfl
    have hv0 : 0 ≤ v := L.nonneg (add_nonneg hf0 (Nat.cast_nonneg t)) hrv
    simp only [hfr, ne_eq, not_true_eq_false, if_false, hip, hrd]
    generalize (arithP rnd p).ne (FV.fin false (FV.flr (m + 1 / 2))) ((arithP rnd p).pow 10 0) = c
    have hb : ∃ b, (if c = true then FV.fin false (FV.flr (m + 1 / 2)) else (arithP rnd p).zero) = .fin false b ∧
        0 ≤ b ∧ b ≤ 1 := by
      cases c
      · exact ⟨0, by rw [if_neg (by simp), zero_eq L p], le_refl _, by norm_num⟩
      · exact ⟨FV.flr (m + 1 / 2), if_pos rfl, by rw [ht]; exact Nat.cast_nonneg t, by rw [ht]; exact htq⟩
    obtain ⟨b, hb1, _, hb3⟩ := hb
    rw [hb1]
    refine ⟨_, b, rfl, ?_, ?_⟩
    · have := flr_le (v + 1 / 2)
      have := S.top hrv
      linarith
    · intro h52
      refine ⟨i, hi, ?_⟩
      have hex : v = ((i + t : ℕ) : ℚ) := by
        rw [hi] at hrv
        have := L.nat_exact (i + t) (by have := hi52 h52; omega)
        push_cast at this
        rw [this] at hrv
        injection hrv with hrv; rw [← hrv]; push_cast; rfl
      rw [hex, flr_natCast_half]
      rcases Nat.eq_zero_or_pos t with h | h
      · left; rw [h]; simp
      · right
        have : t = 1 := by omega
        rw [this]; push_cast; exact ⟨rfl, hb3⟩
  · obtain ⟨w, hw, hRq⟩ := scaleLoop_inv L p (min pr.toNat cfg.fracMax) 0 (y - FV.flr y) (rq_frac L hy hy0)
    have hw' : (scaleLoop (arithP rnd p) (min pr.toNat cfg.fracMax) 0 (fpOf y)).2 = .fin false w := hw
    rw [hw']
    have hfr : (arithP rnd p).round (.fin false w) = .fin false (FV.flr (w + 1 / 2)) := rfl
    obtain ⟨v, hv, hrv⟩ := add_nn' L (a1 := FV.flr y) (b1 := 1) hf0 (by norm_num) (L.small_down hsy (by linarith))
    have hip : (arithP rnd p).add (ipOf y) (arithP rnd p).one = .fin false v := by rw [one_eq L p]; exact hv
    simp only [hfr, ne_eq, hpr, not_false_eq_true, if_true, hip]
    generalize (arithP rnd p).ne (FV.fin false (FV.flr (w + 1 / 2)))
      ((arithP rnd p).pow 10 (scaleLoop (arithP rnd p) (min pr.toNat cfg.fracMax) 0 (fpOf y)).1) = c
    cases c
    · simp only [Bool.false_eq_true, if_false]
      refine ⟨v, 0, by rw [zero_eq L p], by have := S.top hrv; linarith, ?_⟩
      intro h52
      refine ⟨i, hi, Or.inr ⟨?_, by norm_num⟩⟩
      rw [hi] at hrv
      have := L.nat_exact (i + 1) (hi52 h52)
      push_cast at this
      rw [this] at hrv
      injection hrv with hrv; exact hrv.symm
    · simp only [if_true]
      refine ⟨FV.flr y, _, rfl, by linarith, fun _ => ⟨i, hi, Or.inl hi⟩⟩

/-- `if (with_exp && (ip >= base)) fp = MODF((ip + fp) / base, &ip), ep += 1.0L;` after the carry:
the integer part is a single decimal digit again -/
theorem renorm_digit (i : ℕ) (hi : i ≤ 10) {b : ℚ} (hb0 : 0 ≤ b) (hbs : L.small b) (hb1 : i = 10 → b ≤ 1)
    (e : ℤ) (he : e.natAbs + 1 ≤ 2 ^ 53) :
    ∃ (i' : ℕ) (b' : ℚ) (e' : ℤ), renormStep (arithP rnd p) true (.fin false (i : ℚ)) (.fin false b) (epv e) =
        (.fin false (i' : ℚ), .fin false b', epv e') ∧ i' ≤ 9 ∧ (1 ≤ i → 1 ≤ i') ∧ 0 ≤ b' ∧ L.small b' ∧
        (e' = e ∨ e' = e + 1) ∧ (i ≤ 9 → i' = i ∧ e' = e) := by
  unfold renormStep
  have hge : (arithP rnd p).ge (.fin false (i : ℚ)) (arithP rnd p).ten = decide (10 ≤ i) := by
    rw [ten_eq L p]; simp only [arithP_ge, ge_fin, FV.sval, Bool.false_eq_true, if_false]
    exact decide_eq_decide.mpr (by exact_mod_cast Iff.rfl)
  rw [hge]
  by_cases h10 : 10 ≤ i
  · have hi10 : i = 10 := by omega
    subst hi10
    have hb1' := hb1 rfl
    simp only [Bool.true_and, h10, decide_true, if_true]
    obtain ⟨v, hv, hrv⟩ := add_nn' L (a1 := ((10 : ℕ) : ℚ)) (b1 := b) (by norm_num) hb0
      (L.small_down (small_nat L 11 (by norm_num)) (by push_cast; linarith))
    have hadd : (arithP rnd p).add (.fin false ((10 : ℕ) : ℚ)) (.fin false b) = .fin false v := hv
    have hv10 : (10 : ℚ) ≤ v := by
      have := S.mono_nat 10 (by norm_num) (by push_cast; linarith) hrv
      exact_mod_cast this
    have hvup : v ≤ 23 / 2 := by
      have hrel := L.rel (by push_cast; linarith : (0:ℚ) < ((10 : ℕ) : ℚ) + b) hrv
      have hmax : max ((((10 : ℕ) : ℚ) + b) * L.u) L.d ≤ 1 / 2 := by
        apply max_le
        · have : (((10 : ℕ) : ℚ) + b) * L.u ≤ (((10 : ℕ) : ℚ) + b) * (1 / 1024) :=
            mul_le_mul_of_nonneg_left S.u10 (by push_cast; linarith)
          push_cast at this ⊢; linarith
        · have := S.d10; linarith
      rw [abs_le] at hrel
      push_cast at hrel; linarith [hrel.2]
    have hvs : L.small v := small_of_rnd L hrv
    obtain ⟨w, hw, hw0, hws, hrw⟩ := div_ten L (n := false) (by linarith : (0:ℚ) ≤ v) hvs
    have hdiv : (arithP rnd p).div (.fin false v) (arithP rnd p).ten = .fin false w := by
      rw [ten_eq L p]; simpa using hw
    have hw1 : (1 : ℚ) ≤ w := by
      have := S.mono_nat 1 (by norm_num) (by push_cast; linarith : ((1 : ℕ) : ℚ) ≤ v / 10) hrw
      exact_mod_cast this
    have hw2 : w < 2 := by
      have hrel := L.rel (by linarith : (0:ℚ) < v / 10) hrw
      have hmax : max (v / 10 * L.u) L.d ≤ 1 / 2 := by
        apply max_le
        · have : v / 10 * L.u ≤ v / 10 * (1 / 1024) := mul_le_mul_of_nonneg_left S.u10 (by linarith)
          linarith
        · have := S.d10; linarith
      rw [abs_le] at hrel
      linarith [hrel.2]
    have hfl : FV.flr w = ((1 : ℕ) : ℚ) := by
      unfold FV.flr
      have : w.floor = 1 := by
        rw [ratFloor_eq, Int.floor_eq_iff]; constructor
        · exact_mod_cast hw1
        · push_cast; linarith
      rw [this]; simp
    have hep : (arithP rnd p).add (epv e) (arithP rnd p).one = epv (e + 1) := by
      rw [one_eq L p]; simp only [arithP_add]
      have := add_epv L e 1 (by omega)
      have e1 : epv 1 = .fin false 1 := by simp [epv]
      rw [e1] at this; exact this
    rw [hadd, hdiv, hep]
    simp only [arithP_modf, modf_fin]
    refine ⟨1, w - FV.flr w, e + 1, ?_, by norm_num, fun _ => le_refl _, by linarith [flr_le w], ?_, Or.inr rfl,
      fun h => absurd h (by norm_num)⟩
    · show (ipOf w, fpOf w, epv (e + 1)) = _
      unfold ipOf fpOf; rw [hfl]
    · exact L.small_down hws (by linarith [flr_nonneg hw0])
  · simp only [h10, decide_false, Bool.and_false, Bool.false_eq_true, if_false]
    exact ⟨i, b, e, rfl, by omega, fun h => h, hb0, hbs, Or.inl rfl, fun _ => ⟨rfl, rfl⟩⟩

omit L S in
theorem carry_sc {α : Type} (A : Arith α) (cfg : Cfg) (ip fp : α) (pr : ℤ) :
    (carryStep A cfg ip fp pr).1 =
      (scaleLoop A (if cfg.repaired then min pr.toNat cfg.fracMax else pr.toNat) 0 fp).1 := rfl

/-- the number of generated fraction digits -/
theorem sc_facts {y : ℚ} (hy : rnd y = some y) (hy0 : 0 ≤ y) (pr : ℤ) (hpr : 0 ≤ pr) :
    (carryStep (arithP rnd p) cfgNow (ipOf y) (fpOf y) pr).1 ≤ 340 ∧
    ((carryStep (arithP rnd p) cfgNow (ipOf y) (fpOf y) pr).1 : ℤ) ≤ pr ∧
    (0 < (carryStep (arithP rnd p) cfgNow (ipOf y) (fpOf y) pr).1 → FV.flr y ≠ y ∧ y < 2 ^ 52) ∧
    (0 < (carryStep (arithP rnd p) cfgNow (ipOf y) (fpOf y) pr).1 → 1 ≤ y →
      (carryStep (arithP rnd p) cfgNow (ipOf y) (fpOf y) pr).1 ≤ 35) := by
  rw [carry_sc]
  simp only [cfgNow, if_true]
  have hle := scaleLoop_le (arithP rnd p) (min pr.toNat 340) 0 (fpOf y)
  have hR := rq_frac L hy hy0
  have hni : 0 < (scaleLoop (arithP rnd p) (min pr.toNat 340) 0 (fpOf y)).1 → FV.flr y ≠ y := by
    intro h hint
    have := scaleLoop_pos L p (m := y - FV.flr y) h
    apply this
    rw [hint, sub_self]; exact (flr_eq_zero_iff (le_refl 0)).mpr (by norm_num)
  refine ⟨by omega, by omega, fun h => ⟨hni h, S.nonint_lt hy (hni h)⟩, fun h h1 => ?_⟩
  rcases S.frac_ge hy h1 with hz | hg
  · exfalso; apply hni h; linarith
  · have := scaleLoop_count L S p 35 (min pr.toNat 340) 0 (y - FV.flr y) hR (by
      have e : (8 : ℚ) ^ 35 = 2 ^ 52 * 2 ^ 53 := by norm_num
      rw [e]
      have h0 : (0:ℚ) ≤ y - FV.flr y := by linarith [flr_le y]
      nlinarith)
    rw [Nat.zero_add] at this; exact this

/-- **what `digitsOf` hands to the digit loops** (%f and %e): non-negative finite values, the exponent a small
integer; %e: the integer part is ONE decimal digit (zero only for a zero argument, with exponent 0 and no
generated fraction digit); %f: the integer part is below 2^1024 + 1, and if fraction digits were generated it is
at most 1 or there are at most 35 of them and it is at most 2^52 + 1 -/
theorem digitsOf_shape_fe (N fuel : ℕ) (x0 : ℚ) (precision : ℤ) (ops : Ops) (withExp : Bool)
    (hx : rnd x0 = some x0) (h0 : 0 ≤ x0) (hN : x0 < 10 * 8 ^ N) (hN' : x0 = 0 ∨ 1 ≤ x0 * 8 ^ N) (hf : N ≤ fuel)
    (hNb : N + 2 ≤ 2 ^ 30) (hp0 : 0 ≤ precision) (hp1 : precision ≤ 2147483647) :
    ∃ (d : Digits FV) (a b : ℚ) (e : ℤ),
      digitsOf (arithP rnd p) cfgNow fuel (.fin false x0) precision ops withExp false = .ok d ∧
      d.ip = .fin false a ∧ d.fp = .fin false b ∧ d.ep = epv e ∧ d.withExp = withExp ∧
      d.precision = (if ops.prec then precision else 6) ∧
      0 ≤ a ∧ L.small a ∧ 0 ≤ b ∧ L.small b ∧ e.natAbs ≤ N + 1 ∧ d.signCount ≤ 340 ∧ (d.signCount : ℤ) ≤ d.precision ∧
      (withExp = true → ∃ i : ℕ, a = i ∧ i ≤ 9 ∧ (i = 0 → d.signCount = 0 ∧ e = 0)) ∧
      (withExp = false → a < 2 ^ 1024 + 1 ∧ (0 < d.signCount → a ≤ 1 ∨ (d.signCount ≤ 35 ∧ a ≤ 2 ^ 52 + 1))) := by
  rw [digitsOf_eq]
  simp only [Bool.false_eq_true, if_false]
  generalize hP : (if ops.prec = true then precision else 6 : ℤ) = P
  have hPb : 0 ≤ P ∧ P ≤ 2147483647 := by
    rw [← hP]; split
    · exact ⟨hp0, hp1⟩
    · exact ⟨by norm_num, by norm_num⟩
  obtain ⟨q, hq, y, e, hy, hy0, hq1, hq2, hq3, he, _, hnorm, hnn, hwe⟩ :=
    phase1_sharp L S p N fuel x0 P withExp false hx h0 hN hN' hf hNb (by omega)
  rw [hq]
  simp only [bind, Except.bind]
  obtain ⟨ip, fp, ep, we⟩ := q
  simp only at hq1 hq2 hq3 hnorm hnn hwe
  subst hq1 hq2 hq3
  have hph2 : phase2 (arithP rnd p) false we (epv e) P = .ok P := rfl
  simp only [hph2, arithP_modf, modf_fin, Bool.or_false] at hnorm hnn hwe ⊢
  -- the value the tail works on
  have hwe' : we = withExp := by
    cases hw : withExp
    · exact (hnn hw).2.2
    · exact hwe trivial hw
  have hsel : (if we = true then ipOf y else ipOf x0) = ipOf y ∧ (if we = true then fpOf y else fpOf x0) = fpOf y := by
    cases hw : withExp
    · have := (hnn hw).1; rw [this]; simp
    · rw [hwe', hw]; simp
  rw [hsel.1, hsel.2]
  obtain ⟨sc, w, a0, b0, hc, hw, ha0, has, _, hb0, hb⟩ := carry_inv L p cfgNow rfl hy hy0 P
  obtain ⟨a1, b1, hc2, htop, h52⟩ := carry_ip L S p cfgNow rfl hy hy0 P
  obtain ⟨s1, s2, s3, s4⟩ := sc_facts L S p hy hy0 P hPb.1
  rw [hc] at hc2 s1 s2 s3 s4
  simp only at s1 s2 s3 s4
  have hab : a0 = a1 ∧ b0 = b1 := by
    simp only [Prod.mk.injEq, FV.fin.injEq, true_and] at hc2; exact hc2
  obtain ⟨rfl, rfl⟩ := hab
  have hstrip : stripStep (arithP rnd p) cfgNow ops false sc (.fin false b0) = (sc, .fin false b0) := by
    unfold stripStep; simp
  have hbs : L.small b0 := L.small_down hw.2.2 (by linarith)
  unfold tailDigits
  simp only [hc, hstrip]
  cases hwE : withExp
  · -- %f
    rw [hwe', hwE]
    have hren : renormStep (arithP rnd p) false (.fin false a0) (.fin false b0) (epv e) = (.fin false a0, .fin false b0, epv e) := by
      unfold renormStep; simp
    rw [hren]
    refine ⟨_, a0, b0, e, rfl, rfl, rfl, rfl, rfl, rfl, ha0, has, hb0, hbs, by omega, s1, s2,
      fun h => absurd h (by simp), fun _ => ⟨htop, fun hsc => ?_⟩⟩
    obtain ⟨hni, hy52⟩ := s3 hsc
    obtain ⟨i, hi, hai⟩ := h52 hy52
    by_cases hy1 : 1 ≤ y
    · right
      refine ⟨s4 hsc hy1, ?_⟩
      have : (i : ℚ) ≤ 2 ^ 52 := by rw [← hi]; linarith [flr_le y]
      rcases hai with h | ⟨h, _⟩ <;> rw [h] <;> linarith
    · left
      have : FV.flr y = 0 := (flr_eq_zero_iff hy0).mpr (not_le.mp hy1)
      rw [this] at hi
      have : (i : ℚ) = 0 := hi.symm
      rcases hai with h | ⟨h, _⟩ <;> rw [h] <;> linarith
  · -- %e
    rw [hwe', hwE]
    have hn := hnorm hwE
    have hy10 : y < 10 := by rcases hn with h | h <;> linarith [h.1]
    have hy52 : y < 2 ^ 52 := by linarith
    obtain ⟨i, hi, hai⟩ := h52 hy52
    have hi9 : i ≤ 9 := by
      have : (i : ℚ) < 10 := by rw [← hi]; linarith [flr_le y]
      have : i < 10 := by exact_mod_cast this
      omega
    obtain ⟨i0, hi0, hi0le, hi0b⟩ : ∃ i0 : ℕ, a0 = (i0 : ℚ) ∧ i0 ≤ 10 ∧ (i0 = 10 → b0 ≤ 1) ∧ True := by
      rcases hai with h | ⟨h, hb1⟩
      · exact ⟨i, h, by omega, fun h' => by omega, trivial⟩
      · exact ⟨i + 1, by rw [h]; push_cast; rfl, by omega, fun _ => hb1, trivial⟩
    rw [hi0]
    obtain ⟨i', b', e', hren, hi'9, hi'1, hb'0, hb's, he', hsame⟩ :=
      renorm_digit L S p i0 hi0le hb0 hbs hi0b.1 e (by omega)
    rw [hren]
    refine ⟨_, (i' : ℚ), b', e', rfl, rfl, rfl, rfl, rfl, rfl, by positivity,
      L.small_down (small_nat L 9 (by norm_num)) (by push_cast; have : (i' : ℚ) ≤ 9 := by exact_mod_cast hi'9
                                                     linarith),
      hb'0, hb's, by rcases he' with h | h <;> rw [h] <;> omega, s1, s2,
      fun _ => ⟨i', rfl, hi'9, fun hz => ?_⟩, fun h => absurd h (by simp)⟩
    -- the digit is 0: the argument is zero
    have hi00 : i0 = 0 := by
      by_contra hc0
      have := hi'1 (by omega)
      omega
    have ha00 : a0 = 0 := by rw [hi0, hi00]; simp
    have hiz : i = 0 := by
      rcases hai with h | ⟨h, _⟩
      · rw [ha00] at h; exact_mod_cast h.symm
      · rw [ha00] at h; exfalso
        have : (0 : ℚ) ≤ (i : ℚ) := by positivity
        linarith
    have hy1 : y < 1 := by
      have := lt_flr_add_one y; rw [hi, hiz] at this; simpa using this
    have hyz : y = 0 ∧ e = 0 := by
      rcases hn with h | h
      · linarith [h.1]
      · exact ⟨h.1, h.2.1⟩
    obtain ⟨hs1, hs2⟩ := hsame (by omega)
    refine ⟨?_, by rw [hs2]; exact hyz.2⟩
    show sc = 0
    by_contra hsc
    have := (s3 (by omega)).1
    apply this; rw [hyz.1]; exact (flr_eq_zero_iff (le_refl 0)).mpr (by norm_num)


end
end Igris.C13
