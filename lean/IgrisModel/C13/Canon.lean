/-
  C13 round 3c — the TOLERANT observable of the correspondence stream (core Lean only; used by the driver).

  The property fixes the digits of a finite conversion only up to an allowance ("parsed back, lies within half a unit
  of the last printed digit of the argument plus a few ulps of the argument"): the exact last digits are NOT part of
  the property.  The result field of every op whose result is the text of a finite, non-zero floating conversion is
  therefore no longer the routine's own digits but

    tier A  (f, e, #g; the number in the routine's text has the STRUCTURE of the reference number: the same count of
             integer, fraction and exponent digits, the same point, the same exponent letter)
            "<count> <hex of the routine's text with the number replaced by the REFERENCE number> <verdict>"
            - sign, blanks, padding zeros, literal text around the directive, count: the routine's own, exact;
    tier B  (g without #: the number of digits left after the zero removal depends on the last digits; and the
             rare texts whose structure differs from the reference: a carry into the next power of ten decided
             differently, the %g style of finding C13-g-style-carry)
            "S c<count == emitted> i<ISO shape predicate of Shape.lean on the routine's text> <reference number> <verdict>"

  REFERENCE number = the CORRECTLY ROUNDED (half-even) decimal of the exact argument for the directive and the
  precision, in exact `Rat` arithmetic: a function of the input alone (harness: the same in GMP rationals).
  verdict = `within` / `outside`: the routine's own text (here: the model's), read back exactly, lies within
  u/2 + K ulps of the argument; u = unit of the last digit demanded (Tie.lean `unitOf`), K = the allowance of
  the harness oracle (`allow_ulps`, with the decimal exponent computed exactly), ulp = of the binary64 argument.

  The tie canonicalisation of round 3 is a special case (both neighbours of a tie are within the allowance; the
  reference is the half-even neighbour).  Nothing here uses the model's engine.
-/
import IgrisModel.C13.Tie
import IgrisModel.C13.Shape
import IgrisModel.Common.Proto
namespace Igris.C13.Canon
open Igris.C13

def roundHalfEven (q : Rat) : Nat :=
  let fl := q.floor.toNat
  let r := q - (fl : Rat)
  if r > (1 : Rat) / 2 then fl + 1
  else if r < (1 : Rat) / 2 then fl
  else if fl % 2 = 0 then fl else fl + 1

def padLeft (p : Nat) (l : List Char) : List Char := List.replicate (p - l.length) '0' ++ l

/-- the integer `n` written with `F` fraction digits -/
def mant (n F : Nat) (point : Bool) : List Char :=
  let ds := padLeft (F + 1) (Nat.toDigits 10 n)
  ds.take (ds.length - F) ++ (if F > 0 || point then ['.'] else []) ++ ds.drop (ds.length - F)

def expField (upper : Bool) (X : Int) : List Char :=
  (if upper then 'E' else 'e') :: (if X < 0 then '-' else '+') :: padLeft 2 (Nat.toDigits 10 X.natAbs)

/-- x > 0 rounded half-even to `F + 1` significant digits: digits as an integer, decimal exponent -/
def refE (x : Rat) (F : Nat) : Nat × Int :=
  let X := ilog10 x
  let n := roundHalfEven (x / pow10 (X - (F : Int)))
  if n ≥ 10 ^ (F + 1) then (n / 10, X + 1) else (n, X)

/-- the reference number text (no sign, no padding); %g with the zeros kept (`hash` forced by the caller for tier B) -/
def refNum (conv : Char) (hash upper hasPrec : Bool) (prec : Int) (x : Rat) : List Char :=
  let P : Nat := if hasPrec then prec.toNat else 6
  if conv = 'f' then mant (roundHalfEven (x * pow10 (P : Int))) P hash
  else if conv = 'e' then
    let (n, X) := refE x P
    mant n P hash ++ expField upper X
  else
    let Pg : Nat := if P = 0 then 1 else P
    let (n, X) := refE x (Pg - 1)
    if X < -4 || X ≥ (Pg : Int) then mant n (Pg - 1) hash ++ expField upper X
    else
      let F : Nat := ((Pg : Int) - 1 - X).toNat
      mant (roundHalfEven (x * pow10 (F : Int))) F hash

def ulpOf (x : Rat) : Rat := if x < pow2 (-1022) then pow2 (-1074) else pow2 (ilog2 x - 52)

/-- harness `allow_exact` (= `allow_ulps` with the exact decimal exponent) -/
def allowK (conv : Char) (hasPrec : Bool) (prec : Int) (x : Rat) (strict : Bool) : Nat :=
  if strict then 4 else
  let X := ilog10 x
  let P : Int := if hasPrec then prec else 6
  let fracd : Int := if conv = 'g' then (if P = 0 then 1 else P) + (if X < 0 && X ≥ -4 then -X else 0) else P
  let lead : Int := if (conv = 'f' || (conv = 'g' && X ≥ -4)) && X < 0 then -X else 0
  let s1 : Int := if conv ≠ 'f' then (X.natAbs : Int) + 1 else 0
  let s3 : Int := if conv ≠ 'e' && X > 15 then X - 15 else 0
  (4 + s1 + min fracd (lead + 17) + s3).toNat

def within (conv : Char) (hasPrec : Bool) (prec : Int) (x : Rat) (strict : Bool) (body : List Char) : Bool :=
  decide (absQ (textValue body - x) ≤ unitOf conv hasPrec prec x / 2 + ((allowK conv hasPrec prec x strict : Nat) : Rat) * ulpOf x)

/-- the STRUCTURE of a number text: every digit replaced by `d`, the sign of the exponent by `s` (the point, the
    exponent letter and all the counts stay).  The VALUE of the exponent is not part of the structure: an argument within
    the allowance of a power of ten may be printed as 9.99..e-20 or as 1.00..e-19 - the verdict judges the value. -/
def maskNum (cs : List Char) : List Char :=
  cs.map (fun c => if c.isDigit then 'd' else if c = '+' || c = '-' then 's' else c)

/-- tier A: the body (blanks, sign, padding zeros, number, blanks) with its number replaced by the reference -/
def substRef (body R : List Char) : Option (List Char) :=
  let lead := body.takeWhile (· = ' ')
  let r1 := body.drop lead.length
  let sign : List Char := match r1 with
    | c :: _ => if c = '+' || c = '-' then [c] else []
    | [] => []
  let r2 := r1.drop sign.length
  let trailN := (r2.reverse.takeWhile (· = ' ')).length
  let N := r2.take (r2.length - trailN)
  if N.length < R.length then none else
  let Z := N.length - R.length
  if (N.take Z).all (· = '0') && maskNum (N.drop Z) == maskNum R then
    some (lead ++ sign ++ N.take Z ++ R ++ List.replicate trailN ' ')
  else none

def hexChars (cs : List Char) : String :=
  if cs.isEmpty then "-" else String.join (cs.map fun c => Igris.Proto.hexOfNat 2 c.toNat)

/-- Long texts (precision up to 400 000 in the `pfd` ops).  Every finite binary64 has at most 1074 fraction digits
    (767 significant digits): a fraction longer than `FCAP` digits whose digits beyond `FCAP` are all zeros is cut to
    `FCAP` digits - in the routine's text and in the reference alike (the reference is computed at a precision capped at
    `PCAP`; its digits beyond `FCAP` are zeros for every binary64).  The count printed in the line is the routine's own. -/
def FCAP : Nat := 1100
def PCAP : Int := 1200

def cutFrac (body : List Char) : List Char :=
  let a := body.takeWhile (· ≠ '.')
  if a.length == body.length then body else
  let r := body.drop (a.length + 1)
  let fr := r.takeWhile Char.isDigit
  let rest := r.drop fr.length
  if fr.length > FCAP && (fr.drop FCAP).all (· = '0') then a ++ '.' :: fr.take FCAP ++ rest else body

/-- the result field of a finite, non-zero conversion: `out` = all characters emitted, `pc` = the returned count,
    `preLen` / `postLen` = literal text around the directive, `x` = |argument| -/
def line (pc : Int) (out : List Char) (preLen postLen : Nat) (conv : Char) (ops : Igris.C06.Ops) (width prec : Int)
    (neg : Bool) (x : Rat) (strict : Bool) : String :=
  let body0 := (out.drop preLen).take (out.length - preLen - postLen)
  let body := cutFrac body0
  let precC : Int := if prec > PCAP then PCAP else prec
  let v := if within conv ops.prec precC x strict body then "within" else "outside"
  let tierB (_ : Unit) : String :=
    let R := cutFrac (refNum conv true ops.upper ops.prec precC x)
    let cv : Conv := if conv = 'f' then .f else if conv = 'e' then .e else .g
    "S c" ++ (if pc = (out.length : Int) then "1" else "0") ++ " i" ++
      (if body0.length > 6000 then "-" else if isoShape cv ops width prec neg body0 then "1" else "0") ++
      " " ++ String.ofList R ++ " " ++ v
  if conv = 'g' && !ops.spec then tierB ()
  else
    match substRef body (cutFrac (refNum conv ops.spec ops.upper ops.prec precC x)) with
    | some b => toString pc ++ " " ++ hexChars (out.take preLen ++ b ++ out.drop (out.length - postLen)) ++ " " ++ v
    | none => tierB ()

end Igris.C13.Canon
