/-
  C12 round 3b — the TOLERANT observable of the correspondence stream.

  The property demands of a parser "the value strtod returns to within a few ulps" and of a renderer "within one
  unit of the last printed digit plus the binary representation error" — not a bit pattern, not a particular last
  digit.  The lines the driver and the harness print therefore no longer carry the routine's own bits / text, but

    * the CORRECTLY ROUNDED reference (parsers: the exact decimal value of the literal rounded to nearest even
      into the result format; renderers: the exact binary value rounded half-even to p fraction digits) — a
      function of the input alone (harness: glibc strtod / strtof / printf; here: exact `Rat` / `Nat` arithmetic
      and the model's `roundPack` / `roundQuot`),
    * what the property fixes exactly (sign, class, end offset, returned pointer, tokens),
    * a verdict: the routine's own result (harness: the compiled code; here: the model on the software
      binary32/binary64) lies within the allowance the oracle of the harness grants.

  Everything here is written on `Rat` / `Nat` from the formulas of harness/C12.cpp (`check_atof`,
  `check_ftoa_text`, `check_dprint`), independent of the model's routines.  Core Lean only.
-/
import IgrisModel.C12.Model
namespace Igris.C12.Canon
open Igris.C12

def pow2Q (e : Int) : Rat :=
  if e ≥ 0 then ((2 ^ e.toNat : Nat) : Rat) else 1 / ((2 ^ (-e).toNat : Nat) : Rat)

def pow10Q (p : Nat) : Rat := ((10 ^ p : Nat) : Rat)

def absQ (q : Rat) : Rat := if q < 0 then -q else q

/-- the value of an encoding -/
inductive Val where
  | nan
  | inf (neg : Bool)
  | fin (neg : Bool) (a : Rat)     -- magnitude

def valOf (f : Fmt) (b : Nat) : Val :=
  match decode f b with
  | .nan => .nan
  | .inf s => .inf s
  | .fin s m e => .fin s ((m : Rat) * pow2Q e)

/-! ## parsers -/

/-- the literal at the start of a text, matched with the grammar `[+-] d* [. d*] [(e|E) [+-] d+]`
    (harness: `match_literal`) -/
structure Lit where
  neg : Bool := false
  ip : List Nat := []
  fp : List Nat := []
  ex : Int := 0          -- saturating like the harness matcher (`if (e < 1000000) e = e * 10 + digit`)
  stop : Nat := 0        -- length of the literal

def takeDigits : List Nat → List Nat → List Nat × List Nat
  | [], acc => (acc.reverse, [])
  | c :: r, acc => if isDigit c then takeDigits r (c :: acc) else (acc.reverse, c :: r)

def expAcc : List Nat → Nat → Nat → Nat × Nat
  | [], e, n => (e, n)
  | c :: r, e, n => if isDigit c then expAcc r (if e < 1000000 then e * 10 + (c - 48) else e) (n + 1) else (e, n)

def matchLit (s : List Nat) : Lit :=
  let (neg, sg, s1) : Bool × Nat × List Nat :=
    match s with
    | c :: r => if c = 43 ∨ c = 45 then (c = 45, 1, r) else (false, 0, s)
    | [] => (false, 0, [])
  let (ip, s2) := takeDigits s1 []
  let (fp, dot, s3) : List Nat × Nat × List Nat :=
    match s2 with
    | 46 :: r => let (fp, r') := takeDigits r []; (fp, 1, r')
    | _ => ([], 0, s2)
  let pos := sg + ip.length + dot + fp.length
  let (ex, elen) : Int × Nat :=
    match s3 with
    | c :: r =>
      if c = 101 ∨ c = 69 then
        let (eneg, sl, r1) : Bool × Nat × List Nat :=
          match r with
          | d :: r' => if d = 43 ∨ d = 45 then (d = 45, 1, r') else (false, 0, r)
          | [] => (false, 0, [])
        match r1 with
        | d :: _ =>
          if isDigit d then
            let (e, n) := expAcc r1 0 0
            ((if eneg then -(e : Int) else (e : Int)), 1 + sl + n)
          else (0, 0)
        | [] => (0, 0)
      else (0, 0)
    | [] => (0, 0)
  { neg := neg, ip := ip, fp := fp, ex := ex, stop := pos + elen }

def stripZeros : List Nat → List Nat
  | 48 :: r => stripZeros r
  | l => l

def horner (l : List Nat) : Nat := l.foldl (fun a c => a * 10 + (c - 48)) 0

/-- significant digits (harness `sigdigits`): integer and fraction digits without the leading zeros -/
def Lit.sig (L : Lit) : Nat := (stripZeros (L.ip ++ L.fp)).length

def Lit.hasDigits (L : Lit) : Bool := !(L.ip.isEmpty && L.fp.isEmpty)

/-- the exact decimal value of the literal rounded to nearest even into the format: the encoding
    (what glibc strtod / strtof return for the literal) -/
def refBits (f : Fmt) (L : Lit) : Nat :=
  let neg := L.neg && L.hasDigits
  let m := (stripZeros (L.ip ++ L.fp)).reverse
  let m' := stripZeros m                 -- trailing zeros removed
  let tz := m.length - m'.length
  let n := horner m'.reverse
  let nd := m'.length
  let d : Int := L.ex - L.fp.length + tz
  if n = 0 then withSign f neg 0
  else if (nd : Int) - 1 + d ≥ 310 then withSign f neg f.infBits
  else if (nd : Int) + d ≤ -330 then withSign f neg 0
  else if d ≥ 0 then roundPack f neg (n * 10 ^ d.toNat) 0
  else roundQuot f neg n (10 ^ (-d).toNat) 0

/-- signed value with infinities mapped to `top` (harness: `if (isinf(v)) v = top`) -/
def signedQ (top : Rat) : Val → Option Rat
  | .nan => none
  | .inf s => some (if s then -top else top)
  | .fin s a => some (if s then -a else a)

/-- the allowance of the harness oracle `check_atof` and the verdict on a result `own` -/
def atofWithin (single strict : Bool) (L : Lit) (ref own : Val) : Bool :=
  let top := if single then pow2Q 128 else pow2Q 1024
  let unit := if single then pow2Q (-24) else pow2Q (-53)
  let tiny := if single then pow2Q (-149) else pow2Q (-1074)
  let steps : Rat :=
    if single then 4 + (3 : Rat) / 2 * (L.ex.natAbs : Nat)
    else if strict then 4
    else
      let nd := L.sig
      let d : Int := L.ex - L.fp.length
      2 + 2 * ((nd - 15 : Nat) : Rat) + (3 : Rat) / 2 * (d.natAbs : Nat)
  match signedQ top ref, signedQ top own with
  | some r, some v =>
    decide (absQ (v - r) ≤ steps * unit * absQ r + 2 * tiny) && !(decide (v < 0) != decide (r < 0) && r != 0)
  | _, _ => false

/-- sign and class of the routine's own result, on the encodings (`rb` in format `rf`, `ob` in format `of`);
    `edge` where the reference lies in the lowest / highest binades (|ref| <= 8 smallest subnormals, |ref| >= half the
    overflow threshold: there 0 / the smallest subnormal, the largest finite / infinity are within the allowance of
    each other) -/
def classOf (rf : Fmt) (L : Lit) (rb : Nat) (of : Fmt) (ob : Nat) : Nat :=
  let mag := rb % rf.signBit
  let edge : Bool := L.sig > 0 && (mag ≤ 8 || mag ≥ (rf.expMax - 1) * 2 ^ rf.mbits)
  if edge then 0 else
  match decode of ob with
  | .nan => 1
  | .inf s => if s then 3 else 2
  | .fin s m _ => (if m = 0 then 4 else 6) + (if s then 1 else 0)

/-- class codes: 0 edge, 1 nan, 2 +i, 3 -i, 4 +z, 5 -z, 6 +f, 7 -f -/
def className (c : Nat) : String :=
  match c with
  | 0 => "edge" | 1 => "nan" | 2 => "+i" | 3 => "-i" | 4 => "+z" | 5 => "-z" | 6 => "+f" | _ => "-f"

/-! ## renderers -/

/-- round half even of a non-negative rational -/
def roundHalfEven (q : Rat) : Nat :=
  let fl := q.floor.toNat
  let r := q - (fl : Rat)
  if r > (1 : Rat) / 2 then fl + 1
  else if r < (1 : Rat) / 2 then fl
  else if fl % 2 = 0 then fl else fl + 1

def natDigits (n : Nat) : List Nat := (Nat.toDigits 10 n).map (·.toNat)

def padLeft (p : Nat) (l : List Nat) : List Nat := List.replicate (p - l.length) 48 ++ l

/-- the decimal with `p` fraction digits nearest to `a ≥ 0` (ties to even): what `printf("%.*f", p, a)` prints -/
def nearestDecimal (a : Rat) (p : Nat) : List Nat :=
  let n := roundHalfEven (a * pow10Q p)
  let ip := n / 10 ^ p
  let fr := n % 10 ^ p
  if p = 0 then natDigits ip else natDigits ip ++ 46 :: padLeft p (natDigits fr)

/-- `[-]` ++ nearest decimal; the `-` exactly for arguments below zero -/
def canonText (neg : Bool) (a : Rat) (p : Nat) : List Nat :=
  (if neg && a != 0 then [45] else []) ++ nearestDecimal a p

/-- the binade exponent: `a` in `[2^(e-1), 2^e)` for `a > 0` (frexp) -/
def frexpE (a : Rat) : Int :=
  let e0 : Int := (Nat.log2 a.num.natAbs : Int) - (Nat.log2 a.den : Int)
  if a ≥ pow2Q e0 then e0 + 1 else e0

/-- ulp of the binary32 binade containing `a` (harness `ulp32_of`) -/
def ulp32 (a : Rat) : Rat := if a < pow2Q (-126) then pow2Q (-149) else pow2Q (frexpE a - 24)
def ulp64 (a : Rat) : Rat := if a < pow2Q (-1022) then pow2Q (-1074) else pow2Q (frexpE a - 53)

/-- digits at the head of a text: value, count, first character, rest -/
def readDigits : List Nat → Nat → Nat → Nat × Nat × List Nat
  | [], v, n => (v, n, [])
  | c :: r, v, n => if isDigit c then readDigits r (v * 10 + (c - 48)) (n + 1) else (v, n, c :: r)

/-- shape `[-] d+ [. d{p}]` of a rendered text: `some (integer part, fraction as an integer)` when the text has
    the sign `neg`, 1..`maxInt` integer digits without a leading zero and exactly `p` fraction digits -/
def shapeOf (neg : Bool) (maxInt p : Nat) (t : List Nat) : Option (Nat × Nat) :=
  let (hasMinus, t1) : Bool × List Nat := match t with | 45 :: r => (true, r) | _ => (false, t)
  if hasMinus != neg then none else
  let (ip, ni, t2) := readDigits t1 0 0
  if ni = 0 ∨ ni > maxInt then none
  else if ni > 1 ∧ t1.head? = some 48 then none
  else if p = 0 then (if t2.isEmpty then some (ip, 0) else none)
  else
    match t2 with
    | 46 :: r =>
      let (fp, nf, t3) := readDigits r 0 0
      if t3.isEmpty ∧ nf = p then some (ip, fp) else none
    | _ => none

/-- harness `check_ftoa_text` for a finite argument: `a` = |argument| exact, `fneg` = the float the renderer
    works on is below zero, `p` = effective precision -/
def ftoaWithin (fromDouble fneg : Bool) (a : Rat) (p : Nat) (t : List Nat) : Bool :=
  match shapeOf fneg 10 p t with
  | none => false
  | some (ip, fp) =>
    let u := 1 / pow10Q p
    let r : Rat := if p = 0 then 0 else u / 2
    let tv : Rat := (ip : Rat) + (fp : Rat) / pow10Q p
    let S := (if fromDouble then 5 else 4) * ulp32 (a + r)
    let e := tv - a
    decide (e ≤ r + S) && decide (e > -(u - r) - S)

/-- the automatic precision table on the value (harness `auto_prec`) -/
def autoP (a : Rat) : Nat :=
  if a < 1 then 6 else if a < 10 then 5 else if a < 100 then 4 else if a < 1000 then 3
  else if a < 10000 then 2 else if a < 100000 then 1 else 0

def effP (fa : Rat) (prec8 : Int) : Nat :=
  let p := if prec8 > 10 then 10 else prec8
  if p < 0 then autoP fa else p.toNat

/-- harness `check_dprint` for a finite argument -/
def dprintWithin (neg : Bool) (a : Rat) (p : Nat) (t : List Nat) : Bool :=
  match shapeOf neg 20 p t with
  | none => false
  | some (ip, fp) =>
    let u := 1 / pow10Q p
    let tv : Rat := (ip : Rat) + (fp : Rat) / pow10Q p
    let S := ((p + 3 : Nat) : Rat) * pow2Q (-53) * (if a < 1 then a else 1) + 2 * ulp64 a + pow2Q (-62) * (a + 1)
    decide (absQ (tv - a) ≤ u / 2 + S)

end Igris.C12.Canon
