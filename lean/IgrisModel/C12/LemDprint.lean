import IgrisModel.C12.LemParse
/-! C12 — lemmas, part 4: debug_printdec_double_prec over exact arithmetic. -/
namespace Igris.C12
open Spec FloatLike

theorem natDigitsRev_length (p fuel n : Nat) (h1 : 10 ^ p ≤ n) (h2 : n < 10 ^ (p + 1)) (hf : p + 1 ≤ fuel) :
    (natDigitsRev fuel n).length = p + 1 := by
  induction p generalizing fuel n with
  | zero =>
    obtain ⟨f, rfl⟩ : ∃ f, fuel = f + 1 := ⟨fuel - 1, by omega⟩
    have hn : n ≠ 0 := by simp at h1; omega
    have hq : n / 10 = 0 := by simp at h2; omega
    simp only [natDigitsRev, hn, if_false, hq]
    cases f <;> simp [natDigitsRev]
  | succ p ih =>
    obtain ⟨f, rfl⟩ : ∃ f, fuel = f + 1 := ⟨fuel - 1, by omega⟩
    have hpos : 0 < 10 ^ (p + 1) := Nat.pow_pos (by decide)
    have hn : n ≠ 0 := by omega
    simp only [natDigitsRev, hn, if_false, List.length_cons]
    rw [Nat.pow_succ] at h1
    rw [show 10 ^ (p + 1 + 1) = 10 ^ (p + 1) * 10 by rw [Nat.pow_succ]] at h2
    rw [ih f (n / 10) (by omega) (by omega) (by omega)]

theorem pow10_le_20 {p : Nat} (h : p ≤ 20) : 10 ^ p ≤ 10 ^ 20 := Nat.pow_le_pow_right (by decide) h

theorem decText_spec (n : Nat) (h : n < 10 ^ 20) :
    AllDigits (decText n) ∧ valL (decText n) = n ∧ Canonical (decText n) := by
  unfold decText
  by_cases h0 : n = 0
  · subst h0; simp [AllDigits, valL, Canonical]
  · simp only [h0, if_false]
    obtain ⟨h1, h2, _, h4, h5⟩ := natDigitsRev_spec 20 n h (by omega)
    exact ⟨h1, h2, h4, fun hh => absurd hh h5⟩

theorem decText_length (p n : Nat) (h1 : 10 ^ p ≤ n) (h2 : n < 10 ^ (p + 1)) (hp : p + 1 ≤ 20) :
    (decText n).length = p + 1 := by
  have hpos : 0 < 10 ^ p := Nat.pow_pos (by decide)
  have h0 : n ≠ 0 := by omega
  simp only [decText, h0, if_false, List.length_reverse]
  exact natDigitsRev_length p 20 n h1 h2 hp

theorem decText_length_small (n : Nat) (h : n < 10) : (decText n).length = 1 := by
  by_cases h0 : n = 0
  · subst h0; simp [decText]
  · exact decText_length 0 n (by simp; omega) (by simpa using h) (by omega)

theorem zeroPad_one (fuel frac : Nat) : zeroPad fuel 1 frac = [] := by
  cases fuel <;> simp [zeroPad]

/-- zero padding + digits = the fraction at fixed width `p + 1` -/
theorem zeroPad_spec (p fuel frac : Nat) (hf : frac < 10 ^ (p + 1)) (hfuel : p ≤ fuel) (hp : p + 1 ≤ 20) :
    (zeroPad fuel (10 ^ p) frac ++ decText frac).length = p + 1 ∧
    AllDigits (zeroPad fuel (10 ^ p) frac ++ decText frac) ∧
    valL (zeroPad fuel (10 ^ p) frac ++ decText frac) = frac := by
  have hdt := decText_spec frac (by have := pow10_le_20 (p := p + 1) (by omega); omega)
  induction p generalizing fuel with
  | zero =>
    simp only [Nat.pow_zero, zeroPad_one, List.nil_append]
    exact ⟨decText_length_small frac (by simpa using hf), hdt.1, hdt.2.1⟩
  | succ p ih =>
    obtain ⟨f, rfl⟩ : ∃ f, fuel = f + 1 := ⟨fuel - 1, by omega⟩
    have hpos : 0 < 10 ^ p := Nat.pow_pos (by decide)
    have hgt1 : 10 ^ (p + 1) > 1 := by rw [Nat.pow_succ]; omega
    have hdiv : 10 ^ (p + 1) / 10 = 10 ^ p := by rw [Nat.pow_succ]; omega
    by_cases hlt : 10 ^ (p + 1) > frac
    · simp only [zeroPad, hlt, hgt1, and_self, if_true, hdiv, List.cons_append]
      obtain ⟨i1, i2, i3⟩ := ih f hlt (by omega) (by omega)
      refine ⟨by simp [i1], ?_, ?_⟩
      · rw [allDigits_cons]; exact ⟨by omega, i2⟩
      · rw [valL_cons, i3]; simp
    · have hnot : ¬ (10 ^ (p + 1) > frac ∧ 10 ^ (p + 1) > 1) := fun h => hlt h.1
      simp only [zeroPad, hnot, if_false, List.nil_append]
      exact ⟨decText_length (p + 1) frac (by omega) hf (by omega), hdt.1, hdt.2.1⟩

/-! ### the routine -/

theorem q_half : (lit 5 1 : Rat) = 1 / 2 := by
  simp only [q_lit]; decide +kernel

theorem scaleUp_Q (n : Nat) (o : Rat) : scaleUp n o = o * (10 : Rat) ^ n := by
  unfold scaleUp; rw [iter_mul10]

theorem dprint_Q_core (a : Rat) (prec : Int) (hr : absQ a < 18446744073709551615)
    (p N : Nat) (hp : p = if prec > 18 then 18 else prec.toNat)
    (hNdef : N = (absQ a * (10 : Rat) ^ p + 1 / 2).floor.toNat) :
    ∃ fr : List Nat,
      dprintDouble a prec = some ((if a < 0 then [45] else []) ++ decText (N / 10 ^ p) ++
        (if p > 0 then 46 :: fr else [])) ∧
      AllDigits fr ∧ fr.length = p ∧ valL fr = N % 10 ^ p ∧
      AllDigits (decText (N / 10 ^ p)) ∧ Canonical (decText (N / 10 ^ p)) ∧ valL (decText (N / 10 ^ p)) = N / 10 ^ p := by
  have hp18 : p ≤ 18 := by
    rw [hp]; split <;> omega
  have hz : ((0 : Int) : Rat) = 0 := rfl
  have habs : (if decide (a < 0) = true then -a else a) = absQ a := by
    unfold absQ; by_cases h : a < 0 <;> simp [h]
  have hsign : (if decide (a < 0) = true then [45] else ([] : List Nat)) = if a < 0 then [45] else [] := by
    by_cases h : a < 0 <;> simp [h]
  have hnn := absQ_nonneg a
  -- integer part
  have hfl := Rat.floor_le (absQ a)
  have hfu := Rat.lt_floor_add_one (absQ a)
  have hk0 : 0 ≤ (absQ a).floor := Rat.le_floor_iff.mpr (by simpa using hnn)
  have hkmax : (absQ a).floor < 18446744073709551615 := Rat.floor_lt_iff.mpr (by simpa using hr)
  obtain ⟨n, hn⟩ : ∃ n : Nat, (absQ a).floor = (n : Int) := ⟨(absQ a).floor.toNat, by omega⟩
  have hcq : (((n : Int)) : Rat) = (n : Rat) := Rat.intCast_natCast n
  rw [hn] at hfl hfu
  have hfu' : absQ a < (n : Rat) + 1 := by
    have : (((n : Int) + 1 : Int) : Rat) = (n : Rat) + 1 := by simp [Rat.intCast_add]; rw [hcq]
    rw [this] at hfu; exact hfu
  rw [hcq] at hfl
  -- scaled fraction
  have hP := pow10_pos p
  generalize ho : absQ a - (n : Rat) = o at *
  have ho0 : 0 ≤ o := by grind
  have ho1 : o < 1 := by grind
  have hs0 : 0 ≤ o * (10 : Rat) ^ p + 1 / 2 := by
    have : 0 ≤ o * (10 : Rat) ^ p := Rat.mul_nonneg ho0 (Rat.le_of_lt hP)
    grind
  have hs1 : o * (10 : Rat) ^ p + 1 / 2 < (10 : Rat) ^ p + 1 := by
    have : o * (10 : Rat) ^ p < 1 * (10 : Rat) ^ p := Rat.mul_lt_mul_of_pos_right ho1 hP
    grind
  have hf0 : 0 ≤ (o * (10 : Rat) ^ p + 1 / 2).floor := Rat.le_floor_iff.mpr (by simpa using hs0)
  obtain ⟨fr, hfr⟩ : ∃ fr : Nat, (o * (10 : Rat) ^ p + 1 / 2).floor = (fr : Int) :=
    ⟨(o * (10 : Rat) ^ p + 1 / 2).floor.toNat, by omega⟩
  have hP10 : (((10 ^ p : Nat) : Int) : Rat) = (10 : Rat) ^ p := by
    rw [Rat.intCast_natCast, Rat.natCast_pow]; rfl
  have hfrle : fr ≤ 10 ^ p := by
    have : (o * (10 : Rat) ^ p + 1 / 2).floor < ((10 ^ p : Nat) : Int) + 1 := by
      apply Rat.floor_lt_iff.mpr
      rw [Rat.intCast_add, hP10]; simpa using hs1
    omega
  have h1018 : 10 ^ p ≤ 10 ^ 18 := Nat.pow_le_pow_right (by decide) hp18
  -- N = n * 10^p + fr
  have hN : N = n * 10 ^ p + fr := by
    rw [hNdef]
    have e : absQ a * (10 : Rat) ^ p + 1 / 2 = (o * (10 : Rat) ^ p + 1 / 2) + (((n * 10 ^ p : Nat) : Int) : Rat) := by
      rw [Rat.intCast_natCast, Rat.natCast_mul, Rat.natCast_pow]
      have : ((10 : Nat) : Rat) = 10 := rfl
      rw [this]; grind
    rw [e, Rat.floor_add_intCast, hfr]; omega
  -- unfold the routine
  have hunf : dprintDouble a prec =
      (let carry := 10 ^ p ≤ fr
       let frac := if carry then fr - 10 ^ p else fr
       let n' := if carry then (n + 1) % 2 ^ 64 else n
       if p > 0 then some ((if a < 0 then [45] else []) ++ decText n' ++ 46 :: (zeroPad 20 (10 ^ p / 10) frac ++ decText frac))
       else some ((if a < 0 then [45] else []) ++ decText n')) := by
    have hn64 : ¬ ((n : Int) < 0 ∨ (2 : Int) ^ 64 ≤ (n : Int)) := by omega
    have hfr64 : ¬ ((fr : Int) < 0 ∨ (2 : Int) ^ 64 ≤ (fr : Int)) := by omega
    simp only [dprintDouble, q_isNaN, q_isInf, Bool.false_eq_true, if_false, q_lt, q_ofInt, hz, q_neg, habs, hsign,
      q_trunc, truncQ_nonneg hnn, hn, hn64, q_sub, hcq, ho, ← hp, scaleUp_Q, q_add, q_half, truncQ_nonneg hs0, hfr, hfr64,
      Int.toNat_natCast]
  rw [hunf]
  by_cases hcarry : 10 ^ p ≤ fr
  · -- the rounding carried into the integer part
    have hfreq : fr = 10 ^ p := by omega
    have hNd : N / 10 ^ p = n + 1 := by
      rw [hN, hfreq]
      have : n * 10 ^ p + 10 ^ p = (n + 1) * 10 ^ p := by rw [Nat.add_mul]; simp
      rw [this, Nat.mul_div_cancel _ (Nat.pow_pos (by decide))]
    have hNm : N % 10 ^ p = 0 := by
      rw [hN, hfreq]
      have : n * 10 ^ p + 10 ^ p = (n + 1) * 10 ^ p := by rw [Nat.add_mul]; simp
      rw [this, Nat.mul_mod_left]
    have hmod : (n + 1) % 2 ^ 64 = n + 1 := Nat.mod_eq_of_lt (by omega)
    have hsub : fr - 10 ^ p = 0 := by omega
    simp only [hcarry, if_true, hmod, hsub]
    have hdt := decText_spec (n + 1) (by omega)
    by_cases hp0 : p > 0
    · obtain ⟨q, hq⟩ : ∃ q, p = q + 1 := ⟨p - 1, by omega⟩
      have hdiv : 10 ^ p / 10 = 10 ^ q := by rw [hq, Nat.pow_succ]; omega
      have hz := zeroPad_spec q 20 0 (Nat.pow_pos (by decide)) (by omega) (by omega)
      refine ⟨zeroPad 20 (10 ^ q) 0 ++ decText 0, ?_, hz.2.1, by rw [hz.1, hq], by rw [hz.2.2, hNm], ?_, ?_, ?_⟩
      · simp only [hp0, if_true, hNd, hdiv]
      · rw [hNd]; exact hdt.1
      · rw [hNd]; exact hdt.2.2
      · rw [hNd]; exact hdt.2.1
    · have hp0' : p = 0 := by omega
      refine ⟨[], ?_, allDigits_nil, by simp [hp0'], by simp [valL, hNm], ?_, ?_, ?_⟩
      · simp only [hp0, if_false, hNd, List.append_nil]
      · rw [hNd]; exact hdt.1
      · rw [hNd]; exact hdt.2.2
      · rw [hNd]; exact hdt.2.1
  · have hfrlt : fr < 10 ^ p := by omega
    have hNd : N / 10 ^ p = n := by
      rw [hN, Nat.mul_comm, Nat.mul_add_div (Nat.pow_pos (by decide)), Nat.div_eq_of_lt hfrlt]; simp
    have hNm : N % 10 ^ p = fr := by
      rw [hN, Nat.mul_comm, Nat.mul_add_mod, Nat.mod_eq_of_lt hfrlt]
    simp only [hcarry, if_false]
    have hdt := decText_spec n (by omega)
    by_cases hp0 : p > 0
    · obtain ⟨q, hq⟩ : ∃ q, p = q + 1 := ⟨p - 1, by omega⟩
      have hdiv : 10 ^ p / 10 = 10 ^ q := by rw [hq, Nat.pow_succ]; omega
      have hz := zeroPad_spec q 20 fr (by rw [← hq]; exact hfrlt) (by omega) (by omega)
      refine ⟨zeroPad 20 (10 ^ q) fr ++ decText fr, ?_, hz.2.1, by rw [hz.1, hq], by rw [hz.2.2, hNm], ?_, ?_, ?_⟩
      · simp only [hp0, if_true, hNd, hdiv]
      · rw [hNd]; exact hdt.1
      · rw [hNd]; exact hdt.2.2
      · rw [hNd]; exact hdt.2.1
    · have hp0' : p = 0 := by omega
      have : fr = 0 := by rw [hp0'] at hfrlt; simpa using hfrlt
      refine ⟨[], ?_, allDigits_nil, by simp [hp0'], by simp [valL, hNm, this], ?_, ?_, ?_⟩
      · simp only [hp0, if_false, hNd, List.append_nil]
      · rw [hNd]; exact hdt.1
      · rw [hNd]; exact hdt.2.2
      · rw [hNd]; exact hdt.2.1

end Igris.C12
