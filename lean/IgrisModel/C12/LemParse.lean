import IgrisModel.C12.Lemmas
/-! C12 — lemmas, part 2: the parsers over exact arithmetic. -/
namespace Igris.C12
open Spec FloatLike

theorem isDigit_iff (c : Nat) : isDigit c = true ↔ 48 ≤ c ∧ c ≤ 57 := by simp [isDigit]
theorem isDigit_false_iff (c : Nat) : isDigit c = false ↔ ¬ (48 ≤ c ∧ c ≤ 57) := by
  rw [← isDigit_iff]; simp

/-- the list is non-empty and its first byte is not a digit -/
def NonDigitHead (r : List Nat) : Prop := ∃ c tl, r = c :: tl ∧ ¬ (48 ≤ c ∧ c ≤ 57)

theorem nonDigitHead_cons (c : Nat) (tl : List Nat) (h : ¬ (48 ≤ c ∧ c ≤ 57)) : NonDigitHead (c :: tl) :=
  ⟨c, tl, rfl, h⟩

theorem q_ten : ((10 : Int) : Rat) = 10 := by decide
theorem q_zero : ((0 : Int) : Rat) = 0 := by decide

theorem digit_cast (d : Nat) (h : 48 ≤ d) : (((d : Int) - 48 : Int) : Rat) = ((d - 48 : Nat) : Rat) := by
  have : (d : Int) - 48 = ((d - 48 : Nat) : Int) := by omega
  rw [this, Rat.intCast_natCast]

/-! ### mantissa loop -/

theorem mantLoop_Q (ds r : List Nat) (hd : AllDigits ds) (hr : NonDigitHead r) (v : Rat) (k : Nat) :
    mantLoop (ds ++ r) v k = some (v * (10 : Rat) ^ ds.length + ((valL ds : Nat) : Rat), k + ds.length, r) := by
  induction ds generalizing v k with
  | nil =>
    obtain ⟨c, tl, rfl, hc⟩ := hr
    have : isDigit c = false := (isDigit_false_iff c).mpr hc
    simp [mantLoop, this, valL]
    grind
  | cons d ds ih =>
    have hd' := allDigits_cons.mp hd
    have hdig : isDigit d = true := (isDigit_iff d).mpr hd'.1
    simp only [List.cons_append, mantLoop, hdig, if_true, q_mul, q_add, q_ofInt, q_ten]
    rw [ih hd'.2, digit_cast d hd'.1.1, valL_cons]
    have e : (((d - 48) * 10 ^ ds.length + valL ds : Nat) : Rat)
        = ((d - 48 : Nat) : Rat) * (10 : Rat) ^ ds.length + ((valL ds : Nat) : Rat) := by
      simp [Rat.natCast_add, Rat.natCast_mul, Rat.natCast_pow]
    rw [e]
    simp only [List.length_cons, Option.some.injEq, Prod.mk.injEq]
    refine ⟨by grind, by omega, trivial⟩

/-! ### exponent block -/

theorem expDigits_spec (ds r : List Nat) (hd : AllDigits ds) (hr : NonDigitHead r) (acc : Nat)
    (hlt : acc * 10 ^ ds.length + valL ds < 1000000) :
    expDigits (ds ++ r) acc = some (acc * 10 ^ ds.length + valL ds, r) := by
  induction ds generalizing acc with
  | nil =>
    obtain ⟨c, tl, rfl, hc⟩ := hr
    have : isDigit c = false := (isDigit_false_iff c).mpr hc
    simp [expDigits, this, valL]
  | cons d ds ih =>
    have hd' := allDigits_cons.mp hd
    have hdig : isDigit d = true := (isDigit_iff d).mpr hd'.1
    rw [valL_cons] at hlt
    simp only [List.length_cons, Nat.pow_succ] at hlt
    have hpos : 0 < 10 ^ ds.length := Nat.pow_pos (by decide)
    have hacc : acc < 100000 := by
      by_cases h : acc < 100000
      · exact h
      · have : 100000 * (10 ^ ds.length * 10) ≤ acc * (10 ^ ds.length * 10) := Nat.mul_le_mul_right _ (by omega)
        have : 100000 * 10 ≤ 100000 * (10 ^ ds.length * 10) := Nat.mul_le_mul_left _ (by omega)
        omega
    simp only [List.cons_append, expDigits, hdig, if_true, hacc]
    have e : (acc * 10 + (d - 48)) * 10 ^ ds.length + valL ds
        = acc * (10 ^ ds.length * 10) + ((d - 48) * 10 ^ ds.length + valL ds) := by
      rw [Nat.add_mul]; simp [Nat.mul_assoc, Nat.mul_comm, Nat.add_assoc]
    rw [ih hd'.2 _ (by omega), valL_cons]
    simp only [List.length_cons, Nat.pow_succ, Option.some.injEq, Prod.mk.injEq]
    refine ⟨by omega, trivial⟩

/-- an `e` that does not start an exponent is left alone (the reads stay inside the
    allocation because the NUL comes later) -/
theorem parseExp_none (r : List Nat) (hnul : 0 ∈ r) (hne : expStart r = false) :
    parseExp r = some (false, 0, r) := by
  match r, hnul, hne with
  | [], hnul, _ => cases hnul
  | [c], hnul, _ =>
    have : c = 0 := by simp at hnul; omega
    subst this; simp [parseExp]
  | c :: d :: tl, hnul, hne =>
    by_cases hc : c = 69 ∨ c = 101
    · have hc0 : c ≠ 0 := by omega
      have hce : (c == 69 || c == 101) = true := by
        rcases hc with h | h <;> simp [h]
      simp only [expStart, hce, Bool.true_and] at hne
      by_cases hs : d = 43 ∨ d = 45
      · have hse : (d == 43 || d == 45) = true := by rcases hs with h | h <;> simp [h]
        have hnd : ¬ (48 ≤ d ∧ d ≤ 57) := by omega
        have hnd' : (decide (48 ≤ d) && decide (d ≤ 57)) = false := by
          simp; omega
        simp only [hnd', hse, Bool.true_and, Bool.false_or] at hne
        match tl, hnul, hne with
        | [], hnul, _ =>
          simp at hnul; omega
        | x :: tl', _, hne =>
          have hx : isDigit x = false := by simpa [isDigit] using hne
          simp [parseExp, hc, hs, hx]
      · have hse : (d == 43 || d == 45) = false := by
          simp; omega
        simp only [hse, Bool.false_and, Bool.or_false] at hne
        have hx : isDigit d = false := by simpa [isDigit] using hne
        simp [parseExp, hc, hs, hx]
    · simp [parseExp, hc]

theorem parseExp_some (ch : Nat) (s : Option Bool) (ds r : List Nat) (hch : ch = 69 ∨ ch = 101)
    (hd : AllDigits ds) (hne : ds ≠ []) (hv : valL ds < 1000000) (hr : NonDigitHead r) :
    parseExp (ch :: (Literal.signText s ++ ds) ++ r) = some (decide (s = some true), valL ds, r) := by
  obtain ⟨d, ds', rfl⟩ := List.exists_cons_of_ne_nil hne
  have hd' := allDigits_cons.mp hd
  have hdig : isDigit d = true := (isDigit_iff d).mpr hd'.1
  have hres := expDigits_spec (d :: ds') r hd hr 0 (by simpa using hv)
  simp only [Nat.zero_mul, Nat.zero_add, List.cons_append] at hres
  match s with
  | none =>
    have h1 : ¬ (d = 43 ∨ d = 45) := by omega
    have h2 : ¬ (d = 45) := by omega
    have h3 : ¬ (d = 43) := by omega
    simp [parseExp, hch, Literal.signText, h2, h3, hdig, hres]
  | some true =>
    simp [parseExp, hch, Literal.signText, hdig, hres]
  | some false =>
    simp [parseExp, hch, Literal.signText, hdig, hres]

/-! ### scaling loops -/

theorem iter_mul10 (n : Nat) (v : Rat) : iter (fun v => mul v (ofInt 10)) n v = v * (10 : Rat) ^ n := by
  induction n generalizing v with
  | zero => simp [iter]
  | succ n ih => simp only [iter]; rw [ih]; simp only [q_mul, q_ofInt, q_ten]; grind

theorem iter_tenth (n : Nat) (v : Rat) : iter (fun v => mul v (lit 1 1)) n v = v / (10 : Rat) ^ n := by
  induction n generalizing v with
  | zero => simp [iter]; grind
  | succ n ih =>
    have := pow10_pos n
    have := pow10_pos (n + 1)
    simp only [iter]; rw [ih]; simp only [q_mul, q_lit]; grind

theorem iter_div10 (n : Nat) (v : Rat) : iter (fun v => div v (ofInt 10)) n v = v / (10 : Rat) ^ n := by
  induction n generalizing v with
  | zero => simp [iter]; grind
  | succ n ih =>
    have := pow10_pos n
    have := pow10_pos (n + 1)
    simp only [iter]; rw [ih]; simp only [q_div, q_ofInt, q_ten]; grind

theorem pow10_split (a b : Nat) : (10 : Rat) ^ (a + b) = (10 : Rat) ^ a * (10 : Rat) ^ b := by
  induction b with
  | zero => simp
  | succ b ih => rw [← Nat.add_assoc, Rat.pow_succ, Rat.pow_succ, ih]; grind

theorem scale_shift (M : Rat) (nf : Nat) (e : Int) :
    (if e - (nf : Int) > 0 then M * (10 : Rat) ^ (e - (nf : Int)).toNat else M / (10 : Rat) ^ (-(e - (nf : Int))).toNat)
      = Literal.scale10 (M / (10 : Rat) ^ nf) e := by
  unfold Literal.scale10
  have hnf := pow10_pos nf
  by_cases h1 : e - (nf : Int) > 0
  · have h2 : 0 ≤ e := by omega
    simp only [h1, h2, if_true]
    have : e.toNat = (e - (nf : Int)).toNat + nf := by omega
    rw [this, pow10_split]
    have := pow10_pos (e - (nf : Int)).toNat
    grind
  · simp only [h1, if_false]
    by_cases h2 : 0 ≤ e
    · simp only [h2, if_true]
      have : nf = (-(e - (nf : Int))).toNat + e.toNat := by omega
      have hh : (10 : Rat) ^ nf = (10 : Rat) ^ (-(e - (nf : Int))).toNat * (10 : Rat) ^ e.toNat := by
        rw [← pow10_split, ← this]
      have := pow10_pos (-(e - (nf : Int))).toNat
      have := pow10_pos e.toNat
      rw [hh]; grind
    · simp only [h2, if_false]
      have : (-(e - (nf : Int))).toNat = nf + (-e).toNat := by omega
      rw [this, pow10_split]
      have := pow10_pos (-e).toNat
      grind

/-! ### igris_atof64 on a literal -/

theorem stops_nonDigitHead {L : Literal} {rest : List Nat} (h : Stops L rest) : NonDigitHead rest := by
  obtain ⟨hnul, hhead, _⟩ := h
  match rest, hnul, hhead with
  | [], hnul, _ => cases hnul
  | c :: tl, _, hhead => exact ⟨c, tl, rfl, by simpa using hhead⟩

theorem mantLoop_Q0 (ds r : List Nat) (hd : AllDigits ds) (hr : NonDigitHead r) :
    mantLoop (ds ++ r) (0 : Rat) 0 = some (((valL ds : Nat) : Rat), ds.length, r) := by
  rw [mantLoop_Q ds r hd hr]; simp [Rat.zero_add]

theorem scale64_Q (v : Rat) (d : Int) :
    scale64 v d = if d > 0 then v * (10 : Rat) ^ d.toNat else v / (10 : Rat) ^ (-d).toNat := by
  unfold scale64; rw [iter_mul10, iter_tenth]

theorem scale32_Q (v : Rat) (eneg : Bool) (ev : Nat) :
    scale32 v eneg ev = if eneg then v / (10 : Rat) ^ ev else v * (10 : Rat) ^ ev := by
  unfold scale32; rw [iter_mul10, iter_div10]

/-- the stages of `atof64Body`, for any arithmetic -/
theorem atof64Body_stages {F : Type} [FloatLike F] (p q p2 p3 : List Nat) (c n1 nf ev : Nat) (v1 v2 : F) (eneg : Bool)
    (h1 : mantLoop p (ofInt 0 : F) 0 = some (v1, n1, c :: q))
    (h2 : (if c = 46 then mantLoop q v1 0 else some (v1, 0, c :: q)) = some (v2, nf, p2))
    (h3 : parseExp p2 = some (eneg, ev, p3)) :
    atof64Body p = some (scale64 v2 ((if eneg then -(ev : Int) else ev) - nf), p3) := by
  simp only [atof64Body, h1, h2, h3]

theorem natCast_val_append (ip fp : List Nat) :
    ((valL (ip ++ fp) : Nat) : Rat) = ((valL ip : Nat) : Rat) * (10 : Rat) ^ fp.length + ((valL fp : Nat) : Rat) := by
  rw [valL_append]; simp [Rat.natCast_add, Rat.natCast_mul, Rat.natCast_pow]

theorem atof64Body_Q (L : Literal) (rest : List Nat) (hwf : L.WF) (hst : Stops L rest) :
    atof64Body (L.ip ++ Literal.fracText L.frac ++ Literal.expText L.exp ++ rest)
      = some (Literal.scale10 (((valL (L.ip ++ L.fracDigits) : Nat) : Rat) / (10 : Rat) ^ L.fracDigits.length)
          L.expValue, rest) := by
  obtain ⟨sign, ip, frac, exp⟩ := L
  obtain ⟨hip, hfp, hexp⟩ := hwf
  have hndr := stops_nonDigitHead hst
  obtain ⟨hnul, _, hst3, hst4, _⟩ := hst
  simp only at hip hfp hexp hst3 hst4
  simp only [Literal.fracDigits, Literal.expValue]
  cases frac with
  | none =>
    cases exp with
    | none =>
      obtain ⟨c, tl, rfl, hc⟩ := hndr
      have hc46 : c ≠ 46 := by
        have := hst4 rfl rfl; simpa using this
      have hA := mantLoop_Q0 ip (c :: tl) hip ⟨c, tl, rfl, hc⟩
      have hP := parseExp_none (c :: tl) hnul (hst3 rfl)
      have := atof64Body_stages (F := Rat) (ip ++ c :: tl) tl (c :: tl) (c :: tl) c ip.length 0 0
        ((valL ip : Nat) : Rat) ((valL ip : Nat) : Rat) false hA (by simp [hc46]) hP
      simp only [Literal.fracText, Literal.expText, List.append_nil]
      rw [this, scale64_Q, scale_shift]
      simp
    | some e =>
      obtain ⟨ch, s, ds⟩ := e
      obtain ⟨hch, hds, hdne, hdv⟩ := hexp ch s ds rfl
      have hch46 : ch ≠ 46 := by omega
      have hnd : NonDigitHead (ch :: (Literal.signText s ++ ds) ++ rest) := ⟨ch, _, rfl, by omega⟩
      have hA := mantLoop_Q0 ip _ hip hnd
      have hP := parseExp_some ch s ds rest hch hds hdne hdv hndr
      have := atof64Body_stages (F := Rat) _ _ _ _ ch ip.length 0 (valL ds) _ _ (decide (s = some true))
        hA (by simp [hch46]; rfl) hP
      simp only [Literal.fracText, Literal.expText, List.append_nil, List.append_assoc] at this ⊢
      rw [this, scale64_Q, scale_shift]
      by_cases hs : s = some true <;> simp [hs]
  | some fp =>
    have hfpd := hfp fp rfl
    cases exp with
    | none =>
      have hA := mantLoop_Q0 ip (46 :: fp ++ rest) hip ⟨46, _, rfl, by omega⟩
      have hB := mantLoop_Q fp rest hfpd hndr ((valL ip : Nat) : Rat) 0
      have hP := parseExp_none rest hnul (hst3 rfl)
      have := atof64Body_stages (F := Rat) _ _ _ _ 46 ip.length _ 0 _ _ false
        hA (by simp only [if_true]; exact hB) hP
      simp only [Literal.fracText, Literal.expText, List.append_nil, List.append_assoc, List.cons_append] at this ⊢
      rw [this, scale64_Q, scale_shift, natCast_val_append]
      simp
    | some e =>
      obtain ⟨ch, s, ds⟩ := e
      obtain ⟨hch, hds, hdne, hdv⟩ := hexp ch s ds rfl
      have hnd : NonDigitHead (ch :: (Literal.signText s ++ ds) ++ rest) := ⟨ch, _, rfl, by omega⟩
      have hA := mantLoop_Q0 ip (46 :: fp ++ (ch :: (Literal.signText s ++ ds) ++ rest)) hip ⟨46, _, rfl, by omega⟩
      have hB := mantLoop_Q fp _ hfpd hnd ((valL ip : Nat) : Rat) 0
      have hP := parseExp_some ch s ds rest hch hds hdne hdv hndr
      have := atof64Body_stages (F := Rat) _ _ _ _ 46 ip.length _ (valL ds) _ _ (decide (s = some true))
        hA (by simp only [if_true]; exact hB) hP
      simp only [Literal.fracText, Literal.expText, List.append_nil, List.append_assoc, List.cons_append] at this ⊢
      rw [this, scale64_Q, scale_shift, natCast_val_append]
      by_cases hs : s = some true <;> simp [hs]

/-- without a sign character the text does not begin with '+' or '-' -/
theorem body_head_not_sign (L : Literal) (rest : List Nat) (hwf : L.WF) (hst : Stops L rest) (hs : L.sign = none) :
    ∃ c0 s1, L.ip ++ Literal.fracText L.frac ++ Literal.expText L.exp ++ rest = c0 :: s1 ∧ c0 ≠ 43 ∧ c0 ≠ 45 := by
  obtain ⟨sign, ip, frac, exp⟩ := L
  obtain ⟨hip, hfp, hexp⟩ := hwf
  have hndr := stops_nonDigitHead hst
  obtain ⟨_, _, _, _, hst5⟩ := hst
  simp only at hip hfp hexp hst5 hs
  cases ip with
  | cons d ds =>
    have := (allDigits_cons.mp hip).1
    exact ⟨d, _, rfl, by omega, by omega⟩
  | nil =>
    cases frac with
    | some fp => exact ⟨46, _, rfl, by omega, by omega⟩
    | none =>
      cases exp with
      | some e =>
        obtain ⟨ch, s, ds⟩ := e
        obtain ⟨hch, _⟩ := hexp ch s ds rfl
        exact ⟨ch, _, rfl, by omega, by omega⟩
      | none =>
        obtain ⟨c, tl, rfl, _⟩ := hndr
        have := hst5 hs rfl rfl rfl
        refine ⟨c, tl, by simp [Literal.fracText, Literal.expText], ?_, ?_⟩
        · have := this.1; simpa using this
        · have := this.2; simpa using this

theorem q_neg_one_mul (v : Rat) : mul (ofInt (-1) : Rat) v = -v := by
  simp only [q_mul, q_ofInt]
  have : ((-1 : Int) : Rat) = -1 := by decide
  rw [this]; grind

theorem q_one_mul (v : Rat) : mul (ofInt 1 : Rat) v = v := by
  simp only [q_mul, q_ofInt]
  have : ((1 : Int) : Rat) = 1 := by decide
  rw [this]; grind

theorem atof64_unsigned {F : Type} [FloatLike F] (c0 : Nat) (s1 : List Nat) (h43 : c0 ≠ 43) (h45 : c0 ≠ 45) :
    atof64 (F := F) (c0 :: s1) = (atof64Body (c0 :: s1)).map fun (val, rest) =>
      (mul (ofInt 1) val, (c0 :: s1).length - rest.length) := by
  simp [atof64, h43, h45]

theorem atof64_minus {F : Type} [FloatLike F] (s1 : List Nat) :
    atof64 (F := F) (45 :: s1) = (atof64Body s1).map fun (val, rest) =>
      (mul (ofInt (-1)) val, (45 :: s1).length - rest.length) := by
  simp [atof64]

theorem atof64_plus {F : Type} [FloatLike F] (s1 : List Nat) :
    atof64 (F := F) (43 :: s1) = (atof64Body s1).map fun (val, rest) =>
      (mul (ofInt 1) val, (43 :: s1).length - rest.length) := by
  simp [atof64]

theorem atof64_Q (L : Literal) (rest : List Nat) (hwf : L.WF) (hst : Stops L rest) :
    atof64 (L.text ++ rest) = some (L.value, L.text.length) := by
  have hbody := atof64Body_Q L rest hwf hst
  unfold Literal.text Literal.value Literal.isNeg
  cases hs : L.sign with
  | none =>
    obtain ⟨c0, s1, hcs, h43, h45⟩ := body_head_not_sign L rest hwf hst hs
    have htxt : Literal.signText none ++ L.ip ++ Literal.fracText L.frac ++ Literal.expText L.exp ++ rest = c0 :: s1 := by
      simpa [Literal.signText] using hcs
    rw [htxt, atof64_unsigned c0 s1 h43 h45, ← hcs, hbody]
    simp only [Option.map_some, Option.some.injEq, Prod.mk.injEq]
    refine ⟨by rw [q_one_mul]; simp, ?_⟩
    simp [Literal.signText, List.length_append]; omega
  | some b =>
    cases b with
    | true =>
      have htxt : Literal.signText (some true) ++ L.ip ++ Literal.fracText L.frac ++ Literal.expText L.exp ++ rest
          = 45 :: (L.ip ++ Literal.fracText L.frac ++ Literal.expText L.exp ++ rest) := by
        simp [Literal.signText]
      rw [htxt, atof64_minus, hbody]
      simp only [Option.map_some, Option.some.injEq, Prod.mk.injEq]
      refine ⟨by rw [q_neg_one_mul]; simp, ?_⟩
      simp [Literal.signText, List.length_append]; omega
    | false =>
      have htxt : Literal.signText (some false) ++ L.ip ++ Literal.fracText L.frac ++ Literal.expText L.exp ++ rest
          = 43 :: (L.ip ++ Literal.fracText L.frac ++ Literal.expText L.exp ++ rest) := by
        simp [Literal.signText]
      rw [htxt, atof64_plus, hbody]
      simp only [Option.map_some, Option.some.injEq, Prod.mk.injEq]
      refine ⟨by rw [q_one_mul]; simp, ?_⟩
      simp [Literal.signText, List.length_append]; omega

/-! ### igris_atof32 on a literal -/

theorem atou10_spec (M : Nat) (ds r : List Nat) (hd : AllDigits ds) (hr : NonDigitHead r) (acc k : Nat)
    (hlt : acc * 10 ^ ds.length + valL ds < M) :
    atou10 M (ds ++ r) acc k = some (acc * 10 ^ ds.length + valL ds, k + ds.length, r) := by
  induction ds generalizing acc k with
  | nil =>
    obtain ⟨c, tl, rfl, hc⟩ := hr
    have : isDigit c = false := (isDigit_false_iff c).mpr hc
    simp [atou10, this, valL]
  | cons d ds ih =>
    have hd' := allDigits_cons.mp hd
    have hdig : isDigit d = true := (isDigit_iff d).mpr hd'.1
    rw [valL_cons] at hlt
    simp only [List.length_cons, Nat.pow_succ] at hlt
    have hpos : 0 < 10 ^ ds.length := Nat.pow_pos (by decide)
    have e : (acc * 10 + (d - 48)) * 10 ^ ds.length + valL ds
        = acc * (10 ^ ds.length * 10) + ((d - 48) * 10 ^ ds.length + valL ds) := by
      rw [Nat.add_mul]; simp [Nat.mul_assoc, Nat.mul_comm, Nat.add_assoc]
    have hstep : acc * 10 + (d - 48) < M := by
      have : acc * 10 + (d - 48) ≤ (acc * 10 + (d - 48)) * 10 ^ ds.length := Nat.le_mul_of_pos_right _ hpos
      omega
    simp only [List.cons_append, atou10, hdig, if_true, Nat.mod_eq_of_lt hstep]
    rw [ih hd'.2 _ _ (by omega), valL_cons]
    simp only [List.length_cons, Nat.pow_succ, Option.some.injEq, Prod.mk.injEq]
    refine ⟨by omega, by omega, trivial⟩

/-- the stages of `atof32Body`, for any arithmetic -/
theorem atof32Body_stages {F D : Type} [FloatLike F] [FloatLike D] (cvt : D → F)
    (p p1 p2 p3 : List Nat) (u n0 ev : Nat) (ret : F) (eneg : Bool)
    (h1 : atou10 (2 ^ 32) p 0 0 = some (u, n0, p1))
    (h2 : atof32Frac (D := D) cvt u p1 = some (ret, p2))
    (h3 : parseExp p2 = some (eneg, ev, p3)) :
    atof32Body (D := D) cvt p = some (scale32 ret eneg ev, p3) := by
  simp only [atof32Body, h1, h2, h3]

theorem atof32Frac_nodot {F D : Type} [FloatLike F] [FloatLike D] (cvt : D → F) (u c : Nat) (q : List Nat)
    (hc : c ≠ 46) : atof32Frac (D := D) cvt u (c :: q) = some ((ofInt u : F), c :: q) := by
  simp [atof32Frac, hc]

theorem atof32Frac_dot {F D : Type} [FloatLike F] [FloatLike D] (cvt : D → F) (u d n : Nat) (q p' : List Nat)
    (h1 : atou10 (2 ^ 64) q 0 0 = some (d, n, p')) (h2 : n ≤ 18) :
    atof32Frac (D := D) cvt u (46 :: q)
      = some (add (ofInt u) (cvt (div (ofInt (toInt64 d) : D) (ofInt ((10 ^ n : Nat) : Int)))), p') := by
  have : 10 ^ n ≤ 10 ^ 18 := Nat.pow_le_pow_right (by decide) h2
  have : 10 ^ n < 2 ^ 63 := by omega
  simp [atof32Frac, h1, localPow10, this]

theorem scale32_eq (X : Rat) (eneg : Bool) (ev : Nat) :
    (if eneg then X / (10 : Rat) ^ ev else X * (10 : Rat) ^ ev)
      = Literal.scale10 X (if eneg then -(ev : Int) else ev) := by
  unfold Literal.scale10
  cases eneg with
  | false => simp
  | true =>
    by_cases h : ev = 0
    · subst h; simp; grind
    · have : ¬ (0 ≤ -(ev : Int)) := by omega
      simp [this, h]

theorem atof32Body_Q (L : Literal) (rest : List Nat) (hwf : L.WF) (hst : Stops L rest)
    (hip32 : valL L.ip < 2 ^ 32) (hfp18 : L.fracDigits.length ≤ 18) :
    atof32Body (F := Rat) (D := Rat) id (L.ip ++ Literal.fracText L.frac ++ Literal.expText L.exp ++ rest)
      = some (Literal.scale10 (((valL (L.ip ++ L.fracDigits) : Nat) : Rat) / (10 : Rat) ^ L.fracDigits.length)
          L.expValue, rest) := by
  obtain ⟨sign, ip, frac, exp⟩ := L
  obtain ⟨hip, hfp, hexp⟩ := hwf
  have hndr := stops_nonDigitHead hst
  obtain ⟨hnul, _, hst3, hst4, _⟩ := hst
  simp only at hip hfp hexp hst3 hst4 hip32
  simp only [Literal.fracDigits] at hfp18
  simp only [Literal.fracDigits, Literal.expValue]
  have hU : ∀ r, NonDigitHead r → atou10 (2 ^ 32) (ip ++ r) 0 0 = some (valL ip, ip.length, r) := by
    intro r hr
    have := atou10_spec (2 ^ 32) ip r hip hr 0 0 (by simpa using hip32)
    simpa using this
  cases frac with
  | none =>
    cases exp with
    | none =>
      obtain ⟨c, tl, rfl, hc⟩ := hndr
      have hc46 : c ≠ 46 := by
        have := hst4 rfl rfl; simpa using this
      have hA := hU (c :: tl) ⟨c, tl, rfl, hc⟩
      have hP := parseExp_none (c :: tl) hnul (hst3 rfl)
      have := atof32Body_stages (F := Rat) (D := Rat) id (ip ++ c :: tl) (c :: tl) (c :: tl) (c :: tl) (valL ip) ip.length 0
        (((valL ip : Nat) : Int) : Rat) false hA (atof32Frac_nodot id _ c tl hc46) hP
      simp only [Literal.fracText, Literal.expText, List.append_nil]
      rw [this, scale32_Q, scale32_eq]
      simp [Rat.intCast_natCast]; grind
    | some e =>
      obtain ⟨ch, s, ds⟩ := e
      obtain ⟨hch, hds, hdne, hdv⟩ := hexp ch s ds rfl
      have hch46 : ch ≠ 46 := by omega
      have hnd : NonDigitHead (ch :: (Literal.signText s ++ ds) ++ rest) := ⟨ch, _, rfl, by omega⟩
      have hA := hU _ hnd
      have hP := parseExp_some ch s ds rest hch hds hdne hdv hndr
      have := atof32Body_stages (F := Rat) (D := Rat) id _ _ _ _ (valL ip) ip.length (valL ds)
        (((valL ip : Nat) : Int) : Rat) (decide (s = some true)) hA (atof32Frac_nodot id _ ch _ hch46) hP
      simp only [Literal.fracText, Literal.expText, List.append_nil, List.append_assoc] at this ⊢
      rw [this, scale32_Q, scale32_eq]
      by_cases hs : s = some true <;> simp [hs, Rat.intCast_natCast] <;> grind
  | some fp =>
    have hfpd := hfp fp rfl
    simp only [Option.getD_some] at hfp18
    have hfpv : valL fp < 10 ^ 18 := by
      have h1 := valL_lt fp hfpd
      have h2 : 10 ^ fp.length ≤ 10 ^ 18 := Nat.pow_le_pow_right (by decide) hfp18
      omega
    have hD : ∀ r, NonDigitHead r → atou10 (2 ^ 64) (fp ++ r) 0 0 = some (valL fp, fp.length, r) := by
      intro r hr
      have := atou10_spec (2 ^ 64) fp r hfpd hr 0 0 (by simp; omega)
      simpa using this
    have h64 : toInt64 (valL fp) = ((valL fp : Nat) : Int) := by
      unfold toInt64; have : valL fp < 2 ^ 63 := by omega
      simp [this]
    have hval : (((valL ip : Nat) : Int) : Rat) + (((valL fp : Nat) : Int) : Rat) / (((10 ^ fp.length : Nat) : Int) : Rat)
        = ((valL (ip ++ fp) : Nat) : Rat) / (10 : Rat) ^ fp.length := by
      rw [natCast_val_append]
      have := pow10_pos fp.length
      simp only [Rat.intCast_natCast, Rat.natCast_pow]
      have e10 : ((10 : Nat) : Rat) = 10 := by decide
      rw [e10]; grind
    cases exp with
    | none =>
      have hA := hU (46 :: fp ++ rest) ⟨46, _, rfl, by omega⟩
      have hB := hD rest hndr
      have hP := parseExp_none rest hnul (hst3 rfl)
      have hF := atof32Frac_dot (F := Rat) (D := Rat) id (valL ip) _ _ _ _ hB hfp18
      rw [h64] at hF
      have := atof32Body_stages (F := Rat) (D := Rat) id _ _ _ _ (valL ip) ip.length 0
        ((((valL ip : Nat) : Int) : Rat) + (((valL fp : Nat) : Int) : Rat) / (((10 ^ fp.length : Nat) : Int) : Rat)) false
        hA hF hP
      simp only [Literal.fracText, Literal.expText, List.append_nil, List.append_assoc, List.cons_append] at this ⊢
      rw [this, scale32_Q, scale32_eq, hval]
      simp
    | some e =>
      obtain ⟨ch, s, ds⟩ := e
      obtain ⟨hch, hds, hdne, hdv⟩ := hexp ch s ds rfl
      have hnd : NonDigitHead (ch :: (Literal.signText s ++ ds) ++ rest) := ⟨ch, _, rfl, by omega⟩
      have hA := hU (46 :: fp ++ (ch :: (Literal.signText s ++ ds) ++ rest)) ⟨46, _, rfl, by omega⟩
      have hB := hD _ hnd
      have hP := parseExp_some ch s ds rest hch hds hdne hdv hndr
      have hF := atof32Frac_dot (F := Rat) (D := Rat) id (valL ip) _ _ _ _ hB hfp18
      rw [h64] at hF
      have := atof32Body_stages (F := Rat) (D := Rat) id _ _ _ _ (valL ip) ip.length (valL ds)
        ((((valL ip : Nat) : Int) : Rat) + (((valL fp : Nat) : Int) : Rat) / (((10 ^ fp.length : Nat) : Int) : Rat))
        (decide (s = some true))
        hA hF hP
      simp only [Literal.fracText, Literal.expText, List.append_nil, List.append_assoc, List.cons_append] at this ⊢
      rw [this, scale32_Q, scale32_eq, hval]
      by_cases hs : s = some true <;> simp [hs]

theorem atof32_unsigned {F D : Type} [FloatLike F] [FloatLike D] (cvt : D → F) (c0 : Nat) (s1 : List Nat)
    (h43 : c0 ≠ 43) (h45 : c0 ≠ 45) :
    atof32 (D := D) cvt (c0 :: s1) = (atof32Body (D := D) cvt (c0 :: s1)).map fun (ret, rest) =>
      (ret, (c0 :: s1).length - rest.length) := by
  simp [atof32, h43, h45]

theorem atof32_minus {F D : Type} [FloatLike F] [FloatLike D] (cvt : D → F) (s1 : List Nat) :
    atof32 (D := D) cvt (45 :: s1) = (atof32Body (D := D) cvt s1).map fun (ret, rest) =>
      (FloatLike.neg ret, (45 :: s1).length - rest.length) := by
  simp [atof32]

theorem atof32_plus {F D : Type} [FloatLike F] [FloatLike D] (cvt : D → F) (s1 : List Nat) :
    atof32 (D := D) cvt (43 :: s1) = (atof32Body (D := D) cvt s1).map fun (ret, rest) =>
      (ret, (43 :: s1).length - rest.length) := by
  simp [atof32]

theorem atof32_Q (L : Literal) (rest : List Nat) (hwf : L.WF) (hst : Stops L rest)
    (hip32 : valL L.ip < 2 ^ 32) (hfp18 : L.fracDigits.length ≤ 18) :
    atof32 (F := Rat) (D := Rat) id (L.text ++ rest) = some (L.value, L.text.length) := by
  have hbody := atof32Body_Q L rest hwf hst hip32 hfp18
  unfold Literal.text Literal.value Literal.isNeg
  cases hs : L.sign with
  | none =>
    obtain ⟨c0, s1, hcs, h43, h45⟩ := body_head_not_sign L rest hwf hst hs
    have htxt : Literal.signText none ++ L.ip ++ Literal.fracText L.frac ++ Literal.expText L.exp ++ rest = c0 :: s1 := by
      simpa [Literal.signText] using hcs
    rw [htxt, atof32_unsigned id c0 s1 h43 h45, ← hcs, hbody]
    simp only [Option.map_some, Option.some.injEq, Prod.mk.injEq]
    refine ⟨by simp, ?_⟩
    simp [Literal.signText, List.length_append]; omega
  | some b =>
    cases b with
    | true =>
      have htxt : Literal.signText (some true) ++ L.ip ++ Literal.fracText L.frac ++ Literal.expText L.exp ++ rest
          = 45 :: (L.ip ++ Literal.fracText L.frac ++ Literal.expText L.exp ++ rest) := by
        simp [Literal.signText]
      rw [htxt, atof32_minus, hbody]
      simp only [Option.map_some, Option.some.injEq, Prod.mk.injEq]
      refine ⟨by simp, ?_⟩
      simp [Literal.signText, List.length_append]; omega
    | false =>
      have htxt : Literal.signText (some false) ++ L.ip ++ Literal.fracText L.frac ++ Literal.expText L.exp ++ rest
          = 43 :: (L.ip ++ Literal.fracText L.frac ++ Literal.expText L.exp ++ rest) := by
        simp [Literal.signText]
      rw [htxt, atof32_plus, hbody]
      simp only [Option.map_some, Option.some.injEq, Prod.mk.injEq]
      refine ⟨by simp, ?_⟩
      simp [Literal.signText, List.length_append]; omega

end Igris.C12
