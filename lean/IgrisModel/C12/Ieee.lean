import IgrisModel.C12.Model
/-!
  C12 — IEEE-754 binary arithmetic as a first-class part of the model.

  `BinFmt` = the parameters of a binary format, `Rep B v` = "the non-negative
  rational `v` is a value of the format", `RN B v r` = "`r` is `v` rounded to
  nearest in the format" (stated by its consequences: `r` is a value of the
  format, no value of the format is closer to `v`, and the standard model
  `r = v (1 + δ)`, `|δ| ≤ u = 2^-prec`, resp. an absolute error of at most half
  the smallest subnormal when `v` is below the normal range).

  `class IEEE F` says that an arithmetic instance `FloatLike F` IS such an
  arithmetic: every operation returns the exact result rounded to nearest
  (`val (add x y)` is `RN` of `val x + val y`, ...), as long as the exact
  result is below the overflow threshold `2^emax`.  The instances for the
  software binary32 / binary64 of Model.lean (the arithmetic the driver runs and
  the harness compares with the FPU operation by operation) are proved in
  Soft*.lean; the error-bound theorems about the renderer and the parser
  (LemRender.lean, LemAtof.lean) are proved for every instance of the class.
-/
namespace Igris.C12
open FloatLike

/-! ### powers of two with an integer exponent -/

def pow2 (e : Int) : Rat := (2 : Rat) ^ e

theorem pow2_pos (e : Int) : 0 < pow2 e := Rat.zpow_pos (by decide)
theorem pow2_add (a b : Int) : pow2 (a + b) = pow2 a * pow2 b := Rat.zpow_add (by decide) a b
@[simp] theorem pow2_zero : pow2 0 = 1 := Rat.zpow_zero 2
theorem pow2_one : pow2 1 = 2 := Rat.zpow_one 2
theorem pow2_succ (e : Int) : pow2 (e + 1) = 2 * pow2 e := by rw [pow2_add, pow2_one]; grind
theorem pow2_pred (e : Int) : pow2 (e - 1) = pow2 e / 2 := by
  have : pow2 e = 2 * pow2 (e - 1) := by
    have := pow2_succ (e - 1); rwa [Int.sub_add_cancel] at this
  grind
theorem pow2_nat (n : Nat) : pow2 (n : Int) = ((2 ^ n : Nat) : Rat) := by
  unfold pow2; rw [Rat.zpow_natCast, Rat.natCast_pow]; rfl
theorem pow2_neg_mul (e : Int) : pow2 (-e) * pow2 e = 1 := by
  rw [← pow2_add, Int.add_left_neg, pow2_zero]
theorem pow2_sub (a b : Int) : pow2 (a - b) * pow2 b = pow2 a := by
  rw [← pow2_add]; congr 1; omega
theorem pow2_le_succ (e : Int) : pow2 e ≤ pow2 (e + 1) := by
  have := pow2_pos e; rw [pow2_succ]; grind
theorem pow2_mono_nat (e : Int) (k : Nat) : pow2 e ≤ pow2 (e + k) := by
  induction k with
  | zero => simp
  | succ k ih =>
    have := pow2_le_succ (e + k)
    have e2 : e + ((k + 1 : Nat) : Int) = e + k + 1 := by omega
    rw [e2]; exact Rat.le_trans ih this
theorem pow2_mono {a b : Int} (h : a ≤ b) : pow2 a ≤ pow2 b := by
  have := pow2_mono_nat a (b - a).toNat
  have e : a + ((b - a).toNat : Int) = b := by omega
  rwa [e] at this
theorem pow2_strict {a b : Int} (h : a < b) : pow2 a < pow2 b := by
  have h1 : pow2 (a + 1) ≤ pow2 b := pow2_mono (by omega)
  have := pow2_pos a; rw [pow2_succ] at h1; grind
theorem pow2_lt_iff {a b : Int} : pow2 a < pow2 b ↔ a < b := by
  constructor
  · intro h
    apply Decidable.byContradiction; intro hn
    have := pow2_mono (show b ≤ a by omega)
    grind
  · exact pow2_strict
theorem pow2_le_iff {a b : Int} : pow2 a ≤ pow2 b ↔ a ≤ b := by
  constructor
  · intro h
    apply Decidable.byContradiction; intro hn
    have := pow2_strict (show b < a by omega)
    grind
  · exact pow2_mono

/-! ### binary formats -/

/-- a binary floating-point format -/
structure BinFmt where
  /-- bits of the significand including the hidden one (24 / 53) -/
  prec : Nat
  /-- exponent of the smallest positive value, `2^emin` (-149 / -1074) -/
  emin : Int
  /-- an exact result of magnitude below `2^emax` is rounded without overflow (127 / 1023) -/
  emax : Int

namespace BinFmt
/-- the unit roundoff `2^-prec` (half an ulp of 1) -/
def u (B : BinFmt) : Rat := pow2 (-(B.prec : Int))
/-- half the smallest subnormal: the absolute rounding error below the normal range -/
def eta (B : BinFmt) : Rat := pow2 (B.emin - 1)
/-- the smallest normal value -/
def tiny (B : BinFmt) : Rat := pow2 (B.emin + B.prec - 1)
/-- the overflow threshold used in this development -/
def big (B : BinFmt) : Rat := pow2 B.emax
end BinFmt

def binary32 : BinFmt := ⟨24, -149, 127⟩
def binary64 : BinFmt := ⟨53, -1074, 1023⟩

/-- the non-negative rational `v` is a value of the format: `m * 2^e` with a
    significand of at most `prec` bits and an exponent not below `emin` -/
def Rep (B : BinFmt) (v : Rat) : Prop :=
  ∃ (m : Nat) (e : Int), m < 2 ^ B.prec ∧ B.emin ≤ e ∧ v = (m : Rat) * pow2 e

/-- `r` is the non-negative rational `v` rounded to nearest in the format `B` -/
structure RN (B : BinFmt) (v r : Rat) : Prop where
  /-- the result is a value of the format -/
  rep : Rep B r
  /-- no value of the format is closer to `v` -/
  nearest : ∀ w, Rep B w → (r - v ≤ w - v ∨ r - v ≤ v - w) ∧ (v - r ≤ w - v ∨ v - r ≤ v - w)
  /-- the standard model: relative error at most `u`; below the normal range an
      absolute error of at most half the smallest subnormal -/
  err : (r - v ≤ B.u * v ∧ v - r ≤ B.u * v) ∨ (v < B.tiny ∧ r - v ≤ B.eta ∧ v - r ≤ B.eta)

/-- rounding to nearest of a value of either sign (symmetric) -/
def RNs (B : BinFmt) (v r : Rat) : Prop := (0 ≤ v → RN B v r) ∧ (v ≤ 0 → RN B (-v) (-r))

/-- the exact result does not overflow -/
def InRange (B : BinFmt) (v : Rat) : Prop := -B.big < v ∧ v < B.big

/-- An arithmetic instance that is IEEE-754 arithmetic of the format `B`:
    `val` reads a finite element as a rational; every operation is the exact
    operation followed by one rounding to nearest. -/
class IEEE (F : Type) [FloatLike F] where
  B : BinFmt
  /-- the format is sane: at least 4 bits of significand, `2^emin` far below 1, threshold above 2^31 -/
  prec_ge : 4 ≤ B.prec
  emin_le : B.emin + B.prec + 3 ≤ 0
  emax_ge : 32 ≤ B.emax
  /-- the value of a finite element -/
  val : F → Rat
  /-- finite (a well-formed encoding that is neither an infinity nor a NaN) -/
  fin : F → Prop
  fin_special : ∀ x, fin x → isNaN x = false ∧ isInf x = false
  fin_rep : ∀ x, fin x → (0 ≤ val x → Rep B (val x)) ∧ (val x ≤ 0 → Rep B (-(val x)))
  lt_zero : ∀ x, fin x → (lt x (ofInt 0) = true ↔ val x < 0)
  neg_val : ∀ x, fin x → fin (neg x) ∧ val (neg x) = -(val x)
  add_rn : ∀ x y, fin x → fin y → InRange B (val x + val y) →
    fin (add x y) ∧ RNs B (val x + val y) (val (add x y))
  sub_rn : ∀ x y, fin x → fin y → InRange B (val x - val y) →
    fin (sub x y) ∧ RNs B (val x - val y) (val (sub x y))
  mul_rn : ∀ x y, fin x → fin y → InRange B (val x * val y) →
    fin (mul x y) ∧ RNs B (val x * val y) (val (mul x y))
  ofInt_rn : ∀ n : Int, InRange B (n : Rat) → fin (ofInt n) ∧ RNs B (n : Rat) (val (ofInt n : F))
  trunc_val : ∀ x, fin x → trunc x = some (truncQ (val x))
  /-- `f *= 10.0` -/
  mul10_rn : ∀ x, fin x → InRange B (val x * 10) → fin (mul10 x) ∧ RNs B (val x * 10) (val (mul10 x))
  /-- `(float)rounders[p]`: positive, within `2u` (two roundings) of `0.5e-p` -/
  rounder_ok : ∀ p, p ≤ 10 → fin (rounder p) ∧
    (1 - 2 * B.u) * (1 / (2 * (10 : Rat) ^ p)) ≤ val (rounder p) ∧
    val (rounder p) ≤ (1 + 2 * B.u) * (1 / (2 * (10 : Rat) ^ p))
  /-- the literal `0.1`: within `u/2` (relative) of one tenth -/
  tenth_ok : fin (lit 1 1) ∧ (1 - B.u / 2) * (1 / 10) ≤ val (lit 1 1 : F) ∧
    val (lit 1 1 : F) ≤ (1 + B.u / 2) * (1 / 10)

end Igris.C12
