import IgrisModel.C12.IeeeLemmas
import IgrisModel.C12.Lemmas
/-!
  C12 — error analysis of the renderer `igris_f32toa` over ANY IEEE arithmetic
  instance (`class IEEE`): induction over the digit loop with the standard model
  of rounding.  The results are theorems about the software binary32 instance
  the driver runs (SoftOps.lean provides `IEEE F32`).
-/
namespace Igris.C12
open Spec FloatLike

theorem floor_eq (v : Rat) (t : Int) (h1 : (t : Rat) ≤ v) (h2 : v < ((t + 1 : Int) : Rat)) : v.floor = t := by
  have a : t ≤ v.floor := Rat.le_floor_iff.mpr h1
  have b : v.floor < t + 1 := Rat.floor_lt_iff.mpr h2
  omega

theorem mul_pow2_nonneg (m : Nat) (e : Int) (he : 0 ≤ e) :
    (m : Rat) * pow2 e = ((m * 2 ^ e.toNat : Nat) : Rat) := by
  obtain ⟨k, rfl⟩ := Int.eq_ofNat_of_zero_le he
  rw [pow2_nat]; simp [Rat.natCast_mul]

theorem mul_pow2_neg (m : Nat) (e : Int) (he : e < 0) :
    (m : Rat) * pow2 e = ((m / 2 ^ (-e).toNat : Nat) : Rat) + ((m % 2 ^ (-e).toNat : Nat) : Rat) * pow2 e := by
  have hk : pow2 e * ((2 ^ (-e).toNat : Nat) : Rat) = 1 := by
    have := pow2_neg_nat (-e).toNat
    have e2 : -(((-e).toNat : Nat) : Int) = e := by omega
    rwa [e2] at this
  have hdm := Nat.div_add_mod m (2 ^ (-e).toNat)
  have : (m : Rat) = ((2 ^ (-e).toNat : Nat) : Rat) * ((m / 2 ^ (-e).toNat : Nat) : Rat) + ((m % 2 ^ (-e).toNat : Nat) : Rat) := by
    rw [← Rat.natCast_mul, ← Rat.natCast_add, hdm]
  generalize ((2 ^ (-e).toNat : Nat) : Rat) = K at *
  generalize ((m / 2 ^ (-e).toNat : Nat) : Rat) = A at *
  generalize ((m % 2 ^ (-e).toNat : Nat) : Rat) = R at *
  rw [this]
  grind

/-- the fraction `(m % 2^k) * 2^e` (k = -e) is below 1 -/
theorem frac_lt_one (m : Nat) (e : Int) (he : e < 0) :
    ((m % 2 ^ (-e).toNat : Nat) : Rat) * pow2 e < 1 := by
  have hk : pow2 e * ((2 ^ (-e).toNat : Nat) : Rat) = 1 := by
    have := pow2_neg_nat (-e).toNat
    have e2 : -(((-e).toNat : Nat) : Int) = e := by omega
    rwa [e2] at this
  have hlt : m % 2 ^ (-e).toNat < 2 ^ (-e).toNat := Nat.mod_lt _ (Nat.two_pow_pos _)
  have hlt' : ((m % 2 ^ (-e).toNat : Nat) : Rat) < ((2 ^ (-e).toNat : Nat) : Rat) := Rat.natCast_lt_natCast.mpr hlt
  have := Rat.mul_lt_mul_of_pos_right hlt' (pow2_pos e)
  grind

/-- integer part and fraction of a value of the format are values of the format -/
theorem rep_floor_frac {B : BinFmt} (hB : B.emin ≤ 0) {v : Rat} (h : Rep B v) :
    ∃ n : Nat, v.floor = (n : Int) ∧ Rep B (n : Rat) ∧ Rep B (v - (n : Rat)) ∧ (n : Rat) ≤ v ∧ v - (n : Rat) < 1 := by
  obtain ⟨m, e, hm, he, rfl⟩ := h
  by_cases hneg : e < 0
  · have hsplit := mul_pow2_neg m e hneg
    have hfr := frac_lt_one m e hneg
    have hfr0 : 0 ≤ ((m % 2 ^ (-e).toNat : Nat) : Rat) * pow2 e :=
      Rat.mul_nonneg Rat.natCast_nonneg (Rat.le_of_lt (pow2_pos e))
    refine ⟨m / 2 ^ (-e).toNat, ?_, ?_, ?_, ?_, ?_⟩
    · apply floor_eq
      · rw [Rat.intCast_natCast]; grind
      · have : (((m / 2 ^ (-e).toNat : Nat) : Int) + 1 : Int) = ((m / 2 ^ (-e).toNat + 1 : Nat) : Int) := by omega
        rw [this, Rat.intCast_natCast, Rat.natCast_add]; simp; grind
    · exact rep_nat B hB _ (Nat.lt_of_le_of_lt (Nat.div_le_self _ _) hm)
    · refine ⟨m % 2 ^ (-e).toNat, e, Nat.lt_of_le_of_lt (Nat.mod_le _ _) hm, he, ?_⟩
      grind
    · grind
    · grind
  · have he0 : 0 ≤ e := by omega
    have hnat := mul_pow2_nonneg m e he0
    refine ⟨m * 2 ^ e.toNat, ?_, ?_, ?_, ?_, ?_⟩
    · rw [hnat, ← Rat.intCast_natCast, Rat.floor_intCast]
    · exact ⟨m, e, hm, he, hnat.symm⟩
    · rw [hnat, Rat.sub_self]; exact rep_zero B
    · rw [hnat]; exact Rat.le_refl
    · rw [hnat, Rat.sub_self]; decide

/-- a value of the format below 1 is at most `1 - u` -/
theorem rep_lt_one {B : BinFmt} {v : Rat} (h : Rep B v) (h1 : v < 1) (hP : 1 ≤ B.prec) : v ≤ 1 - B.u := by
  obtain ⟨m, e, hm, he, rfl⟩ := h
  have hu : B.u * ((2 ^ B.prec : Nat) : Rat) = 1 := pow2_neg_nat B.prec
  have hPpos : (0 : Rat) < ((2 ^ B.prec : Nat) : Rat) := by
    have := Nat.two_pow_pos B.prec
    exact Rat.natCast_lt_natCast.mpr this |> fun h => by simpa using h
  by_cases hc : -(B.prec : Int) ≤ e
  · -- v * 2^prec is a natural number below 2^prec
    have hN : (m : Rat) * pow2 e * ((2 ^ B.prec : Nat) : Rat) = ((m * 2 ^ (e + B.prec).toNat : Nat) : Rat) := by
      rw [← pow2_nat, Rat.mul_assoc, ← pow2_add]
      exact mul_pow2_nonneg m (e + B.prec) (by omega)
    have hlt : (m : Rat) * pow2 e * ((2 ^ B.prec : Nat) : Rat) < ((2 ^ B.prec : Nat) : Rat) := by
      have := Rat.mul_lt_mul_of_pos_right h1 hPpos
      grind
    rw [hN] at hlt
    have hlt' := Rat.natCast_lt_natCast.mp hlt
    have hle : m * 2 ^ (e + B.prec).toNat + 1 ≤ 2 ^ B.prec := hlt'
    have hle' : ((m * 2 ^ (e + B.prec).toNat + 1 : Nat) : Rat) ≤ ((2 ^ B.prec : Nat) : Rat) := Rat.natCast_le_natCast.mpr hle
    rw [Rat.natCast_add, ← hN] at hle'
    apply Rat.le_of_mul_le_mul_right _ hPpos
    grind
  · -- v < 2^prec * 2^(-prec-1) = 1/2
    have he' : e ≤ -(B.prec : Int) - 1 := by omega
    have h2 : pow2 e ≤ pow2 (-(B.prec : Int) - 1) := pow2_mono he'
    have h3 : pow2 (-(B.prec : Int) - 1) = B.u / 2 := pow2_pred _
    have hm' : (m : Rat) ≤ ((2 ^ B.prec : Nat) : Rat) := Rat.natCast_le_natCast.mpr (Nat.le_of_lt hm)
    have h4 := Rat.mul_le_mul_of_nonneg_right hm' (Rat.le_of_lt (pow2_pos e))
    have h5 := Rat.mul_le_mul_of_nonneg_left h2 (Rat.le_of_lt hPpos)
    have hu1 : B.u ≤ 1 / 2 := by
      have := u_le B 1 hP
      simp at this; grind
    rw [h3] at h5
    generalize ((2 ^ B.prec : Nat) : Rat) = K at *
    generalize pow2 e = X at *
    generalize (m : Rat) = M at *
    have : K * (B.u / 2) = 1 / 2 := by grind
    grind

/-! ### the operations that are exact in the renderer -/

section
variable {F : Type} [FloatLike F] [IEEE F]

local notation "𝔹" => (IEEE.B (F := F))

theorem big_ge : (4294967296 : Rat) ≤ (𝔹).big := by
  have h := pow2_mono (IEEE.emax_ge (F := F))
  have : pow2 32 = 4294967296 := by
    have := pow2_nat 32; simp at this; exact this
  rw [this] at h; exact h

theorem emin_le_zero : (𝔹).emin ≤ 0 := by
  have := IEEE.emin_le (F := F); omega

theorem inRange_of {v : Rat} (h0 : 0 ≤ v) (h1 : v < 4294967296) : InRange 𝔹 v := by
  have hb := big_ge (F := F)
  constructor <;> grind

/-- `(float)n` is exact when `n` is a value of the format -/
theorem ofInt_exact (n : Nat) (hrep : Rep 𝔹 (n : Rat)) (hlt : (n : Rat) < 4294967296) :
    IEEE.fin (ofInt (n : Int) : F) ∧ IEEE.val (ofInt (n : Int) : F) = (n : Rat) := by
  have hc : (((n : Int)) : Rat) = (n : Rat) := Rat.intCast_natCast n
  have hn0 : (0 : Rat) ≤ (n : Rat) := Rat.natCast_nonneg
  obtain ⟨hf, hr⟩ := IEEE.ofInt_rn (F := F) (n : Int) (by rw [hc]; exact inRange_of hn0 hlt)
  rw [hc] at hr
  exact ⟨hf, (hr.pos hn0).exact hrep⟩

/-- a subtraction whose exact result is a non-negative value of the format is exact -/
theorem sub_exact (x y : F) (hx : IEEE.fin x) (hy : IEEE.fin y)
    (hrep : Rep 𝔹 (IEEE.val x - IEEE.val y)) (hlt : IEEE.val x - IEEE.val y < 4294967296) :
    IEEE.fin (sub x y) ∧ IEEE.val (sub x y) = IEEE.val x - IEEE.val y := by
  have h0 := rep_nonneg hrep
  obtain ⟨hf, hr⟩ := IEEE.sub_rn x y hx hy (inRange_of h0 hlt)
  exact ⟨hf, (hr.pos h0).exact hrep⟩

theorem eta_eq (B : BinFmt) : B.eta = B.u * B.tiny := by
  unfold BinFmt.eta BinFmt.u BinFmt.tiny
  rw [← pow2_add]; congr 1; omega

theorem tiny_le (hB : (𝔹).emin + (𝔹).prec + 3 ≤ 0) : (𝔹).tiny ≤ 1 / 16 := by
  have h : (𝔹).tiny ≤ pow2 (-4) := pow2_mono (by omega)
  have : pow2 (-4) * ((2 ^ 4 : Nat) : Rat) = 1 := pow2_neg_nat 4
  simp at this; grind

/-- rounding error in absolute terms: at most `u * (v + tiny)` -/
theorem RN.abs_err {B : BinFmt} {v r : Rat} (h : RN B v r) (hv : 0 ≤ v) :
    r - v ≤ B.u * (v + B.tiny) ∧ v - r ≤ B.u * (v + B.tiny) := by
  have hu := u_pos B
  have ht := tiny_pos B
  have h1 : 0 ≤ B.u * v := Rat.mul_nonneg (Rat.le_of_lt hu) hv
  have h2 : 0 < B.u * B.tiny := Rat.mul_pos hu ht
  have he := eta_eq B
  rcases h.err with ⟨a, b⟩ | ⟨_, a, b⟩ <;> constructor <;> grind


/-! ### the fraction loop -/

/-- accumulated rounding error of `p` rounds of the digit loop, in units of the
    last digit: `u * (10 + 100 + ... + 10^p)` -/
def fracErr (u : Rat) (p : Nat) : Rat := 10 / 9 * u * ((10 : Rat) ^ p - 1)

theorem fracErr_succ (u : Rat) (p : Nat) : fracErr u (p + 1) = fracErr u p + (10 : Rat) ^ (p + 1) * u := by
  unfold fracErr; rw [Rat.pow_succ]; grind

theorem natCast_lt_lit (n k : Nat) (h : n < k) : (n : Rat) < (k : Rat) := Rat.natCast_lt_natCast.mpr h

/-- one round of the loop: `f *= 10.0; c = (char)f; f -= c` on a value in [0, 1) -/
theorem fracStep (g : F) (hg : IEEE.fin g) (h0 : 0 ≤ IEEE.val g) (h1 : IEEE.val g < 1) :
    ∃ c : Nat, c ≤ 9 ∧ trunc (mul10 g) = some (c : Int) ∧
      IEEE.fin (sub (mul10 g) (ofInt (c : Int))) ∧
      0 ≤ IEEE.val (sub (mul10 g) (ofInt (c : Int))) ∧ IEEE.val (sub (mul10 g) (ofInt (c : Int))) < 1 ∧
      (c : Rat) + IEEE.val (sub (mul10 g) (ofInt (c : Int))) - IEEE.val g * 10 ≤ 10 * (𝔹).u ∧
      IEEE.val g * 10 - ((c : Rat) + IEEE.val (sub (mul10 g) (ofInt (c : Int)))) ≤ 10 * (𝔹).u := by
  have hu := u_pos 𝔹
  have hP := IEEE.prec_ge (F := F)
  have hB := IEEE.emin_le (F := F)
  have hv0 : 0 ≤ IEEE.val g * 10 := by grind
  obtain ⟨hfh, hrh⟩ := IEEE.mul10_rn g hg (inRange_of hv0 (by grind))
  have hrn := hrh.pos hv0
  have hh0 : 0 ≤ IEEE.val (mul10 g) := hrn.nonneg
  -- g ≤ 1 - u, hence fl(10 g) < 10
  have hg1 : IEEE.val g ≤ 1 - (𝔹).u := rep_lt_one ((IEEE.fin_rep g hg).1 h0) h1 (by omega)
  have hu16 : (𝔹).u ≤ 1 / 16 := by
    have := u_le 𝔹 4 hP; simp at this; grind
  have hty := tiny_le (F := F) hB
  have htp := tiny_pos 𝔹
  have herr := hrn.abs_err hv0
  have hheta : (𝔹).eta = (𝔹).u * (𝔹).tiny := eta_eq _
  have hlt10 : IEEE.val (mul10 g) < 10 := by
    rcases hrn.err with ⟨a, _⟩ | ⟨a, b, _⟩
    · have h2 : (𝔹).u * (IEEE.val g * 10) ≤ (𝔹).u * ((1 - (𝔹).u) * 10) :=
        Rat.mul_le_mul_of_nonneg_left (by grind) (Rat.le_of_lt hu)
      have h3 : 0 < (𝔹).u * (𝔹).u := Rat.mul_pos hu hu
      grind
    · have : (𝔹).u * (𝔹).tiny ≤ 1 * (𝔹).tiny := Rat.mul_le_mul_of_nonneg_right (by grind) (Rat.le_of_lt htp)
      grind
  -- the error of this rounding is at most 10 u
  have he1 : IEEE.val (mul10 g) - IEEE.val g * 10 ≤ 10 * (𝔹).u ∧ IEEE.val g * 10 - IEEE.val (mul10 g) ≤ 10 * (𝔹).u := by
    have h2 : (𝔹).u * (IEEE.val g * 10) ≤ (𝔹).u * 10 :=
      Rat.mul_le_mul_of_nonneg_left (by grind) (Rat.le_of_lt hu)
    have h3 : (𝔹).u * (𝔹).tiny ≤ (𝔹).u * 10 :=
      Rat.mul_le_mul_of_nonneg_left (by grind) (Rat.le_of_lt hu)
    rcases hrn.err with ⟨a, b⟩ | ⟨_, a, b⟩ <;> constructor <;> grind
  -- integer part and fraction
  obtain ⟨c, hfl, hrc, hrf, hcle, hflt⟩ := rep_floor_frac (emin_le_zero (F := F)) ((IEEE.fin_rep _ hfh).1 hh0)
  have hc9 : c ≤ 9 := by
    have : (c : Rat) < ((10 : Nat) : Rat) := by
      have : ((10 : Nat) : Rat) = 10 := by decide
      grind
    have := Rat.natCast_lt_natCast.mp this
    omega
  have hclt : (c : Rat) < 4294967296 := by
    have := natCast_lt_lit c 4294967296 (by omega)
    have e : ((4294967296 : Nat) : Rat) = 4294967296 := by decide
    grind
  obtain ⟨hfc, hvc⟩ := ofInt_exact (F := F) c hrc hclt
  have htr : trunc (mul10 g) = some (c : Int) := by
    rw [IEEE.trunc_val _ hfh, truncQ_nonneg hh0, hfl]
  have hsub : Rep 𝔹 (IEEE.val (mul10 g) - IEEE.val (ofInt (c : Int) : F)) := by rw [hvc]; exact hrf
  obtain ⟨hfs, hvs⟩ := sub_exact (mul10 g) (ofInt (c : Int)) hfh hfc hsub (by rw [hvc]; grind)
  rw [hvc] at hvs
  refine ⟨c, hc9, htr, hfs, ?_, ?_, ?_, ?_⟩ <;> rw [hvs] <;> grind

theorem fracLoop_I (p : Nat) (g : F) (hg : IEEE.fin g) (h0 : 0 ≤ IEEE.val g) (h1 : IEEE.val g < 1) :
    ∃ ds, fracLoop p g = some ds ∧ ds.length = p ∧ AllDigits ds ∧
      ((valL ds : Nat) : Rat) ≤ IEEE.val g * (10 : Rat) ^ p + fracErr (𝔹).u p ∧
      IEEE.val g * (10 : Rat) ^ p - fracErr (𝔹).u p < ((valL ds : Nat) : Rat) + 1 := by
  induction p generalizing g with
  | zero =>
    refine ⟨[], rfl, rfl, allDigits_nil, ?_, ?_⟩ <;> simp [valL, fracErr] <;> grind
  | succ p ih =>
    obtain ⟨c, hc9, htr, hfs, hs0, hs1, he1, he2⟩ := fracStep g hg h0 h1
    obtain ⟨ds, hds, hlen, hall, hlo, hhi⟩ := ih _ hfs hs0 hs1
    have hpp := pow10_pos p
    refine ⟨(48 + c) :: ds, ?_, by simp [hlen], ?_, ?_, ?_⟩
    · simp only [fracLoop, htr]
      have : ¬ ((c : Int) < -128 ∨ 127 < (c : Int)) := by omega
      simp only [this, if_false, hds, Option.map_some, charOfInt_digit c hc9]
    · rw [allDigits_cons]; exact ⟨by omega, hall⟩
    · rw [valL_cons, hlen]
      have : (48 + c - 48) = c := by omega
      rw [this]
      have e : (((c * 10 ^ p + valL ds : Nat)) : Rat) = (c : Rat) * (10 : Rat) ^ p + ((valL ds : Nat) : Rat) := by
        simp [Rat.natCast_add, Rat.natCast_mul, Rat.natCast_pow]
      rw [e, fracErr_succ, Rat.pow_succ]
      have h3 := Rat.mul_le_mul_of_nonneg_right he1 (Rat.le_of_lt hpp)
      clear ih
      grind
    · rw [valL_cons, hlen]
      have : (48 + c - 48) = c := by omega
      rw [this]
      have e : (((c * 10 ^ p + valL ds : Nat)) : Rat) = (c : Rat) * (10 : Rat) ^ p + ((valL ds : Nat) : Rat) := by
        simp [Rat.natCast_add, Rat.natCast_mul, Rat.natCast_pow]
      rw [e, fracErr_succ, Rat.pow_succ]
      have h3 := Rat.mul_le_mul_of_nonneg_right he2 (Rat.le_of_lt hpp)
      clear ih
      grind


/-! ### the renderer after the sign has been taken off -/

/-- `igris_f32toa` from "round value according the precision" on -/
def f32toaAbs {G : Type} [FloatLike G] (f0 : G) (p : Nat) (sign : List Nat) : Option (List Nat) :=
  match trunc (if p ≠ 0 then add f0 (rounder p) else f0) with
  | none => none
  | some ip =>
    if ip < -2147483648 ∨ 2147483647 < ip then none
    else
      if p ≠ 0 then
        (fracLoop p (sub (if p ≠ 0 then add f0 (rounder p) else f0) (ofInt ip))).map
          (fun fr => sign ++ (if ip = 0 then [48] else (intDigitsRev 10 ip).reverse) ++ 46 :: fr)
      else some (sign ++ (if ip = 0 then [48] else (intDigitsRev 10 ip).reverse))

theorem f32toa_eq_abs {G : Type} [FloatLike G] (x : G) (prec : Int)
    (hinf : isInf x = false) (hnan : isNaN x = false) :
    f32toa x prec =
      f32toaAbs (if lt x (ofInt 0) then FloatLike.neg x else x)
        (effPrec (if lt x (ofInt 0) then FloatLike.neg x else x) prec)
        (if lt x (ofInt 0) then [45] else []) := by
  simp only [f32toa, f32toaAbs, hinf, hnan, Bool.false_eq_true, if_false]
  rfl


/-- half a unit of the last place -/
theorem half_unit (p : Nat) : (1 / (2 * (10 : Rat) ^ p)) * (10 : Rat) ^ p = 1 / 2 := by
  have := pow10_pos p; grind

theorem half_unit_le (p : Nat) (hp : p ≠ 0) : 1 / (2 * (10 : Rat) ^ p) ≤ 1 / 20 ∧ 0 < 1 / (2 * (10 : Rat) ^ p) := by
  obtain ⟨k, rfl⟩ : ∃ k, p = k + 1 := ⟨p - 1, by omega⟩
  have hk := pow10_pos k
  have h1 : (1 : Rat) ≤ (10 : Rat) ^ k := by
    clear hp hk
    induction k with
    | zero => simp
    | succ k ih => rw [Rat.pow_succ]; grind
  have hpos : (0 : Rat) < 2 * (10 : Rat) ^ (k + 1) := by rw [Rat.pow_succ]; grind
  have hx : (1 / (2 * (10 : Rat) ^ (k + 1))) * (2 * (10 : Rat) ^ (k + 1)) = 1 := by grind
  constructor
  · apply Rat.le_of_mul_le_mul_right _ hpos
    rw [hx, Rat.pow_succ]; grind
  · apply Rat.lt_of_mul_lt_mul_right _ (Rat.le_of_lt hpos)
    rw [hx]; grind

/-- `f += (float)rounders[p]`: the sum stays within `u * (a + 1/4)` of `a + 0.5e-p`
    and below `a + 1` -/
theorem rounderStep (f0 : F) (p : Nat) (hf : IEEE.fin f0) (h0 : 0 ≤ IEEE.val f0) (hp : p ≤ 10) (hp0 : p ≠ 0)
    (hr : IEEE.val f0 + 1 ≤ 2147483648) :
    IEEE.fin (add f0 (rounder p)) ∧ 0 ≤ IEEE.val (add f0 (rounder p)) ∧
      IEEE.val (add f0 (rounder p)) < IEEE.val f0 + 1 ∧
      IEEE.val (add f0 (rounder p)) ≤ IEEE.val f0 + 1 / (2 * (10 : Rat) ^ p) + (𝔹).u * (IEEE.val f0 + 1 / 4) ∧
      IEEE.val f0 + 1 / (2 * (10 : Rat) ^ p) - (𝔹).u * (IEEE.val f0 + 1 / 4) ≤ IEEE.val (add f0 (rounder p)) := by
  have hu := u_pos 𝔹
  have hP := IEEE.prec_ge (F := F)
  have hu16 : (𝔹).u ≤ 1 / 16 := by
    have := u_le 𝔹 4 hP; simp at this; grind
  have hty := tiny_le (F := F) (IEEE.emin_le (F := F))
  obtain ⟨hfr, hlo, hhi⟩ := IEEE.rounder_ok (F := F) p hp
  obtain ⟨hh20, hhpos⟩ := half_unit_le p hp0
  generalize hh : 1 / (2 * (10 : Rat) ^ p) = h at *
  generalize hρ : IEEE.val (rounder p : F) = ρ at *
  -- 0 < ρ ≤ 0.05625
  have huh : (𝔹).u * h ≤ (1 / 16) * h := Rat.mul_le_mul_of_nonneg_right hu16 (Rat.le_of_lt hhpos)
  have huh0 : 0 < (𝔹).u * h := Rat.mul_pos hu hhpos
  have hρ0 : 0 < ρ := by grind
  have hρ1 : ρ ≤ 9 / 160 := by grind
  have hv0 : 0 ≤ IEEE.val f0 + ρ := by grind
  obtain ⟨hfa, hra⟩ := IEEE.add_rn f0 (rounder p) hf hfr (by rw [hρ]; exact inRange_of hv0 (by grind))
  rw [hρ] at hra
  have hrn := hra.pos hv0
  have herr := hrn.abs_err hv0
  have hd := hrn.dist_le ((IEEE.fin_rep f0 hf).1 h0) (by grind)
  have hmul : (𝔹).u * (IEEE.val f0 + ρ + (𝔹).tiny) ≤ (𝔹).u * (IEEE.val f0 + 9 / 160 + 1 / 16) :=
    Rat.mul_le_mul_of_nonneg_left (by grind) (Rat.le_of_lt hu)
  have huh2 : (𝔹).u * h ≤ (𝔹).u * (1 / 20) := Rat.mul_le_mul_of_nonneg_left hh20 (Rat.le_of_lt hu)
  clear hh
  refine ⟨hfa, hrn.nonneg, by grind, by grind, by grind⟩

/-- the arithmetic of the final bound -/
theorem render_arith (a f1 K V X h u E q : Rat) (hX : 0 < X) (hu : 0 < u) (ha : 0 ≤ a) (hh : 2 * (h * X) = 1)
    (hE : 9 * E = 10 * (u * X) - 10 * u) (hq : 4 * q = u)
    (hb1 : f1 ≤ a + h + u * a + q) (hb2 : a + h - u * a - q ≤ f1)
    (hlo : V ≤ (f1 - K) * X + E) (hhi : (f1 - K) * X - E < V + 1) :
    a * X - 1 / 2 - u * X * (a + 2) < K * X + V ∧ K * X + V ≤ a * X + 1 / 2 + u * X * (a + 2) := by
  have m1 := Rat.mul_le_mul_of_nonneg_right hb1 (Rat.le_of_lt hX)
  have m2 := Rat.mul_le_mul_of_nonneg_right hb2 (Rat.le_of_lt hX)
  have hup : 0 < u * X := Rat.mul_pos hu hX
  have hua : 0 ≤ u * X * a := Rat.mul_nonneg (Rat.le_of_lt hup) ha
  have hqX : 4 * (q * X) = u * X := by rw [← hq]; grind
  constructor <;> grind

theorem f32toaAbs_I (f0 : F) (p : Nat) (sign : List Nat) (hf : IEEE.fin f0) (h0 : 0 ≤ IEEE.val f0)
    (hp : p ≤ 10) (hr : IEEE.val f0 + 1 ≤ 2147483648) :
    ∃ ip fr : List Nat,
      f32toaAbs f0 p sign = some (sign ++ ip ++ (if p ≠ 0 then 46 :: fr else [])) ∧
      AllDigits ip ∧ Canonical ip ∧ ip.length ≤ 10 ∧ AllDigits fr ∧ fr.length = p ∧
      (p ≠ 0 →
        IEEE.val f0 * (10 : Rat) ^ p - 1 / 2 - (𝔹).u * (10 : Rat) ^ p * (IEEE.val f0 + 2) < ((valL (ip ++ fr) : Nat) : Rat) ∧
        ((valL (ip ++ fr) : Nat) : Rat) ≤ IEEE.val f0 * (10 : Rat) ^ p + 1 / 2 + (𝔹).u * (10 : Rat) ^ p * (IEEE.val f0 + 2)) ∧
      (p = 0 → IEEE.val f0 - 1 < ((valL (ip ++ fr) : Nat) : Rat) ∧ ((valL (ip ++ fr) : Nat) : Rat) ≤ IEEE.val f0) := by
  have hu := u_pos 𝔹
  -- the value after the rounder has been added
  obtain ⟨f1, hf1def, hf1, h10, h1lt, hbnd⟩ : ∃ f1 : F, (if p ≠ 0 then add f0 (rounder p) else f0) = f1 ∧
      IEEE.fin f1 ∧ 0 ≤ IEEE.val f1 ∧ IEEE.val f1 < 2147483648 ∧
      ((p ≠ 0 → IEEE.val f1 ≤ IEEE.val f0 + 1 / (2 * (10 : Rat) ^ p) + (𝔹).u * (IEEE.val f0 + 1 / 4) ∧
        IEEE.val f0 + 1 / (2 * (10 : Rat) ^ p) - (𝔹).u * (IEEE.val f0 + 1 / 4) ≤ IEEE.val f1) ∧
       (p = 0 → IEEE.val f1 = IEEE.val f0)) := by
    by_cases hp0 : p = 0
    · refine ⟨f0, by simp [hp0], hf, h0, by grind, fun h => absurd hp0 h, fun _ => rfl⟩
    · obtain ⟨a, b, c, d, e⟩ := rounderStep f0 p hf h0 hp hp0 hr
      refine ⟨_, by simp [hp0], a, b, by grind, fun _ => ⟨d, e⟩, fun h => absurd h hp0⟩
  -- integer part
  obtain ⟨k, hfl, hrk, hrf, hkle, hflt⟩ := rep_floor_frac (emin_le_zero (F := F)) ((IEEE.fin_rep _ hf1).1 h10)
  have hklt : k < 2147483648 := by
    have : (k : Rat) < ((2147483648 : Nat) : Rat) := by
      have e : ((2147483648 : Nat) : Rat) = 2147483648 := by decide
      grind
    exact Rat.natCast_lt_natCast.mp this
  have hkq : (k : Rat) < 4294967296 := by
    have := natCast_lt_lit k 4294967296 (by omega)
    have e : ((4294967296 : Nat) : Rat) = 4294967296 := by decide
    grind
  obtain ⟨hfc, hvc⟩ := ofInt_exact (F := F) k hrk hkq
  have htr : trunc f1 = some (k : Int) := by
    rw [IEEE.trunc_val _ hf1, truncQ_nonneg h10, hfl]
  have hsub : Rep 𝔹 (IEEE.val f1 - IEEE.val (ofInt (k : Int) : F)) := by rw [hvc]; exact hrf
  obtain ⟨hfs, hvs⟩ := sub_exact f1 (ofInt (k : Int)) hf1 hfc hsub (by rw [hvc]; grind)
  rw [hvc] at hvs
  -- the text of the integer part
  obtain ⟨ip, hip, hipd, hipc, hipl, hipv⟩ : ∃ ip : List Nat,
      (if (k : Int) = 0 then [48] else (intDigitsRev 10 (k : Int)).reverse) = ip ∧
      AllDigits ip ∧ Canonical ip ∧ ip.length ≤ 10 ∧ valL ip = k := by
    by_cases hk0 : k = 0
    · refine ⟨[48], by simp [hk0], by simp [AllDigits], ⟨by simp, by simp⟩, by simp, by simp [valL, hk0]⟩
    · have hne : ¬ ((k : Int) = 0) := by omega
      have := natDigitsRev_spec 10 k (by omega) (by omega)
      obtain ⟨h1, h2, h3, h4, h5⟩ := this
      refine ⟨(natDigitsRev 10 k).reverse, by simp [intDigitsRev_nat]; intro h; exact absurd h hk0, h1, ⟨h4, ?_⟩, h3, h2⟩
      intro h; exact absurd h h5
  have hrange : ¬ ((k : Int) < -2147483648 ∨ 2147483647 < (k : Int)) := by omega
  obtain ⟨fr, hfr, hfrl, hfrd, hlo, hhi⟩ := fracLoop_I p (sub f1 (ofInt (k : Int))) hfs (by rw [hvs]; grind) (by rw [hvs]; grind)
  rw [hvs] at hlo hhi
  have hval : ((valL (ip ++ fr) : Nat) : Rat) = (k : Rat) * (10 : Rat) ^ p + ((valL fr : Nat) : Rat) := by
    rw [valL_append, hipv, hfrl]
    simp [Rat.natCast_add, Rat.natCast_mul, Rat.natCast_pow]
  have hpp := pow10_pos p
  by_cases hp0 : p = 0
  · subst hp0
    have hfr0 : fr = [] := List.eq_nil_of_length_eq_zero hfrl
    subst hfr0
    have hv0 := hbnd.2 rfl
    refine ⟨ip, [], ?_, hipd, hipc, hipl, allDigits_nil, rfl, fun h => absurd rfl h, fun _ => ?_⟩
    · simp only [f32toaAbs, hf1def, htr, hrange, if_false, hip]; simp
    · rw [hval]; simp [valL]; grind
  · obtain ⟨hb1, hb2⟩ := hbnd.1 hp0
    refine ⟨ip, fr, ?_, hipd, hipc, hipl, hfrd, hfrl, fun _ => ?_, fun h => absurd h hp0⟩
    · have hf1' : add f0 (rounder p) = f1 := by simpa [hp0] using hf1def
      simp only [f32toaAbs, hp0, ne_eq, not_false_eq_true, if_true, hf1', htr, hrange, if_false, hip, hfr, Option.map_some]
    · rw [hval]
      have hfe : fracErr (𝔹).u p = 10 / 9 * (𝔹).u * (10 : Rat) ^ p - 10 / 9 * (𝔹).u := by unfold fracErr; grind
      have hh2 : 2 * (1 / (2 * (10 : Rat) ^ p) * (10 : Rat) ^ p) = 1 := by rw [half_unit]; grind
      exact render_arith _ _ _ _ _ _ _ _ ((𝔹).u / 4) hpp hu h0 hh2 (by rw [hfe]; grind) (by grind)
        (by grind) (by grind) hlo hhi


/-- the whole renderer on a finite argument of an IEEE arithmetic -/
theorem f32toa_I (x : F) (prec : Int) (hx : IEEE.fin x) (hr : absQ (IEEE.val x) + 1 ≤ 2147483648) :
    ∃ (p : Nat) (ip fr : List Nat),
      p = effPrec (if lt x (ofInt 0) then FloatLike.neg x else x) prec ∧ p ≤ 10 ∧
      f32toa x prec = some ((if IEEE.val x < 0 then [45] else []) ++ ip ++ (if p ≠ 0 then 46 :: fr else [])) ∧
      AllDigits ip ∧ Canonical ip ∧ ip.length ≤ 10 ∧ AllDigits fr ∧ fr.length = p ∧
      (p ≠ 0 →
        absQ (IEEE.val x) * (10 : Rat) ^ p - 1 / 2 - (𝔹).u * (10 : Rat) ^ p * (absQ (IEEE.val x) + 2)
          < ((valL (ip ++ fr) : Nat) : Rat) ∧
        ((valL (ip ++ fr) : Nat) : Rat)
          ≤ absQ (IEEE.val x) * (10 : Rat) ^ p + 1 / 2 + (𝔹).u * (10 : Rat) ^ p * (absQ (IEEE.val x) + 2)) ∧
      (p = 0 → absQ (IEEE.val x) - 1 < ((valL (ip ++ fr) : Nat) : Rat) ∧
        ((valL (ip ++ fr) : Nat) : Rat) ≤ absQ (IEEE.val x)) := by
  obtain ⟨hnan, hinf⟩ := IEEE.fin_special x hx
  rw [f32toa_eq_abs x prec hinf hnan]
  have hlt := IEEE.lt_zero x hx
  -- the argument after `if (f < 0) f = -f`
  obtain ⟨f0, hf0def, hsign, hf0, hv0⟩ : ∃ f0 : F, (if lt x (ofInt 0) then FloatLike.neg x else x) = f0 ∧
      (if lt x (ofInt 0) = true then [45] else ([] : List Nat)) = (if IEEE.val x < 0 then [45] else []) ∧
      IEEE.fin f0 ∧ IEEE.val f0 = absQ (IEEE.val x) := by
    by_cases hneg : IEEE.val x < 0
    · have hl : lt x (ofInt 0) = true := hlt.mpr hneg
      obtain ⟨a, b⟩ := IEEE.neg_val x hx
      refine ⟨FloatLike.neg x, by simp [hl], by simp [hl, hneg], a, ?_⟩
      rw [b]; simp [absQ, hneg]
    · have hl : lt x (ofInt 0) = false := by
        cases h : lt x (ofInt 0) with
        | false => rfl
        | true => exact absurd (hlt.mp h) hneg
      refine ⟨x, by simp [hl], by simp [hl, hneg], hx, ?_⟩
      simp [absQ, hneg]
  rw [hf0def, hsign]
  have hp : effPrec f0 prec ≤ 10 := effPrec_le _ _
  have ha0 : 0 ≤ IEEE.val f0 := by rw [hv0]; exact absQ_nonneg _
  obtain ⟨ip, fr, h1, h2, h3, h4, h5, h6, h7, h8⟩ := f32toaAbs_I f0 (effPrec f0 prec)
    (if IEEE.val x < 0 then [45] else []) hf0 ha0 hp (by rw [hv0]; exact hr)
  rw [hv0] at h7 h8
  exact ⟨effPrec f0 prec, ip, fr, rfl, hp, h1, h2, h3, h4, h5, h6, h7, h8⟩

end
end Igris.C12
