import IgrisModel.C12.Ieee
/-! C12 — consequences of `RN` / `Rep` used by the error analyses (any format). -/
namespace Igris.C12

theorem rep_zero (B : BinFmt) : Rep B 0 :=
  ⟨0, B.emin, Nat.two_pow_pos _, Int.le_refl _, by simp⟩

theorem rep_nonneg {B : BinFmt} {v : Rat} (h : Rep B v) : 0 ≤ v := by
  obtain ⟨m, e, _, _, rfl⟩ := h
  exact Rat.mul_nonneg Rat.natCast_nonneg (Rat.le_of_lt (pow2_pos e))

theorem RN.nonneg {B : BinFmt} {v r : Rat} (h : RN B v r) : 0 ≤ r := rep_nonneg h.rep

/-- a value of the format is rounded to itself -/
theorem RN.exact {B : BinFmt} {v r : Rat} (h : RN B v r) (hv : Rep B v) : r = v := by
  have := h.nearest v hv
  grind

/-- rounding does not cross a value of the format (from above) -/
theorem RN.le_rep {B : BinFmt} {v r w : Rat} (h : RN B v r) (hw : Rep B w) (hvw : v ≤ w) : r ≤ w := by
  have := h.nearest w hw
  grind

/-- rounding does not cross a value of the format (from below) -/
theorem RN.ge_rep {B : BinFmt} {v r w : Rat} (h : RN B v r) (hw : Rep B w) (hvw : w ≤ v) : w ≤ r := by
  have := h.nearest w hw
  grind

/-- the distance to the rounded value is at most the distance to any value of the format -/
theorem RN.dist_le {B : BinFmt} {v r w : Rat} (h : RN B v r) (hw : Rep B w) (hwv : w ≤ v) :
    r - v ≤ v - w ∧ v - r ≤ v - w := by
  have := h.nearest w hw
  grind

theorem RN.zero {B : BinFmt} {r : Rat} (h : RN B 0 r) : r = 0 := h.exact (rep_zero B)

theorem u_pos (B : BinFmt) : 0 < B.u := pow2_pos _
theorem eta_pos (B : BinFmt) : 0 < B.eta := pow2_pos _
theorem tiny_pos (B : BinFmt) : 0 < B.tiny := pow2_pos _

/-- the standard model `r = v (1 + δ)`, `|δ| ≤ u`, for `v` zero or in the normal range -/
theorem RN.rel {B : BinFmt} {v r : Rat} (h : RN B v r) (hv : v = 0 ∨ B.tiny ≤ v) :
    r - v ≤ B.u * v ∧ v - r ≤ B.u * v := by
  rcases h.err with h1 | ⟨h2, _, _⟩
  · exact h1
  · rcases hv with h0 | ht
    · subst h0
      have := h.zero; subst this; constructor <;> grind
    · grind

theorem RNs.pos {B : BinFmt} {v r : Rat} (h : RNs B v r) (hv : 0 ≤ v) : RN B v r := h.1 hv

/-- a natural number below `2^prec` is a value of the format -/
theorem rep_nat (B : BinFmt) (hB : B.emin ≤ 0) (n : Nat) (hn : n < 2 ^ B.prec) : Rep B (n : Rat) :=
  ⟨n, 0, hn, hB, by simp⟩

theorem pow2_neg_nat (k : Nat) : pow2 (-(k : Int)) * ((2 ^ k : Nat) : Rat) = 1 := by
  rw [← pow2_nat]; exact pow2_neg_mul _

/-- `u ≤ 2^-k` when the significand has at least `k` bits -/
theorem u_le (B : BinFmt) (k : Nat) (h : k ≤ B.prec) : B.u * ((2 ^ k : Nat) : Rat) ≤ 1 := by
  have h1 : B.u ≤ pow2 (-(k : Int)) := pow2_mono (by omega)
  have h2 := pow2_neg_nat k
  have h3 : (0 : Rat) ≤ ((2 ^ k : Nat) : Rat) := Rat.natCast_nonneg
  have := Rat.mul_le_mul_of_nonneg_right h1 h3
  grind

end Igris.C12
