import IgrisModel.C12.LemF32
/-!
  C12 round 3 — the automatic-precision table of igris_f32toa (`precision < 0`)
  always stays inside the region where the rendering is within ONE unit of the
  last printed digit.
-/
namespace Igris.C12
open Spec FloatLike

/-- the thresholds 1, 10, ..., 100000 are exactly representable in binary32 -/
theorem thr32 (n : Int) (h : n = 1 ∨ n = 10 ∨ n = 100 ∨ n = 1000 ∨ n = 10000 ∨ n = 100000) :
    FinEnc b32 (sfOfInt b32 n) ∧ encVal b32 (sfOfInt b32 n) = (n : Rat) := by
  rcases h with rfl | rfl | rfl | rfl | rfl | rfl <;>
  · constructor
    · unfold FinEnc; decide +kernel
    · decide +kernel

/-- `f < 1.0`, `f < 10.0`, ... of a finite binary32 is the comparison of the value -/
theorem lt_thr32 (y : F32) (hy : y.Fin) (n : Int)
    (h : n = 1 ∨ n = 10 ∨ n = 100 ∨ n = 1000 ∨ n = 10000 ∨ n = 100000) :
    lt y (ofInt n : F32) = true ↔ y.val < (n : Rat) := by
  obtain ⟨h1, h2⟩ := thr32 n h
  have := sfLt_val b32 b32_wf y.bits (sfOfInt b32 n) hy h1
  rw [h2] at this
  exact this

private theorem lt_false_of {y : F32} {n : Int} (hy : y.Fin)
    (h : n = 1 ∨ n = 10 ∨ n = 100 ∨ n = 1000 ∨ n = 10000 ∨ n = 100000)
    (hf : ¬ (lt y (ofInt n : F32) = true)) : (n : Rat) ≤ y.val := by
  have := lt_thr32 y hy n h
  have h2 : ¬ y.val < (n : Rat) := fun hh => hf (this.mpr hh)
  exact Rat.not_lt.mp h2

/-- the table: precision 6 below 1, 5 below 10, ..., 1 below 100000, 0 from there on — in terms of the VALUE -/
theorem autoPrec32_spec (y : F32) (hy : y.Fin) :
    (y.val < 1 ∧ autoPrec y = 6) ∨ (1 ≤ y.val ∧ y.val < 10 ∧ autoPrec y = 5) ∨
    (10 ≤ y.val ∧ y.val < 100 ∧ autoPrec y = 4) ∨ (100 ≤ y.val ∧ y.val < 1000 ∧ autoPrec y = 3) ∨
    (1000 ≤ y.val ∧ y.val < 10000 ∧ autoPrec y = 2) ∨ (10000 ≤ y.val ∧ y.val < 100000 ∧ autoPrec y = 1) ∨
    (100000 ≤ y.val ∧ autoPrec y = 0) := by
  have c1 : ((1 : Int) : Rat) = 1 := by decide +kernel
  have c2 : ((10 : Int) : Rat) = 10 := by decide +kernel
  have c3 : ((100 : Int) : Rat) = 100 := by decide +kernel
  have c4 : ((1000 : Int) : Rat) = 1000 := by decide +kernel
  have c5 : ((10000 : Int) : Rat) = 10000 := by decide +kernel
  have c6 : ((100000 : Int) : Rat) = 100000 := by decide +kernel
  unfold autoPrec
  by_cases h1 : lt y (ofInt 1 : F32) = true
  · have := (lt_thr32 y hy 1 (by omega)).mp h1
    rw [c1] at this
    rw [if_pos h1]; exact Or.inl ⟨this, rfl⟩
  have g1 := lt_false_of hy (n := 1) (by omega) h1
  rw [c1] at g1
  by_cases h2 : lt y (ofInt 10 : F32) = true
  · have := (lt_thr32 y hy 10 (by omega)).mp h2
    rw [c2] at this
    rw [if_neg h1, if_pos h2]; exact Or.inr (Or.inl ⟨g1, this, rfl⟩)
  have g2 := lt_false_of hy (n := 10) (by omega) h2
  rw [c2] at g2
  by_cases h3 : lt y (ofInt 100 : F32) = true
  · have := (lt_thr32 y hy 100 (by omega)).mp h3
    rw [c3] at this
    rw [if_neg h1, if_neg h2, if_pos h3]; exact Or.inr (Or.inr (Or.inl ⟨g2, this, rfl⟩))
  have g3 := lt_false_of hy (n := 100) (by omega) h3
  rw [c3] at g3
  by_cases h4 : lt y (ofInt 1000 : F32) = true
  · have := (lt_thr32 y hy 1000 (by omega)).mp h4
    rw [c4] at this
    rw [if_neg h1, if_neg h2, if_neg h3, if_pos h4]; exact Or.inr (Or.inr (Or.inr (Or.inl ⟨g3, this, rfl⟩)))
  have g4 := lt_false_of hy (n := 1000) (by omega) h4
  rw [c4] at g4
  by_cases h5 : lt y (ofInt 10000 : F32) = true
  · have := (lt_thr32 y hy 10000 (by omega)).mp h5
    rw [c5] at this
    rw [if_neg h1, if_neg h2, if_neg h3, if_neg h4, if_pos h5]
    exact Or.inr (Or.inr (Or.inr (Or.inr (Or.inl ⟨g4, this, rfl⟩))))
  have g5 := lt_false_of hy (n := 10000) (by omega) h5
  rw [c5] at g5
  by_cases h6 : lt y (ofInt 100000 : F32) = true
  · have := (lt_thr32 y hy 100000 (by omega)).mp h6
    rw [c6] at this
    rw [if_neg h1, if_neg h2, if_neg h3, if_neg h4, if_neg h5, if_pos h6]
    exact Or.inr (Or.inr (Or.inr (Or.inr (Or.inr (Or.inl ⟨g5, this, rfl⟩)))))
  have g6 := lt_false_of hy (n := 100000) (by omega) h6
  rw [c6] at g6
  rw [if_neg h1, if_neg h2, if_neg h3, if_neg h4, if_neg h5, if_neg h6]
  exact Or.inr (Or.inr (Or.inr (Or.inr (Or.inr (Or.inr ⟨g6, rfl⟩)))))

/-- hence the table keeps `10^p * (|x| + 2)` below 2^23 (or chooses p = 0) -/
theorem autoPrec32_budget (y : F32) (hy : y.Fin) (h0 : 0 ≤ y.val) :
    autoPrec y = 0 ∨ (10 : Rat) ^ autoPrec y * (y.val + 2) ≤ 8388608 := by
  have p6 : (10 : Rat) ^ 6 = 1000000 := by decide +kernel
  have p5 : (10 : Rat) ^ 5 = 100000 := by decide +kernel
  have p4 : (10 : Rat) ^ 4 = 10000 := by decide +kernel
  have p3 : (10 : Rat) ^ 3 = 1000 := by decide +kernel
  have p2 : (10 : Rat) ^ 2 = 100 := by decide +kernel
  have p1 : (10 : Rat) ^ 1 = 10 := by decide +kernel
  rcases autoPrec32_spec y hy with ⟨a, e⟩ | ⟨a, b, e⟩ | ⟨a, b, e⟩ | ⟨a, b, e⟩ | ⟨a, b, e⟩ | ⟨a, b, e⟩ | ⟨a, e⟩
  · right; rw [e, p6]; grind
  · right; rw [e, p5]; grind
  · right; rw [e, p4]; grind
  · right; rw [e, p3]; grind
  · right; rw [e, p2]; grind
  · right; rw [e, p1]; grind
  · left; exact e

theorem effPrec_auto {F : Type} [FloatLike F] (f : F) (prec : Int) (h : prec < 0) : effPrec f prec = autoPrec f := by
  unfold effPrec MAX_PRECISION
  have h1 : ¬ (prec > ((10 : Nat) : Int)) := by omega
  simp only [h1, if_false, h, if_true]

/-- AUTOMATIC PRECISION: within ONE unit of the last printed digit, for every finite binary32 below 2^31 -/
theorem ftoa_auto_core (x : F32) (prec : Int) (hauto : prec < 0) (hx : x.Fin) (hr : absQ x.val < 2147483648) :
    ∃ (p : Nat) (ip fr : List Nat),
      p = autoPrec (if lt x (ofInt 0) then FloatLike.neg x else x) ∧
      f32toa x prec = some ((if x.val < 0 then [45] else []) ++ ip ++ (if p ≠ 0 then 46 :: fr else [])) ∧
      fr.length = p ∧
      absQ x.val * (10 : Rat) ^ p - 1 < ((valL (ip ++ fr) : Nat) : Rat) ∧
      ((valL (ip ++ fr) : Nat) : Rat) ≤ absQ x.val * (10 : Rat) ^ p + 1 := by
  obtain ⟨p, ip, fr, hp, _, h, _, _, _, _, hlen, h9, h10⟩ := ftoa_error_bound_core x prec hx hr
  rw [effPrec_auto _ _ hauto] at hp
  -- the argument after `if (f < 0) f = -f`
  have hlt := IEEE.lt_zero x hx
  obtain ⟨hyf, hyv⟩ : (if lt x (ofInt 0) then FloatLike.neg x else x : F32).Fin ∧
      (if lt x (ofInt 0) then FloatLike.neg x else x : F32).val = absQ x.val := by
    by_cases hneg : x.val < 0
    · have hl : lt x (ofInt 0) = true := hlt.mpr hneg
      obtain ⟨a, b⟩ := IEEE.neg_val x hx
      simp only [hl, if_true]
      refine ⟨a, ?_⟩
      have : (FloatLike.neg x : F32).val = -(x.val) := b
      rw [this]; simp [absQ, hneg]
    · have hl : lt x (ofInt 0) = false := by
        cases h : lt x (ofInt 0) with
        | false => rfl
        | true => exact absurd (hlt.mp h) hneg
      simp only [hl, Bool.false_eq_true, if_false]
      exact ⟨hx, by simp [absQ, hneg]⟩
  have hb := autoPrec32_budget _ hyf (by rw [hyv]; exact absQ_nonneg _)
  rw [← hp, hyv] at hb
  refine ⟨p, ip, fr, hp, h, hlen, ?_⟩
  by_cases hp0 : p = 0
  · have := h10 hp0
    subst hp0
    simp at this ⊢
    constructor <;> grind
  · have := h9 hp0
    rcases hb with hb | hb
    · exact absurd hb hp0
    · constructor <;> grind

end Igris.C12
