import IgrisModel.C12.IeeeLemmas
import IgrisModel.C12.LemParse
/-!
  C12 — error analysis of `igris_atof64` (accumulate, then scale, one rounding
  per operation) over ANY IEEE arithmetic instance: induction over the digit
  loop and the scaling loops with the standard model `fl(x) = x (1 + δ)`.
-/
namespace Igris.C12
open Spec FloatLike

/-- the format of an IEEE instance -/
abbrev fmtOf (F : Type) [FloatLike F] [IEEE F] : BinFmt := IEEE.B (F := F)

/-- Rounding budget of the mantissa loops in HALF units of `u`.  A digit step
    `val = val * 10.0 + d` is exact (free) as long as the accumulated integer
    stays below `2^P` and nothing was rounded before; otherwise it rounds twice
    (4 half units).  `acc` = the integer accumulated so far, `n` = budget so far. -/
def mantCost (P : Nat) : List Nat → Nat → Nat → Nat
  | [], _, n => n
  | c :: ds, acc, n =>
    mantCost P ds (acc * 10 + (c - 48)) (if acc * 10 + (c - 48) < 2 ^ P ∧ n = 0 then 0 else n + 4)

/-- budget of `k` steps `val *= 10.0` starting at the integer `acc`: free while
    exact, otherwise one rounding (2 half units) per step -/
def upCost (P : Nat) : Nat → Nat → Nat → Nat
  | 0, _, n => n
  | k + 1, acc, n => upCost P k (acc * 10) (if acc * 10 < 2 ^ P ∧ n = 0 then 0 else n + 2)

/-- the budget `k(L)` of a literal, in half units of `u`: the mantissa loops
    over all digits, then `d = exponent - #fraction digits` scaling steps:
    upwards one rounding per inexact step, downwards (`val *= 0.1`) 1.5 units per
    step (the rounding plus the error u/2 of the constant 0.1) -/
def atofCost (P : Nat) (L : Literal) : Nat :=
  let n := mantCost P (L.ip ++ L.fracDigits) 0 0
  let d : Int := L.expValue - (L.fracDigits.length : Int)
  if d > 0 then upCost P d.toNat (valL (L.ip ++ L.fracDigits)) n else n + 3 * (-d).toNat

/-- ERROR BOUND of igris_atof64 over any IEEE arithmetic: for every literal of
    the grammar whose digit string (read as an integer) and value stay below
    half the overflow threshold and whose value is zero or at least twice the
    smallest normal number, the result is finite, the end offset is the end of
    the literal and
        |result - value| ≤ 1.01 * (k/2) * u * |value|,   k = atofCost prec L. -/
theorem atof64_error_bound {F : Type} [FloatLike F] [IEEE F] (L : Literal) (rest : List Nat)
    (hwf : L.WF) (hst : Stops L rest)
    (hprec : 10 ≤ (fmtOf F).prec)
    (hD : 2 * ((valL (L.ip ++ L.fracDigits) : Nat) : Rat) ≤ (fmtOf F).big)
    (hV : 2 * absQ L.value ≤ (fmtOf F).big)
    (hN : L.value = 0 ∨ 2 * (fmtOf F).tiny ≤ absQ L.value)
    (hn : (atofCost (fmtOf F).prec L : Rat) * (fmtOf F).u ≤ 1 / 100) :
    ∃ r : F, atof64 (F := F) (L.text ++ rest) = some (r, L.text.length) ∧ IEEE.fin r ∧
      absQ (IEEE.val r - L.value) ≤
        (101 / 200 : Rat) * (atofCost (fmtOf F).prec L : Rat) * (fmtOf F).u * absQ L.value := by
  sorry

end Igris.C12
