import IgrisModel.C12.IeeeLemmas
import IgrisModel.C12.LemParse
/-!
  C12 — error analysis of `igris_atof64` (accumulate, then scale, one rounding
  per operation) over ANY IEEE arithmetic instance: induction over the digit
  loop and the scaling loops with the standard model `fl(x) = x (1 + δ)`.
-/
namespace Igris.C12
open Spec FloatLike

/-- the format of an IEEE instance -/
abbrev fmtOf (F : Type) [FloatLike F] [IEEE F] : BinFmt := IEEE.B (F := F)

/-- Rounding budget of the mantissa loops in HALF units of `u`.  A digit step
    `val = val * 10.0 + d` is exact (free) as long as the accumulated integer
    stays below `2^P` and nothing was rounded before; otherwise it rounds twice
    (4 half units).  `acc` = the integer accumulated so far, `n` = budget so far. -/
def mantCost (P : Nat) : List Nat → Nat → Nat → Nat
  | [], _, n => n
  | c :: ds, acc, n =>
    mantCost P ds (acc * 10 + (c - 48)) (if acc * 10 + (c - 48) < 2 ^ P ∧ n = 0 then 0 else n + 4)

/-- budget of `k` steps `val *= 10.0` starting at the integer `acc`: free while
    exact, otherwise one rounding (2 half units) per step -/
def upCost (P : Nat) : Nat → Nat → Nat → Nat
  | 0, _, n => n
  | k + 1, acc, n => upCost P k (acc * 10) (if acc * 10 < 2 ^ P ∧ n = 0 then 0 else n + 2)

/-- the budget `k(L)` of a literal, in half units of `u`: the mantissa loops
    over all digits, then `d = exponent - #fraction digits` scaling steps:
    upwards one rounding per inexact step, downwards (`val *= 0.1`) 1.5 units per
    step (the rounding plus the error u/2 of the constant 0.1) -/
def atofCost (P : Nat) (L : Literal) : Nat :=
  let n := mantCost P (L.ip ++ L.fracDigits) 0 0
  let d : Int := L.expValue - (L.fracDigits.length : Int)
  if d > 0 then upCost P d.toNat (valL (L.ip ++ L.fracDigits)) n else n + 3 * (-d).toNat

/-- `a` approximates the non-negative `q` with relative error at most `E` -/
def Approx (E a q : Rat) : Prop := q * (1 - E) ≤ a ∧ a ≤ q * (1 + E)

/-- the error after `n` half-roundings: `1.01 * (n/2) * u` -/
def Eb (u : Rat) (n : Nat) : Rat := (101 / 200 : Rat) * (n : Rat) * u

theorem Eb_zero (u : Rat) : Eb u 0 = 0 := by simp [Eb]

theorem Eb_nonneg {u : Rat} (hu : 0 ≤ u) (n : Nat) : 0 ≤ Eb u n := by
  unfold Eb
  have h1 : (0 : Rat) ≤ (n : Rat) := Rat.natCast_nonneg
  have := Rat.mul_nonneg h1 hu
  grind

theorem Eb_le {u : Rat} {n : Nat} (h : (n : Rat) * u ≤ 1 / 100) : Eb u n ≤ 1 / 100 := by
  unfold Eb; grind

theorem bud_mono {u : Rat} (hu : 0 ≤ u) {n m : Nat} (hnm : n ≤ m) (h : (m : Rat) * u ≤ 1 / 100) :
    (n : Rat) * u ≤ 1 / 100 := by
  have h1 : (n : Rat) ≤ (m : Rat) := Rat.natCast_le_natCast.mpr hnm
  have := Rat.mul_le_mul_of_nonneg_right h1 hu
  grind

theorem approx_of_eq {u a q : Rat} (h : a = q) : Approx (Eb u 0) a q := by
  subst h; rw [Eb_zero]; constructor <;> grind

theorem approx_zero_eq {u a q : Rat} (h : Approx (Eb u 0) a q) : a = q := by
  rw [Eb_zero] at h; obtain ⟨h1, h2⟩ := h; grind

theorem approx_nonneg {E a q : Rat} (h : Approx E a q) (hq : 0 ≤ q) (hE : E ≤ 1) : 0 ≤ a := by
  have : 0 ≤ q * (1 - E) := Rat.mul_nonneg hq (by grind)
  exact Rat.le_trans this h.1

theorem approx_q_zero {E a : Rat} (h : Approx E a 0) : a = 0 := by
  obtain ⟨h1, h2⟩ := h; grind

theorem approx_weaken {E E' a q : Rat} (h : Approx E a q) (hq : 0 ≤ q) (hE : E ≤ E') : Approx E' a q := by
  obtain ⟨h1, h2⟩ := h
  have := Rat.mul_le_mul_of_nonneg_left hE hq
  constructor <;> grind

theorem approx_mul {E1 E2 a b q1 q2 : Rat} (ha : Approx E1 a q1) (hb : Approx E2 b q2)
    (hq1 : 0 ≤ q1) (hq2 : 0 ≤ q2) (h10 : 0 ≤ E1) (h11 : E1 ≤ 1) (h20 : 0 ≤ E2) (h21 : E2 ≤ 1) :
    Approx (E1 + E2 + E1 * E2) (a * b) (q1 * q2) := by
  have ha0 := approx_nonneg ha hq1 h11
  have hb0 := approx_nonneg hb hq2 h21
  obtain ⟨ha1, ha2⟩ := ha
  obtain ⟨hb1, hb2⟩ := hb
  have hl1 : 0 ≤ q1 * (1 + E1) := Rat.mul_nonneg hq1 (by grind)
  have hl2 : 0 ≤ q2 * (1 - E2) := Rat.mul_nonneg hq2 (by grind)
  have u1 := Rat.mul_le_mul_of_nonneg_right ha2 hb0
  have u2 := Rat.mul_le_mul_of_nonneg_left hb2 hl1
  have l1 := Rat.mul_le_mul_of_nonneg_right ha1 hl2
  have l2 := Rat.mul_le_mul_of_nonneg_left hb1 ha0
  have p : 0 ≤ q1 * q2 * E1 * E2 := Rat.mul_nonneg (Rat.mul_nonneg (Rat.mul_nonneg hq1 hq2) h10) h20
  constructor <;> grind

theorem approx_add {E a q d : Rat} (h : Approx E a q) (hd : 0 ≤ d) (hE0 : 0 ≤ E) :
    Approx E (a + d) (q + d) := by
  obtain ⟨h1, h2⟩ := h
  have := Rat.mul_nonneg hd hE0
  constructor <;> grind

theorem approx_abs {E a q : Rat} (h : Approx E a q) : absQ (a - q) ≤ E * q := by
  obtain ⟨h1, h2⟩ := h
  unfold absQ; split <;> grind

/-- one rounding to nearest of a value that is zero or normal -/
theorem rn_approx {B : BinFmt} {v r q E : Rat} (h : RN B v r) (hA : Approx E v q) (hq : 0 ≤ q)
    (hE0 : 0 ≤ E) (hE : E ≤ 1 / 2) (ht : q = 0 ∨ 2 * B.tiny ≤ q) (hu : B.u ≤ 1) :
    Approx (E + B.u + E * B.u) r q := by
  have hu0 := u_pos B
  have hv : v = 0 ∨ B.tiny ≤ v := by
    rcases ht with h0 | h2
    · subst h0; exact Or.inl (approx_q_zero hA)
    · right
      have := Rat.mul_le_mul_of_nonneg_left (show (1 / 2 : Rat) ≤ 1 - E by grind) hq
      have := hA.1
      grind
  obtain ⟨r1, r2⟩ := h.rel hv
  obtain ⟨a1, a2⟩ := hA
  have p1 := Rat.mul_le_mul_of_nonneg_right a2 (show 0 ≤ 1 + B.u by grind)
  have p2 := Rat.mul_le_mul_of_nonneg_right a1 (show 0 ≤ 1 - B.u by grind)
  have p3 : 0 ≤ q * E * B.u := Rat.mul_nonneg (Rat.mul_nonneg hq hE0) (by grind)
  constructor <;> grind

/-! ### facts about the format of an instance -/
section cls
variable {F : Type} [FloatLike F] [IEEE F]

theorem fmt_emin_le : (fmtOf F).emin + (fmtOf F).prec + 3 ≤ 0 := IEEE.emin_le (F := F)
theorem fmt_prec_ge : 4 ≤ (fmtOf F).prec := IEEE.prec_ge (F := F)
theorem fmt_emax_ge : 32 ≤ (fmtOf F).emax := IEEE.emax_ge (F := F)

theorem fmt_emin_le0 : (fmtOf F).emin ≤ 0 := by
  have := fmt_emin_le (F := F); omega

theorem pow2_four : pow2 4 = 16 := by
  have := pow2_nat 4; simpa using this

theorem pow2_five : pow2 5 = 32 := by
  have := pow2_nat 5; simpa using this

theorem fmt_tiny_le : (fmtOf F).tiny * 16 ≤ 1 := by
  have h := fmt_emin_le (F := F)
  have h1 : (fmtOf F).tiny ≤ pow2 (-4) := pow2_mono (by omega)
  have h2 := pow2_neg_mul 4
  rw [pow2_four] at h2
  grind

theorem fmt_big_ge : 32 ≤ (fmtOf F).big := by
  have h := fmt_emax_ge (F := F)
  have h1 : pow2 5 ≤ (fmtOf F).big := pow2_mono (by omega)
  rw [pow2_five] at h1; exact h1

theorem fmt_u_small (hprec : 10 ≤ (fmtOf F).prec) : (fmtOf F).u ≤ 1 / 1000 := by
  have := u_le (fmtOf F) 10 hprec
  have e : ((2 ^ 10 : Nat) : Rat) = 1024 := by simp
  rw [e] at this
  have := u_pos (fmtOf F)
  grind

theorem two_pow_prec_ge : 16 ≤ 2 ^ (fmtOf F).prec := by
  have h := fmt_prec_ge (F := F)
  have : 2 ^ 4 ≤ 2 ^ (fmtOf F).prec := Nat.pow_le_pow_right (by decide) h
  omega

/-! ### one operation of the class -/

theorem approx_inrange {B : BinFmt} {E v q : Rat} (hA : Approx E v q) (hq : 0 ≤ q)
    (hE : E ≤ 1 / 2) (hb : 2 * q ≤ B.big) : 0 ≤ v ∧ InRange B v := by
  have h0 := approx_nonneg hA hq (by grind)
  have hbig : 0 < B.big := pow2_pos _
  have := Rat.mul_le_mul_of_nonneg_left (show 1 + E ≤ 3 / 2 by grind) hq
  have := hA.2
  refine ⟨h0, ?_, ?_⟩ <;> grind

theorem rns_approx {B : BinFmt} {v r q E : Rat} (h : RNs B v r) (hA : Approx E v q) (hq : 0 ≤ q)
    (hE0 : 0 ≤ E) (hE : E ≤ 1 / 2) (ht : q = 0 ∨ 2 * B.tiny ≤ q) (hu : B.u ≤ 1) :
    Approx (E + B.u + E * B.u) r q :=
  rn_approx (h.pos (approx_nonneg hA hq (by grind))) hA hq hE0 hE ht hu

theorem rns_exact {B : BinFmt} {v r : Rat} (h : RNs B v r) (hB : B.emin ≤ 0) (m : Nat) (hv : v = (m : Rat))
    (hm : m < 2 ^ B.prec) : r = (m : Rat) := by
  subst hv; exact (h.pos Rat.natCast_nonneg).exact (rep_nat B hB m hm)

theorem nat_inrange {B : BinFmt} (m : Nat) (hb : 2 * (m : Rat) ≤ B.big) : InRange B (m : Rat) := by
  have hbig : 0 < B.big := pow2_pos _
  have : (0 : Rat) ≤ (m : Rat) := Rat.natCast_nonneg
  constructor <;> grind

theorem mul_step (x y : F) (hx : IEEE.fin x) (hy : IEEE.fin y) {q E : Rat}
    (hA : Approx E (IEEE.val x * IEEE.val y) q) (hq : 0 ≤ q) (hE0 : 0 ≤ E) (hE : E ≤ 1 / 2)
    (hb : 2 * q ≤ (fmtOf F).big) (ht : q = 0 ∨ 2 * (fmtOf F).tiny ≤ q) (hu : (fmtOf F).u ≤ 1) :
    IEEE.fin (mul x y) ∧ Approx (E + (fmtOf F).u + E * (fmtOf F).u) (IEEE.val (mul x y)) q := by
  obtain ⟨_, hr⟩ := approx_inrange hA hq hE hb
  obtain ⟨hf, hrn⟩ := IEEE.mul_rn x y hx hy hr
  exact ⟨hf, rns_approx hrn hA hq hE0 hE ht hu⟩

theorem add_step (x y : F) (hx : IEEE.fin x) (hy : IEEE.fin y) {q E : Rat}
    (hA : Approx E (IEEE.val x + IEEE.val y) q) (hq : 0 ≤ q) (hE0 : 0 ≤ E) (hE : E ≤ 1 / 2)
    (hb : 2 * q ≤ (fmtOf F).big) (ht : q = 0 ∨ 2 * (fmtOf F).tiny ≤ q) (hu : (fmtOf F).u ≤ 1) :
    IEEE.fin (add x y) ∧ Approx (E + (fmtOf F).u + E * (fmtOf F).u) (IEEE.val (add x y)) q := by
  obtain ⟨_, hr⟩ := approx_inrange hA hq hE hb
  obtain ⟨hf, hrn⟩ := IEEE.add_rn x y hx hy hr
  exact ⟨hf, rns_approx hrn hA hq hE0 hE ht hu⟩

theorem mul_exact (x y : F) (hx : IEEE.fin x) (hy : IEEE.fin y) (m : Nat)
    (hv : IEEE.val x * IEEE.val y = (m : Rat)) (hm : m < 2 ^ (fmtOf F).prec)
    (hb : 2 * (m : Rat) ≤ (fmtOf F).big) :
    IEEE.fin (mul x y) ∧ IEEE.val (mul x y) = (m : Rat) := by
  have hr := nat_inrange m hb
  rw [← hv] at hr
  obtain ⟨hf, hrn⟩ := IEEE.mul_rn x y hx hy hr
  exact ⟨hf, rns_exact hrn fmt_emin_le0 m hv hm⟩

theorem add_exact (x y : F) (hx : IEEE.fin x) (hy : IEEE.fin y) (m : Nat)
    (hv : IEEE.val x + IEEE.val y = (m : Rat)) (hm : m < 2 ^ (fmtOf F).prec)
    (hb : 2 * (m : Rat) ≤ (fmtOf F).big) :
    IEEE.fin (add x y) ∧ IEEE.val (add x y) = (m : Rat) := by
  have hr := nat_inrange m hb
  rw [← hv] at hr
  obtain ⟨hf, hrn⟩ := IEEE.add_rn x y hx hy hr
  exact ⟨hf, rns_exact hrn fmt_emin_le0 m hv hm⟩

/-- small integer constants are exact -/
theorem ofInt_nat (k : Nat) (hk : k < 16) :
    IEEE.fin (ofInt (k : Int) : F) ∧ IEEE.val (ofInt (k : Int) : F) = (k : Rat) := by
  have hbig := fmt_big_ge (F := F)
  have hk' : (k : Rat) ≤ 16 := by
    have : (k : Rat) ≤ ((16 : Nat) : Rat) := Rat.natCast_le_natCast.mpr (by omega)
    simpa using this
  have hr : InRange (fmtOf F) (((k : Int)) : Rat) := by
    rw [Rat.intCast_natCast]; exact nat_inrange k (by grind)
  obtain ⟨hf, hrn⟩ := IEEE.ofInt_rn (F := F) (k : Int) hr
  refine ⟨hf, rns_exact hrn fmt_emin_le0 k (Rat.intCast_natCast k) ?_⟩
  show k < 2 ^ (fmtOf F).prec
  have := two_pow_prec_ge (F := F); omega

theorem ofInt_ten : IEEE.fin (ofInt 10 : F) ∧ IEEE.val (ofInt 10 : F) = 10 := by
  have := ofInt_nat (F := F) 10 (by omega); simpa using this

theorem ofInt_zero : IEEE.fin (ofInt 0 : F) ∧ IEEE.val (ofInt 0 : F) = 0 := by
  have := ofInt_nat (F := F) 0 (by omega); simpa using this

theorem ofInt_one : IEEE.fin (ofInt 1 : F) ∧ IEEE.val (ofInt 1 : F) = 1 := by
  have := ofInt_nat (F := F) 1 (by omega); simpa using this

theorem ofInt_digit (c : Nat) (h1 : 48 ≤ c) (h2 : c ≤ 57) :
    IEEE.fin (ofInt ((c : Int) - 48) : F) ∧ IEEE.val (ofInt ((c : Int) - 48) : F) = ((c - 48 : Nat) : Rat) := by
  have e : (c : Int) - 48 = ((c - 48 : Nat) : Int) := by omega
  rw [e]; exact ofInt_nat (c - 48) (by omega)

theorem ofInt_neg_one : IEEE.fin (ofInt (-1) : F) ∧ IEEE.val (ofInt (-1) : F) = -1 := by
  have hbig := fmt_big_ge (F := F)
  have e : (((-1 : Int)) : Rat) = -1 := by decide
  have hr : InRange (fmtOf F) (((-1 : Int)) : Rat) := by
    rw [e]; constructor <;> grind
  obtain ⟨hf, hrn⟩ := IEEE.ofInt_rn (F := F) (-1) hr
  refine ⟨hf, ?_⟩
  rw [e] at hrn
  have h := hrn.2 (by decide)
  have h1 : Rep (fmtOf F) (1 : Rat) := by
    have := rep_nat (fmtOf F) fmt_emin_le0 1 (by have := two_pow_prec_ge (F := F); omega)
    simpa using this
  have := h.exact (by simpa using h1)
  grind

/-! ### the budget arithmetic -/

theorem natCast_add_two (n : Nat) : ((n + 2 : Nat) : Rat) = (n : Rat) + 2 := by
  rw [Rat.natCast_add]; simp
theorem natCast_add_three (n : Nat) : ((n + 3 : Nat) : Rat) = (n : Rat) + 3 := by
  rw [Rat.natCast_add]; simp
theorem natCast_add_four (n : Nat) : ((n + 4 : Nat) : Rat) = (n : Rat) + 4 := by
  rw [Rat.natCast_add]; simp

/-- one rounding costs two half units -/
theorem Eb_round {u : Rat} {n : Nat} (hu0 : 0 ≤ u) (h : (n : Rat) * u ≤ 1 / 100) :
    Eb u n + u + Eb u n * u ≤ Eb u (n + 2) := by
  unfold Eb
  rw [natCast_add_two]
  have := Rat.mul_le_mul_of_nonneg_right h hu0
  grind

/-- a step `val *= 0.1` (constant within u/2, one rounding) costs three half units -/
theorem Eb_down {u : Rat} {n : Nat} (hu0 : 0 ≤ u) (hu : u ≤ 1 / 1000) (h : (n : Rat) * u ≤ 1 / 100) :
    (Eb u n + u / 2 + Eb u n * (u / 2)) + u + (Eb u n + u / 2 + Eb u n * (u / 2)) * u ≤ Eb u (n + 3) := by
  unfold Eb
  rw [natCast_add_three]
  have h1 := Rat.mul_le_mul_of_nonneg_right h hu0
  have h2 := Rat.mul_le_mul_of_nonneg_right hu hu0
  have h3 := Rat.mul_le_mul_of_nonneg_right h1 hu0
  grind

theorem approx_mul_const {E a q c : Rat} (h : Approx E a q) (hc : 0 ≤ c) : Approx E (a * c) (q * c) := by
  obtain ⟨h1, h2⟩ := h
  have := Rat.mul_le_mul_of_nonneg_right h1 hc
  have := Rat.mul_le_mul_of_nonneg_right h2 hc
  constructor <;> grind

theorem nat_tiny (m : Nat) : (m : Rat) = 0 ∨ 2 * (fmtOf F).tiny ≤ (m : Rat) := by
  by_cases h : m = 0
  · left; subst h; simp
  · right
    have h1 : ((1 : Nat) : Rat) ≤ (m : Rat) := Rat.natCast_le_natCast.mpr (by omega)
    have := fmt_tiny_le (F := F)
    simp at h1
    grind

theorem natCast_le_of_le {a b : Nat} {X : Rat} (h : a ≤ b) (hb : 2 * (b : Rat) ≤ X) : 2 * (a : Rat) ≤ X := by
  have : (a : Rat) ≤ (b : Rat) := Rat.natCast_le_natCast.mpr h
  grind

/-! ### the mantissa loop -/

theorem mant_step (x : F) (acc n n' c : Nat) (hc1 : 48 ≤ c) (hc2 : c ≤ 57) (hx : IEEE.fin x)
    (hA : Approx (Eb (fmtOf F).u n) (IEEE.val x) (acc : Rat)) (hu : (fmtOf F).u ≤ 1 / 1000)
    (hb : 2 * ((acc * 10 + (c - 48) : Nat) : Rat) ≤ (fmtOf F).big)
    (hcase : (acc * 10 + (c - 48) < 2 ^ (fmtOf F).prec ∧ n = 0 ∧ n' = 0) ∨ n' = n + 4)
    (hbud : (n' : Rat) * (fmtOf F).u ≤ 1 / 100) :
    IEEE.fin (add (mul x (ofInt 10)) (ofInt ((c : Int) - 48))) ∧
      Approx (Eb (fmtOf F).u n') (IEEE.val (add (mul x (ofInt 10)) (ofInt ((c : Int) - 48))))
        ((acc * 10 + (c - 48) : Nat) : Rat) := by
  obtain ⟨f10, v10⟩ := ofInt_ten (F := F)
  obtain ⟨fd, vd⟩ := ofInt_digit (F := F) c hc1 hc2
  have hb1 : 2 * ((acc * 10 : Nat) : Rat) ≤ (fmtOf F).big := natCast_le_of_le (by omega) hb
  rcases hcase with ⟨hlt, hn0, hn'⟩ | hn'
  · subst hn0; subst hn'
    have hv := approx_zero_eq hA
    obtain ⟨fm, vm⟩ := mul_exact x (ofInt 10) hx f10 (acc * 10)
      (by rw [hv, v10, Rat.natCast_mul]; simp) (by omega) hb1
    obtain ⟨fa, va⟩ := add_exact _ (ofInt ((c : Int) - 48)) fm fd (acc * 10 + (c - 48))
      (by rw [vm, vd, Rat.natCast_add]) hlt hb
    exact ⟨fa, approx_of_eq va⟩
  · subst hn'
    have hu0 : 0 ≤ (fmtOf F).u := Rat.le_of_lt (u_pos _)
    have hu1 : (fmtOf F).u ≤ 1 := by grind
    have b0 : (n : Rat) * (fmtOf F).u ≤ 1 / 100 := bud_mono hu0 (by omega) hbud
    have b2 : ((n + 2 : Nat) : Rat) * (fmtOf F).u ≤ 1 / 100 := bud_mono hu0 (by omega) hbud
    have e0 := Eb_le b0
    have e2 := Eb_le b2
    have hA1 : Approx (Eb (fmtOf F).u n) (IEEE.val x * IEEE.val (ofInt 10 : F)) ((acc * 10 : Nat) : Rat) := by
      rw [v10, Rat.natCast_mul]; simpa using approx_mul_const hA (show (0 : Rat) ≤ 10 by decide)
    obtain ⟨fm, am⟩ := mul_step x (ofInt 10) hx f10 hA1 Rat.natCast_nonneg (Eb_nonneg hu0 n) (by grind)
      hb1 (nat_tiny _) hu1
    have am2 := approx_weaken am Rat.natCast_nonneg (Eb_round hu0 b0)
    have hA2 : Approx (Eb (fmtOf F).u (n + 2)) (IEEE.val (mul x (ofInt 10)) + IEEE.val (ofInt ((c : Int) - 48) : F))
        ((acc * 10 + (c - 48) : Nat) : Rat) := by
      rw [vd, Rat.natCast_add]
      exact approx_add am2 Rat.natCast_nonneg (Eb_nonneg hu0 _)
    obtain ⟨fa, aa⟩ := add_step _ (ofInt ((c : Int) - 48)) fm fd hA2 Rat.natCast_nonneg (Eb_nonneg hu0 _) (by grind)
      hb (nat_tiny _) hu1
    exact ⟨fa, approx_weaken aa Rat.natCast_nonneg (Eb_round hu0 b2)⟩

theorem mantCost_ge (P : Nat) (ds : List Nat) (acc n : Nat) : n ≤ mantCost P ds acc n := by
  induction ds generalizing acc n with
  | nil => simp [mantCost]
  | cons c ds ih =>
    simp only [mantCost]
    refine Nat.le_trans ?_ (ih _ _)
    split <;> omega

theorem upCost_ge (P : Nat) (k acc n : Nat) : n ≤ upCost P k acc n := by
  induction k generalizing acc n with
  | zero => simp [upCost]
  | succ k ih =>
    simp only [upCost]
    refine Nat.le_trans ?_ (ih _ _)
    split <;> omega

theorem horner_step (acc d len v : Nat) :
    (acc * 10 + d) * 10 ^ len + v = acc * 10 ^ (len + 1) + (d * 10 ^ len + v) := by
  rw [Nat.add_mul, Nat.pow_succ]; simp [Nat.mul_assoc, Nat.mul_comm, Nat.add_assoc]

theorem mantCost_append (P : Nat) (xs ys : List Nat) (acc n : Nat) :
    mantCost P (xs ++ ys) acc n = mantCost P ys (acc * 10 ^ xs.length + valL xs) (mantCost P xs acc n) := by
  induction xs generalizing acc n with
  | nil => simp [mantCost, valL]
  | cons c xs ih =>
    simp only [List.cons_append, mantCost, List.length_cons]
    rw [ih, valL_cons, horner_step]

theorem mantLoop_F (ds r : List Nat) (hd : AllDigits ds) (hr : NonDigitHead r) (x : F) (k acc n : Nat)
    (hx : IEEE.fin x) (hA : Approx (Eb (fmtOf F).u n) (IEEE.val x) (acc : Rat))
    (hu : (fmtOf F).u ≤ 1 / 1000)
    (hb : 2 * ((acc * 10 ^ ds.length + valL ds : Nat) : Rat) ≤ (fmtOf F).big)
    (hbud : (mantCost (fmtOf F).prec ds acc n : Rat) * (fmtOf F).u ≤ 1 / 100) :
    ∃ x' : F, mantLoop (ds ++ r) x k = some (x', k + ds.length, r) ∧ IEEE.fin x' ∧
      Approx (Eb (fmtOf F).u (mantCost (fmtOf F).prec ds acc n)) (IEEE.val x')
        ((acc * 10 ^ ds.length + valL ds : Nat) : Rat) := by
  induction ds generalizing x k acc n with
  | nil =>
    obtain ⟨c, tl, rfl, hc⟩ := hr
    have : isDigit c = false := (isDigit_false_iff c).mpr hc
    refine ⟨x, by simp [mantLoop, this], hx, ?_⟩
    simpa [mantCost, valL] using hA
  | cons d ds ih =>
    have hd' := allDigits_cons.mp hd
    have hdig : isDigit d = true := (isDigit_iff d).mpr hd'.1
    have hu0 : 0 ≤ (fmtOf F).u := Rat.le_of_lt (u_pos _)
    simp only [mantCost] at hbud ⊢
    rw [valL_cons, List.length_cons, ← horner_step] at hb ⊢
    have hpos : 0 < 10 ^ ds.length := Nat.pow_pos (by decide)
    have hb1 : 2 * ((acc * 10 + (d - 48) : Nat) : Rat) ≤ (fmtOf F).big :=
      natCast_le_of_le (Nat.le_trans (Nat.le_mul_of_pos_right _ hpos) (Nat.le_add_right _ _)) hb
    generalize hn' : (if acc * 10 + (d - 48) < 2 ^ (fmtOf F).prec ∧ n = 0 then 0 else n + 4) = n' at hbud ⊢
    have hcase : (acc * 10 + (d - 48) < 2 ^ (fmtOf F).prec ∧ n = 0 ∧ n' = 0) ∨ n' = n + 4 := by
      split at hn'
      · left; rename_i h; exact ⟨h.1, h.2, hn'.symm⟩
      · right; exact hn'.symm
    have hbud1 : (n' : Rat) * (fmtOf F).u ≤ 1 / 100 := bud_mono hu0 (mantCost_ge _ _ _ _) hbud
    obtain ⟨fs, as⟩ := mant_step x acc n n' d hd'.1.1 hd'.1.2 hx hA hu hb1 hcase hbud1
    obtain ⟨x', hl, fx', ax'⟩ := ih hd'.2 _ (k + 1) _ n' fs as hb hbud
    refine ⟨x', ?_, fx', ax'⟩
    simp only [List.cons_append, mantLoop, hdig, if_true]
    rw [hl]
    simp only [Option.some.injEq, Prod.mk.injEq, and_true, true_and]
    omega

/-! ### the scaling loops -/

theorem up_step (x : F) (acc n n' : Nat) (hx : IEEE.fin x)
    (hA : Approx (Eb (fmtOf F).u n) (IEEE.val x) (acc : Rat)) (hu : (fmtOf F).u ≤ 1 / 1000)
    (hb : 2 * ((acc * 10 : Nat) : Rat) ≤ (fmtOf F).big)
    (hcase : (acc * 10 < 2 ^ (fmtOf F).prec ∧ n = 0 ∧ n' = 0) ∨ n' = n + 2)
    (hbud : (n' : Rat) * (fmtOf F).u ≤ 1 / 100) :
    IEEE.fin (mul x (ofInt 10)) ∧
      Approx (Eb (fmtOf F).u n') (IEEE.val (mul x (ofInt 10))) ((acc * 10 : Nat) : Rat) := by
  obtain ⟨f10, v10⟩ := ofInt_ten (F := F)
  rcases hcase with ⟨hlt, hn0, hn'⟩ | hn'
  · subst hn0; subst hn'
    have hv := approx_zero_eq hA
    obtain ⟨fm, vm⟩ := mul_exact x (ofInt 10) hx f10 (acc * 10)
      (by rw [hv, v10, Rat.natCast_mul]; simp) hlt hb
    exact ⟨fm, approx_of_eq vm⟩
  · subst hn'
    have hu0 : 0 ≤ (fmtOf F).u := Rat.le_of_lt (u_pos _)
    have hu1 : (fmtOf F).u ≤ 1 := by grind
    have b0 : (n : Rat) * (fmtOf F).u ≤ 1 / 100 := bud_mono hu0 (by omega) hbud
    have e0 := Eb_le b0
    have hA1 : Approx (Eb (fmtOf F).u n) (IEEE.val x * IEEE.val (ofInt 10 : F)) ((acc * 10 : Nat) : Rat) := by
      rw [v10, Rat.natCast_mul]; simpa using approx_mul_const hA (show (0 : Rat) ≤ 10 by decide)
    obtain ⟨fm, am⟩ := mul_step x (ofInt 10) hx f10 hA1 Rat.natCast_nonneg (Eb_nonneg hu0 n) (by grind)
      hb (nat_tiny _) hu1
    exact ⟨fm, approx_weaken am Rat.natCast_nonneg (Eb_round hu0 b0)⟩

theorem pow_succ_shift (acc j : Nat) : acc * 10 ^ (j + 1) = acc * 10 * 10 ^ j := by
  rw [Nat.pow_succ, Nat.mul_assoc, Nat.mul_comm 10]

theorem up_F (j : Nat) (x : F) (acc n : Nat) (hx : IEEE.fin x)
    (hA : Approx (Eb (fmtOf F).u n) (IEEE.val x) (acc : Rat)) (hu : (fmtOf F).u ≤ 1 / 1000)
    (hb : 2 * ((acc * 10 ^ j : Nat) : Rat) ≤ (fmtOf F).big)
    (hbud : (upCost (fmtOf F).prec j acc n : Rat) * (fmtOf F).u ≤ 1 / 100) :
    IEEE.fin (iter (fun v : F => mul v (ofInt 10)) j x) ∧
      Approx (Eb (fmtOf F).u (upCost (fmtOf F).prec j acc n))
        (IEEE.val (iter (fun v : F => mul v (ofInt 10)) j x)) ((acc * 10 ^ j : Nat) : Rat) := by
  induction j generalizing x acc n with
  | zero => simpa [iter, upCost] using And.intro hx hA
  | succ j ih =>
    have hu0 : 0 ≤ (fmtOf F).u := Rat.le_of_lt (u_pos _)
    simp only [upCost, iter] at hbud ⊢
    rw [pow_succ_shift] at hb ⊢
    have hpos : 0 < 10 ^ j := Nat.pow_pos (by decide)
    have hb1 : 2 * ((acc * 10 : Nat) : Rat) ≤ (fmtOf F).big :=
      natCast_le_of_le (Nat.le_mul_of_pos_right _ hpos) hb
    generalize hn' : (if acc * 10 < 2 ^ (fmtOf F).prec ∧ n = 0 then 0 else n + 2) = n' at hbud ⊢
    have hcase : (acc * 10 < 2 ^ (fmtOf F).prec ∧ n = 0 ∧ n' = 0) ∨ n' = n + 2 := by
      split at hn'
      · left; rename_i h; exact ⟨h.1, h.2, hn'.symm⟩
      · right; exact hn'.symm
    have hbud1 : (n' : Rat) * (fmtOf F).u ≤ 1 / 100 := bud_mono hu0 (upCost_ge _ _ _ _) hbud
    obtain ⟨fs, as⟩ := up_step x acc n n' hx hA hu hb1 hcase hbud1
    exact ih _ _ n' fs as hb hbud

theorem one_le_pow10 (j : Nat) : (1 : Rat) ≤ (10 : Rat) ^ j := by
  induction j with
  | zero => simp
  | succ j ih => rw [Rat.pow_succ]; grind

theorem tenth_approx : IEEE.fin (lit 1 1 : F) ∧ Approx ((fmtOf F).u / 2) (IEEE.val (lit 1 1 : F)) (1 / 10) := by
  obtain ⟨h1, h2, h3⟩ := IEEE.tenth_ok (F := F)
  refine ⟨h1, ?_, ?_⟩
  · show (1 / 10 : Rat) * (1 - (fmtOf F).u / 2) ≤ _
    have : (fmtOf F).u = (IEEE.B (F := F)).u := rfl
    grind
  · show _ ≤ (1 / 10 : Rat) * (1 + (fmtOf F).u / 2)
    have : (fmtOf F).u = (IEEE.B (F := F)).u := rfl
    grind

theorem down_step (x : F) (q : Rat) (n : Nat) (hx : IEEE.fin x) (hq : 0 ≤ q)
    (hA : Approx (Eb (fmtOf F).u n) (IEEE.val x) q) (hu : (fmtOf F).u ≤ 1 / 1000)
    (hb : 2 * q ≤ (fmtOf F).big) (ht : q = 0 ∨ 2 * (fmtOf F).tiny ≤ q / 10)
    (hbud : ((n + 3 : Nat) : Rat) * (fmtOf F).u ≤ 1 / 100) :
    IEEE.fin (mul x (lit 1 1)) ∧ Approx (Eb (fmtOf F).u (n + 3)) (IEEE.val (mul x (lit 1 1))) (q / 10) := by
  obtain ⟨ft, at'⟩ := tenth_approx (F := F)
  have hu0 : 0 ≤ (fmtOf F).u := Rat.le_of_lt (u_pos _)
  have hu1 : (fmtOf F).u ≤ 1 := by grind
  have b0 : (n : Rat) * (fmtOf F).u ≤ 1 / 100 := bud_mono hu0 (by omega) hbud
  have e0 := Eb_le b0
  have e3 := Eb_le hbud
  have en := Eb_nonneg hu0 n
  have hA1 := approx_mul hA at' hq (by grind) en (by grind) (by grind) (by grind)
  have hq10 : q * (1 / 10) = q / 10 := by grind
  rw [hq10] at hA1
  have hd := Eb_down hu0 hu b0
  have p1 : 0 ≤ Eb (fmtOf F).u n * ((fmtOf F).u / 2) := Rat.mul_nonneg en (by grind)
  have hE0 : 0 ≤ Eb (fmtOf F).u n + (fmtOf F).u / 2 + Eb (fmtOf F).u n * ((fmtOf F).u / 2) := by grind
  have p2 := Rat.mul_nonneg hE0 hu0
  have hq' : 0 ≤ q / 10 := by grind
  obtain ⟨fm, am⟩ := mul_step x (lit 1 1) hx ft hA1 hq' hE0 (by grind) (by grind)
    (by rcases ht with h | h
        · left; grind
        · right; exact h) hu1
  exact ⟨fm, approx_weaken am hq' hd⟩

theorem down_tiny_aux (t q : Rat) (j : Nat) (ht0 : 0 ≤ t) (h : 2 * t * (10 : Rat) ^ (j + 1) ≤ q) :
    2 * t ≤ q / 10 ∧ 2 * t * (10 : Rat) ^ j ≤ q / 10 := by
  have hp1 := one_le_pow10 j
  have hps : (10 : Rat) ^ (j + 1) = (10 : Rat) ^ j * 10 := Rat.pow_succ _ _
  have hm := Rat.mul_le_mul_of_nonneg_left hp1 ht0
  rw [hps] at h
  constructor <;> grind

theorem div_pow10_succ (q : Rat) (j : Nat) : q / 10 / (10 : Rat) ^ j = q / (10 : Rat) ^ (j + 1) := by
  have hpp := pow10_pos j
  have hps : (10 : Rat) ^ (j + 1) = (10 : Rat) ^ j * 10 := Rat.pow_succ _ _
  rw [hps]; grind

theorem down_F (j : Nat) (x : F) (q : Rat) (n : Nat) (hx : IEEE.fin x) (hq : 0 ≤ q)
    (hA : Approx (Eb (fmtOf F).u n) (IEEE.val x) q) (hu : (fmtOf F).u ≤ 1 / 1000)
    (hb : 2 * q ≤ (fmtOf F).big) (ht : q = 0 ∨ 2 * (fmtOf F).tiny * (10 : Rat) ^ j ≤ q)
    (hbud : ((n + 3 * j : Nat) : Rat) * (fmtOf F).u ≤ 1 / 100) :
    IEEE.fin (iter (fun v : F => mul v (lit 1 1)) j x) ∧
      Approx (Eb (fmtOf F).u (n + 3 * j)) (IEEE.val (iter (fun v : F => mul v (lit 1 1)) j x))
        (q / (10 : Rat) ^ j) := by
  induction j generalizing x q n with
  | zero =>
    have : q / (10 : Rat) ^ 0 = q := by
      have : (10 : Rat) ^ 0 = 1 := by simp
      rw [this]; grind
    rw [this]; simpa [iter] using And.intro hx hA
  | succ j ih =>
    have hu0 : 0 ≤ (fmtOf F).u := Rat.le_of_lt (u_pos _)
    have ht0 : 0 ≤ (fmtOf F).tiny := Rat.le_of_lt (tiny_pos _)
    have en : n + 3 * (j + 1) = (n + 3) + 3 * j := by omega
    rw [en] at hbud ⊢
    have hbud1 : ((n + 3 : Nat) : Rat) * (fmtOf F).u ≤ 1 / 100 := bud_mono hu0 (by omega) hbud
    have ht1 : q = 0 ∨ 2 * (fmtOf F).tiny ≤ q / 10 := by
      rcases ht with h | h
      · left; exact h
      · right; exact (down_tiny_aux _ q j ht0 h).1
    have ht2 : q / 10 = 0 ∨ 2 * (fmtOf F).tiny * (10 : Rat) ^ j ≤ q / 10 := by
      rcases ht with h | h
      · left; clear ih; grind
      · right; exact (down_tiny_aux _ q j ht0 h).2
    have hq' : 0 ≤ q / 10 := by clear ih; grind
    have hb' : 2 * (q / 10) ≤ (fmtOf F).big := by clear ih; grind
    obtain ⟨fs, as⟩ := down_step x q n hx hq hA hu hb ht1 hbud1
    have := ih _ (q / 10) (n + 3) fs hq' as hb' ht2 hbud
    rw [div_pow10_succ] at this
    exact this

theorem div_mul_cancel_pos (a p : Rat) (hp : 0 < p) : a / p * p = a := by grind

theorem div_eq_zero_pos (a p : Rat) (hp : 0 < p) (h : a / p = 0) : a = 0 := by
  have := div_mul_cancel_pos a p hp
  rw [h] at this; grind

theorem scale_F (x : F) (D n : Nat) (d : Int) (hx : IEEE.fin x)
    (hA : Approx (Eb (fmtOf F).u n) (IEEE.val x) (D : Rat)) (hu : (fmtOf F).u ≤ 1 / 1000)
    (hbD : 2 * (D : Rat) ≤ (fmtOf F).big)
    (hbV : 2 * (if d > 0 then (D : Rat) * (10 : Rat) ^ d.toNat else (D : Rat) / (10 : Rat) ^ (-d).toNat)
      ≤ (fmtOf F).big)
    (hN : (if d > 0 then (D : Rat) * (10 : Rat) ^ d.toNat else (D : Rat) / (10 : Rat) ^ (-d).toNat) = 0 ∨
      2 * (fmtOf F).tiny ≤ (if d > 0 then (D : Rat) * (10 : Rat) ^ d.toNat else (D : Rat) / (10 : Rat) ^ (-d).toNat))
    (hbud : ((if d > 0 then upCost (fmtOf F).prec d.toNat D n else n + 3 * (-d).toNat : Nat) : Rat) * (fmtOf F).u
      ≤ 1 / 100) :
    IEEE.fin (scale64 x d) ∧
      Approx (Eb (fmtOf F).u (if d > 0 then upCost (fmtOf F).prec d.toNat D n else n + 3 * (-d).toNat))
        (IEEE.val (scale64 x d))
        (if d > 0 then (D : Rat) * (10 : Rat) ^ d.toNat else (D : Rat) / (10 : Rat) ^ (-d).toNat) := by
  unfold scale64
  by_cases h : d > 0
  · simp only [h, if_true] at hbV hN hbud ⊢
    have e : ((D * 10 ^ d.toNat : Nat) : Rat) = (D : Rat) * (10 : Rat) ^ d.toNat := by
      simp [Rat.natCast_mul, Rat.natCast_pow]
    have := up_F d.toNat x D n hx hA hu (by rw [e]; exact hbV) hbud
    rw [e] at this; exact this
  · simp only [h, if_false] at hbV hN hbud ⊢
    have hpp := pow10_pos (-d).toNat
    have ht : (D : Rat) = 0 ∨ 2 * (fmtOf F).tiny * (10 : Rat) ^ (-d).toNat ≤ (D : Rat) := by
      rcases hN with h0 | h2
      · left; exact div_eq_zero_pos _ _ hpp h0
      · right
        have := Rat.mul_le_mul_of_nonneg_right h2 (Rat.le_of_lt hpp)
        rw [div_mul_cancel_pos _ _ hpp] at this
        exact this
    exact down_F (-d).toNat x (D : Rat) n hx Rat.natCast_nonneg hA hu hbD ht hbud

/-! ### the two mantissa loops of a literal -/

theorem mant1_F (ip r : List Nat) (hip : AllDigits ip) (hr : NonDigitHead r) (hu : (fmtOf F).u ≤ 1 / 1000)
    (hb : 2 * ((valL ip : Nat) : Rat) ≤ (fmtOf F).big)
    (hbud : (mantCost (fmtOf F).prec ip 0 0 : Rat) * (fmtOf F).u ≤ 1 / 100) :
    ∃ x1 : F, mantLoop (ip ++ r) (ofInt 0 : F) 0 = some (x1, ip.length, r) ∧ IEEE.fin x1 ∧
      Approx (Eb (fmtOf F).u (mantCost (fmtOf F).prec ip 0 0)) (IEEE.val x1) ((valL ip : Nat) : Rat) := by
  obtain ⟨f0, v0⟩ := ofInt_zero (F := F)
  have e : 0 * 10 ^ ip.length + valL ip = valL ip := by simp
  have hA0 : Approx (Eb (fmtOf F).u 0) (IEEE.val (ofInt 0 : F)) ((0 : Nat) : Rat) := approx_of_eq (by simpa using v0)
  obtain ⟨x1, h1, h2, h3⟩ := mantLoop_F ip r hip hr (ofInt 0 : F) 0 0 0 f0 hA0 hu (by rw [e]; exact hb) hbud
  rw [e] at h3
  exact ⟨x1, by simpa using h1, h2, h3⟩

theorem mant2_F (ip fp r1 r2 : List Nat) (hip : AllDigits ip) (hfp : AllDigits fp) (hr1 : NonDigitHead r1)
    (hr2 : NonDigitHead r2) (hu : (fmtOf F).u ≤ 1 / 1000)
    (hb : 2 * ((valL (ip ++ fp) : Nat) : Rat) ≤ (fmtOf F).big)
    (hbud : (mantCost (fmtOf F).prec (ip ++ fp) 0 0 : Rat) * (fmtOf F).u ≤ 1 / 100) :
    ∃ x1 x2 : F, mantLoop (ip ++ r1) (ofInt 0 : F) 0 = some (x1, ip.length, r1) ∧
      mantLoop (fp ++ r2) x1 0 = some (x2, fp.length, r2) ∧ IEEE.fin x2 ∧
      Approx (Eb (fmtOf F).u (mantCost (fmtOf F).prec (ip ++ fp) 0 0)) (IEEE.val x2)
        ((valL (ip ++ fp) : Nat) : Rat) := by
  have hu0 : 0 ≤ (fmtOf F).u := Rat.le_of_lt (u_pos _)
  have ec := mantCost_append (fmtOf F).prec ip fp 0 0
  simp only [Nat.zero_mul, Nat.zero_add] at ec
  rw [ec] at hbud ⊢
  rw [valL_append] at hb ⊢
  obtain ⟨x1, h1, f1, a1⟩ := mant1_F (F := F) ip r1 hip hr1 hu
    (natCast_le_of_le (Nat.le_trans (Nat.le_mul_of_pos_right _ (Nat.pow_pos (by decide))) (Nat.le_add_right _ _)) hb)
    (bud_mono hu0 (mantCost_ge _ _ _ _) hbud)
  obtain ⟨x2, h2, f2, a2⟩ := mantLoop_F fp r2 hfp hr2 x1 0 (valL ip) _ f1 a1 hu hb hbud
  exact ⟨x1, x2, h1, by simpa using h2, f2, a2⟩

/-- the parsing stages of `atof64Body` on a literal over the class: the value
    before the scaling loops approximates the digit string read as an integer -/
theorem atof64Body_pre (L : Literal) (rest : List Nat) (hwf : L.WF) (hst : Stops L rest)
    (hu : (fmtOf F).u ≤ 1 / 1000)
    (hD : 2 * ((valL (L.ip ++ L.fracDigits) : Nat) : Rat) ≤ (fmtOf F).big)
    (hbud : (mantCost (fmtOf F).prec (L.ip ++ L.fracDigits) 0 0 : Rat) * (fmtOf F).u ≤ 1 / 100) :
    ∃ x : F, atof64Body (L.ip ++ Literal.fracText L.frac ++ Literal.expText L.exp ++ rest)
        = some (scale64 x (L.expValue - (L.fracDigits.length : Int)), rest) ∧ IEEE.fin x ∧
      Approx (Eb (fmtOf F).u (mantCost (fmtOf F).prec (L.ip ++ L.fracDigits) 0 0)) (IEEE.val x)
        ((valL (L.ip ++ L.fracDigits) : Nat) : Rat) := by
  obtain ⟨sign, ip, frac, exp⟩ := L
  obtain ⟨hip, hfp, hexp⟩ := hwf
  have hndr := stops_nonDigitHead hst
  obtain ⟨hnul, _, hst3, hst4, _⟩ := hst
  simp only at hip hfp hexp hst3 hst4
  simp only [Literal.fracDigits, Literal.expValue] at hD hbud ⊢
  cases frac with
  | none =>
    simp only [Option.getD_none, List.append_nil, List.length_nil] at hD hbud ⊢
    cases exp with
    | none =>
      obtain ⟨c, tl, rfl, hc⟩ := hndr
      have hc46 : c ≠ 46 := by
        have := hst4 rfl rfl; simpa using this
      obtain ⟨x1, hA, f1, a1⟩ := mant1_F (F := F) ip (c :: tl) hip ⟨c, tl, rfl, hc⟩ hu hD hbud
      have hP := parseExp_none (c :: tl) hnul (hst3 rfl)
      have := atof64Body_stages (F := F) (ip ++ c :: tl) tl (c :: tl) (c :: tl) c ip.length 0 0
        x1 x1 false hA (by simp [hc46]) hP
      refine ⟨x1, ?_, f1, a1⟩
      simp only [Literal.fracText, Literal.expText, List.append_nil]
      rw [this]; simp
    | some e =>
      obtain ⟨ch, s, ds⟩ := e
      obtain ⟨hch, hds, hdne, hdv⟩ := hexp ch s ds rfl
      have hch46 : ch ≠ 46 := by omega
      have hnd : NonDigitHead (ch :: (Literal.signText s ++ ds) ++ rest) := ⟨ch, _, rfl, by omega⟩
      obtain ⟨x1, hA, f1, a1⟩ := mant1_F (F := F) ip _ hip hnd hu hD hbud
      have hP := parseExp_some ch s ds rest hch hds hdne hdv hndr
      have := atof64Body_stages (F := F) _ _ _ _ ch ip.length 0 (valL ds) x1 x1 (decide (s = some true))
        hA (by simp [hch46]) hP
      refine ⟨x1, ?_, f1, a1⟩
      simp only [Literal.fracText, Literal.expText, List.append_nil, List.append_assoc] at this ⊢
      rw [this]
      by_cases hs : s = some true <;> simp [hs]
  | some fp =>
    have hfpd := hfp fp rfl
    simp only [Option.getD_some] at hD hbud ⊢
    cases exp with
    | none =>
      obtain ⟨x1, x2, hA, hB, f2, a2⟩ := mant2_F (F := F) ip fp (46 :: fp ++ rest) rest hip hfpd
        ⟨46, _, rfl, by omega⟩ hndr hu hD hbud
      have hP := parseExp_none rest hnul (hst3 rfl)
      have := atof64Body_stages (F := F) _ _ _ _ 46 ip.length _ 0 x1 x2 false
        hA (by simp only [if_true]; exact hB) hP
      refine ⟨x2, ?_, f2, a2⟩
      simp only [Literal.fracText, Literal.expText, List.append_nil, List.append_assoc, List.cons_append] at this ⊢
      rw [this]; simp
    | some e =>
      obtain ⟨ch, s, ds⟩ := e
      obtain ⟨hch, hds, hdne, hdv⟩ := hexp ch s ds rfl
      have hnd : NonDigitHead (ch :: (Literal.signText s ++ ds) ++ rest) := ⟨ch, _, rfl, by omega⟩
      obtain ⟨x1, x2, hA, hB, f2, a2⟩ := mant2_F (F := F) ip fp
        (46 :: fp ++ (ch :: (Literal.signText s ++ ds) ++ rest)) _ hip hfpd ⟨46, _, rfl, by omega⟩ hnd hu hD hbud
      have hP := parseExp_some ch s ds rest hch hds hdne hdv hndr
      have := atof64Body_stages (F := F) _ _ _ _ 46 ip.length _ (valL ds) x1 x2 (decide (s = some true))
        hA (by simp only [if_true]; exact hB) hP
      refine ⟨x2, ?_, f2, a2⟩
      simp only [Literal.fracText, Literal.expText, List.append_assoc, List.cons_append] at this ⊢
      rw [this]
      by_cases hs : s = some true <;> simp [hs]

/-! ### scaling, sign, and the theorem -/

theorem div_nonneg_pos (a p : Rat) (ha : 0 ≤ a) (hp : 0 < p) : 0 ≤ a / p := by
  apply Rat.not_lt.mp
  intro hneg
  have := Rat.mul_lt_mul_of_pos_right hneg hp
  rw [div_mul_cancel_pos _ _ hp] at this
  grind

theorem shifted_nonneg (D : Nat) (d : Int) :
    0 ≤ (if d > 0 then (D : Rat) * (10 : Rat) ^ d.toNat else (D : Rat) / (10 : Rat) ^ (-d).toNat) := by
  split
  · exact Rat.mul_nonneg Rat.natCast_nonneg (Rat.le_of_lt (pow10_pos _))
  · exact div_nonneg_pos _ _ Rat.natCast_nonneg (pow10_pos _)

theorem absQ_of_nonneg {x : Rat} (h : 0 ≤ x) : absQ x = x := by unfold absQ; split <;> grind
theorem absQ_neg (x : Rat) : absQ (-x) = absQ x := by unfold absQ; split <;> split <;> grind

/-- the magnitude of the value of a literal -/
theorem absQ_value (L : Literal) :
    absQ L.value = (if L.expValue - (L.fracDigits.length : Int) > 0
      then ((valL (L.ip ++ L.fracDigits) : Nat) : Rat) * (10 : Rat) ^ (L.expValue - (L.fracDigits.length : Int)).toNat
      else ((valL (L.ip ++ L.fracDigits) : Nat) : Rat) / (10 : Rat) ^ (-(L.expValue - (L.fracDigits.length : Int))).toNat) := by
  have h0 := shifted_nonneg (valL (L.ip ++ L.fracDigits)) (L.expValue - (L.fracDigits.length : Int))
  rw [scale_shift] at h0 ⊢
  unfold Literal.value
  simp only
  split
  · rw [absQ_neg, absQ_of_nonneg h0]
  · rw [absQ_of_nonneg h0]

theorem atofCost_eq (P : Nat) (L : Literal) :
    atofCost P L = (if L.expValue - (L.fracDigits.length : Int) > 0
      then upCost P (L.expValue - (L.fracDigits.length : Int)).toNat (valL (L.ip ++ L.fracDigits))
        (mantCost P (L.ip ++ L.fracDigits) 0 0)
      else mantCost P (L.ip ++ L.fracDigits) 0 0 + 3 * (-(L.expValue - (L.fracDigits.length : Int))).toNat) := rfl

theorem mantCost_le_atofCost (P : Nat) (L : Literal) : mantCost P (L.ip ++ L.fracDigits) 0 0 ≤ atofCost P L := by
  rw [atofCost_eq]; split
  · exact upCost_ge _ _ _ _
  · omega

/-- `atof64Body` on a literal over the class: the value approximates `|L.value|` -/
theorem atof64Body_F (L : Literal) (rest : List Nat) (hwf : L.WF) (hst : Stops L rest)
    (hu : (fmtOf F).u ≤ 1 / 1000)
    (hD : 2 * ((valL (L.ip ++ L.fracDigits) : Nat) : Rat) ≤ (fmtOf F).big)
    (hV : 2 * absQ L.value ≤ (fmtOf F).big)
    (hN : L.value = 0 ∨ 2 * (fmtOf F).tiny ≤ absQ L.value)
    (hn : (atofCost (fmtOf F).prec L : Rat) * (fmtOf F).u ≤ 1 / 100) :
    ∃ x : F, atof64Body (L.ip ++ Literal.fracText L.frac ++ Literal.expText L.exp ++ rest) = some (x, rest) ∧
      IEEE.fin x ∧ Approx (Eb (fmtOf F).u (atofCost (fmtOf F).prec L)) (IEEE.val x) (absQ L.value) := by
  have hu0 : 0 ≤ (fmtOf F).u := Rat.le_of_lt (u_pos _)
  obtain ⟨x, hb, fx, ax⟩ := atof64Body_pre (F := F) L rest hwf hst hu hD
    (bud_mono hu0 (mantCost_le_atofCost _ L) hn)
  have hN' : absQ L.value = 0 ∨ 2 * (fmtOf F).tiny ≤ absQ L.value := by
    rcases hN with h | h
    · left; rw [h]; exact absQ_of_nonneg (Rat.le_refl)
    · right; exact h
  rw [absQ_value] at hV hN' ⊢
  rw [atofCost_eq] at hn ⊢
  obtain ⟨fs, as⟩ := scale_F x _ _ _ fx ax hu hD hV hN' hn
  exact ⟨_, hb, fs, as⟩

theorem sign_pos (x : F) (hx : IEEE.fin x) (h0 : 0 ≤ IEEE.val x) (hr : InRange (fmtOf F) (IEEE.val x)) :
    IEEE.fin (mul (ofInt 1) x) ∧ IEEE.val (mul (ofInt 1 : F) x) = IEEE.val x := by
  obtain ⟨f1, v1⟩ := ofInt_one (F := F)
  have e : IEEE.val (ofInt 1 : F) * IEEE.val x = IEEE.val x := by rw [v1]; grind
  obtain ⟨fm, hrn⟩ := IEEE.mul_rn (ofInt 1 : F) x f1 hx (by rw [e]; exact hr)
  rw [e] at hrn
  exact ⟨fm, (hrn.pos h0).exact ((IEEE.fin_rep x hx).1 h0)⟩

theorem sign_neg (x : F) (hx : IEEE.fin x) (h0 : 0 ≤ IEEE.val x) (hr : InRange (fmtOf F) (IEEE.val x)) :
    IEEE.fin (mul (ofInt (-1)) x) ∧ IEEE.val (mul (ofInt (-1) : F) x) = -(IEEE.val x) := by
  obtain ⟨f1, v1⟩ := ofInt_neg_one (F := F)
  have e : IEEE.val (ofInt (-1) : F) * IEEE.val x = -(IEEE.val x) := by rw [v1]; grind
  have hr' : InRange (fmtOf F) (-(IEEE.val x)) := by
    obtain ⟨a, b⟩ := hr; constructor <;> grind
  obtain ⟨fm, hrn⟩ := IEEE.mul_rn (ofInt (-1) : F) x f1 hx (by rw [e]; exact hr')
  rw [e] at hrn
  have h := hrn.2 (by grind)
  rw [Rat.neg_neg] at h
  have := h.exact ((IEEE.fin_rep x hx).1 h0)
  exact ⟨fm, by grind⟩

end cls

/-- ERROR BOUND of igris_atof64 over any IEEE arithmetic: for every literal of
    the grammar whose digit string (read as an integer) and value stay below
    half the overflow threshold and whose value is zero or at least twice the
    smallest normal number, the result is finite, the end offset is the end of
    the literal and
        |result - value| ≤ 1.01 * (k/2) * u * |value|,   k = atofCost prec L. -/
theorem atof64_error_bound {F : Type} [FloatLike F] [IEEE F] (L : Literal) (rest : List Nat)
    (hwf : L.WF) (hst : Stops L rest)
    (hprec : 10 ≤ (fmtOf F).prec)
    (hD : 2 * ((valL (L.ip ++ L.fracDigits) : Nat) : Rat) ≤ (fmtOf F).big)
    (hV : 2 * absQ L.value ≤ (fmtOf F).big)
    (hN : L.value = 0 ∨ 2 * (fmtOf F).tiny ≤ absQ L.value)
    (hn : (atofCost (fmtOf F).prec L : Rat) * (fmtOf F).u ≤ 1 / 100) :
    ∃ r : F, atof64 (F := F) (L.text ++ rest) = some (r, L.text.length) ∧ IEEE.fin r ∧
      absQ (IEEE.val r - L.value) ≤
        (101 / 200 : Rat) * (atofCost (fmtOf F).prec L : Rat) * (fmtOf F).u * absQ L.value := by
  have hu := fmt_u_small (F := F) hprec
  have hu0 : 0 ≤ (fmtOf F).u := Rat.le_of_lt (u_pos _)
  obtain ⟨x, hbody, fx, ax⟩ := atof64Body_F (F := F) L rest hwf hst hu hD hV hN hn
  have hE := Eb_le hn
  have hq := absQ_nonneg L.value
  obtain ⟨hx0, hxr⟩ := approx_inrange ax hq (by grind) hV
  have hbound := approx_abs ax
  have hEb : Eb (fmtOf F).u (atofCost (fmtOf F).prec L)
      = (101 / 200 : Rat) * (atofCost (fmtOf F).prec L : Rat) * (fmtOf F).u := rfl
  rw [hEb] at hbound
  obtain ⟨fp, vp⟩ := sign_pos x fx hx0 hxr
  obtain ⟨fn, vn⟩ := sign_neg x fx hx0 hxr
  -- the value of the literal in terms of its magnitude
  have hval : L.value = if L.sign = some true then -(absQ L.value) else absQ L.value := by
    have h0 := shifted_nonneg (valL (L.ip ++ L.fracDigits)) (L.expValue - (L.fracDigits.length : Int))
    rw [scale_shift] at h0
    unfold Literal.value Literal.isNeg
    simp only [decide_eq_true_eq]
    split
    · rw [absQ_neg, absQ_of_nonneg h0]
    · rw [absQ_of_nonneg h0]
  have hpos : L.sign ≠ some true →
      absQ (IEEE.val x - L.value) ≤ (101 / 200 : Rat) * (atofCost (fmtOf F).prec L : Rat) * (fmtOf F).u * absQ L.value := by
    intro hs
    rw [if_neg hs] at hval
    generalize absQ L.value = A at hval hbound ⊢
    rw [hval]; exact hbound
  unfold Literal.text
  cases hs : L.sign with
  | none =>
    obtain ⟨c0, s1, hcs, h43, h45⟩ := body_head_not_sign L rest hwf hst hs
    have htxt : Literal.signText none ++ L.ip ++ Literal.fracText L.frac ++ Literal.expText L.exp ++ rest = c0 :: s1 := by
      simpa [Literal.signText] using hcs
    rw [htxt, atof64_unsigned c0 s1 h43 h45, ← hcs, hbody]
    refine ⟨mul (ofInt 1) x, ?_, fp, ?_⟩
    · simp only [Option.map_some, Option.some.injEq, Prod.mk.injEq, true_and]
      simp [Literal.signText, List.length_append]; omega
    · rw [vp]; exact hpos (by rw [hs]; simp)
  | some b =>
    cases b with
    | true =>
      have htxt : Literal.signText (some true) ++ L.ip ++ Literal.fracText L.frac ++ Literal.expText L.exp ++ rest
          = 45 :: (L.ip ++ Literal.fracText L.frac ++ Literal.expText L.exp ++ rest) := by
        simp [Literal.signText]
      rw [htxt, atof64_minus, hbody]
      refine ⟨mul (ofInt (-1)) x, ?_, fn, ?_⟩
      · simp only [Option.map_some, Option.some.injEq, Prod.mk.injEq, true_and]
        simp [Literal.signText, List.length_append]; omega
      · rw [vn]
        rw [if_pos hs] at hval
        generalize absQ L.value = A at hval hbound ⊢
        rw [hval]
        have e2 : -(IEEE.val x) - -A = -(IEEE.val x - A) := by grind
        rw [e2, absQ_neg]; exact hbound
    | false =>
      have htxt : Literal.signText (some false) ++ L.ip ++ Literal.fracText L.frac ++ Literal.expText L.exp ++ rest
          = 43 :: (L.ip ++ Literal.fracText L.frac ++ Literal.expText L.exp ++ rest) := by
        simp [Literal.signText]
      rw [htxt, atof64_plus, hbody]
      refine ⟨mul (ofInt 1) x, ?_, fp, ?_⟩
      · simp only [Option.map_some, Option.some.injEq, Prod.mk.injEq, true_and]
        simp [Literal.signText, List.length_append]; omega
      · rw [vp]; exact hpos (by rw [hs]; simp)

end Igris.C12
