import IgrisModel.C12.SoftCore
import IgrisModel.C12.IeeeLemmas
/-!
  C12 — the software binary32/binary64 of Model.lean IS round-to-nearest
  arithmetic, part 2: every operation is the exact operation followed by
  `roundPack`; the instances `IEEE F32`, `IEEE F64`; the double -> float cast.
-/
namespace Igris.C12
open FloatLike

/-- the rational value of an encoding -/
def encVal (f : Fmt) (b : Nat) : Rat := (decode f b).toQ

/-- `± v` according to a sign bit -/
def sgnQ (s : Bool) (v : Rat) : Rat := if s then -v else v

private theorem fin_dec (f : Fmt) (hf : f.WF) (a : Nat) (h : FinEnc f a) :
    ∃ m e, decode f a = .fin (decide (f.signBit ≤ a)) m e ∧ m < 2 ^ (f.mbits + 1) ∧ f.bin.emin ≤ e ∧
      encVal f a = sgnQ (decide (f.signBit ≤ a)) ((m : Rat) * pow2 e) := by
  obtain ⟨m, e, hd, hm, he⟩ := decode_fin f hf a h
  refine ⟨m, e, hd, hm, he, ?_⟩
  simp [encVal, hd, Dec.toQ, sgnQ]

theorem finEnc_not_special (f : Fmt) (hf : f.WF) (a : Nat) (h : FinEnc f a) :
    sfIsNaN f a = false ∧ sfIsInf f a = false := by
  obtain ⟨m, e, hd, -⟩ := decode_fin f hf a h
  simp [sfIsNaN, sfIsInf, hd]

private theorem natCast_pow2_nonneg (m : Nat) (e : Int) : 0 ≤ (m : Rat) * pow2 e :=
  Rat.mul_nonneg (by exact_mod_cast Nat.zero_le m) (Rat.le_of_lt (pow2_pos e))

theorem finEnc_rep (f : Fmt) (hf : f.WF) (a : Nat) (h : FinEnc f a) :
    (0 ≤ encVal f a → Rep f.bin (encVal f a)) ∧ (encVal f a ≤ 0 → Rep f.bin (-(encVal f a))) := by
  obtain ⟨m, e, hd, hm, he, hv⟩ := fin_dec f hf a h
  have h0 := natCast_pow2_nonneg m e
  have hr : Rep f.bin ((m : Rat) * pow2 e) := ⟨m, e, hm, he, rfl⟩
  rw [hv]
  cases decide (f.signBit ≤ a) <;> simp only [sgnQ, if_true, if_false, Bool.false_eq_true]
  · refine ⟨fun _ => hr, fun h1 => ?_⟩
    have : (m : Rat) * pow2 e = 0 := by grind
    rw [this]; exact ⟨0, f.bin.emin, Nat.two_pow_pos _, Int.le_refl _, by simp⟩
  · refine ⟨fun h1 => ?_, fun _ => by rw [Rat.neg_neg]; exact hr⟩
    have : (m : Rat) * pow2 e = 0 := by grind
    rw [this]; exact ⟨0, f.bin.emin, Nat.two_pow_pos _, Int.le_refl _, by simp⟩

private theorem rn_zero (B : BinFmt) : RN B 0 0 := by
  refine ⟨⟨0, B.emin, Nat.two_pow_pos _, Int.le_refl _, by simp⟩, fun w hw => ?_, Or.inl ?_⟩
  · have := rep_nonneg hw; grind
  · grind

private theorem rns_zero (B : BinFmt) : RNs B 0 0 :=
  ⟨fun _ => rn_zero _, fun _ => by simpa using rn_zero B⟩

theorem RNs.exact {B : BinFmt} {v r : Rat} (h : RNs B v r) (hp : 0 ≤ v → Rep B v)
    (hn : v ≤ 0 → Rep B (-v)) : r = v := by
  by_cases h0 : 0 ≤ v
  · exact (h.1 h0).exact (hp h0)
  · have h1 : v ≤ 0 := by grind
    have := (h.2 h1).exact (hn h1)
    grind

/-- the derived rounding lemma, both signs -/
theorem roundPack_rns (f : Fmt) (hf : f.WF) (s : Bool) (m : Nat) (e : Int)
    (hv : (m : Rat) * pow2 e < pow2 f.bias) :
    FinEnc f (roundPack f s m e) ∧
      RNs f.bin (sgnQ s ((m : Rat) * pow2 e)) (encVal f (roundPack f s m e)) := by
  rcases Nat.eq_zero_or_pos m with rfl | hm
  · obtain ⟨h1, h2, h3⟩ := roundPack_zero f hf s e false
    rw [h1]; refine ⟨h2, ?_⟩
    have : encVal f (withSign f s 0) = 0 := by simp [encVal, h3, Dec.toQ]
    rw [this]
    have : sgnQ s (((0 : Nat) : Rat) * pow2 e) = 0 := by cases s <;> simp [sgnQ]
    rw [this]
    exact ⟨fun _ => rn_zero _, fun _ => by simpa using rn_zero _⟩
  · obtain ⟨h1, M, e', hd, hM, he', hrn⟩ := roundPack_rn f hf s m e hm hv
    refine ⟨h1, ?_⟩
    have hpos : 0 < (m : Rat) * pow2 e :=
      Rat.mul_pos (by exact_mod_cast hm) (pow2_pos e)
    have : encVal f (roundPack f s m e) = sgnQ s ((M : Rat) * pow2 e') := by
      simp [encVal, hd, Dec.toQ, sgnQ]
    rw [this]
    cases s <;> simp only [sgnQ, if_true, if_false, Bool.false_eq_true]
    · exact ⟨fun _ => hrn, fun h => by grind⟩
    · refine ⟨fun h => by grind, fun _ => ?_⟩
      rw [Rat.neg_neg, Rat.neg_neg]; exact hrn

private theorem inRange_mag (f : Fmt) (s : Bool) (x : Rat) (h : InRange f.bin (sgnQ s x)) :
    x < pow2 f.bias := by
  have hb : f.bin.big = pow2 f.bias := rfl
  unfold InRange at h; rw [hb] at h
  cases s <;> simp only [sgnQ, if_true, if_false, Bool.false_eq_true] at h <;> grind

/-- everything an operation needs: the exact result is `± m * 2^e` -/
theorem roundPack_op (f : Fmt) (hf : f.WF) (s : Bool) (m : Nat) (e : Int) (v : Rat)
    (hv : v = sgnQ s ((m : Rat) * pow2 e)) (hr : InRange f.bin v) :
    FinEnc f (roundPack f s m e) ∧ RNs f.bin v (encVal f (roundPack f s m e)) := by
  subst hv
  exact roundPack_rns f hf s m e (inRange_mag f s _ hr)

private theorem decode_congr (f : Fmt) (b b' : Nat)
    (hex : b' / 2 ^ f.mbits % 2 ^ f.ebits = b / 2 ^ f.mbits % 2 ^ f.ebits)
    (hm : b' % 2 ^ f.mbits = b % 2 ^ f.mbits) (s : Bool) (m : Nat) (e : Int)
    (h : decode f b = .fin s m e) :
    decode f b' = .fin (b' / f.signBit % 2 == 1) m e := by
  unfold decode at h ⊢
  simp only [hex, hm]
  dsimp only at h
  split at h
  · split at h <;> cases h
  · split at h
    · rename_i h1 h2; simp only [h1, h2]; cases h; rfl
    · rename_i h1 h2; simp only [h1, h2]; cases h; rfl

private theorem fields_add_signBit (f : Fmt) (c : Nat) :
    (c + f.signBit) / 2 ^ f.mbits % 2 ^ f.ebits = c / 2 ^ f.mbits % 2 ^ f.ebits ∧
    (c + f.signBit) % 2 ^ f.mbits = c % 2 ^ f.mbits := by
  have hs : f.signBit = 2 ^ f.ebits * 2 ^ f.mbits := by simp [Fmt.signBit, Nat.pow_add]
  rw [hs]
  constructor
  · rw [Nat.add_mul_div_right _ _ (Nat.two_pow_pos _), Nat.add_mod_right]
  · rw [Nat.add_mul_mod_self_right]

theorem sfNeg_spec (f : Fmt) (hf : f.WF) (a : Nat) (h : FinEnc f a) :
    FinEnc f (sfNeg f a) ∧ encVal f (sfNeg f a) = -(encVal f a) := by
  obtain ⟨m, e, hd, hm, he, hv⟩ := fin_dec f hf a h
  have hfl : (sfNeg f a) / 2 ^ f.mbits % 2 ^ f.ebits = a / 2 ^ f.mbits % 2 ^ f.ebits ∧
      (sfNeg f a) % 2 ^ f.mbits = a % 2 ^ f.mbits := by
    unfold sfNeg
    by_cases hc : a ≥ f.signBit
    · simp only [hc, if_true]
      have := fields_add_signBit f (a - f.signBit)
      rw [Nat.sub_add_cancel hc] at this
      exact ⟨this.1.symm, this.2.symm⟩
    · simp only [hc, if_false]
      exact fields_add_signBit f a
  have hlt : sfNeg f a < 2 * f.signBit ∧
      decide (f.signBit ≤ sfNeg f a) = !decide (f.signBit ≤ a) := by
    have := h.1
    unfold sfNeg
    by_cases hc : a ≥ f.signBit
    · simp only [hc, if_true]
      have : ¬ f.signBit ≤ a - f.signBit := by omega
      simp [this]; omega
    · simp only [hc, if_false]
      have : f.signBit ≤ a + f.signBit := by omega
      simp [this]; omega
  have hfin : FinEnc f (sfNeg f a) := ⟨hlt.1, by rw [hfl.1]; exact h.2⟩
  refine ⟨hfin, ?_⟩
  obtain ⟨m', e', hd', -, -, hv'⟩ := fin_dec f hf _ hfin
  have := decode_congr f a (sfNeg f a) hfl.1 hfl.2 _ m e hd
  rw [hd'] at this
  injection this with _ h2 h3
  rw [hv', hv, hlt.2, h2, h3]
  cases decide (f.signBit ≤ a) <;> simp [sgnQ]

private theorem int_sgn (n : Int) : (n : Rat) = sgnQ (decide (n < 0)) (n.natAbs : Rat) := by
  by_cases h : n < 0
  · simp only [h, decide_true, sgnQ, if_true]
    have : (n : Rat) = -((n.natAbs : Int) : Rat) := by
      rw [← Rat.intCast_neg]; congr 1; omega
    rw [this, Rat.intCast_natCast]
  · simp only [h, decide_false, sgnQ, if_false, Bool.false_eq_true]
    have : (n : Rat) = ((n.natAbs : Int) : Rat) := by congr 1; omega
    rw [this, Rat.intCast_natCast]

private theorem shl_val (m : Nat) (e lo : Int) (h : lo ≤ e) :
    ((m <<< (e - lo).toNat : Nat) : Rat) * pow2 lo = (m : Rat) * pow2 e := by
  rw [Nat.shiftLeft_eq, Rat.natCast_mul, ← pow2_nat, Rat.mul_assoc, ← pow2_add]
  congr 2; omega

/-- the aligned signed integer of an operand -/
private def alignI (s : Bool) (m : Nat) (e lo : Int) : Int :=
  if s then -((m <<< (e - lo).toNat : Nat) : Int) else ((m <<< (e - lo).toNat : Nat) : Int)

private theorem alignI_val (s : Bool) (m : Nat) (e lo : Int) (h : lo ≤ e) :
    ((alignI s m e lo : Int) : Rat) * pow2 lo = sgnQ s ((m : Rat) * pow2 e) := by
  have := shl_val m e lo h
  cases s <;> simp only [alignI, sgnQ, if_true, if_false, Bool.false_eq_true]
  · rw [Rat.intCast_natCast]; exact this
  · rw [Rat.intCast_neg, Rat.intCast_natCast, Rat.neg_mul, this]

private theorem sfAdd_fin (f : Fmt) (a b : Nat) (s t : Bool) (m n : Nat) (e k : Int)
    (h1 : decode f a = .fin s m e) (h2 : decode f b = .fin t n k) :
    sfAdd f a b =
      if alignI s m e (min e k) + alignI t n k (min e k) = 0 then withSign f (s && t) 0
      else roundPack f (decide (alignI s m e (min e k) + alignI t n k (min e k) < 0))
        (alignI s m e (min e k) + alignI t n k (min e k)).natAbs (min e k) := by
  simp only [sfAdd, h1, h2, alignI, beq_iff_eq]
  rfl

private theorem withSign_zero_val (f : Fmt) (hf : f.WF) (s : Bool) :
    FinEnc f (withSign f s 0) ∧ encVal f (withSign f s 0) = 0 := by
  obtain ⟨-, h2, h3⟩ := roundPack_zero f hf s 0 false
  exact ⟨h2, by simp [encVal, h3, Dec.toQ]⟩

theorem sfAdd_rn (f : Fmt) (hf : f.WF) (a b : Nat) (ha : FinEnc f a) (hb : FinEnc f b)
    (hr : InRange f.bin (encVal f a + encVal f b)) :
    FinEnc f (sfAdd f a b) ∧ RNs f.bin (encVal f a + encVal f b) (encVal f (sfAdd f a b)) := by
  obtain ⟨m, e, hda, -, -, hva⟩ := fin_dec f hf a ha
  obtain ⟨n, k, hdb, -, -, hvb⟩ := fin_dec f hf b hb
  rw [sfAdd_fin f a b _ _ m n e k hda hdb]
  have hx := alignI_val (decide (f.signBit ≤ a)) m e (min e k) (by omega)
  have hy := alignI_val (decide (f.signBit ≤ b)) n k (min e k) (by omega)
  rw [← hva] at hx; rw [← hvb] at hy
  generalize alignI (decide (f.signBit ≤ a)) m e (min e k) = x at hx ⊢
  generalize alignI (decide (f.signBit ≤ b)) n k (min e k) = y at hy ⊢
  have hsum : encVal f a + encVal f b = ((x + y : Int) : Rat) * pow2 (min e k) := by
    rw [← hx, ← hy, Rat.intCast_add]; grind
  by_cases h0 : x + y = 0
  · simp only [h0, if_true]
    have hz := withSign_zero_val f hf (decide (f.signBit ≤ a) && decide (f.signBit ≤ b))
    refine ⟨hz.1, ?_⟩
    rw [hz.2, hsum, h0]
    simpa using rns_zero f.bin
  · simp only [h0, if_false]
    apply roundPack_op f hf _ _ _ _ _ hr
    rw [hsum, int_sgn (x + y)]
    cases decide (x + y < 0) <;> simp [sgnQ, Rat.neg_mul]

theorem sfSub_rn (f : Fmt) (hf : f.WF) (a b : Nat) (ha : FinEnc f a) (hb : FinEnc f b)
    (hr : InRange f.bin (encVal f a - encVal f b)) :
    FinEnc f (sfSub f a b) ∧ RNs f.bin (encVal f a - encVal f b) (encVal f (sfSub f a b)) := by
  obtain ⟨n, k, hdb, -⟩ := fin_dec f hf b hb
  have hs : sfSub f a b = sfAdd f a (sfNeg f b) := by simp only [sfSub, hdb]
  obtain ⟨hn1, hn2⟩ := sfNeg_spec f hf b hb
  have he : encVal f a - encVal f b = encVal f a + encVal f (sfNeg f b) := by rw [hn2]; grind
  rw [hs, he]
  rw [he] at hr
  exact sfAdd_rn f hf a _ ha hn1 hr

private theorem sgnQ_mul (s t : Bool) (x y : Rat) : sgnQ s x * sgnQ t y = sgnQ (s != t) (x * y) := by
  cases s <;> cases t <;> simp [sgnQ] <;> grind

theorem sfMul_rn (f : Fmt) (hf : f.WF) (a b : Nat) (ha : FinEnc f a) (hb : FinEnc f b)
    (hr : InRange f.bin (encVal f a * encVal f b)) :
    FinEnc f (sfMul f a b) ∧ RNs f.bin (encVal f a * encVal f b) (encVal f (sfMul f a b)) := by
  obtain ⟨m, e, hda, -, -, hva⟩ := fin_dec f hf a ha
  obtain ⟨n, k, hdb, -, -, hvb⟩ := fin_dec f hf b hb
  have : sfMul f a b = roundPack f (decide (f.signBit ≤ a) != decide (f.signBit ≤ b)) (m * n) (e + k) := by
    simp only [sfMul, hda, hdb]
  rw [this]
  apply roundPack_op f hf _ _ _ _ _ hr
  rw [hva, hvb, sgnQ_mul, pow2_add]; congr 1
  push_cast; grind

theorem sfOfInt_rn (f : Fmt) (hf : f.WF) (n : Int) (hr : InRange f.bin (n : Rat)) :
    FinEnc f (sfOfInt f n) ∧ RNs f.bin (n : Rat) (encVal f (sfOfInt f n)) := by
  unfold sfOfInt
  apply roundPack_op f hf _ _ _ _ _ hr
  rw [pow2_zero, Rat.mul_one]
  exact int_sgn n

private theorem floor_eq (q : Rat) (t : Int) (h1 : (t : Rat) ≤ q) (h2 : q < ((t + 1 : Int) : Rat)) :
    q.floor = t := by
  have a := (Rat.le_floor_iff (x := t) (a := q)).2 h1
  have b := (Rat.floor_lt_iff (x := t + 1) (a := q)).2 h2
  omega

private theorem floor_mant (m : Nat) (e : Int) :
    ((m : Rat) * pow2 e).floor = ((if 0 ≤ e then m <<< e.toNat else m >>> (-e).toNat : Nat) : Int) := by
  by_cases he : 0 ≤ e
  · simp only [he, if_true]
    have : (m : Rat) * pow2 e = (((m <<< e.toNat : Nat) : Int) : Rat) := by
      rw [Rat.intCast_natCast, Nat.shiftLeft_eq, Rat.natCast_mul, ← pow2_nat]
      congr 2; omega
    rw [this, Rat.floor_intCast]
  · simp only [he, if_false]
    rw [Nat.shiftRight_eq_div_pow]
    generalize hj : (-e).toNat = j
    have hej : e = -(j : Int) := by omega
    subst hej
    have hP : 0 < 2 ^ j := Nat.two_pow_pos j
    have hPq : (0 : Rat) < ((2 ^ j : Nat) : Rat) := by exact_mod_cast hP
    have hvP : (m : Rat) * pow2 (-(j : Int)) * ((2 ^ j : Nat) : Rat) = (m : Rat) := by
      rw [← pow2_nat, Rat.mul_assoc, pow2_neg_mul, Rat.mul_one]
    have h1 : m / 2 ^ j * 2 ^ j ≤ m := Nat.div_mul_le_self m (2 ^ j)
    have h2 : m < (m / 2 ^ j + 1) * 2 ^ j := by
      have := Nat.div_add_mod m (2 ^ j)
      have := Nat.mod_lt m hP
      rw [Nat.add_mul, Nat.mul_comm]; omega
    apply floor_eq
    · apply Rat.le_of_mul_le_mul_right _ hPq
      rw [hvP, Rat.intCast_natCast]
      exact_mod_cast h1
    · apply Rat.lt_of_mul_lt_mul_right _ (Rat.le_of_lt hPq)
      rw [hvP]
      have : ((m / 2 ^ j : Nat) : Int) + 1 = ((m / 2 ^ j + 1 : Nat) : Int) := by omega
      rw [this, Rat.intCast_natCast]
      exact_mod_cast h2

theorem sfTrunc_spec (f : Fmt) (hf : f.WF) (a : Nat) (h : FinEnc f a) :
    sfTrunc f a = some (truncQ (encVal f a)) := by
  obtain ⟨m, e, hd, -, -, hv⟩ := fin_dec f hf a h
  have h0 := natCast_pow2_nonneg m e
  have hfl := floor_mant m e
  simp only [sfTrunc, hd]
  rw [hv]
  congr 1
  cases decide (f.signBit ≤ a) <;> simp only [sgnQ, if_true, if_false, Bool.false_eq_true]
  · simp only [truncQ, h0, if_true, hfl]
  · unfold truncQ
    by_cases hz : 0 ≤ -((m : Rat) * pow2 e)
    · have : (m : Rat) * pow2 e = 0 := by grind
      rw [this] at hfl ⊢
      simp only [Rat.neg_zero, Rat.le_refl, if_true]
      rw [← hfl]; decide
    · simp only [hz, if_false, Rat.neg_neg, hfl]

private theorem sfLt_fin (f : Fmt) (a b : Nat) (s t : Bool) (m n : Nat) (e k : Int)
    (h1 : decode f a = .fin s m e) (h2 : decode f b = .fin t n k) :
    sfLt f a b = decide (alignI s m e (min e k) < alignI t n k (min e k)) := by
  simp only [sfLt, h1, h2, alignI]
  rfl

theorem sfLt_zero (f : Fmt) (hf : f.WF) (a : Nat) (h : FinEnc f a) :
    sfLt f a (sfOfInt f 0) = true ↔ encVal f a < 0 := by
  obtain ⟨m, e, hd, -, -, hv⟩ := fin_dec f hf a h
  obtain ⟨z1, -, z3⟩ := roundPack_zero f hf false 0 false
  have hz : decode f (sfOfInt f 0) = .fin false 0 f.bin.emin := by
    have : sfOfInt f 0 = roundPack f false 0 0 false := by simp [sfOfInt]
    rw [this, z1, z3]
  rw [sfLt_fin f a _ _ _ m 0 e _ hd hz, hv]
  have hpow : 0 < pow2 e := pow2_pos e
  have hsh : ∀ j, (0 < m <<< j) ↔ 0 < m := by
    intro j; rw [Nat.shiftLeft_eq]
    have := Nat.two_pow_pos j
    constructor
    · intro h; exact Nat.pos_of_mul_pos_right h  
    · intro h; exact Nat.mul_pos h this
  have hmq : (0 < (m : Rat) * pow2 e) ↔ 0 < m := by
    constructor
    · intro h
      rcases Nat.eq_zero_or_pos m with rfl | h'
      · simp at h
      · exact h'
    · intro h; exact Rat.mul_pos (by exact_mod_cast h) hpow
  have h0 := natCast_pow2_nonneg m e
  simp only [alignI, Nat.zero_shiftLeft, decide_eq_true_eq]
  have hx := hsh (e - min e f.bin.emin).toNat
  generalize m <<< (e - min e f.bin.emin).toNat = x at hx ⊢
  by_cases hs : f.signBit ≤ a <;>
    simp only [hs, decide_true, decide_false, sgnQ, if_true, if_false, Bool.false_eq_true]
  rotate_left
  · constructor
    · intro h; omega
    · intro h; grind
  · constructor
    · intro h; have : 0 < m := by omega
      have := hmq.2 this; grind
    · intro h; have : 0 < (m : Rat) * pow2 e := by grind
      have := hmq.1 this; omega

/-- round 3: the comparison `a < b` of two finite operands is the comparison of their values -/
theorem sfLt_val (f : Fmt) (hf : f.WF) (a b : Nat) (ha : FinEnc f a) (hb : FinEnc f b) :
    sfLt f a b = true ↔ encVal f a < encVal f b := by
  obtain ⟨m, e, hd, -, -, hv⟩ := fin_dec f hf a ha
  obtain ⟨n, k, hd2, -, -, hv2⟩ := fin_dec f hf b hb
  rw [sfLt_fin f a b _ _ m n e k hd hd2, hv, hv2]
  have hx := alignI_val (decide (f.signBit ≤ a)) m e (min e k) (by omega)
  have hy := alignI_val (decide (f.signBit ≤ b)) n k (min e k) (by omega)
  rw [← hx, ← hy]
  generalize alignI (decide (f.signBit ≤ a)) m e (min e k) = x
  generalize alignI (decide (f.signBit ≤ b)) n k (min e k) = y
  have hp := pow2_pos (min e k)
  simp only [decide_eq_true_eq]
  constructor
  · intro h
    have : (x : Rat) < (y : Rat) := by exact_mod_cast h
    exact Rat.mul_lt_mul_of_pos_right this hp
  · intro h
    have := Rat.lt_of_mul_lt_mul_right h (Rat.le_of_lt hp)
    exact_mod_cast this

/-- conversion between formats (`(float)d`, `(double)f`) is one rounding -/
theorem sfCvt_rn (src dst : Fmt) (hs : src.WF) (hd : dst.WF) (a : Nat) (ha : FinEnc src a)
    (hr : InRange dst.bin (encVal src a)) :
    FinEnc dst (sfCvt src dst a) ∧ RNs dst.bin (encVal src a) (encVal dst (sfCvt src dst a)) := by
  obtain ⟨m, e, hda, -, -, hva⟩ := fin_dec src hs a ha
  have : sfCvt src dst a = roundPack dst (decide (src.signBit ≤ a)) m e := by
    simp only [sfCvt, hda]
  rw [this]
  exact roundPack_op dst hd _ _ _ _ hva hr

/-! ### the two instances -/

def F32.val (x : F32) : Rat := encVal b32 x.bits
def F64.val (x : F64) : Rat := encVal b64 x.bits
def F32.Fin (x : F32) : Prop := FinEnc b32 x.bits
def F64.Fin (x : F64) : Prop := FinEnc b64 x.bits

theorem b32_bin : b32.bin = binary32 := by
  simp [Fmt.bin, binary32, b32, Fmt.bias]
theorem b64_bin : b64.bin = binary64 := by
  simp [Fmt.bin, binary64, b64, Fmt.bias]

theorem rep_32_64 {v : Rat} (h : Rep binary32 v) : Rep binary64 v := by
  obtain ⟨m, e, hm, he, rfl⟩ := h
  refine ⟨m, e, ?_, ?_, rfl⟩
  · have : (2 : Nat) ^ binary32.prec ≤ 2 ^ binary64.prec := by decide
    omega
  · have : binary32.emin = -149 := rfl
    have : binary64.emin = -1074 := rfl
    omega

theorem rep_32_64_mul10 {v : Rat} (h : Rep binary32 v) : Rep binary64 (v * 10) := by
  obtain ⟨m, e, hm, he, rfl⟩ := h
  refine ⟨m * 10, e, ?_, ?_, ?_⟩
  · have : (2 : Nat) ^ binary32.prec * 10 ≤ 2 ^ binary64.prec := by decide
    omega
  · have : binary32.emin = -149 := rfl
    have : binary64.emin = -1074 := rfl
    omega
  · push_cast; grind

private theorem pow2_127_lt : pow2 127 < pow2 1023 := pow2_strict (by decide)
private theorem ten_lt_pow2_127 : (10 : Rat) < pow2 127 := by
  have h1 : pow2 ((4 : Nat) : Int) ≤ pow2 127 := pow2_mono (by decide)
  rw [pow2_nat] at h1
  have : (((2 ^ 4 : Nat)) : Rat) = 16 := by decide +kernel
  rw [this] at h1; grind

theorem sfOfInt64_ten : FinEnc b64 (sfOfInt b64 10) ∧ encVal b64 (sfOfInt b64 10) = 10 := by
  have hr : InRange b64.bin ((10 : Int) : Rat) := by
    rw [b64_bin]
    have := ten_lt_pow2_127; have := pow2_127_lt
    have hb : binary64.big = pow2 1023 := rfl
    unfold InRange; rw [hb]
    have : ((10 : Int) : Rat) = 10 := by decide +kernel
    rw [this]
    constructor <;> grind
  obtain ⟨h1, h2⟩ := sfOfInt_rn b64 b64_wf 10 hr
  refine ⟨h1, ?_⟩
  have h10 : ((10 : Int) : Rat) = 10 := by decide +kernel
  rw [h10] at h2
  have hrep : Rep b64.bin 10 := by
    rw [b64_bin]
    exact ⟨10, 0, by decide, by decide, by simp⟩
  exact h2.exact (fun _ => hrep) (fun h => by grind)

private theorem inRange_64_of_32 {v : Rat} (h : InRange binary32 v) : InRange binary64 v := by
  have h1 : binary32.big = pow2 127 := rfl
  have h2 : binary64.big = pow2 1023 := rfl
  have := pow2_127_lt
  unfold InRange at *; rw [h1] at h; rw [h2]
  constructor <;> grind

private theorem inRange_32_of_mul10 {v : Rat} (h : InRange binary32 (v * 10)) : InRange binary32 v := by
  have h1 : binary32.big = pow2 127 := rfl
  have := pow2_pos 127
  unfold InRange at *; rw [h1] at h ⊢
  constructor <;> grind

/-- the double product `(double)x * 10.0` of a binary32 `x` is exact -/
theorem mul10_exact (a : Nat) (h : FinEnc b32 a) (hr : InRange binary32 (encVal b32 a * 10)) :
    FinEnc b64 (sfMul b64 (sfCvt b32 b64 a) (sfOfInt b64 10)) ∧
    encVal b64 (sfMul b64 (sfCvt b32 b64 a) (sfOfInt b64 10)) = encVal b32 a * 10 := by
  obtain ⟨hp, hn⟩ := finEnc_rep b32 b32_wf a h
  rw [b32_bin] at hp hn
  -- widening
  have hr1 : InRange b64.bin (encVal b32 a) := by
    rw [b64_bin]; exact inRange_64_of_32 (inRange_32_of_mul10 hr)
  obtain ⟨w1, w2⟩ := sfCvt_rn b32 b64 b32_wf b64_wf a h hr1
  rw [b64_bin] at w2
  have hw : encVal b64 (sfCvt b32 b64 a) = encVal b32 a :=
    w2.exact (fun h => rep_32_64 (hp h)) (fun h => rep_32_64 (hn h))
  -- the constant
  obtain ⟨t1, t2⟩ := sfOfInt64_ten
  -- the product
  have hr2 : InRange b64.bin (encVal b64 (sfCvt b32 b64 a) * encVal b64 (sfOfInt b64 10)) := by
    rw [b64_bin, hw, t2]; exact inRange_64_of_32 hr
  obtain ⟨p1, p2⟩ := sfMul_rn b64 b64_wf _ _ w1 t1 hr2
  refine ⟨p1, ?_⟩
  rw [b64_bin, hw, t2] at p2
  refine p2.exact (fun h => rep_32_64_mul10 (hp (by grind))) (fun h => ?_)
  have := rep_32_64_mul10 (hn (by grind))
  have e : -(encVal b32 a * 10) = -(encVal b32 a) * 10 := by grind
  rw [e]; exact this

/-- `f *= 10.0` on a binary32 (widened exactly, multiplied exactly in binary64, rounded once on the way back) -/
theorem f32_mul10_rn (x : F32) (h : x.Fin) (hr : InRange binary32 (x.val * 10)) :
    (mul10 x).Fin ∧ RNs binary32 (x.val * 10) (mul10 x).val := by
  obtain ⟨p1, p2⟩ := mul10_exact x.bits h hr
  have hr3 : InRange b32.bin (encVal b64 (sfMul b64 (sfCvt b32 b64 x.bits) (sfOfInt b64 10))) := by
    rw [p2, b32_bin]; exact hr
  have := sfCvt_rn b64 b32 b64_wf b32_wf _ p1 hr3
  rw [p2, b32_bin] at this
  exact this

theorem rounder32_ok (p : Nat) (hp : p ≤ 10) : F32.Fin (rounder p) ∧
    (1 - 2 * binary32.u) * (1 / (2 * (10 : Rat) ^ p)) ≤ F32.val (rounder p) ∧
    F32.val (rounder p) ≤ (1 + 2 * binary32.u) * (1 / (2 * (10 : Rat) ^ p)) := by
  have : p = 0 ∨ p = 1 ∨ p = 2 ∨ p = 3 ∨ p = 4 ∨ p = 5 ∨ p = 6 ∨ p = 7 ∨ p = 8 ∨ p = 9 ∨ p = 10 := by
    omega
  unfold F32.Fin F32.val FinEnc
  rcases this with rfl | rfl | rfl | rfl | rfl | rfl | rfl | rfl | rfl | rfl | rfl <;> decide +kernel

theorem rounder64_ok (p : Nat) (hp : p ≤ 10) : F64.Fin (rounder p) ∧
    (1 - 2 * binary64.u) * (1 / (2 * (10 : Rat) ^ p)) ≤ F64.val (rounder p) ∧
    F64.val (rounder p) ≤ (1 + 2 * binary64.u) * (1 / (2 * (10 : Rat) ^ p)) := by
  have : p = 0 ∨ p = 1 ∨ p = 2 ∨ p = 3 ∨ p = 4 ∨ p = 5 ∨ p = 6 ∨ p = 7 ∨ p = 8 ∨ p = 9 ∨ p = 10 := by
    omega
  unfold F64.Fin F64.val FinEnc
  rcases this with rfl | rfl | rfl | rfl | rfl | rfl | rfl | rfl | rfl | rfl | rfl <;> decide +kernel

theorem tenth32_ok : F32.Fin (lit 1 1) ∧ (1 - binary32.u / 2) * (1 / 10) ≤ F32.val (lit 1 1) ∧
    F32.val (lit 1 1) ≤ (1 + binary32.u / 2) * (1 / 10) := by
  unfold F32.Fin F32.val FinEnc
  decide +kernel

theorem tenth64_ok : F64.Fin (lit 1 1) ∧ (1 - binary64.u / 2) * (1 / 10) ≤ F64.val (lit 1 1) ∧
    F64.val (lit 1 1) ≤ (1 + binary64.u / 2) * (1 / 10) := by
  unfold F64.Fin F64.val FinEnc
  decide +kernel

/-- `d *= 10.0` on a binary64 -/
theorem f64_mul10_rn (x : F64) (h : x.Fin) (hr : InRange binary64 (x.val * 10)) :
    F64.Fin (mul10 x) ∧ RNs binary64 (x.val * 10) (F64.val (mul10 x)) := by
  obtain ⟨t1, t2⟩ := sfOfInt64_ten
  have := sfMul_rn b64 b64_wf x.bits _ h t1 (by rw [b64_bin, t2]; exact hr)
  rw [b64_bin, t2] at this
  exact this

instance : IEEE F32 where
  B := binary32
  prec_ge := by decide
  emin_le := by decide
  emax_ge := by decide
  val := F32.val
  fin := F32.Fin
  fin_special := fun x h => finEnc_not_special b32 b32_wf x.bits h
  fin_rep := fun x h => b32_bin ▸ finEnc_rep b32 b32_wf x.bits h
  lt_zero := fun x h => sfLt_zero b32 b32_wf x.bits h
  neg_val := fun x h => sfNeg_spec b32 b32_wf x.bits h
  add_rn := fun x y hx hy hr => b32_bin ▸ sfAdd_rn b32 b32_wf x.bits y.bits hx hy (b32_bin ▸ hr)
  sub_rn := fun x y hx hy hr => b32_bin ▸ sfSub_rn b32 b32_wf x.bits y.bits hx hy (b32_bin ▸ hr)
  mul_rn := fun x y hx hy hr => b32_bin ▸ sfMul_rn b32 b32_wf x.bits y.bits hx hy (b32_bin ▸ hr)
  ofInt_rn := fun n hr => b32_bin ▸ sfOfInt_rn b32 b32_wf n (b32_bin ▸ hr)
  trunc_val := fun x h => sfTrunc_spec b32 b32_wf x.bits h
  mul10_rn := f32_mul10_rn
  rounder_ok := rounder32_ok
  tenth_ok := tenth32_ok

instance : IEEE F64 where
  B := binary64
  prec_ge := by decide
  emin_le := by decide
  emax_ge := by decide
  val := F64.val
  fin := F64.Fin
  fin_special := fun x h => finEnc_not_special b64 b64_wf x.bits h
  fin_rep := fun x h => b64_bin ▸ finEnc_rep b64 b64_wf x.bits h
  lt_zero := fun x h => sfLt_zero b64 b64_wf x.bits h
  neg_val := fun x h => sfNeg_spec b64 b64_wf x.bits h
  add_rn := fun x y hx hy hr => b64_bin ▸ sfAdd_rn b64 b64_wf x.bits y.bits hx hy (b64_bin ▸ hr)
  sub_rn := fun x y hx hy hr => b64_bin ▸ sfSub_rn b64 b64_wf x.bits y.bits hx hy (b64_bin ▸ hr)
  mul_rn := fun x y hx hy hr => b64_bin ▸ sfMul_rn b64 b64_wf x.bits y.bits hx hy (b64_bin ▸ hr)
  ofInt_rn := fun n hr => b64_bin ▸ sfOfInt_rn b64 b64_wf n (b64_bin ▸ hr)
  trunc_val := fun x h => sfTrunc_spec b64 b64_wf x.bits h
  mul10_rn := f64_mul10_rn
  rounder_ok := rounder64_ok
  tenth_ok := tenth64_ok

/-- `(float32_t)d`: one rounding to nearest binary32 -/
theorem f64_toF32_rn (d : F64) (h : d.Fin) (hr : InRange binary32 d.val) :
    d.toF32.Fin ∧ RNs binary32 d.val d.toF32.val := by
  have := sfCvt_rn b64 b32 b64_wf b32_wf d.bits h (by rw [b32_bin]; exact hr)
  rw [b32_bin] at this
  exact this

end Igris.C12
