import IgrisModel.C12.LemParse
/-! C12 — lemmas, part 3: what the parsers consume does not depend on the arithmetic. -/
namespace Igris.C12
open Spec FloatLike

theorem mantLoop_indep {F G : Type} [FloatLike F] [FloatLike G] (p : List Nat) (v : F) (w : G) (k : Nat) :
    (mantLoop p v k).map (fun x => x.2) = (mantLoop p w k).map (fun x => x.2) := by
  induction p generalizing v w k with
  | nil => simp [mantLoop]
  | cons c rest ih =>
    simp only [mantLoop]
    split
    · exact ih _ _ _
    · simp

/-- two results with the same consumed part -/
theorem opt_pair_cases {α β γ : Type} {x : Option (α × γ)} {y : Option (β × γ)}
    (h : x.map (fun t => t.2) = y.map (fun t => t.2)) :
    (x = none ∧ y = none) ∨ ∃ a b c, x = some (a, c) ∧ y = some (b, c) := by
  cases x with
  | none => cases y with
    | none => exact Or.inl ⟨rfl, rfl⟩
    | some t => simp at h
  | some s => cases y with
    | none => simp at h
    | some t =>
      obtain ⟨a, c⟩ := s; obtain ⟨b, c'⟩ := t
      simp at h; subst h
      exact Or.inr ⟨a, b, c, rfl, rfl⟩

theorem atof64Body_indep {F G : Type} [FloatLike F] [FloatLike G] (p : List Nat) :
    (atof64Body (F := F) p).map (fun x => x.2) = (atof64Body (F := G) p).map (fun x => x.2) := by
  unfold atof64Body
  rcases opt_pair_cases (mantLoop_indep p (ofInt 0 : F) (ofInt 0 : G) 0) with ⟨h1, h2⟩ | ⟨v, w, ⟨n, p1⟩, h1, h2⟩
  · simp [h1, h2]
  · simp only [h1, h2]
    cases p1 with
    | nil => rfl
    | cons c q =>
      simp only
      by_cases hc : c = 46
      · simp only [hc, if_true]
        rcases opt_pair_cases (mantLoop_indep q v w 0) with ⟨h3, h4⟩ | ⟨v2, w2, ⟨nf, p2⟩, h3, h4⟩
        · simp [h3, h4]
        · simp only [h3, h4]
          cases parseExp p2 with
          | none => rfl
          | some r => obtain ⟨eneg, ev, p3⟩ := r; simp
      · simp only [hc, if_false]
        cases parseExp (c :: q) with
        | none => rfl
        | some r => obtain ⟨eneg, ev, p3⟩ := r; simp

theorem atof64_end_indep {F G : Type} [FloatLike F] [FloatLike G] (s : List Nat) :
    (atof64 (F := F) s).map (fun x => x.2) = (atof64 (F := G) s).map (fun x => x.2) := by
  cases s with
  | nil => rfl
  | cons c0 s1 =>
    simp only [atof64, Option.map_map]
    have h := atof64Body_indep (F := F) (G := G) (if c0 = 43 ∨ c0 = 45 then s1 else c0 :: s1)
    rcases opt_pair_cases h with ⟨h1, h2⟩ | ⟨a, b, r, h1, h2⟩
    · simp [h1, h2]
    · simp [h1, h2]

theorem atof32Frac_indep {F G D E : Type} [FloatLike F] [FloatLike G] [FloatLike D] [FloatLike E]
    (cvt : D → F) (cvt' : E → G) (u : Nat) (p : List Nat) :
    (atof32Frac (D := D) cvt u p).map (fun x => x.2) = (atof32Frac (D := E) cvt' u p).map (fun x => x.2) := by
  unfold atof32Frac
  cases p with
  | nil => rfl
  | cons c q =>
    simp only
    by_cases hc : c = 46
    · simp only [hc, if_true]
      cases atou10 (2 ^ 64) q 0 0 with
      | none => rfl
      | some r =>
        obtain ⟨d, n, p'⟩ := r
        simp only
        cases localPow10 n with
        | none => rfl
        | some pw => simp
    · simp [hc]

theorem atof32Body_indep {F G D E : Type} [FloatLike F] [FloatLike G] [FloatLike D] [FloatLike E]
    (cvt : D → F) (cvt' : E → G) (p : List Nat) :
    (atof32Body (D := D) cvt p).map (fun x => x.2) = (atof32Body (D := E) cvt' p).map (fun x => x.2) := by
  unfold atof32Body
  cases atou10 (2 ^ 32) p 0 0 with
  | none => rfl
  | some r =>
    obtain ⟨u, n0, p1⟩ := r
    simp only
    rcases opt_pair_cases (atof32Frac_indep cvt cvt' u p1) with ⟨h1, h2⟩ | ⟨a, b, p2, h1, h2⟩
    · simp [h1, h2]
    · simp only [h1, h2]
      cases parseExp p2 with
      | none => rfl
      | some r => obtain ⟨eneg, ev, p3⟩ := r; simp

theorem atof32_end_indep {F G D E : Type} [FloatLike F] [FloatLike G] [FloatLike D] [FloatLike E]
    (cvt : D → F) (cvt' : E → G) (s : List Nat) :
    (atof32 (D := D) cvt s).map (fun x => x.2) = (atof32 (D := E) cvt' s).map (fun x => x.2) := by
  cases s with
  | nil => rfl
  | cons c0 s1 =>
    simp only [atof32, Option.map_map]
    have h := atof32Body_indep cvt cvt' (if c0 = 43 ∨ c0 = 45 then s1 else c0 :: s1)
    rcases opt_pair_cases h with ⟨h1, h2⟩ | ⟨a, b, r, h1, h2⟩
    · simp [h1, h2]
    · simp [h1, h2]

end Igris.C12
