import IgrisModel.C12.Model
namespace Igris.C12
theorem stub : True := trivial
end Igris.C12
