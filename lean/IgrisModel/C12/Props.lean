import IgrisModel.C12.Lemmas
import IgrisModel.C12.LemParse
import IgrisModel.C12.Orig
import IgrisModel.C12.LemEnd
import IgrisModel.C12.LemDprint
import IgrisModel.C12.LemF32
import IgrisModel.C12.LemEntry
import IgrisModel.C12.LemAuto
import IgrisModel.C12.LemTotal
/-!
  C12 — property theorems.

  Property text: "For every finite float or double in the supported magnitude
  range and every precision 0..10 (or automatic), the rendered text is a
  well-formed decimal ([-]digits[.digits] with exactly the requested number of
  fraction digits) whose value differs from the argument by no more than one
  unit of the last printed digit plus the binary representation error;
  infinities and NaN render as inf/nan tokens, and no input produces a
  non-numeric character or a write beyond the text.  Parsing any decimal literal
  (sign, integer part, fraction, exponent with its own sign) returns the value
  strtod returns to within a few ulps and reports the end of the literal, for
  the float, double and libc strtod/atof entry points alike."

  Level "proof (partial)".  Sections A-E: shape for every arithmetic instance,
  accuracy / grammar over EXACT arithmetic (`FloatLike Rat`, theorems `_Q`), debug
  printers, historical witnesses.  Sections F-H (extension round): IEEE-754
  arithmetic is part of the model — the software binary32/binary64 the driver
  runs is PROVED to be round-to-nearest arithmetic (`softfloat_rounds_to_nearest`,
  instances `IEEE F32`, `IEEE F64`), and the accuracy clauses are THEOREMS ABOUT
  THAT FLOAT INSTANCE: `ftoa_error_bound`, `ftoa_total`,
  `ftoa_within_one_unit_partial` (+ 2 witnesses), `f64toa_error_bound`
  (+ witness), `atof64_error_bound_partial`, `atof64_budget`,
  `atof64_exact_class` (+ 2 witnesses).  NOT proved: an IEEE error bound for
  `igris_atof32` (division has no rounding law yet) and for the debug printers;
  the agreement of the soft-float with the FPU and of the transcription with the
  C code is tested on every run, not proved.
-/
namespace Igris.C12
open Spec FloatLike

/-! ## A. shape of the rendering — every arithmetic instance -/

/-- infinities render as `+inf` / `-inf`, NaN as `nan` -/
theorem ftoa_tokens {F : Type} [FloatLike F] (f : F) (prec : Int) :
    (isInf f = true → f32toa f prec = some ((if lt (ofInt 0) f then 43 else 45) :: [105, 110, 102])) ∧
    (isInf f = false → isNaN f = true → f32toa f prec = some [110, 97, 110]) := by
  constructor
  · intro h; simp [f32toa, h, tokInf]
  · intro h1 h2; simp [f32toa, h1, h2, tokNan]

/-- For a finite argument, whenever the routine does not run into undefined
    behaviour, the text is  sign ++ integer part ++ [ '.' ++ fraction ]  with
    exactly `p` fraction characters (`p` = the clamped or automatic precision,
    at most 10), no point for `p = 0`, 1..10 integer characters and '-' exactly
    when `f < 0`. -/
theorem ftoa_shape {F : Type} [FloatLike F] (f : F) (prec : Int) (t : List Nat)
    (hinf : isInf f = false) (hnan : isNaN f = false) (h : f32toa f prec = some t) :
    let ng := lt f (ofInt 0)
    let p := effPrec (if ng then FloatLike.neg f else f) prec
    ∃ ip fr : List Nat,
      t = (if ng then [45] else []) ++ ip ++ (if p ≠ 0 then 46 :: fr else []) ∧
      fr.length = p ∧ 1 ≤ ip.length ∧ ip.length ≤ 10 ∧ p ≤ 10 := by
  intro ng p
  have hp : p ≤ 10 := effPrec_le _ _
  simp only [f32toa, hinf, hnan] at h
  simp only [Bool.false_eq_true, if_false] at h
  split at h
  · cases h
  · rename_i ip hip
    split at h
    · cases h
    · have hlen : 1 ≤ (if ip = 0 then [48] else (intDigitsRev 10 ip).reverse).length ∧
          (if ip = 0 then [48] else (intDigitsRev 10 ip).reverse).length ≤ 10 := by
        split
        · simp
        · rename_i hne
          have h1 := intDigitsRev_length 10 ip
          have h2 := intDigitsRev_ne_nil 9 ip hne
          simp only [List.length_reverse]
          refine ⟨?_, h1⟩
          cases hl : intDigitsRev 10 ip with
          | nil => exact absurd hl h2
          | cons a l => simp
      by_cases hp0 : p = 0
      · have hp0' : effPrec (if lt f (ofInt 0) = true then FloatLike.neg f else f) prec = 0 := hp0
        simp only [hp0', ne_eq, not_true_eq_false, if_false] at h
        refine ⟨_, [], ?_, by simp [hp0], hlen.1, hlen.2, hp⟩
        simp only [hp0, ne_eq, not_true_eq_false, if_false, List.append_nil]
        exact (Option.some.inj h).symm
      · have hp0' : effPrec (if lt f (ofInt 0) = true then FloatLike.neg f else f) prec ≠ 0 := hp0
        simp only [hp0', ne_eq, not_false_eq_true, if_true] at h
        cases hfr : fracLoop (effPrec (if lt f (ofInt 0) = true then FloatLike.neg f else f) prec)
            (sub (add (if lt f (ofInt 0) = true then FloatLike.neg f else f)
              (rounder (effPrec (if lt f (ofInt 0) = true then FloatLike.neg f else f) prec))) (ofInt ip)) with
        | none => rw [hfr] at h; cases h
        | some fr =>
          rw [hfr] at h
          refine ⟨_, fr, ?_, fracLoop_length _ _ _ hfr, hlen.1, hlen.2, hp⟩
          simp only [hp0, ne_eq, not_false_eq_true, if_true]
          simp only [Option.map_some] at h
          exact (Option.some.inj h).symm

/-- bounded length: at most sign + 10 + '.' + 10 characters, so 23 bytes with the NUL -/
theorem ftoa_length {F : Type} [FloatLike F] (f : F) (prec : Int) (t : List Nat)
    (h : f32toa f prec = some t) : t.length + 1 ≤ 23 := by
  by_cases hinf : isInf f = true
  · have := (ftoa_tokens f prec).1 hinf
    rw [this] at h; cases h; simp
  · have hinf' : isInf f = false := by simpa using hinf
    by_cases hnan : isNaN f = true
    · have := (ftoa_tokens f prec).2 hinf' hnan
      rw [this] at h; cases h; simp
    · have hnan' : isNaN f = false := by simpa using hnan
      obtain ⟨ip, fr, ht, hfr, _, hip, hp⟩ := ftoa_shape f prec t hinf' hnan' h
      rw [ht]
      simp only [List.length_append]
      split <;> split <;> simp <;> omega

/-- the buffer after the call: the text, a NUL, every other byte untouched; the
    returned pointer is the buffer; a buffer of fewer than length+1 bytes is a fault -/
theorem ftoa_buffer {F : Type} [FloatLike F] (f : F) (prec : Int) (t buf : List Nat)
    (h : f32toa f prec = some t) :
    (t.length + 1 ≤ buf.length → f32toaBuf f prec buf = some (t ++ 0 :: buf.drop (t.length + 1), 0)) ∧
    (buf.length < t.length + 1 → f32toaBuf f prec buf = none) := by
  constructor
  · intro hl; simp [f32toaBuf, h, hl]
  · intro hl; simp [f32toaBuf, h]; omega

/-- a precision above 10 is 10 -/
theorem ftoa_precision_clamped {F : Type} [FloatLike F] (f : F) (prec : Int) (h : 10 ≤ prec) :
    f32toa f prec = f32toa f 10 := by
  have : ∀ g : F, effPrec g prec = effPrec g 10 := by
    intro g; unfold effPrec MAX_PRECISION; simp only
    split <;> split <;> simp_all <;> omega
  simp only [f32toa, this]

/-! ## B. accuracy over exact arithmetic -/

/-- Over exact arithmetic, for every `x` with `|x| + rounder < 2^31` and every
    precision, the routine succeeds and prints  [-] ip [. fr]  where `ip` is a
    canonical digit string (≤ 10 digits), `fr` consists of exactly `p` digits, and
    the printed number `ip.fr`, scaled by `10^p`, is the FLOOR of
    `(|x| + r) * 10^p`  (`r` = half a unit of the last place for p > 0, 0 for p = 0). -/
theorem ftoa_exact_Q (x : Rat) (prec : Int)
    (hr : absQ x + rnd (effPrec (absQ x) prec) < 2147483648) :
    ∃ ip fr : List Nat,
      f32toa x prec = some ((if x < 0 then [45] else []) ++ ip ++
        (if effPrec (absQ x) prec ≠ 0 then 46 :: fr else [])) ∧
      AllDigits ip ∧ Canonical ip ∧ ip.length ≤ 10 ∧ AllDigits fr ∧ fr.length = effPrec (absQ x) prec ∧
      ((valL (ip ++ fr) : Nat) : Rat) ≤ (absQ x + rnd (effPrec (absQ x) prec)) * (10 : Rat) ^ effPrec (absQ x) prec ∧
      (absQ x + rnd (effPrec (absQ x) prec)) * (10 : Rat) ^ effPrec (absQ x) prec < ((valL (ip ++ fr) : Nat) : Rat) + 1 :=
  ftoa_exact_Q_core x prec hr

example : absQ (307582293 / 1000 : Rat) + rnd (effPrec (absQ (307582293 / 1000 : Rat)) 2) < 2147483648 := by decide +kernel

/-- ... hence the printed value is within HALF a unit of the last printed digit for
    p > 0 (round half up) and within one unit (truncation) for p = 0:
    with `T` = the printed digits read as an integer, `|x|*10^p - 1/2 < T ≤ |x|*10^p + 1/2`,
    resp. `|x| - 1 < T ≤ |x|`. -/
theorem ftoa_within_one_unit_Q (x : Rat) (prec : Int)
    (hr : absQ x + rnd (effPrec (absQ x) prec) < 2147483648) :
    ∃ ip fr : List Nat,
      f32toa x prec = some ((if x < 0 then [45] else []) ++ ip ++
        (if effPrec (absQ x) prec ≠ 0 then 46 :: fr else [])) ∧
      (effPrec (absQ x) prec ≠ 0 →
        absQ x * (10 : Rat) ^ effPrec (absQ x) prec - 1 / 2 < ((valL (ip ++ fr) : Nat) : Rat) ∧
        ((valL (ip ++ fr) : Nat) : Rat) ≤ absQ x * (10 : Rat) ^ effPrec (absQ x) prec + 1 / 2) ∧
      (effPrec (absQ x) prec = 0 →
        absQ x - 1 < ((valL (ip ++ fr) : Nat) : Rat) ∧ ((valL (ip ++ fr) : Nat) : Rat) ≤ absQ x) := by
  obtain ⟨ip, fr, h, _, _, _, _, _, hlo, hhi⟩ := ftoa_exact_Q_core x prec hr
  refine ⟨ip, fr, h, ?_, ?_⟩
  · intro hp
    have := rnd_scaled _ hp
    have e : (absQ x + rnd (effPrec (absQ x) prec)) * (10 : Rat) ^ effPrec (absQ x) prec
        = absQ x * (10 : Rat) ^ effPrec (absQ x) prec + 1 / 2 := by grind
    rw [e] at hlo hhi
    constructor <;> grind
  · intro hp
    rw [hp] at hlo hhi
    simp [rnd] at hlo hhi
    constructor <;> grind

/-- The full statement without the range hypothesis is false: the integer part is
    taken with `(int32_t)f`.  Witness (exact arithmetic): 4e9 at precision 2. -/
theorem ftoa_range_witness : f32toa (4000000000 : Rat) 2 = none := by decide +kernel

/-- the same witness on the software binary32 instance (pattern 0x4f6e6b28 = 4e9f) -/
theorem ftoa_range_witness_binary32 : f32toa (⟨0x4f6e6b28⟩ : F32) 2 = none := by decide +kernel

/-- and a finite double beyond the float range renders as an infinity (1e300) -/
theorem f64toa_range_witness :
    f64toa F64.toF32 (⟨0x7e37e43c8800759c⟩ : F64) 3 = some [43, 105, 110, 102] := by decide +kernel

/-! ## C. the literal grammar  [+-] d* [ . d* ] [ (e|E) [+-] d+ ]

  `Literal` (Spec.lean) is a decomposition sign / integer digits / optional
  '.' + fraction digits / optional exponent; `L.text` its characters, `L.value`
  the rational it denotes (digits / 10^#fraction-digits * 10^exponent, negated
  for '-'), `Stops L rest` says that the bytes behind it (up to the end of the
  allocation) contain the NUL and do not continue the literal (no digit; no
  '.', no exponent start where one could still follow; no sign when the literal
  is empty).  Exponent values up to 999999 (the code saturates beyond). -/

/-- igris_atof64 (= igris_strtod = compat strtod; atof drops the end pointer):
    for EVERY literal of the grammar followed by any such tail, over exact
    arithmetic the value is the decimal value of the literal and the reported end
    is the end of the literal. -/
theorem atof64_grammar (L : Literal) (rest : List Nat) (hwf : L.WF) (hst : Stops L rest) :
    atof64 (F := Rat) (L.text ++ rest) = some (L.value, L.text.length) :=
  atof64_Q L rest hwf hst

/-- the hypotheses are satisfiable: "-12.5e-3" followed by "x\0" -/
example : atof64 (F := Rat) ([45, 49, 50, 46, 53, 101, 45, 51] ++ [120, 0]) = some (-(125 / 10000 : Rat), 8) := by
  decide +kernel

/-- igris_atof32 (and binreader::read_ascii_decimal_float): the same, for literals
    whose integer part is below 2^32 and that have at most 18 fraction digits.
    (The full statement is false, see the two witnesses.) -/
theorem atof32_grammar_partial (L : Literal) (rest : List Nat) (hwf : L.WF) (hst : Stops L rest)
    (hip32 : valL L.ip < 2 ^ 32) (hfp18 : L.fracDigits.length ≤ 18) :
    atof32 (F := Rat) (D := Rat) id (L.text ++ rest) = some (L.value, L.text.length) :=
  atof32_Q L rest hwf hst hip32 hfp18

example : atof32 (F := Rat) (D := Rat) id ([43, 46, 53, 69, 50] ++ [0]) = some ((50 : Rat), 5) := by
  decide +kernel

/-- "4294967296": the integer part wraps modulo 2^32 (igris_atou32) -/
theorem atof32_wrap_witness :
    atof32 (F := Rat) (D := Rat) id [52, 50, 57, 52, 57, 54, 55, 50, 57, 54, 0] = some ((0 : Rat), 10) := by
  decide +kernel

/-- "0.1000000000000000000" (19 fraction digits): `local_pow(10, 19)` overflows `int64_t` -/
theorem atof32_ub_witness :
    atof32 (F := Rat) (D := Rat) id
      [48, 46, 49, 48, 48, 48, 48, 48, 48, 48, 48, 48, 48, 48, 48, 48, 48, 48, 48, 48, 48, 0] = none := by
  decide +kernel

/-- The reported end does not depend on the arithmetic: for EVERY instance (in
    particular the software binary64 the driver runs, and IEEE hardware as far as
    it is modelled by it) igris_atof64 reports the end of the literal. -/
theorem atof64_end_any_arithmetic {F : Type} [FloatLike F] (L : Literal) (rest : List Nat)
    (hwf : L.WF) (hst : Stops L rest) :
    (atof64 (F := F) (L.text ++ rest)).map (fun x => x.2) = some L.text.length := by
  rw [atof64_end_indep (F := F) (G := Rat), atof64_Q L rest hwf hst]; rfl

/-- the same for igris_atof32, whenever `local_pow` does not overflow (at most 18
    fraction digits) and, for the sake of the Rat run it is derived from, the integer
    part is below 2^32 -/
theorem atof32_end_any_arithmetic_partial {F D : Type} [FloatLike F] [FloatLike D] (cvt : D → F)
    (L : Literal) (rest : List Nat) (hwf : L.WF) (hst : Stops L rest)
    (hip32 : valL L.ip < 2 ^ 32) (hfp18 : L.fracDigits.length ≤ 18) :
    (atof32 (D := D) cvt (L.text ++ rest)).map (fun x => x.2) = some L.text.length := by
  rw [atof32_end_indep (F := F) (G := Rat) (D := D) (E := Rat) cvt id, atof32_Q L rest hwf hst hip32 hfp18]; rfl

/-! ## D. the debug printers (debug_printdec_double_prec; _float_prec widens exactly) -/

theorem dprint_tokens {D : Type} [FloatLike D] (a : D) (prec : Int) :
    (isNaN a = true → dprintDouble a prec = some [110, 97, 110]) ∧
    (isNaN a = false → isInf a = true →
      dprintDouble a prec = some ((if lt (ofInt 0) a then 43 else 45) :: [105, 110, 102])) := by
  constructor
  · intro h; simp [dprintDouble, h, tokNan]
  · intro h1 h2; simp [dprintDouble, h1, h2, tokInf]

/-- Over exact arithmetic, for |a| < 2^64 - 1 and every precision (clamped to
    0..18 =: p) the routine prints  [-] ip [. fr]  with `ip` the canonical decimal of
    `N / 10^p`, `fr` exactly `p` digits with value `N % 10^p`, where `N` is
    `|a| * 10^p` rounded half up to an integer: the printed number is within half a
    unit of the last printed digit. -/
theorem dprint_exact_Q (a : Rat) (prec : Int) (hr : absQ a < 18446744073709551615) :
    let p : Nat := if prec > 18 then 18 else prec.toNat
    ∃ (N : Nat) (ip fr : List Nat),
      ((N : Nat) : Rat) ≤ absQ a * (10 : Rat) ^ p + 1 / 2 ∧ absQ a * (10 : Rat) ^ p + 1 / 2 < ((N : Nat) : Rat) + 1 ∧
      dprintDouble a prec = some ((if a < 0 then [45] else []) ++ ip ++ (if p > 0 then 46 :: fr else [])) ∧
      AllDigits ip ∧ Canonical ip ∧ valL ip = N / 10 ^ p ∧
      AllDigits fr ∧ fr.length = p ∧ valL fr = N % 10 ^ p := by
  intro p
  have hs0 : 0 ≤ absQ a * (10 : Rat) ^ p + 1 / 2 := by
    have := Rat.mul_nonneg (absQ_nonneg a) (Rat.le_of_lt (pow10_pos p)); grind
  have hf0 : 0 ≤ (absQ a * (10 : Rat) ^ p + 1 / 2).floor := Rat.le_floor_iff.mpr (by simpa using hs0)
  obtain ⟨N, hN⟩ : ∃ N : Nat, (absQ a * (10 : Rat) ^ p + 1 / 2).floor = (N : Int) :=
    ⟨(absQ a * (10 : Rat) ^ p + 1 / 2).floor.toNat, by omega⟩
  have hfl := Rat.floor_le (absQ a * (10 : Rat) ^ p + 1 / 2)
  have hfu := Rat.lt_floor_add_one (absQ a * (10 : Rat) ^ p + 1 / 2)
  rw [hN] at hfl hfu
  have hcq : (((N : Int)) : Rat) = (N : Rat) := Rat.intCast_natCast N
  have hfu' : absQ a * (10 : Rat) ^ p + 1 / 2 < (N : Rat) + 1 := by
    have : (((N : Int) + 1 : Int) : Rat) = (N : Rat) + 1 := by simp [Rat.intCast_add]; rw [hcq]
    rw [this] at hfu; exact hfu
  rw [hcq] at hfl
  obtain ⟨fr, h1, h2, h3, h4, h5, h6, h7⟩ := dprint_Q_core a prec hr p N rfl (by rw [hN]; simp)
  exact ⟨N, _, fr, hfl, hfu', h1, h5, h6, h7, h2, h3, h4⟩

example : absQ (-(96 / 100) : Rat) < 18446744073709551615 := by decide +kernel

/-- without the range hypothesis the statement is false: `(uint64_t)a` for a = 2^64 -/
theorem dprint_range_witness : dprintDouble (18446744073709551616 : Rat) 2 = none := by decide +kernel

/-! ## E. the routines as they were before the `fix:` commits (Orig.lean) -/

/-- "1e-2" was -100: the '-' of the exponent went to the mantissa sign -/
theorem atof64Orig_sign_witness :
    atof64Orig (F := Rat) [49, 101, 45, 50, 0] = some (-(100 : Rat), 4) ∧
    atof64 (F := Rat) [49, 101, 45, 50, 0] = some ((1 / 100 : Rat), 4) := by
  constructor <;> decide +kernel

/-- "1ex": the 'e' was consumed although no exponent follows -/
theorem atof64Orig_end_witness :
    atof64Orig (F := Rat) [49, 101, 120, 0] = some ((1 : Rat), 2) ∧
    atof64 (F := Rat) [49, 101, 120, 0] = some ((1 : Rat), 1) := by
  constructor <;> decide +kernel

/-- "+1.5", ".5", "abc": igris_atof32 returned 0 without storing `*pend` (modelled as `none`) -/
theorem atof32Orig_guard_witness :
    atof32Orig (F := Rat) (D := Rat) id [43, 49, 46, 53, 0] = none ∧
    atof32Orig (F := Rat) (D := Rat) id [46, 53, 0] = none ∧
    atof32 (F := Rat) (D := Rat) id [43, 49, 46, 53, 0] = some ((3 / 2 : Rat), 4) ∧
    atof32 (F := Rat) (D := Rat) id [46, 53, 0] = some ((1 / 2 : Rat), 2) := by
  refine ⟨?_, ?_, ?_, ?_⟩ <;> decide +kernel

/-- "1e5": igris_atof32 ignored the exponent -/
theorem atof32Orig_exponent_witness :
    atof32Orig (F := Rat) (D := Rat) id [49, 101, 53, 0] = some ((1 : Rat), 1) ∧
    atof32 (F := Rat) (D := Rat) id [49, 101, 53, 0] = some ((100000 : Rat), 3) := by
  constructor <;> decide +kernel

/-- debug_printdec_double_prec: 0.96 at one digit printed "0.10", 1.0 at three
    digits "1.0000", 2.7 at zero digits "2.1"; the repaired routine prints
    "1.0", "1.000", "3" -/
theorem dprintOrig_witness :
    dprintDoubleOrig (96 / 100 : Rat) 1 = some [48, 46, 49, 48] ∧
    dprintDoubleOrig (1 : Rat) 3 = some [49, 46, 48, 48, 48, 48] ∧
    dprintDoubleOrig (27 / 10 : Rat) 0 = some [50, 46, 49] ∧
    dprintDouble (96 / 100 : Rat) 1 = some [49, 46, 48] ∧
    dprintDouble (1 : Rat) 3 = some [49, 46, 48, 48, 48] ∧
    dprintDouble (27 / 10 : Rat) 0 = some [51] := by
  refine ⟨?_, ?_, ?_, ?_, ?_, ?_⟩ <;> decide +kernel


/-! ## F. IEEE-754 arithmetic is part of the model

  `RN B v r` (Ieee.lean) = "`r` is the non-negative rational `v` rounded to nearest in
  the binary format `B`": `r` is a value of the format, no value of the format is
  closer to `v`, and the standard model `r = v (1 + δ)`, `|δ| ≤ u = 2^-prec` (below the
  normal range: absolute error ≤ half the smallest subnormal).  `RNs` is the
  sign-symmetric version.  The software binary32/binary64 of Model.lean — the
  arithmetic the driver runs and the harness compares with the FPU operation by
  operation — rounds in exactly one place, `roundPack`. -/

/-- THE MODEL LEMMA: `roundPack f s m e` is a finite encoding of sign `s` whose
    magnitude is `m * 2^e` rounded to nearest (no overflow below `2^bias`), for
    every format with ≥ 2 exponent and ≥ 1 fraction bits (binary32, binary64). -/
theorem softfloat_rounds_to_nearest (f : Fmt) (hf : f.WF) (s : Bool) (m : Nat) (e : Int) (hm : 0 < m)
    (hv : (m : Rat) * pow2 e < pow2 f.bias) :
    FinEnc f (roundPack f s m e) ∧
    ∃ M e', decode f (roundPack f s m e) = .fin s M e' ∧ M < 2 ^ (f.mbits + 1) ∧ f.bin.emin ≤ e' ∧
      RN f.bin ((m : Rat) * pow2 e) ((M : Rat) * pow2 e') :=
  roundPack_rn f hf s m e hm hv

example : (3 : Rat) * pow2 5 < pow2 b32.bias := by decide +kernel

/-- the standard model of rounding: in the normal range `|fl(v) - v| ≤ 2^-prec * v` -/
theorem rounding_standard_model {B : BinFmt} {v r : Rat} (h : RN B v r) (hv : B.tiny ≤ v) :
    r - v ≤ B.u * v ∧ v - r ≤ B.u * v :=
  h.rel (Or.inr hv)

/-- every operation of the software binary32 is the exact operation followed by
    one rounding to nearest: `+`, `-`, `*`, int -> float, the statement `f *= 10.0` of
    the digit loop (the instance `IEEE F32` of SoftOps.lean packages all of them,
    `IEEE F64` the same for binary64) -/
theorem binary32_operations_round_once (x y : F32) (hx : x.Fin) (hy : y.Fin) :
    (InRange binary32 (x.val + y.val) → (add x y).Fin ∧ RNs binary32 (x.val + y.val) (add x y).val) ∧
    (InRange binary32 (x.val - y.val) → (sub x y).Fin ∧ RNs binary32 (x.val - y.val) (sub x y).val) ∧
    (InRange binary32 (x.val * y.val) → (mul x y).Fin ∧ RNs binary32 (x.val * y.val) (mul x y).val) ∧
    (InRange binary32 (x.val * 10) → (mul10 x).Fin ∧ RNs binary32 (x.val * 10) (mul10 x).val) ∧
    trunc x = some (truncQ x.val) :=
  ⟨IEEE.add_rn x y hx hy, IEEE.sub_rn x y hx hy, IEEE.mul_rn x y hx hy, IEEE.mul10_rn x hx, IEEE.trunc_val x hx⟩

/-- the same for binary64, and the cast `(float)d` is one rounding to nearest binary32 -/
theorem binary64_operations_round_once (x y : F64) (hx : x.Fin) (hy : y.Fin) :
    (InRange binary64 (x.val + y.val) → (add x y).Fin ∧ RNs binary64 (x.val + y.val) (add x y).val) ∧
    (InRange binary64 (x.val * y.val) → (mul x y).Fin ∧ RNs binary64 (x.val * y.val) (mul x y).val) ∧
    (InRange binary32 x.val → x.toF32.Fin ∧ RNs binary32 x.val x.toF32.val) :=
  ⟨IEEE.add_rn x y hx hy, IEEE.mul_rn x y hx hy, f64_toF32_rn x hx⟩

/-! ## G. the renderer over binary32 arithmetic — error bound, totality, doubles -/

/-- ERROR BOUND of `igris_f32toa` as the code is (binary32 arithmetic, one rounding
    per operation).  For EVERY finite binary32 `x` with `|x| < 2^31` and EVERY
    precision the routine succeeds (no undefined behaviour), every character is a
    digit, the integer part is canonical, there are exactly `p` fraction digits
    (`p` = clamped / automatic precision ≤ 10), and the printed number `T / 10^p`
    (`T` = the digits read as an integer) satisfies, for p > 0,
        | T - |x| * 10^p |  ≤  1/2 + 2^-24 * 10^p * (|x| + 2)      (lower side strict)
    i.e. |printed - |x|| ≤ half a unit of the last digit + 2^-24 * (|x| + 2) — "one
    unit of the last printed digit plus the binary representation error"; for
    p = 0 the integer part is exact (truncation). -/
theorem ftoa_error_bound (x : F32) (prec : Int) (hx : x.Fin) (hr : absQ x.val < 2147483648) :
    ∃ (p : Nat) (ip fr : List Nat),
      p = effPrec (if lt x (ofInt 0) then FloatLike.neg x else x) prec ∧ p ≤ 10 ∧
      f32toa x prec = some ((if x.val < 0 then [45] else []) ++ ip ++ (if p ≠ 0 then 46 :: fr else [])) ∧
      AllDigits ip ∧ Canonical ip ∧ ip.length ≤ 10 ∧ AllDigits fr ∧ fr.length = p ∧
      (p ≠ 0 →
        absQ x.val * (10 : Rat) ^ p - 1 / 2 - (10 : Rat) ^ p * (absQ x.val + 2) / 16777216
          < ((valL (ip ++ fr) : Nat) : Rat) ∧
        ((valL (ip ++ fr) : Nat) : Rat)
          ≤ absQ x.val * (10 : Rat) ^ p + 1 / 2 + (10 : Rat) ^ p * (absQ x.val + 2) / 16777216) ∧
      (p = 0 → absQ x.val - 1 < ((valL (ip ++ fr) : Nat) : Rat) ∧ ((valL (ip ++ fr) : Nat) : Rat) ≤ absQ x.val) :=
  ftoa_error_bound_core x prec hx hr

/-- the hypotheses are satisfiable: 0x42c80001 (100.00000762939453125) -/
example : (⟨0x42c80001⟩ : F32).Fin ∧ absQ (⟨0x42c80001⟩ : F32).val < 2147483648 := by
  constructor
  · unfold F32.Fin FinEnc; decide +kernel
  · decide +kernel

/-- TOTALITY (the `= some` hypothesis of `ftoa_shape` / `ftoa_length` discharged): for
    every finite binary32 below 2^31 in magnitude, every precision and every buffer of
    at least 23 bytes the call is defined, writes text + NUL, leaves the rest of the
    buffer alone and returns the buffer. -/
theorem ftoa_total (x : F32) (prec : Int) (buf : List Nat) (hx : x.Fin) (hr : absQ x.val < 2147483648)
    (hb : 23 ≤ buf.length) :
    ∃ t, f32toa x prec = some t ∧ t.length + 1 ≤ 23 ∧
      f32toaBuf x prec buf = some (t ++ 0 :: buf.drop (t.length + 1), 0) := by
  obtain ⟨p, ip, fr, _, _, h, _⟩ := ftoa_error_bound_core x prec hx hr
  have hl := ftoa_length x prec _ h
  exact ⟨_, h, hl, (ftoa_buffer x prec _ buf h).1 (by omega)⟩

/-- "WITHIN ONE UNIT of the last printed digit" holds where the float has the digits:
    whenever `10^p * (|x| + 2) ≤ 2^23` (e.g. p ≤ 6 for |x| ≤ 6, p ≤ 5 for |x| ≤ 81,
    p ≤ 2 for |x| ≤ 83884; the automatic-precision table keeps 10^p * (|x| + 2) below
    3.1e6 < 2^23, but that connection is not a theorem here).  The statement without
    this hypothesis is false, see the two witnesses. -/
theorem ftoa_within_one_unit_partial (x : F32) (prec : Int) (hx : x.Fin) (hr : absQ x.val < 2147483648)
    (hd : (10 : Rat) ^ effPrec (if lt x (ofInt 0) then FloatLike.neg x else x) prec * (absQ x.val + 2) ≤ 8388608) :
    ∃ (p : Nat) (ip fr : List Nat),
      p = effPrec (if lt x (ofInt 0) then FloatLike.neg x else x) prec ∧
      f32toa x prec = some ((if x.val < 0 then [45] else []) ++ ip ++ (if p ≠ 0 then 46 :: fr else [])) ∧
      absQ x.val * (10 : Rat) ^ p - 1 < ((valL (ip ++ fr) : Nat) : Rat) ∧
      ((valL (ip ++ fr) : Nat) : Rat) ≤ absQ x.val * (10 : Rat) ^ p + 1 := by
  obtain ⟨p, ip, fr, hp, _, h, _, _, _, _, _, h9, h10⟩ := ftoa_error_bound_core x prec hx hr
  refine ⟨p, ip, fr, hp, h, ?_⟩
  rw [← hp] at hd
  by_cases hp0 : p = 0
  · have := h10 hp0
    subst hp0
    simp at this ⊢
    constructor <;> grind
  · have := h9 hp0
    constructor <;> grind

example : (10 : Rat) ^ effPrec (if lt (⟨0x3f7fffff⟩ : F32) (ofInt 0) then FloatLike.neg (⟨0x3f7fffff⟩ : F32) else ⟨0x3f7fffff⟩) 6
    * (absQ (⟨0x3f7fffff⟩ : F32).val + 2) ≤ 8388608 := by decide +kernel

/-- witness 1: already at precision 7 the printed value can be more than one unit of
    the last digit away: 0x4033b239 = 2.80775284767150878906 prints as 2.8077527
    (1.47 units low) -/
theorem ftoa_one_unit_witness_p7 :
    f32toa (⟨0x4033b239⟩ : F32) 7 = some [50, 46, 56, 48, 55, 55, 53, 50, 55] ∧
    (⟨0x4033b239⟩ : F32).val * (10 : Rat) ^ 7 - 28077527 > 1 := by
  constructor <;> decide +kernel

/-- witness 2 (the audit's): 0x3f7fffff = 1 - 2^-24 = 0.99999994039... at precision 10
    prints as 0.9999999046, 357 units of the last digit low (exact arithmetic prints
    0.9999999404) — well inside the bound `1/2 + 2^-24 * 10^10 * 3 ≈ 1789` of `ftoa_error_bound` -/
theorem ftoa_one_unit_witness_p10 :
    f32toa (⟨0x3f7fffff⟩ : F32) 10 = some [48, 46, 57, 57, 57, 57, 57, 57, 57, 48, 52, 54] ∧
    f32toa ((⟨0x3f7fffff⟩ : F32).val) 10 = some [48, 46, 57, 57, 57, 57, 57, 57, 57, 52, 48, 52] ∧
    (⟨0x3f7fffff⟩ : F32).val * (10 : Rat) ^ 10 - 9999999046 > 357 := by
  refine ⟨?_, ?_, ?_⟩ <;> decide +kernel

/-- DOUBLES (`igris_f64toa` = `igris_ftoa`): the argument is cast to float first.  For
    every finite double with `|d| ≤ 2^31 - 128` the cast `y = (float)d` is a finite
    binary32 of the same sign with `|y - d| ≤ 2^-24 * (|d| + 2^-126)` (one rounding to
    nearest) and the text is the rendering of `y`, for which `ftoa_error_bound` holds:
    what is guaranteed for a double is the accuracy of a float, never more. -/
theorem f64toa_error_bound (d : F64) (prec : Int) (hd : d.Fin) (hr : absQ d.val ≤ 2147483520) :
    ∃ (y : F32) (p : Nat) (ip fr : List Nat),
      y = d.toF32 ∧ y.Fin ∧ (d.val < 0 → y.val ≤ 0) ∧ (0 ≤ d.val → 0 ≤ y.val) ∧
      absQ (y.val - d.val) ≤ (absQ d.val + pow2 (-126)) / 16777216 ∧
      p = effPrec (if lt y (ofInt 0) then FloatLike.neg y else y) prec ∧ p ≤ 10 ∧
      f64toa F64.toF32 d prec = some ((if y.val < 0 then [45] else []) ++ ip ++ (if p ≠ 0 then 46 :: fr else [])) ∧
      AllDigits ip ∧ Canonical ip ∧ ip.length ≤ 10 ∧ AllDigits fr ∧ fr.length = p ∧
      (p ≠ 0 →
        absQ y.val * (10 : Rat) ^ p - 1 / 2 - (10 : Rat) ^ p * (absQ y.val + 2) / 16777216
          < ((valL (ip ++ fr) : Nat) : Rat) ∧
        ((valL (ip ++ fr) : Nat) : Rat)
          ≤ absQ y.val * (10 : Rat) ^ p + 1 / 2 + (10 : Rat) ^ p * (absQ y.val + 2) / 16777216) ∧
      (p = 0 → absQ y.val - 1 < ((valL (ip ++ fr) : Nat) : Rat) ∧ ((valL (ip ++ fr) : Nat) : Rat) ≤ absQ y.val) := by
  obtain ⟨hf, hle, hs1, hs2, herr⟩ := cast_core d hd hr
  obtain ⟨p, ip, fr, h1, h2, h3, h4⟩ := ftoa_error_bound_core d.toF32 prec hf (by grind)
  exact ⟨d.toF32, p, ip, fr, rfl, hf, hs1, hs2, herr, h1, h2, h3, h4⟩

example : (⟨0x408F40FCD6E9B9CB⟩ : F64).Fin ∧ absQ (⟨0x408F40FCD6E9B9CB⟩ : F64).val ≤ 2147483520 := by
  constructor
  · unfold F64.Fin FinEnc; decide +kernel
  · decide +kernel

/-- witness (the audit's): the double 1000.123456789 at precision 10 prints as
    1000.1234741210 — 173 320 units of the last digit away from the double (the float
    cast alone moves it by 1.7e-5), so no "one unit" statement about doubles holds -/
theorem f64toa_cast_witness :
    f64toa F64.toF32 (⟨0x408F40FCD6E9B9CB⟩ : F64) 10 =
      some [49, 48, 48, 48, 46, 49, 50, 51, 52, 55, 52, 49, 50, 49, 48] ∧
    10001234741210 - (⟨0x408F40FCD6E9B9CB⟩ : F64).val * (10 : Rat) ^ 10 > 173319 := by
  constructor <;> decide +kernel


/-! ## H. the parser over binary64 arithmetic — error bound in units of u = 2^-53

  `atofCost 53 L` (LemAtof.lean) is the rounding budget `k(L)` of a literal in HALF
  units of `u`: each digit step `val = val * 10.0 + d` is exact (0) while the
  accumulated integer stays below 2^53 and nothing was rounded before, otherwise two
  roundings (4); then `d = exponent - #fraction digits` scaling steps: `val *= 10.0`
  costs one rounding (2) unless still exact, `val *= 0.1` costs 3 (one rounding plus
  the error `u/2` of the constant 0.1).  `u * |value| ≤ ulp(value)`, so `k/2` is a
  bound in ulps. -/

/-- ERROR BOUND of `igris_atof64` (= igris_strtod / strtod / atof) as the code is, over
    binary64 arithmetic: for EVERY literal of the grammar followed by any tail that does
    not continue it, provided the digit string read as an integer and the value stay
    below 2^1022 (no intermediate overflow — see the witness) and the value is zero or at
    least 2^-1021 (no gradual underflow), the result is finite, the reported end is
    the end of the literal, and
        |result - value| ≤ 1.01 * (k/2) * 2^-53 * |value|,   k = atofCost 53 L. -/
theorem atof64_error_bound_partial (L : Literal) (rest : List Nat) (hwf : L.WF) (hst : Stops L rest)
    (hD : 2 * ((valL (L.ip ++ L.fracDigits) : Nat) : Rat) ≤ pow2 1023)
    (hV : 2 * absQ L.value ≤ pow2 1023)
    (hN : L.value = 0 ∨ pow2 (-1021) ≤ absQ L.value)
    (hn : (atofCost 53 L : Rat) * pow2 (-53) ≤ 1 / 100) :
    ∃ r : F64, atof64 (F := F64) (L.text ++ rest) = some (r, L.text.length) ∧ r.Fin ∧
      absQ (r.val - L.value) ≤ (101 / 200 : Rat) * (atofCost 53 L : Rat) * pow2 (-53) * absQ L.value := by
  have h2 := binary64_tiny2
  exact atof64_error_bound (F := F64) L rest hwf hst (by decide) hD hV (by rw [fmtOf_F64, h2]; exact hN) hn

/-- closed forms of the budget: k ≤ 4 * #digits + 3 * |d| for every literal; k ≤ 3 * |d|
    when the digit string is below 2^53 (all literals of at most 15 digits); k = 0 (the
    result is EXACTLY the decimal value, hence what strtod returns) when
    digits * 10^d is an integer below 2^53 -/
theorem atof64_budget (L : Literal) :
    atofCost 53 L ≤ 4 * (L.ip ++ L.fracDigits).length + 3 * (L.expValue - (L.fracDigits.length : Int)).natAbs ∧
    (valL (L.ip ++ L.fracDigits) < 2 ^ 53 →
      atofCost 53 L ≤ 3 * (L.expValue - (L.fracDigits.length : Int)).natAbs) ∧
    (0 ≤ L.expValue - (L.fracDigits.length : Int) →
      valL (L.ip ++ L.fracDigits) * 10 ^ (L.expValue - (L.fracDigits.length : Int)).toNat < 2 ^ 53 →
      atofCost 53 L = 0) :=
  ⟨atofCost_le 53 L, atofCost_le_of_exact_mantissa 53 L, atofCost_zero 53 L⟩

/-- the exact class: integers and short decimals with a non-negative net exponent
    (`digits * 10^d < 2^53`) are parsed without any error -/
theorem atof64_exact_class (L : Literal) (rest : List Nat) (hwf : L.WF) (hst : Stops L rest)
    (hd : 0 ≤ L.expValue - (L.fracDigits.length : Int))
    (h : valL (L.ip ++ L.fracDigits) * 10 ^ (L.expValue - (L.fracDigits.length : Int)).toNat < 2 ^ 53) :
    ∃ r : F64, atof64 (F := F64) (L.text ++ rest) = some (r, L.text.length) ∧ r.Fin ∧ r.val = L.value := by
  have hc := atofCost_zero 53 L hd h
  have hDn : valL (L.ip ++ L.fracDigits) < 2 ^ 53 := by
    have h1 : 1 ≤ 10 ^ (L.expValue - (L.fracDigits.length : Int)).toNat := Nat.one_le_pow _ _ (by omega)
    have := Nat.le_mul_of_pos_right (valL (L.ip ++ L.fracDigits)) h1
    omega
  have hbig : ((2 ^ 54 : Nat) : Rat) ≤ pow2 1023 := by
    rw [← pow2_nat]; exact pow2_mono (by decide)
  have hV0 := absQ_value53 L hd h
  obtain ⟨r, h1, h2, h3⟩ := atof64_error_bound_partial L rest hwf hst
    (by
      have : ((valL (L.ip ++ L.fracDigits) : Nat) : Rat) < ((2 ^ 53 : Nat) : Rat) := Rat.natCast_lt_natCast.mpr hDn
      have e : ((2 ^ 54 : Nat) : Rat) = 2 * ((2 ^ 53 : Nat) : Rat) := by rw [← Rat.natCast_ofNat, ← Rat.natCast_mul]
      grind)
    (by
      obtain ⟨N, hN, hNlt⟩ := hV0
      have : ((N : Nat) : Rat) < ((2 ^ 53 : Nat) : Rat) := Rat.natCast_lt_natCast.mpr hNlt
      have e : ((2 ^ 54 : Nat) : Rat) = 2 * ((2 ^ 53 : Nat) : Rat) := by rw [← Rat.natCast_ofNat, ← Rat.natCast_mul]
      grind)
    (by
      obtain ⟨N, hN, _⟩ := hV0
      by_cases hz : N = 0
      · left; have : absQ L.value = 0 := by rw [hN, hz]; rfl
        unfold absQ at this; split at this <;> grind
      · right
        have h1 : pow2 (-1021) ≤ pow2 0 := pow2_mono (by decide)
        have : (1 : Rat) ≤ (N : Rat) := by
          have : ((1 : Nat) : Rat) ≤ (N : Rat) := Rat.natCast_le_natCast.mpr (by omega)
          simpa using this
        simp at h1; grind)
    (by rw [hc]; simp; grind)
  refine ⟨r, h1, h2, ?_⟩
  rw [hc] at h3
  simp at h3
  unfold absQ at h3; split at h3 <;> grind


/-- the hypotheses of `atof64_error_bound_partial` are satisfiable: "1e-300" followed by NUL
    (budget 900 half units: the bound is 454.5 u |value|) -/
example :
    let L : Literal := ⟨none, [49], none, some (101, some true, [51, 48, 48])⟩
    2 * ((valL (L.ip ++ L.fracDigits) : Nat) : Rat) ≤ pow2 1023 ∧ 2 * absQ L.value ≤ pow2 1023 ∧
    pow2 (-1021) ≤ absQ L.value ∧ atofCost 53 L = 900 ∧ (atofCost 53 L : Rat) * pow2 (-53) ≤ 1 / 100 := by
  decide +kernel

/-- "within a few ulps of strtod" is false for large exponents — witness "1e-300": the
    routine returns the encoding 0x01a56e1fc2f8f3be, the correctly rounded value (what
    strtod returns) is 0x01a56e1fc2f8f359: 101 units in the last place apart, which is
    more than 50 u |value| (the theorem's bound for this literal is 454.5 u |value|) -/
theorem atof64_ulp_witness :
    atof64 (F := F64) [49, 101, 45, 51, 48, 48, 0] = some (⟨118622047889322942⟩, 6) ∧
    sfLit b64 1 300 = 118622047889322841 ∧
    (⟨118622047889322942⟩ : F64).val - 1 / (10 : Rat) ^ 300 > 50 * pow2 (-53) * (1 / (10 : Rat) ^ 300) := by
  refine ⟨?_, ?_, ?_⟩ <;> decide +kernel

set_option maxRecDepth 100000 in
/-- the hypothesis `hD` cannot be dropped — witness: "1" followed by 310 zeros and
    "e-310" denotes 1, but the digit string overflows binary64 before the scaling loop
    runs, and the routine returns +inf (0x7ff0000000000000); end offset 316 is right -/
theorem atof64_mantissa_overflow_witness :
    atof64 (F := F64) (49 :: List.replicate 310 48 ++ [101, 45, 51, 49, 48, 0]) =
      some (⟨0x7ff0000000000000⟩, 316) ∧
    (⟨none, 49 :: List.replicate 310 48, none, some (101, some true, [51, 49, 48])⟩ : Literal).value = 1 := by
  constructor <;> decide +kernel

/-! ## I. round 3 — every entry point; "no digits -> no conversion"; the counters at their C width

  Since the `fix:` of round 3 `igris_atof64` / `igris_atof32` begin with `has_mantissa_digit`: a text
  without a digit in its integer part and in its fraction ("", "-", "+", ".", "-.", ".e5", "abc") converts
  NOTHING — the end is the start, the value 0 — as strtod specifies; `atof64` / `atof32` of the sections
  above are the rest of the two functions (all their theorems stand).  `L.hasDigit` (Spec level) = the
  literal has a digit in `ip` or in its fraction.  The grammar clause for EVERY entry point:
  `end` = end of the literal, value = value of the literal when the literal has a digit; (0, start)
  otherwise.  ("End of the literal" is the end of the LONGEST prefix of the text that matches the grammar:
  that is what `Stops L rest` — the tail does not continue the literal — says.) -/

/-- igris_atof64, exact arithmetic, EVERY literal of the grammar and every tail that does not continue it -/
theorem igris_atof64_grammar (L : Literal) (rest : List Nat) (hwf : L.WF) (hst : Stops L rest) :
    igrisAtof64 (F := Rat) (L.text ++ rest) =
      some (if L.hasDigit then (L.value, L.text.length) else (0, 0)) := by
  unfold igrisAtof64
  rw [hasMantissaDigit_literal L rest hwf hst]
  cases h : L.hasDigit
  · simp only [Bool.false_eq_true, if_false]; rfl
  · simp only [if_true]; exact atof64_Q L rest hwf hst

/-- both branches are inhabited: "-12.5e-3x" has digits, "-.e5" has none -/
example : (⟨some true, [49, 50], some [53], some (101, some true, [51])⟩ : Literal).hasDigit = true ∧
    (⟨some true, [], some [], none⟩ : Literal).hasDigit = false := by decide

/-- "no digits -> no conversion", for EVERY arithmetic instance (in particular the software binary64 /
    binary32 the driver runs): value `0.0`, end = start -/
theorem igris_atof64_no_digits {F : Type} [FloatLike F] (L : Literal) (rest : List Nat) (hwf : L.WF)
    (hst : Stops L rest) (hd : L.hasDigit = false) :
    igrisAtof64 (F := F) (L.text ++ rest) = some (ofInt 0, 0) := by
  unfold igrisAtof64
  rw [hasMantissaDigit_literal L rest hwf hst, hd]

/-- the reported end of igris_atof64 for EVERY arithmetic instance -/
theorem igris_atof64_end_any_arithmetic {F : Type} [FloatLike F] (L : Literal) (rest : List Nat)
    (hwf : L.WF) (hst : Stops L rest) :
    (igrisAtof64 (F := F) (L.text ++ rest)).map (fun x => x.2) =
      some (if L.hasDigit then L.text.length else 0) := by
  unfold igrisAtof64
  rw [hasMantissaDigit_literal L rest hwf hst]
  cases h : L.hasDigit
  · simp
  · simp only [if_true]; exact atof64_end_any_arithmetic L rest hwf hst

/-- igris_atof32 (integer part < 2^32, at most 18 fraction digits: the recorded class) -/
theorem igris_atof32_grammar_partial (L : Literal) (rest : List Nat) (hwf : L.WF) (hst : Stops L rest)
    (hip32 : valL L.ip < 2 ^ 32) (hfp18 : L.fracDigits.length ≤ 18) :
    igrisAtof32 (F := Rat) (D := Rat) id (L.text ++ rest) =
      some (if L.hasDigit then (L.value, L.text.length) else (0, 0)) := by
  unfold igrisAtof32
  rw [hasMantissaDigit_literal L rest hwf hst]
  cases h : L.hasDigit
  · simp only [Bool.false_eq_true, if_false]; rfl
  · simp only [if_true]; exact atof32_Q L rest hwf hst hip32 hfp18

theorem igris_atof32_no_digits {F D : Type} [FloatLike F] [FloatLike D] (cvt : D → F) (L : Literal)
    (rest : List Nat) (hwf : L.WF) (hst : Stops L rest) (hd : L.hasDigit = false) :
    igrisAtof32 (D := D) cvt (L.text ++ rest) = some (ofInt 0, 0) := by
  unfold igrisAtof32
  rw [hasMantissaDigit_literal L rest hwf hst, hd]

theorem igris_atof32_end_any_arithmetic_partial {F D : Type} [FloatLike F] [FloatLike D] (cvt : D → F)
    (L : Literal) (rest : List Nat) (hwf : L.WF) (hst : Stops L rest)
    (hip32 : valL L.ip < 2 ^ 32) (hfp18 : L.fracDigits.length ≤ 18) :
    (igrisAtof32 (D := D) cvt (L.text ++ rest)).map (fun x => x.2) =
      some (if L.hasDigit then L.text.length else 0) := by
  unfold igrisAtof32
  rw [hasMantissaDigit_literal L rest hwf hst]
  cases h : L.hasDigit
  · simp
  · simp only [if_true]; exact atof32_end_any_arithmetic_partial cvt L rest hwf hst hip32 hfp18

/-- igris_strtod (default build) -/
theorem igris_strtod_grammar (L : Literal) (rest : List Nat) (hwf : L.WF) (hst : Stops L rest) :
    igrisStrtod (F := Rat) (L.text ++ rest) =
      some (if L.hasDigit then (L.value, L.text.length) else (0, 0)) :=
  igris_atof64_grammar L rest hwf hst

/-- compat/libc `strtod` (default build) -/
theorem compat_strtod_grammar (L : Literal) (rest : List Nat) (hwf : L.WF) (hst : Stops L rest) :
    compatStrtod (F := Rat) (L.text ++ rest) =
      some (if L.hasDigit then (L.value, L.text.length) else (0, 0)) :=
  igris_atof64_grammar L rest hwf hst

/-- compat/libc `atof` (default build): the value, no end pointer -/
theorem compat_atof_value (L : Literal) (rest : List Nat) (hwf : L.WF) (hst : Stops L rest) :
    compatAtof (F := Rat) (L.text ++ rest) = some (if L.hasDigit then L.value else 0) := by
  unfold compatAtof
  rw [igris_atof64_grammar L rest hwf hst]
  cases L.hasDigit <;> rfl

/-- binreader::read_ascii_decimal_float: value and new read position -/
theorem binreader_float_grammar_partial (L : Literal) (rest : List Nat) (hwf : L.WF) (hst : Stops L rest)
    (hip32 : valL L.ip < 2 ^ 32) (hfp18 : L.fracDigits.length ≤ 18) :
    binreaderFloat (F := Rat) (D := Rat) id (L.text ++ rest) =
      some (if L.hasDigit then (L.value, L.text.length) else (0, 0)) :=
  igris_atof32_grammar_partial L rest hwf hst hip32 hfp18

/-- igris_strtod and compat strtod / atof of the WITHOUT_ATOF64 build (they call igris_atof32; the float is
    widened on return: exactly, `id` over exact arithmetic) -/
theorem strtod32_flavour_grammar_partial (L : Literal) (rest : List Nat) (hwf : L.WF) (hst : Stops L rest)
    (hip32 : valL L.ip < 2 ^ 32) (hfp18 : L.fracDigits.length ≤ 18) :
    igrisStrtod32 (F := Rat) (D := Rat) id id (L.text ++ rest) =
        some (if L.hasDigit then (L.value, L.text.length) else (0, 0)) ∧
    compatStrtod32 (F := Rat) (D := Rat) id id (L.text ++ rest) =
        some (if L.hasDigit then (L.value, L.text.length) else (0, 0)) ∧
    compatAtof32 (F := Rat) (D := Rat) id id (L.text ++ rest) = some (if L.hasDigit then L.value else 0) := by
  unfold igrisStrtod32 compatStrtod32 compatAtof32
  rw [igris_atof32_grammar_partial L rest hwf hst hip32 hfp18]
  cases L.hasDigit <;> exact ⟨rfl, rfl, rfl⟩

/-- the end offsets of ALL entry points for EVERY arithmetic instance, every cast and every widening -/
theorem entry_points_end_any_arithmetic {F D : Type} [FloatLike F] [FloatLike D] (cvt : D → F) (widen : F → D)
    (L : Literal) (rest : List Nat) (hwf : L.WF) (hst : Stops L rest) :
    (igrisStrtod (F := D) (L.text ++ rest)).map (fun x => x.2) = some (if L.hasDigit then L.text.length else 0) ∧
    (compatStrtod (F := D) (L.text ++ rest)).map (fun x => x.2) = some (if L.hasDigit then L.text.length else 0) ∧
    (valL L.ip < 2 ^ 32 → L.fracDigits.length ≤ 18 →
      (binreaderFloat (D := D) cvt (L.text ++ rest)).map (fun x => x.2) = some (if L.hasDigit then L.text.length else 0) ∧
      (igrisStrtod32 cvt widen (L.text ++ rest)).map (fun x => x.2) = some (if L.hasDigit then L.text.length else 0) ∧
      (compatStrtod32 cvt widen (L.text ++ rest)).map (fun x => x.2) = some (if L.hasDigit then L.text.length else 0)) := by
  refine ⟨igris_atof64_end_any_arithmetic L rest hwf hst, igris_atof64_end_any_arithmetic L rest hwf hst, ?_⟩
  intro h1 h2
  have h := igris_atof32_end_any_arithmetic_partial cvt L rest hwf hst h1 h2
  refine ⟨h, ?_, ?_⟩
  · unfold igrisStrtod32
    rw [Option.map_map]
    exact h
  · unfold compatStrtod32
    rw [Option.map_map]
    exact h

/-- what the code does (software binary64, the arithmetic the driver runs) for the texts the property's
    grammar admits although they are not numbers, and for a point / an exponent letter without digits:
    "-", ".", ".e5" convert nothing; "5." is 5 with end 2; "5.e" and "5.e+" are 5 with end 2 (the `e` is left) -/
theorem no_digits_examples :
    igrisAtof64 (F := F64) [45, 0] = some (⟨0⟩, 0) ∧
    igrisAtof64 (F := F64) [46, 0] = some (⟨0⟩, 0) ∧
    igrisAtof64 (F := F64) [46, 101, 53, 0] = some (⟨0⟩, 0) ∧
    igrisAtof64 (F := F64) [53, 46, 0] = some (⟨0x4014000000000000⟩, 2) ∧
    igrisAtof64 (F := F64) [53, 46, 101, 0] = some (⟨0x4014000000000000⟩, 2) ∧
    igrisAtof64 (F := F64) [53, 46, 101, 43, 0] = some (⟨0x4014000000000000⟩, 2) ∧
    igrisAtof32 (D := F64) F64.toF32 [45, 46, 0] = some ((⟨0⟩ : F32), 0) ∧
    igrisAtof32 (D := F64) F64.toF32 [53, 46, 0] = some ((⟨0x40a00000⟩ : F32), 2) ∧
    igrisStrtod32 F64.toF32 F32.toF64 [53, 46, 101, 0] = some ((⟨0x4014000000000000⟩ : F64), 2) := by
  decide +kernel

/-- the seeded change "no conversion when the LAST CONSUMED character is not a digit" is wrong for "5.":
    the literal has a digit, so by `igris_strtod_grammar` the end is 2 and the value 5 -/
example : (⟨none, [53], some [], none⟩ : Literal).hasDigit = true ∧
    (⟨none, [53], some [], none⟩ : Literal).text = [53, 46] ∧
    (⟨none, [53], some [], none⟩ : Literal).value = 5 := by decide +kernel

/-- `int e_val`: thanks to the saturation guard `e_val < 100000` the 32-bit accumulator never wraps — the
    loop over a wrapping C `int` computes exactly what the model's loop over naturals computes, and the
    result is at most 999999 -/
theorem exponent_counter_fits_int (p : List Nat) :
    expDigitsC p 0 = (expDigits p 0).map (fun x => ((x.1 : Int), x.2)) ∧
    ∀ e r, expDigits p 0 = some (e, r) → e ≤ 999999 :=
  ⟨expDigitsC_eq p 0 (by omega), fun e r h => expDigits_le p 0 (by omega) e r h⟩

/-- `int d` (fraction digits counted down, exponent added): no wrap for fewer than 2^31 - 10^6 fraction digits -/
theorem delta_counter_fits_int (nfrac : Nat) (eneg : Bool) (ev : Nat) (he : ev ≤ 999999)
    (hn : nfrac ≤ 2146483648) :
    deltaC nfrac eneg (ev : Int) = (if eneg then -(ev : Int) else ev) - nfrac :=
  deltaC_eq nfrac eneg ev he hn

example : deltaC 307201 true 999999 = -1307200 := by decide

/-! ## J. round 3 — the automatic-precision table and the one-unit region -/

/-- the table of `precision < 0`, stated on the VALUE of the (finite, non-negative or not) binary32 argument and
    independently of the model's helper: 6 digits below 1, 5 below 10, 4 below 100, 3 below 1000, 2 below 10000,
    1 below 100000, none from there on (the comparisons `f < 10.0` ... are exact: the thresholds are representable
    and the software comparison is the comparison of the values, `sfLt_val`) -/
theorem auto_precision_table (y : F32) (hy : y.Fin) :
    (y.val < 1 ∧ autoPrec y = 6) ∨ (1 ≤ y.val ∧ y.val < 10 ∧ autoPrec y = 5) ∨
    (10 ≤ y.val ∧ y.val < 100 ∧ autoPrec y = 4) ∨ (100 ≤ y.val ∧ y.val < 1000 ∧ autoPrec y = 3) ∨
    (1000 ≤ y.val ∧ y.val < 10000 ∧ autoPrec y = 2) ∨ (10000 ≤ y.val ∧ y.val < 100000 ∧ autoPrec y = 1) ∨
    (100000 ≤ y.val ∧ autoPrec y = 0) :=
  autoPrec32_spec y hy

/-- AUTOMATIC PRECISION is always inside the one-unit region: for EVERY finite binary32 `x` with `|x| < 2^31`
    and every negative `precision` igris_f32toa prints `p` = table value fraction digits and the printed number
    is within ONE unit of the last printed digit of `|x|` (the hypothesis `10^p (|x|+2) <= 2^23` of
    `ftoa_within_one_unit_partial` is discharged by the table; for p = 0 the integer part is the exact truncation) -/
theorem ftoa_auto_precision_within_one_unit (x : F32) (prec : Int) (hauto : prec < 0) (hx : x.Fin)
    (hr : absQ x.val < 2147483648) :
    ∃ (p : Nat) (ip fr : List Nat),
      p = autoPrec (if lt x (ofInt 0) then FloatLike.neg x else x) ∧
      f32toa x prec = some ((if x.val < 0 then [45] else []) ++ ip ++ (if p ≠ 0 then 46 :: fr else [])) ∧
      fr.length = p ∧
      absQ x.val * (10 : Rat) ^ p - 1 < ((valL (ip ++ fr) : Nat) : Rat) ∧
      ((valL (ip ++ fr) : Nat) : Rat) ≤ absQ x.val * (10 : Rat) ^ p + 1 :=
  ftoa_auto_core x prec hauto hx hr

/-- the hypotheses are satisfiable: 0x42c80001 (100.0000076...) with precision -1 -/
example : ((-1 : Int) < 0) ∧ (⟨0x42c80001⟩ : F32).Fin ∧ absQ (⟨0x42c80001⟩ : F32).val < 2147483648 := by
  refine ⟨by decide, ?_, by decide +kernel⟩
  unfold F32.Fin FinEnc; decide +kernel

/-! ## K. round 3 — totality of the double parsers on NUL-terminated texts; the twin of igris_ftoa -/

/-- TOTALITY (next to the grammar theorems, which are about texts of the form literal ++ tail): for EVERY
    arithmetic instance and EVERY text that contains a NUL — whether or not it starts with a literal —
    igris_atof64 is defined (the model's `none`, a read behind the allocation, does not occur: nothing behind the
    NUL is read) and the reported end is the length of a NUL-free prefix of the text, i.e. the end pointer lies
    inside the text, at or before the first NUL -/
theorem igris_atof64_total {F : Type} [FloatLike F] (s : List Nat) (h : 0 ∈ s) :
    ∃ (v : F) (pre r : List Nat), s = pre ++ r ∧ 0 ∉ pre ∧ 0 ∈ r ∧ igrisAtof64 s = some (v, pre.length) :=
  igrisAtof64_total s h

example : (0 : Nat) ∈ [45, 46, 120, 0, 7] := by decide

/-- the same for igris_strtod, compat strtod and compat atof (default build) -/
theorem double_entry_points_total {F : Type} [FloatLike F] (s : List Nat) (h : 0 ∈ s) :
    (∃ (v : F) (pre r : List Nat), s = pre ++ r ∧ 0 ∉ pre ∧ 0 ∈ r ∧ igrisStrtod s = some (v, pre.length)) ∧
    (∃ (v : F) (pre r : List Nat), s = pre ++ r ∧ 0 ∉ pre ∧ 0 ∈ r ∧ compatStrtod s = some (v, pre.length)) ∧
    (∃ v : F, compatAtof s = some v) := by
  refine ⟨igrisAtof64_total s h, igrisAtof64_total s h, ?_⟩
  obtain ⟨v, pre, r, _, _, _, e⟩ := igrisAtof64_total (F := F) s h
  exact ⟨v, by unfold compatAtof; rw [e]; rfl⟩

/-- igris_ftoa of the WITHOUT_ATOF64 build (argument type float32_t: a double is converted at the call) is the
    same function of a double argument as igris_f64toa / igris_ftoa of the default build: `f64toa_error_bound`
    and the renderer theorems apply to it verbatim -/
theorem igris_ftoa32_is_f64toa {F D : Type} [FloatLike F] (cvt : D → F) (d : D) (p : Int) :
    igrisFtoa32 cvt d p = f64toa cvt d p := rfl

/-! ## L. round 3b — "the end of the literal" is a function of the text

  The grammar theorems speak about texts of the form `L.text ++ rest` with `Stops L rest` (the tail does not continue
  the literal): that is how "the longest prefix of the text that matches the grammar" is expressed.  This section
  states separately that such a decomposition is UNIQUE, so "the end of the literal" - the offset every entry point
  reports - does not depend on how the text is read as literal + tail. -/

/-- Two readings of ONE text as a well-formed literal followed by a tail that does not continue it are the same
    reading: the same characters belong to the literal (in particular the same END), the same tail follows, and
    the same decimal value is denoted.  (Proof: the exact-arithmetic parser is a function of the text and returns
    value and end of either reading - `atof64_grammar`.)  Hence no well-formed literal that is a prefix of the text
    and whose own tail stops can be longer or shorter than the reported end. -/
theorem literal_end_unique (L L' : Literal) (rest rest' : List Nat) (hwf : L.WF) (hst : Stops L rest)
    (hwf' : L'.WF) (hst' : Stops L' rest') (h : L.text ++ rest = L'.text ++ rest') :
    L.text = L'.text ∧ rest = rest' ∧ L.value = L'.value := by
  have h1 := atof64_grammar L rest hwf hst
  have h2 := atof64_grammar L' rest' hwf' hst'
  rw [h, h2] at h1
  have hp := Prod.mk.inj (Option.some.inj h1)
  have hl : L.text.length = L'.text.length := hp.2.symm
  have ha := List.append_inj h hl
  exact ⟨ha.1, ha.2, hp.1.symm⟩

/-- the hypotheses are satisfiable: "1" followed by "x\0" -/
example : (⟨none, [49], none, none⟩ : Literal).WF ∧ Stops ⟨none, [49], none, none⟩ [120, 0] := by
  refine ⟨⟨?_, ?_, ?_⟩, by decide, ?_, ?_, ?_, ?_⟩
  · intro c hc
    have : c = 49 := by simpa using hc
    subst this; decide
  · intro fp h; cases h
  · intro ch s ds h; cases h
  · show ¬ (48 ≤ 120 ∧ 120 ≤ 57); decide
  · intro _; decide
  · intro _ _; decide
  · intro _ h; cases h

/-- and a reading whose tail CONTINUES the literal is excluded by `Stops`: "1" followed by "5x\0" -/
example : ¬ Stops ⟨none, [49], none, none⟩ [53, 120, 0] := by
  intro h
  have h2 : ¬ (48 ≤ 53 ∧ 53 ≤ 57) := h.2.1
  exact h2 (by decide)

end Igris.C12
