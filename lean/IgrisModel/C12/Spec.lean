/-
  C12 — specification vocabulary: decimal value of digit strings, the literal
  grammar `[+-] d* [ . d* ] [ (e|E) [+-] d+ ]`.  Independent of the model.
-/
namespace Igris.C12.Spec

/-- positional value of a string of ASCII digits (Horner) -/
def valL (ds : List Nat) : Nat := ds.foldl (fun a c => a * 10 + (c - 48)) 0

/-- every element is one of the characters '0'..'9' -/
def AllDigits (ds : List Nat) : Prop := ∀ c ∈ ds, 48 ≤ c ∧ c ≤ 57

/-- canonical integer part: non-empty, no leading zero except for "0" itself -/
def Canonical (ds : List Nat) : Prop := ds ≠ [] ∧ (ds.head? = some 48 → ds = [48])

def absQ (x : Rat) : Rat := if x < 0 then -x else x

/-- half a unit of the last place for `p > 0` fraction digits, nothing for `p = 0` -/
def rnd (p : Nat) : Rat := if p ≠ 0 then 1 / (2 * (10 : Rat) ^ p) else 0

/-! ### literals -/

structure Literal where
  /-- `some true` = '-', `some false` = '+' -/
  sign : Option Bool
  ip : List Nat
  /-- the digits after a '.', if there is one -/
  frac : Option (List Nat)
  /-- exponent: the letter (e or E), its sign, its digits -/
  exp : Option (Nat × Option Bool × List Nat)

namespace Literal

def signText : Option Bool → List Nat
  | none => []
  | some true => [45]
  | some false => [43]

def fracText : Option (List Nat) → List Nat
  | none => []
  | some fp => 46 :: fp

def expText : Option (Nat × Option Bool × List Nat) → List Nat
  | none => []
  | some (ch, s, ds) => ch :: (signText s ++ ds)

def text (L : Literal) : List Nat := signText L.sign ++ L.ip ++ fracText L.frac ++ expText L.exp

def WF (L : Literal) : Prop :=
  AllDigits L.ip ∧ (∀ fp, L.frac = some fp → AllDigits fp) ∧
  (∀ ch s ds, L.exp = some (ch, s, ds) → (ch = 69 ∨ ch = 101) ∧ AllDigits ds ∧ ds ≠ [] ∧ valL ds < 1000000)

def fracDigits (L : Literal) : List Nat := L.frac.getD []

/-- the decimal exponent written in the literal -/
def expValue (L : Literal) : Int :=
  match L.exp with
  | none => 0
  | some (_, s, ds) => if s = some true then -(valL ds : Int) else valL ds

def isNeg (L : Literal) : Bool := L.sign = some true

/-- `x * 10^e` for an integer `e` -/
def scale10 (x : Rat) (e : Int) : Rat := if 0 ≤ e then x * (10 : Rat) ^ e.toNat else x / (10 : Rat) ^ (-e).toNat

/-- the number the literal denotes: digits / 10^(number of fraction digits) * 10^exponent -/
def value (L : Literal) : Rat :=
  let m : Rat := ((valL (L.ip ++ L.fracDigits) : Nat) : Rat) / (10 : Rat) ^ L.fracDigits.length
  let v := scale10 m L.expValue
  if L.isNeg then -v else v

end Literal

/-- the bytes after a literal start with `(e|E) [+-] digit` -/
def expStart (rest : List Nat) : Bool :=
  match rest with
  | c :: d :: tl =>
    (c == 69 || c == 101) &&
      ((48 ≤ d && d ≤ 57) ||
       ((d == 43 || d == 45) && (match tl with | x :: _ => 48 ≤ x && x ≤ 57 | [] => false)))
  | _ => false

/-- `rest` (the bytes behind the literal, up to the end of the allocation) does
    not continue the literal and contains the terminating NUL -/
def Stops (L : Literal) (rest : List Nat) : Prop :=
  0 ∈ rest ∧
  (match rest.head? with | some c => ¬ (48 ≤ c ∧ c ≤ 57) | none => True) ∧
  (L.exp = none → expStart rest = false) ∧
  (L.exp = none → L.frac = none → rest.head? ≠ some 46) ∧
  (L.sign = none → L.ip = [] → L.frac = none → L.exp = none →
    rest.head? ≠ some 43 ∧ rest.head? ≠ some 45)

end Igris.C12.Spec
