namespace Igris.C12
end Igris.C12
