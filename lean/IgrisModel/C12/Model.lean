/-
  C12 — float <-> text.  Executable model of

    igris/util/numconvert.c      igris_f32toa, igris_f64toa, igris_ftoa,
                                 igris_atof32, igris_atof64, igris_strtod
    compat/libc/stdlib/strtod.c  strtod, atof (both call igris_atof64)
    igris/binreader.h            read_ascii_decimal_float (calls igris_atof32)
    igris/dprint/dprint_func_impl.c  debug_printdec_double_prec / _float_prec

  (the code AFTER the `fix:` commits of branch fix-C12), written once over an
  abstract arithmetic interface `FloatLike` and instantiated twice:

    * `Rat`  — exact arithmetic: every operation is the mathematical one.  The
      theorems of Props.lean about accuracy are about this instance.
    * `F32` / `F64` (section "software IEEE-754") — bit-exact binary32/binary64:
      decode sign/exponent/significand, exact dyadic operation on integers,
      round to nearest even, re-encode.  The driver runs this instance; the
      harness compares it with the hardware operation by operation (`sf` ops)
      and with the compiled routines result by result.

  Text is a list of byte values (`Nat` < 256).  Strings that are read are the
  bytes of the allocation that holds them: reading past the end is `none`.
  Undefined behaviour of the C code (a float -> integer cast out of range,
  signed overflow in `local_pow`) is `none` as well.

  Core Lean only.
-/
namespace Igris.C12

/-! ## the arithmetic interface -/

class FloatLike (F : Type) where
  isNaN : F → Bool
  isInf : F → Bool
  /-- `a < b` of C (false when unordered) -/
  lt : F → F → Bool
  neg : F → F
  add : F → F → F
  sub : F → F → F
  mul : F → F → F
  div : F → F → F
  /-- `(F)n` for an integer `n` (rounded when it does not fit the significand) -/
  ofInt : Int → F
  /-- the value with the fraction discarded (what a C cast to an integer type
      yields when the result fits); `none` for NaN and infinities -/
  trunc : F → Option Int
  /-- the statement `f *= 10.0` for a `float32_t f`: the product is formed in
      `double` and stored back -/
  mul10 : F → F
  /-- `(float32_t)rounders[p]`, `rounders[p]` being the `double` literal `0.5e-p` -/
  rounder : Nat → F
  /-- a decimal literal `m / 10^k` of the source text (`0.1`, `0.5`) -/
  lit : Nat → Nat → F

open FloatLike

/-! ### instance 1: exact rationals -/

def truncQ (q : Rat) : Int := if 0 ≤ q then q.floor else -((-q).floor)

instance : FloatLike Rat where
  isNaN _ := false
  isInf _ := false
  lt a b := decide (a < b)
  neg a := -a
  add a b := a + b
  sub a b := a - b
  mul a b := a * b
  div a b := a / b
  ofInt n := (n : Rat)
  trunc q := some (truncQ q)
  mul10 a := a * 10
  rounder p := 1 / (2 * (10 : Rat) ^ p)
  lit m k := (m : Rat) / (10 : Rat) ^ k

/-! ### instance 2: software IEEE-754 binary32 / binary64 -/

structure Fmt where
  ebits : Nat
  mbits : Nat
deriving DecidableEq

def b32 : Fmt := ⟨8, 23⟩
def b64 : Fmt := ⟨11, 52⟩

namespace Fmt
def bias (f : Fmt) : Nat := 2 ^ (f.ebits - 1) - 1
def expMax (f : Fmt) : Nat := 2 ^ f.ebits - 1
def signBit (f : Fmt) : Nat := 2 ^ (f.ebits + f.mbits)
def infBits (f : Fmt) : Nat := f.expMax * 2 ^ f.mbits
def nanBits (f : Fmt) : Nat := f.infBits + 2 ^ (f.mbits - 1)
end Fmt

/-- decoded operand: value `(-1)^neg * m * 2^e` -/
inductive Dec where
  | nan
  | inf (neg : Bool)
  | fin (neg : Bool) (m : Nat) (e : Int)

def decode (f : Fmt) (b : Nat) : Dec :=
  let neg := b / f.signBit % 2 == 1
  let ex := b / 2 ^ f.mbits % 2 ^ f.ebits
  let mant := b % 2 ^ f.mbits
  if ex == f.expMax then (if mant == 0 then .inf neg else .nan)
  else if ex == 0 then .fin neg mant (1 - (f.bias : Int) - f.mbits)
  else .fin neg (mant + 2 ^ f.mbits) ((ex : Int) - f.bias - f.mbits)

def withSign (f : Fmt) (neg : Bool) (b : Nat) : Nat := if neg then b + f.signBit else b

/-- encoding of `m * 2^e` (plus, when `sticky`, a positive amount below one unit
    of `2^e`; callers then supply at least `mbits + 3` significant bits)
    rounded to nearest, ties to even -/
def roundPack (f : Fmt) (neg : Bool) (m : Nat) (e : Int) (sticky : Bool := false) : Nat :=
  if m == 0 then withSign f neg 0 else
  -- value in [2^E, 2^(E+1))
  let E : Int := e + Nat.log2 m
  -- biased exponent field minus one of the result's binade (0 for subnormals)
  let base : Int := max (E + f.bias - 1) 0
  -- weight of the last place: 2^q
  let q : Int := base + 1 - f.bias - f.mbits
  let M : Nat :=
    if q ≤ e then m <<< (e - q).toNat
    else
      let sh := (q - e).toNat
      let M0 := m >>> sh
      let rem := m % 2 ^ sh
      let half := 2 ^ (sh - 1)
      if rem > half || (rem == half && (sticky || M0 % 2 == 1)) then M0 + 1 else M0
  let bits := base.toNat * 2 ^ f.mbits + M
  withSign f neg (if bits ≥ f.infBits then f.infBits else bits)

def sfNeg (f : Fmt) (a : Nat) : Nat := if a ≥ f.signBit then a - f.signBit else a + f.signBit

def sfAdd (f : Fmt) (a b : Nat) : Nat :=
  match decode f a, decode f b with
  | .nan, _ => f.nanBits
  | _, .nan => f.nanBits
  | .inf s, .inf t => if s == t then a else f.nanBits
  | .inf _, _ => a
  | _, .inf _ => b
  | .fin s m e, .fin t n k =>
    let lo := min e k
    let x : Int := (m <<< (e - lo).toNat : Nat)
    let y : Int := (n <<< (k - lo).toNat : Nat)
    let sum : Int := (if s then -x else x) + (if t then -y else y)
    if sum == 0 then withSign f (s && t) 0
    else roundPack f (sum < 0) sum.natAbs lo

def sfSub (f : Fmt) (a b : Nat) : Nat :=
  match decode f b with
  | .nan => f.nanBits
  | _ => sfAdd f a (sfNeg f b)

def sfMul (f : Fmt) (a b : Nat) : Nat :=
  match decode f a, decode f b with
  | .nan, _ => f.nanBits
  | _, .nan => f.nanBits
  | .inf s, .inf t => withSign f (s != t) f.infBits
  | .inf s, .fin t n _ => if n == 0 then f.nanBits else withSign f (s != t) f.infBits
  | .fin s m _, .inf t => if m == 0 then f.nanBits else withSign f (s != t) f.infBits
  | .fin s m e, .fin t n k => roundPack f (s != t) (m * n) (e + k)

/-- `m / n * 2^e` (n ≠ 0): quotient with `mbits + 3` extra bits and a sticky bit -/
def roundQuot (f : Fmt) (neg : Bool) (m n : Nat) (e : Int) : Nat :=
  let k := Nat.log2 n + 1 + f.mbits + 3
  let q := (m <<< k) / n
  let r := (m <<< k) % n
  roundPack f neg q (e - k) (r != 0)

def sfDiv (f : Fmt) (a b : Nat) : Nat :=
  match decode f a, decode f b with
  | .nan, _ => f.nanBits
  | _, .nan => f.nanBits
  | .inf _, .inf _ => f.nanBits
  | .inf s, .fin t _ _ => withSign f (s != t) f.infBits
  | .fin s _ _, .inf t => withSign f (s != t) 0
  | .fin s m e, .fin t n k =>
    if n == 0 then (if m == 0 then f.nanBits else withSign f (s != t) f.infBits)
    else roundQuot f (s != t) m n (e - k)

def sfLt (f : Fmt) (a b : Nat) : Bool :=
  match decode f a, decode f b with
  | .nan, _ => false
  | _, .nan => false
  | .inf s, .inf t => s && !t
  | .inf s, _ => s
  | _, .inf t => !t
  | .fin s m e, .fin t n k =>
    let lo := min e k
    let x : Int := (m <<< (e - lo).toNat : Nat)
    let y : Int := (n <<< (k - lo).toNat : Nat)
    decide ((if s then -x else x) < (if t then -y else y))

def sfOfInt (f : Fmt) (n : Int) : Nat := roundPack f (n < 0) n.natAbs 0

def sfTrunc (f : Fmt) (a : Nat) : Option Int :=
  match decode f a with
  | .fin s m e =>
    let t : Nat := if 0 ≤ e then m <<< e.toNat else m >>> (-e).toNat
    some (if s then -(t : Int) else t)
  | _ => none

def sfIsNaN (f : Fmt) (a : Nat) : Bool := match decode f a with | .nan => true | _ => false
def sfIsInf (f : Fmt) (a : Nat) : Bool := match decode f a with | .inf _ => true | _ => false

/-- conversion between formats (`(float)d`, `(double)f`) -/
def sfCvt (src dst : Fmt) (a : Nat) : Nat :=
  match decode src a with
  | .nan => dst.nanBits
  | .inf s => withSign dst s dst.infBits
  | .fin s m e => roundPack dst s m e

/-- the decimal literal `m / 10^k`, correctly rounded -/
def sfLit (f : Fmt) (m k : Nat) : Nat := if m == 0 then 0 else roundQuot f false m (10 ^ k) 0

structure F32 where
  bits : Nat
deriving DecidableEq, Repr

structure F64 where
  bits : Nat
deriving DecidableEq, Repr

def F64.toF32 (d : F64) : F32 := ⟨sfCvt b64 b32 d.bits⟩
def F32.toF64 (x : F32) : F64 := ⟨sfCvt b32 b64 x.bits⟩

instance : FloatLike F64 where
  isNaN a := sfIsNaN b64 a.bits
  isInf a := sfIsInf b64 a.bits
  lt a b := sfLt b64 a.bits b.bits
  neg a := ⟨sfNeg b64 a.bits⟩
  add a b := ⟨sfAdd b64 a.bits b.bits⟩
  sub a b := ⟨sfSub b64 a.bits b.bits⟩
  mul a b := ⟨sfMul b64 a.bits b.bits⟩
  div a b := ⟨sfDiv b64 a.bits b.bits⟩
  ofInt n := ⟨sfOfInt b64 n⟩
  trunc a := sfTrunc b64 a.bits
  mul10 a := ⟨sfMul b64 a.bits (sfOfInt b64 10)⟩
  rounder p := ⟨sfLit b64 5 (p + 1)⟩
  lit m k := ⟨sfLit b64 m k⟩

instance : FloatLike F32 where
  isNaN a := sfIsNaN b32 a.bits
  isInf a := sfIsInf b32 a.bits
  lt a b := sfLt b32 a.bits b.bits
  neg a := ⟨sfNeg b32 a.bits⟩
  add a b := ⟨sfAdd b32 a.bits b.bits⟩
  sub a b := ⟨sfSub b32 a.bits b.bits⟩
  mul a b := ⟨sfMul b32 a.bits b.bits⟩
  div a b := ⟨sfDiv b32 a.bits b.bits⟩
  ofInt n := ⟨sfOfInt b32 n⟩
  trunc a := sfTrunc b32 a.bits
  -- float -> double (exact), times the double 10.0, -> float
  mul10 a := (⟨sfMul b64 (sfCvt b32 b64 a.bits) (sfOfInt b64 10)⟩ : F64).toF32
  -- the double literal 0.5e-p converted to float
  rounder p := (⟨sfLit b64 5 (p + 1)⟩ : F64).toF32
  lit m k := ⟨sfLit b32 m k⟩

/-! ## text helpers -/

/-- a C `int` stored into a `char`: the low eight bits -/
def charOfInt (i : Int) : Nat := (i % 256).toNat

def isDigit (c : Nat) : Bool := 48 ≤ c && c ≤ 57

def tokInf : List Nat := [105, 110, 102]   -- "inf"
def tokNan : List Nat := [110, 97, 110]    -- "nan"

/-! ## igris_f32toa -/

def MAX_PRECISION : Nat := 10

/-- `while (intPart) { *p++ = '0' + intPart % 10; intPart /= 10; }` (C division
    truncates); the digits come out least significant first -/
def intDigitsRev : Nat → Int → List Nat
  | 0, _ => []
  | fuel + 1, n =>
    if n = 0 then [] else charOfInt (48 + Int.tmod n 10) :: intDigitsRev fuel (Int.tdiv n 10)

/-- `while (precision--) { f *= 10.0; c = (char)f; *ptr++ = '0' + c; f -= c; }` -/
def fracLoop {F : Type} [FloatLike F] : Nat → F → Option (List Nat)
  | 0, _ => some []
  | p + 1, f =>
    let f := mul10 f
    match trunc f with
    | none => none
    | some c =>
      if c < -128 ∨ 127 < c then none
      else (fracLoop p (sub f (ofInt c))).map (charOfInt (48 + c) :: ·)

/-- the automatic precision table (`precision < 0`) -/
def autoPrec {F : Type} [FloatLike F] (f : F) : Nat :=
  if lt f (ofInt 1) then 6
  else if lt f (ofInt 10) then 5
  else if lt f (ofInt 100) then 4
  else if lt f (ofInt 1000) then 3
  else if lt f (ofInt 10000) then 2
  else if lt f (ofInt 100000) then 1
  else 0

/-- the precision the renderer works with -/
def effPrec {F : Type} [FloatLike F] (fabs : F) (precision : Int) : Nat :=
  let precision := if precision > MAX_PRECISION then (MAX_PRECISION : Int) else precision
  if precision < 0 then autoPrec fabs else precision.toNat

/-- the characters `igris_f32toa(f, buf, precision)` stores before the NUL;
    `none` = undefined behaviour (integer part outside `int32_t`) -/
def f32toa {F : Type} [FloatLike F] (f : F) (precision : Int) : Option (List Nat) :=
  if isInf f then some ((if lt (ofInt 0) f then 43 else 45) :: tokInf)
  else if isNaN f then some tokNan
  else
    let neg := lt f (ofInt 0)
    let f := if neg then FloatLike.neg f else f
    let sign : List Nat := if neg then [45] else []
    let p := effPrec f precision
    let f := if p ≠ 0 then add f (rounder p) else f
    match trunc f with
    | none => none
    | some ip =>
      if ip < -2147483648 ∨ 2147483647 < ip then none
      else
        let f := sub f (ofInt ip)
        -- digits in reverse order, then the in-place reversal loop
        let intText := if ip = 0 then [48] else (intDigitsRev 10 ip).reverse
        if p ≠ 0 then (fracLoop p f).map (fun fr => sign ++ intText ++ 46 :: fr)
        else some (sign ++ intText)

/-- the buffer after the call: text, NUL, the rest untouched; a buffer that is
    too short is a fault.  The returned pointer is `buf` (offset 0). -/
def f32toaBuf {F : Type} [FloatLike F] (f : F) (precision : Int) (buf : List Nat) : Option (List Nat × Nat) :=
  match f32toa f precision with
  | none => none
  | some t => if t.length + 1 ≤ buf.length then some (t ++ 0 :: buf.drop (t.length + 1), 0) else none

/-- `igris_f64toa(f, buf, p)` = `igris_f32toa((float32_t)f, buf, p)`; `igris_ftoa` = `igris_f64toa` -/
def f64toa {F D : Type} [FloatLike F] (cvt : D → F) (d : D) (precision : Int) : Option (List Nat) :=
  f32toa (cvt d) precision

/-! ## parsers -/

/-- `while (*p >= '0' && *p <= '9') { val = val * 10.0 + (*p - '0'); p++; [d--;] }`
    on the bytes from `p` to the end of the allocation; returns the value, the
    number of digits consumed and the remaining bytes -/
def mantLoop {F : Type} [FloatLike F] : List Nat → F → Nat → Option (F × Nat × List Nat)
  | [], _, _ => none
  | c :: rest, val, k =>
    if isDigit c then mantLoop rest (add (mul val (ofInt 10)) (ofInt ((c : Int) - 48))) (k + 1)
    else some (val, k, c :: rest)

/-- the exponent digits with the saturating accumulator -/
def expDigits : List Nat → Nat → Option (Nat × List Nat)
  | [], _ => none
  | c :: rest, ev =>
    if isDigit c then expDigits rest (if ev < 100000 then ev * 10 + (c - 48) else ev)
    else some (ev, c :: rest)

/-- the exponent block shared (textually) by igris_atof64 and igris_atof32:
    returns (`e_sign < 0`, `e_val`, remaining bytes); an `e` that is not followed
    by `[+-]digit` is left alone -/
def parseExp (p : List Nat) : Option (Bool × Nat × List Nat) :=
  match p with
  | [] => none
  | c :: q =>
    if c = 69 ∨ c = 101 then
      match q with
      | [] => none
      | s :: q2 =>
        let eneg := s = 45
        let q' := if s = 43 ∨ s = 45 then q2 else q
        match q' with
        | [] => none
        | dch :: _ =>
          if isDigit dch then (expDigits q' 0).map (fun (ev, r) => (eneg, ev, r))
          else some (false, 0, p)
    else some (false, 0, p)

def iter {α : Type} (g : α → α) : Nat → α → α
  | 0, a => a
  | n + 1, a => iter g n (g a)

/-- `while (d > 0) { val *= 10.0; d--; }  while (d < 0) { val *= 0.1; d++; }` -/
def scale64 {F : Type} [FloatLike F] (val : F) (d : Int) : F :=
  if d > 0 then iter (fun v => mul v (ofInt 10)) d.toNat val
  else iter (fun v => mul v (lit 1 1)) (-d).toNat val

/-- `if (e_sign > 0) while (e_val--) ret *= 10.0f; else while (e_val--) ret /= 10.0f;` -/
def scale32 {F : Type} [FloatLike F] (ret : F) (eneg : Bool) (ev : Nat) : F :=
  if eneg then iter (fun v => div v (ofInt 10)) ev ret
  else iter (fun v => mul v (ofInt 10)) ev ret

/-- `igris_atof64` after the optional sign: mantissa loops, exponent block,
    scaling loops; returns `val` and the bytes from the final `nptr` on -/
def atof64Body {F : Type} [FloatLike F] (p : List Nat) : Option (F × List Nat) :=
  match mantLoop p (ofInt 0 : F) 0 with
  | none => none
  | some (val, _, p) =>
    match p with
    | [] => none
    | c :: q =>
      match (if c = 46 then mantLoop q val 0 else some (val, 0, p)) with
      | none => none
      | some (val, nfrac, p) =>
        match parseExp p with
        | none => none
        | some (eneg, ev, p) =>
          let d : Int := (if eneg then -(ev : Int) else ev) - nfrac
          some (scale64 val d, p)

/-- `igris_atof64(nptr, &end)` for a non-null `nptr`: value (`sign * val`) and end offset -/
def atof64 {F : Type} [FloatLike F] (s : List Nat) : Option (F × Nat) :=
  match s with
  | [] => none
  | c0 :: s1 =>
    let neg := c0 = 45
    let p := if c0 = 43 ∨ c0 = 45 then s1 else s
    (atof64Body p).map fun (val, rest) =>
      (mul (ofInt (if neg then -1 else 1)) val, s.length - rest.length)

/-- `igris_atou32/atou64(buf, 10, &end)`: accumulator modulo `M` -/
def atou10 (M : Nat) : List Nat → Nat → Nat → Option (Nat × Nat × List Nat)
  | [], _, _ => none
  | c :: rest, acc, k =>
    if isDigit c then atou10 M rest ((acc * 10 + (c - 48)) % M) (k + 1)
    else some (acc, k, c :: rest)

/-- `local_pow(10, n)`: `none` when the `int64_t` product overflows -/
def localPow10 (n : Nat) : Option Nat := if 10 ^ n < 2 ^ 63 then some (10 ^ n) else none

/-- two's-complement reading of a 64-bit pattern (`int64_t d = igris_atou64(..)`) -/
def toInt64 (u : Nat) : Int := if u < 2 ^ 63 then u else (u : Int) - 2 ^ 64

/-- `float ret = (float)u; if (*str == '.') { d = igris_atou64(++str, 10, &end);
    ret = (float)u + (float)((double)d / (double)local_pow(10, end - str)); str = end; }` -/
def atof32Frac {F D : Type} [FloatLike F] [FloatLike D] (cvt : D → F) (u : Nat) (p : List Nat) :
    Option (F × List Nat) :=
  match p with
  | [] => none
  | c :: q =>
    if c = 46 then
      match atou10 (2 ^ 64) q 0 0 with
      | none => none
      | some (d, n, p') =>
        match localPow10 n with
        | none => none
        | some pw => some (add (ofInt u) (cvt (div (ofInt (toInt64 d) : D) (ofInt pw))), p')
    else some (ofInt u, p)

/-- `igris_atof32` after the optional sign: `F` = float32_t, `D` = double;
    returns `ret` and the bytes from the final `str` on -/
def atof32Body {F D : Type} [FloatLike F] [FloatLike D] (cvt : D → F) (p : List Nat) : Option (F × List Nat) :=
  match atou10 (2 ^ 32) p 0 0 with
  | none => none
  | some (u, _, p) =>
    match atof32Frac (D := D) cvt u p with
    | none => none
    | some (ret, p) =>
      match parseExp p with
      | none => none
      | some (eneg, ev, p) => some (scale32 ret eneg ev, p)

/-- `igris_atof32(str, &end)` -/
def atof32 {F D : Type} [FloatLike F] [FloatLike D] (cvt : D → F) (s : List Nat) : Option (F × Nat) :=
  match s with
  | [] => none
  | c0 :: s1 =>
    let minus := c0 = 45
    let p := if c0 = 43 ∨ c0 = 45 then s1 else s
    (atof32Body (D := D) cvt p).map fun (ret, rest) =>
      (if minus then neg ret else ret, s.length - rest.length)

/-! ## debug_printdec_double_prec -/

/-- `for (; x != 0; x /= 10) *--ptr = (x % 10) + '0';` — the digits, least significant first -/
def natDigitsRev : Nat → Nat → List Nat
  | 0, _ => []
  | fuel + 1, n => if n = 0 then [] else (48 + n % 10) :: natDigitsRev fuel (n / 10)

/-- `debug_printdec_uint64(x)`: a '0' for zero, then the digits that were stored
    backwards into the 24-byte buffer, printed forwards (a `uint64_t` has at most
    20 of them) -/
def decText (n : Nat) : List Nat := if n = 0 then [48] else (natDigitsRev 20 n).reverse

/-- `for (lim /= 10; lim > frac && lim > 1; lim /= 10) putchar('0')` -/
def zeroPad : Nat → Nat → Nat → List Nat
  | 0, _, _ => []
  | fuel + 1, lim, frac => if lim > frac ∧ lim > 1 then 48 :: zeroPad fuel (lim / 10) frac else []

/-- `for (i = 0; i < prec; ++i) { o *= 10; lim *= 10; }` (the `o` part) -/
def scaleUp {D : Type} [FloatLike D] (n : Nat) (o : D) : D := iter (fun o => mul o (ofInt 10)) n o

def dprintDouble {D : Type} [FloatLike D] (a : D) (prec : Int) : Option (List Nat) :=
  if isNaN a then some tokNan
  else if isInf a then some ((if lt (ofInt 0) a then 43 else 45) :: tokInf)
  else
    let neg := lt a (ofInt 0)
    let a := if neg then FloatLike.neg a else a
    let sign : List Nat := if neg then [45] else []
    let prec : Nat := if prec > 18 then 18 else prec.toNat
    match trunc a with
    | none => none
    | some n =>
      if n < 0 ∨ 2 ^ 64 ≤ n then none
      else
        let o := sub a (ofInt n)
        let o := scaleUp prec o
        let lim := 10 ^ prec
        match trunc (add o (lit 5 1)) with
        | none => none
        | some fr =>
          if fr < 0 ∨ 2 ^ 64 ≤ fr then none
          else
            let fr := fr.toNat
            let carry := lim ≤ fr
            let frac := if carry then fr - lim else fr
            let n := if carry then (n.toNat + 1) % 2 ^ 64 else n.toNat
            if prec > 0 then some (sign ++ decText n ++ 46 :: (zeroPad 20 (lim / 10) frac ++ decText frac))
            else some (sign ++ decText n)

/-! ## round 3: "no digits -> no conversion", the entry points, C widths of the exponent counters

  `igris_atof64` / `igris_atof32` begin (fix of round 3) with

      if (!has_mantissa_digit(str)) { if (pend) *pend = (char *)str; return 0; }

  `atof64` / `atof32` above are the rest of the two functions. -/

/-- `static int has_mantissa_digit(const char *s) { if (*s == '+' || *s == '-') s++; if (*s == '.') s++;
    return *s >= '0' && *s <= '9'; }` on the bytes of the allocation (`none`: read behind it) -/
def hasMantissaDigit (s : List Nat) : Option Bool :=
  match s with
  | [] => none
  | c :: s1 =>
    match (if c = 43 ∨ c = 45 then s1 else c :: s1) with
    | [] => none
    | d :: s2 =>
      match (if d = 46 then s2 else d :: s2) with
      | [] => none
      | x :: _ => some (isDigit x)

/-- `igris_atof64(nptr, &end)` (non-null `nptr`): value and end offset -/
def igrisAtof64 {F : Type} [FloatLike F] (s : List Nat) : Option (F × Nat) :=
  match hasMantissaDigit s with
  | none => none
  | some false => some (ofInt 0, 0)
  | some true => atof64 s

/-- `igris_atof32(str, &end)` -/
def igrisAtof32 {F D : Type} [FloatLike F] [FloatLike D] (cvt : D → F) (s : List Nat) : Option (F × Nat) :=
  match hasMantissaDigit s with
  | none => none
  | some false => some (ofInt 0, 0)
  | some true => atof32 (D := D) cvt s

/-- `double igris_strtod(nptr, endptr) { return igris_atof64(nptr, endptr); }` (default build) -/
def igrisStrtod {F : Type} [FloatLike F] (s : List Nat) : Option (F × Nat) := igrisAtof64 s

/-- compat/libc/stdlib/strtod.c `strtod` (default build) -/
def compatStrtod {F : Type} [FloatLike F] (s : List Nat) : Option (F × Nat) := igrisAtof64 s

/-- compat `atof`: `igris_atof64(nptr, NULL)` -/
def compatAtof {F : Type} [FloatLike F] (s : List Nat) : Option F := (igrisAtof64 (F := F) s).map (·.1)

/-- `binreader::read_ascii_decimal_float`: `*ret = igris_atof32(ptr, (char **)&ptr)`; value and new position -/
def binreaderFloat {F D : Type} [FloatLike F] [FloatLike D] (cvt : D → F) (s : List Nat) : Option (F × Nat) :=
  igrisAtof32 (D := D) cvt s

/-- the WITHOUT_ATOF64 build: `double igris_strtod(nptr, endptr) { return igris_atof32(nptr, endptr); }` —
    the float is widened to double by the `return` -/
def igrisStrtod32 {F D : Type} [FloatLike F] [FloatLike D] (cvt : D → F) (widen : F → D) (s : List Nat) :
    Option (D × Nat) :=
  (igrisAtof32 (D := D) cvt s).map fun (v, e) => (widen v, e)

/-- compat `strtod` of the WITHOUT_ATOF64 build -/
def compatStrtod32 {F D : Type} [FloatLike F] [FloatLike D] (cvt : D → F) (widen : F → D) (s : List Nat) :
    Option (D × Nat) :=
  (igrisAtof32 (D := D) cvt s).map fun (v, e) => (widen v, e)

/-- compat `atof` of the WITHOUT_ATOF64 build -/
def compatAtof32 {F D : Type} [FloatLike F] [FloatLike D] (cvt : D → F) (widen : F → D) (s : List Nat) : Option D :=
  (igrisAtof32 (D := D) cvt s).map fun (v, _) => widen v

/-- `igris_ftoa` of the WITHOUT_ATOF64 build takes a `float32_t`: a double argument is converted at the call -/
def igrisFtoa32 {F D : Type} [FloatLike F] (cvt : D → F) (d : D) (precision : Int) : Option (List Nat) :=
  f32toa (cvt d) precision

/-! ### the counters at their C width (`int e_val`, `int d`: 32-bit two's complement) -/

def wrapInt32 (i : Int) : Int := (i + 2147483648) % 4294967296 - 2147483648

/-- the exponent digit loop with `e_val` as a wrapping C `int` -/
def expDigitsC : List Nat → Int → Option (Int × List Nat)
  | [], _ => none
  | c :: rest, ev =>
    if isDigit c then expDigitsC rest (if ev < 100000 then wrapInt32 (ev * 10 + ((c : Int) - 48)) else ev)
    else some (ev, c :: rest)

/-- `int d` of igris_atof64 after `d--` per fraction digit and `d += e_val * e_sign`, as a wrapping C `int` -/
def deltaC (nfrac : Nat) (eneg : Bool) (ev : Int) : Int :=
  wrapInt32 (wrapInt32 (-(nfrac : Int)) + wrapInt32 (ev * (if eneg then -1 else 1)))

end Igris.C12
