import IgrisModel.C12.LemEntry
/-!
  C12 round 3 — TOTALITY of the double parser on NUL-terminated texts, for every
  arithmetic instance: the call is defined (the model's `none` = a read behind the
  allocation never happens when the allocation holds a NUL), and the reported end
  lies inside the text, at or before the first NUL.
-/
namespace Igris.C12
open FloatLike

/-- `r` is what is left of `p` after a NUL-free prefix has been consumed; the NUL is still in `r` -/
def Tail (p r : List Nat) : Prop := ∃ pre, p = pre ++ r ∧ 0 ∉ pre ∧ 0 ∈ r

theorem Tail.refl {p : List Nat} (h : 0 ∈ p) : Tail p p := ⟨[], rfl, by simp, h⟩

theorem Tail.cons {c : Nat} {p r : List Nat} (hc : c ≠ 0) (h : Tail p r) : Tail (c :: p) r := by
  obtain ⟨pre, e, h1, h2⟩ := h
  refine ⟨c :: pre, by rw [e]; rfl, ?_, h2⟩
  intro hm
  rcases List.mem_cons.mp hm with h | h
  · exact hc h.symm
  · exact h1 h

theorem Tail.trans {p q r : List Nat} (h1 : Tail p q) (h2 : Tail q r) : Tail p r := by
  obtain ⟨a, ea, ha, _⟩ := h1
  obtain ⟨b, eb, hb, hr⟩ := h2
  refine ⟨a ++ b, by rw [ea, eb, List.append_assoc], ?_, hr⟩
  intro hm
  rcases List.mem_append.mp hm with h | h
  · exact ha h
  · exact hb h

theorem Tail.mem {p r : List Nat} (h : Tail p r) : 0 ∈ r := by
  obtain ⟨_, _, _, h2⟩ := h
  exact h2

theorem digit_ne_zero {c : Nat} (h : isDigit c = true) : c ≠ 0 := by
  have := (isDigit_iff c).mp h; omega

theorem mem_tail_of_ne {c : Nat} {p : List Nat} (h : 0 ∈ c :: p) (hc : c ≠ 0) : 0 ∈ p := by
  rcases List.mem_cons.mp h with h | h
  · exact absurd h.symm hc
  · exact h

theorem mantLoop_total {F : Type} [FloatLike F] (p : List Nat) (v : F) (k : Nat) (h : 0 ∈ p) :
    ∃ v' k' r, mantLoop p v k = some (v', k', r) ∧ Tail p r := by
  induction p generalizing v k with
  | nil => cases h
  | cons c rest ih =>
    unfold mantLoop
    by_cases hd : isDigit c = true
    · simp only [hd, if_true]
      have hc := digit_ne_zero hd
      obtain ⟨v', k', r, e, t⟩ := ih _ _ (mem_tail_of_ne h hc)
      exact ⟨v', k', r, e, t.cons hc⟩
    · simp only [hd, Bool.false_eq_true, if_false]
      exact ⟨v, k, c :: rest, rfl, Tail.refl h⟩

theorem expDigits_total (p : List Nat) (ev : Nat) (h : 0 ∈ p) :
    ∃ e r, expDigits p ev = some (e, r) ∧ Tail p r := by
  induction p generalizing ev with
  | nil => cases h
  | cons c rest ih =>
    unfold expDigits
    by_cases hd : isDigit c = true
    · simp only [hd, if_true]
      have hc := digit_ne_zero hd
      obtain ⟨e, r, he, t⟩ := ih _ (mem_tail_of_ne h hc)
      exact ⟨e, r, he, t.cons hc⟩
    · simp only [hd, Bool.false_eq_true, if_false]
      exact ⟨ev, c :: rest, rfl, Tail.refl h⟩

theorem parseExp_total (p : List Nat) (h : 0 ∈ p) :
    ∃ b ev r, parseExp p = some (b, ev, r) ∧ Tail p r := by
  cases p with
  | nil => cases h
  | cons c q =>
    by_cases hc : c = 69 ∨ c = 101
    · have hc0 : c ≠ 0 := by omega
      have hq := mem_tail_of_ne h hc0
      cases q with
      | nil => cases hq
      | cons s q2 =>
        by_cases hs : s = 43 ∨ s = 45
        · have hs0 : s ≠ 0 := by omega
          have hq2 := mem_tail_of_ne hq hs0
          cases q2 with
          | nil => cases hq2
          | cons dch q3 =>
            by_cases hd : isDigit dch = true
            · obtain ⟨e, r, he, t⟩ := expDigits_total (dch :: q3) 0 hq2
              refine ⟨decide (s = 45), e, r, ?_, (t.cons hs0).cons hc0⟩
              simp [parseExp, hc, hs, hd, he]
            · refine ⟨false, 0, c :: s :: dch :: q3, ?_, Tail.refl h⟩
              simp [parseExp, hc, hs, hd]
        · by_cases hd : isDigit s = true
          · obtain ⟨e, r, he, t⟩ := expDigits_total (s :: q2) 0 hq
            refine ⟨decide (s = 45), e, r, ?_, t.cons hc0⟩
            simp [parseExp, hc, hs, hd, he]
          · refine ⟨false, 0, c :: s :: q2, ?_, Tail.refl h⟩
            simp [parseExp, hc, hs, hd]
    · refine ⟨false, 0, c :: q, ?_, Tail.refl h⟩
      simp [parseExp, hc]

theorem atof64Body_total {F : Type} [FloatLike F] (p : List Nat) (h : 0 ∈ p) :
    ∃ (v : F) (r : List Nat), atof64Body p = some (v, r) ∧ Tail p r := by
  obtain ⟨v1, k1, p1, e1, t1⟩ := mantLoop_total (F := F) p (ofInt 0) 0 h
  have h1 := t1.mem
  cases p1 with
  | nil => cases h1
  | cons c q =>
    by_cases hc : c = 46
    · have hc0 : c ≠ 0 := by omega
      obtain ⟨v2, k2, p2, e2, t2⟩ := mantLoop_total (F := F) q v1 0 (mem_tail_of_ne h1 hc0)
      obtain ⟨b, ev, p3, e3, t3⟩ := parseExp_total p2 t2.mem
      have key : ∃ v : F, atof64Body p = some (v, p3) := by
        simp only [atof64Body, e1, hc, if_true, e2, e3]
        exact ⟨_, rfl⟩
      obtain ⟨v, hv⟩ := key
      exact ⟨v, p3, hv, t1.trans ((t2.cons hc0).trans t3)⟩
    · obtain ⟨b, ev, p3, e3, t3⟩ := parseExp_total (c :: q) h1
      have key : ∃ v : F, atof64Body p = some (v, p3) := by
        simp only [atof64Body, e1, hc, if_false, e3]
        exact ⟨_, rfl⟩
      obtain ⟨v, hv⟩ := key
      exact ⟨v, p3, hv, t1.trans t3⟩

theorem Tail.length {p r : List Nat} (h : Tail p r) :
    ∃ pre, p = pre ++ r ∧ 0 ∉ pre ∧ 0 ∈ r ∧ p.length - r.length = pre.length := by
  obtain ⟨pre, e, h1, h2⟩ := h
  refine ⟨pre, e, h1, h2, ?_⟩
  rw [e, List.length_append]; omega

theorem atof64_total {F : Type} [FloatLike F] (s : List Nat) (h : 0 ∈ s) :
    ∃ (v : F) (pre r : List Nat), s = pre ++ r ∧ 0 ∉ pre ∧ 0 ∈ r ∧ atof64 s = some (v, pre.length) := by
  cases s with
  | nil => cases h
  | cons c0 s1 =>
    by_cases hs : c0 = 43 ∨ c0 = 45
    · have hc0 : c0 ≠ 0 := by omega
      obtain ⟨v, r, e, t⟩ := atof64Body_total (F := F) s1 (mem_tail_of_ne h hc0)
      obtain ⟨pre, e1, h1, h2, hl⟩ := (t.cons hc0).length
      have key : ∃ v' : F, atof64 (c0 :: s1) = some (v', (c0 :: s1).length - r.length) := by
        simp only [atof64, hs, if_true, e, Option.map_some]
        exact ⟨_, rfl⟩
      obtain ⟨v', hv'⟩ := key
      exact ⟨v', pre, r, e1, h1, h2, by rw [hv', hl]⟩
    · obtain ⟨v, r, e, t⟩ := atof64Body_total (F := F) (c0 :: s1) h
      obtain ⟨pre, e1, h1, h2, hl⟩ := t.length
      have key : ∃ v' : F, atof64 (c0 :: s1) = some (v', (c0 :: s1).length - r.length) := by
        simp only [atof64, hs, if_false, e, Option.map_some]
        exact ⟨_, rfl⟩
      obtain ⟨v', hv'⟩ := key
      exact ⟨v', pre, r, e1, h1, h2, by rw [hv', hl]⟩

theorem hasMantissaDigit_total (s : List Nat) (h : 0 ∈ s) : ∃ b, hasMantissaDigit s = some b := by
  cases s with
  | nil => cases h
  | cons c s1 =>
    rw [hasMantissaDigit_cons]
    have key : ∀ t : List Nat, 0 ∈ t → ∃ b, afterSign t = some b := by
      intro t ht
      cases t with
      | nil => cases ht
      | cons d s2 =>
        by_cases hd : d = 46
        · have hd0 : d ≠ 0 := by omega
          have := mem_tail_of_ne ht hd0
          cases s2 with
          | nil => cases this
          | cons x _ => exact ⟨isDigit x, by simp [afterSign, hd]⟩
        · exact ⟨isDigit d, by simp [afterSign, hd]⟩
    by_cases hs : c = 43 ∨ c = 45
    · have hc0 : c ≠ 0 := by omega
      rw [if_pos hs]
      exact key s1 (mem_tail_of_ne h hc0)
    · rw [if_neg hs]
      exact key (c :: s1) h

/-- TOTALITY of igris_atof64 (and of igris_strtod / compat strtod / atof, which are this function) for every
    arithmetic instance: on every text that contains a NUL the call is defined, and the reported end is the
    length of a NUL-free prefix of the text -/
theorem igrisAtof64_total {F : Type} [FloatLike F] (s : List Nat) (h : 0 ∈ s) :
    ∃ (v : F) (pre r : List Nat), s = pre ++ r ∧ 0 ∉ pre ∧ 0 ∈ r ∧ igrisAtof64 s = some (v, pre.length) := by
  obtain ⟨b, hb⟩ := hasMantissaDigit_total s h
  unfold igrisAtof64
  rw [hb]
  cases b with
  | false => exact ⟨ofInt 0, [], s, rfl, by simp, h, rfl⟩
  | true => exact atof64_total s h

end Igris.C12
