import IgrisModel.C12.LemRender
import IgrisModel.C12.LemAtof
import IgrisModel.C12.SoftOps
/-! C12 — the generic error analyses instantiated at the software binary32 / binary64. -/
namespace Igris.C12
open Spec FloatLike

theorem u32 : binary32.u = 1 / 16777216 := by
  have : binary32.u * ((2 ^ 24 : Nat) : Rat) = 1 := pow2_neg_nat 24
  simp at this; grind

/-- a binary32 value below 2^31 is at most 2^31 - 1 -/
theorem rep_lt_int {B : BinFmt} (hP : B.prec ≤ 31) {v : Rat} (h : Rep B v) (hv : v < 2147483648) :
    v + 1 ≤ 2147483648 := by
  obtain ⟨m, e, hm, he, rfl⟩ := h
  by_cases hneg : e < 0
  · have h1 : pow2 e ≤ pow2 (-1) := pow2_mono (by omega)
    have h2 : pow2 (-1) * ((2 ^ 1 : Nat) : Rat) = 1 := pow2_neg_nat 1
    have hm' : m < 2 ^ 31 := Nat.lt_of_lt_of_le hm (Nat.pow_le_pow_right (by omega) hP)
    have hm2 : (m : Rat) < ((2 ^ 31 : Nat) : Rat) := Rat.natCast_lt_natCast.mpr hm'
    have h3 := Rat.mul_le_mul_of_nonneg_left h1 (Rat.natCast_nonneg (a := m))
    simp at h2 hm2
    have h4 : pow2 (-1) = 1 / 2 := by grind
    rw [h4] at h3
    grind
  · rw [mul_pow2_nonneg m e (by omega)] at hv ⊢
    have e1 : (2147483648 : Rat) = ((2147483648 : Nat) : Rat) := by decide
    rw [e1] at hv ⊢
    have := Rat.natCast_lt_natCast.mp hv
    have h2 : m * 2 ^ e.toNat + 1 ≤ 2147483648 := this
    have := Rat.natCast_le_natCast.mpr h2
    rw [Rat.natCast_add] at this
    simpa using this

theorem ftoa_error_bound_core (x : F32) (prec : Int) (hx : x.Fin) (hr : absQ x.val < 2147483648) :
    ∃ (p : Nat) (ip fr : List Nat),
      p = effPrec (if lt x (ofInt 0) then FloatLike.neg x else x) prec ∧ p ≤ 10 ∧
      f32toa x prec = some ((if x.val < 0 then [45] else []) ++ ip ++ (if p ≠ 0 then 46 :: fr else [])) ∧
      AllDigits ip ∧ Canonical ip ∧ ip.length ≤ 10 ∧ AllDigits fr ∧ fr.length = p ∧
      (p ≠ 0 →
        absQ x.val * (10 : Rat) ^ p - 1 / 2 - (10 : Rat) ^ p * (absQ x.val + 2) / 16777216
          < ((valL (ip ++ fr) : Nat) : Rat) ∧
        ((valL (ip ++ fr) : Nat) : Rat)
          ≤ absQ x.val * (10 : Rat) ^ p + 1 / 2 + (10 : Rat) ^ p * (absQ x.val + 2) / 16777216) ∧
      (p = 0 → absQ x.val - 1 < ((valL (ip ++ fr) : Nat) : Rat) ∧ ((valL (ip ++ fr) : Nat) : Rat) ≤ absQ x.val) := by
  have hrep : Rep binary32 (absQ x.val) := by
    have : (0 ≤ x.val → Rep binary32 x.val) ∧ (x.val ≤ 0 → Rep binary32 (-x.val)) := IEEE.fin_rep x hx
    unfold absQ; split
    · exact this.2 (by grind)
    · exact this.1 (by grind)
  have hr' := rep_lt_int (B := binary32) (by decide) hrep hr
  obtain ⟨p, ip, fr, h1, h2, h3, h4, h5, h6, h7, h8, h9, h10⟩ := f32toa_I x prec hx hr'
  refine ⟨p, ip, fr, h1, h2, h3, h4, h5, h6, h7, h8, ?_, h10⟩
  intro hp
  have := h9 hp
  have hu : (IEEE.B (F := F32)).u = 1 / 16777216 := u32
  rw [hu] at this
  have e : (1 / 16777216 : Rat) * (10 : Rat) ^ p * (absQ (IEEE.val x) + 2) = (10 : Rat) ^ p * (absQ x.val + 2) / 16777216 := by
    show (1 / 16777216 : Rat) * (10 : Rat) ^ p * (absQ x.val + 2) = _
    grind
  rw [e] at this
  exact this


/-! ### closed forms of the rounding budget of the parser -/

/-- the mantissa loops are exact when the digit string, read as an integer, is below 2^P -/
theorem mantCost_zero (P : Nat) (ds : List Nat) (acc : Nat) (h : acc * 10 ^ ds.length + valL ds < 2 ^ P) :
    mantCost P ds acc 0 = 0 := by
  induction ds generalizing acc with
  | nil => rfl
  | cons c ds ih =>
    rw [valL_cons] at h
    simp only [List.length_cons, Nat.pow_succ] at h
    have h' : (acc * 10 + (c - 48)) * 10 ^ ds.length + valL ds < 2 ^ P := by
      have : (acc * 10 + (c - 48)) * 10 ^ ds.length = acc * (10 ^ ds.length * 10) + (c - 48) * 10 ^ ds.length := by
        rw [Nat.add_mul, Nat.mul_assoc, Nat.mul_comm 10]
      omega
    have hlt : acc * 10 + (c - 48) < 2 ^ P := by
      have h1 : 1 ≤ 10 ^ ds.length := Nat.one_le_pow _ _ (by omega)
      have : acc * 10 + (c - 48) ≤ (acc * 10 + (c - 48)) * 10 ^ ds.length := Nat.le_mul_of_pos_right _ h1
      omega
    simp only [mantCost, hlt, and_self, if_true]
    exact ih _ h'

/-- in general at most two roundings per digit -/
theorem mantCost_le (P : Nat) (ds : List Nat) (acc n : Nat) : mantCost P ds acc n ≤ n + 4 * ds.length := by
  induction ds generalizing acc n with
  | nil => simp [mantCost]
  | cons c ds ih =>
    simp only [mantCost, List.length_cons]
    by_cases hc : acc * 10 + (c - 48) < 2 ^ P ∧ n = 0
    · have := ih (acc * 10 + (c - 48)) 0
      simp only [hc, and_self, if_true]; omega
    · have := ih (acc * 10 + (c - 48)) (n + 4)
      simp only [hc, if_false]; omega

theorem upCost_le (P : Nat) (k acc n : Nat) : upCost P k acc n ≤ n + 2 * k := by
  induction k generalizing acc n with
  | zero => simp [upCost]
  | succ k ih =>
    simp only [upCost]
    by_cases hc : acc * 10 < 2 ^ P ∧ n = 0
    · have := ih (acc * 10) 0
      simp only [hc, and_self, if_true]; omega
    · have := ih (acc * 10) (n + 2)
      simp only [hc, if_false]; omega

theorem upCost_zero (P : Nat) (k acc : Nat) (h : acc * 10 ^ k < 2 ^ P) : upCost P k acc 0 = 0 := by
  induction k generalizing acc with
  | zero => rfl
  | succ k ih =>
    have h' : acc * 10 * 10 ^ k < 2 ^ P := by
      rw [Nat.pow_succ] at h
      have : acc * 10 * 10 ^ k = acc * (10 ^ k * 10) := by rw [Nat.mul_assoc, Nat.mul_comm 10]
      omega
    have hlt : acc * 10 < 2 ^ P := by
      have h1 : 1 ≤ 10 ^ k := Nat.one_le_pow _ _ (by omega)
      have : acc * 10 ≤ acc * 10 * 10 ^ k := Nat.le_mul_of_pos_right _ h1
      omega
    simp only [upCost, hlt, and_self, if_true]
    exact ih _ h'

/-- the closed form of the budget: at most 4 half units per mantissa digit plus 3 per scaling step -/
theorem atofCost_le (P : Nat) (L : Literal) :
    atofCost P L ≤ 4 * (L.ip ++ L.fracDigits).length + 3 * (L.expValue - (L.fracDigits.length : Int)).natAbs := by
  unfold atofCost
  have h1 := mantCost_le P (L.ip ++ L.fracDigits) 0 0
  simp only
  split
  · have := upCost_le P (L.expValue - (L.fracDigits.length : Int)).toNat (valL (L.ip ++ L.fracDigits))
      (mantCost P (L.ip ++ L.fracDigits) 0 0)
    omega
  · omega

/-- ... and only the scaling steps count when the digit string is below 2^P (at most 15 digits for binary64) -/
theorem atofCost_le_of_exact_mantissa (P : Nat) (L : Literal) (h : valL (L.ip ++ L.fracDigits) < 2 ^ P) :
    atofCost P L ≤ 3 * (L.expValue - (L.fracDigits.length : Int)).natAbs := by
  unfold atofCost
  have h1 := mantCost_zero P (L.ip ++ L.fracDigits) 0 (by simpa using h)
  simp only [h1]
  split
  · have := upCost_le P (L.expValue - (L.fracDigits.length : Int)).toNat (valL (L.ip ++ L.fracDigits)) 0
    omega
  · omega

/-- the budget is zero (the result is exact) when digits * 10^(exponent - #fraction digits) is an integer below 2^P -/
theorem atofCost_zero (P : Nat) (L : Literal) (hd : 0 ≤ L.expValue - (L.fracDigits.length : Int))
    (h : valL (L.ip ++ L.fracDigits) * 10 ^ (L.expValue - (L.fracDigits.length : Int)).toNat < 2 ^ P) :
    atofCost P L = 0 := by
  unfold atofCost
  have h0 : valL (L.ip ++ L.fracDigits) < 2 ^ P := by
    have h1 : 1 ≤ 10 ^ (L.expValue - (L.fracDigits.length : Int)).toNat := Nat.one_le_pow _ _ (by omega)
    have := Nat.le_mul_of_pos_right (valL (L.ip ++ L.fracDigits)) h1
    omega
  have h1 := mantCost_zero P (L.ip ++ L.fracDigits) 0 (by simpa using h0)
  simp only [h1]
  split
  · exact upCost_zero P _ _ h
  · omega

/-! ### binary64 parameters -/

theorem fmtOf_F64 : fmtOf F64 = binary64 := rfl
theorem fmtOf_F32 : fmtOf F32 = binary32 := rfl

theorem binary64_u : binary64.u = pow2 (-53) := rfl
theorem binary64_big : binary64.big = pow2 1023 := rfl
theorem binary64_tiny2 : 2 * binary64.tiny = pow2 (-1021) := by
  have : binary64.tiny = pow2 (-1022) := rfl
  rw [this, ← pow2_succ]; rfl

/-! ### the double entry point: cast, then the float renderer -/

theorem u32_abs (v : Rat) : binary32.u * v = v / 16777216 := by rw [u32]; grind

/-- `(float)d` of a finite double below 2^31 - 128 in magnitude: a finite binary32 of the same sign
    within `2^-24 * (|d| + 2^-126)` of `d`, and below 2^31 - 128 in magnitude as well -/
theorem cast_core (d : F64) (hd : d.Fin) (hr : absQ d.val ≤ 2147483520) :
    d.toF32.Fin ∧ absQ d.toF32.val ≤ 2147483520 ∧ (d.val < 0 → d.toF32.val ≤ 0) ∧ (0 ≤ d.val → 0 ≤ d.toF32.val) ∧
      absQ (d.toF32.val - d.val) ≤ (absQ d.val + binary32.tiny) / 16777216 := by
  have hb : binary32.big = pow2 127 := rfl
  have h32 : (4294967296 : Rat) ≤ pow2 127 := by
    have := pow2_mono (show (32 : Int) ≤ 127 by decide)
    have e : pow2 32 = 4294967296 := by have := pow2_nat 32; simp at this; exact this
    rw [e] at this; exact this
  have hin : InRange binary32 d.val := by
    unfold InRange; rw [hb]; unfold absQ at hr
    constructor <;> split at hr <;> grind
  obtain ⟨hf, hrn⟩ := f64_toF32_rn d hd hin
  have hrepmax : Rep binary32 (2147483520 : Rat) := by
    refine ⟨16777215, 7, by decide, by decide, ?_⟩
    have : pow2 7 = 128 := by have := pow2_nat 7; simp at this; exact this
    rw [this]; decide +kernel
  refine ⟨hf, ?_⟩
  by_cases hneg : d.val < 0
  · have h0 : d.val ≤ 0 := by grind
    have hr2 := hrn.2 h0
    have hle := hr2.le_rep hrepmax (by unfold absQ at hr; simp [hneg] at hr; exact hr)
    have hnn := hr2.nonneg
    have herr := hr2.abs_err (by grind)
    rw [u32_abs] at herr
    have ha : absQ d.val = -d.val := by simp [absQ, hneg]
    refine ⟨?_, fun _ => by grind, fun h => by grind, ?_⟩
    · unfold absQ; split <;> grind
    · rw [ha]; unfold absQ; split <;> grind
  · have h0 : 0 ≤ d.val := by grind
    have hr2 := hrn.1 h0
    have hle := hr2.le_rep hrepmax (by unfold absQ at hr; simp [hneg] at hr; exact hr)
    have hnn := hr2.nonneg
    have herr := hr2.abs_err h0
    rw [u32_abs] at herr
    have ha : absQ d.val = d.val := by simp [absQ, hneg]
    refine ⟨?_, fun h => absurd h hneg, fun _ => hnn, ?_⟩
    · unfold absQ; split <;> grind
    · rw [ha]; unfold absQ; split <;> grind


/-- with a non-negative net exponent the magnitude of the value is the natural number digits * 10^d -/
theorem absQ_value53 (L : Literal) (hd : 0 ≤ L.expValue - (L.fracDigits.length : Int))
    (h : valL (L.ip ++ L.fracDigits) * 10 ^ (L.expValue - (L.fracDigits.length : Int)).toNat < 2 ^ 53) :
    ∃ N : Nat, absQ L.value = (N : Rat) ∧ N < 2 ^ 53 := by
  refine ⟨valL (L.ip ++ L.fracDigits) * 10 ^ (L.expValue - (L.fracDigits.length : Int)).toNat, ?_, h⟩
  rw [absQ_value]
  split
  · simp [Rat.natCast_mul, Rat.natCast_pow]
  · have h0 : L.expValue - (L.fracDigits.length : Int) = 0 := by omega
    rw [h0]; simp; grind

end Igris.C12
