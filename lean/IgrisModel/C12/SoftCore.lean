import IgrisModel.C12.Ieee
/-!
  C12 — the software binary32/binary64 of Model.lean IS round-to-nearest
  arithmetic, part 1: decoding and `roundPack` (the single place where the
  model rounds).  `roundPack_rn` is the standard model lemma for the format.
-/
namespace Igris.C12

/-- the formats the model is used with: at least 2 exponent bits and 1 fraction bit -/
structure Fmt.WF (f : Fmt) : Prop where
  ebits_ge : 2 ≤ f.ebits
  mbits_ge : 1 ≤ f.mbits

/-- parameters of the format as a `BinFmt`: binary32 ↦ ⟨24, -149, 127⟩, binary64 ↦ ⟨53, -1074, 1023⟩ -/
def Fmt.bin (f : Fmt) : BinFmt := ⟨f.mbits + 1, 1 - (f.bias : Int) - f.mbits, f.bias⟩

/-- the rational a decoded finite operand stands for (0 for inf / nan) -/
def Dec.toQ : Dec → Rat
  | .fin s m e => if s then -((m : Rat) * pow2 e) else (m : Rat) * pow2 e
  | _ => 0

/-- a well-formed encoding of a finite value -/
def FinEnc (f : Fmt) (b : Nat) : Prop :=
  b < 2 * f.signBit ∧ b / 2 ^ f.mbits % 2 ^ f.ebits ≠ f.expMax

theorem b32_wf : b32.WF := ⟨by decide, by decide⟩
theorem b64_wf : b64.WF := ⟨by decide, by decide⟩

/-! ### format facts -/

theorem Fmt.WF.two_pow_ebits {f : Fmt} (hf : f.WF) : 2 ^ f.ebits = 2 * f.bias + 2 := by
  have h := hf.ebits_ge
  have e1 : f.ebits = (f.ebits - 1) + 1 := by omega
  have hp : 0 < 2 ^ (f.ebits - 1) := Nat.two_pow_pos _
  unfold Fmt.bias
  rw [e1, Nat.pow_succ]
  simp only [Nat.add_sub_cancel]
  omega

theorem Fmt.WF.bias_pos {f : Fmt} (hf : f.WF) : 1 ≤ f.bias := by
  have h := hf.ebits_ge
  have e1 : f.ebits - 1 = (f.ebits - 2) + 1 := by omega
  have hp : 0 < 2 ^ (f.ebits - 2) := Nat.two_pow_pos _
  unfold Fmt.bias
  rw [e1, Nat.pow_succ]
  omega

theorem Fmt.WF.expMax_eq {f : Fmt} (hf : f.WF) : f.expMax = 2 * f.bias + 1 := by
  have := hf.two_pow_ebits
  unfold Fmt.expMax; omega

theorem Fmt.signBit_eq (f : Fmt) : f.signBit = 2 ^ f.ebits * 2 ^ f.mbits := by
  unfold Fmt.signBit; rw [Nat.pow_add]

/-- field extraction from `σ * (E * P) + ex * P + r` -/
theorem fields (P E ex r σ : Nat) (hP : 0 < P) (hex : ex < E) (hr : r < P) (hσ : σ < 2) :
    let X := σ * (E * P) + ex * P + r
    X / (E * P) % 2 = σ ∧ X / P % E = ex ∧ X % P = r ∧ X < 2 * (E * P) := by
  intro X
  have hX : X = (σ * E + ex) * P + r := by
    show σ * (E * P) + ex * P + r = _
    rw [Nat.add_mul, Nat.mul_assoc]
  have h1 : X / P = σ * E + ex := by
    rw [hX, Nat.mul_comm, Nat.mul_add_div hP, Nat.div_eq_of_lt hr]; rfl
  have h2 : X % P = r := by
    rw [hX, Nat.mul_comm, Nat.mul_add_mod, Nat.mod_eq_of_lt hr]
  have hE : 0 < E := by omega
  have h3 : X / (E * P) = σ := by
    rw [Nat.mul_comm E P, ← Nat.div_div_eq_div_mul, h1, Nat.mul_comm σ E, Nat.mul_add_div hE,
      Nat.div_eq_of_lt hex]; rfl
  refine ⟨?_, ?_, h2, ?_⟩
  · rw [h3]; exact Nat.mod_eq_of_lt hσ
  · rw [h1, Nat.mul_comm σ E, Nat.mul_add_mod, Nat.mod_eq_of_lt hex]
  · have : (σ * E + ex) * P + r < (σ * E + ex + 1) * P := by
      rw [Nat.add_mul (σ * E + ex) 1 P]; omega
    have h5 : σ * E + ex + 1 ≤ 2 * E := by
      have : σ * E ≤ 1 * E := Nat.mul_le_mul_right E (by omega)
      omega
    have := Nat.mul_le_mul_right P h5
    rw [hX, ← Nat.mul_assoc]; omega

theorem signTest (S b : Nat) (hS : 0 < S) (h : b < 2 * S) : (b / S % 2 == 1) = decide (S ≤ b) := by
  have h1 : b / S < 2 := (Nat.div_lt_iff_lt_mul hS).2 h
  have h2 : 1 ≤ b / S ↔ 1 * S ≤ b := Nat.le_div_iff_mul_le hS
  generalize b / S = d at *
  by_cases hb : S ≤ b
  · have : d = 1 := by omega
    simp [this, hb]
  · have : d = 0 := by omega
    simp [this, hb]

/-- a finite encoding decodes to sign / significand below 2^(mbits+1) / exponent ≥ emin -/
theorem decode_fin (f : Fmt) (hf : f.WF) (b : Nat) (h : FinEnc f b) :
    ∃ m e, decode f b = .fin (decide (f.signBit ≤ b)) m e ∧ m < 2 ^ (f.mbits + 1) ∧ f.bin.emin ≤ e := by
  have _ := hf
  obtain ⟨hb, hex⟩ := h
  have hS : 0 < f.signBit := Nat.two_pow_pos _
  have hP : 0 < 2 ^ f.mbits := Nat.two_pow_pos _
  have hr : b % 2 ^ f.mbits < 2 ^ f.mbits := Nat.mod_lt _ hP
  have hsign := signTest f.signBit b hS hb
  unfold decode
  simp only [hsign]
  have hex' : (b / 2 ^ f.mbits % 2 ^ f.ebits == f.expMax) = false := by simpa using hex
  simp only [hex']
  by_cases h0 : b / 2 ^ f.mbits % 2 ^ f.ebits = 0
  · refine ⟨b % 2 ^ f.mbits, 1 - (f.bias : Int) - f.mbits, ?_, ?_, ?_⟩
    · simp [h0]
    · rw [Nat.pow_succ]; omega
    · exact Int.le_refl _
  · refine ⟨b % 2 ^ f.mbits + 2 ^ f.mbits, ((b / 2 ^ f.mbits % 2 ^ f.ebits : Nat) : Int) - f.bias - f.mbits, ?_, ?_, ?_⟩
    · simp [h0]
    · rw [Nat.pow_succ]; omega
    · show 1 - (f.bias : Int) - f.mbits ≤ _
      omega

theorem withSign_eq (f : Fmt) (s : Bool) (x : Nat) :
    withSign f s x = (if s then 1 else 0) * (2 ^ f.ebits * 2 ^ f.mbits) + x := by
  unfold withSign; rw [f.signBit_eq]; cases s <;> simp [Nat.add_comm]

/-- decoding a packed finite encoding -/
theorem decode_pack (f : Fmt) (hf : f.WF) (s : Bool) (ex r : Nat) (hex : ex < f.expMax)
    (hr : r < 2 ^ f.mbits) :
    FinEnc f (withSign f s (ex * 2 ^ f.mbits + r)) ∧
    decode f (withSign f s (ex * 2 ^ f.mbits + r)) =
      if ex = 0 then .fin s r (1 - (f.bias : Int) - f.mbits)
      else .fin s (r + 2 ^ f.mbits) ((ex : Int) - f.bias - f.mbits) := by
  have hP : 0 < 2 ^ f.mbits := Nat.two_pow_pos _
  have hE : f.expMax < 2 ^ f.ebits := by
    have := hf.two_pow_ebits; have := hf.expMax_eq; omega
  have hσ : (if s then 1 else 0) < 2 := by cases s <;> simp
  obtain ⟨h1, h2, h3, h4⟩ := fields (2 ^ f.mbits) (2 ^ f.ebits) ex r (if s then 1 else 0) hP
    (by omega) hr hσ
  rw [withSign_eq, ← Nat.add_assoc]
  refine ⟨⟨?_, ?_⟩, ?_⟩
  · rw [f.signBit_eq]; exact h4
  · rw [h2]; omega
  · unfold decode
    rw [f.signBit_eq]
    simp only [h1, h2, h3]
    have hne : (ex == f.expMax) = false := by
      have : ex ≠ f.expMax := by omega
      simpa using this
    simp only [hne]
    cases s <;> simp

theorem pack_lt (P ex r X : Nat) (hr : r < P) (hex : ex < X) : ex * P + r < X * P := by
  have h1 : ex * P + r < (ex + 1) * P := by rw [Nat.add_mul]; omega
  have h2 : (ex + 1) * P ≤ X * P := Nat.mul_le_mul_right P hex
  omega

/-- THE PACKING LEMMA: `Bx * 2^mbits + M` with a significand `M ≤ 2^(mbits+1)` (a carry
    into the exponent field is allowed) is a finite encoding of `M * 2^(Bx + 1 - bias - mbits)` -/
theorem pack_ok (f : Fmt) (hf : f.WF) (s : Bool) (Bx M : Nat)
    (hM : M ≤ 2 ^ (f.mbits + 1)) (hsub : M < 2 ^ f.mbits → Bx = 0) (hBx : Bx + 2 < f.expMax) :
    Bx * 2 ^ f.mbits + M < f.infBits ∧
    FinEnc f (withSign f s (Bx * 2 ^ f.mbits + M)) ∧
    ∃ M' e', decode f (withSign f s (Bx * 2 ^ f.mbits + M)) = .fin s M' e' ∧
      M' < 2 ^ (f.mbits + 1) ∧ f.bin.emin ≤ e' ∧
      (M' : Rat) * pow2 e' = (M : Rat) * pow2 ((Bx : Int) + 1 - f.bias - f.mbits) := by
  have hP : 0 < 2 ^ f.mbits := Nat.two_pow_pos _
  have h2P : 2 ^ (f.mbits + 1) = 2 * 2 ^ f.mbits := by rw [Nat.pow_succ]; omega
  rw [h2P] at hM ⊢
  show _ ∧ _ ∧ ∃ M' e', _ ∧ _ ∧ 1 - (f.bias : Int) - f.mbits ≤ e' ∧ _
  unfold Fmt.infBits
  generalize hPdef : 2 ^ f.mbits = P at *
  by_cases c1 : M < P
  · have hB := hsub c1
    subst hB
    obtain ⟨d1, d2⟩ := decode_pack f hf s 0 M (by omega) (by omega)
    rw [hPdef] at d1 d2
    refine ⟨pack_lt P 0 M _ c1 (by omega), d1, M, 1 - (f.bias : Int) - f.mbits, ?_, by omega, by omega, ?_⟩
    · rw [d2]; simp
    · congr 2
  · by_cases c2 : M < 2 * P
    · have e : Bx * P + M = (Bx + 1) * P + (M - P) := by rw [Nat.add_mul]; omega
      rw [e]
      obtain ⟨d1, d2⟩ := decode_pack f hf s (Bx + 1) (M - P) (by omega) (by omega)
      rw [hPdef] at d1 d2
      refine ⟨pack_lt P (Bx + 1) (M - P) _ (by omega) (by omega), d1, M,
        ((Bx + 1 : Nat) : Int) - f.bias - f.mbits, ?_, by omega, by omega, ?_⟩
      · rw [d2, if_neg (by omega)]
        have : M - P + P = M := by omega
        rw [this]
      · congr 2
    · have hMe : M = 2 * P := by omega
      subst hMe
      have e : Bx * P + 2 * P = (Bx + 2) * P + 0 := by rw [Nat.add_mul]; omega
      rw [e]
      obtain ⟨d1, d2⟩ := decode_pack f hf s (Bx + 2) 0 (by omega) (by omega)
      rw [hPdef] at d1 d2
      refine ⟨pack_lt P (Bx + 2) 0 _ (by omega) (by omega), d1, P,
        ((Bx + 2 : Nat) : Int) - f.bias - f.mbits, ?_, by omega, by omega, ?_⟩
      · rw [d2, if_neg (by omega), Nat.zero_add]
      · have e2 : ((Bx + 2 : Nat) : Int) - f.bias - f.mbits = ((Bx : Int) + 1 - f.bias - f.mbits) + 1 := by
          omega
        rw [e2, pow2_succ, Rat.natCast_mul]
        simp only [Rat.natCast_ofNat]
        grind

/-- rounding zero -/
theorem roundPack_zero (f : Fmt) (hf : f.WF) (s : Bool) (e : Int) (st : Bool) :
    roundPack f s 0 e st = withSign f s 0 ∧ FinEnc f (withSign f s 0) ∧
    decode f (withSign f s 0) = .fin s 0 f.bin.emin := by
  have hP : 0 < 2 ^ f.mbits := Nat.two_pow_pos _
  have hx := hf.expMax_eq
  obtain ⟨d1, d2⟩ := decode_pack f hf s 0 0 (by omega) hP
  simp only [Nat.zero_mul, Nat.add_zero] at d1 d2
  refine ⟨?_, d1, ?_⟩
  · unfold roundPack; simp
  · rw [d2]; simp [Fmt.bin]

/-! ### the rounded significand -/

/-- the significand `roundPack` computes (no sticky bit): `m * 2^e / 2^q` rounded to nearest even -/
def rndM (m : Nat) (e q : Int) : Nat :=
  if q ≤ e then m <<< (e - q).toNat
  else
    let sh := (q - e).toNat
    let M0 := m >>> sh
    let rem := m % 2 ^ sh
    let half := 2 ^ (sh - 1)
    if rem > half || (rem == half && (false || M0 % 2 == 1)) then M0 + 1 else M0

theorem roundPack_eq (f : Fmt) (s : Bool) (m : Nat) (e : Int) (hm : m ≠ 0) :
    roundPack f s m e =
      withSign f s
        (if (max (e + Nat.log2 m + f.bias - 1) 0).toNat * 2 ^ f.mbits +
              rndM m e (max (e + Nat.log2 m + f.bias - 1) 0 + 1 - f.bias - f.mbits) ≥ f.infBits
          then f.infBits
          else (max (e + Nat.log2 m + f.bias - 1) 0).toNat * 2 ^ f.mbits +
              rndM m e (max (e + Nat.log2 m + f.bias - 1) 0 + 1 - f.bias - f.mbits)) := by
  have : (m == 0) = false := by simpa using hm
  unfold roundPack rndM
  simp only [this]
  rfl

theorem rndM_exact (m : Nat) (e q : Int) (h : q ≤ e) : rndM m e q = m * 2 ^ (e - q).toNat := by
  unfold rndM; rw [if_pos h, Nat.shiftLeft_eq]

theorem rndM_half (m : Nat) (e q : Int) (h : e < q) :
    2 * (rndM m e q * 2 ^ (q - e).toNat) ≤ 2 * m + 2 ^ (q - e).toNat ∧
    2 * m ≤ 2 * (rndM m e q * 2 ^ (q - e).toNat) + 2 ^ (q - e).toNat := by
  unfold rndM; rw [if_neg (by omega)]
  simp only [Nat.shiftRight_eq_div_pow]
  have hsh : (q - e).toNat = ((q - e).toNat - 1) + 1 := by omega
  have hS : 2 ^ (q - e).toNat = 2 * 2 ^ ((q - e).toNat - 1) := by
    conv => lhs; rw [hsh, Nat.pow_succ]
    omega
  generalize (q - e).toNat - 1 = k at *
  generalize (q - e).toNat = sh at *
  have hdm := Nat.div_add_mod m (2 ^ sh)
  have hrem : m % 2 ^ sh < 2 ^ sh := Nat.mod_lt _ (Nat.two_pow_pos _)
  have hmul : (m / 2 ^ sh + 1) * 2 ^ sh = 2 ^ sh * (m / 2 ^ sh) + 2 ^ sh := by
    rw [Nat.add_mul, Nat.mul_comm]; omega
  have hmul0 : (m / 2 ^ sh) * 2 ^ sh = 2 ^ sh * (m / 2 ^ sh) := Nat.mul_comm _ _
  generalize 2 ^ k = half at *
  generalize m % 2 ^ sh = rem at *
  generalize m / 2 ^ sh = M0 at *
  generalize 2 ^ sh = S at *
  generalize S * M0 = Z at *
  split
  · rename_i hc
    rw [hmul]
    simp at hc
    omega
  · rename_i hc
    rw [hmul0]
    simp at hc
    omega

theorem pow2_toNat (k : Int) (h : 0 ≤ k) : pow2 k = ((2 ^ k.toNat : Nat) : Rat) := by
  rw [← pow2_nat]; congr 1; omega

theorem pow2_mul_cancel (a b : Int) (h : a + b = 0) : pow2 a * pow2 b = 1 := by
  rw [← pow2_add, h, pow2_zero]

/-- `rndM m e q` is an integer nearest to `m * 2^(e-q)` -/
theorem rndM_near (m : Nat) (e q : Int) :
    (rndM m e q : Rat) - (m : Rat) * pow2 (e - q) ≤ 1 / 2 ∧
    (m : Rat) * pow2 (e - q) - (rndM m e q : Rat) ≤ 1 / 2 := by
  by_cases h : q ≤ e
  · rw [rndM_exact m e q h, Rat.natCast_mul, ← pow2_toNat (e - q) (by omega)]
    constructor <;> grind
  · have h' : e < q := by omega
    obtain ⟨h1, h2⟩ := rndM_half m e q h'
    have hS : pow2 (q - e) = ((2 ^ (q - e).toNat : Nat) : Rat) := pow2_toNat _ (by omega)
    have h1' := Rat.natCast_le_natCast.2 h1
    have h2' := Rat.natCast_le_natCast.2 h2
    generalize rndM m e q = M at *
    generalize 2 ^ (q - e).toNat = S at *
    push_cast at h1' h2'
    rw [← hS] at h1' h2'
    have hpos := pow2_pos (q - e)
    have hc := pow2_mul_cancel (e - q) (q - e) (by omega)
    generalize pow2 (q - e) = X at *
    generalize pow2 (e - q) = Y at *
    have hmYX : (m : Rat) * Y * X = m := by rw [Rat.mul_assoc, hc, Rat.mul_one]
    clear h1 h2 hS hc
    constructor
    · have : (2 * (M : Rat)) * X ≤ (2 * ((m : Rat) * Y) + 1) * X := by grind
      have := Rat.le_of_mul_le_mul_right this hpos
      grind
    · have : (2 * ((m : Rat) * Y)) * X ≤ (2 * (M : Rat) + 1) * X := by grind
      have := Rat.le_of_mul_le_mul_right this hpos
      grind

/-! ### nearest integers -/

theorem near_int (M N : Nat) (t : Rat) (h1 : (M : Rat) - t ≤ 1 / 2) (h2 : t - (M : Rat) ≤ 1 / 2) :
    ((M : Rat) - t ≤ N - t ∨ (M : Rat) - t ≤ t - N) ∧ (t - (M : Rat) ≤ N - t ∨ t - (M : Rat) ≤ t - N) := by
  rcases Nat.lt_trichotomy M N with h | h | h
  · have : ((M + 1 : Nat) : Rat) ≤ (N : Rat) := Rat.natCast_le_natCast.2 h
    push_cast at this
    constructor
    · left; grind
    · left; grind
  · subst h
    constructor
    · left; grind
    · right; grind
  · have : ((N + 1 : Nat) : Rat) ≤ (M : Rat) := Rat.natCast_le_natCast.2 h
    push_cast at this
    constructor
    · right; grind
    · right; grind

theorem near_int_le (M N : Nat) (t : Rat) (h1 : (M : Rat) - t ≤ 1 / 2) (ht : t < (N : Rat)) : M ≤ N := by
  have : ((2 * M : Nat) : Rat) < ((2 * N + 1 : Nat) : Rat) := by push_cast; grind
  have := Rat.natCast_lt_natCast.1 this
  omega

theorem near_int_ge (M N : Nat) (t : Rat) (h2 : t - (M : Rat) ≤ 1 / 2) (ht : (N : Rat) ≤ t) : N ≤ M := by
  have : ((2 * N : Nat) : Rat) ≤ ((2 * M + 1 : Nat) : Rat) := by push_cast; grind
  have := Rat.natCast_le_natCast.1 this
  omega

/-- the same on the grid of multiples of `X` -/
theorem near_grid (M N : Nat) (t X : Rat) (hX : 0 < X) (h1 : (M : Rat) - t ≤ 1 / 2)
    (h2 : t - (M : Rat) ≤ 1 / 2) :
    ((M : Rat) * X - t * X ≤ N * X - t * X ∨ (M : Rat) * X - t * X ≤ t * X - N * X) ∧
    (t * X - (M : Rat) * X ≤ N * X - t * X ∨ t * X - (M : Rat) * X ≤ t * X - N * X) := by
  have hX' : 0 ≤ X := Rat.le_of_lt hX
  obtain ⟨a, b⟩ := near_int M N t h1 h2
  constructor
  · rcases a with a | a
    · left; have := Rat.mul_le_mul_of_nonneg_right a hX'; grind
    · right; have := Rat.mul_le_mul_of_nonneg_right a hX'; grind
  · rcases b with b | b
    · left; have := Rat.mul_le_mul_of_nonneg_right b hX'; grind
    · right; have := Rat.mul_le_mul_of_nonneg_right b hX'; grind

theorem log2_bounds (m : Nat) (hm : m ≠ 0) (e : Int) :
    pow2 (e + Nat.log2 m) ≤ (m : Rat) * pow2 e ∧ (m : Rat) * pow2 e < pow2 (e + Nat.log2 m + 1) := by
  have h1 : ((2 ^ Nat.log2 m : Nat) : Rat) ≤ (m : Rat) := Rat.natCast_le_natCast.2 (Nat.log2_self_le hm)
  have h2 : (m : Rat) < ((2 ^ (Nat.log2 m + 1) : Nat) : Rat) := Rat.natCast_lt_natCast.2 Nat.lt_log2_self
  rw [← pow2_nat] at h1 h2
  have hp := pow2_pos e
  constructor
  · rw [pow2_add, Rat.mul_comm]
    exact Rat.mul_le_mul_of_nonneg_right h1 (Rat.le_of_lt hp)
  · have e1 : e + (Nat.log2 m : Int) + 1 = ((Nat.log2 m + 1 : Nat) : Int) + e := by omega
    rw [e1, pow2_add]
    exact Rat.mul_lt_mul_of_pos_right h2 hp

theorem val_split (m : Nat) (e q : Int) : (m : Rat) * pow2 e = (m : Rat) * pow2 (e - q) * pow2 q := by
  rw [Rat.mul_assoc, pow2_sub]

theorem half_err (m : Nat) (e q : Int) (M : Nat)
    (hM1 : (M : Rat) - (m : Rat) * pow2 (e - q) ≤ 1 / 2)
    (hM2 : (m : Rat) * pow2 (e - q) - (M : Rat) ≤ 1 / 2) :
    (M : Rat) * pow2 q - (m : Rat) * pow2 e ≤ pow2 (q - 1) ∧
    (m : Rat) * pow2 e - (M : Rat) * pow2 q ≤ pow2 (q - 1) := by
  rw [val_split m e q, pow2_pred]
  have hX := Rat.le_of_lt (pow2_pos q)
  have a := Rat.mul_le_mul_of_nonneg_right hM1 hX
  have b := Rat.mul_le_mul_of_nonneg_right hM2 hX
  generalize pow2 q = X at *
  generalize (m : Rat) * pow2 (e - q) = t at *
  constructor <;> grind

theorem rn_err (f : Fmt) (m : Nat) (e q E : Int) (M : Nat)
    (hE1 : pow2 E ≤ (m : Rat) * pow2 e) (hE2 : (m : Rat) * pow2 e < pow2 (E + 1))
    (hq : (0 ≤ E + f.bias - 1 ∧ q = E - f.mbits) ∨ (E + f.bias - 1 < 0 ∧ q = 1 - f.bias - f.mbits))
    (hM1 : (M : Rat) - (m : Rat) * pow2 (e - q) ≤ 1 / 2)
    (hM2 : (m : Rat) * pow2 (e - q) - (M : Rat) ≤ 1 / 2) :
    ((M : Rat) * pow2 q - (m : Rat) * pow2 e ≤ f.bin.u * ((m : Rat) * pow2 e) ∧
      (m : Rat) * pow2 e - (M : Rat) * pow2 q ≤ f.bin.u * ((m : Rat) * pow2 e)) ∨
    ((m : Rat) * pow2 e < f.bin.tiny ∧ (M : Rat) * pow2 q - (m : Rat) * pow2 e ≤ f.bin.eta ∧
      (m : Rat) * pow2 e - (M : Rat) * pow2 q ≤ f.bin.eta) := by
  obtain ⟨a, b⟩ := half_err m e q M hM1 hM2
  rcases hq with ⟨h0, hq⟩ | ⟨h0, hq⟩
  · left
    have hu : f.bin.u * pow2 E = pow2 (q - 1) := by
      show pow2 (-((f.mbits + 1 : Nat) : Int)) * pow2 E = _
      rw [← pow2_add]; congr 1; omega
    have hupos : 0 ≤ f.bin.u := Rat.le_of_lt (pow2_pos _)
    have := Rat.mul_le_mul_of_nonneg_left hE1 hupos
    rw [hu] at this
    exact ⟨Rat.le_trans a this, Rat.le_trans b this⟩
  · right
    have ht : pow2 (E + 1) ≤ f.bin.tiny := by
      show _ ≤ pow2 ((1 - (f.bias : Int) - f.mbits) + ((f.mbits + 1 : Nat) : Int) - 1)
      apply pow2_mono; omega
    have he : f.bin.eta = pow2 (q - 1) := by
      show pow2 ((1 - (f.bias : Int) - f.mbits) - 1) = _
      rw [hq]
    rw [he]
    exact ⟨by grind, a, b⟩

theorem rn_nearest (f : Fmt) (m : Nat) (e q E : Int) (M : Nat)
    (hE1 : pow2 E ≤ (m : Rat) * pow2 e)
    (hq : q = E - f.mbits ∨ q = 1 - f.bias - f.mbits)
    (hM1 : (M : Rat) - (m : Rat) * pow2 (e - q) ≤ 1 / 2)
    (hM2 : (m : Rat) * pow2 (e - q) - (M : Rat) ≤ 1 / 2) (w : Rat) (hw : Rep f.bin w) :
    ((M : Rat) * pow2 q - (m : Rat) * pow2 e ≤ w - (m : Rat) * pow2 e ∨
      (M : Rat) * pow2 q - (m : Rat) * pow2 e ≤ (m : Rat) * pow2 e - w) ∧
    ((m : Rat) * pow2 e - (M : Rat) * pow2 q ≤ w - (m : Rat) * pow2 e ∨
      (m : Rat) * pow2 e - (M : Rat) * pow2 q ≤ (m : Rat) * pow2 e - w) := by
  obtain ⟨m0, e0, hm0, he0, rfl⟩ := hw
  have hm0 : m0 < 2 ^ (f.mbits + 1) := hm0
  have he0 : 1 - (f.bias : Int) - f.mbits ≤ e0 := he0
  have hX := pow2_pos q
  by_cases hc : q ≤ e0
  · -- `w` is on the grid of multiples of `2^q`
    have hw : (m0 : Rat) * pow2 e0 = ((m0 * 2 ^ (e0 - q).toNat : Nat) : Rat) * pow2 q := by
      rw [Rat.natCast_mul, ← pow2_toNat (e0 - q) (by omega), Rat.mul_assoc, pow2_sub]
    rw [hw, val_split m e q]
    exact near_grid M _ _ _ hX hM1 hM2
  · -- `w` is below the binade of `v`; the lower end of the binade is on the grid
    have hq' : q = E - f.mbits := by omega
    have hg : pow2 E = ((2 ^ f.mbits : Nat) : Rat) * pow2 q := by
      rw [← pow2_nat, ← pow2_add]; congr 1; omega
    have hwlt : (m0 : Rat) * pow2 e0 ≤ pow2 E := by
      have h1 : (m0 : Rat) < ((2 ^ (f.mbits + 1) : Nat) : Rat) := Rat.natCast_lt_natCast.2 hm0
      rw [← pow2_nat] at h1
      have h2 := Rat.mul_lt_mul_of_pos_right h1 (pow2_pos e0)
      rw [← pow2_add] at h2
      have h3 : pow2 (((f.mbits + 1 : Nat) : Int) + e0) ≤ pow2 E := pow2_mono (by omega)
      grind
    have key := near_grid M (2 ^ f.mbits) _ _ hX hM1 hM2
    rw [← hg, ← val_split m e q] at key
    generalize (m : Rat) * pow2 e = v at *
    generalize (M : Rat) * pow2 q = r at *
    generalize (m0 : Rat) * pow2 e0 = w at *
    generalize pow2 E = g at *
    obtain ⟨k1, k2⟩ := key
    constructor
    · right; grind
    · right; grind

theorem rn_core (f : Fmt) (hf : f.WF) (s : Bool) (m : Nat) (e : Int) (hm : m ≠ 0)
    (hv : (m : Rat) * pow2 e < pow2 f.bias) (Bx : Nat)
    (hB : (Bx : Int) = max (e + Nat.log2 m + f.bias - 1) 0) (M : Nat)
    (hM1 : (M : Rat) - (m : Rat) * pow2 (e - ((Bx : Int) + 1 - f.bias - f.mbits)) ≤ 1 / 2)
    (hM2 : (m : Rat) * pow2 (e - ((Bx : Int) + 1 - f.bias - f.mbits)) - (M : Rat) ≤ 1 / 2) :
    Bx * 2 ^ f.mbits + M < f.infBits ∧
    FinEnc f (withSign f s (Bx * 2 ^ f.mbits + M)) ∧
    ∃ M' e', decode f (withSign f s (Bx * 2 ^ f.mbits + M)) = .fin s M' e' ∧
      M' < 2 ^ (f.mbits + 1) ∧ f.bin.emin ≤ e' ∧
      RN f.bin ((m : Rat) * pow2 e) ((M' : Rat) * pow2 e') := by
  obtain ⟨hE1, hE2⟩ := log2_bounds m hm e
  have hE : e + (Nat.log2 m : Int) < f.bias := by
    apply pow2_lt_iff.1; grind
  have hx := hf.expMax_eq
  have hb := hf.bias_pos
  generalize hq : (Bx : Int) + 1 - f.bias - f.mbits = q at *
  generalize hEdef : e + (Nat.log2 m : Int) = E at *
  obtain ⟨ht1, ht2⟩ := log2_bounds m hm (e - q)
  have hEq : e - q + (Nat.log2 m : Int) = E - q := by omega
  rw [hEq] at ht1 ht2
  -- the rounded significand fits
  have hMle : M ≤ 2 ^ (f.mbits + 1) := by
    apply near_int_le M _ _ hM1
    rw [← pow2_nat]
    have : pow2 (E - q + 1) ≤ pow2 ((f.mbits + 1 : Nat) : Int) := pow2_mono (by omega)
    grind
  have hMge : M < 2 ^ f.mbits → Bx = 0 := by
    intro hlt
    apply Decidable.byContradiction; intro hne
    have : 2 ^ f.mbits ≤ M := by
      apply near_int_ge M _ _ hM2
      rw [← pow2_nat]
      have : pow2 (f.mbits : Int) ≤ pow2 (E - q) := pow2_mono (by omega)
      grind
    omega
  obtain ⟨hlt, hfe, M', e', hd, hM', he', hval⟩ := pack_ok f hf s Bx M hMle hMge (by omega)
  refine ⟨hlt, hfe, M', e', hd, hM', he', ?_⟩
  rw [hq] at hval
  rw [hval]
  refine ⟨?_, ?_, ?_⟩
  · rw [← hval]; exact ⟨M', e', hM', he', rfl⟩
  · exact rn_nearest f m e q E M hE1 (by omega) hM1 hM2
  · exact rn_err f m e q E M hE1 hE2 (by omega) hM1 hM2

/-- THE MODEL LEMMA.  `roundPack f s m e` (without sticky bit) is a finite
    encoding with sign `s` whose magnitude is `m * 2^e` rounded to nearest
    (`RN`: a value of the format, none closer, relative error ≤ 2^-(mbits+1) in
    the normal range / absolute error ≤ half the smallest subnormal below it),
    provided `m * 2^e < 2^bias` (no overflow). -/
theorem roundPack_rn (f : Fmt) (hf : f.WF) (s : Bool) (m : Nat) (e : Int) (hm : 0 < m)
    (hv : (m : Rat) * pow2 e < pow2 f.bias) :
    FinEnc f (roundPack f s m e) ∧
    ∃ M e', decode f (roundPack f s m e) = .fin s M e' ∧ M < 2 ^ (f.mbits + 1) ∧ f.bin.emin ≤ e' ∧
      RN f.bin ((m : Rat) * pow2 e) ((M : Rat) * pow2 e') := by
  have hm' : m ≠ 0 := by omega
  rw [roundPack_eq f s m e hm']
  have hB : (((max (e + (Nat.log2 m : Int) + f.bias - 1) 0).toNat : Nat) : Int) =
      max (e + (Nat.log2 m : Int) + f.bias - 1) 0 := by omega
  generalize (max (e + (Nat.log2 m : Int) + f.bias - 1) 0).toNat = Bx at *
  rw [← hB]
  obtain ⟨n1, n2⟩ := rndM_near m e ((Bx : Int) + 1 - f.bias - f.mbits)
  obtain ⟨hlt, rest⟩ := rn_core f hf s m e hm' hv Bx hB _ n1 n2
  rw [if_neg (by omega)]
  exact rest

end Igris.C12
