import IgrisModel.C12.Model
/-!
  C12 — transcriptions of the routines as they were BEFORE the `fix:` commits of
  branch fix-C12 (only what the historical witnesses of Props.lean need).
-/
namespace Igris.C12
open FloatLike

/-- the original exponent block of igris_atof64: the 'e' and the sign are consumed
    unconditionally, the '-' is assigned to the MANTISSA sign (`sign = -1`), the
    accumulator is a plain `int` (overflow not modelled here);
    returns (mantissa sign forced negative, e_val, rest) -/
def expDigitsOrig : List Nat → Nat → Option (Nat × List Nat)
  | [], _ => none
  | c :: rest, ev => if isDigit c then expDigitsOrig rest (ev * 10 + (c - 48)) else some (ev, c :: rest)

def parseExpOrig (p : List Nat) : Option (Bool × Nat × List Nat) :=
  match p with
  | [] => none
  | c :: q =>
    if c = 69 ∨ c = 101 then
      match q with
      | [] => none
      | s :: q2 =>
        let q' := if s = 43 ∨ s = 45 then q2 else q
        (expDigitsOrig q' 0).map (fun (ev, r) => (decide (s = 45), ev, r))
    else some (false, 0, p)

def atof64Orig {F : Type} [FloatLike F] (s : List Nat) : Option (F × Nat) :=
  match s with
  | [] => none
  | c0 :: s1 =>
    let neg := c0 = 45
    let p := if c0 = 43 ∨ c0 = 45 then s1 else s
    match mantLoop p (ofInt 0 : F) 0 with
    | none => none
    | some (val, _, p) =>
      match p with
      | [] => none
      | c :: q =>
        match (if c = 46 then mantLoop q val 0 else some (val, 0, p)) with
        | none => none
        | some (val, nfrac, p) =>
          match parseExpOrig p with
          | none => none
          | some (forceNeg, ev, p) =>
            -- e_sign stays +1
            let d : Int := (ev : Int) - nfrac
            let val := scale64 val d
            some (mul (ofInt (if neg ∨ forceNeg then -1 else 1)) val, s.length - p.length)

/-- the original igris_atof32 (with C07's repaired atou32/atou64): `none` also
    stands for "returned 0 and left *pend unset" -/
def atof32Orig {F D : Type} [FloatLike F] [FloatLike D] (cvt : D → F) (s : List Nat) : Option (F × Nat) :=
  match s with
  | [] => none
  | c0 :: s1 =>
    if ¬ isDigit c0 ∧ c0 ≠ 45 then none
    else
      let minus := c0 = 45
      let p := if minus then s1 else s
      match atou10 (2 ^ 32) p 0 0 with
      | none => none
      | some (u, _, p) =>
        match atof32Frac (D := D) cvt u p with
        | none => none
        | some (ret, p) => some (if minus then neg ret else ret, s.length - p.length)

/-- the original debug_printdec_double_prec: a '0' for every step at which the
    scaled fraction is still below 1, then the rounded scaled fraction -/
def dprintOrigLoop {D : Type} [FloatLike D] : Nat → D → Option (D × List Nat)
  | 0, o => some (o, [])
  | k + 1, o =>
    let o := mul o (ofInt 10)
    match trunc o with
    | none => none
    | some t =>
      if t < -2147483648 ∨ 2147483647 < t then none
      else (dprintOrigLoop k o).map fun (o', zs) => (o', (if t = 0 then [48] else []) ++ zs)

def dprintDoubleOrig {D : Type} [FloatLike D] (a : D) (prec : Int) : Option (List Nat) :=
  if isNaN a then some tokNan
  else if isInf a then some ((if lt (ofInt 0) a then 43 else 45) :: tokInf)
  else
    let neg := lt a (ofInt 0)
    let a := if neg then FloatLike.neg a else a
    let sign : List Nat := if neg then [45] else []
    match trunc a with
    | none => none
    | some n =>
      if n < 0 ∨ 2 ^ 64 ≤ n then none
      else
        match dprintOrigLoop prec.toNat (sub a (ofInt n)) with
        | none => none
        | some (o, zeros) =>
          match trunc (add o (lit 5 1)) with
          | none => none
          | some fr =>
            if fr < -(2 ^ 63) ∨ 2 ^ 63 ≤ fr then none
            else some (sign ++ decText n.toNat ++ 46 :: (zeros ++ decText fr.toNat))

end Igris.C12
