import IgrisModel.C12.LemParse
import IgrisModel.C12.LemEnd
/-!
  C12 round 3 — "no digits -> no conversion" (`has_mantissa_digit`), the parser
  entry points, the exponent counters at their C width.
-/
namespace Igris.C12
open Spec FloatLike

namespace Spec
/-- the literal has a mantissa digit (in the integer part or in the fraction) -/
def Literal.hasDigit (L : Literal) : Bool := !L.ip.isEmpty || !L.fracDigits.isEmpty
end Spec

/-- `has_mantissa_digit` behind the optional sign -/
def afterSign (s : List Nat) : Option Bool :=
  match s with
  | [] => none
  | d :: s2 =>
    match (if d = 46 then s2 else d :: s2) with
    | [] => none
    | x :: _ => some (isDigit x)

theorem hasMantissaDigit_cons (c : Nat) (s1 : List Nat) :
    hasMantissaDigit (c :: s1) = afterSign (if c = 43 ∨ c = 45 then s1 else c :: s1) := by
  unfold hasMantissaDigit afterSign
  rfl

private theorem isDigit_of {d : Nat} (h : 48 ≤ d ∧ d ≤ 57) : isDigit d = true := (isDigit_iff d).mpr h

theorem afterSign_body (L : Literal) (rest : List Nat) (hwf : L.WF) (hst : Stops L rest) :
    afterSign (L.ip ++ Literal.fracText L.frac ++ Literal.expText L.exp ++ rest) = some L.hasDigit := by
  obtain ⟨sign, ip, frac, exp⟩ := L
  obtain ⟨hip, hfp, hexp⟩ := hwf
  have hndr := stops_nonDigitHead hst
  obtain ⟨_, _, _, hst4, _⟩ := hst
  simp only at hip hfp hexp hst4
  cases ip with
  | cons d ds =>
    have hd := (allDigits_cons.mp hip).1
    have h46 : d ≠ 46 := by omega
    simp [afterSign, h46, isDigit_of hd, Literal.hasDigit]
  | nil =>
    cases frac with
    | some fp =>
      cases fp with
      | cons f fs =>
        have hf := (allDigits_cons.mp (hfp _ rfl)).1
        simp [afterSign, Literal.fracText, isDigit_of hf, Literal.hasDigit, Literal.fracDigits]
      | nil =>
        cases exp with
        | some e =>
          obtain ⟨ch, s, ds⟩ := e
          obtain ⟨hch, _⟩ := hexp ch s ds rfl
          have : isDigit ch = false := by rw [isDigit_false_iff]; omega
          simp [afterSign, Literal.fracText, Literal.expText, this, Literal.hasDigit, Literal.fracDigits]
        | none =>
          obtain ⟨c, tl, rfl, hc⟩ := hndr
          have : isDigit c = false := by rw [isDigit_false_iff]; exact hc
          simp [afterSign, Literal.fracText, Literal.expText, this, Literal.hasDigit, Literal.fracDigits]
    | none =>
      cases exp with
      | some e =>
        obtain ⟨ch, s, ds⟩ := e
        obtain ⟨hch, _⟩ := hexp ch s ds rfl
        have : isDigit ch = false := by rw [isDigit_false_iff]; omega
        have h46 : ch ≠ 46 := by omega
        simp [afterSign, Literal.fracText, Literal.expText, this, h46, Literal.hasDigit, Literal.fracDigits]
      | none =>
        obtain ⟨c, tl, rfl, hc⟩ := hndr
        have : isDigit c = false := by rw [isDigit_false_iff]; exact hc
        have h46 : c ≠ 46 := by
          have := hst4 rfl rfl
          simpa using this
        simp [afterSign, Literal.fracText, Literal.expText, this, h46, Literal.hasDigit, Literal.fracDigits]

/-- `has_mantissa_digit` on a literal of the grammar followed by a tail that does not continue it:
    true exactly when the literal has a digit in its integer part or in its fraction -/
theorem hasMantissaDigit_literal (L : Literal) (rest : List Nat) (hwf : L.WF) (hst : Stops L rest) :
    hasMantissaDigit (L.text ++ rest) = some L.hasDigit := by
  have hb := afterSign_body L rest hwf hst
  cases hs : L.sign with
  | some b =>
    have ht : L.text ++ rest =
        (if b then 45 else 43) :: (L.ip ++ Literal.fracText L.frac ++ Literal.expText L.exp ++ rest) := by
      cases b <;> simp [Literal.text, hs, Literal.signText]
    rw [ht, hasMantissaDigit_cons]
    cases b <;> simpa using hb
  | none =>
    obtain ⟨c0, s1, hcs, h43, h45⟩ := body_head_not_sign L rest hwf hst hs
    have ht : L.text ++ rest = c0 :: s1 := by
      rw [← hcs]; simp [Literal.text, hs, Literal.signText]
    rw [ht, hasMantissaDigit_cons]
    have : ¬ (c0 = 43 ∨ c0 = 45) := by omega
    rw [if_neg this, ← hcs]
    exact hb

/-! ### the counters at their C width -/

theorem wrapInt32_id (i : Int) (h1 : -2147483648 ≤ i) (h2 : i ≤ 2147483647) : wrapInt32 i = i := by
  unfold wrapInt32; omega

/-- the saturating accumulator stays below 10^6, so the C `int e_val` never wraps: the loop over a
    wrapping 32-bit `int` computes what the loop over unbounded naturals computes -/
theorem expDigitsC_eq (p : List Nat) (ev : Nat) (h : ev ≤ 999999) :
    expDigitsC p (ev : Int) = (expDigits p ev).map (fun x => ((x.1 : Int), x.2)) := by
  induction p generalizing ev with
  | nil => rfl
  | cons c rest ih =>
    unfold expDigitsC expDigits
    by_cases hd : isDigit c = true
    · simp only [hd, if_true]
      have hc := (isDigit_iff c).mp hd
      by_cases hlt : ev < 100000
      · have hlt' : (ev : Int) < 100000 := by omega
        simp only [hlt, hlt', if_true]
        have hw : wrapInt32 ((ev : Int) * 10 + ((c : Int) - 48)) = ((ev * 10 + (c - 48) : Nat) : Int) := by
          rw [wrapInt32_id] <;> omega
        rw [hw]
        exact ih _ (by omega)
      · have hlt' : ¬ (ev : Int) < 100000 := by omega
        simp only [hlt, hlt', if_false]
        exact ih _ h
    · simp [hd]

theorem expDigits_le (p : List Nat) (ev : Nat) (h : ev ≤ 999999) (e : Nat) (r : List Nat)
    (hr : expDigits p ev = some (e, r)) : e ≤ 999999 := by
  induction p generalizing ev with
  | nil => simp [expDigits] at hr
  | cons c rest ih =>
    unfold expDigits at hr
    by_cases hd : isDigit c = true
    · simp only [hd, if_true] at hr
      have hc := (isDigit_iff c).mp hd
      by_cases hlt : ev < 100000
      · simp only [hlt, if_true] at hr
        exact ih _ (by omega) hr
      · simp only [hlt, if_false] at hr
        exact ih _ h hr
    · simp [hd] at hr
      omega

/-- `int d` of igris_atof64 does not wrap as long as the literal has fewer than 2^31 - 10^6 fraction digits -/
theorem deltaC_eq (nfrac : Nat) (eneg : Bool) (ev : Nat) (he : ev ≤ 999999) (hn : nfrac ≤ 2146483648) :
    deltaC nfrac eneg (ev : Int) = (if eneg then -(ev : Int) else ev) - nfrac := by
  unfold deltaC wrapInt32
  cases eneg <;> simp <;> omega

end Igris.C12
