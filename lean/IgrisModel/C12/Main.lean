import IgrisModel.C12.Model
import IgrisModel.Common.Proto
open Igris.Proto Igris.C12 Igris.C12.FloatLike

/-! Line-protocol driver of C12: the model runs on the software binary32/binary64 instance. -/

def textHex (t : List Nat) : String :=
  if t.isEmpty then "-" else String.join (t.map fun c => hexOfNat 2 c)

def showF32 (x : F32) : String := if sfIsNaN b32 x.bits then "nan" else hexOfNat 8 x.bits
def showF64 (x : F64) : String := if sfIsNaN b64 x.bits then "nan" else hexOfNat 16 x.bits

def int8 (i : Int) : Int := let r := i % 256; if r ≥ 128 then r - 256 else r

/-- the recorded out-of-range class of the renderer, on the encoding -/
def f32OutOfRange (b : Nat) : Bool :=
  let e := b / 2 ^ 23 % 256
  e ≥ 158 && e != 255

def fnvStep (h : UInt64) (c : Nat) : UInt64 := (h ^^^ UInt64.ofNat c) * 0x100000001b3

def ftoaLine (r : Option (List Nat)) : String :=
  match r with
  | some t => textHex t ++ " r0"
  | none => "ub"

def hashRange (start n stride : Nat) (prec : Int) : String :=
  let rec go (k : Nat) (i : Nat) (h : UInt64) (done : Nat) : UInt64 × Nat :=
    match k with
    | 0 => (h, done)
    | k + 1 =>
      let b := (start + i * stride) % 2 ^ 32
      if f32OutOfRange b then go k (i + 1) h done
      else
        match f32toa (⟨b⟩ : F32) prec with
        | some t =>
          let h := t.foldl fnvStep h
          let h := fnvStep (fnvStep h 0) 0
          go k (i + 1) h (done + 1)
        | none => go k (i + 1) (fnvStep h 255) (done + 1)
  let (h, done) := go n 0 0xcbf29ce484222325 0
  hexOfNat 16 h.toNat ++ " " ++ toString done

def atofLine32 (withEnd : Bool) (r : Option (F32 × Nat)) : String :=
  match r with
  | some (v, e) => showF32 v ++ (if withEnd then " e" ++ toString e else "")
  | none => "fault"

def atofLine64 (withEnd : Bool) (r : Option (F64 × Nat)) : String :=
  match r with
  | some (v, e) => showF64 v ++ (if withEnd then " e" ++ toString e else "")
  | none => "fault"

def sfOp (op : String) (a b : Nat) : Option String :=
  match op with
  | "add32" => some (showF32 ⟨sfAdd b32 a b⟩)
  | "sub32" => some (showF32 ⟨sfSub b32 a b⟩)
  | "mul32" => some (showF32 ⟨sfMul b32 a b⟩)
  | "add64" => some (showF64 ⟨sfAdd b64 a b⟩)
  | "sub64" => some (showF64 ⟨sfSub b64 a b⟩)
  | "mul64" => some (showF64 ⟨sfMul b64 a b⟩)
  | "div64" => some (showF64 ⟨sfDiv b64 a b⟩)
  | "div32" => some (showF32 ⟨sfDiv b32 a b⟩)
  | "rp32" => some (showF32 ⟨roundPack b32 false a ((b : Int) - 4096)⟩)
  | "rp64" => some (showF64 ⟨roundPack b64 false a ((b : Int) - 4096)⟩)
  | "cvt" => some (showF32 (F64.toF32 ⟨a⟩))
  | "ext" => some (showF64 (F32.toF64 ⟨a⟩))
  | "m10" => some (showF32 (mul10 (⟨a⟩ : F32)))
  | "i2f" => some (showF32 (ofInt (toInt64 a)))
  | "u2f" => some (showF32 (ofInt (a % 2 ^ 32 : Nat)))
  | "i2d" => some (showF64 (ofInt (toInt64 a)))
  | "u2d" => some (showF64 (ofInt (a : Nat)))
  | "lt32" => some (if sfLt b32 a b then "1" else "0")
  | "lt64" => some (if sfLt b64 a b then "1" else "0")
  | "tr32" =>
    match sfTrunc b32 a with
    | some t => some (if t.natAbs < 2 ^ 63 then toString t else "ovf")
    | none => some "ovf"
  | "tr64" =>
    match sfTrunc b64 a with
    | some t => some (if t.natAbs < 2 ^ 63 then toString t else "ovf")
    | none => some "ovf"
  | _ => none

def tblLine : String :=
  toString MAX_PRECISION ++ String.join ((List.range (MAX_PRECISION + 1)).map fun i =>
    let d : F64 := ⟨sfLit b64 5 (i + 1)⟩
    " " ++ showF64 d ++ ":" ++ showF32 (rounder i : F32))

def stepLine (_ : Unit) (line : String) : Unit × String :=
  let r : Option String :=
    match words line with
    | ["tbl"] => some tblLine
    | ["f32", b, p] => do
        let b ← parseHexNat? b
        let p ← parseInt? p
        pure (ftoaLine (f32toa (⟨b⟩ : F32) (int8 p)))
    | ["f64", b, p] => do
        let b ← parseHexNat? b
        let p ← parseInt? p
        pure (ftoaLine (f64toa F64.toF32 (⟨b⟩ : F64) (int8 p)))
    | ["ftoa", b, p] => do
        let b ← parseHexNat? b
        let p ← parseInt? p
        pure (ftoaLine (f64toa F64.toF32 (⟨b⟩ : F64) (int8 p)))
    | ["f32h", s, n, st, p] => do
        let s ← parseHexNat? s
        let n ← n.toNat?
        let st ← st.toNat?
        let p ← parseInt? p
        pure (hashRange s n st (int8 p))
    | ["sweep", _, n, _] => some ("swept " ++ n)
    | ["a32", m] => do
        let m ← parseBytes? m
        pure (atofLine32 true (atof32 F64.toF32 (m.map (·.toNat))))
    | ["brf", m] => do
        let m ← parseBytes? m
        pure (atofLine32 true (atof32 F64.toF32 (m.map (·.toNat))))
    | ["a32n", m] => do
        let m ← parseBytes? m
        pure (atofLine32 false (atof32 F64.toF32 (m.map (·.toNat))))
    | ["a64", m] => do
        let m ← parseBytes? m
        pure (atofLine64 true (atof64 (m.map (·.toNat))))
    | ["a64u", m] => do
        let m ← parseBytes? m
        pure (atofLine64 true (atof64 (m.map (·.toNat))))
    | ["strtod", m] => do
        let m ← parseBytes? m
        pure (atofLine64 true (atof64 (m.map (·.toNat))))
    | ["atof", m] => do
        let m ← parseBytes? m
        pure (atofLine64 false (atof64 (m.map (·.toNat))))
    | ["dpd", b, p] => do
        let b ← parseHexNat? b
        let p ← parseInt? p
        pure (match dprintDouble (⟨b⟩ : F64) p with | some t => textHex t | none => "ub")
    | ["dpf", b, p] => do
        let b ← parseHexNat? b
        let p ← parseInt? p
        pure (match dprintDouble (F32.toF64 ⟨b⟩) p with | some t => textHex t | none => "ub")
    | ["sf", op, a] => do
        let a ← parseHexNat? a
        sfOp op a 0
    | ["sf", op, a, b] => do
        let a ← parseHexNat? a
        let b ← parseHexNat? b
        sfOp op a b
    | _ => none
  ((), r.getD "bad-op")

def main : IO Unit := run () stepLine
