import IgrisModel.C12.Model
import IgrisModel.C12.Canon
import IgrisModel.Common.Proto
open Igris.Proto Igris.C12 Igris.C12.FloatLike Igris.C12.Canon

/-! Line-protocol driver of C12: the model runs on the software binary32/binary64 instance. -/

def textHex (t : List Nat) : String :=
  if t.isEmpty then "-" else String.join (t.map fun c => hexOfNat 2 c)

def showF32 (x : F32) : String := if sfIsNaN b32 x.bits then "nan" else hexOfNat 8 x.bits
def showF64 (x : F64) : String := if sfIsNaN b64 x.bits then "nan" else hexOfNat 16 x.bits

def int8 (i : Int) : Int := let r := i % 256; if r ≥ 128 then r - 256 else r

/-- the recorded out-of-range class of the renderer, on the encoding -/
def f32OutOfRange (b : Nat) : Bool :=
  let e := b / 2 ^ 23 % 256
  e ≥ 158 && e != 255

def fnvStep (h : UInt64) (c : Nat) : UInt64 := (h ^^^ UInt64.ofNat c) * 0x100000001b3

def ftoaLine (r : Option (List Nat)) : String :=
  match r with
  | some t => textHex t ++ " r0"
  | none => "ub"

/-! round 3b: the TOLERANT observable (see Canon.lean).  A line carries the correctly rounded reference (a function
    of the input alone), what the property fixes exactly (sign / class / end offset / returned pointer / tokens) and
    the verdict "the model's own result lies within the allowance of the harness oracle" - never the model's own
    bits or digits: the property grants "a few ulps" / "one unit of the last digit". -/

def verdictStr (b : Bool) : String := if b then "within" else "outside"

/-- parser ops.  `single`: accuracy and reference of binary32; `is32`: the result is a `float32_t` (8 hex digits),
    otherwise a double (a widened float for the WITHOUT_ATOF64 flavours); `own` = encoding of the model's result in
    the result type and the end offset -/
structure ParseRec where
  refBits : Nat     -- encoding of the reference in the result type
  width : Nat       -- bytes of the result type
  cls : Nat
  endOff : Nat
  ok : Bool

def parseRec (single is32 strict : Bool) (s : List Nat) (ob e : Nat) : ParseRec :=
  let L := matchLit s
  let rf := if single then b32 else b64
  let rb := refBits rf L
  let of := if is32 then b32 else b64
  let shown := if is32 then rb else if single then sfCvt b32 b64 rb else rb
  -- bit-identical to the reference (and not NaN): inside every allowance; otherwise the allowance over `Rat`
  let same := shown == ob && !sfIsNaN of ob
  let ok := same || atofWithin single strict L (valOf rf rb) (valOf of ob)
  { refBits := shown, width := if is32 then 4 else 8, cls := classOf rf L rb of ob, endOff := e, ok := ok }

def parseCanon (single is32 strict withEnd : Bool) (s : List Nat) (own : Option (Nat × Nat)) : String :=
  match own with
  | none => "fault"
  | some (ob, e) =>
    let c := parseRec single is32 strict s ob e
    hexOfNat (2 * c.width) c.refBits ++ " " ++ className c.cls ++ (if withEnd then " e" ++ toString e else "") ++ " " ++
      verdictStr c.ok

/-- renderer ops (igris_f32toa / f64toa / ftoa): argument encoding in `af`, the float the renderer works on in `fb` -/
def ftoaCanon (fromDouble : Bool) (af : Fmt) (ab : Nat) (fb : Nat) (prec8 : Int) (own : Option (List Nat)) : String :=
  match own with
  | none => "ub"
  | some t =>
    let tok (c : List Nat) := textHex c ++ " r0 " ++ verdictStr (t == c)
    match valOf b32 fb, valOf af ab with
    | .nan, _ => tok tokNan
    | _, .nan => tok tokNan
    | .inf s, .inf _ => tok ((if s then 45 else 43) :: tokInf)
    | _, .inf s => tok ((if s then 45 else 43) :: tokInf)
    | fv, .fin s a =>
      let (fneg, fa) : Bool × Rat := match fv with | .fin fs q => (fs && q != 0, q) | _ => (false, pow2Q 128)
      let p := effP fa prec8
      textHex (canonText s a p) ++ " r0 " ++ verdictStr (ftoaWithin fromDouble fneg a p t)

/-- debug printers -/
def dprintCanon (ab : Nat) (prec : Int) (own : Option (List Nat)) : String :=
  match own with
  | none => "ub"
  | some t =>
    let tok (c : List Nat) := textHex c ++ " " ++ verdictStr (t == c)
    match valOf b64 ab with
    | .nan => tok tokNan
    | .inf s => tok ((if s then 45 else 43) :: tokInf)
    | .fin s a =>
      let p : Nat := if prec > 18 then 18 else prec.toNat
      textHex (canonText s a p) ++ " " ++ verdictStr (dprintWithin (s && a != 0) a p t)

def fnvStr (h : UInt64) (s : String) : UInt64 := s.foldl (fun h c => fnvStep h c.toNat) h

def f32Line (b : Nat) (prec8 : Int) : String := ftoaCanon false b32 b b prec8 (f32toa (⟨b⟩ : F32) prec8)
def f64Line (b : Nat) (prec8 : Int) (own : Option (List Nat)) : String := ftoaCanon true b64 b (sfCvt b64 b32 b) prec8 own

def hashRange (start n stride : Nat) (prec : Int) : String :=
  let rec go (k : Nat) (i : Nat) (h : UInt64) (done : Nat) : UInt64 × Nat :=
    match k with
    | 0 => (h, done)
    | k + 1 =>
      let b := (start + i * stride) % 2 ^ 32
      if f32OutOfRange b then go k (i + 1) h done
      else go k (i + 1) (fnvStr h (f32Line b prec)) (done + 1)
  let (h, done) := go n 0 0xcbf29ce484222325 0
  hexOfNat 16 h.toNat ++ " " ++ toString done

def atofLine32 (withEnd : Bool) (s : List Nat) (r : Option (F32 × Nat)) : String :=
  parseCanon true true false withEnd s (r.map fun (v, e) => (v.bits, e))

/-- `single`: the double is a widened float (WITHOUT_ATOF64 flavour) -/
def atofLine64 (single strict withEnd : Bool) (s : List Nat) (r : Option (F64 × Nat)) : String :=
  parseCanon single false strict withEnd s (r.map fun (v, e) => (v.bits, e))

def sfOp (op : String) (a b : Nat) : Option String :=
  match op with
  | "add32" => some (showF32 ⟨sfAdd b32 a b⟩)
  | "sub32" => some (showF32 ⟨sfSub b32 a b⟩)
  | "mul32" => some (showF32 ⟨sfMul b32 a b⟩)
  | "add64" => some (showF64 ⟨sfAdd b64 a b⟩)
  | "sub64" => some (showF64 ⟨sfSub b64 a b⟩)
  | "mul64" => some (showF64 ⟨sfMul b64 a b⟩)
  | "div64" => some (showF64 ⟨sfDiv b64 a b⟩)
  | "div32" => some (showF32 ⟨sfDiv b32 a b⟩)
  | "rp32" => some (showF32 ⟨roundPack b32 false a ((b : Int) - 4096)⟩)
  | "rp64" => some (showF64 ⟨roundPack b64 false a ((b : Int) - 4096)⟩)
  | "cvt" => some (showF32 (F64.toF32 ⟨a⟩))
  | "ext" => some (showF64 (F32.toF64 ⟨a⟩))
  | "m10" => some (showF32 (mul10 (⟨a⟩ : F32)))
  | "i2f" => some (showF32 (ofInt (toInt64 a)))
  | "u2f" => some (showF32 (ofInt (a % 2 ^ 32 : Nat)))
  | "i2d" => some (showF64 (ofInt (toInt64 a)))
  | "u2d" => some (showF64 (ofInt (a : Nat)))
  | "lt32" => some (if sfLt b32 a b then "1" else "0")
  | "lt64" => some (if sfLt b64 a b then "1" else "0")
  | "tr32" =>
    match sfTrunc b32 a with
    | some t => some (if t.natAbs < 2 ^ 63 then toString t else "ovf")
    | none => some "ovf"
  | "tr64" =>
    match sfTrunc b64 a with
    | some t => some (if t.natAbs < 2 ^ 63 then toString t else "ovf")
    | none => some "ovf"
  | _ => none


/-! round 3: every parser entry point, hashed exhaustive batches, run-length coded long literals -/

def a32 (s : List Nat) : Option (F32 × Nat) := igrisAtof32 (D := F64) F64.toF32 s

/-- the strings of op `gx`: number `c` of length `len` over {+ - . e E 0 1 9 space x}, NUL terminated -/
def gxAlpha : Array Nat := #[43, 45, 46, 101, 69, 48, 49, 57, 32, 120]
def gxString : Nat → Nat → List Nat
  | 0, _ => [0]
  | k + 1, c => gxAlpha[c % 10]! :: gxString k (c / 10)

/- The nine entry points of one string.  The wrappers are, by definition, igrisAtof64 resp. igrisAtof32
   followed by a projection / widening (the `example`s below check that by `rfl`), so the driver
   evaluates each parser once per string. -/
example : @igrisStrtod F64 _ = @igrisAtof64 F64 _ := rfl
example : @compatStrtod F64 _ = @igrisAtof64 F64 _ := rfl
example (s : List Nat) : compatAtof (F := F64) s = (igrisAtof64 s).map (·.1) := rfl
example (s : List Nat) : binreaderFloat (D := F64) F64.toF32 s = a32 s := rfl
example (s : List Nat) : igrisStrtod32 F64.toF32 F32.toF64 s = (a32 s).map fun (v, e) => (F32.toF64 v, e) := rfl
example (s : List Nat) : compatStrtod32 F64.toF32 F32.toF64 s = (a32 s).map fun (v, e) => (F32.toF64 v, e) := rfl
example (s : List Nat) : compatAtof32 F64.toF32 F32.toF64 s = (a32 s).map fun (v, _) => F32.toF64 v := rfl

def feedLE (h : UInt64) : Nat → UInt64 → UInt64
  | 0, _ => h
  | n + 1, v => feedLE ((h ^^^ (v &&& 255)) * 0x100000001b3) n (v >>> 8)

def feedRec (h : UInt64) (withEnd : Bool) (c : Option ParseRec) : UInt64 :=
  match c with
  | none => fnvStep h 0xfd
  | some c =>
    let h := feedLE h c.width (UInt64.ofNat c.refBits)
    let h := fnvStep h c.cls
    let h := fnvStep h (if withEnd then c.endOff % 256 else 255)
    fnvStep h (if c.ok then 1 else 0)

def gxOne (h : UInt64) (s : List Nat) : UInt64 :=
  let r64 : Option (F64 × Nat) := igrisAtof64 s
  let r32 := a32 s
  let c64 := r64.map fun (v, e) => parseRec false false false s v.bits e
  let c32 := r32.map fun (v, e) => parseRec true true false s v.bits e
  let cw := r32.map fun (v, e) => parseRec true false false s (F32.toF64 v).bits e
  let h := feedRec h true c64      -- igris_atof64
  let h := feedRec h true c64      -- igris_strtod
  let h := feedRec h true c64      -- compat strtod
  let h := feedRec h false c64     -- compat atof
  let h := feedRec h true c32      -- igris_atof32
  let h := feedRec h true c32      -- binreader::read_ascii_decimal_float
  let h := feedRec h true cw       -- igris_strtod, WITHOUT_ATOF64
  let h := feedRec h true cw       -- compat strtod, WITHOUT_ATOF64
  feedRec h false cw               -- compat atof, WITHOUT_ATOF64

def gxBatch (len : Nat) : Nat → Nat → UInt64 → UInt64
  | 0, _, h => h
  | n + 1, c, h => gxBatch len n (c + 1) (gxOne h (gxString len c))

def parseKind (k : String) (s : List Nat) : Option String :=
  match k with
  | "a32" | "brf" => some (atofLine32 true s (a32 s))
  | "a32n" => some (atofLine32 false s (a32 s))
  | "a64" => some (atofLine64 false false true s (igrisAtof64 s))
  | "a64u" => some (atofLine64 false true true s (igrisAtof64 s))
  | "istd" => some (atofLine64 false false true s (igrisStrtod s))
  | "strtod" => some (atofLine64 false false true s (compatStrtod s))
  | "atof" => some (atofLine64 false false false s ((compatAtof (F := F64) s).map fun v => (v, 0)))
  | "istd32" => some (atofLine64 true false true s (igrisStrtod32 F64.toF32 F32.toF64 s))
  | "strtod32" => some (atofLine64 true false true s (compatStrtod32 F64.toF32 F32.toF64 s))
  | "atof32c" => some (atofLine64 true false false s ((compatAtof32 F64.toF32 F32.toF64 s).map fun v => (v, 0)))
  | _ => none

/-- `B1 N1 B2 N2 ...` -> N1 times the byte B1, ... -/
def expandRuns : List String → Option (List Nat)
  | [] => some []
  | [_] => none
  | b :: n :: rest => do
    let b ← parseHexNat? b
    let n ← n.toNat?
    let tl ← expandRuns rest
    pure (List.replicate n b ++ tl)

def bytesOf (t : String) : List Nat := t.toList.map (·.toNat)

def premainLine : String :=
  let z := fun (t : String) => bytesOf t ++ [0]
  "a64=" ++ atofLine64 false false true (z "-12.5e-1x") (igrisAtof64 (z "-12.5e-1x")) ++
  " a32=" ++ atofLine32 true (z "3.25e1") (a32 (z "3.25e1")) ++
  " istd=" ++ atofLine64 false false true (z "7.") (igrisStrtod (z "7.")) ++
  " strtod=" ++ atofLine64 false false true (z ".5e1") (compatStrtod (z ".5e1")) ++
  " istd32=" ++ atofLine64 true false true (z "2.5") (igrisStrtod32 F64.toF32 F32.toF64 (z "2.5")) ++
  " f32=" ++ f32Line 0x3dcccccd 6 ++
  " ftoa=" ++ f64Line 0x40934a456d5cfaad (-1) (f64toa F64.toF32 (⟨0x40934a456d5cfaad⟩ : F64) (-1))

def szLine : String :=
  "float32_t=4 float64_t=8 atof32=4 atof64=8 strtod=8 strtod32=8 ftoa32arg=4 int=4 maxprec=" ++ toString MAX_PRECISION

/-- op `tbl` (round 3b): the clamp and, for every precision, the canonical lines of 0.55e-p and 0.45e-p
    (`(float)` of the double literal) -/
def tblLine : String :=
  "maxprec=" ++ toString MAX_PRECISION ++ String.join ((List.range MAX_PRECISION).map fun i =>
    let p := i + 1
    let up : F32 := F64.toF32 ⟨sfLit b64 55 (p + 2)⟩
    let dn : F32 := F64.toF32 ⟨sfLit b64 45 (p + 2)⟩
    " " ++ f32Line up.bits p ++ " " ++ f32Line dn.bits p)

def stepLine (_ : Unit) (line : String) : Unit × String :=
  let r : Option String :=
    match words line with
    | ["tbl"] => some tblLine
    | ["f32", b, p] => do
        let b ← parseHexNat? b
        let p ← parseInt? p
        pure (f32Line b (int8 p))
    | ["f64", b, p] => do
        let b ← parseHexNat? b
        let p ← parseInt? p
        pure (f64Line b (int8 p) (f64toa F64.toF32 (⟨b⟩ : F64) (int8 p)))
    | ["ftoa", b, p] => do
        let b ← parseHexNat? b
        let p ← parseInt? p
        pure (f64Line b (int8 p) (f64toa F64.toF32 (⟨b⟩ : F64) (int8 p)))
    | ["ftoa32", b, p] => do
        let b ← parseHexNat? b
        let p ← parseInt? p
        pure (f64Line b (int8 p) (igrisFtoa32 F64.toF32 (⟨b⟩ : F64) (int8 p)))
    | ["f32h", s, n, st, p] => do
        let s ← parseHexNat? s
        let n ← n.toNat?
        let st ← st.toNat?
        let p ← parseInt? p
        pure (hashRange s n st (int8 p))
    | ["sweep", _, n, _] => some ("swept " ++ n)
    | ["sz"] => some szLine
    | ["premain"] => some premainLine
    | ["gx", len, c0, n] => do
        let len ← len.toNat?
        let c0 ← c0.toNat?
        let n ← n.toNat?
        pure (hexOfNat 16 (gxBatch len n c0 0xcbf29ce484222325).toNat ++ " " ++ toString n)
    | ["gxo", _, _, n] => some ("judged " ++ n)
    | "lng" :: k :: runs => do
        let m ← expandRuns runs
        parseKind k m
    | [k, m] => do
        let m ← parseBytes? m
        parseKind k (m.map (·.toNat))
    | ["dpd", b, p] => do
        let b ← parseHexNat? b
        let p ← parseInt? p
        pure (dprintCanon b p (dprintDouble (⟨b⟩ : F64) p))
    | ["dpf", b, p] => do
        let b ← parseHexNat? b
        let p ← parseInt? p
        pure (dprintCanon (F32.toF64 ⟨b⟩).bits p (dprintDouble (F32.toF64 ⟨b⟩) p))
    | ["sf", op, a] => do
        let a ← parseHexNat? a
        sfOp op a 0
    | ["sf", op, a, b] => do
        let a ← parseHexNat? a
        let b ← parseHexNat? b
        sfOp op a b
    | _ => none
  ((), r.getD "bad-op")

def main : IO Unit := run () stepLine
