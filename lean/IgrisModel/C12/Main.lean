import IgrisModel.C12.Model
import IgrisModel.Common.Proto
open Igris.Proto
def main : IO Unit := run () (fun _ _ => ((), "stub"))
