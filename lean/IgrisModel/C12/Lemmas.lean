import IgrisModel.C12.Model
import IgrisModel.C12.Spec
/-! C12 — lemmas, part 1: digit strings and the renderer over exact arithmetic. -/
namespace Igris.C12
open Spec FloatLike

/-! ### the `Rat` instance, unfolded -/
@[simp] theorem q_isNaN (a : Rat) : isNaN a = false := rfl
@[simp] theorem q_isInf (a : Rat) : isInf a = false := rfl
@[simp] theorem q_lt (a b : Rat) : lt a b = decide (a < b) := rfl
@[simp] theorem q_neg (a : Rat) : FloatLike.neg a = -a := rfl
@[simp] theorem q_add (a b : Rat) : add a b = a + b := rfl
@[simp] theorem q_sub (a b : Rat) : sub a b = a - b := rfl
@[simp] theorem q_mul (a b : Rat) : mul a b = a * b := rfl
@[simp] theorem q_div (a b : Rat) : div a b = a / b := rfl
@[simp] theorem q_ofInt (n : Int) : (ofInt n : Rat) = (n : Rat) := rfl
@[simp] theorem q_trunc (a : Rat) : trunc a = some (truncQ a) := rfl
@[simp] theorem q_mul10 (a : Rat) : mul10 a = a * 10 := rfl
@[simp] theorem q_rounder (p : Nat) : (rounder p : Rat) = 1 / (2 * (10 : Rat) ^ p) := rfl
@[simp] theorem q_lit (m k : Nat) : (lit m k : Rat) = (m : Rat) / (10 : Rat) ^ k := rfl

theorem truncQ_nonneg {q : Rat} (h : 0 ≤ q) : truncQ q = q.floor := by simp [truncQ, h]

theorem pow10_pos (p : Nat) : (0 : Rat) < (10 : Rat) ^ p := Rat.pow_pos (by decide)

/-! ### digit strings -/

theorem foldl_val (ds : List Nat) (a : Nat) :
    ds.foldl (fun a c => a * 10 + (c - 48)) a = a * 10 ^ ds.length + valL ds := by
  induction ds generalizing a with
  | nil => simp [valL]
  | cons c ds ih =>
    simp only [List.foldl_cons, List.length_cons, valL]
    rw [ih, ih (0 * 10 + (c - 48))]
    simp [Nat.pow_succ]; grind

theorem valL_nil : valL [] = 0 := rfl

theorem valL_cons (c : Nat) (ds : List Nat) : valL (c :: ds) = (c - 48) * 10 ^ ds.length + valL ds := by
  simp only [valL, List.foldl_cons]
  rw [foldl_val]; simp [valL]

theorem valL_append (xs ys : List Nat) : valL (xs ++ ys) = valL xs * 10 ^ ys.length + valL ys := by
  simp only [valL, List.foldl_append]
  rw [foldl_val]; simp [valL]

theorem allDigits_nil : AllDigits [] := by intro c h; cases h
theorem allDigits_cons {c : Nat} {ds : List Nat} : AllDigits (c :: ds) ↔ (48 ≤ c ∧ c ≤ 57) ∧ AllDigits ds := by
  simp [AllDigits]
theorem allDigits_append {xs ys : List Nat} : AllDigits (xs ++ ys) ↔ AllDigits xs ∧ AllDigits ys := by
  simp [AllDigits]; grind

theorem valL_lt (ds : List Nat) (h : AllDigits ds) : valL ds < 10 ^ ds.length := by
  induction ds with
  | nil => simp [valL]
  | cons c ds ih =>
    rw [valL_cons]
    have hc := (allDigits_cons.mp h).1
    have := ih (allDigits_cons.mp h).2
    simp only [List.length_cons, Nat.pow_succ]
    have : c - 48 ≤ 9 := by omega
    calc (c - 48) * 10 ^ ds.length + valL ds < (c - 48) * 10 ^ ds.length + 10 ^ ds.length := by omega
      _ = (c - 48 + 1) * 10 ^ ds.length := by rw [Nat.add_mul]; simp
      _ ≤ 10 * 10 ^ ds.length := Nat.mul_le_mul_right _ (by omega)
      _ = 10 ^ ds.length * 10 := Nat.mul_comm _ _

/-! ### the integer-part loop -/

theorem charOfInt_digit (d : Nat) (h : d ≤ 9) : charOfInt (48 + (d : Int)) = 48 + d := by
  unfold charOfInt; omega

theorem intDigitsRev_nat (fuel n : Nat) : intDigitsRev fuel (n : Int) = natDigitsRev fuel n := by
  induction fuel generalizing n with
  | zero => rfl
  | succ fuel ih =>
    simp only [intDigitsRev, natDigitsRev]
    by_cases h : n = 0
    · simp [h]
    · have h' : (n : Int) ≠ 0 := by omega
      simp only [h, h', if_false]
      have e1 : Int.tmod (n : Int) 10 = ((n % 10 : Nat) : Int) := rfl
      have e2 : Int.tdiv (n : Int) 10 = ((n / 10 : Nat) : Int) := rfl
      rw [e1, e2, ih, charOfInt_digit _ (by omega)]

theorem natDigitsRev_spec (fuel n : Nat) (hn : n < 10 ^ fuel) (hpos : 0 < n) :
    let ds := (natDigitsRev fuel n).reverse
    AllDigits ds ∧ valL ds = n ∧ ds.length ≤ fuel ∧ ds ≠ [] ∧ ds.head? ≠ some 48 := by
  induction fuel generalizing n with
  | zero => simp at hn; omega
  | succ fuel ih =>
    have hne : n ≠ 0 := by omega
    simp only [natDigitsRev, hne, if_false, List.reverse_cons]
    by_cases hq : n / 10 = 0
    · have : natDigitsRev fuel (n / 10) = [] := by
        rw [hq]; cases fuel <;> simp [natDigitsRev]
      rw [this]
      have hlt : n < 10 := by omega
      refine ⟨?_, ?_, ?_, ?_, ?_⟩
      · simp [AllDigits]; omega
      · simp [valL]; omega
      · simp
      · simp
      · simp; omega
    · have hq' : n / 10 < 10 ^ fuel := by
        rw [Nat.pow_succ] at hn; omega
      obtain ⟨h1, h2, h3, h4, h5⟩ := ih (n / 10) hq' (by omega)
      refine ⟨?_, ?_, ?_, ?_, ?_⟩
      · rw [allDigits_append]; refine ⟨h1, ?_⟩; simp [AllDigits]; omega
      · rw [valL_append, h2]; simp [valL]; omega
      · simp at h3 ⊢; omega
      · simp
      · intro h
        apply h5
        cases hrev : (natDigitsRev fuel (n / 10)).reverse with
        | nil => exact absurd hrev h4
        | cons a l => rw [hrev] at h; simpa using h

/-! ### the fraction loop over exact arithmetic -/

theorem fracLoop_Q (p : Nat) (f : Rat) (h0 : 0 ≤ f) (h1 : f < 1) :
    ∃ ds, fracLoop p f = some ds ∧ ds.length = p ∧ AllDigits ds ∧
      ((valL ds : Nat) : Rat) ≤ f * (10 : Rat) ^ p ∧ f * (10 : Rat) ^ p < ((valL ds : Nat) : Rat) + 1 := by
  induction p generalizing f with
  | zero =>
    refine ⟨[], rfl, rfl, allDigits_nil, ?_, ?_⟩ <;> simp [valL] <;> grind
  | succ p ih =>
    have hf10 : 0 ≤ f * 10 := by grind
    have hfl := Rat.floor_le (f * 10)
    have hfu := Rat.lt_floor_add_one (f * 10)
    have hc0 : 0 ≤ (f * 10).floor := Rat.le_floor_iff.mpr (by simpa using hf10)
    have hc9 : (f * 10).floor < 10 := Rat.floor_lt_iff.mpr (by simp; grind)
    obtain ⟨c, hc⟩ : ∃ c : Nat, (f * 10).floor = (c : Int) := ⟨(f * 10).floor.toNat, by omega⟩
    have hc9' : c ≤ 9 := by omega
    have hcq : (((c : Int)) : Rat) = (c : Rat) := Rat.intCast_natCast c
    rw [hc] at hfl hfu
    have hfu' : f * 10 < (c : Rat) + 1 := by
      have : (((c : Int) + 1 : Int) : Rat) = (c : Rat) + 1 := by simp [Rat.intCast_add]; rw [hcq]
      rw [this] at hfu; exact hfu
    rw [hcq] at hfl
    obtain ⟨ds, hds, hlen, hall, hlo, hhi⟩ := ih (f * 10 - (c : Rat)) (by grind) (by grind)
    refine ⟨(48 + c) :: ds, ?_, by simp [hlen], ?_, ?_, ?_⟩
    · simp only [fracLoop, q_mul10, q_trunc, truncQ_nonneg hf10, hc, q_sub, q_ofInt, hcq]
      have : ¬ ((c : Int) < -128 ∨ 127 < (c : Int)) := by omega
      simp only [this, if_false, hds, Option.map_some, charOfInt_digit c hc9']
    · rw [allDigits_cons]; exact ⟨by omega, hall⟩
    · rw [valL_cons, hlen]
      have : (48 + c - 48) = c := by omega
      rw [this]
      have e : (((c * 10 ^ p + valL ds : Nat)) : Rat) = (c : Rat) * (10 : Rat) ^ p + ((valL ds : Nat) : Rat) := by
        simp [Rat.natCast_add, Rat.natCast_mul, Rat.natCast_pow]
      rw [e]
      have : f * (10 : Rat) ^ (p + 1) = (f * 10 - (c : Rat)) * (10 : Rat) ^ p + (c : Rat) * (10 : Rat) ^ p := by grind
      rw [this]; grind
    · rw [valL_cons, hlen]
      have : (48 + c - 48) = c := by omega
      rw [this]
      have e : (((c * 10 ^ p + valL ds : Nat)) : Rat) = (c : Rat) * (10 : Rat) ^ p + ((valL ds : Nat) : Rat) := by
        simp [Rat.natCast_add, Rat.natCast_mul, Rat.natCast_pow]
      rw [e]
      have : f * (10 : Rat) ^ (p + 1) = (f * 10 - (c : Rat)) * (10 : Rat) ^ p + (c : Rat) * (10 : Rat) ^ p := by grind
      rw [this]; grind

end Igris.C12

namespace Igris.C12
open Spec FloatLike

/-! ### shape facts that hold for every arithmetic -/

theorem fracLoop_length {F : Type} [FloatLike F] (p : Nat) (f : F) (ds : List Nat)
    (h : fracLoop p f = some ds) : ds.length = p := by
  induction p generalizing f ds with
  | zero => simp [fracLoop] at h; subst h; rfl
  | succ p ih =>
    simp only [fracLoop] at h
    split at h
    · cases h
    · split at h
      · cases h
      · cases hr : fracLoop p (sub (mul10 f) (ofInt _)) with
        | none => rw [hr] at h; cases h
        | some r =>
          rw [hr] at h; simp at h; subst h
          simp [ih _ _ hr]

theorem intDigitsRev_length (fuel : Nat) (n : Int) : (intDigitsRev fuel n).length ≤ fuel := by
  induction fuel generalizing n with
  | zero => simp [intDigitsRev]
  | succ fuel ih =>
    simp only [intDigitsRev]
    split
    · simp
    · simp; exact ih _

theorem intDigitsRev_ne_nil (fuel : Nat) (n : Int) (h : n ≠ 0) : intDigitsRev (fuel + 1) n ≠ [] := by
  simp [intDigitsRev, h]

theorem autoPrec_le {F : Type} [FloatLike F] (f : F) : autoPrec f ≤ 6 := by
  unfold autoPrec; split; omega; split; omega; split; omega; split; omega; split; omega; split <;> omega

theorem effPrec_le {F : Type} [FloatLike F] (f : F) (prec : Int) : effPrec f prec ≤ 10 := by
  unfold effPrec MAX_PRECISION
  have := autoPrec_le f
  simp only
  split <;> split <;> omega

end Igris.C12

namespace Igris.C12
open Spec FloatLike

/-! ### the renderer over exact arithmetic -/

theorem absQ_nonneg (x : Rat) : 0 ≤ absQ x := by unfold absQ; split <;> grind

theorem rnd_nonneg (p : Nat) : 0 ≤ rnd p := by
  unfold rnd; split
  · have h := pow10_pos p
    have h2 : (0 : Rat) < 2 * (10 : Rat) ^ p := by grind
    have : (1 / (2 * (10 : Rat) ^ p)) * (2 * (10 : Rat) ^ p) = 1 := by grind
    apply Rat.not_lt.mp
    intro hneg
    have := Rat.mul_lt_mul_of_pos_right hneg h2
    grind
  · exact Rat.le_refl

theorem rnd_scaled (p : Nat) (hp : p ≠ 0) : rnd p * (10 : Rat) ^ p = 1 / 2 := by
  have := pow10_pos p
  unfold rnd; simp only [hp, ne_eq, not_false_eq_true, if_true]
  grind

theorem f32toa_Q_unfold (x : Rat) (prec : Int) :
    f32toa x prec =
      (let a := absQ x
       let p := effPrec a prec
       let f2 := a + rnd p
       let k := f2.floor
       let sign : List Nat := if x < 0 then [45] else []
       if k < -2147483648 ∨ 2147483647 < k then none
       else
         let intText := if k = 0 then [48] else (intDigitsRev 10 k).reverse
         if p ≠ 0 then (fracLoop p (f2 - (k : Rat))).map (fun fr => sign ++ intText ++ 46 :: fr)
         else some (sign ++ intText)) := by
  have hz : ((0 : Int) : Rat) = 0 := rfl
  have habs : (if decide (x < 0) = true then -x else x) = absQ x := by
    unfold absQ; by_cases h : x < 0 <;> simp [h]
  have hsign : (if decide (x < 0) = true then [45] else ([] : List Nat)) = if x < 0 then [45] else [] := by
    by_cases h : x < 0 <;> simp [h]
  simp only [f32toa, q_isInf, q_isNaN, Bool.false_eq_true, if_false, q_lt, q_ofInt, hz, q_neg, habs, hsign,
    q_add, q_rounder, q_trunc, q_sub]
  have hf2 : (if effPrec (absQ x) prec ≠ 0 then absQ x + 1 / (2 * (10 : Rat) ^ effPrec (absQ x) prec) else absQ x)
      = absQ x + rnd (effPrec (absQ x) prec) := by
    unfold rnd; split <;> grind
  rw [hf2]
  have hnn : 0 ≤ absQ x + rnd (effPrec (absQ x) prec) := by
    have := absQ_nonneg x; have := rnd_nonneg (effPrec (absQ x) prec); grind
  rw [truncQ_nonneg hnn]

theorem ftoa_exact_Q_core (x : Rat) (prec : Int)
    (hr : absQ x + rnd (effPrec (absQ x) prec) < 2147483648) :
    ∃ ip fr : List Nat,
      f32toa x prec = some ((if x < 0 then [45] else []) ++ ip ++
        (if effPrec (absQ x) prec ≠ 0 then 46 :: fr else [])) ∧
      AllDigits ip ∧ Canonical ip ∧ ip.length ≤ 10 ∧ AllDigits fr ∧ fr.length = effPrec (absQ x) prec ∧
      ((valL (ip ++ fr) : Nat) : Rat) ≤ (absQ x + rnd (effPrec (absQ x) prec)) * (10 : Rat) ^ effPrec (absQ x) prec ∧
      (absQ x + rnd (effPrec (absQ x) prec)) * (10 : Rat) ^ effPrec (absQ x) prec < ((valL (ip ++ fr) : Nat) : Rat) + 1 := by
  rw [f32toa_Q_unfold]
  generalize hp : effPrec (absQ x) prec = p at *
  generalize hf2 : absQ x + rnd p = f2 at *
  have hnn : 0 ≤ f2 := by
    have := absQ_nonneg x; have := rnd_nonneg p; grind
  have hfl := Rat.floor_le f2
  have hfu := Rat.lt_floor_add_one f2
  have hk0 : 0 ≤ f2.floor := Rat.le_floor_iff.mpr (by simpa using hnn)
  have hkmax : f2.floor < 2147483648 := Rat.floor_lt_iff.mpr (by simpa using hr)
  obtain ⟨k, hk⟩ : ∃ k : Nat, f2.floor = (k : Int) := ⟨f2.floor.toNat, by omega⟩
  have hcq : (((k : Int)) : Rat) = (k : Rat) := Rat.intCast_natCast k
  rw [hk] at hfl hfu
  have hfu' : f2 < (k : Rat) + 1 := by
    have : (((k : Int) + 1 : Int) : Rat) = (k : Rat) + 1 := by simp [Rat.intCast_add]; rw [hcq]
    rw [this] at hfu; exact hfu
  rw [hcq] at hfl
  have hklt : k < 2147483648 := by omega
  simp only [hp, hf2, hk, hcq]
  have hrange : ¬ ((k : Int) < -2147483648 ∨ 2147483647 < (k : Int)) := by omega
  simp only [hrange, if_false]
  -- the integer part
  obtain ⟨ip, hip, hipd, hipc, hipl, hipv⟩ : ∃ ip : List Nat,
      (if (k : Int) = 0 then [48] else (intDigitsRev 10 (k : Int)).reverse) = ip ∧
      AllDigits ip ∧ Canonical ip ∧ ip.length ≤ 10 ∧ valL ip = k := by
    by_cases hk0 : k = 0
    · refine ⟨[48], by simp [hk0], by simp [AllDigits], ⟨by simp, by simp⟩, by simp, by simp [valL, hk0]⟩
    · have hne : ¬ ((k : Int) = 0) := by omega
      have := natDigitsRev_spec 10 k (by omega) (by omega)
      obtain ⟨h1, h2, h3, h4, h5⟩ := this
      refine ⟨(natDigitsRev 10 k).reverse, by simp [intDigitsRev_nat]; intro h; exact absurd h hk0, h1, ⟨h4, ?_⟩, h3, h2⟩
      intro h; exact absurd h h5
  rw [hip]
  obtain ⟨fr, hfr, hfrl, hfrd, hlo, hhi⟩ := fracLoop_Q p (f2 - (k : Rat)) (by grind) (by grind)
  have hval : ((valL (ip ++ fr) : Nat) : Rat) = (k : Rat) * (10 : Rat) ^ p + ((valL fr : Nat) : Rat) := by
    rw [valL_append, hipv, hfrl]
    simp [Rat.natCast_add, Rat.natCast_mul, Rat.natCast_pow]
  by_cases hp0 : p = 0
  · subst hp0
    have hfr0 : fr = [] := List.eq_nil_of_length_eq_zero hfrl
    subst hfr0
    refine ⟨ip, [], by simp, hipd, hipc, hipl, allDigits_nil, rfl, ?_, ?_⟩
    · rw [hval]; simp [valL]; grind
    · rw [hval]; simp [valL]; grind
  · refine ⟨ip, fr, by simp [hp0, hfr], hipd, hipc, hipl, hfrd, hfrl, ?_, ?_⟩
    · rw [hval]
      have : f2 * (10 : Rat) ^ p = (f2 - (k : Rat)) * (10 : Rat) ^ p + (k : Rat) * (10 : Rat) ^ p := by grind
      rw [this]; grind
    · rw [hval]
      have : f2 * (10 : Rat) ^ p = (f2 - (k : Rat)) * (10 : Rat) ^ p + (k : Rat) * (10 : Rat) ^ p := by grind
      rw [this]; grind

end Igris.C12
