/- C06 helper lemmas (round 3b): the parser only moves forward (suffix lemmas), and the syntactic condition
`digitRunsOk` / `noIntMinArg` implies `guardFree` -/
import IgrisModel.C06.LemR3b
import IgrisModel.C06.LemRange
import IgrisModel.C06.Model2
namespace Igris.C06

theorem flagsLoop_suffix (s : List Char) (ops : Ops) : (flagsLoop s ops).1 <:+ s := by
  induction s generalizing ops with
  | nil => simp [flagsLoop]
  | cons c cs ih =>
    unfold flagsLoop
    repeat' split
    all_goals first
      | exact List.IsSuffix.trans (ih _) (List.suffix_cons _ _)
      | exact List.suffix_refl _

theorem skipDigits_suffix (s : List Char) : skipDigits s <:+ s := by
  induction s with
  | nil => simp [skipDigits]
  | cons c cs ih =>
    unfold skipDigits
    split
    · exact List.IsSuffix.trans ih (List.suffix_cons _ _)
    · exact List.suffix_refl _

theorem tail_suffix' {α} (l : List α) : l.tail <:+ l := by
  cases l <;> simp

theorem vaInt_suffix {args : List Arg} {v : BitVec 32} {as : List Arg} (h : vaInt args = some (v, as)) :
    as <:+ args ∧ args = .int v :: as := by
  unfold vaInt at h
  split at h
  · cases h; simp
  · cases h

theorem vaLong_suffix {args : List Arg} {v : BitVec 64} {as : List Arg} (h : vaLong args = some (v, as)) :
    as <:+ args := by
  unfold vaLong at h
  split at h
  · cases h; simp
  · cases h

theorem getWidth_suffix {s : List Char} {args : List Arg} {ops : Ops} {w : Int} {s1 : List Char} {a1 : List Arg}
    {o1 : Ops} (h : getWidth s args ops = some (w, s1, a1, o1)) : s1 <:+ s ∧ a1 <:+ args := by
  unfold getWidth at h
  by_cases hst : hd s = '*'
  · simp only [hst, if_true] at h
    cases hv : vaInt args with
    | none => simp [hv] at h
    | some q =>
      obtain ⟨v, as⟩ := q
      simp only [hv, Option.map_some] at h
      have := (vaInt_suffix hv).1
      split at h <;> simp at h <;> obtain ⟨_, h1, h2, _⟩ := h <;> subst h1 h2 <;> exact ⟨tail_suffix' _, this⟩
  · simp only [hst, if_false, Option.map_some] at h
    split at h <;> simp at h <;> obtain ⟨_, h1, h2, _⟩ := h <;> subst h1 h2 <;>
      exact ⟨skipDigits_suffix _, List.suffix_refl _⟩

theorem getPrec_suffix {s : List Char} {args : List Arg} {ops : Ops} {p : Int} {s1 : List Char} {a1 : List Arg}
    {o1 : Ops} (h : getPrec s args ops = some (p, s1, a1, o1)) : s1 <:+ s ∧ a1 <:+ args := by
  unfold getPrec at h
  simp only at h
  by_cases hdot : hd s = '.'
  · simp only [hdot, if_true] at h
    by_cases hst : hd s.tail = '*'
    · simp only [hst, if_true] at h
      cases hv : vaInt args with
      | none => simp [hv] at h
      | some q =>
        obtain ⟨v, as⟩ := q
        simp only [hv, Option.map_some] at h
        have := (vaInt_suffix hv).1
        split at h <;> simp at h <;> obtain ⟨_, h1, h2, _⟩ := h <;> subst h1 h2 <;>
          exact ⟨List.IsSuffix.trans (tail_suffix' _) (tail_suffix' _), this⟩
    · simp only [hst, if_false, Option.map_some] at h
      split at h <;> simp at h <;> obtain ⟨_, h1, h2, _⟩ := h <;> subst h1 h2 <;>
        exact ⟨List.IsSuffix.trans (skipDigits_suffix _) (tail_suffix' _), List.suffix_refl _⟩
  · simp only [hdot, if_false, Option.map_some] at h
    split at h <;> simp at h <;> obtain ⟨_, h1, h2, _⟩ := h <;> subst h1 h2 <;>
      exact ⟨skipDigits_suffix _, List.suffix_refl _⟩

theorem getLen_suffix (s : List Char) (ops : Ops) : (getLen s ops).1 <:+ s := by
  unfold getLen
  simp only
  repeat' split
  all_goals first
    | exact List.suffix_refl _
    | exact tail_suffix' _
    | exact List.IsSuffix.trans (tail_suffix' _) (tail_suffix' _)


theorem fetchSigned_suffix {len : Len} {args : List Arg} {u : BitVec 64} {as : List Arg}
    (h : fetchSigned len args = some (u, as)) : as <:+ args := by
  unfold fetchSigned at h
  split at h
  all_goals first
    | exact vaLong_suffix h
    | (cases hv : vaInt args with
       | none => simp [hv] at h
       | some q =>
         obtain ⟨v, a1⟩ := q
         simp only [hv, Option.map_some, Option.some.injEq, Prod.mk.injEq] at h
         obtain ⟨_, h2⟩ := h
         subst h2
         exact (vaInt_suffix hv).1)

theorem fetchUnsigned_suffix {len : Len} {args : List Arg} {u : BitVec 64} {as : List Arg}
    (h : fetchUnsigned len args = some (u, as)) : as <:+ args := by
  unfold fetchUnsigned at h
  split at h
  all_goals first
    | exact vaLong_suffix h
    | (cases hv : vaInt args with
       | none => simp [hv] at h
       | some q =>
         obtain ⟨v, a1⟩ := q
         simp only [hv, Option.map_some, Option.some.injEq, Prod.mk.injEq] at h
         obtain ⟨_, h2⟩ := h
         subst h2
         exact (vaInt_suffix hv).1)

theorem convert_suffix {begin s : List Char} {args : List Arg} {w p : Int} {ops : Ops}
    {emit : List Char} {pc : Int} {rest : List Char} {args' : List Arg}
    (h : convert begin s args w p ops = .ok emit pc rest args') : rest <:+ s ∧ args' <:+ args := by
  unfold convert at h
  simp only at h
  split at h
  · cases h; exact ⟨tail_suffix' _, List.suffix_refl _⟩
  split at h
  · split at h
    · cases h
    · rename_i u a1 hf
      obtain ⟨_, h2, h3⟩ := fin_ok h
      subst h2 h3
      exact ⟨tail_suffix' _, fetchSigned_suffix hf⟩
  split at h
  · split at h
    · cases h
    · rename_i u a1 hf
      obtain ⟨_, h2, h3⟩ := fin_ok h
      subst h2 h3
      exact ⟨tail_suffix' _, fetchUnsigned_suffix hf⟩
  split at h
  · cases h
  split at h
  · split at h
    · cases h
    · rename_i v a1 hv
      generalize hops : ({ (if (hd s).isUpper = true then { ops with upper := true } else ops) with chr := true } : Ops) = opsc at h
      obtain ⟨_, h2, h3⟩ := fin_ok h
      subst h2 h3
      exact ⟨tail_suffix' _, (vaInt_suffix hv).1⟩
  split at h
  · split at h
    · obtain ⟨_, h2, h3⟩ := fin_ok h
      subst h2 h3
      exact ⟨tail_suffix' _, by simp⟩
    · obtain ⟨_, h2, h3⟩ := fin_ok h
      subst h2 h3
      exact ⟨tail_suffix' _, by simp⟩
    · cases h
  split at h
  · split at h
    · obtain ⟨_, h2, h3⟩ := fin_ok h
      subst h2 h3
      exact ⟨tail_suffix' _, by simp⟩
    · cases h
  · cases h
    refine ⟨?_, List.suffix_refl _⟩
    split
    · exact List.suffix_refl _
    · exact tail_suffix' _

theorem directive_suffix {begin : List Char} {args : List Arg}
    {emit : List Char} {pc : Int} {rest : List Char} {args' : List Arg}
    (h : directive begin args = .ok emit pc rest args') : rest <:+ begin ∧ args' <:+ args := by
  rw [directive_eq] at h
  cases hpo : parseOpts begin args with
  | none => simp [hpo] at h
  | some q =>
    obtain ⟨w, p, s, a, o⟩ := q
    simp only [hpo] at h
    obtain ⟨h1, h2⟩ := convert_suffix h
    unfold parseOpts at hpo
    simp only at hpo
    cases hw : getWidth (flagsLoop begin.tail {}).1 args (flagsLoop begin.tail {}).2 with
    | none => simp [hw] at hpo
    | some qw =>
      obtain ⟨w1, s1, a1, o1⟩ := qw
      simp only [hw] at hpo
      cases hp : getPrec s1 a1 o1 with
      | none => simp [hp] at hpo
      | some qp =>
        obtain ⟨p1, s2, a2, o2⟩ := qp
        simp only [hp, Option.some.injEq, Prod.mk.injEq] at hpo
        obtain ⟨_, _, hs, ha, _⟩ := hpo
        subst hs ha
        obtain ⟨hw1, hw2⟩ := getWidth_suffix hw
        obtain ⟨hp1, hp2⟩ := getPrec_suffix hp
        have hl := getLen_suffix s2 o2
        have hf := flagsLoop_suffix begin.tail {}
        exact ⟨h1.trans (hl.trans (hp1.trans (hw1.trans (hf.trans (tail_suffix' _))))), h2.trans (hp2.trans hw2)⟩


theorem digitRunsOk_suffix {s t : List Char} (h : digitRunsOk s = true) (hs : t <:+ s) : digitRunsOk t = true := by
  induction s with
  | nil => have := List.suffix_nil.mp hs; subst this; rfl
  | cons c cs ih =>
    rcases List.suffix_cons_iff.mp hs with rfl | h2
    · exact h
    · unfold digitRunsOk at h
      simp only [Bool.and_eq_true] at h
      exact ih h.2 h2

theorem noIntMinArg_suffix {s t : List Arg} (h : noIntMinArg s = true) (hs : t <:+ s) : noIntMinArg t = true := by
  induction s with
  | nil => have := List.suffix_nil.mp hs; subst this; rfl
  | cons c cs ih =>
    rcases List.suffix_cons_iff.mp hs with rfl | h2
    · exact h
    · unfold noIntMinArg at h
      simp only [Bool.and_eq_true] at h
      exact ih h.2 h2

theorem digitRunsOk_run {s : List Char} (h : digitRunsOk s = true) : (s.takeWhile Char.isDigit).length ≤ 9 := by
  cases s with
  | nil => simp
  | cons c cs =>
    unfold digitRunsOk at h
    simp only [Bool.and_eq_true, decide_eq_true_eq] at h
    exact h.1

theorem atoiDigits_small {s : List Char} (h : digitRunsOk s = true) :
    0 ≤ atoiDigits s 0 ∧ atoiDigits s 0 < 1000000000 := by
  obtain ⟨h0, h1⟩ := atoiDigits_lt s 0 9 (by omega) (digitRunsOk_run h)
  refine ⟨h0, ?_⟩
  have : ((0 : Int) + 1) * 10 ^ 9 = 1000000000 := by decide
  omega

theorem atoi_small {s : List Char} (h : digitRunsOk s = true) : -1000000000 < atoi s ∧ atoi s < 1000000000 := by
  induction s with
  | nil => simp [atoi]
  | cons c cs ih =>
    have hcs : digitRunsOk cs = true := digitRunsOk_suffix h (List.suffix_cons _ _)
    unfold atoi
    split
    · exact ih hcs
    · unfold atoiSign
      split
      · rename_i cs' heq
        cases heq
        have := atoiDigits_small hcs
        omega
      · rename_i cs' heq
        cases heq
        have := atoiDigits_small hcs
        omega
      · have := atoiDigits_small h
        omega

theorem rawWidth_small {s : List Char} {args : List Arg} {w : Int} (hs : digitRunsOk s = true)
    (ha : noIntMinArg args = true) (h : rawWidth s args = some w) : -INT_MAX - 1 < w ∧ w ≤ INT_MAX := by
  unfold rawWidth at h
  by_cases hst : hd s = '*'
  · simp only [hst, if_true] at h
    cases hv : vaInt args with
    | none => simp [hv] at h
    | some q =>
      obtain ⟨v, as⟩ := q
      simp only [hv, Option.map_some, Option.some.injEq] at h
      subst h
      obtain ⟨_, hargs⟩ := vaInt_suffix hv
      subst hargs
      unfold noIntMinArg at ha
      simp only [Bool.and_eq_true, bne_iff_ne, ne_eq] at ha
      have hne : v ≠ BitVec.intMin 32 := fun h => ha.1 (by rw [h])
      have hr := toInt32_range v
      have hne2 : v.toInt ≠ -2147483648 := by
        intro h
        apply hne
        apply BitVec.eq_of_toInt_eq
        rw [h]; decide
      unfold INT_MAX
      omega
  · simp only [hst, if_false, Option.some.injEq] at h
    subst h
    have := atoi_small hs
    unfold INT_MAX
    omega

theorem rawPrec_small {s : List Char} {p : Int} (hs : digitRunsOk s = true) (h : rawPrec s = some p) :
    -INT_MAX - 1 ≤ p ∧ p ≤ INT_MAX := by
  unfold rawPrec at h
  by_cases hdot : hd s = '.'
  · simp only [hdot, if_true] at h
    by_cases hst : hd s.tail = '*'
    · simp [hst] at h
    · simp only [hst, if_false, Option.some.injEq] at h
      subst h
      have := atoi_small (digitRunsOk_suffix hs (tail_suffix' s))
      unfold INT_MAX
      omega
  · simp only [hdot, if_false, Option.some.injEq] at h
    subst h
    have := atoi_small hs
    unfold INT_MAX
    omega

/-- behind the syntactic condition no directive trips the `int` guard -/
theorem intGuard_false_of_syntax {begin : List Char} {args : List Arg}
    (hd1 : digitRunsOk begin = true) (ha : noIntMinArg args = true) : intGuard begin args = false := by
  unfold intGuard
  simp only [Bool.or_eq_false_iff]
  have hf : (flagsLoop begin.tail {}).1 <:+ begin := (flagsLoop_suffix begin.tail {}).trans (tail_suffix' _)
  have hfd := digitRunsOk_suffix hd1 hf
  constructor
  · cases hr : rawWidth (flagsLoop begin.tail {}).1 args with
    | none => rfl
    | some w =>
      have := rawWidth_small hfd ha hr
      simp only [decide_eq_false_iff_not]
      omega
  · cases hw : getWidth (flagsLoop begin.tail {}).1 args (flagsLoop begin.tail {}).2 with
    | none => rfl
    | some q =>
      obtain ⟨w, s1, a1, o1⟩ := q
      simp only
      have hs1 : digitRunsOk s1 = true := digitRunsOk_suffix hfd (getWidth_suffix hw).1
      cases hr : rawPrec s1 with
      | none => rfl
      | some p =>
        have := rawPrec_small hs1 hr
        simp only [decide_eq_false_iff_not]
        omega

theorem guardFree_of_syntax_aux (fuel : Nat) (fmt : List Char) (args : List Arg)
    (hd1 : digitRunsOk fmt = true) (ha : noIntMinArg args = true) : guardFree fuel fmt args = true := by
  induction fuel generalizing fmt args with
  | zero => cases fmt <;> rfl
  | succ fuel ih =>
    cases fmt with
    | nil => rfl
    | cons c cs =>
      unfold guardFree
      split
      · rfl
      split
      · exact ih cs args (digitRunsOk_suffix hd1 (List.suffix_cons _ _)) ha
      · rw [intGuard_false_of_syntax hd1 ha]
        simp only [Bool.not_false, Bool.true_and]
        split
        · rename_i e d r a hdir
          obtain ⟨h1, h2⟩ := directive_suffix hdir
          exact ih r a (digitRunsOk_suffix hd1 h1) (noIntMinArg_suffix ha h2)
        · rfl

end Igris.C06
