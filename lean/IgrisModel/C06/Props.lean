import IgrisModel.C06.Lemmas
namespace Igris.C06

/-- `%c` of NUL: the model emits nothing (recorded finding C06-c-nul) -/
theorem printf_c_nul_witness : printf ['%', 'c'] [.int 0] = .done [] 0 := by decide

end Igris.C06
