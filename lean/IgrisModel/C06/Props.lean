/-
  C06 — PROPERTY THEOREMS (statements use only definitions from Model.lean and
  Spec.lean; helper lemmas live in Lem*.lean / Lemmas.lean).

  Property: "printf engine: for every format built from the conversions
  d i u o x X c s p %, the flags - + space # 0, widths and precisions given
  literally or through *, and the length modifiers hh h l ll j z t, and for
  every argument value, the characters handed to the output callback are exactly
  those ISO C printf produces (for %p: 0x followed by hex digits that parse back
  to the pointer), and the return value equals the number of characters emitted.
  Formatting always terminates and reads a %s argument no further than its
  terminator or the given precision."

  `printf` is the model of `__printf` (Model.lean), `Iso.isoFormat` the
  independent transcription of ISO/IEC 9899 §7.21.6.1 (Spec.lean); `isoFormat …
  = some out` means "the standard defines the output and it is `out`".
-/
import IgrisModel.C06.Lemmas
import IgrisModel.C06.LemGrammar2
import IgrisModel.C06.LemN
import IgrisModel.C06.LemR3b
import IgrisModel.C06.Model2
import IgrisModel.C06.LemSyntax
namespace Igris.C06
open Iso

/-! ## the return value equals the number of characters emitted -/

/-- for ALL formats and ALL argument lists (also malformed directives, also
directives outside ISO): whenever `__printf` returns, the value it returns is
the number of characters it handed to the callback -/
theorem printf_count (fmt : List Char) (args : List Arg) (out : List Char) (pc : Int)
    (h : printf fmt args = .done out pc) : pc = out.length :=
  loop_count _ fmt args [] 0 out pc rfl h

/-! ## formatting always terminates -/

/-- the `for` loop of `__printf` needs at most `length + 1` passes for every
format and every argument list: the model never runs out of fuel -/
theorem printf_terminates (fmt : List Char) (args : List Arg) : printf fmt args ≠ .diverged :=
  loop_no_diverge _ fmt args [] 0 (Nat.lt_succ_self _)

/-- and the result does not depend on the fuel once it exceeds the length -/
theorem printf_fuel_irrelevant (fuel : Nat) (fmt : List Char) (args : List Arg)
    (h : fmt.length < fuel) : loop fuel fmt args [] 0 = printf fmt args :=
  loop_fuel _ _ fmt args [] 0 h (Nat.lt_succ_self _)

/-- print_i's 23-byte buffer is never overrun (base 8, 10, 16; any 64-bit value,
width, precision and flags) -/
theorem print_i_no_overflow (u : BitVec 64) (isSigned : Bool) (width minLen : Int) (ops : Ops)
    (base : Nat) (hb : base = 8 ∨ base = 10 ∨ base = 16) :
    (printI u isSigned width minLen ops base).isSome := by
  obtain ⟨pc, h⟩ := printI_form u isSigned width minLen ops base (by omega) (by omega)
  rw [h]; rfl

/-- historical (before `fix: __printf re-reads the character while skipping a
literal width/precision`): the skipping loop `while (isdigit(c)) ++format;`
never ends on a digit, whatever the fuel -/
theorem printf_width_diverges_orig (fuel : Nat) (s : List Char) :
    skipDigitsOrig fuel '5' s = none := by
  induction fuel generalizing s with
  | zero => rfl
  | succ n ih => simpa [skipDigitsOrig] using ih s.tail

/-! ## the characters are those ISO C printf produces -/

/-- THE FULL STATEMENT (since the `fix:` commits 8be88bc and ff2efab of the
extension round it holds without exclusion): for every format and argument list
on which ISO C defines the output — `isoFormat … = some out` — `__printf` hands
exactly those characters to the callback and returns their number (in
particular: no fault, no wrong-type `va_arg`, every argument consumed as ISO
says).  Which formats these are is the subject of `iso_defined_of_grammar`
below. -/
theorem printf_matches_iso (fmt : List Char) (args : List Arg) (out : List Char)
    (h : isoFormat igrisPtr fmt args = some out) :
    printf fmt args = .done out out.length := by
  obtain ⟨pc, hl⟩ := loop_iso _ fmt args out h (fmt.length + 1) [] 0 (Nat.lt_succ_self _)
  have hl' : printf fmt args = .done out pc := by simpa [printf] using hl
  rw [hl', printf_count fmt args out pc hl']

/-- `isoFormatExcl` only removes inputs: where it is defined it is `isoFormat` -/
theorem isoFormatExcl_sub (pfmt : Nat → List Char) (fmt : List Char) (args : List Arg) (out : List Char)
    (h : isoFormatExcl pfmt fmt args = some out) : isoFormat pfmt fmt args = some out :=
  isoAux_strict_sub pfmt _ fmt args out h

/-- the statement of the first round (outside the two input classes that were
recorded findings then); now a corollary of `printf_matches_iso` -/
theorem printf_matches_iso_partial (fmt : List Char) (args : List Arg) (out : List Char)
    (h : isoFormatExcl igrisPtr fmt args = some out) :
    printf fmt args = .done out out.length :=
  printf_matches_iso fmt args out (isoFormatExcl_sub _ _ _ _ h)

/-- former finding C06-alt-zero, `%#x` of 0: ISO `0`; print_i's prefix as it
was (`pfxOrig`, chosen without looking at the value) is `0x`; the repaired code
prints `0` -/
theorem printf_matches_iso_witness_alt_zero :
    isoFormat igrisPtr "%#x".toList [.int 0] = some "0".toList ∧
    pfxOrig { spec := true } 16 = "0x".toList ∧
    printf "%#x".toList [.int 0] = .done "0".toList 1 := by
  refine ⟨?_, ?_, ?_⟩ <;> decide

/-- former finding C06-alt-zero, `%#o` of 0: ISO `0`; the old prefix `0` in
front of the digit `0` gave `00`; the repaired code prints `0`, and `%#.0o`
(no digit at all) still gets the `0` -/
theorem printf_matches_iso_witness_alt_zero_o :
    isoFormat igrisPtr "%#o".toList [.int 0] = some "0".toList ∧
    pfxOrig { spec := true } 8 = "0".toList ∧
    printf "%#o".toList [.int 0] = .done "0".toList 1 ∧
    printf "%#.0o".toList [.int 0] = .done "0".toList 1 := by
  refine ⟨?_, ?_, ?_, ?_⟩ <;> decide

/-- former finding C06-c-nul, `%c` of NUL: ISO one character (the NUL); print_s
without OPS_SPEC_CHAR (`printCOrig`) measured it with strlen and emitted
nothing; the repaired code emits it -/
theorem printf_matches_iso_witness_c_nul :
    isoFormat igrisPtr "%c".toList [.int 0] = some [NUL] ∧
    printCOrig 0 0 0 {} = some ([], 0) ∧
    printf "%c".toList [.int 0] = .done [NUL] 1 := by
  refine ⟨?_, ?_, ?_⟩ <;> decide

/-! ## the ISO reference itself: a second formulation, and its shape -/

/-- digits by repeated division = `Nat.toDigits` (the two ways the two
formulations obtain the digits of a value) -/
theorem digits_by_division (base n : Nat) (hb : 2 ≤ base) :
    digitsDiv base (n + 1) n = Nat.toDigits base n :=
  digitsDiv_eq base hb (n + 1) n (Nat.lt_succ_self n)

/-- `isoInt` (digits by `Nat.toDigits`, the octal `#` decided by looking at the
first character, three text layouts) and `isoInt2` (SpecAlt.lean: digits by
repeated division, every padding counted from lengths, the octal `#` decided
from the value, one layout) are the same function — for every flag combination,
width, precision, sign, magnitude, base ≥ 2 (upper case only with base 16) -/
theorem iso_int_formulations_agree (minus plus space hash zero : Bool) (width : Nat) (prec : Option Nat)
    (signedConv neg : Bool) (mag base : Nat) (upper : Bool) (hb : 2 ≤ base) (hup : upper = true → base = 16) :
    isoInt2 minus plus space hash zero width prec signedConv neg mag base upper
      = isoInt minus plus space hash zero width prec signedConv neg mag base upper :=
  isoInt2_eq minus plus space hash zero width prec signedConv neg mag base upper hb hup

/-- the length of a converted integer is max(field width, length of the
conversion without a field width) -/
theorem iso_int_length (minus plus space hash zero : Bool) (width : Nat) (prec : Option Nat)
    (signedConv neg : Bool) (mag base : Nat) (upper : Bool) :
    (isoInt minus plus space hash zero width prec signedConv neg mag base upper).length
      = max width (isoInt minus plus space hash zero 0 prec signedConv neg mag base upper).length := by
  rw [isoInt_layout, isoInt_layout, layoutS_length, layoutS_zero]
  simp only [List.length_append]

/-- order of the pieces: with `body1 ++ body2` the conversion without a field
width (`body1` = sign and `0x`, `body2` = the digits), the field is
`spaces · body1 · zeros · body2 · spaces`; the three paddings add up to
`width - |body|`; `-` pads only on the right; zeros (the `0` flag) come after
the sign/prefix, only without `-` and without a precision, and then there are
no spaces -/
theorem iso_int_shape (minus plus space hash zero : Bool) (width : Nat) (prec : Option Nat)
    (signedConv neg : Bool) (mag base : Nat) (upper : Bool) :
    ∃ (l z r : Nat) (body1 body2 : List Char),
      isoInt minus plus space hash zero 0 prec signedConv neg mag base upper = body1 ++ body2 ∧
      isoInt minus plus space hash zero width prec signedConv neg mag base upper
        = List.replicate l ' ' ++ body1 ++ List.replicate z '0' ++ body2 ++ List.replicate r ' ' ∧
      l + z + r = width - (body1 ++ body2).length ∧
      (minus = true → l = 0 ∧ z = 0) ∧ (minus = false → r = 0) ∧
      (z ≠ 0 → l = 0 ∧ zero = true ∧ prec = none) := by
  obtain ⟨l, z, r, h1, h2, h3, h4, h5⟩ := layoutS_shape minus zero (prec = none) width
    (specSign signedConv neg plus space ++
      (if hash ∧ base = 16 ∧ mag ≠ 0 then (if upper then ['0', 'X'] else ['0', 'x']) else []))
    (if hash ∧ base = 8 ∧ (specDigits prec mag base upper).head? ≠ some '0'
      then '0' :: specDigits prec mag base upper else specDigits prec mag base upper)
  refine ⟨l, z, r,
    (specSign signedConv neg plus space ++
      (if hash ∧ base = 16 ∧ mag ≠ 0 then (if upper then ['0', 'X'] else ['0', 'x']) else [])),
    (if hash ∧ base = 8 ∧ (specDigits prec mag base upper).head? ≠ some '0'
      then '0' :: specDigits prec mag base upper else specDigits prec mag base upper), ?_, ?_, ?_, h3, h4, ?_⟩
  · rw [isoInt_layout, layoutS_zero]
  · rw [isoInt_layout]; exact h1
  · rw [List.length_append]; exact h2
  · intro hz; obtain ⟨a, b, c⟩ := h5 hz; exact ⟨a, b, by simpa using c⟩

/-! ## which formats ISO defines: the domain of `printf_matches_iso` -/

/-- every format of the grammar `( text | % flags* width? precision? length?
conversion )*` (Grammar.lean: generative, a directive is a record rendered to
text) whose options are ones ISO defines for the conversion and whose argument
list supplies the right types is in the domain of `isoFormat` -/
theorem iso_defined_of_grammar (pfmt : Nat → List Char) (fmt : List Char) (args : List Arg)
    (h : IsoDefined fmt args) : (isoFormat pfmt fmt args).isSome := by
  obtain ⟨segs, hr, ha⟩ := h
  subst hr
  exact grammar_defined pfmt segs args ha _ (Nat.le_refl _)

/-- hence, for every such format and argument list, `__printf` produces the ISO
output and returns its length: the headline statement without a hypothesis
about `isoFormat` -/
theorem printf_iso_on_grammar (fmt : List Char) (args : List Arg) (h : IsoDefined fmt args) :
    ∃ out, isoFormat igrisPtr fmt args = some out ∧ printf fmt args = .done out out.length := by
  have hs := iso_defined_of_grammar igrisPtr fmt args h
  cases ho : isoFormat igrisPtr fmt args with
  | none => rw [ho] at hs; cases hs
  | some out => exact ⟨out, rfl, printf_matches_iso fmt args out ho⟩

/-! ## where the model's `Int` arithmetic is the code's `int` arithmetic -/

/-- `if (width < 0) { …; width = -width; }` is computed in `int`: for every `*`
argument except INT_MIN the 32-bit negation is the mathematical one the model
(and ISO) uses -/
theorem star_width_negation_exact (v : BitVec 32) (h : v ≠ BitVec.intMin 32) : (-v).toInt = -v.toInt :=
  BitVec.toInt_neg_of_ne_intMin h

/-- … and for INT_MIN it is not: the C expression overflows (undefined; two's
complement wrap leaves the width negative), while the model continues with
2^31 — the inputs `*` = INT_MIN are outside what the model says about the code
(recorded finding C06-star-width-int-min) -/
theorem star_width_int_min_witness :
    (-(BitVec.intMin 32)).toInt = -2147483648 ∧ -(BitVec.intMin 32).toInt = 2147483648 ∧
    getWidth ['*'] [.int (BitVec.intMin 32)] {} = some (2147483648, [], [], { left := true }) := by
  refine ⟨?_, ?_, ?_⟩ <;> decide

/-- a literal width or precision of at most 9 digits is below 10^9 < 2^31:
`atoi` does not overflow and the model's value is the C value -/
theorem literal_number_fits (s : List Char) (h : (s.takeWhile Char.isDigit).length ≤ 9) :
    0 ≤ atoiDigits s 0 ∧ atoiDigits s 0 < 2 ^ 31 := by
  obtain ⟨h0, h1⟩ := atoiDigits_lt s 0 9 (by omega) h
  refine ⟨h0, ?_⟩
  have : ((0 : Int) + 1) * 10 ^ 9 < 2 ^ 31 := by decide
  omega

/-- beyond: ten digits can exceed INT_MAX (C: `atoi` overflow, undefined) -/
theorem literal_number_overflow_witness :
    atoi "2147483647".toList = 2 ^ 31 - 1 ∧ atoi "2147483648".toList = 2 ^ 31 := by
  constructor <;> decide

/-! ## %p: 0x followed by hex digits that parse back to the pointer -/

/-- igris' rendering of a pointer (the `pfmt` with which `printf_matches_iso_partial`
holds) is `0x` and exactly 16 lower-case hex digits whose value is the pointer -/
theorem printf_p_parses_back (p : BitVec 64) :
    ∃ ds, igrisPtr p.toNat = '0' :: 'x' :: ds ∧ ds.length = 16 ∧ parseHex ds = some p.toNat := by
  refine ⟨_, rfl, ?_, ?_⟩
  · have := toDigits16_length p.toNat p.isLt
    simp; omega
  · rw [parseHex_zeros, parseHex_toDigits]

/-- `%p` alone: what the engine emits and returns -/
theorem printf_p (p : BitVec 64) :
    printf "%p".toList [.ptr p] = .done (igrisPtr p.toNat) 18 := by
  have h : isoFormatExcl igrisPtr "%p".toList [.ptr p] = some (igrisPtr p.toNat) := by
    simp [isoFormatExcl, isoAux, parseDirective, parseWidth, parsePrec, parseLen, isoConv, resolveWidth,
      resolvePrec, isoBody, pad, isFlag, NUL]
  have := printf_matches_iso_partial _ _ _ h
  obtain ⟨ds, h1, h2, _⟩ := printf_p_parses_back p
  rw [this, h1]
  simp [h2]

/-! ## %s reads no further than its terminator or the precision -/

/-- `pre` is the part of the argument up to and including its terminator, or
its first `precision` bytes: whatever lies behind `pre` is never consulted and
the call succeeds when only `pre` is readable (a read behind the allocation is
`none` in the model) -/
theorem print_s_reads (pre rest : List Char) (width maxLen : Nat) (ops : Ops)
    (h : (ops.chr = false ∧ (NUL ∈ pre ∨ (ops.prec = true ∧ maxLen ≤ pre.length))) ∨
         (ops.chr = true ∧ pre ≠ [])) :
    (printS pre width maxLen ops).isSome ∧
      printS (pre ++ rest) width maxLen ops = printS pre width maxLen ops := by
  have hsome : (printS pre width maxLen ops).isSome := by
    have hlen : (if ops.chr = true then (if 1 ≤ pre.length then some 1 else none)
        else if ops.prec = true then strnlen pre (maxLen : Int).toNat else strlen pre).isSome := by
      rcases h with ⟨hc, h⟩ | ⟨hc, hne⟩
      · simp only [hc, Bool.false_eq_true, if_false]
        cases hp : ops.prec
        · simp only [Bool.false_eq_true, if_false]
          rcases h with h | ⟨h, _⟩
          · exact strlen_some_of_mem pre h
          · rw [hp] at h; cases h
        · simp only [if_true, Int.toNat_natCast]
          have hok : NUL ∈ pre.take maxLen ∨ maxLen ≤ pre.length := by
            rcases h with h | ⟨_, h⟩
            · by_cases hle : maxLen ≤ pre.length
              · exact Or.inr hle
              · left; rw [List.take_of_length_le (by omega)]; exact h
            · exact Or.inr h
          rw [strnlen_of_ok pre maxLen hok]; rfl
      · have : 1 ≤ pre.length := by
          cases pre with
          | nil => exact absurd rfl hne
          | cons a as => simp
        simp [hc, this]
    unfold printS
    cases hl : (if ops.chr = true then (if 1 ≤ pre.length then some 1 else none)
        else if ops.prec = true then strnlen pre (maxLen : Int).toNat else strlen pre) with
    | none => rw [hl] at hlen; cases hlen
    | some n => rfl
  refine ⟨hsome, ?_⟩
  cases hr : printS pre width maxLen ops with
  | none => rw [hr] at hsome; cases hsome
  | some r => exact printS_append pre rest width maxLen ops r hr

/-- historical (before `fix: print_s does not read a %s argument beyond the
precision`): `strlen` first, clamp afterwards — `%.2s` of the two-byte array
`ab` without terminator reads behind it -/
theorem print_s_overread_orig_witness :
    lenOrig ['a', 'b'] 2 true = none ∧ strnlen ['a', 'b'] 2 = some 2 := by
  constructor <;> decide

/-- historical (before `fix: print_i negates the full-width value of a negative
argument`): `u = -((int)u)` turns -5000000000 into 705032704 -/
theorem print_i_neg_orig_witness :
    (negOrig (BitVec.ofInt 64 (-5000000000))).toNat = 705032704 ∧
    (-(BitVec.ofInt 64 (-5000000000))).toNat = 5000000000 := by
  constructor <;> decide

/-! ## the wrappers -/

/-- compat/libc/stdio/sprintf.c: the buffer receives the emitted characters and a
terminator, the returned value is their number -/
theorem vsprintf_spec (fmt : List Char) (args : List Arg) (buf : List Char) (ret : Int)
    (h : vsprintf fmt args = some (buf, ret)) :
    ∃ out, printf fmt args = .done out ret ∧ buf = out ++ [NUL] ∧ ret = out.length := by
  unfold vsprintf at h
  split at h
  · rename_i out pc hp
    simp only [Option.some.injEq, Prod.mk.injEq] at h
    obtain ⟨h1, h2⟩ := h
    subst h1 h2
    exact ⟨out, hp, rfl, printf_count _ _ _ _ hp⟩
  · cases h

/-- compat/libc/stdio/fdprintf.c: without an output error the count is returned,
otherwise the (first) error code, and exactly the characters before the error
reached the descriptor -/
theorem vfdprintf_spec (limit : Option Nat) (err : Int) (fmt : List Char) (args : List Arg)
    (written : List Char) (ret : Int) (h : vfdprintf limit err fmt args = some (written, ret)) :
    ∃ out, printf fmt args = .done out out.length ∧
      ((∀ l, limit = some l → out.length ≤ l) → written = out ∧ ret = out.length) ∧
      (∀ l, limit = some l → l < out.length → written = out.take l ∧ ret = err) := by
  unfold vfdprintf at h
  split at h
  · rename_i out pc hp
    have hc := printf_count _ _ _ _ hp
    subst hc
    refine ⟨out, hp, ?_, ?_⟩
    · intro hle
      cases limit with
      | none => simp at h; exact ⟨h.1.symm, h.2.symm⟩
      | some l =>
        have := hle l rfl
        simp only at h
        rw [if_neg (by omega)] at h
        simp at h; exact ⟨h.1.symm, h.2.symm⟩
    · intro l hl hlt
      subst hl
      simp only at h
      rw [if_pos (by omega)] at h
      simp at h; exact ⟨h.1.symm, h.2.symm⟩
  · cases h

/-- the variadic entry points only forward their argument list: `sprintf` is
`vsprintf`, `fdprintf` is `vfdprintf`, `snprintf` is `vsnprintf` (each is
`va_start; ret = v…(…, args); va_end; return ret;`), so the specifications
carry over -/
theorem sprintf_spec (fmt : List Char) (args : List Arg) (buf : List Char) (ret : Int)
    (h : sprintf fmt args = some (buf, ret)) :
    ∃ out, printf fmt args = .done out ret ∧ buf = out ++ [NUL] ∧ ret = out.length :=
  vsprintf_spec fmt args buf ret h

theorem fdprintf_spec (limit : Option Nat) (err : Int) (fmt : List Char) (args : List Arg)
    (written : List Char) (ret : Int) (h : fdprintf limit err fmt args = some (written, ret)) :
    ∃ out, printf fmt args = .done out out.length ∧
      ((∀ l, limit = some l → out.length ≤ l) → written = out ∧ ret = out.length) ∧
      (∀ l, limit = some l → l < out.length → written = out.take l ∧ ret = err) :=
  vfdprintf_spec limit err fmt args written ret h

/-- `vsprintf`/`sprintf` on a destination of known extent `mem`: the call is
safe exactly when the output and its terminator fit (`|out| < |mem|`); then the
memory is the output, a NUL, and the old bytes behind it; otherwise the callback
stores behind the allocation (`none`) -/
theorem vsprintf_mem_spec (mem fmt : List Char) (args : List Arg) (out : List Char) (pc : Int)
    (h : printf fmt args = .done out pc) :
    (out.length < mem.length →
        vsprintfMem mem fmt args = some (out ++ NUL :: mem.drop (out.length + 1), (out.length : Int))) ∧
    (mem.length ≤ out.length → vsprintfMem mem fmt args = none) := by
  have hc := printf_count _ _ _ _ h
  subst hc
  rw [vsprintfMem_done mem fmt args out _ h]
  constructor
  · intro hl; rw [if_pos hl]
  · intro hl; rw [if_neg (by omega)]

/-- ISO C 7.21.6.5/7.21.6.12 for `vsnprintf(s, n, …)` on a destination `mem`
that has at least the `n` bytes the caller announces: nothing is written when
`n = 0`; otherwise the memory becomes the first `n-1` characters of the output,
a NUL, and the OLD bytes behind that NUL (in particular everything from offset
`n` on is untouched); the value returned is the length of the WHOLE output.
The call never faults, however long the output is. -/
theorem vsnprintf_spec (mem : List Char) (n : Nat) (fmt : List Char) (args : List Arg) (out : List Char) (pc : Int)
    (h : printf fmt args = .done out pc) (hn : n ≤ mem.length) :
    vsnprintf mem n fmt args
      = some (if n = 0 then mem else out.take (n - 1) ++ NUL :: mem.drop (min (n - 1) out.length + 1),
              (out.length : Int)) := by
  have hc := printf_count _ _ _ _ h
  subst hc
  exact vsnprintf_done mem n fmt args out _ h hn

/-- the same for the variadic `snprintf` -/
theorem snprintf_spec (mem : List Char) (n : Nat) (fmt : List Char) (args : List Arg) (out : List Char) (pc : Int)
    (h : printf fmt args = .done out pc) (hn : n ≤ mem.length) :
    snprintf mem n fmt args
      = some (if n = 0 then mem else out.take (n - 1) ++ NUL :: mem.drop (min (n - 1) out.length + 1),
              (out.length : Int)) :=
  vsnprintf_spec mem n fmt args out pc h hn

/-- consequences a caller relies on: the extent of the memory is unchanged and
no byte at offset `n` or beyond is modified -/
theorem snprintf_stays_inside (mem : List Char) (n : Nat) (fmt : List Char) (args : List Arg) (out : List Char)
    (pc : Int) (h : printf fmt args = .done out pc) (hn : n ≤ mem.length) :
    ∃ buf : List Char, snprintf mem n fmt args = some (buf, (out.length : Int)) ∧ buf.length = mem.length ∧
      buf.drop n = mem.drop n := by
  rw [snprintf_spec mem n fmt args out pc h hn]
  refine ⟨_, rfl, ?_, ?_⟩
  · split
    · rfl
    · simp only [List.length_append, List.length_cons, List.length_take, List.length_drop]; omega
  · split
    · rfl
    · rename_i hn0
      have hk : (out.take (n - 1)).length = min (n - 1) out.length := by simp [List.length_take]
      exact drop_after_term _ mem _ n hk (by omega)

/-- ISO level: on every ISO-defined format `snprintf` leaves the ISO output,
cut to `n-1` characters and terminated, and returns the untruncated length -/
theorem snprintf_matches_iso (mem : List Char) (n : Nat) (fmt : List Char) (args : List Arg) (out : List Char)
    (h : isoFormat igrisPtr fmt args = some out) (hn : n ≤ mem.length) (hpos : 0 < n) :
    snprintf mem n fmt args
      = some (out.take (n - 1) ++ NUL :: mem.drop (min (n - 1) out.length + 1), (out.length : Int)) := by
  rw [snprintf_spec mem n fmt args out _ (printf_matches_iso fmt args out h) hn, if_neg (by omega)]

/-- historical (before `fix: snprintf honours its size argument`): `snprintf`
called `vsprintf` and ignored `maxlen` — `snprintf(buf, 4, "%d", 123456)` on a
4-byte buffer stores behind it; the repaired code leaves `123\0` and returns 6.
Already `snprintf(buf, 0, "")` wrote the terminator into a buffer of size 0. -/
theorem snprintf_overflow_orig_witness :
    snprintfOrig ['x', 'x', 'x', 'x'] 4 "%d".toList [.int 123456] = none ∧
    snprintfOrig [] 0 [] [] = none ∧
    snprintf ['x', 'x', 'x', 'x'] 4 "%d".toList [.int 123456] = some (['1', '2', '3', NUL], 6) ∧
    snprintf [] 0 [] [] = some ([], 0) := by
  refine ⟨?_, ?_, ?_, ?_⟩ <;> decide


/-- round 3, the return-value clause for EVERY entry point at once: whenever
the engine finishes with `out`, each of vsprintf / sprintf / vsnprintf /
snprintf (any size `n` the destination really has, also 0) / vfdprintf /
fdprintf (no write error) returns the same number — the length of the whole
output, i.e. for a truncating snprintf the count that WOULD have been written -/
theorem entry_points_return_same_count (mem : List Char) (n : Nat) (fmt : List Char) (args : List Arg)
    (out : List Char) (pc : Int) (err : Int) (h : printf fmt args = .done out pc) (hn : n ≤ mem.length) :
    pc = out.length ∧
    (vsprintf fmt args).map (·.2) = some (out.length : Int) ∧
    (sprintf fmt args).map (·.2) = some (out.length : Int) ∧
    (vsnprintf mem n fmt args).map (·.2) = some (out.length : Int) ∧
    (snprintf mem n fmt args).map (·.2) = some (out.length : Int) ∧
    (vfdprintf none err fmt args).map (·.2) = some (out.length : Int) ∧
    (fdprintf none err fmt args).map (·.2) = some (out.length : Int) := by
  have hc := printf_count _ _ _ _ h
  subst hc
  refine ⟨rfl, ?_, ?_, ?_, ?_, ?_, ?_⟩
  · simp [vsprintf, h]
  · simp [sprintf, vsprintf, h]
  · rw [vsnprintf_spec mem n fmt args out _ h hn]; rfl
  · rw [snprintf_spec mem n fmt args out _ h hn]; rfl
  · simp [vfdprintf, h]
  · simp [fdprintf, vfdprintf, h]

/-! ## round 3: the domain of the ISO reference, exactly (audit item 1) -/

/-- the generative grammar is EXACTLY the domain of `isoFormat` (the converse
of `iso_defined_of_grammar`): ISO defines the output iff the format is the
rendering of a sequence of literal pieces and well formed directive records
whose options ISO defines for the conversion and whose arguments have the right
types -/
theorem iso_defined_iff_grammar (pfmt : Nat → List Char) (fmt : List Char) (args : List Arg) :
    (isoFormat pfmt fmt args).isSome ↔ IsoDefined fmt args := by
  constructor
  · intro h
    cases ho : isoFormat pfmt fmt args with
    | none => rw [ho] at h; cases h
    | some out =>
      obtain ⟨segs, hr, ha⟩ := defined_grammarS pfmt false _ fmt args out ho
      exact ⟨segs, hr, by rw [← segsAcceptS_false]; exact ha⟩
  · exact iso_defined_of_grammar pfmt fmt args

/-- TOTALITY of `printf_matches_iso_partial`: the domain of `isoFormatExcl` is
exactly `IsoSupported` (Grammar2.lean: the grammar of `IsoDefined` minus the two
former finding classes, stated on the directive record and the argument list —
no parser involved) -/
theorem iso_supported_iff (pfmt : Nat → List Char) (fmt : List Char) (args : List Arg) :
    (isoFormatExcl pfmt fmt args).isSome ↔ IsoSupported fmt args := by
  constructor
  · intro h
    cases ho : isoFormatExcl pfmt fmt args with
    | none => rw [ho] at h; cases h
    | some out => exact defined_grammarS pfmt true _ fmt args out ho
  · rintro ⟨segs, hr, ha⟩
    subst hr
    exact grammarS_defined pfmt true segs args ha _ (Nat.le_refl _)

/-- both predicates are decidable (by the two theorems above) -/
instance (fmt : List Char) (args : List Arg) : Decidable (IsoSupported fmt args) :=
  decidable_of_iff _ (iso_supported_iff igrisPtr fmt args)

instance (fmt : List Char) (args : List Arg) : Decidable (IsoDefined fmt args) :=
  decidable_of_iff _ (iso_defined_iff_grammar igrisPtr fmt args)

/-- the supported inputs are ISO-defined inputs -/
theorem iso_supported_sub (fmt : List Char) (args : List Arg) (h : IsoSupported fmt args) : IsoDefined fmt args := by
  have h1 := (iso_supported_iff igrisPtr fmt args).mpr h
  cases ho : isoFormatExcl igrisPtr fmt args with
  | none => rw [ho] at h1; cases h1
  | some out =>
    exact (iso_defined_iff_grammar igrisPtr fmt args).mp (by rw [isoFormatExcl_sub _ _ _ _ ho]; rfl)

/-- the first round's statement without a hypothesis about `isoFormatExcl` -/
theorem printf_iso_on_supported (fmt : List Char) (args : List Arg) (h : IsoSupported fmt args) :
    ∃ out, isoFormatExcl igrisPtr fmt args = some out ∧ printf fmt args = .done out out.length := by
  have hs := (iso_supported_iff igrisPtr fmt args).mpr h
  cases ho : isoFormatExcl igrisPtr fmt args with
  | none => rw [ho] at hs; cases hs
  | some out => exact ⟨out, rfl, printf_matches_iso_partial fmt args out ho⟩

/-- everything the property text lists is inside: each conversion d i u o x X
c s p %, each flag - + space # 0, literal width and precision, `*` for both
(also negative), each length modifier hh h l ll j z t -/
theorem iso_supported_covers_property_text :
    IsoSupported "%d|%i|%u|%o|%x|%X|%c|%s|%p|%%".toList
      [.int 1, .int (-1), .int 2, .int 8, .int 255, .int 255, .int 65, .str ['h', 'i', NUL], .ptr 4096] ∧
    IsoSupported "%-5d|%+d|% d|%#x|%#o|%#X|%05d|%-+8i|%- 8i".toList
      [.int 1, .int 2, .int 3, .int 4, .int 5, .int 6, .int 7, .int 8, .int 9] ∧
    IsoSupported "%8.3d|%.0u|%12s|%.2s|%-4c|%20p|%3.1x".toList
      [.int 5, .int 0, .str ['a', NUL], .str ['a', 'b', 'c'], .int 66, .ptr 0, .int 7] ∧
    IsoSupported "%*d|%.*d|%*.*u|%-*s|%.*s|%*c|%*p".toList
      [.int 6, .int 1, .int (-1), .int 2, .int (-6), .int 3, .int 4, .int (-5), .str ['x', NUL],
       .int 1, .str ['y', 'z'], .int 3, .int 67, .int 20, .ptr 1] ∧
    IsoSupported "%hhd|%hd|%ld|%lld|%jd|%zd|%td".toList
      [.int 300, .int 70000, .long 1, .long (-1), .long 2, .long 3, .long 4] ∧
    IsoSupported "%hhu|%hx|%lo|%llX|%ju|%zx|%to|%#llx|%+ld".toList
      [.int 300, .int 70000, .long 1, .long 2, .long 3, .long 4, .long 5, .long 6, .long 7] := by
  refine ⟨?_, ?_, ?_, ?_, ?_, ?_⟩ <;> decide

/-! ## round 3: `%n`, and `pc` / width / precision as C `int`s (`printfN`, Model.lean) -/

/-- the value returned by the `int`-accurate engine is the number of characters
handed to the callback AND it is a value of type `int`: no `int` computation
overflowed on the way (below the bound the unbounded `pc` of `printf` is the C
`pc`) -/
theorem printfN_count (fmt : List Char) (args : List Arg) (out : List Char) (pc : Int) (st : List NStore)
    (h : printfN fmt args = .done out pc st) : pc = out.length ∧ pc ≤ INT_MAX :=
  let r := loopN_inv _ fmt args [] 0 [] out pc st rfl (by decide) (by simp) h
  ⟨r.1, r.2.1⟩

/-- ISO 7.21.6.1p8 `n`: "the argument shall be a pointer to signed integer into
which is written the number of characters written to the output stream so far
by this call" — every store carries the number of callback calls made before it
(`emitted`, counted on the output list, not on `pc`), converted to the type the
length modifier names -/
theorem printfN_n_stores_count (fmt : List Char) (args : List Arg) (out : List Char) (pc : Int) (st : List NStore)
    (h : printfN fmt args = .done out pc st) :
    ∀ s ∈ st, s.val = s.emitted % 2 ^ (8 * s.size) ∧ s.emitted ≤ out.length := by
  intro s hs
  obtain ⟨h1, h2⟩ := (loopN_inv _ fmt args [] 0 [] out pc st rfl (by decide) (by simp) h).2.2.1 s hs
  refine ⟨?_, h2⟩
  unfold NStore.val
  rw [h1]
  have : ((s.emitted : Int) % (2 : Int) ^ (8 * s.size)) = ((s.emitted % 2 ^ (8 * s.size) : Nat) : Int) := by
    rw [Int.natCast_emod, Int.natCast_pow]; rfl
  rw [this, Int.toNat_natCast]

/-- a run of `printfN` that stored nothing (no `n` conversion) is the run of
`printf`: same characters, same value -/
theorem printfN_refines_printf (fmt : List Char) (args : List Arg) (out : List Char) (pc : Int)
    (h : printfN fmt args = .done out pc []) : printf fmt args = .done out pc :=
  loopN_refines _ fmt args [] 0 out pc h

/-- conversely every finished run of `printf` is the run of `printfN` — unless
an `int` computation overflows (`atoi` of a literal beyond INT_MAX, `-INT_MIN`,
more than INT_MAX characters), which is all `printf`'s unbounded arithmetic
hides -/
theorem printf_done_printfN (fmt : List Char) (args : List Arg) (out : List Char) (pc : Int)
    (h : printf fmt args = .done out pc) :
    printfN fmt args = .done out pc [] ∨ printfN fmt args = .intovf :=
  loop_to_loopN _ fmt args [] 0 [] out pc h

/-- BELOW THE BOUND: when the whole output has at most INT_MAX characters and no
directive met on the way has a literal width/precision beyond INT_MAX or a `*`
width of INT_MIN (`guardFree`; by `literal_number_fits` every literal of at most
9 digits is fine), the `int`-accurate engine finishes with exactly what the
unbounded model computes: there the model's `Int` IS the C `int` -/
theorem printfN_below_bound (fmt : List Char) (args : List Arg) (out : List Char) (pc : Int)
    (h : printf fmt args = .done out pc) (hb : (out.length : Int) ≤ INT_MAX)
    (hg : guardFree (fmt.length + 1) fmt args = true) :
    printfN fmt args = .done out pc [] :=
  loop_to_loopN_below _ fmt args [] 0 [] out pc rfl h hb hg

/-- the `int` computations INSIDE print_i (`min_len + prefix_len`, `… - len -
prefix_len`, `width - len - prefix_len - zero_count`, `pc` after every `pc +=`;
`printIInts` lists them in the order of the C text): whenever the value print_i
returns fits an `int` — and `loopN` answers `intovf` otherwise — every one of
them fits too (width and precision are nonnegative `int`s when `__printf` calls
print_i).  So the guards of `printfN` (atoi, `-width`, the loop's `pc`) cover
every signed overflow of the integer path -/
theorem print_i_ints_in_range (u : BitVec 64) (isSigned : Bool) (width minLen : Int) (ops : Ops) (base : Nat)
    (out : List Char) (pc : Int) (h : printI u isSigned width minLen ops base = some (out, pc))
    (hw0 : 0 ≤ width) (hw : width ≤ INT_MAX) (hm0 : 0 ≤ minLen) (hpc : pc ≤ INT_MAX) :
    ∀ x ∈ printIInts u isSigned width minLen ops base, -INT_MAX - 1 ≤ x ∧ x ≤ INT_MAX :=
  printI_ints_range u isSigned width minLen ops base out pc h hw0 hw hm0 hpc

/-- `printfN` terminates too -/
theorem printfN_terminates (fmt : List Char) (args : List Arg) : printfN fmt args ≠ .diverged :=
  loopN_no_diverge _ fmt args [] 0 [] (Nat.lt_succ_self _)

/-- AT the bound: with INT_MAX characters out one more `++pc` is a signed
overflow, one below it is not; a literal width of 2^31 and a `*` width of
INT_MIN are outside `int` (INT_MAX / −INT_MAX are inside); `%n` through `hh`
stores the count modulo 256 -/
theorem printfN_int_range_witness :
    loopN 2 ['a'] [] [] INT_MAX [] = .intovf ∧
    loopN 2 ['a'] [] [] (INT_MAX - 1) [] = .done ['a'] INT_MAX [] ∧
    printfN "%2147483648d".toList [.int 1] = .intovf ∧
    printfN "%.2147483648d".toList [.int 1] = .intovf ∧
    printfN "%*d".toList [.int (BitVec.intMin 32), .int 1] = .intovf ∧
    intGuard "%2147483647d".toList [.int 1] = false ∧
    intGuard "%*d".toList [.int (BitVec.ofInt 32 (-2147483647)), .int 1] = false ∧
    printfN "ab%hhn%nc".toList [.ptr 16, .ptr 32]
      = .done ['a', 'b', 'c'] 3 [⟨16, 1, 2, 2⟩, ⟨32, 4, 2, 2⟩] := by
  refine ⟨?_, ?_, ?_, ?_, ?_, ?_, ?_, ?_⟩ <;> decide

/-- `%lc` / `%ls`: the code ignores the `l` (TODO in the source): the bytes of
the wide string L"ab" (little-endian `wchar_t`) are read as a `char` string —
ISO prints `ab`, igris prints `a` (recorded finding C06-wide-ls); a `%lc` of an
ASCII character prints it, as ISO's `wcrtomb` does in the C locale -/
theorem printf_ls_wide_witness :
    printf "%ls".toList [.str ['a', NUL, NUL, NUL, 'b', NUL, NUL, NUL, NUL, NUL, NUL, NUL]] = .done ['a'] 1 ∧
    printf "%lc".toList [.int 65] = .done ['A'] 1 := by
  constructor <;> decide

/-! ## round 3b: `%p` as the property states it; print_i's `int`s linked to the loop -/

/-- igris' rendering satisfies the property's clause for `%p`: `0x` followed by hex
digits that parse back to the pointer (`PtrText` fixes no digit count) -/
theorem igris_ptr_text (p : BitVec 64) : PtrText p.toNat (igrisPtr p.toNat) := by
  obtain ⟨ds, h1, h2, h3⟩ := printf_p_parses_back p
  exact ⟨ds, by intro h; simp [h] at h2, h1, h3⟩

/-- the `%p` FIELD for every `*` width (any `int`, negative = `-` flag) and with or
without the `-` flag: blanks up to the width on the proper side of a text that is
`0x` + hex digits whose value is the pointer; the value returned is the length of
the field = max(width, length of that text) -/
theorem printf_p_field (minus : Bool) (w : BitVec 32) (p : BitVec 64) :
    ∃ txt, PtrText p.toNat txt ∧
      printf (if minus then "%-*p".toList else "%*p".toList) [.int w, .ptr p]
        = .done (pad (minus || decide (w.toInt < 0)) w.toInt.natAbs txt)
            ((max w.toInt.natAbs txt.length : Nat) : Int) := by
  refine ⟨igrisPtr p.toNat, igris_ptr_text p, ?_⟩
  have h : isoFormat igrisPtr (if minus then "%-*p".toList else "%*p".toList) [.int w, .ptr p]
      = some (pad (minus || decide (w.toInt < 0)) w.toInt.natAbs (igrisPtr p.toNat)) := by
    cases minus <;>
    simp [isoFormat, isoAux, parseDirective, parseWidth, parsePrec, parseLen, isoConv, resolveWidth,
      resolvePrec, isoBody, isFlag, NUL]
  rw [printf_matches_iso _ _ _ h, pad_length']

/-- every admissible rendering of a pointer (any digit count) has the SAME canonical
form, the model's rendering: comparing `%p` fields in canonical form (what the
harness does since round 3b) identifies exactly the texts the property allows -/
theorem canon_ptr_text (p : Nat) (txt : List Char) (h : PtrText p txt) :
    canonPtrText txt = some (igrisPtr p) := by
  obtain ⟨ds, h1, h2, h3⟩ := h
  subst h2
  simp [canonPtrText, h1, h3]

/-- the model's own rendering is a fixed point: the driver prints canonical fields -/
theorem canon_ptr_igris (p : BitVec 64) : canonPtrText (igrisPtr p.toNat) = some (igrisPtr p.toNat) :=
  canon_ptr_text _ _ (igris_ptr_text p)

/-- ROUND 3b — the link between `print_i_ints_in_range` and the loop: whenever `loopN`, standing at a `%` with a
nonnegative count (the invariant `pc = number of characters so far`), does NOT answer `intovf` (none of its three
guards fired), the call of print_i that this directive makes (`printICall`) is made with a width and a precision
that are nonnegative `int`s; and when the pass succeeds, what print_i returned is what the pass emits, the count
stays inside `int`, and every `int` print_i computed on the way (`printIInts`) is in range -/
theorem loopN_print_i_ints (fuel : Nat) (cs : List Char) (args : List Arg) (out : List Char) (pc : Int)
    (st : List NStore) (res : OutcomeN) (hres : res ≠ .intovf) (hpc0 : 0 ≤ pc)
    (h : loopN (fuel + 1) ('%' :: cs) args out pc st = res)
    {u : BitVec 64} {sg : Bool} {w m : Int} {ops : Ops} {base : Nat}
    (hc : printICall ('%' :: cs) args = some (u, sg, w, m, ops, base)) :
    0 ≤ w ∧ w ≤ INT_MAX ∧ 0 ≤ m ∧ m ≤ INT_MAX ∧
    ∀ emit dpc rest args', directive ('%' :: cs) args = .ok emit dpc rest args' →
      printI u sg w m ops base = some (emit, dpc) ∧ pc + dpc ≤ INT_MAX ∧
      ∀ x ∈ printIInts u sg w m ops base, -INT_MAX - 1 ≤ x ∧ x ≤ INT_MAX := by
  obtain ⟨w0, p0, s0, a0, o0, hpo, hnn⟩ := printICall_not_n hc
  have hg : intGuard ('%' :: cs) args = false := by
    cases hgv : intGuard ('%' :: cs) args with
    | false => rfl
    | true =>
      exfalso
      apply hres
      rw [← h]
      simp [loopN, NUL, directiveN, hgv]
  obtain ⟨p, s, a, o, hpo2, hm⟩ := printICall_params hc
  obtain ⟨hw0, hw1, hp0, hp1⟩ := parseOpts_int_range hg hpo2
  have hm0 : 0 ≤ m ∧ m ≤ INT_MAX := by
    rcases hm with rfl | rfl
    · exact ⟨hp0, hp1⟩
    · unfold INT_MAX; omega
  refine ⟨hw0, hw1, hm0.1, hm0.2, ?_⟩
  intro emit dpc rest args' hdir
  obtain ⟨h1, _⟩ := directive_printICall hc hdir
  have hN : directiveN ('%' :: cs) args = .ok emit dpc rest args' none := by
    unfold directiveN
    simp [hg, hpo, hnn, hdir]
  have hb : pc + dpc ≤ INT_MAX := by
    by_cases hb : pc + dpc > INT_MAX
    · exfalso
      apply hres
      rw [← h]
      simp [loopN, NUL, hN, hb]
    · omega
  refine ⟨h1, hb, ?_⟩
  exact printI_ints_range u sg w m ops base emit dpc h1 hw0 hw1 hm0.1 (by omega)

/-- the closed form the driver runs (`vsnprintfFast`, linear in the output) IS `vsnprintf` — the fold of the
callback `snprint_printchar` over the characters — for every destination, size, format and argument list -/
theorem vsnprintf_fast_eq (mem : List Char) (n : Nat) (fmt : List Char) (args : List Arg) :
    vsnprintfFast mem n fmt args = vsnprintf mem n fmt args := by
  unfold vsnprintfFast
  split
  · rename_i hn
    cases h : printf fmt args with
    | done out pc =>
      rw [vsnprintf_spec mem n fmt args out pc h hn, printf_count _ _ _ _ h]
    | fault => simp [vsnprintf, h]
    | badarg => simp [vsnprintf, h]
    | unsupported => simp [vsnprintf, h]
    | diverged => simp [vsnprintf, h]
  · rfl

/-- the same for the variadic entry -/
theorem snprintf_fast_eq (mem : List Char) (n : Nat) (fmt : List Char) (args : List Arg) :
    snprintfFast mem n fmt args = snprintf mem n fmt args :=
  vsnprintf_fast_eq mem n fmt args

/-- print_s's `int`s (open item "`(int)strlen` of a %s argument of 2^31 or more bytes"): whenever the count
print_s returns fits an `int` — and `loopN` answers `intovf` when it does not — the length it measured
(`(int)strnlen(...)` / `(int)strlen(...)`, first element of `printSInts`) fits an `int`, so the cast preserved the
value, and so do `space_count` and `pc` after every `pc +=`.  A string of 2^31 or more bytes that is printed
in full therefore always ends in `intovf`: the model never claims a result for it -/
theorem print_s_ints_in_range (mem : List Char) (width maxLen : Int) (ops : Ops) (out : List Char) (pc : Int)
    (h : printS mem width maxLen ops = some (out, pc)) (hw0 : 0 ≤ width) (hpc : pc ≤ INT_MAX) :
    printSInts mem width maxLen ops ≠ [] ∧
    ∀ x ∈ printSInts mem width maxLen ops, 0 ≤ x ∧ x ≤ INT_MAX := by
  unfold printS at h
  unfold printSInts
  cases hm : (if ops.chr then (if 1 ≤ mem.length then some 1 else none)
         else if ops.prec then strnlen mem maxLen.toNat else strlen mem) with
  | none => simp [hm] at h
  | some n =>
    simp only [hm] at h ⊢
    refine ⟨by simp, ?_⟩
    unfold INT_MAX at hpc ⊢
    cases hl : ops.left <;> simp only [hl] at h ⊢ <;> simp at h ⊢ <;> obtain ⟨_, h2⟩ := h <;>
      (split at h2 <;> (try split) <;> omega)

/-- a PURELY SYNTACTIC sufficient condition for `guardFree` (open item of round 3): when every run of decimal
digits in the format has at most 9 digits (`digitRunsOk`, a property of the text alone) and no `int` argument is
INT_MIN (`noIntMinArg`), no directive met on the way — whatever the parser makes of the text, also of malformed
directives — computes outside `int` in `atoi` or in `width = -width` -/
theorem guardFree_of_syntax (fmt : List Char) (args : List Arg)
    (h1 : digitRunsOk fmt = true) (h2 : noIntMinArg args = true) :
    guardFree (fmt.length + 1) fmt args = true :=
  guardFree_of_syntax_aux _ fmt args h1 h2

/-- `printfN_below_bound` with hypotheses one can read off the call: digit runs of at most 9 digits, no INT_MIN
among the arguments, and an output of at most INT_MAX characters — there the unbounded model IS the C `int` code -/
theorem printfN_below_bound_syntactic (fmt : List Char) (args : List Arg) (out : List Char) (pc : Int)
    (h : printf fmt args = .done out pc) (hb : (out.length : Int) ≤ INT_MAX)
    (h1 : digitRunsOk fmt = true) (h2 : noIntMinArg args = true) :
    printfN fmt args = .done out pc [] :=
  printfN_below_bound fmt args out pc h hb (guardFree_of_syntax fmt args h1 h2)

/-! ## non-vacuity: the hypotheses above are satisfiable on non-trivial inputs -/

-- a format with literal text, flags, `*` width, precision, length modifier, string with precision
example :
    isoFormatExcl igrisPtr "a=%-*.3lld|%+05d|%.2s|%#x".toList
        [.int 8, .long (BitVec.ofInt 64 (-42)), .int 7, .str ['x', 'y', 'z'], .int 255]
      = some "a=-042    |+0007|xy|0xff".toList := by decide

example : printf "a=%-*.3lld|%+05d|%.2s|%#x".toList
        [.int 8, .long (BitVec.ofInt 64 (-42)), .int 7, .str ['x', 'y', 'z'], .int 255]
      = .done "a=-042    |+0007|xy|0xff".toList 24 := by decide

-- print_s_reads: an unterminated two-byte array with precision 2; the two-byte array of %c
example : ((({ prec := true } : Ops).chr = false ∧
    (NUL ∈ ['a', 'b'] ∨ (({ prec := true } : Ops).prec = true ∧ 2 ≤ ['a', 'b'].length))) ∨
    (({ prec := true } : Ops).chr = true ∧ ['a', 'b'] ≠ [])) := by decide
example : ((({ chr := true } : Ops).chr = false ∧
    (NUL ∈ [NUL, NUL] ∨ (({ chr := true } : Ops).prec = true ∧ 2 ≤ [NUL, NUL].length))) ∨
    (({ chr := true } : Ops).chr = true ∧ [NUL, NUL] ≠ [])) := by decide

-- iso_int_formulations_agree / iso_int_length / iso_int_shape on `%#08x` of 255 and `%-+6.3d` of 7
example : isoInt2 false false false true true 8 none false false 255 16 false = "0x0000ff".toList := by decide
example : isoInt true true false false false 6 (some 3) true false 7 10 false = "+007  ".toList := by decide

-- IsoDefined: `a=%-*.3lld|%+05d|%.2s|%#x` as pieces, with its arguments
example : IsoDefined "a=%-*.3lld|%+05d|%.2s|%#x".toList
    [.int 8, .long (BitVec.ofInt 64 (-42)), .int 7, .str ['x', 'y', 'z'], .int 255] :=
  ⟨[.text ['a', '='],
    .dir { flags := ['-'], width := .star, prec := .lit ['3'], len := .ll, conv := 'd' }, .text ['|'],
    .dir { flags := ['+', '0'], width := .lit ['5'], prec := .none, len := .none, conv := 'd' }, .text ['|'],
    .dir { flags := [], width := .none, prec := .lit ['2'], len := .none, conv := 's' }, .text ['|'],
    .dir { flags := ['#'], width := .none, prec := .none, len := .none, conv := 'x' }], by decide, by decide⟩

-- star_width_negation_exact / literal_number_fits
example : (BitVec.ofInt 32 (-5)) ≠ BitVec.intMin 32 := by decide
example : (("123456789|".toList).takeWhile Char.isDigit).length ≤ 9 := by decide

-- vsnprintf_spec / snprintf_matches_iso: a truncating call
example : printf "%s=%d".toList [.str ['a', 'b', NUL], .int 7] = .done "ab=7".toList 4 := by decide
example : snprintf ['x', 'x', 'x', 'y', 'z'] 3 "%s=%d".toList [.str ['a', 'b', NUL], .int 7]
      = some (['a', 'b', NUL, 'y', 'z'], 4) := by decide

-- printf_matches_iso on the former finding classes
example : isoFormat igrisPtr "[%#x|%#5o|%-3c]".toList [.int 0, .int 0, .int 0]
      = some ['[', '0', '|', ' ', ' ', ' ', ' ', '0', '|', NUL, ' ', ' ', ']'] := by decide

-- round 3: IsoSupported / IsoDefined (decidable now); the former classes are outside IsoSupported, inside IsoDefined
example : IsoSupported "%-*.3lld|%#x".toList [.int 8, .long (BitVec.ofInt 64 (-42)), .int 255] := by decide
example : ¬ IsoSupported "%#x".toList [.int 0] ∧ IsoDefined "%#x".toList [.int 0] ∧
    ¬ IsoSupported "%c".toList [.int 256] ∧ IsoDefined "%c".toList [.int 256] ∧
    ¬ IsoDefined "%lc".toList [.int 65] ∧ ¬ IsoDefined "%#d".toList [.int 1] ∧ ¬ IsoDefined "%5%".toList [] := by
  refine ⟨?_, ?_, ?_, ?_, ?_, ?_, ?_⟩ <;> decide

-- print_i_ints_in_range: `%+08.3d` of 42 — the ints print_i computes
example : printIInts 42 true 8 3 { sign := true, zero := true, prec := true } 10
    = [1, 2, 4, 2, 1, 1, 6, 5, 4, 4, 4, 5, 6, 8, 8] := by decide

-- printfN_below_bound: the guard holds on an ordinary format, fails on a 10-digit literal
example : guardFree 30 "a=%-*.3lld|%+05d|%.2s".toList
    [.int 8, .long (BitVec.ofInt 64 (-42)), .int 7, .str ['x', 'y', 'z']] = true := by decide
example : guardFree 20 "%4294967301d".toList [.int 1] = false := by decide

-- printfN_count / printfN_n_stores_count / printfN_refines_printf: a finished run with a store, one without
example : printfN "x=%d%n|".toList [.int 42, .ptr 8] = .done "x=42|".toList 5 [⟨8, 4, 4, 4⟩] := by decide
example : printfN "x=%5d|".toList [.int 42] = .done "x=   42|".toList 8 [] := by decide
example : printf "x=%5d|".toList [.int 42] = .done "x=   42|".toList 8 := by decide


-- round 3b: printf_p_field (a negative `*` width), canon_ptr_text on the rendering with significant digits only
example : printf "%*p".toList [.int (BitVec.ofInt 32 (-20)), .ptr 0x7ffc1234]
    = .done "0x000000007ffc1234  ".toList 20 := by decide
example : PtrText 0x7ffc1234 "0x7ffc1234".toList := ⟨"7ffc1234".toList, by decide, rfl, by decide⟩
example : PtrText 0 "0x0".toList := ⟨['0'], by decide, rfl, by decide⟩
example : canonPtrText "0x7ffc1234".toList = some "0x000000007ffc1234".toList := by decide

-- loopN_print_i_ints: the print_i call of `%+08.3d` of 42; a directive that calls print_s has none
example : printICall "%+08.3d".toList [.int 42]
    = some (42, true, 8, 3, { sign := true, zero := true, prec := true }, 10) := by decide
example : printICall "%5s".toList [.str ['a', NUL]] = none := by decide
example : loopN 9 "%+08.3d".toList [.int 42] [] 0 [] = .done "    +042".toList 8 [] := by decide

-- print_s_ints_in_range: `%-5.2s` of "abc"
example : printS ['a', 'b', 'c', NUL] 5 2 { left := true, prec := true } = some ("ab   ".toList, 5) := by decide
example : printSInts ['a', 'b', 'c', NUL] 5 2 { left := true, prec := true } = [2, 3, 0, 2, 5] := by decide

-- vsnprintf_fast_eq: a truncating call through the closed form
example : snprintfFast ['x', 'x', 'x', 'y', 'z'] 3 "%s=%d".toList [.str ['a', 'b', NUL], .int 7]
      = some (['a', 'b', NUL, 'y', 'z'], 4) := by decide


-- guardFree_of_syntax: the condition holds on an ordinary call, fails on a 10-digit literal / an INT_MIN argument
example : digitRunsOk "a=%-*.3lld|%+05d|%.2s|123456789".toList = true ∧
    noIntMinArg [.int 8, .long (BitVec.ofInt 64 (-42)), .int 7, .str ['x', 'y', 'z']] = true := by
  constructor <;> decide
example : digitRunsOk "%4294967301d".toList = false ∧ noIntMinArg [.int (BitVec.intMin 32)] = false := by
  constructor <;> decide

end Igris.C06
