/-
  C06 — SPECIFICATION: ISO/IEC 9899 §7.21.6.1 (fprintf) for the conversions
  d i u o x X c s p %, written from the text of the standard and independent of
  the model in Model.lean (it shares only the argument type `Arg` and the
  enumeration `Len` of length modifiers).  The harness validates this file
  against host glibc on every run (op `iso`).

  `isoFormat pfmt format args = none` means the standard does not define the
  result (undefined or out-of-fragment directive, argument of the wrong type,
  unterminated string, NULL string, …).

  `pfmt` is the implementation-defined rendering of a pointer value (§7.21.6.1p8
  "p … converted to a sequence of printing characters, in an
  implementation-defined manner").

  Implementation-defined choices fixed here as on the platform (LP64, gcc):
  conversion of an out-of-range value to `signed char`/`short` wraps modulo 2^N.
-/
import IgrisModel.C06.Model
namespace Igris.C06.Iso
open Igris.C06 (Arg Len NUL)

/-- a field width or precision as written in the directive -/
inductive Num
  | none | lit (n : Nat) | star
  deriving DecidableEq, Repr

/-- %[flags][width][.precision][length]specifier (§7.21.6.1p4) -/
structure Directive where
  minus : Bool
  plus : Bool
  space : Bool
  hash : Bool
  zero : Bool
  width : Num
  prec : Num
  len : Len
  conv : Char
  deriving DecidableEq, Repr

def isFlag (c : Char) : Bool := c = '-' || c = '+' || c = ' ' || c = '#' || c = '0'

/-- value of a nonnegative decimal integer -/
def decimal (ds : List Char) : Nat := ds.foldl (fun a c => 10 * a + (c.toNat - 48)) 0

/-- "an optional minimum field width … an asterisk or a nonnegative decimal integer" -/
def parseWidth : List Char → Num × List Char
  | '*' :: r => (.star, r)
  | s =>
    let ds := s.takeWhile Char.isDigit
    if ds.isEmpty then (.none, s) else (.lit (decimal ds), s.dropWhile Char.isDigit)

/-- "a period (.) followed either by an asterisk or by an optional decimal
integer; if only the period is specified, the precision is taken as zero" -/
def parsePrec : List Char → Num × List Char
  | '.' :: '*' :: r => (.star, r)
  | '.' :: r => (.lit (decimal (r.takeWhile Char.isDigit)), r.dropWhile Char.isDigit)
  | s => (.none, s)

/-- "an optional length modifier" (hh h l ll j z t; `L` applies to no conversion of this fragment) -/
def parseLen : List Char → Len × List Char
  | 'h' :: 'h' :: r => (.hh, r)
  | 'h' :: r => (.h, r)
  | 'l' :: 'l' :: r => (.ll, r)
  | 'l' :: r => (.l, r)
  | 'j' :: r => (.j, r)
  | 'z' :: r => (.z, r)
  | 't' :: r => (.t, r)
  | s => (.none, s)

set_option linter.constructorNameAsVariable false in
/-- the directive that starts behind a `%` -/
def parseDirective (s : List Char) : Option (Directive × List Char) :=
  let fl := s.takeWhile isFlag
  let (w, s) := parseWidth (s.dropWhile isFlag)
  let (p, s) := parsePrec s
  let (l, s) := parseLen s
  match s with
  | [] => none
  | c :: rest =>
    some ({ minus := fl.contains '-', plus := fl.contains '+', space := fl.contains ' ',
            hash := fl.contains '#', zero := fl.contains '0',
            width := w, prec := p, len := l, conv := c }, rest)

/-- padding to the field width: spaces on the left, or on the right with the `-` flag -/
def pad (minus : Bool) (width : Nat) (body : List Char) : List Char :=
  if minus then body ++ List.replicate (width - body.length) ' '
  else List.replicate (width - body.length) ' ' ++ body

/-- d i u o x X (§7.21.6.1p6 flags, p8 conversions).
`neg`/`mag`: sign and magnitude of the converted argument; `signedConv`: d or i -/
def isoInt (minus plus space hash zero : Bool) (width : Nat) (prec : Option Nat)
    (signedConv neg : Bool) (mag base : Nat) (upper : Bool) : List Char :=
  -- "The precision specifies the minimum number of digits to appear; if the value
  --  being converted can be represented in fewer digits, it is expanded with
  --  leading zeros. The default precision is 1. The result of converting a zero
  --  value with a precision of zero is no characters."
  let ds := if mag = 0 ∧ prec = some 0 then [] else Nat.toDigits base mag
  let ds := if upper then ds.map Char.toUpper else ds
  let ds := List.replicate (prec.getD 1 - ds.length) '0' ++ ds
  -- "# … For o conversion, it increases the precision, if and only if necessary,
  --  to force the first digit of the result to be a zero"
  let ds := if hash ∧ base = 8 ∧ ds.head? ≠ some '0' then '0' :: ds else ds
  -- "For x (or X) conversion, a nonzero result has 0x (or 0X) prefixed to it."
  let pfx := if hash ∧ base = 16 ∧ mag ≠ 0 then (if upper then ['0', 'X'] else ['0', 'x']) else []
  -- "+ The result of a signed conversion always begins with a plus or minus sign.
  --  space: if the first character of a signed conversion is not a sign … a space
  --  is prefixed. If the space and + flags both appear, the space flag is ignored."
  let sign := if signedConv then (if neg then ['-'] else if plus then ['+'] else if space then [' '] else []) else []
  let n := sign.length + pfx.length + ds.length
  -- "- left-justified"; "0: leading zeros (following any indication of sign or
  --  base) are used to pad to the field width rather than performing space
  --  padding … If the 0 and - flags both appear, the 0 flag is ignored. For d, i,
  --  o, u, x, X conversions, if a precision is specified, the 0 flag is ignored."
  if minus then sign ++ pfx ++ ds ++ List.replicate (width - n) ' '
  else if zero ∧ prec = none then sign ++ pfx ++ List.replicate (width - n) '0' ++ ds
  else List.replicate (width - n) ' ' ++ sign ++ pfx ++ ds

/-- the bytes `%s` writes: up to (not including) the terminator, at most
`prec` of them; undefined when neither a terminator nor the precision stops
the scan inside the array -/
def isoStr (mem : List Char) (prec : Option Nat) : Option (List Char) :=
  match prec with
  | none => if NUL ∈ mem then some (mem.takeWhile (· ≠ NUL)) else none
  | some p => if NUL ∈ mem.take p ∨ p ≤ mem.length then some ((mem.take p).takeWhile (· ≠ NUL)) else none

/-- value of a signed integer argument after the conversion its length modifier asks for -/
def signedArg (len : Len) (args : List Arg) : Option (Int × List Arg) :=
  match len, args with
  | .hh, .int v :: as => some (v.toInt.bmod 256, as)        -- "converted to signed char before printing"
  | .h, .int v :: as => some (v.toInt.bmod 65536, as)       -- "converted to short int"
  | .none, .int v :: as => some (v.toInt, as)
  | .l, .long v :: as | .ll, .long v :: as | .j, .long v :: as | .z, .long v :: as | .t, .long v :: as => some (v.toInt, as)
  | _, _ => none

def unsignedArg (len : Len) (args : List Arg) : Option (Nat × List Arg) :=
  match len, args with
  | .hh, .int v :: as => some (v.toNat % 256, as)           -- "converted to unsigned char"
  | .h, .int v :: as => some (v.toNat % 65536, as)
  | .none, .int v :: as => some (v.toNat, as)
  | .l, .long v :: as | .ll, .long v :: as | .j, .long v :: as | .z, .long v :: as | .t, .long v :: as => some (v.toNat, as)
  | _, _ => none

/-- "a field width, or precision, or both, may be indicated by an asterisk. In
this case, an int argument supplies the field width or precision. … A negative
field width argument is taken as a - flag followed by a positive field width."
Result: effective `-` flag, field width, remaining arguments. -/
def resolveWidth (d : Directive) (args : List Arg) : Option (Bool × Nat × List Arg) :=
  match d.width, args with
  | .none, as => some (d.minus, 0, as)
  | .lit n, as => some (d.minus, n, as)
  | .star, .int v :: as => some (d.minus || decide (v.toInt < 0), v.toInt.natAbs, as)
  | .star, _ => none

/-- "A negative precision argument is taken as if the precision were omitted." -/
def resolvePrec (d : Directive) (args : List Arg) : Option (Option Nat × List Arg) :=
  match d.prec, args with
  | .none, as => some (none, as)
  | .lit n, as => some (some n, as)
  | .star, .int v :: as => some (if v.toInt < 0 then none else some v.toInt.toNat, as)
  | .star, _ => none

/-- the conversion itself, once width and precision are known.

`strict = true` additionally refuses the two input classes on which igris
deviated until the `fix:` commits 8be88bc / ff2efab (former findings
C06-alt-zero, C06-c-nul); it was used to state the `_partial` theorem, which is
kept — `isoFormat` itself is `strict = false` and is what `printf_matches_iso`
is about. -/
def isoBody (pfmt : Nat → List Char) (strict : Bool) (d : Directive) (minus : Bool) (width : Nat)
    (prec : Option Nat) (args : List Arg) : Option (List Char × List Arg) :=
  let c := d.conv
  if c = '%' then
    -- "The complete conversion specification shall be %%."
    if d.minus || d.plus || d.space || d.hash || d.zero || d.width ≠ .none || d.prec ≠ .none || d.len ≠ .none then none
    else some (['%'], args)
  else if c = 'd' || c = 'i' then
    if d.hash then none else
    match signedArg d.len args with
    | none => none
    | some (v, args) =>
      some (isoInt minus d.plus d.space false d.zero width prec true (decide (v < 0)) v.natAbs 10 false, args)
  else if c = 'u' || c = 'o' || c = 'x' || c = 'X' then
    if d.hash && c = 'u' then none else
    match unsignedArg d.len args with
    | none => none
    | some (v, args) =>
      -- C06-alt-zero: `#` with a zero value (x, X; o when the effective precision is 1)
      if strict && d.hash && v = 0 && (c ≠ 'o' || prec.getD 1 = 1) then none else
      some (isoInt minus d.plus d.space d.hash d.zero width prec false false v
              (if c = 'u' then 10 else if c = 'o' then 8 else 16) (c = 'X'), args)
  else if c = 'c' then
    -- "the int argument is converted to an unsigned char, and the resulting character is written"
    if d.hash || d.zero || prec.isSome || d.len ≠ .none then none else
    match args with
    | .int v :: as =>
      -- C06-c-nul: `%c` of a NUL character
      if strict && v.toNat % 256 = 0 then none else
      some (pad minus width [Char.ofNat (v.toNat % 256)], as)
    | _ => none
  else if c = 's' then
    if d.hash || d.zero || d.len ≠ .none then none else
    match args with
    | .str mem :: as => (isoStr mem prec).map fun body => (pad minus width body, as)
    | _ => none
  else if c = 'p' then
    -- `+` and space act on "signed conversions" only; whether p is one belongs to its
    -- implementation-defined rendering (glibc: yes, igris: no) — here the flags have no effect
    if d.hash || d.zero || prec.isSome || d.len ≠ .none then none else
    match args with
    | .ptr v :: as => some (pad minus width (pfmt v.toNat), as)
    | _ => none
  else none

/-- one conversion specification applied to the argument list -/
def isoConv (pfmt : Nat → List Char) (strict : Bool) (d : Directive) (args : List Arg) : Option (List Char × List Arg) :=
  match resolveWidth d args with
  | none => none
  | some (minus, width, args) =>
    match resolvePrec d args with
    | none => none
    | some (prec, args) => isoBody pfmt strict d minus width prec args

/-- the format is copied unchanged except for conversion specifications
(§7.21.6.1p3); `fuel` ≥ length of the format -/
def isoAux (pfmt : Nat → List Char) (strict : Bool) : Nat → List Char → List Arg → Option (List Char)
  | _, [], _ => some []
  | 0, _ :: _, _ => none
  | fuel + 1, c :: cs, args =>
    if c = NUL then none
    else if c ≠ '%' then (isoAux pfmt strict fuel cs args).map (c :: ·)
    else
      match parseDirective cs with
      | none => none
      | some (d, rest) =>
        match isoConv pfmt strict d args with
        | none => none
        | some (out, args) => (isoAux pfmt strict fuel rest args).map (out ++ ·)

/-- the characters ISO C printf produces for `format` and `args` -/
def isoFormat (pfmt : Nat → List Char) (format : List Char) (args : List Arg) : Option (List Char) :=
  isoAux pfmt false format.length format args

/-- `isoFormat` restricted to inputs outside the recorded findings' classes -/
def isoFormatExcl (pfmt : Nat → List Char) (format : List Char) (args : List Arg) : Option (List Char) :=
  isoAux pfmt true format.length format args

/-- igris' rendering of a pointer: `0x` and 16 hexadecimal digits -/
def igrisPtr (p : Nat) : List Char :=
  let ds := Nat.toDigits 16 p
  '0' :: 'x' :: (List.replicate (16 - ds.length) '0' ++ ds)

/-- glibc's rendering of a pointer (used only by the driver for the `iso` stream) -/
def glibcPtr (p : Nat) : List Char :=
  if p = 0 then "(nil)".toList else '0' :: 'x' :: Nat.toDigits 16 p

/-- value of a lower-case hexadecimal digit -/
def hexDigitVal (c : Char) : Option Nat :=
  if c.isDigit then some (c.toNat - 48)
  else if 97 ≤ c.toNat ∧ c.toNat ≤ 102 then some (c.toNat - 87)
  else none

/-- reads a string of hexadecimal digits (what `strtoull(s, 0, 16)` does after the `0x`) -/
def parseHex (cs : List Char) : Option Nat :=
  cs.foldl (fun acc c => acc.bind fun a => (hexDigitVal c).map (a * 16 + ·)) (some 0)

/-! ### round 3b: `%p` at the level of the property text -/

/-- what the property demands of the text of a `%p` conversion: `0x` followed by at
least one hexadecimal digit, the digits parse back to the pointer — NO digit
count, no filling up to the size of a pointer (igris' 16 digits are one admissible
choice, `0x` + the significant digits another) -/
def PtrText (p : Nat) (txt : List Char) : Prop :=
  ∃ ds, ds ≠ [] ∧ txt = '0' :: 'x' :: ds ∧ parseHex ds = some p

/-- the canonical form in which the correspondence compares `%p` texts: the digits
are read back and printed the way the model prints a pointer (harness:
`canon_p_field`; the blanks of the field are recomputed for that length) -/
def canonPtrText (txt : List Char) : Option (List Char) :=
  match txt with
  | '0' :: 'x' :: ds => if ds = [] then none else (parseHex ds).map igrisPtr
  | _ => none

end Igris.C06.Iso
