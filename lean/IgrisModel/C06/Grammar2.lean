/-
  C06 (round 3) — the domain of `Iso.isoFormatExcl`, generatively.

  `isoFormatExcl` (Spec.lean) is `isoFormat` minus the two input classes on
  which igris deviated until the `fix:` commits of the extension round (`#` with
  a zero value, `%c` of NUL).  `IsoSupported fmt args` describes its domain
  without any parser, exactly like `IsoDefined` (Grammar.lean) does for
  `isoFormat`: a sequence of literal pieces and directive RECORDS that render
  to `fmt`, every directive accepted by `DirTxt.accepts` and — the only
  difference — not in one of the two classes (`DirTxt.former`, stated on the
  record and the argument list).  Props.lean proves
      (isoFormatExcl pfmt fmt args).isSome ↔ IsoSupported fmt args
      (isoFormat pfmt fmt args).isSome     ↔ IsoDefined fmt args
  which also makes both predicates decidable.
-/
import IgrisModel.C06.Grammar
namespace Igris.C06.Iso
open Igris.C06 (Arg Len NUL)

/-- is the (converted) value of the unsigned argument zero?  `hh`/`h`: "converted
to unsigned char / unsigned short before printing" -/
def zeroValue : Len → List Arg → Bool
  | .hh, .int v :: _ => v.toNat % 256 == 0
  | .h, .int v :: _ => v.toNat % 65536 == 0
  | .none, .int v :: _ => v.toNat == 0
  | .l, .long v :: _ | .ll, .long v :: _ | .j, .long v :: _ | .z, .long v :: _ | .t, .long v :: _ => v.toNat == 0
  | _, _ => false

/-- the input classes of the former findings C06-alt-zero (`#` with o, x, X and
a zero value; for o only when the precision in effect is 1) and C06-c-nul (`%c`
of a value that converts to the NUL character) -/
def DirTxt.former (d : DirTxt) (args : List Arg) : Bool :=
  match starWidthArg d.width args with
  | none => false
  | some args =>
    match effPrec d.prec args with
    | none => false
    | some (ep, args) =>
      let c := d.conv
      if c = 'o' || c = 'x' || c = 'X' then
        d.flags.contains '#' && zeroValue d.len args && (c != 'o' || ep.getD 1 == 1)
      else if c = 'c' then
        (match args with
         | .int v :: _ => v.toNat % 256 == 0
         | _ => false)
      else false

/-- `accepts`, with `strict` additionally outside the two classes -/
def DirTxt.acceptsS (strict : Bool) (d : DirTxt) (args : List Arg) : Option (List Arg) :=
  if strict && d.former args then none else d.accepts args

def segsAcceptS (strict : Bool) : List Seg → List Arg → Bool
  | [], _ => true
  | .text cs :: segs, args => cs.all (fun c => c != '%' && c != NUL) && segsAcceptS strict segs args
  | .dir d :: segs, args =>
    d.syntaxOk &&
    (match d.acceptsS strict args with
     | none => false
     | some args => segsAcceptS strict segs args)

/-- the domain of `isoFormatExcl` -/
def IsoSupported (fmt : List Char) (args : List Arg) : Prop :=
  ∃ segs, renderSegs segs = fmt ∧ segsAcceptS true segs args = true

end Igris.C06.Iso
