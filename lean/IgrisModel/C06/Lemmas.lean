/- C06 helper lemmas, top level: the format loop against `Iso.isoAux` -/
import IgrisModel.C06.LemCount
import IgrisModel.C06.LemConv
import IgrisModel.C06.LemWrap
import IgrisModel.C06.LemGrammar
import IgrisModel.C06.LemRange
import IgrisModel.C06.LemAlt
namespace Igris.C06
open Iso

theorem loop_iso (f : Nat) (fmt : List Char) (args : List Arg) (o : List Char)
    (h : isoAux igrisPtr false f fmt args = some o)
    (g : Nat) (out : List Char) (pc : Int) (hg : fmt.length < g) :
    ∃ pc', loop g fmt args out pc = .done (out ++ o) pc' := by
  induction f generalizing fmt args o g out pc with
  | zero =>
    cases fmt with
    | nil => simp [isoAux] at h; subst h; exact ⟨pc, by simp [loop]⟩
    | cons c cs => simp [isoAux] at h
  | succ f ih =>
    cases fmt with
    | nil => simp [isoAux] at h; subst h; exact ⟨pc, by simp [loop]⟩
    | cons c cs =>
      cases g with
      | zero => omega
      | succ g =>
        simp only [List.length_cons] at hg
        simp only [isoAux] at h
        split at h
        · cases h
        rename_i hnul
        split at h
        · rename_i hpct
          cases ho : isoAux igrisPtr false f cs args with
          | none => simp [ho] at h
          | some o' =>
            simp only [ho, Option.map_some, Option.some.injEq] at h
            subst h
            obtain ⟨pc', hl⟩ := ih cs args o' ho g (out ++ [c]) (pc + 1) (by omega)
            have hne : ¬ c = '%' := hpct
            refine ⟨pc', ?_⟩
            simp only [loop, hnul, if_false]
            rw [if_pos hpct]
            simpa using hl
        · rename_i hpct
          have hc : c = '%' := by simpa using hpct
          subst hc
          split at h
          · cases h
          · rename_i d rest hpd
            split at h
            · cases h
            · rename_i e a' hcv
              cases ho : isoAux igrisPtr false f rest a' with
              | none => simp [ho] at h
              | some o' =>
                simp only [ho, Option.map_some, Option.some.injEq] at h
                subst h
                obtain ⟨dpc, hdir⟩ := directive_iso cs args d rest e a' hpd hcv
                have hr := (directive_ok hdir).2
                simp only [List.tail_cons] at hr
                obtain ⟨pc', hl⟩ := ih rest a' o' ho g (out ++ e) (pc + dpc) (by omega)
                refine ⟨pc', ?_⟩
                simp only [loop, hnul, if_false, hdir]
                simpa using hl

theorem isoBody_strict_sub (pfmt : Nat → List Char) (d : Directive) (mi : Bool) (W : Nat)
    (pr : Option Nat) (args : List Arg) (r : List Char × List Arg)
    (h : isoBody pfmt true d mi W pr args = some r) : isoBody pfmt false d mi W pr args = some r := by
  unfold isoBody at h ⊢
  simp only [] at h ⊢
  generalize d.conv = c at h ⊢
  by_cases h1 : c = '%'
  · simp only [h1, if_true] at h ⊢; exact h
  simp only [h1, if_false] at h ⊢
  by_cases h2 : (c = 'd' || c = 'i') = true
  · simp only [h2, if_true] at h ⊢; exact h
  simp only [h2, Bool.false_eq_true, if_false] at h ⊢
  by_cases h3 : (c = 'u' || c = 'o' || c = 'x' || c = 'X') = true
  · simp only [h3, if_true] at h ⊢
    split at h
    · cases h
    · rename_i h4
      rw [if_neg h4]
      cases hua : unsignedArg d.len args with
      | none => simp [hua] at h
      | some q =>
        obtain ⟨v, as⟩ := q
        simp only [hua] at h ⊢
        split at h
        · cases h
        · simpa using h
  simp only [h3, Bool.false_eq_true, if_false] at h ⊢
  by_cases h4 : c = 'c'
  · simp only [h4, if_true] at h ⊢
    split at h
    · cases h
    · rename_i h5
      rw [if_neg h5]
      cases args with
      | nil => simp at h
      | cons x as =>
        cases x <;> simp at h ⊢
        exact h.2
  simp only [h4, if_false] at h ⊢
  exact h

theorem isoConv_strict_sub (pfmt : Nat → List Char) (d : Directive) (args : List Arg)
    (r : List Char × List Arg) (h : isoConv pfmt true d args = some r) : isoConv pfmt false d args = some r := by
  unfold isoConv at h ⊢
  split at h
  · cases h
  · rename_i mi W a1 hw
    split at h
    · cases h
    · rename_i pr a2 hp
      exact isoBody_strict_sub _ _ _ _ _ _ _ h

theorem isoAux_strict_sub (pfmt : Nat → List Char) (f : Nat) (fmt : List Char) (args : List Arg) (o : List Char)
    (h : isoAux pfmt true f fmt args = some o) : isoAux pfmt false f fmt args = some o := by
  induction f generalizing fmt args o with
  | zero =>
    cases fmt with
    | nil => simpa [isoAux] using h
    | cons c cs => simp [isoAux] at h
  | succ f ih =>
    cases fmt with
    | nil => simpa [isoAux] using h
    | cons c cs =>
      simp only [isoAux] at h ⊢
      split at h
      · cases h
      rename_i hnul
      rw [if_neg hnul]
      split at h
      · rename_i hpct
        rw [if_pos hpct]
        cases ho : isoAux pfmt true f cs args with
        | none => simp [ho] at h
        | some o' => simp only [ho] at h; simp only [ih _ _ _ ho]; exact h
      · rename_i hpct
        rw [if_neg hpct]
        split at h
        · cases h
        · rename_i d rest hpd
          split at h
          · cases h
          · rename_i e a' hcv
            simp only [isoConv_strict_sub _ _ _ _ hcv]
            cases ho : isoAux pfmt true f rest a' with
            | none => simp [ho] at h
            | some o' => simp only [ho] at h; simp only [ih _ _ _ ho]; exact h
theorem hexDigitVal_digitChar : ∀ r, r < 16 → hexDigitVal (Nat.digitChar r) = some r := by decide

theorem parseHex_snoc (xs : List Char) (c : Char) :
    parseHex (xs ++ [c]) = (parseHex xs).bind fun a => (hexDigitVal c).map (a * 16 + ·) := by
  simp [parseHex, List.foldl_append]

theorem parseHex_toDigits (n : Nat) : parseHex (Nat.toDigits 16 n) = some n := by
  induction n using Nat.strongRecOn with
  | _ n ih =>
    rw [Nat.toDigits_eq_if (by omega : 1 < 16)]
    by_cases h : n < 16
    · simp only [h, if_true]
      simp [parseHex, hexDigitVal_digitChar n h]
    · simp only [h, if_false]
      rw [parseHex_snoc, ih (n / 16) (Nat.div_lt_self (by omega) (by omega)),
        hexDigitVal_digitChar _ (Nat.mod_lt n (by omega))]
      simp
      omega

theorem parseHex_zeros (k : Nat) (ds : List Char) :
    parseHex (List.replicate k '0' ++ ds) = parseHex ds := by
  induction k with
  | zero => simp
  | succ k ih =>
    have h0 : hexDigitVal '0' = some 0 := by decide
    simp only [parseHex, List.replicate_succ, List.cons_append, List.foldl_cons, Option.bind_some, h0,
      Option.map_some] at ih ⊢
    simpa using ih
end Igris.C06
