import IgrisModel.C06.Model
import IgrisModel.C06.Spec
namespace Igris.C06
end Igris.C06
