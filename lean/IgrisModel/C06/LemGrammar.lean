/- C06 helper lemmas: the generative grammar of Grammar.lean lies inside the domain of `Iso.isoFormat` -/
import IgrisModel.C06.Grammar
import IgrisModel.C06.LemParse
namespace Igris.C06
open Iso

def numOf : NumTxt → Num
  | .none => .none
  | .star => .star
  | .lit ds => .lit (decimal ds)

/-- the `Directive` the spec's parser is expected to find in the rendered text -/
def dirOf (d : DirTxt) : Directive :=
  { minus := d.flags.contains '-', plus := d.flags.contains '+', space := d.flags.contains ' ',
    hash := d.flags.contains '#', zero := d.flags.contains '0',
    width := numOf d.width, prec := numOf d.prec, len := d.len, conv := d.conv }

theorem takeWhile_append_hd (a b : List Char) (q : Char → Bool) (ha : a.all q = true) (hb : q (hd b) = false) :
    (a ++ b).takeWhile q = a ∧ (a ++ b).dropWhile q = b := by
  induction a with
  | nil => simpa using takeWhile_nil_of_hd b q hb
  | cons x xs ih =>
    simp only [List.all_cons, Bool.and_eq_true] at ha
    obtain ⟨h1, h2⟩ := ih ha.2
    simp [ha.1, h1, h2]

theorem flagChar_eq : flagChar = isFlag := rfl

theorem convChar_valid (c : Char) (h : convChar c = true) : validConv c = true := by
  simp only [convChar, Bool.or_eq_true, decide_eq_true_eq] at h
  rcases h with ((((((((h | h) | h) | h) | h) | h) | h) | h) | h) | h <;> subst h <;> decide

/-- a character that can begin `length? conversion` -/
def tailStart (c : Char) : Bool := validConv c || lenStart c

theorem tailStart_props (c : Char) (h : tailStart c = true) :
    c.isDigit = false ∧ c ≠ '.' ∧ c ≠ '*' ∧ isFlag c = false := by
  simp only [tailStart, Bool.or_eq_true] at h
  rcases h with h | h
  · have := validConv_props c h; exact ⟨this.1, this.2.2.2.2.1, this.2.2.2.2.2.1, this.2.2.2.2.2.2.1⟩
  · have := lenStart_props c h; exact ⟨this.1, this.2.2.2.2.1, this.2.2.2.2.2.1, this.2.2.2.2.2.2.1⟩

theorem hd_tail3 (l : Len) (c : Char) (more : List Char) (hl : l ≠ .bigL) (hc : validConv c = true) :
    tailStart (hd (lenText l ++ c :: more)) = true := by
  cases l <;> simp [lenText, hd, tailStart, lenStart, hc] at hl ⊢

theorem parseLen_render (l : Len) (c : Char) (more : List Char) (hl : l ≠ .bigL) (hc : validConv c = true) :
    parseLen (lenText l ++ c :: more) = (l, c :: more) := by
  have hp := validConv_props c hc
  have hls : lenStart c = false := hp.2.2.2.2.2.2.2.2.2
  simp only [lenStart, Bool.or_eq_false_iff, decide_eq_false_iff_not] at hls
  obtain ⟨⟨⟨⟨n1, n2⟩, n3⟩, n4⟩, n5⟩ := hls
  cases l
  · simp [lenText, parseLen, n1, n2, n3, n4, n5]
  · simp [lenText, parseLen]
  · simp [lenText, parseLen, n1]
  · simp [lenText, parseLen, n2]
  · simp [lenText, parseLen]
  · simp [lenText, parseLen]
  · simp [lenText, parseLen]
  · simp [lenText, parseLen]
  · exact absurd rfl hl

/-- head of `precision? length? conversion` -/
theorem hd_tail2 (p : NumTxt) (R3 : List Char) (h3 : tailStart (hd R3) = true) :
    (hd (precText p ++ R3)).isDigit = false ∧ hd (precText p ++ R3) ≠ '*' ∧ isFlag (hd (precText p ++ R3)) = false := by
  cases p with
  | none => have := tailStart_props _ h3; exact ⟨this.1, this.2.2.1, this.2.2.2⟩
  | star => simp [precText, hd]; decide
  | lit ds => simp [precText, hd]; decide

theorem parsePrec_render (p : NumTxt) (R3 : List Char) (h3 : tailStart (hd R3) = true)
    (hp : match p with | .lit ds => ds.all Char.isDigit = true | _ => True) :
    parsePrec (precText p ++ R3) = (numOf p, R3) := by
  have h3p := tailStart_props _ h3
  cases p with
  | none =>
    cases R3 with
    | nil => simp [precText, parsePrec, numOf]
    | cons a t =>
      have ha : a ≠ '.' := by simpa [hd] using h3p.2.1
      simp [precText, parsePrec, numOf, ha]
  | star => simp [precText, parsePrec, numOf]
  | lit ds =>
    have htw := takeWhile_append_hd ds R3 Char.isDigit hp h3p.1
    have hne : ∀ a t, ds ++ R3 = a :: t → a ≠ '*' := by
      intro a t h
      cases ds with
      | nil =>
        simp only [List.nil_append] at h
        have := h3p.2.2.1; rw [h] at this; simpa [hd] using this
      | cons x xs =>
        simp only [List.cons_append, List.cons.injEq] at h
        simp only [List.all_cons, Bool.and_eq_true] at hp
        have := (isDigit_props x hp.1).2.2.2.1
        rw [← h.1]; exact this
    simp only [precText, List.cons_append, numOf]
    cases hds : ds ++ R3 with
    | nil => rw [hds] at htw; simp [parsePrec, ← htw.1, ← htw.2]
    | cons a t =>
      have ha := hne a t hds
      rw [hds] at htw
      simp [parsePrec, ha, htw.1, htw.2]

theorem parseWidth_render (w : NumTxt) (R2 : List Char)
    (h2 : (hd R2).isDigit = false ∧ hd R2 ≠ '*')
    (hw : match w with | .lit ds => (!ds.isEmpty && ds.all Char.isDigit && ds.head? != some '0') = true | _ => True) :
    parseWidth (widthText w ++ R2) = (numOf w, R2) := by
  cases w with
  | none =>
    have htw := takeWhile_nil_of_hd R2 Char.isDigit h2.1
    cases R2 with
    | nil => simp [widthText, parseWidth, numOf]
    | cons a t =>
      have ha : a ≠ '*' := by simpa [hd] using h2.2
      simp only [widthText, List.nil_append, numOf]
      unfold parseWidth
      split
      · rename_i heq; cases heq; exact absurd rfl ha
      · simp [htw.1]
  | star => simp [widthText, parseWidth, numOf]
  | lit ds =>
    simp only [Bool.and_eq_true, Bool.not_eq_true', bne_iff_ne, ne_eq] at hw
    obtain ⟨⟨hne, hall⟩, _⟩ := hw
    have htw := takeWhile_append_hd ds R2 Char.isDigit hall h2.1
    cases ds with
    | nil => simp at hne
    | cons x xs =>
      simp only [List.all_cons, Bool.and_eq_true] at hall
      have hx : x ≠ '*' := (isDigit_props x hall.1).2.2.2.1
      simp only [widthText, numOf]
      unfold parseWidth
      split
      · rename_i heq; simp only [List.cons_append, List.cons.injEq] at heq; exact absurd heq.1 hx
      · simp only [List.cons_append] at htw ⊢
        simp [htw.1, htw.2]

/-- head of `width? precision? length? conversion` is not a flag -/
theorem hd_tail1 (w : NumTxt) (R2 : List Char) (h2 : isFlag (hd R2) = false)
    (hw : match w with | .lit ds => (!ds.isEmpty && ds.all Char.isDigit && ds.head? != some '0') = true | _ => True) :
    isFlag (hd (widthText w ++ R2)) = false := by
  cases w with
  | none => exact h2
  | star => simp [widthText, hd]; decide
  | lit ds =>
    simp only [Bool.and_eq_true, Bool.not_eq_true', bne_iff_ne, ne_eq] at hw
    obtain ⟨⟨hne, hall⟩, h0⟩ := hw
    cases ds with
    | nil => simp at hne
    | cons x xs =>
      simp only [List.all_cons, Bool.and_eq_true] at hall
      have hp := isDigit_props x hall.1
      have hx0 : x ≠ '0' := by simpa using h0
      have hsp : x ≠ ' ' := by intro h; subst h; exact absurd hall.1 (by decide)
      have hha : x ≠ '#' := by intro h; subst h; exact absurd hall.1 (by decide)
      simp [widthText, hd, isFlag, hp.2.1, hp.2.2.1, hx0, hsp, hha]

set_option linter.constructorNameAsVariable false in
/-- the spec's parser finds exactly the rendered directive -/
theorem parseDirective_render (d : DirTxt) (more : List Char) (hs : d.syntaxOk = true) :
    parseDirective (d.body ++ more) = some (dirOf d, more) := by
  simp only [DirTxt.syntaxOk, Bool.and_eq_true, bne_iff_ne, ne_eq] at hs
  obtain ⟨⟨⟨⟨hfl, hw⟩, hp⟩, hl⟩, hc⟩ := hs
  have hcv := convChar_valid _ hc
  have h3 := hd_tail3 d.len d.conv more hl hcv
  have h2 := hd_tail2 d.prec (lenText d.len ++ d.conv :: more) h3
  have hw' : match d.width with
      | .lit ds => (!ds.isEmpty && ds.all Char.isDigit && ds.head? != some '0') = true | _ => True := by
    cases hwd : d.width <;> simp_all
  have hp' : match d.prec with | .lit ds => ds.all Char.isDigit = true | _ => True := by
    cases hpd : d.prec <;> simp_all
  have h1 := hd_tail1 d.width (precText d.prec ++ (lenText d.len ++ d.conv :: more)) h2.2.2 hw'
  have hbody : d.body ++ more
      = d.flags ++ (widthText d.width ++ (precText d.prec ++ (lenText d.len ++ d.conv :: more))) := by
    simp [DirTxt.body, List.append_assoc]
  rw [hbody]
  have hF := takeWhile_append_hd d.flags _ isFlag (by rw [← flagChar_eq]; exact hfl) h1
  unfold parseDirective
  simp only [hF.1, hF.2, parseWidth_render d.width _ ⟨h2.1, h2.2.1⟩ hw', parsePrec_render d.prec _ h3 hp',
    parseLen_render d.len d.conv more hl hcv]
  rfl

theorem intArg_signed (len : Len) (args rest : List Arg) (h : intArg len args = some rest) :
    ∃ v, signedArg len args = some (v, rest) := by
  unfold intArg at h
  split at h <;> simp at h <;> subst h <;> simp [signedArg]

theorem intArg_unsigned (len : Len) (args rest : List Arg) (h : intArg len args = some rest) :
    ∃ v, unsignedArg len args = some (v, rest) := by
  unfold intArg at h
  split at h <;> simp at h <;> subst h <;> simp [unsignedArg]

theorem resolveWidth_of (d : DirTxt) (args a1 : List Arg) (h : starWidthArg d.width args = some a1) :
    ∃ mi W, resolveWidth (dirOf d) args = some (mi, W, a1) := by
  cases hw : d.width with
  | none => simp [starWidthArg, hw] at h; subst h; simp only [resolveWidth, dirOf, numOf, hw]; exact ⟨_, _, rfl⟩
  | lit ds => simp [starWidthArg, hw] at h; subst h; simp only [resolveWidth, dirOf, numOf, hw]; exact ⟨_, _, rfl⟩
  | star =>
    cases args with
    | nil => simp [starWidthArg, hw] at h
    | cons x as =>
      cases x <;> simp [starWidthArg, hw] at h
      subst h
      simp only [resolveWidth, dirOf, numOf, hw]
      exact ⟨_, _, rfl⟩

theorem resolvePrec_of (d : DirTxt) (a1 a2 : List Arg) (ep : Option Nat) (h : effPrec d.prec a1 = some (ep, a2)) :
    resolvePrec (dirOf d) a1 = some (ep, a2) := by
  cases hp : d.prec with
  | none => simp [effPrec, hp] at h; simp [resolvePrec, dirOf, numOf, hp, h]
  | lit ds => simp [effPrec, hp] at h; simp [resolvePrec, dirOf, numOf, hp, h]
  | star =>
    cases a1 with
    | nil => simp [effPrec, hp] at h
    | cons x as =>
      cases x <;> simp [effPrec, hp] at h
      simp [resolvePrec, dirOf, numOf, hp, h]

theorem isoStr_of_ok (mem : List Char) (ep : Option Nat) (h : strArgOk mem ep = true) : (isoStr mem ep).isSome := by
  unfold strArgOk at h
  unfold isoStr
  cases ep with
  | none =>
    simp only [Bool.or_false, List.contains_iff_mem] at h
    simp [h]
  | some p =>
    simp only [Bool.or_eq_true, List.contains_iff_mem, decide_eq_true_eq] at h
    have : NUL ∈ mem.take p ∨ p ≤ mem.length := by
      rcases h with h | h
      · by_cases hle : p ≤ mem.length
        · exact Or.inr hle
        · left; rw [List.take_of_length_le (by omega)]; exact h
      · exact Or.inr h
    simp [this]

/-- ISO defines the conversion on every directive/argument list the grammar accepts -/
theorem accepts_isoConv (pfmt : Nat → List Char) (d : DirTxt) (args rest : List Arg)
    (hs : d.syntaxOk = true) (ha : d.accepts args = some rest) :
    ∃ out, isoConv pfmt false (dirOf d) args = some (out, rest) := by
  unfold DirTxt.accepts at ha
  cases hsw : starWidthArg d.width args with
  | none => simp [hsw] at ha
  | some a1 =>
  simp only [hsw] at ha
  cases hep : effPrec d.prec a1 with
  | none => simp [hep] at ha
  | some q =>
  obtain ⟨ep, a2⟩ := q
  simp only [hep] at ha
  obtain ⟨mi, W, hrw⟩ := resolveWidth_of d args a1 hsw
  have hrp := resolvePrec_of d a1 a2 ep hep
  unfold isoConv
  simp only [hrw, hrp]
  simp only [DirTxt.syntaxOk, Bool.and_eq_true] at hs
  have hc := hs.2
  simp only [convChar, Bool.or_eq_true, decide_eq_true_eq] at hc
  unfold isoBody
  rcases hc with ((((((((hc | hc) | hc) | hc) | hc) | hc) | hc) | hc) | hc) | hc
  all_goals simp only [hc, dirOf] at ha ⊢
  -- d, i
  · simp at ha ⊢
    obtain ⟨hh, hi⟩ := ha
    obtain ⟨v, hv⟩ := intArg_signed _ _ _ hi
    simp [hh, hv]
  · simp at ha ⊢
    obtain ⟨hh, hi⟩ := ha
    obtain ⟨v, hv⟩ := intArg_signed _ _ _ hi
    simp [hh, hv]
  -- u
  · simp at ha ⊢
    obtain ⟨hh, hi⟩ := ha
    obtain ⟨v, hv⟩ := intArg_unsigned _ _ _ hi
    simp [hh, hv]
  -- o, x, X
  · simp at ha ⊢
    obtain ⟨v, hv⟩ := intArg_unsigned _ _ _ ha
    simp [hv]
  · simp at ha ⊢
    obtain ⟨v, hv⟩ := intArg_unsigned _ _ _ ha
    simp [hv]
  · simp at ha ⊢
    obtain ⟨v, hv⟩ := intArg_unsigned _ _ _ ha
    simp [hv]
  -- c
  · simp at ha ⊢
    obtain ⟨hcond, hm⟩ := ha
    cases a2 with
    | nil => simp at hm
    | cons x as =>
      cases x <;> simp at hm
      subst hm
      simp [hcond]
  -- s
  · simp at ha ⊢
    obtain ⟨hcond, hm⟩ := ha
    cases a2 with
    | nil => simp at hm
    | cons x as =>
      cases x <;> simp at hm
      obtain ⟨hok, hr⟩ := hm
      subst hr
      have := isoStr_of_ok _ _ hok
      cases hi : isoStr _ ep with
      | none => rw [hi] at this; cases this
      | some body => simp [hcond, hi]
  -- p
  · simp at ha ⊢
    obtain ⟨hcond, hm⟩ := ha
    cases a2 with
    | nil => simp at hm
    | cons x as =>
      cases x <;> simp at hm
      subst hm
      simp [hcond]
  -- %
  · simp at ha ⊢
    obtain ⟨⟨⟨⟨h1, h2⟩, h3⟩, h4⟩, h5⟩ := ha
    subst h5
    simp [h1, h2, h3, h4, numOf]

theorem isoAux_text (pfmt : Nat → List Char) (strict : Bool) (cs : List Char)
    (hcs : cs.all (fun c => c != '%' && c != NUL) = true) (fuel : Nat) (fmt : List Char) (args : List Arg)
    (hf : (cs ++ fmt).length ≤ fuel) :
    isoAux pfmt strict fuel (cs ++ fmt) args = (isoAux pfmt strict (fuel - cs.length) fmt args).map (cs ++ ·) := by
  induction cs generalizing fuel with
  | nil => simp
  | cons c cs ih =>
    simp only [List.all_cons, Bool.and_eq_true, bne_iff_ne, ne_eq] at hcs
    obtain ⟨⟨hp, hn⟩, hrest⟩ := hcs
    cases fuel with
    | zero => simp at hf
    | succ fuel =>
      simp only [List.cons_append, List.length_cons] at hf ⊢
      simp only [isoAux, hn, if_false]
      rw [if_pos (by simpa using hp)]
      rw [ih hrest fuel (by omega)]
      have : fuel + 1 - (cs.length + 1) = fuel - cs.length := by omega
      rw [this]
      cases isoAux pfmt strict (fuel - cs.length) fmt args <;> simp

theorem grammar_defined (pfmt : Nat → List Char) (segs : List Seg) (args : List Arg)
    (h : segsAccept segs args = true) (fuel : Nat) (hf : (renderSegs segs).length ≤ fuel) :
    (isoAux pfmt false fuel (renderSegs segs) args).isSome := by
  induction segs generalizing args fuel with
  | nil => cases fuel <;> simp [renderSegs, isoAux]
  | cons sg segs ih =>
    cases sg with
    | text cs =>
      simp only [segsAccept, Bool.and_eq_true] at h
      have hr : renderSegs (Seg.text cs :: segs) = cs ++ renderSegs segs := by simp [renderSegs, Seg.render]
      rw [hr] at hf ⊢
      rw [isoAux_text pfmt false cs h.1 fuel _ args hf]
      have := ih args h.2 (fuel - cs.length) (by simp at hf; omega)
      cases hx : isoAux pfmt false (fuel - cs.length) (renderSegs segs) args with
      | none => rw [hx] at this; cases this
      | some o => simp
    | dir d =>
      simp only [segsAccept, Bool.and_eq_true] at h
      obtain ⟨hs, hacc⟩ := h
      cases ha : d.accepts args with
      | none => simp [ha] at hacc
      | some a' =>
        simp only [ha] at hacc
        have hr : renderSegs (Seg.dir d :: segs) = '%' :: (d.body ++ renderSegs segs) := by
          simp [renderSegs, Seg.render]
        rw [hr] at hf ⊢
        cases fuel with
        | zero => simp at hf
        | succ fuel =>
          obtain ⟨out, hcv⟩ := accepts_isoConv pfmt d args a' hs ha
          have hpd := parseDirective_render d (renderSegs segs) hs
          simp only [isoAux]
          have hnul : ¬ ('%' = NUL) := by decide
          rw [if_neg hnul, if_neg (by simp)]
          simp only [hpd, hcv]
          have := ih a' hacc fuel (by simp at hf; omega)
          cases hx : isoAux pfmt false fuel (renderSegs segs) a' with
          | none => rw [hx] at this; cases this
          | some o => simp

end Igris.C06
