import IgrisModel.Common.Proto
import IgrisModel.C06.Model
import IgrisModel.C06.Model2
import IgrisModel.C06.Spec
open Igris.Proto Igris.C06

def charsOfBytes (bs : List Byte) : List Char := bs.map fun b => Char.ofNat b.toNat

def hexOfChars (cs : List Char) : String :=
  if cs.isEmpty then "-" else String.join (cs.map fun c => hexOfNat 2 c.toNat)

def parseArg (w : String) : Option Arg :=
  match w.toList with
  | k :: ':' :: rest =>
    let r := String.ofList rest
    match k with
    | 'i' => r.toInt?.map fun v => Arg.int (BitVec.ofInt 32 v)
    | 'l' => r.toInt?.map fun v => Arg.long (BitVec.ofInt 64 v)
    | 'p' => (parseHexNat? r).map fun v => Arg.ptr (BitVec.ofNat 64 v)
    | 'n' => some Arg.null
    | 's' => (parseBytes? r).map fun bs => Arg.str (charsOfBytes bs ++ [NUL])
    | 'u' => (parseBytes? r).map fun bs => Arg.str (charsOfBytes bs)
    -- round 3: the pointer argument of `%n` (slot number k of the harness), a wide string (wchar_t = 4 bytes, LE)
    | 'N' => r.toNat?.map fun k => Arg.ptr (BitVec.ofNat 64 k)
    | 'w' => (parseBytes? r).map fun bs =>
        Arg.str ((charsOfBytes bs).flatMap (fun c => [c, NUL, NUL, NUL]) ++ [NUL, NUL, NUL, NUL])
    | _ => none
  | _ => none

def showRes (ret : Int) (out : List Char) : String := toString ret ++ " " ++ hexOfChars out

def showOutcome : Outcome → String
  | .done out pc => showRes pc out
  | .fault => "fault"
  | .badarg => "badarg"
  | .unsupported => "unsupported"
  | .diverged => "diverged"

def showOutcomeN : OutcomeN → String
  | .done out pc st =>
    showRes pc out ++ String.join (st.map fun s =>
      " n" ++ toString s.addr.toNat ++ ":" ++ toString s.size ++ ":" ++ toString s.val)
  | .fault => "fault"
  | .badarg => "badarg"
  | .unsupported => "unsupported"
  | .diverged => "diverged"
  | .intovf => "intovf"

/-- op `consts`: what the public signature and the platform fix (round 3b: the internal constants of
printf_impl.c — PRINT_I_BUFF_SZ, PRINT_S_NULL_STR, the OPS_* masks, the digit count of %p — are not fixed by the
property; the harness reports them as tags) -/
def constsLine : String :=
  "int_max=" ++ toString INT_MAX ++
  " sizeof_pc=4 n_sizes=" ++ String.intercalate ","
    ([Len.hh, .h, .l, .ll, .j, .z, .t, .none].map fun l => toString (nSize l))

def evalOp (ws : List String) : Option String :=
    match ws with
    | op :: rest =>
      let (limit, rest) : Option Int × List String :=
        if op = "fd" || op = "fdv" || op = "sn" || op = "vsn" then (rest.head?.bind String.toInt?, rest.tail)
        else (none, rest)
      match rest with
      | f :: as => do
        let fmt ← (parseBytes? f).map charsOfBytes
        let args ← as.mapM parseArg
        match op with
        | "pf" => pure (showOutcome (printf fmt args))
        -- probes of finding C06-star-width-int-min (`*` width = INT_MIN): the model would go on with a
        -- width of 2^31 (star_width_int_min_witness); the line is not compared, do not build 2 GiB of padding
        | "pfmin" => pure "int-min-star"
        -- round 3: the engine with `%n` and `int` arithmetic
        | "pn" => pure (showOutcomeN (printfN fmt args))
        | "sp" | "spv" =>
          match vsprintf fmt args with
          | some (buf, ret) => pure (showRes ret buf)
          | none => pure (showOutcome (printf fmt args))
        | "fd" => do
          let l ← limit
          match vfdprintf (if l < 0 then none else some l.toNat) (-1) fmt args with
          | some (out, ret) => pure (showRes ret out)
          | none => pure (showOutcome (printf fmt args))
        | "fdv" => do
          let l ← limit
          match fdprintf (if l < 0 then none else some l.toNat) (-1) fmt args with
          | some (out, ret) => pure (showRes ret out)
          | none => pure (showOutcome (printf fmt args))
        | "sn" | "vsn" => do
          -- the harness hands over an allocation of exactly `size` bytes filled with a5
          -- (a declared size above 4096 means "large enough": the allocation is then exactly output + NUL)
          let l ← limit
          let extent : Nat :=
            if l ≤ 4096 then l.toNat
            else match printf fmt args with
              | .done out _ => out.length + 1
              | _ => 0
          let mem := List.replicate extent (Char.ofNat 0xa5)
          -- (the closed form of Model2.lean, linear in the output: `vsnprintf_fast_eq`)
          match (if op = "sn" then snprintfFast mem l.toNat fmt args else vsnprintfFast mem l.toNat fmt args) with
          | some (buf, ret) => pure (showRes ret buf)
          | none =>
            match printf fmt args with
            | .done _ _ => pure "fault"
            | o => pure (showOutcome o)
        | "iso" =>
          match Iso.isoFormat Iso.glibcPtr fmt args with
          | some out => pure (showRes out.length out)
          | none => pure "undef"
        | _ => none
      | _ => none
    | _ => none

/-- `a / b / c` → [a, b, c] -/
def splitSlash (ws : List String) : List (List String) :=
  ws.foldr (fun w acc => if w = "/" then [] :: acc else
    match acc with
    | [] => [[w]]
    | g :: gs => (w :: g) :: gs) [[]]

def stepLine (_ : Unit) (line : String) : Unit × String :=
  let r : Option String :=
    match words line with
    | ["consts"] => some constsLine
    -- several calls in one op (one entry point after the other on the same process state)
    | "seq" :: rest => ((splitSlash rest).mapM evalOp).map (String.intercalate " | ")
    -- a call the harness made BEFORE main() (static-initialisation order); the model is a function: same answer
    | "premain" :: _ :: rest => evalOp rest
    | ws => evalOp ws
  ((), r.getD "bad-op")

def main : IO Unit := run () stepLine
