/- C06 helper lemmas: print_i's digit loop = `Nat.toDigits` -/
import IgrisModel.C06.Model
namespace Igris.C06

/-- the character print_i stores for a digit value `r < 16` -/
theorem digitOf_lower : ∀ r, r < 16 →
    Char.ofNat ((if r ≥ 10 then r + (97 - 10 - 48) else r) + 48) = Nat.digitChar r := by decide

theorem digitOf_upper : ∀ r, r < 16 →
    Char.ofNat ((if r ≥ 10 then r + (65 - 10 - 48) else r) + 48) = (Nat.digitChar r).toUpper := by decide

/-- lower-case digits are their own upper case below 10 -/
theorem digitChar_toUpper_lt10 : ∀ r, r < 10 → (Nat.digitChar r).toUpper = Nat.digitChar r := by decide

/-- the case mapping the spec applies to `Nat.toDigits` -/
def caseMap (upper : Bool) (c : Char) : Char := if upper then c.toUpper else c

theorem digitOf_eq (u base : Nat) (upper : Bool) (hb0 : 0 < base) (hb : base ≤ 16) :
    digitOf u base (if upper then 65 else 97) = caseMap upper (Nat.digitChar (u % base)) := by
  have hr : u % base < 16 := Nat.lt_of_lt_of_le (Nat.mod_lt u hb0) hb
  unfold digitOf caseMap
  cases upper
  · simpa using digitOf_lower (u % base) hr
  · simpa using digitOf_upper (u % base) hr

theorem digitLoop_eq (base : Nat) (upper : Bool) (hb : 2 ≤ base) (hb16 : base ≤ 16)
    (room u : Nat) (acc : List Char) (hlen : (Nat.toDigits base u).length ≤ room) :
    digitLoop base (if upper then 65 else 97) room u acc
      = some ((Nat.toDigits base u).map (caseMap upper) ++ acc) := by
  induction room generalizing u acc with
  | zero =>
    have := @Nat.length_toDigits_pos base u
    omega
  | succ room ih =>
    simp only [digitLoop]
    rw [digitOf_eq u base upper (by omega) hb16]
    rw [Nat.toDigits_eq_if (by omega : 1 < base)] at hlen ⊢
    by_cases hu : u < base
    · have hdiv : u / base = 0 := Nat.div_eq_of_lt hu
      simp [hu, hdiv, Nat.mod_eq_of_lt hu]
    · have hdiv : u / base ≠ 0 := by
        intro h
        have := Nat.div_eq_zero_iff.mp h
        omega
      simp only [hu, if_false] at hlen ⊢
      simp only [hdiv, ne_eq, not_false_eq_true, if_true]
      rw [ih (u / base) _ (by simp at hlen; omega)]
      simp

/-- the leading digit of a nonzero number is not `0` -/
theorem toDigits_head_ne_zero (base : Nat) (hb : 2 ≤ base) (n : Nat) (hn : 0 < n) :
    (Nat.toDigits base n).head? ≠ some '0' := by
  induction n using Nat.strongRecOn with
  | _ n ih =>
    rw [Nat.toDigits_eq_if (by omega : 1 < base)]
    by_cases hu : n < base
    · simp [hu]; omega
    · simp only [hu, if_false]
      have hpos : 0 < n / base := Nat.div_pos (by omega) (by omega)
      have hlt : n / base < n := Nat.div_lt_self hn (by omega)
      have := ih (n / base) hlt hpos
      have hne : Nat.toDigits base (n / base) ≠ [] := Nat.toDigits_ne_nil
      cases hd : Nat.toDigits base (n / base) with
      | nil => exact absurd hd hne
      | cons a as => rw [hd] at this; simpa using this

/-- 22 digits (`PRINT_I_BUFF_SZ - 1`) hold every 64-bit value in base 8 and above -/
theorem toDigits_length_le_22 (base : Nat) (hb : 8 ≤ base) (u : Nat) (hu : u < 2 ^ 64) :
    (Nat.toDigits base u).length ≤ 22 := by
  rw [Nat.length_toDigits_le_iff (by omega) (by omega)]
  have h1 : (8 : Nat) ^ 22 ≤ base ^ 22 := Nat.pow_le_pow_left hb 22
  have h2 : (2 : Nat) ^ 64 ≤ 8 ^ 22 := by decide
  omega

end Igris.C06
