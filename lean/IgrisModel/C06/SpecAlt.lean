/-
  C06 — a SECOND formulation of the integer conversions of ISO C 7.21.6.1,
  written differently from `Iso.isoInt` on purpose, so that a slip in either is
  caught by `iso_int_formulations_agree` (Props.lean):
    * digits by repeated division (own recursion) instead of `Nat.toDigits`;
    * every padding COUNTED first (zeros demanded by the precision, the extra
      octal zero decided from the VALUE instead of looking at the first
      character, the fill to the field width), the text assembled once at the end
      in the fixed order  spaces · sign · prefix · zeros · digits · spaces.
-/
import IgrisModel.C06.Spec
namespace Igris.C06.Iso

/-- the digits of `n` in `base`, most significant first, by repeated division
(`fuel` > `n` passes always suffice) -/
def digitsDiv (base : Nat) : Nat → Nat → List Char
  | 0, _ => []
  | fuel + 1, n =>
    if n < base then [Nat.digitChar n]
    else digitsDiv base fuel (n / base) ++ [Nat.digitChar (n % base)]

def isoInt2 (minus plus space hash zero : Bool) (width : Nat) (prec : Option Nat)
    (signedConv neg : Bool) (mag base : Nat) (upper : Bool) : List Char :=
  -- the digits of the value; none at all for 0 with precision 0
  let raw := if mag = 0 ∧ prec = some 0 then [] else digitsDiv base (mag + 1) mag
  let raw := if upper then raw.map Char.toUpper else raw
  -- zeros demanded by the precision ("minimum number of digits", default 1)
  let precZeros := prec.getD 1 - raw.length
  -- `#` with o: one more zero exactly when the result would not begin with one:
  -- no precision zero in front and the digits are those of a nonzero value, or there is no digit
  let octZero := if hash ∧ base = 8 ∧ precZeros = 0 ∧ (raw = [] ∨ mag ≠ 0) then 1 else 0
  let sign : List Char :=
    if signedConv = false then [] else if neg then ['-'] else if plus then ['+'] else if space then [' '] else []
  let pfx : List Char :=
    if hash ∧ base = 16 ∧ mag ≠ 0 then (if upper then ['0', 'X'] else ['0', 'x']) else []
  -- what is missing to the field width
  let fill := width - (sign.length + pfx.length + precZeros + octZero + raw.length)
  let zeroFill := if minus = false ∧ zero ∧ prec = none then fill else 0
  let leftSpaces := if minus then 0 else fill - zeroFill
  let rightSpaces := if minus then fill else 0
  List.replicate leftSpaces ' ' ++ sign ++ pfx ++ List.replicate (zeroFill + precZeros + octZero) '0' ++ raw
    ++ List.replicate rightSpaces ' '

end Igris.C06.Iso
