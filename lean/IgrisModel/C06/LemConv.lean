/- C06 helper lemmas: "handle specifier" of __printf against `Iso.isoBody` -/
import IgrisModel.C06.LemInt
import IgrisModel.C06.LemStr
import IgrisModel.C06.LemParse
namespace Igris.C06
open Iso

/-- sign and magnitude of a 64-bit two's complement value, as print_i computes them -/
theorem signMag (u : BitVec 64) :
    u.msb = decide (u.toInt < 0) ∧ (if u.msb then -u else u).toNat = u.toInt.natAbs := by
  have h1 := BitVec.msb_eq_decide u
  have h2 := BitVec.toInt_eq_toNat_cond u
  have h3 := u.isLt
  have h4 : (-u).toNat = (2 ^ 64 - u.toNat) % 2 ^ 64 := BitVec.toNat_neg u
  by_cases hm : 2 ^ 63 ≤ u.toNat
  · have : u.msb = true := by simp [h1, hm]
    rw [this]
    simp only [if_true]
    constructor
    · simp; omega
    · rw [h4]; omega
  · have : u.msb = false := by simp [h1, hm]
    rw [this]
    simp only [Bool.false_eq_true, if_false]
    constructor
    · simp; omega
    · omega

theorem bmod_toInt32 (v : BitVec 32) (k : Nat) (hk : k = 256 ∨ k = 65536) :
    (v.toNat : Int).bmod k = v.toInt.bmod k := by
  have h2 := BitVec.toInt_eq_toNat_cond v
  have h3 := v.isLt
  rcases hk with hk | hk <;> subst hk <;> simp only [Int.bmod] <;> split at h2 <;> omega

theorem toInt_signExtend_trunc8 (v : BitVec 32) :
    ((v.truncate 8).signExtend 64).toInt = v.toInt.bmod 256 := by
  rw [BitVec.toInt_signExtend_of_le (by omega)]
  simp only [BitVec.truncate, BitVec.toInt_setWidth]
  exact bmod_toInt32 v 256 (Or.inl rfl)

theorem toInt_signExtend_trunc16 (v : BitVec 32) :
    ((v.truncate 16).signExtend 64).toInt = v.toInt.bmod 65536 := by
  rw [BitVec.toInt_signExtend_of_le (by omega)]
  simp only [BitVec.truncate, BitVec.toInt_setWidth]
  exact bmod_toInt32 v 65536 (Or.inr rfl)

theorem toInt_signExtend32 (v : BitVec 32) : (v.signExtend 64).toInt = v.toInt :=
  BitVec.toInt_signExtend_of_le (by omega)

/-- argument fetch of d/i against the spec's value -/
theorem fetchSigned_iso (len : Len) (args as : List Arg) (v : Int) (h : signedArg len args = some (v, as)) :
    ∃ u, fetchSigned len args = some (u, as) ∧ u.toInt = v := by
  unfold signedArg at h
  split at h <;> simp at h
  all_goals (obtain ⟨h1, h2⟩ := h; subst h1 h2)
  all_goals simp [fetchSigned, vaInt, vaLong, toInt_signExtend_trunc8, toInt_signExtend_trunc16, toInt_signExtend32]

theorem fetchUnsigned_iso (len : Len) (args as : List Arg) (v : Nat) (h : unsignedArg len args = some (v, as)) :
    ∃ u, fetchUnsigned len args = some (u, as) ∧ u.toNat = v := by
  unfold unsignedArg at h
  split at h <;> simp at h
  all_goals (obtain ⟨h1, h2⟩ := h; subst h1 h2)
  all_goals simp [fetchUnsigned, vaInt, vaLong]
  all_goals (have := (by assumption : BitVec 32).isLt; omega)
theorem prec_eq (pr : Option Nat) : (if pr.isSome = true then some (pr.getD 0) else none) = pr := by
  cases pr <;> simp

theorem toNat_ofNat_lt (n : Nat) (h : n < 256) : (Char.ofNat n).toNat = n := by
  have hv : n.isValidChar := Or.inl (by omega)
  unfold Char.ofNat
  rw [dif_pos hv]
  simp [Char.ofNatAux, Char.toNat, UInt32.toNat_ofNatLT]

theorem ofNat_eq_NUL (n : Nat) (h : n < 256) (he : Char.ofNat n = NUL) : n = 0 := by
  have h1 := toNat_ofNat_lt n h
  rw [he] at h1
  simpa [NUL] using h1.symm

theorem convert_iso (begin : List Char) (rest : List Char) (args : List Arg) (W : Nat) (pr : Option Nat)
    (ops : Ops) (d : Directive) (mi : Bool) (out : List Char) (args' : List Arg)
    (hl : ops.left = mi) (hs : ops.sign = d.plus) (hsp : ops.space = d.space) (hh : ops.spec = d.hash)
    (hz : ops.zero = d.zero) (hp : ops.prec = pr.isSome) (hu : ops.upper = false) (hlen : ops.len = d.len)
    (hptr : ops.ptr = false) (hchr : ops.chr = false)
    (hb : isoBody igrisPtr false d mi W pr args = some (out, args')) :
    ∃ pc, convert begin (d.conv :: rest) args W ((pr.getD 0 : Nat) : Int) ops = .ok out pc rest args' := by
  unfold isoBody at hb
  simp only [] at hb
  generalize d.conv = c at hb ⊢
  by_cases h1 : c = '%'
  · subst h1
    simp only [if_true] at hb
    split at hb
    · cases hb
    · simp only [Option.some.injEq, Prod.mk.injEq] at hb
      obtain ⟨ho, ha⟩ := hb
      subst ho ha
      exact ⟨1, by simp [convert, hd]⟩
  simp only [h1, if_false] at hb
  by_cases h2 : (c = 'd' || c = 'i') = true
  · simp only [h2, if_true] at hb
    split at hb
    · cases hb
    · rename_i hhash
      cases hsa : signedArg d.len args with
      | none => simp [hsa] at hb
      | some r =>
        obtain ⟨v, as⟩ := r
        simp only [hsa, Option.some.injEq, Prod.mk.injEq] at hb
        obtain ⟨ho, ha⟩ := hb
        subst ha
        obtain ⟨u, hf, hv⟩ := fetchSigned_iso _ _ _ _ hsa
        have hsm := signMag u
        have hm : ops.prec = false → pr.getD 0 = 0 := by
          intro h; rw [h] at hp
          cases pr with
          | none => rfl
          | some n => simp at hp
        obtain ⟨pc, hpi⟩ := printI_iso u true W (pr.getD 0) ops 10 (by omega) (by intro _; rfl)
          (by intro h; rw [hu] at h; cases h) hm hptr
        refine ⟨pc, ?_⟩
        have hhf : d.hash = false := by simpa using hhash
        have hmag : (if v < 0 then -u else u).toNat = v.natAbs := by
          have := hsm.2; rw [hsm.1, hv] at this; simpa using this
        simp only [Bool.or_eq_true, decide_eq_true_eq] at h2
        rcases h2 with h | h <;> subst h <;>
          simp [convert, hd, hlen, hf, hpi, hsm.1, hmag, hv, hl, hs, hsp, hh, hhf, hz, hp, prec_eq, hu, ho]
  simp only [h2, Bool.false_eq_true, if_false] at hb
  by_cases h3 : (c = 'u' || c = 'o' || c = 'x' || c = 'X') = true
  · simp only [h3, if_true] at hb
    split at hb
    · cases hb
    · rename_i hhu
      cases hua : unsignedArg d.len args with
      | none => simp [hua] at hb
      | some r =>
        obtain ⟨v, as⟩ := r
        simp only [hua, Bool.false_and, Bool.false_eq_true, if_false] at hb
        · simp only [Option.some.injEq, Prod.mk.injEq] at hb
          obtain ⟨ho, ha⟩ := hb
          subst ha
          obtain ⟨u, hf, hv⟩ := fetchUnsigned_iso _ _ _ _ hua
          have hm : ops.prec = false → pr.getD 0 = 0 := by
            intro h; rw [h] at hp
            cases pr with
            | none => rfl
            | some n => simp at hp
          have key : ∀ (ops' : Ops) (base : Nat), ops'.left = mi → ops'.sign = d.plus → ops'.space = d.space →
              ops'.spec = d.hash → ops'.zero = d.zero → ops'.prec = pr.isSome →
              (ops'.upper = true → base = 16) → (base = 8 ∨ base = 10 ∨ base = 16) → ops'.ptr = false →
              ∃ pc, printI u false W (pr.getD 0 : Nat) ops' base
                = some (isoInt mi d.plus d.space d.hash d.zero W pr false false v base ops'.upper, pc) := by
            intro ops' base e1 e2 e3 e4 e5 e6 e7 e8 e9
            have hm' : ops'.prec = false → pr.getD 0 = 0 := by
              intro h; rw [h] at e6
              cases pr with
              | none => rfl
              | some n => simp at e6
            obtain ⟨pc, hpi⟩ := printI_iso u false W (pr.getD 0) ops' base e8 (by intro h; cases h) e7 hm' e9
            refine ⟨pc, ?_⟩
            rw [hpi]
            simp only [Bool.false_and, Bool.false_eq_true, if_false, hv, e1, e2, e3, e4, e5, e6, prec_eq]
          simp only [Bool.or_eq_true, decide_eq_true_eq] at h3
          rcases h3 with ((h | h) | h) | h <;> subst h
          · obtain ⟨pc, hk⟩ := key ops 10 hl hs hsp hh hz hp (by rw [hu]; intro h; cases h) (by omega) hptr
            exact ⟨pc, by simp [convert, hd, hlen, hf, hk, hu, ← ho]⟩
          · obtain ⟨pc, hk⟩ := key ops 8 hl hs hsp hh hz hp (by rw [hu]; intro h; cases h) (by omega) hptr
            exact ⟨pc, by simp [convert, hd, hlen, hf, hk, hu, ← ho]⟩
          · obtain ⟨pc, hk⟩ := key ops 16 hl hs hsp hh hz hp (by rw [hu]; intro h; cases h) (by omega) hptr
            exact ⟨pc, by simp [convert, hd, hlen, hf, hk, hu, ← ho]⟩
          · obtain ⟨pc, hk⟩ := key { ops with upper := true } 16 hl hs hsp hh hz hp (by intro _; rfl) (by omega) hptr
            rw [← hlen] at hf
            exact ⟨pc, by simp [convert, hd, hf, hk, ← ho]⟩
  simp only [h3, Bool.false_eq_true, if_false] at hb
  by_cases h4 : c = 'c'
  · subst h4
    simp only [if_true] at hb
    split at hb
    · cases hb
    · rename_i hcond
      simp only [Bool.or_eq_true, not_or, Bool.not_eq_true, decide_eq_true_eq] at hcond
      obtain ⟨⟨⟨c1, c2⟩, c3⟩, c4⟩ := hcond
      cases args with
      | nil => simp at hb
      | cons x as =>
        cases x <;> simp at hb
        rename_i v
        obtain ⟨ho, ha⟩ := hb
        subst ha
        subst hl
        obtain ⟨pc, hps⟩ := printS_chr (Char.ofNat (v.toNat % 256)) NUL W (pr.getD 0) { ops with chr := true } rfl
        exact ⟨pc, by simp [convert, hd, vaInt, hps, ← ho]⟩
  simp only [h4, if_false] at hb
  by_cases h5 : c = 's'
  · subst h5
    simp only [if_true] at hb
    split at hb
    · cases hb
    · cases args with
      | nil => simp at hb
      | cons x as =>
        cases x <;> simp at hb
        rename_i mem
        obtain ⟨body, hbody, ho, ha⟩ := hb
        subst ha
        have hiso : isoStr mem (if ops.prec = true then some (pr.getD 0) else none) = some body := by
          rw [hp, prec_eq]; exact hbody
        obtain ⟨pc, hps⟩ := printS_iso _ W (pr.getD 0) ops _ hchr hiso
        exact ⟨pc, by simp [convert, hd, hps, hl, ← ho]⟩
  simp only [h5, if_false] at hb
  by_cases h6 : c = 'p'
  · subst h6
    simp only [if_true] at hb
    split at hb
    · cases hb
    · cases args with
      | nil => simp at hb
      | cons x as =>
        cases x <;> simp at hb
        rename_i v
        obtain ⟨ho, ha⟩ := hb
        subst ha
        obtain ⟨pc, hpp⟩ := printI_ptr v W ops hu
        exact ⟨pc, by simp [convert, hd, hpp, ← hl, ← ho]⟩
  · simp [h6] at hb
theorem isoBody_valid (pfmt : Nat → List Char) (strict : Bool) (d : Directive) (mi : Bool) (W : Nat)
    (pr : Option Nat) (args : List Arg) (r : List Char × List Arg)
    (h : isoBody pfmt strict d mi W pr args = some r) : validConv d.conv = true := by
  unfold isoBody at h
  simp only [] at h
  unfold validConv
  generalize d.conv = c at h ⊢
  by_cases h1 : c = '%'; · simp [h1]
  by_cases h2 : c = 'd'; · simp [h2]
  by_cases h3 : c = 'i'; · simp [h3]
  by_cases h4 : c = 'u'; · simp [h4]
  by_cases h5 : c = 'o'; · simp [h5]
  by_cases h6 : c = 'x'; · simp [h6]
  by_cases h7 : c = 'X'; · simp [h7]
  by_cases h8 : c = 'c'; · simp [h8]
  by_cases h9 : c = 's'; · simp [h9]
  by_cases h10 : c = 'p'; · simp [h10]
  simp [h1, h2, h3, h4, h5, h6, h7, h8, h9, h10] at h

theorem parseWidth_none (s s' : List Char) (h : parseWidth s = (.none, s')) : s' = s := by
  cases s with
  | nil => simp [parseWidth] at h; exact h
  | cons a t =>
    by_cases ha : a = '*'
    · subst ha; simp [parseWidth] at h
    · simp only [parseWidth] at h
      split at h
      · rename_i heq; cases heq; exact absurd rfl ha
      · split at h <;> simp at h
        exact h.symm

theorem parsePrec_start (s2 s3 : List Char) (p : Num) (h : parsePrec s2 = (p, s3)) :
    hd s2 = '.' ∨ s3 = s2 := by
  cases s2 with
  | nil => simp [parsePrec] at h; exact Or.inr h.2
  | cons a t =>
    by_cases ha : a = '.'
    · left; simp [hd, ha]
    · right; simp [parsePrec, ha] at h; exact h.2.symm

set_option linter.constructorNameAsVariable false in
theorem directive_iso (cs : List Char) (args : List Arg) (d : Directive) (rest : List Char)
    (out : List Char) (args' : List Arg)
    (hp : parseDirective cs = some (d, rest))
    (hc : isoConv igrisPtr false d args = some (out, args')) :
    ∃ pc, directive ('%' :: cs) args = .ok out pc rest args' := by
  -- take the spec's parse apart
  unfold parseDirective at hp
  simp only [] at hp
  cases hpw : parseWidth (cs.dropWhile isFlag) with
  | mk w s2 =>
  cases hpp : parsePrec s2 with
  | mk p s3 =>
  cases hpl : parseLen s3 with
  | mk l s4 =>
  simp only [hpw, hpp, hpl] at hp
  cases s4 with
  | nil => simp at hp
  | cons c rest' =>
  simp only [Option.some.injEq, Prod.mk.injEq] at hp
  obtain ⟨hd_, hrest⟩ := hp
  subst hrest
  -- and the spec's conversion
  unfold isoConv at hc
  cases hrw : resolveWidth d args with
  | none => simp [hrw] at hc
  | some r1 =>
  obtain ⟨mi, W, a1⟩ := r1
  simp only [hrw] at hc
  cases hrp : resolvePrec d a1 with
  | none => simp [hrp] at hc
  | some r2 =>
  obtain ⟨pr, a2⟩ := r2
  simp only [hrp] at hc
  have hvalid := isoBody_valid _ _ _ _ _ _ _ _ hc
  have hdc : d.conv = c := by rw [← hd_]
  have hdw : d.width = w := by rw [← hd_]
  have hdp : d.prec = p := by rw [← hd_]
  have hdl : d.len = l := by rw [← hd_]
  rw [hdc] at hvalid
  -- length modifier
  have hlen := fun ops h => getLen_eq s3 ops l c rest' h hpl hvalid
  have hstart3 := (hlen {} rfl).2
  have hsp3 := start_props _ hstart3
  -- width
  have hstart1 : d.width = .none → (isSpaceC (hd (cs.dropWhile isFlag)) = false ∧
      hd (cs.dropWhile isFlag) ≠ '-' ∧ hd (cs.dropWhile isFlag) ≠ '+') := by
    intro hwn
    rw [hdw] at hwn
    subst hwn
    have hs21 := parseWidth_none _ _ hpw
    subst hs21
    rcases parsePrec_start _ _ _ hpp with h | h
    · rw [h]; decide
    · rw [h] at hsp3; exact ⟨hsp3.2.1, hsp3.2.2.1, hsp3.2.2.2.1⟩
  have hfl := flagsLoop_eq cs {}
  simp only [Bool.false_or] at hfl
  have hw := getWidth_eq (cs.dropWhile isFlag) args
    ({ left := (cs.takeWhile isFlag).contains '-', sign := (cs.takeWhile isFlag).contains '+',
        space := (cs.takeWhile isFlag).contains ' ', spec := (cs.takeWhile isFlag).contains '#',
        zero := (cs.takeWhile isFlag).contains '0' } : Ops) d s2 mi W a1 (by rw [hdw]; exact hpw)
    (by rw [← hd_]) hrw hstart1
  have hpe := getPrec_eq s2 a1
    ({ left := mi, sign := (cs.takeWhile isFlag).contains '+',
        space := (cs.takeWhile isFlag).contains ' ', spec := (cs.takeWhile isFlag).contains '#',
        zero := (cs.takeWhile isFlag).contains '0' } : Ops) d s3 pr a2 (by rw [hdp]; exact hpp) rfl hrp hstart3
  have hle := (hlen
    ({ left := mi, sign := (cs.takeWhile isFlag).contains '+',
        space := (cs.takeWhile isFlag).contains ' ', spec := (cs.takeWhile isFlag).contains '#',
        zero := (cs.takeWhile isFlag).contains '0', prec := pr.isSome } : Ops) rfl).1
  obtain ⟨pc, hcv⟩ := convert_iso ('%' :: cs) rest' a2 W pr
    { left := mi, sign := (cs.takeWhile isFlag).contains '+', space := (cs.takeWhile isFlag).contains ' ',
      spec := (cs.takeWhile isFlag).contains '#', zero := (cs.takeWhile isFlag).contains '0',
      prec := pr.isSome, upper := false, len := l }
    d mi out args' rfl (by rw [← hd_]) (by rw [← hd_]) (by rw [← hd_]) (by rw [← hd_]) rfl rfl hdl.symm rfl rfl hc
  rw [hdc] at hcv
  refine ⟨pc, ?_⟩
  unfold directive
  simp only [List.tail_cons, hfl]
  rw [hw]
  simp only []
  rw [hpe]
  simp only []
  rw [hle]
  exact hcv
end Igris.C06
