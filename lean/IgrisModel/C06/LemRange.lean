/- C06 helper lemmas: where the model's unbounded `Int` arithmetic is the C `int` arithmetic -/
import IgrisModel.C06.LemParse
namespace Igris.C06

theorem isDigit_le (c : Char) (h : c.isDigit = true) : c.toNat ≤ 57 := by
  unfold Char.isDigit at h
  simp only [Bool.and_eq_true, decide_eq_true_eq] at h
  have := h.2
  rw [UInt32.le_iff_toNat_le] at this
  exact this

theorem one_le_ten_pow (k : Nat) : (1 : Int) ≤ 10 ^ k := by
  induction k with
  | zero => simp
  | succ j ih => rw [Int.pow_succ]; omega

/-- `atoi` of at most `k` digits stays below `(acc + 1) * 10^k` -/
theorem atoiDigits_lt (cs : List Char) (acc : Int) (k : Nat) (hacc : 0 ≤ acc)
    (hk : (cs.takeWhile Char.isDigit).length ≤ k) :
    0 ≤ atoiDigits cs acc ∧ atoiDigits cs acc < (acc + 1) * 10 ^ k := by
  induction cs generalizing acc k with
  | nil =>
    simp only [atoiDigits]
    have : (1 : Int) ≤ 10 ^ k := one_le_ten_pow k
    refine ⟨hacc, ?_⟩
    calc acc < acc + 1 := by omega
      _ = (acc + 1) * 1 := by omega
      _ ≤ (acc + 1) * 10 ^ k := Int.mul_le_mul_of_nonneg_left this (by omega)
  | cons c cs ih =>
    simp only [atoiDigits]
    by_cases hc : c.isDigit = true
    · simp only [hc, if_true]
      simp only [List.takeWhile_cons, hc, if_true, List.length_cons] at hk
      obtain ⟨j, rfl⟩ : ∃ j, k = j + 1 := ⟨k - 1, by omega⟩
      have h48 := isDigit_toNat c hc
      have h57 := isDigit_le c hc
      have hacc' : (0 : Int) ≤ acc * 10 + ((c.toNat : Int) - 48) := by omega
      obtain ⟨h0, h1⟩ := ih (acc * 10 + ((c.toNat : Int) - 48)) j hacc' (by omega)
      refine ⟨h0, ?_⟩
      have hle : acc * 10 + ((c.toNat : Int) - 48) + 1 ≤ (acc + 1) * 10 := by omega
      have hp : (0 : Int) ≤ 10 ^ j := Int.pow_nonneg (by omega)
      calc atoiDigits cs (acc * 10 + ((c.toNat : Int) - 48))
          < (acc * 10 + ((c.toNat : Int) - 48) + 1) * 10 ^ j := h1
        _ ≤ ((acc + 1) * 10) * 10 ^ j := Int.mul_le_mul_of_nonneg_right hle hp
        _ = (acc + 1) * 10 ^ (j + 1) := by rw [Int.pow_succ, Int.mul_assoc, Int.mul_comm 10]
    · simp only [hc, Bool.false_eq_true, if_false]
      have : (1 : Int) ≤ 10 ^ k := one_le_ten_pow k
      refine ⟨hacc, ?_⟩
      calc acc < acc + 1 := by omega
        _ = (acc + 1) * 1 := by omega
        _ ≤ (acc + 1) * 10 ^ k := Int.mul_le_mul_of_nonneg_left this (by omega)

end Igris.C06
