/- C06 helper lemmas: the directive parser of __printf against the ISO grammar -/
import IgrisModel.C06.Model
import IgrisModel.C06.Spec
namespace Igris.C06
open Iso

theorem skipDigits_eq (s : List Char) : skipDigits s = s.dropWhile Char.isDigit := by
  induction s with
  | nil => rfl
  | cons c cs ih =>
    simp only [skipDigits, List.dropWhile_cons]
    split <;> simp_all

/-- value of a digit: C `c - '0'` and the spec's truncated `c.toNat - 48` agree -/
theorem isDigit_toNat (c : Char) (h : c.isDigit = true) : 48 ≤ c.toNat := by
  unfold Char.isDigit at h
  simp only [Bool.and_eq_true, decide_eq_true_eq] at h
  have := h.1
  rw [ge_iff_le, UInt32.le_iff_toNat_le] at this
  exact this

theorem atoiDigits_eq (s : List Char) (acc : Nat) :
    atoiDigits s acc = ((s.takeWhile Char.isDigit).foldl (fun a c => 10 * a + (c.toNat - 48)) acc : Nat) := by
  induction s generalizing acc with
  | nil => simp [atoiDigits]
  | cons c cs ih =>
    simp only [atoiDigits, List.takeWhile_cons]
    by_cases hd : c.isDigit = true
    · have h48 := isDigit_toNat c hd
      simp only [hd, if_true, List.foldl_cons]
      rw [← ih]
      congr 1
      omega
    · simp [hd]

theorem atoi_eq (s : List Char) (h1 : isSpaceC (hd s) = false) (h2 : hd s ≠ '-') (h3 : hd s ≠ '+') :
    atoi s = (decimal (s.takeWhile Char.isDigit) : Nat) := by
  cases s with
  | nil => simp [atoi, decimal]
  | cons c cs =>
    simp only [hd, List.headD_cons] at h1 h2 h3
    simp only [atoi, h1]
    have : atoiSign (c :: cs) = atoiDigits (c :: cs) 0 := by
      unfold atoiSign
      split
      · rename_i heq; cases heq; exact absurd rfl h2
      · rename_i heq; cases heq; exact absurd rfl h3
      · rfl
    simp only [Bool.false_eq_true, if_false, this]
    exact atoiDigits_eq (c :: cs) 0

theorem flagsLoop_eq (s : List Char) (ops : Ops) :
    flagsLoop s ops =
      (s.dropWhile isFlag,
       { ops with
         left := ops.left || (s.takeWhile isFlag).contains '-',
         sign := ops.sign || (s.takeWhile isFlag).contains '+',
         space := ops.space || (s.takeWhile isFlag).contains ' ',
         spec := ops.spec || (s.takeWhile isFlag).contains '#',
         zero := ops.zero || (s.takeWhile isFlag).contains '0' }) := by
  induction s generalizing ops with
  | nil => simp [flagsLoop]
  | cons c cs ih =>
    simp only [flagsLoop]
    by_cases h1 : c = '-'
    · subst h1; simp [ih, isFlag]
    by_cases h2 : c = '+'
    · subst h2; simp [ih, isFlag]
    by_cases h3 : c = ' '
    · subst h3; simp [ih, isFlag]
    by_cases h4 : c = '#'
    · subst h4; simp [ih, isFlag]
    by_cases h5 : c = '0'
    · subst h5; simp [ih, isFlag]
    · simp [h1, h2, h3, h4, h5, isFlag]

/-- what follows the flags is not a flag character -/
theorem hd_dropWhile_isFlag (s : List Char) : isFlag (hd (s.dropWhile isFlag)) = false := by
  induction s with
  | nil => decide
  | cons c cs ih =>
    simp only [List.dropWhile_cons]
    split
    · exact ih
    · simp_all [hd]

def validConv (c : Char) : Bool :=
  c = '%' || c = 'd' || c = 'i' || c = 'u' || c = 'o' || c = 'x' || c = 'X' || c = 'c' || c = 's' || c = 'p'

def lenStart (c : Char) : Bool := c = 'h' || c = 'l' || c = 'j' || c = 'z' || c = 't'

theorem validConv_props (c : Char) (h : validConv c = true) :
    c.isDigit = false ∧ isSpaceC c = false ∧ c ≠ '-' ∧ c ≠ '+' ∧ c ≠ '.' ∧ c ≠ '*' ∧ isFlag c = false
      ∧ c ≠ 'L' ∧ c ≠ NUL ∧ lenStart c = false := by
  simp only [validConv, Bool.or_eq_true, decide_eq_true_eq] at h
  rcases h with ((((((((h | h) | h) | h) | h) | h) | h) | h) | h) | h <;> subst h <;> decide

theorem lenStart_props (c : Char) (h : lenStart c = true) :
    c.isDigit = false ∧ isSpaceC c = false ∧ c ≠ '-' ∧ c ≠ '+' ∧ c ≠ '.' ∧ c ≠ '*' ∧ isFlag c = false
      ∧ c ≠ 'L' ∧ c ≠ NUL := by
  simp only [lenStart, Bool.or_eq_true, decide_eq_true_eq] at h
  rcases h with (((h | h) | h) | h) | h <;> subst h <;> decide

set_option linter.constructorNameAsVariable false in
theorem getLen_eq (s : List Char) (ops : Ops) (l : Len) (c : Char) (rest : List Char)
    (hl : ops.len = .none) (h : parseLen s = (l, c :: rest)) (hv : validConv c = true) :
    getLen s ops = (c :: rest, { ops with len := l }) ∧ (validConv (hd s) = true ∨ lenStart (hd s) = true) := by
  cases s with
  | nil => simp [parseLen] at h
  | cons a t =>
    by_cases ha : a = 'h'
    · subst ha
      cases t with
      | nil => simp [parseLen] at h
      | cons b t' =>
        by_cases hb : b = 'h'
        · subst hb
          simp [parseLen] at h
          obtain ⟨h1, h2⟩ := h
          subst h1 h2
          simp [getLen, hd, lenStart]
        · simp [parseLen, hb] at h
          obtain ⟨h1, h2, h3⟩ := h
          subst h1 h2 h3
          simp [getLen, hd, lenStart, hb]
    by_cases hal : a = 'l'
    · subst hal
      cases t with
      | nil => simp [parseLen] at h
      | cons b t' =>
        by_cases hb : b = 'l'
        · subst hb
          simp [parseLen] at h
          obtain ⟨h1, h2⟩ := h
          subst h1 h2
          simp [getLen, hd, lenStart]
        · simp [parseLen, hb] at h
          obtain ⟨h1, h2, h3⟩ := h
          subst h1 h2 h3
          simp [getLen, hd, lenStart, hb]
    by_cases haj : a = 'j'
    · subst haj
      simp [parseLen] at h
      obtain ⟨h1, h2⟩ := h
      subst h1 h2
      simp [getLen, hd, lenStart]
    by_cases haz : a = 'z'
    · subst haz
      simp [parseLen] at h
      obtain ⟨h1, h2⟩ := h
      subst h1 h2
      simp [getLen, hd, lenStart]
    by_cases hat : a = 't'
    · subst hat
      simp [parseLen] at h
      obtain ⟨h1, h2⟩ := h
      subst h1 h2
      simp [getLen, hd, lenStart]
    · simp [parseLen, ha, hal, haj, haz, hat] at h
      obtain ⟨h1, h2, h3⟩ := h
      subst h1 h2 h3
      have hp := validConv_props a hv
      have hL : a ≠ 'L' := hp.2.2.2.2.2.2.2.1
      cases ops
      simp [getLen, hd, ha, hal, haj, haz, hat, hL, hv] at hl ⊢
      exact hl

theorem isDigit_props (c : Char) (h : c.isDigit = true) :
    isSpaceC c = false ∧ c ≠ '-' ∧ c ≠ '+' ∧ c ≠ '*' ∧ c ≠ '.' := by
  have h48 := isDigit_toNat c h
  refine ⟨?_, ?_, ?_, ?_, ?_⟩
  · simp only [isSpaceC, Bool.or_eq_false_iff, decide_eq_false_iff_not, Bool.and_eq_false_iff]
    refine ⟨?_, ?_⟩
    · intro hc; subst hc; simp at h48
    · right; simp; omega
  all_goals (intro hc; subst hc; simp at h48)

theorem takeWhile_nil_of_hd (s : List Char) (q : Char → Bool) (h : q (hd s) = false) :
    s.takeWhile q = [] ∧ s.dropWhile q = s := by
  cases s with
  | nil => simp
  | cons a t => simp [hd] at h; simp [h]

theorem getWidth_eq (s1 : List Char) (args : List Arg) (ops : Ops) (d : Directive) (s2 : List Char)
    (mi : Bool) (W : Nat) (a1 : List Arg)
    (hpw : parseWidth s1 = (d.width, s2)) (hdm : d.minus = ops.left)
    (hr : resolveWidth d args = some (mi, W, a1))
    (hstart : d.width = .none → (isSpaceC (hd s1) = false ∧ hd s1 ≠ '-' ∧ hd s1 ≠ '+')) :
    getWidth s1 args ops = some ((W : Int), s2, a1, { ops with left := mi }) := by
  have hnonstar : ∀ (hs : hd s1 ≠ '*') (n : Nat), resolveWidth d args = some (mi, W, a1) →
      (d.width = .none ∧ W = 0 ∨ d.width = .lit W) → atoi s1 = (W : Int) → skipDigits s1 = s2 →
      getWidth s1 args ops = some ((W : Int), s2, a1, { ops with left := mi }) := by
    intro hs _ hr' hw hat hsk
    have hmi : mi = d.minus ∧ a1 = args := by
      unfold resolveWidth at hr'
      rcases hw with ⟨hw, _⟩ | hw <;> simp [hw] at hr' <;> simp [hr']
    obtain ⟨h1, h2⟩ := hmi
    subst h1 h2
    cases ops
    simp only [getWidth, hs, if_false, hat, hsk, Option.map_some] at hdm ⊢
    simp [hdm]
    omega
  cases s1 with
  | nil =>
    simp [parseWidth] at hpw
    obtain ⟨h1, h2⟩ := hpw
    have hr' := hr
    simp [resolveWidth, ← h1] at hr'
    obtain ⟨_, hW, _⟩ := hr'
    exact hnonstar (by decide) 0 hr (Or.inl ⟨h1.symm, hW.symm⟩) (by simp [atoi, ← hW]) (by simp [skipDigits, h2])
  | cons a t =>
    by_cases ha : a = '*'
    · subst ha
      simp [parseWidth] at hpw
      obtain ⟨h1, h2⟩ := hpw
      subst h2
      unfold resolveWidth at hr
      rw [← h1] at hr
      cases args with
      | nil => simp at hr
      | cons x as =>
        cases x <;> simp at hr
        rename_i v
        obtain ⟨hm, hW, ha1⟩ := hr
        subst ha1
        cases ops
        simp only [getWidth, hd, List.headD_cons, if_true, vaInt, Option.map_some, List.tail_cons] at hdm ⊢
        by_cases hneg : v.toInt < 0
        · simp [hneg, ← hm, ← hW, hdm]; omega
        · simp [hneg, ← hm, ← hW, hdm]; omega
    · have hs : hd (a :: t) ≠ '*' := by simpa [hd] using ha
      by_cases hdig : a.isDigit = true
      · simp [parseWidth, ha, hdig] at hpw
        obtain ⟨h1, h2⟩ := hpw
        have hp := isDigit_props a hdig
        have hat := atoi_eq (a :: t) (by simpa [hd] using hp.1) (by simpa [hd] using hp.2.1) (by simpa [hd] using hp.2.2.1)
        have hr' := hr
        simp [resolveWidth, ← h1] at hr'
        obtain ⟨_, hW, _⟩ := hr'
        refine hnonstar hs 0 hr (Or.inr ?_) ?_ ?_
        · rw [← h1, ← hW]
        · rw [hat, ← hW]; simp [hdig]
        · rw [skipDigits_eq, ← h2]; simp [hdig]
      · simp [parseWidth, ha, hdig] at hpw
        obtain ⟨h1, h2⟩ := hpw
        have hst := hstart h1.symm
        have hat := atoi_eq (a :: t) hst.1 hst.2.1 hst.2.2
        have hr' := hr
        simp [resolveWidth, ← h1] at hr'
        obtain ⟨_, hW, _⟩ := hr'
        refine hnonstar hs 0 hr (Or.inl ⟨h1.symm, hW.symm⟩) ?_ ?_
        · rw [hat, ← hW]; simp [hdig, decimal]
        · rw [skipDigits_eq, ← h2]; simp [hdig]
theorem start_props (c : Char) (h : validConv c = true ∨ lenStart c = true) :
    c.isDigit = false ∧ isSpaceC c = false ∧ c ≠ '-' ∧ c ≠ '+' ∧ c ≠ '.' ∧ c ≠ '*' ∧ isFlag c = false
      ∧ c ≠ 'L' ∧ c ≠ NUL := by
  rcases h with h | h
  · have := validConv_props c h
    exact ⟨this.1, this.2.1, this.2.2.1, this.2.2.2.1, this.2.2.2.2.1, this.2.2.2.2.2.1, this.2.2.2.2.2.2.1,
      this.2.2.2.2.2.2.2.1, this.2.2.2.2.2.2.2.2.1⟩
  · exact lenStart_props c h

theorem getPrec_eq (s2 : List Char) (args : List Arg) (ops : Ops) (d : Directive) (s3 : List Char)
    (pr : Option Nat) (a2 : List Arg)
    (hpp : parsePrec s2 = (d.prec, s3)) (hop : ops.prec = false)
    (hr : resolvePrec d args = some (pr, a2))
    (hstart : validConv (hd s3) = true ∨ lenStart (hd s3) = true) :
    getPrec s2 args ops = some (((pr.getD 0 : Nat) : Int), s3, a2, { ops with prec := pr.isSome }) := by
  have hsp := start_props _ hstart
  -- digits (possibly none) without a star
  have hdigits : ∀ (t : List Char), hd t ≠ '*' → s3 = t.dropWhile Char.isDigit →
      atoi t = (decimal (t.takeWhile Char.isDigit) : Nat) := by
    intro t _ hs3
    by_cases hdg : (hd t).isDigit = true
    · have hp := isDigit_props _ hdg
      exact atoi_eq t hp.1 hp.2.1 hp.2.2.1
    · have := takeWhile_nil_of_hd t Char.isDigit (by simpa using hdg)
      rw [this.2] at hs3
      subst hs3
      exact atoi_eq _ hsp.2.1 hsp.2.2.1 hsp.2.2.2.1
  cases s2 with
  | nil =>
    simp [parsePrec] at hpp
    obtain ⟨_, h2⟩ := hpp
    subst h2
    simp [hd, NUL] at hsp
  | cons a t =>
    by_cases ha : a = '.'
    · subst ha
      cases t with
      | nil =>
        simp [parsePrec] at hpp
        obtain ⟨_, h2⟩ := hpp
        subst h2
        simp [hd, NUL] at hsp
      | cons b r =>
        by_cases hb : b = '*'
        · subst hb
          simp [parsePrec] at hpp
          obtain ⟨h1, h2⟩ := hpp
          subst h2
          unfold resolvePrec at hr
          rw [← h1] at hr
          cases args with
          | nil => simp at hr
          | cons x as =>
            cases x <;> simp at hr
            rename_i v
            obtain ⟨hpr, ha2⟩ := hr
            subst ha2
            cases ops
            simp only [getPrec, hd, List.headD_cons, if_true, vaInt, Option.map_some, List.tail_cons]
            by_cases hneg : v.toInt < 0
            · have : ¬ v.toInt ≥ 0 := by omega
              simp [hneg, this, ← hpr]
            · have : v.toInt ≥ 0 := by omega
              simp [hneg, this, ← hpr]
              omega
        · simp [parsePrec, hb] at hpp
          obtain ⟨h1, h2⟩ := hpp
          have hr' := hr
          simp [resolvePrec, ← h1] at hr'
          obtain ⟨hpr, ha2⟩ := hr'
          have hat := hdigits (b :: r) (by simpa [hd] using hb) h2.symm
          cases ops
          simp only [getPrec, hd, List.headD_cons, if_true, List.tail_cons, hb, if_false, Option.map_some]
          rw [hat, skipDigits_eq, h2, ← hpr, ← ha2]
          simp
    · simp [parsePrec, ha] at hpp
      obtain ⟨h1, h2⟩ := hpp
      have hr' := hr
      simp [resolvePrec, ← h1] at hr'
      obtain ⟨hpr, ha2⟩ := hr'
      subst h2
      have hnd : (a :: t).takeWhile Char.isDigit = [] ∧ (a :: t).dropWhile Char.isDigit = a :: t :=
        takeWhile_nil_of_hd _ _ hsp.1
      have hat := atoi_eq (a :: t) hsp.2.1 hsp.2.2.1 hsp.2.2.2.1
      cases ops
      simp only [getPrec, hd, List.headD_cons, ha, if_false, Option.map_some] at hop ⊢
      rw [hat, skipDigits_eq, hnd.1, hnd.2, ← hpr, ← ha2]
      simp [decimal, hop]
end Igris.C06
