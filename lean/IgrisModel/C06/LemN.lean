/- C06 helper lemmas (round 3): the `%n` / C-`int` layer `printfN` -/
import IgrisModel.C06.LemCount
namespace Igris.C06

theorem parseOpts_length {begin : List Char} {args : List Arg} {w p : Int} {s : List Char} {args' : List Arg}
    {ops : Ops} (h : parseOpts begin args = some (w, p, s, args', ops)) : s.length ≤ begin.tail.length := by
  unfold parseOpts at h
  simp only at h
  have h0 := flagsLoop_length begin.tail {}
  split at h
  · cases h
  · rename_i width s1 args1 ops1 hw
    have h1 := getWidth_length hw
    split at h
    · cases h
    · rename_i precision s2 args2 ops2 hp
      have h2 := getPrec_length hp
      have h3 := getLen_length s2 ops2
      simp only [Option.some.injEq, Prod.mk.injEq] at h
      obtain ⟨_, _, hs, _, _⟩ := h
      subst hs
      omega

/-- what one pass of `directiveN` yields: the count matches, the format
shrinks, and without a store it is the pass of `directive` -/
theorem directiveN_ok {begin : List Char} {args : List Arg} {emit : List Char} {dpc : Int} {rest : List Char}
    {args' : List Arg} {store : Option (BitVec 64 × Nat)}
    (h : directiveN begin args = .ok emit dpc rest args' store) :
    dpc = emit.length ∧ rest.length ≤ begin.tail.length ∧
      (store = none → directive begin args = .ok emit dpc rest args') ∧
      (store ≠ none → emit = []) := by
  unfold directiveN at h
  split at h
  · cases h
  split at h
  · cases h
  · rename_i w p s a' ops hpo
    have hl := parseOpts_length hpo
    split at h
    · split at h
      · cases h
        refine ⟨by simp, ?_, by simp, by simp⟩
        have : s.tail.length ≤ s.length := by simp
        omega
      · cases h
    · split at h
      · rename_i e d r a hd
        cases h
        obtain ⟨h1, h2⟩ := directive_ok hd
        exact ⟨h1, h2, fun _ => hd, by simp⟩
      all_goals cases h

/-- invariant of `loopN`: the count is the number of characters, it stays in
the range of `int`, every store recorded the count at its moment -/
theorem loopN_inv (fuel : Nat) (fmt : List Char) (args : List Arg) (out : List Char) (pc : Int) (st : List NStore)
    (out' : List Char) (pc' : Int) (st' : List NStore)
    (h0 : pc = out.length) (hb : pc ≤ INT_MAX)
    (hs : ∀ s ∈ st, s.pc = s.emitted ∧ s.emitted ≤ out.length)
    (h : loopN fuel fmt args out pc st = .done out' pc' st') :
    pc' = out'.length ∧ pc' ≤ INT_MAX ∧ (∀ s ∈ st', s.pc = s.emitted ∧ s.emitted ≤ out'.length) ∧
      out.length ≤ out'.length := by
  induction fuel generalizing fmt args out pc st with
  | zero =>
    cases fmt with
    | nil => simp [loopN] at h; obtain ⟨h1, h2, h3⟩ := h; subst h1 h2 h3; exact ⟨h0, hb, hs, Nat.le_refl _⟩
    | cons c cs => simp [loopN] at h
  | succ fuel ih =>
    cases fmt with
    | nil => simp [loopN] at h; obtain ⟨h1, h2, h3⟩ := h; subst h1 h2 h3; exact ⟨h0, hb, hs, Nat.le_refl _⟩
    | cons c cs =>
      simp only [loopN] at h
      split at h
      · simp at h; obtain ⟨h1, h2, h3⟩ := h; subst h1 h2 h3; exact ⟨h0, hb, hs, Nat.le_refl _⟩
      split at h
      · split at h
        · cases h
        · rename_i hle
          obtain ⟨a, b, c', d⟩ := ih cs args (out ++ [c]) (pc + 1) st (by simp; omega) (by omega)
            (fun s hm => ⟨(hs s hm).1, by have := (hs s hm).2; simp; omega⟩) h
          exact ⟨a, b, c', by simp at d; omega⟩
      · split at h
        · rename_i emit dpc rest args2 store hd
          obtain ⟨hc, _, _, _⟩ := directiveN_ok hd
          split at h
          · cases h
          · rename_i hle
            have hs2 : ∀ s ∈ (match store with
                | some (a, sz) => st ++ [({ addr := a, size := sz, pc := pc, emitted := out.length } : NStore)]
                | none => st), s.pc = s.emitted ∧ s.emitted ≤ (out ++ emit).length := by
              intro s hm
              cases store with
              | none => exact ⟨(hs s hm).1, by have := (hs s hm).2; simp; omega⟩
              | some q =>
                obtain ⟨a, sz⟩ := q
                simp only [List.mem_append, List.mem_singleton] at hm
                rcases hm with hm | hm
                · exact ⟨(hs s hm).1, by have := (hs s hm).2; simp; omega⟩
                · subst hm; exact ⟨h0, by simp⟩
            obtain ⟨a, b, c', d⟩ := ih rest args2 (out ++ emit) (pc + dpc) _ (by simp; omega) (by omega) hs2 h
            exact ⟨a, b, c', by simp at d; omega⟩
        all_goals cases h

/-- a run of `loopN` without a store is a run of `loop` -/
theorem loopN_refines (fuel : Nat) (fmt : List Char) (args : List Arg) (out : List Char) (pc : Int)
    (out' : List Char) (pc' : Int)
    (h : loopN fuel fmt args out pc [] = .done out' pc' []) : loop fuel fmt args out pc = .done out' pc' := by
  induction fuel generalizing fmt args out pc with
  | zero =>
    cases fmt with
    | nil => simp [loopN] at h; simp [loop, h]
    | cons c cs => simp [loopN] at h
  | succ fuel ih =>
    cases fmt with
    | nil => simp [loopN] at h; simp [loop, h]
    | cons c cs =>
      simp only [loopN] at h
      simp only [loop]
      split at h
      · rename_i hc; simp at h; simp [hc, h]
      · rename_i hc
        rw [if_neg hc]
        split at h
        · rename_i hp
          rw [if_pos hp]
          split at h
          · cases h
          · exact ih cs args _ _ h
        · rename_i hp
          rw [if_neg hp]
          split at h
          · rename_i emit dpc rest args2 store hd
            split at h
            · cases h
            · cases store with
              | none =>
                obtain ⟨_, _, hdir, _⟩ := directiveN_ok hd
                rw [hdir rfl]
                exact ih rest args2 _ _ h
              | some q =>
                -- a store was appended: the final list cannot be empty
                exfalso
                obtain ⟨a, sz⟩ := q
                exact absurd rfl (loopN_stores_nonempty _ _ _ _ _ _ _ _ _ (by simp) h)
          all_goals cases h
where
  loopN_stores_nonempty (fuel : Nat) (fmt : List Char) (args : List Arg) (out : List Char) (pc : Int)
      (st : List NStore) (out' : List Char) (pc' : Int) (st' : List NStore) (hne : st ≠ [])
      (h : loopN fuel fmt args out pc st = .done out' pc' st') : st' ≠ [] := by
    induction fuel generalizing fmt args out pc st with
    | zero =>
      cases fmt with
      | nil => simp [loopN] at h; obtain ⟨_, _, h3⟩ := h; subst h3; exact hne
      | cons c cs => simp [loopN] at h
    | succ fuel ih =>
      cases fmt with
      | nil => simp [loopN] at h; obtain ⟨_, _, h3⟩ := h; subst h3; exact hne
      | cons c cs =>
        simp only [loopN] at h
        split at h
        · simp at h; obtain ⟨_, _, h3⟩ := h; subst h3; exact hne
        split at h
        · split at h
          · cases h
          · exact ih cs args _ _ st hne h
        · split at h
          · rename_i emit dpc rest args2 store hd
            split at h
            · cases h
            · refine ih rest args2 _ _ _ ?_ h
              cases store with
              | none => exact hne
              | some q => obtain ⟨a, sz⟩ := q; simp
          all_goals cases h

theorem directive_eq (begin : List Char) (args : List Arg) :
    directive begin args = (match parseOpts begin args with
      | none => .badarg
      | some (w, p, s, a, ops) => convert begin s a w p ops) := by
  unfold directive parseOpts
  simp only
  cases getWidth (flagsLoop begin.tail {}).1 args (flagsLoop begin.tail {}).2 with
  | none => rfl
  | some q =>
    obtain ⟨w, s, a, o⟩ := q
    simp only
    cases getPrec s a o with
    | none => rfl
    | some r => rfl

/-- a pass of `directive` is a pass of `directiveN` without a store, unless the guard fires -/
theorem directiveN_of_directive {begin : List Char} {args : List Arg} {emit : List Char} {dpc : Int}
    {rest : List Char} {args' : List Arg} (hd : directive begin args = .ok emit dpc rest args') :
    directiveN begin args = .ok emit dpc rest args' none ∨ directiveN begin args = .intovf := by
  unfold directiveN
  split
  · exact Or.inr rfl
  · left
    rw [directive_eq] at hd
    cases hpo : parseOpts begin args with
    | none => simp [hpo] at hd
    | some q =>
      obtain ⟨w, p, s, a', ops⟩ := q
      simp only [hpo] at hd ⊢
      split
      · rename_i hn
        -- `convert` answers `unsupported` for n
        exfalso
        unfold convert at hd
        simp [hn] at hd
      · rw [directive_eq]
        simp only [hpo, hd]


/-- conversely a finished run of `loop` is a finished run of `loopN` without
stores, unless a computation leaves the range of `int` -/
theorem loop_to_loopN (fuel : Nat) (fmt : List Char) (args : List Arg) (out : List Char) (pc : Int)
    (st : List NStore) (out' : List Char) (pc' : Int)
    (h : loop fuel fmt args out pc = .done out' pc') :
    loopN fuel fmt args out pc st = .done out' pc' st ∨ loopN fuel fmt args out pc st = .intovf := by
  induction fuel generalizing fmt args out pc with
  | zero =>
    cases fmt with
    | nil => simp [loop] at h; simp [loopN, h]
    | cons c cs => simp [loop] at h
  | succ fuel ih =>
    cases fmt with
    | nil => simp [loop] at h; simp [loopN, h]
    | cons c cs =>
      simp only [loop] at h
      simp only [loopN]
      split at h
      · rename_i hc; simp at h; simp [hc, h]
      · rename_i hc
        rw [if_neg hc]
        split at h
        · rename_i hp
          rw [if_pos hp]
          split
          · exact Or.inr rfl
          · exact ih cs args _ _ h
        · rename_i hp
          rw [if_neg hp]
          split at h
          · rename_i emit dpc rest args2 hd
            rcases directiveN_of_directive hd with hN | hN
            · simp only [hN]
              split
              · exact Or.inr rfl
              · exact ih rest args2 _ _ h
            · simp only [hN]
              exact Or.inr trivial
          all_goals cases h

theorem loop_out_grows (fuel : Nat) (fmt : List Char) (args : List Arg) (out : List Char) (pc : Int)
    (out' : List Char) (pc' : Int) (h : loop fuel fmt args out pc = .done out' pc') : out.length ≤ out'.length := by
  induction fuel generalizing fmt args out pc with
  | zero =>
    cases fmt with
    | nil => simp [loop] at h; rw [h.1]; exact Nat.le_refl _
    | cons c cs => simp [loop] at h
  | succ fuel ih =>
    cases fmt with
    | nil => simp [loop] at h; rw [h.1]; exact Nat.le_refl _
    | cons c cs =>
      simp only [loop] at h
      split at h
      · simp at h; rw [h.1]; exact Nat.le_refl _
      split at h
      · have := ih cs args _ _ h; simp at this; omega
      · split at h
        · have := ih _ _ _ _ h; simp at this; omega
        all_goals cases h

/-- BELOW THE BOUND the unbounded model is the `int` model: a finished run of
`loop` whose output has at most INT_MAX characters and on which no directive
trips the `atoi` / `-width` guard is the run of `loopN` -/
theorem loop_to_loopN_below (fuel : Nat) (fmt : List Char) (args : List Arg) (out : List Char) (pc : Int)
    (st : List NStore) (out' : List Char) (pc' : Int) (h0 : pc = out.length)
    (h : loop fuel fmt args out pc = .done out' pc') (hb : (out'.length : Int) ≤ INT_MAX)
    (hg : guardFree fuel fmt args = true) :
    loopN fuel fmt args out pc st = .done out' pc' st := by
  induction fuel generalizing fmt args out pc with
  | zero =>
    cases fmt with
    | nil => simp [loop] at h; simp [loopN, h]
    | cons c cs => simp [loop] at h
  | succ fuel ih =>
    cases fmt with
    | nil => simp [loop] at h; simp [loopN, h]
    | cons c cs =>
      simp only [loop] at h
      simp only [guardFree] at hg
      simp only [loopN]
      split at h
      · rename_i hc; simp at h; simp [hc, h]
      · rename_i hc
        rw [if_neg hc] at hg ⊢
        split at h
        · rename_i hp
          rw [if_pos hp] at hg ⊢
          have hgrow := loop_out_grows _ _ _ _ _ _ _ h
          simp only [List.length_append, List.length_singleton] at hgrow
          rw [if_neg (by omega)]
          exact ih cs args _ _ (by simp; omega) h hg
        · rename_i hp
          rw [if_neg hp] at hg ⊢
          simp only [Bool.and_eq_true, Bool.not_eq_true'] at hg
          split at h
          · rename_i emit dpc rest args2 hd
            have hN : directiveN (c :: cs) args = .ok emit dpc rest args2 none := by
              rcases directiveN_of_directive hd with hN | hN
              · exact hN
              · exfalso
                unfold directiveN at hN
                rw [if_neg (by simp [hg.1])] at hN
                rw [directive_eq] at hd
                cases hpo : parseOpts (c :: cs) args with
                | none => simp [hpo] at hd
                | some q =>
                  obtain ⟨w, p, s, a', ops⟩ := q
                  simp only [hpo] at hN hd
                  split at hN
                  · split at hN <;> cases hN
                  · rw [directive_eq] at hN
                    simp only [hpo, hd] at hN
                    cases hN
            simp only [hN]
            obtain ⟨hc', _⟩ := directive_ok hd
            have hgrow := loop_out_grows _ _ _ _ _ _ _ h
            simp only [List.length_append] at hgrow
            rw [if_neg (by omega)]
            have hg2 := hg.2
            simp only [hd] at hg2
            exact ih rest args2 _ _ (by simp; omega) h hg2
          all_goals cases h

theorem loopN_no_diverge (fuel : Nat) (fmt : List Char) (args : List Arg) (out : List Char) (pc : Int)
    (st : List NStore) (h1 : fmt.length < fuel) : loopN fuel fmt args out pc st ≠ .diverged := by
  induction fuel generalizing fmt args out pc st with
  | zero => omega
  | succ fuel ih =>
    cases fmt with
    | nil => simp [loopN]
    | cons c cs =>
      simp only [loopN]
      simp only [List.length_cons] at h1
      split
      · simp
      split
      · split
        · simp
        · exact ih cs args _ _ _ (by omega)
      · split
        · rename_i emit dpc rest args2 store hd
          obtain ⟨_, hr, _, _⟩ := directiveN_ok hd
          simp only [List.tail_cons] at hr
          split
          · simp
          · exact ih rest args2 _ _ _ (by omega)
        all_goals simp

/-- every `int` print_i computes stays in the range of `int` as soon as its result does -/
theorem printI_ints_range (u : BitVec 64) (isSigned : Bool) (width minLen : Int) (ops : Ops) (base : Nat)
    (out : List Char) (pc : Int) (h : printI u isSigned width minLen ops base = some (out, pc))
    (hw0 : 0 ≤ width) (hw : width ≤ INT_MAX) (hm0 : 0 ≤ minLen) (hpc : pc ≤ INT_MAX) :
    ∀ x ∈ printIInts u isSigned width minLen ops base, -INT_MAX - 1 ≤ x ∧ x ≤ INT_MAX := by
  unfold printI at h
  unfold printIInts
  simp only at h ⊢
  generalize (if (isSigned && u.msb) = true then ['-']
    else if (isSigned && ops.sign) = true then ['+']
    else if (isSigned && ops.space) = true then [' ']
    else if (decide (base = 8) && ops.spec && (decide ((if (isSigned && u.msb) = true then -u else u) ≠ 0) || (decide (minLen = 0) && ops.prec))) = true then ['0']
    else if (decide (base = 16) && ops.spec && (decide ((if (isSigned && u.msb) = true then -u else u) ≠ 0) || ops.ptr)) = true then (if ops.upper = true then ['0', 'X'] else ['0', 'x'])
    else [] : List Char) = pfx at h ⊢
  split at h
  · cases h
  · rename_i digits hd

    simp only [Option.some.injEq, Prod.mk.injEq] at h
    obtain ⟨_, h2⟩ := h
    subst h2
    unfold INT_MAX at *
    have hl : (0 : Int) ≤ (digits.length : Int) := Int.natCast_nonneg _
    have hp : (0 : Int) ≤ (pfx.length : Int) := Int.natCast_nonneg _
    generalize (digits.length : Int) = len at *
    generalize (pfx.length : Int) = plen at *
    generalize ht : (if len < minLen then minLen + if base = 8 then 0 else plen
        else if (ops.zero && !(ops.left || ops.prec)) = true then width else 0) = t1 at *
    have ht1 : (len < minLen → t1 = minLen ∨ t1 = minLen + plen) ∧ (¬ len < minLen → t1 = width ∨ t1 = 0) := by
      subst ht
      constructor
      · intro hlt; rw [if_pos hlt]; split <;> simp
      · intro hlt; rw [if_neg hlt]; split <;> simp
    clear ht
    intro x hx
    simp only [List.mem_cons, List.mem_nil_iff, or_false] at hx
    cases hol : ops.left <;> simp only [hol, Bool.not_true, Bool.not_false, if_true, if_false, Bool.false_eq_true] at hpc hx
    all_goals
      by_cases hlt : len < minLen
      · rcases ht1.1 hlt with hh | hh <;>
          (rcases hx with hx | hx | hx | hx | hx | hx | hx | hx | hx | hx | hx | hx | hx | hx | hx <;> rw [hx] <;> omega)
      · rcases ht1.2 hlt with hh | hh <;>
          (rcases hx with hx | hx | hx | hx | hx | hx | hx | hx | hx | hx | hx | hx | hx | hx | hx <;> rw [hx] <;> omega)

end Igris.C06
