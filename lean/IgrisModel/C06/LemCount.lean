/- C06 helper lemmas: character counting and termination -/
import IgrisModel.C06.Model
namespace Igris.C06

theorem strlen_le {mem : List Char} {n : Nat} (h : strlen mem = some n) : n < mem.length := by
  induction mem generalizing n with
  | nil => simp [strlen] at h
  | cons c cs ih =>
    simp only [strlen] at h
    split at h
    · cases h; simp
    · cases hs : strlen cs with
      | none => simp [hs] at h
      | some k =>
        simp [hs] at h; subst h
        have := ih hs
        simp; omega

theorem strnlen_le {mem : List Char} {k n : Nat} (h : strnlen mem k = some n) : n ≤ mem.length ∧ n ≤ k := by
  induction mem generalizing k n with
  | nil =>
    cases k with
    | zero => simp [strnlen] at h; subst h; simp
    | succ k => simp [strnlen] at h
  | cons c cs ih =>
    cases k with
    | zero => simp [strnlen] at h; subst h; simp
    | succ k =>
      simp only [strnlen] at h
      split at h
      · cases h; simp
      · cases hs : strnlen cs k with
        | none => simp [hs] at h
        | some j =>
          simp [hs] at h; subst h
          have := ih hs
          simp; omega

theorem printS_count {mem : List Char} {width maxLen : Int} {ops : Ops} {out : List Char} {pc : Int}
    (h : printS mem width maxLen ops = some (out, pc)) : pc = out.length := by
  unfold printS at h
  split at h
  · simp at h
  · rename_i n hn
    have hle : n ≤ mem.length := by
      split at hn
      · split at hn
        · cases hn; assumption
        · cases hn
      · split at hn
        · exact (strnlen_le hn).1
        · exact Nat.le_of_lt (strlen_le hn)
    simp only [Option.some.injEq, Prod.mk.injEq] at h
    obtain ⟨h1, h2⟩ := h
    subst h1 h2
    split <;> split <;> simp [List.length_take, Nat.min_eq_left hle] <;> omega

theorem printI_count {u : BitVec 64} {isSigned : Bool} {width minLen : Int} {ops : Ops} {base : Nat}
    {out : List Char} {pc : Int}
    (h : printI u isSigned width minLen ops base = some (out, pc)) : pc = out.length := by
  unfold printI at h
  simp only at h
  split at h
  · simp at h
  · simp only [Option.some.injEq, Prod.mk.injEq] at h
    obtain ⟨h1, h2⟩ := h
    subst h1 h2
    split <;> simp <;> omega


theorem skipDigits_length (s : List Char) : (skipDigits s).length ≤ s.length := by
  induction s with
  | nil => simp [skipDigits]
  | cons c cs ih => simp only [skipDigits]; split <;> simp <;> omega

theorem flagsLoop_length (s : List Char) (ops : Ops) : (flagsLoop s ops).1.length ≤ s.length := by
  induction s generalizing ops with
  | nil => simp [flagsLoop]
  | cons c cs ih =>
    simp only [flagsLoop]
    repeat' split
    all_goals first | (have := ih { ops with left := true }; simp; omega)
                    | (have := ih { ops with sign := true }; simp; omega)
                    | (have := ih { ops with space := true }; simp; omega)
                    | (have := ih { ops with spec := true }; simp; omega)
                    | (have := ih { ops with zero := true }; simp; omega)
                    | simp

theorem getWidth_length {s : List Char} {args : List Arg} {ops : Ops} {w : Int} {s' : List Char}
    {args' : List Arg} {ops' : Ops} (h : getWidth s args ops = some (w, s', args', ops')) :
    s'.length ≤ s.length := by
  unfold getWidth at h
  simp only at h
  split at h
  · cases hv : vaInt args with
    | none => simp [hv] at h
    | some p =>
      obtain ⟨v, as⟩ := p
      simp only [hv, Option.map_some] at h
      split at h <;> (simp at h; obtain ⟨_, h2, _⟩ := h; subst h2; simp)
  · simp only [Option.map_some] at h
    split at h <;> (simp at h; obtain ⟨_, h2, _⟩ := h; subst h2; exact skipDigits_length s)

theorem getPrec_length {s : List Char} {args : List Arg} {ops : Ops} {w : Int} {s' : List Char}
    {args' : List Arg} {ops' : Ops} (h : getPrec s args ops = some (w, s', args', ops')) :
    s'.length ≤ s.length := by
  unfold getPrec at h
  simp only at h
  have hsk : ∀ t : List Char, (skipDigits t.tail).length ≤ t.length := by
    intro t; have := skipDigits_length t.tail; simp at *; omega
  split at h
  · split at h
    · cases hv : vaInt args with
      | none => simp [hv] at h
      | some p =>
        obtain ⟨v, as⟩ := p
        simp only [hv, Option.map_some] at h
        split at h <;> (simp at h; obtain ⟨_, h2, _⟩ := h; subst h2; simp; omega)
    · simp only [Option.map_some] at h
      split at h <;> (simp at h; obtain ⟨_, h2, _⟩ := h; subst h2; exact hsk s)
  · simp only [Option.map_some] at h
    split at h <;> (simp at h; obtain ⟨_, h2, _⟩ := h; subst h2; exact skipDigits_length s)

theorem getLen_length (s : List Char) (ops : Ops) : (getLen s ops).1.length ≤ s.length := by
  unfold getLen
  simp only
  repeat' split
  all_goals simp <;> omega


/-- the tail of `convert`'s branches that end in print_i / print_s -/
theorem fin_ok {s : List Char} {r : Option (List Char × Int)} {args : List Arg}
    {emit : List Char} {pc : Int} {rest : List Char} {args' : List Arg}
    (h : (match r with
          | none => Step.fault
          | some (out, pc) => Step.ok out pc s.tail args) = Step.ok emit pc rest args') :
    r = some (emit, pc) ∧ rest = s.tail ∧ args' = args := by
  split at h
  · cases h
  · cases h; simp

theorem convert_ok {begin s : List Char} {args : List Arg} {w p : Int} {ops : Ops}
    {emit : List Char} {pc : Int} {rest : List Char} {args' : List Arg}
    (h : convert begin s args w p ops = .ok emit pc rest args') :
    pc = emit.length ∧ rest.length ≤ s.length := by
  unfold convert at h
  simp only at h
  split at h
  · cases h; simp
  split at h
  · split at h
    · cases h
    · obtain ⟨h1, h2, _⟩ := fin_ok h
      exact ⟨printI_count h1, by subst h2; simp⟩
  split at h
  · split at h
    · cases h
    · obtain ⟨h1, h2, _⟩ := fin_ok h
      exact ⟨printI_count h1, by subst h2; simp⟩
  split at h
  · cases h
  split at h
  · split at h
    · cases h
    · generalize hops : ({ (if (hd s).isUpper = true then { ops with upper := true } else ops) with chr := true } : Ops) = opsc at h
      obtain ⟨h1, h2, _⟩ := fin_ok h
      exact ⟨printS_count h1, by subst h2; simp⟩
  split at h
  · split at h
    · obtain ⟨h1, h2, _⟩ := fin_ok h
      exact ⟨printS_count h1, by subst h2; simp⟩
    · obtain ⟨h1, h2, _⟩ := fin_ok h
      exact ⟨printS_count h1, by subst h2; simp⟩
    · cases h
  split at h
  · split at h
    · obtain ⟨h1, h2, _⟩ := fin_ok h
      exact ⟨printI_count h1, by subst h2; simp⟩
    · cases h
  · cases h
    refine ⟨?_, ?_⟩
    · simp [List.length_take]
    · split <;> simp

theorem directive_ok {begin : List Char} {args : List Arg}
    {emit : List Char} {pc : Int} {rest : List Char} {args' : List Arg}
    (h : directive begin args = .ok emit pc rest args') :
    pc = emit.length ∧ rest.length ≤ begin.tail.length := by
  unfold directive at h
  simp only at h
  have h0 := flagsLoop_length begin.tail {}
  split at h
  · cases h
  · rename_i width s1 args1 ops1 hw
    have h1 := getWidth_length hw
    split at h
    · cases h
    · rename_i precision s2 args2 ops2 hp
      have h2 := getPrec_length hp
      have h3 := getLen_length s2 ops2
      obtain ⟨hc, hr⟩ := convert_ok h
      exact ⟨hc, by omega⟩


theorem loop_count (fuel : Nat) (fmt : List Char) (args : List Arg) (out : List Char) (pc : Int)
    (out' : List Char) (pc' : Int) (h0 : pc = out.length)
    (h : loop fuel fmt args out pc = .done out' pc') : pc' = out'.length := by
  induction fuel generalizing fmt args out pc with
  | zero =>
    cases fmt with
    | nil => simp [loop] at h; obtain ⟨h1, h2⟩ := h; subst h1 h2; exact h0
    | cons c cs => simp [loop] at h
  | succ fuel ih =>
    cases fmt with
    | nil => simp [loop] at h; obtain ⟨h1, h2⟩ := h; subst h1 h2; exact h0
    | cons c cs =>
      simp only [loop] at h
      split at h
      · simp at h; obtain ⟨h1, h2⟩ := h; subst h1 h2; exact h0
      split at h
      · exact ih cs args (out ++ [c]) (pc + 1) (by simp; omega) h
      · split at h
        · rename_i emit dpc rest args2 hd
          obtain ⟨hc, _⟩ := directive_ok hd
          exact ih rest args2 (out ++ emit) (pc + dpc) (by simp; omega) h
        all_goals cases h

theorem loop_fuel (f1 f2 : Nat) (fmt : List Char) (args : List Arg) (out : List Char) (pc : Int)
    (h1 : fmt.length < f1) (h2 : fmt.length < f2) :
    loop f1 fmt args out pc = loop f2 fmt args out pc := by
  induction f1 generalizing f2 fmt args out pc with
  | zero => omega
  | succ f1 ih =>
    cases f2 with
    | zero => omega
    | succ f2 =>
      cases fmt with
      | nil => simp [loop]
      | cons c cs =>
        simp only [loop]
        simp only [List.length_cons] at h1 h2
        split
        · rfl
        split
        · exact ih f2 cs args _ _ (by omega) (by omega)
        · split
          · rename_i emit dpc rest args2 hd
            obtain ⟨_, hr⟩ := directive_ok hd
            simp only [List.tail_cons] at hr
            exact ih f2 rest args2 _ _ (by omega) (by omega)
          all_goals rfl

theorem loop_no_diverge (fuel : Nat) (fmt : List Char) (args : List Arg) (out : List Char) (pc : Int)
    (h1 : fmt.length < fuel) : loop fuel fmt args out pc ≠ .diverged := by
  induction fuel generalizing fmt args out pc with
  | zero => omega
  | succ fuel ih =>
    cases fmt with
    | nil => simp [loop]
    | cons c cs =>
      simp only [loop]
      simp only [List.length_cons] at h1
      split
      · simp
      split
      · exact ih cs args _ _ (by omega)
      · split
        · rename_i emit dpc rest args2 hd
          obtain ⟨_, hr⟩ := directive_ok hd
          simp only [List.tail_cons] at hr
          exact ih rest args2 _ _ (by omega)
        all_goals simp

end Igris.C06
