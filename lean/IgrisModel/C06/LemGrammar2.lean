/- C06 helper lemmas (round 3): the generative grammar is EXACTLY the domain of the ISO reference
   (`isoFormat` ↔ `IsoDefined`, `isoFormatExcl` ↔ `IsoSupported`) -/
import IgrisModel.C06.Grammar2
import IgrisModel.C06.LemGrammar
import IgrisModel.C06.LemConv
namespace Igris.C06
open Iso

theorem parseLen_unrender (s : List Char) :
    lenText (parseLen s).1 ++ (parseLen s).2 = s ∧ (parseLen s).1 ≠ .bigL := by
  unfold parseLen
  split <;> simp [lenText]

theorem takeWhile_all (s : List Char) (q : Char → Bool) : (s.takeWhile q).all q = true := by
  induction s with
  | nil => simp
  | cons a t ih => simp only [List.takeWhile_cons]; split <;> simp_all

theorem parsePrec_unrender (s : List Char) :
    ∃ p : NumTxt, (parsePrec s).1 = numOf p ∧ precText p ++ (parsePrec s).2 = s ∧
      (match p with | .lit ds => ds.all Char.isDigit = true | _ => True) := by
  unfold parsePrec
  split
  · exact ⟨.star, rfl, by simp [precText], trivial⟩
  · rename_i r _
    exact ⟨.lit (r.takeWhile Char.isDigit), rfl, by simp [precText, List.takeWhile_append_dropWhile],
      takeWhile_all r _⟩
  · exact ⟨.none, rfl, by simp [precText], trivial⟩

theorem parseWidth_unrender (s : List Char) (hf : isFlag (hd s) = false) :
    ∃ w : NumTxt, (parseWidth s).1 = numOf w ∧ widthText w ++ (parseWidth s).2 = s ∧
      (match w with
       | .lit ds => (!ds.isEmpty && ds.all Char.isDigit && ds.head? != some '0') = true
       | _ => True) := by
  unfold parseWidth
  split
  · exact ⟨.star, rfl, by simp [widthText], trivial⟩
  · simp only
    split
    · exact ⟨.none, rfl, by simp [widthText], trivial⟩
    · rename_i hne
      refine ⟨.lit (s.takeWhile Char.isDigit), rfl, by simp [widthText, List.takeWhile_append_dropWhile], ?_⟩
      simp only [takeWhile_all, Bool.and_true, Bool.and_eq_true, Bool.not_eq_true', bne_iff_ne, ne_eq]
      refine ⟨by simpa using hne, ?_⟩
      cases s with
      | nil => simp
      | cons a t =>
        simp only [List.takeWhile_cons]
        split
        · simp only [List.head?_cons, Option.some.injEq]
          intro h0; subst h0; simp [hd, isFlag] at hf
        · simp

set_option linter.constructorNameAsVariable false in
theorem parseDirective_unrender (cs : List Char) (D : Directive) (rest : List Char)
    (h : parseDirective cs = some (D, rest)) :
    ∃ dt : DirTxt, dirOf dt = D ∧ dt.body ++ rest = cs ∧ dt.flags.all flagChar = true ∧
      (match dt.width with
       | .lit ds => (!ds.isEmpty && ds.all Char.isDigit && ds.head? != some '0') = true
       | _ => True) ∧
      (match dt.prec with | .lit ds => ds.all Char.isDigit = true | _ => True) ∧ dt.len ≠ .bigL := by
  unfold parseDirective at h
  obtain ⟨w, hw1, hw2, hw3⟩ := parseWidth_unrender (cs.dropWhile isFlag) (hd_dropWhile_isFlag cs)
  obtain ⟨p, hp1, hp2, hp3⟩ := parsePrec_unrender (parseWidth (cs.dropWhile isFlag)).2
  obtain ⟨hl1, hl2⟩ := parseLen_unrender (parsePrec (parseWidth (cs.dropWhile isFlag)).2).2
  simp only at h
  split at h
  · cases h
  · rename_i c r hs
    simp only [Option.some.injEq, Prod.mk.injEq] at h
    obtain ⟨hD, hr⟩ := h
    subst hr
    refine ⟨{ flags := cs.takeWhile isFlag, width := w, prec := p,
              len := (parseLen (parsePrec (parseWidth (cs.dropWhile isFlag)).2).2).1, conv := c }, ?_, ?_, ?_, hw3, hp3, hl2⟩
    · rw [← hD]; simp only [dirOf, ← hw1, ← hp1]
    · simp only [DirTxt.body]
      rw [hs] at hl1
      have : cs = cs.takeWhile isFlag ++ cs.dropWhile isFlag := (List.takeWhile_append_dropWhile).symm
      rw [this]
      conv => rhs; rw [← hw2, ← hp2, ← hl1]
      simp [List.append_assoc]
    · rw [flagChar_eq]; exact takeWhile_all cs _

theorem starWidthArg_of (d : DirTxt) (args a1 : List Arg) (mi : Bool) (W : Nat)
    (h : resolveWidth (dirOf d) args = some (mi, W, a1)) : starWidthArg d.width args = some a1 := by
  cases hw : d.width with
  | none => simp [resolveWidth, dirOf, numOf, hw] at h; simp [starWidthArg, h.2.2]
  | lit ds => simp [resolveWidth, dirOf, numOf, hw] at h; simp [starWidthArg, h.2.2]
  | star =>
    cases args with
    | nil => simp [resolveWidth, dirOf, numOf, hw] at h
    | cons x as =>
      cases x <;> simp [resolveWidth, dirOf, numOf, hw] at h
      simp [starWidthArg, h.2.2]

theorem effPrec_of (d : DirTxt) (a1 a2 : List Arg) (ep : Option Nat)
    (h : resolvePrec (dirOf d) a1 = some (ep, a2)) : effPrec d.prec a1 = some (ep, a2) := by
  cases hp : d.prec with
  | none => simp [resolvePrec, dirOf, numOf, hp] at h; simp [effPrec, h]
  | lit ds => simp [resolvePrec, dirOf, numOf, hp] at h; simp [effPrec, h]
  | star =>
    cases a1 with
    | nil => simp [resolvePrec, dirOf, numOf, hp] at h
    | cons x as =>
      cases x <;> simp [resolvePrec, dirOf, numOf, hp] at h
      simp [effPrec, h]

theorem intArg_of_signed (len : Len) (args rest : List Arg) (v : Int) (h : signedArg len args = some (v, rest)) :
    intArg len args = some rest := by
  unfold signedArg at h
  split at h <;> simp at h <;> simp [intArg, h.2]

theorem intArg_of_unsigned (len : Len) (args rest : List Arg) (v : Nat) (h : unsignedArg len args = some (v, rest)) :
    intArg len args = some rest := by
  unfold unsignedArg at h
  split at h <;> simp at h <;> simp [intArg, h.2]

theorem strArgOk_of (mem : List Char) (ep : Option Nat) (h : (isoStr mem ep).isSome) : strArgOk mem ep = true := by
  unfold isoStr at h
  unfold strArgOk
  cases ep with
  | none =>
    simp only at h
    split at h
    · simp_all
    · cases h
  | some p =>
    simp only at h
    split at h
    · rename_i hc
      simp only [Bool.or_eq_true, List.contains_iff_mem, decide_eq_true_eq]
      rcases hc with hc | hc
      · exact Or.inl (List.mem_of_mem_take hc)
      · exact Or.inr hc
    · cases h

theorem flags_empty_of (fl : List Char) (hall : fl.all flagChar = true)
    (h1 : ¬ '-' ∈ fl) (h2 : ¬ '+' ∈ fl) (h3 : ¬ ' ' ∈ fl) (h4 : ¬ '#' ∈ fl) (h5 : ¬ '0' ∈ fl) : fl = [] := by
  cases fl with
  | nil => rfl
  | cons x xs =>
    exfalso
    simp only [List.all_cons, Bool.and_eq_true, flagChar, Bool.or_eq_true, decide_eq_true_eq] at hall
    simp only [List.mem_cons, not_or] at h1 h2 h3 h4 h5
    rcases hall.1 with (((h | h) | h) | h) | h
    · exact h1.1 h.symm
    · exact h2.1 h.symm
    · exact h3.1 h.symm
    · exact h4.1 h.symm
    · exact h5.1 h.symm

theorem of_decide_eq_false' {p : Prop} [Decidable p] (h : (decide ¬ p) = false) : p := by
  simpa using h

/-- converse of `accepts_isoConv`: where ISO defines the conversion the grammar accepts it -/
theorem isoConv_accepts (pfmt : Nat → List Char) (d : DirTxt) (args rest : List Arg) (out : List Char)
    (hfl : d.flags.all flagChar = true)
    (h : isoConv pfmt false (dirOf d) args = some (out, rest)) : d.accepts args = some rest := by
  unfold isoConv at h
  split at h
  · cases h
  rename_i mi W a1 hrw
  split at h
  · cases h
  rename_i ep a2 hrp
  have hsw := starWidthArg_of d args a1 mi W hrw
  have hep := effPrec_of d a1 a2 ep hrp
  have hv := isoBody_valid _ _ _ _ _ _ _ _ h
  unfold DirTxt.accepts
  simp only [hsw, hep]
  unfold isoBody at h
  simp only [dirOf] at h hv
  simp only [validConv, Bool.or_eq_true, decide_eq_true_eq] at hv
  rcases hv with ((((((((hc | hc) | hc) | hc) | hc) | hc) | hc) | hc) | hc) | hc
  all_goals simp only [hc] at h ⊢
  -- %
  · simp (decide := true) at h ⊢
    obtain ⟨⟨⟨⟨⟨⟨⟨⟨h1, h2⟩, h3⟩, h4⟩, h5⟩, h6⟩, h7⟩, h8⟩, _, hr⟩ := h
    refine ⟨⟨⟨⟨flags_empty_of d.flags hfl h1 h2 h3 h4 h5, ?_⟩, ?_⟩, ?_⟩, hr⟩
    · cases hw : d.width <;> simp_all [numOf]
    · cases hp : d.prec <;> simp_all [numOf]
    · exact of_decide_eq_false' h8
  -- d, i
  · simp (decide := true) at h ⊢
    obtain ⟨hh, hm⟩ := h
    refine ⟨hh, ?_⟩
    cases hsa : signedArg d.len a2 with
    | none => simp [hsa] at hm
    | some q => obtain ⟨v, as⟩ := q; simp [hsa] at hm; rw [← hm.2]; exact intArg_of_signed _ _ _ _ hsa
  · simp (decide := true) at h ⊢
    obtain ⟨hh, hm⟩ := h
    refine ⟨hh, ?_⟩
    cases hsa : signedArg d.len a2 with
    | none => simp [hsa] at hm
    | some q => obtain ⟨v, as⟩ := q; simp [hsa] at hm; rw [← hm.2]; exact intArg_of_signed _ _ _ _ hsa
  -- u
  · simp (decide := true) at h ⊢
    obtain ⟨hh, hm⟩ := h
    refine ⟨hh, ?_⟩
    cases hsa : unsignedArg d.len a2 with
    | none => simp [hsa] at hm
    | some q => obtain ⟨v, as⟩ := q; simp [hsa] at hm; rw [← hm.2]; exact intArg_of_unsigned _ _ _ _ hsa
  -- o x X
  · simp (decide := true) at h ⊢
    cases hsa : unsignedArg d.len a2 with
    | none => simp [hsa] at h
    | some q => obtain ⟨v, as⟩ := q; simp [hsa] at h; rw [← h.2]; exact intArg_of_unsigned _ _ _ _ hsa
  · simp (decide := true) at h ⊢
    cases hsa : unsignedArg d.len a2 with
    | none => simp [hsa] at h
    | some q => obtain ⟨v, as⟩ := q; simp [hsa] at h; rw [← h.2]; exact intArg_of_unsigned _ _ _ _ hsa
  · simp (decide := true) at h ⊢
    cases hsa : unsignedArg d.len a2 with
    | none => simp [hsa] at h
    | some q => obtain ⟨v, as⟩ := q; simp [hsa] at h; rw [← h.2]; exact intArg_of_unsigned _ _ _ _ hsa
  -- c
  · simp (decide := true) at h ⊢
    obtain ⟨⟨⟨hf, he⟩, hl⟩, hm⟩ := h
    refine ⟨⟨⟨hf, he⟩, of_decide_eq_false' hl⟩, ?_⟩
    cases a2 with
    | nil => simp at hm
    | cons x as => cases x <;> simp at hm ⊢; exact hm.2
  -- s
  · simp (decide := true) at h ⊢
    obtain ⟨⟨hf, hl⟩, hm⟩ := h
    refine ⟨⟨hf, of_decide_eq_false' hl⟩, ?_⟩
    cases a2 with
    | nil => simp at hm
    | cons x as =>
      cases x <;> simp at hm ⊢
      rename_i mem
      obtain ⟨body, hb, _, hr⟩ := hm
      exact ⟨strArgOk_of mem ep (by simp [hb]), hr⟩
  -- p
  · simp (decide := true) at h ⊢
    obtain ⟨⟨⟨hf, he⟩, hl⟩, hm⟩ := h
    refine ⟨⟨⟨hf, he⟩, of_decide_eq_false' hl⟩, ?_⟩
    cases a2 with
    | nil => simp at hm
    | cons x as => cases x <;> simp at hm ⊢; exact hm.2

theorem zeroValue_of (len : Len) (a as : List Arg) (v : Nat) (h : unsignedArg len a = some (v, as)) :
    zeroValue len a = decide (v = 0) := by
  unfold unsignedArg at h
  split at h <;> simp at h <;> simp [zeroValue, h.1] <;> (cases v <;> simp)

theorem isoBody_strict_iff (pfmt : Nat → List Char) (D : Directive) (mi : Bool) (W : Nat)
    (pr : Option Nat) (a : List Arg) (r : List Char × List Arg) :
    isoBody pfmt true D mi W pr a = some r ↔
      (isoBody pfmt false D mi W pr a = some r ∧
        (if D.conv = 'o' || D.conv = 'x' || D.conv = 'X' then
           D.hash && zeroValue D.len a && (D.conv != 'o' || pr.getD 1 == 1)
         else if D.conv = 'c' then (match a with | .int v :: _ => v.toNat % 256 == 0 | _ => false)
         else false) = false) := by
  unfold isoBody
  simp only []
  generalize D.conv = c
  by_cases h1 : c = '%'
  · subst h1; simp (decide := true)
  simp only [h1, if_false]
  by_cases h2 : (c = 'd' || c = 'i') = true
  · simp only [h2, if_true]
    have : (c = 'o' || c = 'x' || c = 'X') = false := by
      simp only [Bool.or_eq_true, decide_eq_true_eq] at h2
      rcases h2 with h | h <;> subst h <;> decide
    have hc : ¬ c = 'c' := by
      simp only [Bool.or_eq_true, decide_eq_true_eq] at h2
      rcases h2 with h | h <;> subst h <;> decide
    simp [this, hc]
  simp only [h2, Bool.false_eq_true, if_false]
  by_cases h3 : (c = 'u' || c = 'o' || c = 'x' || c = 'X') = true
  · simp only [h3, if_true]
    by_cases hu : c = 'u'
    · subst hu
      simp (decide := true)
      cases D.hash <;> simp
    · have h3' : (c = 'o' || c = 'x' || c = 'X') = true := by
        simp only [Bool.or_eq_true, decide_eq_true_eq] at h3 ⊢
        rcases h3 with ((h | h) | h) | h
        · exact absurd h hu
        · exact Or.inl (Or.inl h)
        · exact Or.inl (Or.inr h)
        · exact Or.inr h
      have hcu : (decide (c = 'u')) = false := by simpa using hu
      simp only [h3', if_true, hcu, Bool.and_false, Bool.false_eq_true, if_false]
      cases hua : unsignedArg D.len a with
      | none => simp
      | some q =>
        obtain ⟨v, as⟩ := q
        simp only [zeroValue_of _ _ _ _ hua, Bool.true_and, Bool.false_and, Bool.false_eq_true, if_false]
        have hb : (c != 'o' || pr.getD 1 == 1) = (decide (c ≠ 'o') || decide (pr.getD 1 = 1)) := by
          by_cases hco : c = 'o' <;> by_cases hp1 : pr.getD 1 = 1 <;> simp [hco, hp1]
        rw [hb]
        cases (D.hash && decide (v = 0) && (decide (c ≠ 'o') || decide (pr.getD 1 = 1))) <;> simp
  simp only [h3, Bool.false_eq_true, if_false]
  have h3' : (c = 'o' || c = 'x' || c = 'X') = false := by
    simp only [Bool.or_eq_true, decide_eq_true_eq, not_or] at h3
    simp [h3.1.1.2, h3.1.2, h3.2]
  simp only [h3', Bool.false_eq_true, if_false]
  by_cases h4 : c = 'c'
  · simp only [h4, if_true]
    split
    · simp
    · cases a with
      | nil => simp
      | cons x as =>
        cases x <;> simp
        rename_i v
        cases hz : decide (v.toNat % 256 = 0) <;> simp_all
  · simp [h4]

theorem isoConv_strict_iff (pfmt : Nat → List Char) (d : DirTxt) (args : List Arg) (r : List Char × List Arg) :
    isoConv pfmt true (dirOf d) args = some r ↔
      (isoConv pfmt false (dirOf d) args = some r ∧ d.former args = false) := by
  unfold isoConv DirTxt.former
  cases hrw : resolveWidth (dirOf d) args with
  | none => simp
  | some q =>
    obtain ⟨mi, W, a1⟩ := q
    have hsw := starWidthArg_of d args a1 mi W hrw
    simp only [hsw]
    cases hrp : resolvePrec (dirOf d) a1 with
    | none => simp
    | some q2 =>
      obtain ⟨ep, a2⟩ := q2
      have hep := effPrec_of d a1 a2 ep hrp
      simp only [hep]
      exact isoBody_strict_iff pfmt (dirOf d) mi W ep a2 r

/-- ISO (strict: outside the former classes) defines the conversion exactly on
the directive/argument lists the grammar accepts -/
theorem acceptsS_iff (pfmt : Nat → List Char) (strict : Bool) (d : DirTxt) (args rest : List Arg)
    (hs : d.syntaxOk = true) :
    (∃ out, isoConv pfmt strict (dirOf d) args = some (out, rest)) ↔ d.acceptsS strict args = some rest := by
  have hfl : d.flags.all flagChar = true := by
    simp only [DirTxt.syntaxOk, Bool.and_eq_true] at hs; exact hs.1.1.1.1
  cases strict with
  | false =>
    simp only [DirTxt.acceptsS, Bool.false_and, Bool.false_eq_true, if_false]
    constructor
    · rintro ⟨out, h⟩; exact isoConv_accepts pfmt d args rest out hfl h
    · intro h; exact accepts_isoConv pfmt d args rest hs h
  | true =>
    simp only [DirTxt.acceptsS, Bool.true_and]
    constructor
    · rintro ⟨out, h⟩
      obtain ⟨h1, h2⟩ := (isoConv_strict_iff pfmt d args (out, rest)).mp h
      rw [if_neg (by simp [h2])]
      exact isoConv_accepts pfmt d args rest out hfl h1
    · intro h
      split at h
      · cases h
      · rename_i hf
        obtain ⟨out, ho⟩ := accepts_isoConv pfmt d args rest hs h
        exact ⟨out, (isoConv_strict_iff pfmt d args (out, rest)).mpr ⟨ho, by simpa using hf⟩⟩

theorem segsAcceptS_false (segs : List Seg) (args : List Arg) : segsAcceptS false segs args = segsAccept segs args := by
  induction segs generalizing args with
  | nil => rfl
  | cons sg segs ih =>
    cases sg with
    | text cs => simp [segsAcceptS, segsAccept, ih]
    | dir d =>
      simp only [segsAcceptS, segsAccept, DirTxt.acceptsS, Bool.false_and, Bool.false_eq_true, if_false]
      cases d.accepts args <;> simp [ih]

/-- every accepted sequence of pieces renders to a format in the domain -/
theorem grammarS_defined (pfmt : Nat → List Char) (strict : Bool) (segs : List Seg) (args : List Arg)
    (h : segsAcceptS strict segs args = true) (fuel : Nat) (hf : (renderSegs segs).length ≤ fuel) :
    (isoAux pfmt strict fuel (renderSegs segs) args).isSome := by
  induction segs generalizing args fuel with
  | nil => cases fuel <;> simp [renderSegs, isoAux]
  | cons sg segs ih =>
    cases sg with
    | text cs =>
      simp only [segsAcceptS, Bool.and_eq_true] at h
      have hr : renderSegs (Seg.text cs :: segs) = cs ++ renderSegs segs := by simp [renderSegs, Seg.render]
      rw [hr] at hf ⊢
      rw [isoAux_text pfmt strict cs h.1 fuel _ args hf]
      have := ih args h.2 (fuel - cs.length) (by simp at hf; omega)
      cases hx : isoAux pfmt strict (fuel - cs.length) (renderSegs segs) args with
      | none => rw [hx] at this; cases this
      | some o => simp
    | dir d =>
      simp only [segsAcceptS, Bool.and_eq_true] at h
      obtain ⟨hs, hacc⟩ := h
      cases ha : d.acceptsS strict args with
      | none => simp [ha] at hacc
      | some a' =>
        simp only [ha] at hacc
        have hr : renderSegs (Seg.dir d :: segs) = '%' :: (d.body ++ renderSegs segs) := by
          simp [renderSegs, Seg.render]
        rw [hr] at hf ⊢
        cases fuel with
        | zero => simp at hf
        | succ fuel =>
          obtain ⟨out, hcv⟩ := (acceptsS_iff pfmt strict d args a' hs).mpr ha
          have hpd := parseDirective_render d (renderSegs segs) hs
          simp only [isoAux]
          have hnul : ¬ ('%' = NUL) := by decide
          rw [if_neg hnul, if_neg (by simp)]
          simp only [hpd, hcv]
          have := ih a' hacc fuel (by simp at hf; omega)
          cases hx : isoAux pfmt strict fuel (renderSegs segs) a' with
          | none => rw [hx] at this; cases this
          | some o => simp

theorem isoConv_valid (pfmt : Nat → List Char) (strict : Bool) (D : Directive) (args : List Arg)
    (r : List Char × List Arg) (h : isoConv pfmt strict D args = some r) : validConv D.conv = true := by
  unfold isoConv at h
  split at h
  · cases h
  split at h
  · cases h
  exact isoBody_valid _ _ _ _ _ _ _ _ h

theorem validConv_conv (c : Char) (h : validConv c = true) : convChar c = true := by
  simp only [validConv, Bool.or_eq_true, decide_eq_true_eq] at h
  rcases h with ((((((((h | h) | h) | h) | h) | h) | h) | h) | h) | h <;> subst h <;> decide

/-- every format in the domain is the rendering of an accepted sequence of pieces -/
theorem defined_grammarS (pfmt : Nat → List Char) (strict : Bool) (fuel : Nat) (fmt : List Char) (args : List Arg)
    (out : List Char) (h : isoAux pfmt strict fuel fmt args = some out) :
    ∃ segs, renderSegs segs = fmt ∧ segsAcceptS strict segs args = true := by
  induction fuel generalizing fmt args out with
  | zero =>
    cases fmt with
    | nil => exact ⟨[], rfl, rfl⟩
    | cons c cs => simp [isoAux] at h
  | succ fuel ih =>
    cases fmt with
    | nil => exact ⟨[], rfl, rfl⟩
    | cons c cs =>
      simp only [isoAux] at h
      split at h
      · cases h
      rename_i hnul
      split at h
      · rename_i hpct
        cases ho : isoAux pfmt strict fuel cs args with
        | none => simp [ho] at h
        | some o' =>
          obtain ⟨segs, hr, ha⟩ := ih cs args o' ho
          refine ⟨.text [c] :: segs, by simp [renderSegs, Seg.render] at hr ⊢; exact hr, ?_⟩
          simp only [segsAcceptS, List.all_cons, List.all_nil, Bool.and_true, Bool.and_eq_true, bne_iff_ne, ne_eq]
          exact ⟨⟨hpct, hnul⟩, ha⟩
      · rename_i hpct
        have hpc : c = '%' := by simpa using hpct
        subst hpc
        split at h
        · cases h
        · rename_i D rest hpd
          split at h
          · cases h
          · rename_i e a' hcv
            cases ho : isoAux pfmt strict fuel rest a' with
            | none => simp [ho] at h
            | some o' =>
              obtain ⟨segs, hr, ha⟩ := ih rest a' o' ho
              obtain ⟨dt, hD, hbody, hfl, hw, hp, hl⟩ := parseDirective_unrender cs D rest hpd
              have hconv : convChar dt.conv = true := by
                have := isoConv_valid pfmt strict D args _ hcv
                rw [← hD] at this
                exact validConv_conv _ this
              have hs : dt.syntaxOk = true := by
                simp only [DirTxt.syntaxOk, Bool.and_eq_true, bne_iff_ne, ne_eq]
                refine ⟨⟨⟨⟨hfl, ?_⟩, ?_⟩, hl⟩, hconv⟩
                · cases hwd : dt.width <;> simp_all
                · cases hpd' : dt.prec <;> simp_all
              have hacc : dt.acceptsS strict args = some a' :=
                (acceptsS_iff pfmt strict dt args a' hs).mp ⟨e, by rw [hD]; exact hcv⟩
              refine ⟨.dir dt :: segs, ?_, ?_⟩
              · simp only [renderSegs, List.map_cons, List.flatten_cons, Seg.render, List.cons_append,
                  List.cons.injEq, true_and]
                rw [← hbody]
                simp only [renderSegs] at hr
                rw [hr]
              · simp only [segsAcceptS, hs, hacc, Bool.true_and]
                exact ha

end Igris.C06
