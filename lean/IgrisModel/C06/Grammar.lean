/-
  C06 — WHICH formats and argument lists does ISO C define?  A generative
  description of the domain of `Iso.isoFormat`, written separately from its
  parser (`parseDirective` works by `takeWhile`/pattern matching on the text;
  here a directive is a record that is RENDERED to text):

    format   ::= ( literal-text | '%' directive )*
    directive::= flags* width? precision? length? conversion

  `Segs.accepts segs args = true` says: the pieces are syntactically well
  formed, every option is one ISO 7.21.6.1 defines for that conversion, and the
  argument list supplies a value of the right type for every `*` and every
  conversion (in order; surplus arguments are allowed, 7.21.6.1p2).
  `iso_defined_of_grammar` (Props.lean) proves that `isoFormat` is defined on
  every such format — so `printf_matches_iso` applies to all of them.
-/
import IgrisModel.C06.Spec
namespace Igris.C06.Iso
open Igris.C06 (Arg Len NUL)

/-- a field width or precision as it is written -/
inductive NumTxt
  | none                    -- omitted
  | star                    -- `*`
  | lit (ds : List Char)    -- decimal digits (for a precision possibly none: `.`)
  deriving DecidableEq, Repr

/-- one conversion specification -/
structure DirTxt where
  flags : List Char
  width : NumTxt
  prec : NumTxt
  len : Len
  conv : Char
  deriving DecidableEq, Repr

def lenText : Len → List Char
  | .none => []
  | .hh => ['h', 'h']
  | .h => ['h']
  | .l => ['l']
  | .ll => ['l', 'l']
  | .j => ['j']
  | .z => ['z']
  | .t => ['t']
  | .bigL => ['L']

def widthText : NumTxt → List Char
  | .none => []
  | .star => ['*']
  | .lit ds => ds

def precText : NumTxt → List Char
  | .none => []
  | .star => ['.', '*']
  | .lit ds => '.' :: ds

/-- the text of the directive behind its `%` -/
def DirTxt.body (d : DirTxt) : List Char :=
  d.flags ++ (widthText d.width ++ (precText d.prec ++ (lenText d.len ++ [d.conv])))

/-- "Zero or more flags (in any order)": - + space # 0 -/
def flagChar (c : Char) : Bool := c = '-' || c = '+' || c = ' ' || c = '#' || c = '0'

/-- the conversions of this fragment -/
def convChar (c : Char) : Bool :=
  c = 'd' || c = 'i' || c = 'u' || c = 'o' || c = 'x' || c = 'X' || c = 'c' || c = 's' || c = 'p' || c = '%'

/-- syntax (7.21.6.1p4): flags; a width that is `*` or a decimal integer (it
cannot begin with `0`, that would be the flag); a precision `.`, `.digits` or
`.*`; one of the length modifiers hh h l ll j z t; a conversion character -/
def DirTxt.syntaxOk (d : DirTxt) : Bool :=
  d.flags.all flagChar &&
  (match d.width with
   | .lit ds => !ds.isEmpty && ds.all Char.isDigit && ds.head? != some '0'
   | _ => true) &&
  (match d.prec with
   | .lit ds => ds.all Char.isDigit
   | _ => true) &&
  d.len != .bigL && convChar d.conv

/-- the argument of an integer conversion has the type its length modifier names (LP64) -/
def intArg (len : Len) (args : List Arg) : Option (List Arg) :=
  match len, args with
  | .none, .int _ :: as | .hh, .int _ :: as | .h, .int _ :: as => some as
  | .l, .long _ :: as | .ll, .long _ :: as | .j, .long _ :: as | .z, .long _ :: as | .t, .long _ :: as => some as
  | _, _ => none

/-- `*` width: an int argument -/
def starWidthArg (w : NumTxt) (args : List Arg) : Option (List Arg) :=
  match w, args with
  | .star, .int _ :: as => some as
  | .star, _ => none
  | _, as => some as

/-- the precision in effect (`none`: omitted, or a negative `*` argument) and the arguments left -/
def effPrec (p : NumTxt) (args : List Arg) : Option (Option Nat × List Arg) :=
  match p, args with
  | .none, as => some (none, as)
  | .lit ds, as => some (some (decimal ds), as)
  | .star, .int v :: as => some (if v.toInt < 0 then none else some v.toInt.toNat, as)
  | .star, _ => none

/-- a `%s` argument: an array that holds a terminator, or at least as many
bytes as the precision in effect -/
def strArgOk (mem : List Char) (ep : Option Nat) : Bool :=
  mem.contains NUL || (match ep with | some p => decide (p ≤ mem.length) | none => false)

/-- ISO defines the directive on this argument list; result: the arguments left over -/
def DirTxt.accepts (d : DirTxt) (args : List Arg) : Option (List Arg) :=
  match starWidthArg d.width args with
  | none => none
  | some args =>
    match effPrec d.prec args with
    | none => none
    | some (ep, args) =>
      let c := d.conv
      let hash := d.flags.contains '#'
      let zero := d.flags.contains '0'
      if c = 'd' || c = 'i' || c = 'u' then
        -- "# … For other conversions, the behavior is undefined."
        if hash then none else intArg d.len args
      else if c = 'o' || c = 'x' || c = 'X' then intArg d.len args
      else if c = 'c' then
        -- `#`, `0`, a precision and (in this fragment) a length modifier are not defined for c
        if hash || zero || ep.isSome || d.len != .none then none else
        match args with
        | .int _ :: as => some as
        | _ => none
      else if c = 's' then
        if hash || zero || d.len != .none then none else
        match args with
        | .str mem :: as => if strArgOk mem ep then some as else none
        | _ => none
      else if c = 'p' then
        if hash || zero || ep.isSome || d.len != .none then none else
        match args with
        | .ptr _ :: as => some as
        | _ => none
      else if c = '%' then
        -- "The complete conversion specification shall be %%."
        if d.flags.isEmpty && d.width == .none && d.prec == .none && d.len == .none then some args else none
      else none

/-- a format is a sequence of literal pieces and directives -/
inductive Seg
  | text (cs : List Char)
  | dir (d : DirTxt)
  deriving DecidableEq, Repr

def Seg.render : Seg → List Char
  | .text cs => cs
  | .dir d => '%' :: d.body

def renderSegs (segs : List Seg) : List Char := (segs.map Seg.render).flatten

/-- every piece is well formed and the arguments fit, in order -/
def segsAccept : List Seg → List Arg → Bool
  | [], _ => true
  | .text cs :: segs, args => cs.all (fun c => c != '%' && c != NUL) && segsAccept segs args
  | .dir d :: segs, args =>
    d.syntaxOk &&
    (match d.accepts args with
     | none => false
     | some args => segsAccept segs args)

/-- "ISO C defines printf(fmt, args…)" for this fragment: `fmt` is the text of
some well formed sequence of pieces that the arguments fit -/
def IsoDefined (fmt : List Char) (args : List Arg) : Prop :=
  ∃ segs, renderSegs segs = fmt ∧ segsAccept segs args = true

end Igris.C06.Iso
