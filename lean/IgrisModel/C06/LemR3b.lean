/- C06 helper lemmas (round 3b): the print_i call of a directive (`printICall`), width and precision behind
`intGuard`, for the link theorem `loopN_print_i_ints` -/
import IgrisModel.C06.LemN
import IgrisModel.C06.Spec
namespace Igris.C06
open Iso

theorem pad_length' (m : Bool) (W : Nat) (b : List Char) : (pad m W b).length = max W b.length := by
  unfold pad; split <;> simp <;> omega

theorem getWidth_raw {s : List Char} {args : List Arg} {ops : Ops} {w : Int} {s1 : List Char} {a1 : List Arg} {o1 : Ops}
    (h : getWidth s args ops = some (w, s1, a1, o1)) :
    ∃ rw, rawWidth s args = some rw ∧ w = (if rw < 0 then -rw else rw) := by
  unfold getWidth at h
  unfold rawWidth
  by_cases hst : hd s = '*'
  · simp only [hst, if_true] at h ⊢
    cases hv : vaInt args with
    | none => simp [hv] at h
    | some q =>
      obtain ⟨v, as⟩ := q
      simp only [hv, Option.map_some] at h ⊢
      refine ⟨v.toInt, rfl, ?_⟩
      split at h <;> simp at h <;> obtain ⟨h1, _⟩ := h <;> subst h1 <;> split <;> omega
  · simp only [hst, if_false, Option.map_some] at h ⊢
    refine ⟨atoi s, rfl, ?_⟩
    split at h <;> simp at h <;> obtain ⟨h1, _⟩ := h <;> subst h1 <;> split <;> omega

theorem toInt32_range (v : BitVec 32) : -2147483648 ≤ v.toInt ∧ v.toInt ≤ 2147483647 := by
  have h1 := BitVec.toInt_lt (x := v)
  have h2 := BitVec.le_toInt (x := v)
  omega

theorem getPrec_raw {s : List Char} {args : List Arg} {ops : Ops} {p : Int} {s1 : List Char} {a1 : List Arg} {o1 : Ops}
    (h : getPrec s args ops = some (p, s1, a1, o1)) :
    (rawPrec s = none ∧ 0 ≤ p ∧ p ≤ INT_MAX) ∨ (∃ rp, rawPrec s = some rp ∧ p = (if rp ≥ 0 then rp else 0)) := by
  unfold getPrec at h
  unfold rawPrec
  simp only at h
  by_cases hdot : hd s = '.'
  · simp only [hdot, if_true] at h ⊢
    by_cases hst : hd s.tail = '*'
    · simp only [hst, if_true] at h ⊢
      left
      cases hv : vaInt args with
      | none => simp [hv] at h
      | some q =>
        obtain ⟨v, as⟩ := q
        simp only [hv, Option.map_some] at h
        have := toInt32_range v
        refine ⟨trivial, ?_⟩
        unfold INT_MAX
        split at h <;> simp at h <;> omega
    · simp only [hst, if_false] at h ⊢
      right
      simp only [Option.map_some] at h
      refine ⟨_, rfl, ?_⟩
      split at h <;> simp at h <;> obtain ⟨h1, _⟩ := h <;> subst h1 <;> split <;> omega
  · simp only [hdot, if_false] at h ⊢
    right
    simp only [Option.map_some] at h
    refine ⟨_, rfl, ?_⟩
    split at h <;> simp at h <;> obtain ⟨h1, _⟩ := h <;> subst h1 <;> split <;> omega

/-- behind the guard the width and the precision handed to print_i / print_s are nonnegative `int`s -/
theorem parseOpts_int_range {begin : List Char} {args : List Arg} {w p : Int} {s : List Char} {a : List Arg} {ops : Ops}
    (hg : intGuard begin args = false) (h : parseOpts begin args = some (w, p, s, a, ops)) :
    0 ≤ w ∧ w ≤ INT_MAX ∧ 0 ≤ p ∧ p ≤ INT_MAX := by
  unfold parseOpts at h
  unfold intGuard at hg
  simp only at h hg
  cases hw : getWidth (flagsLoop begin.tail {}).1 args (flagsLoop begin.tail {}).2 with
  | none => simp [hw] at h
  | some q =>
    obtain ⟨w1, s1, a1, o1⟩ := q
    simp only [hw] at h hg
    cases hp : getPrec s1 a1 o1 with
    | none => simp [hp] at h
    | some r =>
      obtain ⟨p1, s2, a2, o2⟩ := r
      simp only [hp, Option.some.injEq, Prod.mk.injEq] at h
      obtain ⟨hw1, hp1, _⟩ := h
      subst hw1 hp1
      obtain ⟨rw, hrw, hw2⟩ := getWidth_raw hw
      simp only [hrw, Bool.or_eq_false_iff, decide_eq_false_iff_not] at hg
      obtain ⟨hg1, hg2⟩ := hg
      unfold INT_MAX at hg1 hg2 ⊢
      rcases getPrec_raw hp with ⟨hn, h0, h1⟩ | ⟨rp, hrp, hp2⟩
      · unfold INT_MAX at h1
        refine ⟨?_, ?_, h0, h1⟩ <;> (subst hw2; split <;> omega)
      · simp only [hrp, decide_eq_false_iff_not] at hg2
        refine ⟨?_, ?_, ?_, ?_⟩
        · subst hw2; split <;> omega
        · subst hw2; split <;> omega
        · subst hp2; split <;> omega
        · subst hp2; split <;> omega


/-- the call `printICall` names IS the call `directive` makes: what print_i returns is what the pass emits -/
theorem directive_printICall {begin : List Char} {args : List Arg} {u : BitVec 64} {sg : Bool} {w m : Int}
    {ops : Ops} {base : Nat} {emit : List Char} {dpc : Int} {rest : List Char} {args' : List Arg}
    (hc : printICall begin args = some (u, sg, w, m, ops, base))
    (hdir : directive begin args = .ok emit dpc rest args') :
    printI u sg w m ops base = some (emit, dpc) ∧
      ∃ p s a o, parseOpts begin args = some (w, p, s, a, o) ∧ (m = p ∨ m = 16) := by
  rw [directive_eq] at hdir
  unfold printICall at hc
  cases hpo : parseOpts begin args with
  | none => simp [hpo] at hc
  | some q =>
    obtain ⟨width, precision, s, a, o⟩ := q
    simp only [hpo] at hc hdir
    unfold convert at hdir
    simp only at hc hdir
    split at hdir
    · -- '%'
      rename_i hpc
      exfalso
      simp only [hpc] at hc
      simp at hc
    split at hdir
    · -- d i
      rename_i hpc hdi
      rw [if_pos hdi] at hc
      split at hdir
      · cases hdir
      · rename_i u1 a1 hf
        simp only [hf, Option.map_some, Option.some.injEq, Prod.mk.injEq] at hc
        obtain ⟨rfl, rfl, rfl, rfl, rfl, rfl⟩ := hc
        obtain ⟨h1, _, _⟩ := fin_ok hdir
        exact ⟨h1, _, _, _, _, rfl, Or.inl rfl⟩
    split at hdir
    · rename_i hpc hdi huox
      rw [if_neg hdi, if_pos huox] at hc
      split at hdir
      · cases hdir
      · rename_i u1 a1 hf
        simp only [hf, Option.map_some, Option.some.injEq, Prod.mk.injEq] at hc
        obtain ⟨rfl, rfl, rfl, rfl, rfl, rfl⟩ := hc
        obtain ⟨h1, _, _⟩ := fin_ok hdir
        exact ⟨h1, _, _, _, _, rfl, Or.inl rfl⟩
    split at hdir
    · cases hdir
    split at hdir
    · -- c
      rename_i hpc hdi huox hfl hcc
      exfalso
      rw [if_neg hdi, if_neg huox, if_neg (by rw [hcc]; decide)] at hc
      cases hc
    split at hdir
    · rename_i hpc hdi huox hfl hcc hss
      exfalso
      rw [if_neg hdi, if_neg huox, if_neg (by rw [hss]; decide)] at hc
      cases hc
    split at hdir
    · rename_i hpc hdi huox hfl hcc hss hpp
      rw [if_neg hdi, if_neg huox, if_pos hpp] at hc
      split at hdir
      · rename_i v a1
        simp only [Option.some.injEq, Prod.mk.injEq] at hc
        obtain ⟨rfl, rfl, rfl, rfl, rfl, rfl⟩ := hc
        obtain ⟨h1, _, _⟩ := fin_ok hdir
        exact ⟨h1, _, _, _, _, rfl, Or.inr rfl⟩
      · cases hdir
    · rename_i hpc hdi huox hfl hcc hss hpp
      rw [if_neg hdi, if_neg huox, if_neg hpp] at hc
      cases hc


theorem printICall_not_n {begin : List Char} {args : List Arg} {r : BitVec 64 × Bool × Int × Int × Ops × Nat}
    (hc : printICall begin args = some r) :
    ∃ w p s a o, parseOpts begin args = some (w, p, s, a, o) ∧ hd s ≠ 'n' := by
  unfold printICall at hc
  cases hpo : parseOpts begin args with
  | none => simp [hpo] at hc
  | some q =>
    obtain ⟨w, p, s, a, o⟩ := q
    refine ⟨w, p, s, a, o, rfl, ?_⟩
    intro hn
    simp only [hpo] at hc
    simp only [hn] at hc
    revert hc
    simp (decide := true)

theorem printICall_params {begin : List Char} {args : List Arg} {u : BitVec 64} {sg : Bool} {w m : Int}
    {ops : Ops} {base : Nat} (hc : printICall begin args = some (u, sg, w, m, ops, base)) :
    ∃ p s a o, parseOpts begin args = some (w, p, s, a, o) ∧ (m = p ∨ m = 16) := by
  unfold printICall at hc
  cases hpo : parseOpts begin args with
  | none => simp [hpo] at hc
  | some q =>
    obtain ⟨w1, p1, s, a, o⟩ := q
    simp only [hpo] at hc
    split at hc
    · simp only [Option.map_eq_some_iff] at hc
      obtain ⟨⟨u1, a1⟩, _, hc⟩ := hc
      simp only [Prod.mk.injEq] at hc
      obtain ⟨_, _, rfl, rfl, _, _⟩ := hc
      exact ⟨_, _, _, _, rfl, Or.inl rfl⟩
    split at hc
    · simp only [Option.map_eq_some_iff] at hc
      obtain ⟨⟨u1, a1⟩, _, hc⟩ := hc
      simp only [Prod.mk.injEq] at hc
      obtain ⟨_, _, rfl, rfl, _, _⟩ := hc
      exact ⟨_, _, _, _, rfl, Or.inl rfl⟩
    split at hc
    · split at hc
      · simp only [Option.some.injEq, Prod.mk.injEq] at hc
        obtain ⟨_, _, rfl, rfl, _, _⟩ := hc
        exact ⟨_, _, _, _, rfl, Or.inr rfl⟩
      · cases hc
    · cases hc

end Igris.C06
