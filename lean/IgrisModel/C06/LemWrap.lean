/- C06 helper lemmas: the callbacks of sprintf.c (`sprint_printchar`,
   `snprint_printchar`) folded over the characters `__printf` emits -/
import IgrisModel.C06.Model
namespace Igris.C06

theorem set_at_append (pre : List Char) (f c : Char) (rest : List Char) :
    (pre ++ f :: rest).set pre.length c = pre ++ c :: rest := by
  induction pre with
  | nil => rfl
  | cons a as ih => simp [ih]

theorem drop_append_len (a b : List Char) (j : Nat) : (a ++ b).drop (a.length + j) = b.drop j := by
  induction a with
  | nil => simp
  | cons x xs ih => simpa [Nat.succ_add] using ih

theorem drop_after_term (T mem : List Char) (c n : Nat) (hT : T.length = c) (hc : c + 1 ≤ n) :
    (T ++ NUL :: mem.drop (c + 1)).drop n = mem.drop n := by
  obtain ⟨j, rfl⟩ : ∃ j, n = T.length + (j + 1) := ⟨n - c - 1, by omega⟩
  rw [drop_append_len, List.drop_succ_cons, List.drop_drop]
  congr 1
  omega

theorem foldl_snPut_none (out : List Char) : out.foldl snPut none = none := by
  induction out with
  | nil => rfl
  | cons c cs ih => simpa [snPut] using ih

theorem foldl_sprintPut_none (out : List Char) : out.foldl sprintPut none = none := by
  induction out with
  | nil => rfl
  | cons c cs ih => simpa [sprintPut] using ih

/-- `snprint_printchar` over the whole output: the memory is `pre ++ free ++
post` with the cursor behind `pre` and `room = |free|` -/
theorem foldl_snPut (out pre free post : List Char) :
    out.foldl snPut (some { mem := pre ++ free ++ post, cursor := pre.length, room := free.length })
      = some { mem := pre ++ out.take free.length ++ free.drop out.length ++ post,
               cursor := pre.length + min free.length out.length, room := free.length - out.length } := by
  induction out generalizing pre free with
  | nil => simp
  | cons c cs ih =>
    cases free with
    | nil =>
      have hstep : snPut (some { mem := pre ++ [] ++ post, cursor := pre.length, room := ([] : List Char).length }) c
          = some { mem := pre ++ [] ++ post, cursor := pre.length, room := ([] : List Char).length } := by
        simp [snPut]
      rw [List.foldl_cons, hstep, ih pre []]
      simp
    | cons f fs =>
      have hstep : snPut (some { mem := pre ++ f :: fs ++ post, cursor := pre.length, room := (f :: fs).length }) c
          = some { mem := (pre ++ [c]) ++ fs ++ post, cursor := (pre ++ [c]).length, room := fs.length } := by
        have hlt : pre.length < (pre ++ f :: fs ++ post).length := by simp
        have hset : (pre ++ f :: fs ++ post).set pre.length c = pre ++ [c] ++ fs ++ post := by
          have := set_at_append pre f c (fs ++ post)
          simp [this]
        simp only [snPut, List.length_cons, ne_eq, Nat.add_one_ne_zero, not_false_eq_true, ↓reduceIte, hlt, hset]
        simp
      rw [List.foldl_cons, hstep, ih (pre ++ [c]) fs]
      simp only [List.length_append, List.length_cons, List.length_nil, List.take_succ_cons, List.drop_succ_cons,
        Option.some.injEq, SnData.mk.injEq]
      refine ⟨by simp [List.append_assoc], by omega, by omega⟩

/-- the same with the memory given as one list -/
theorem foldl_snPut' (out mem : List Char) (room : Nat) (h : room ≤ mem.length) :
    out.foldl snPut (some { mem := mem, cursor := 0, room := room })
      = some { mem := out.take room ++ mem.drop (min room out.length),
               cursor := min room out.length, room := room - out.length } := by
  have hl : (mem.take room).length = room := by simp [List.length_take, Nat.min_eq_left h]
  have := foldl_snPut out [] (mem.take room) (mem.drop room)
  simp only [List.nil_append, List.take_append_drop, List.length_nil, hl, Nat.zero_add] at this
  rw [this]
  congr 2
  by_cases hle : out.length ≤ room
  · rw [Nat.min_eq_right hle]
    have h1 : List.drop out.length mem = List.drop out.length (mem.take room ++ mem.drop room) := by
      rw [List.take_append_drop]
    rw [h1, List.drop_append_of_le_length (by rw [hl]; exact hle)]
    simp [List.append_assoc]
  · have hge : room ≤ out.length := by omega
    rw [Nat.min_eq_left hge]
    have : List.drop out.length (mem.take room) = [] := by
      apply List.drop_of_length_le; rw [hl]; exact hge
    simp [this]

/-- `sprint_printchar` over the whole output when it fits -/
theorem foldl_sprintPut (out pre free : List Char) (h : out.length ≤ free.length) :
    out.foldl sprintPut (some { mem := pre ++ free, cursor := pre.length })
      = some { mem := pre ++ out ++ free.drop out.length, cursor := pre.length + out.length } := by
  induction out generalizing pre free with
  | nil => simp
  | cons c cs ih =>
    cases free with
    | nil => simp at h
    | cons f fs =>
      have hstep : sprintPut (some { mem := pre ++ f :: fs, cursor := pre.length }) c
          = some { mem := (pre ++ [c]) ++ fs, cursor := (pre ++ [c]).length } := by
        have hlt : pre.length < (pre ++ f :: fs).length := by simp
        simp only [sprintPut, hlt, ↓reduceIte, set_at_append]
        simp
      rw [List.foldl_cons, hstep, ih (pre ++ [c]) fs (by simpa using h)]
      simp only [List.length_append, List.length_cons, List.length_nil, List.drop_succ_cons,
        Option.some.injEq, Cursor.mk.injEq]
      refine ⟨by simp [List.append_assoc], by omega⟩

/-- … and when it does not: the store behind the allocation is a fault -/
theorem foldl_sprintPut_fault (out pre free : List Char) (h : free.length < out.length) :
    out.foldl sprintPut (some { mem := pre ++ free, cursor := pre.length }) = none := by
  induction out generalizing pre free with
  | nil => simp at h
  | cons c cs ih =>
    cases free with
    | nil =>
      have hstep : sprintPut (some { mem := pre ++ [], cursor := pre.length }) c = none := by
        simp [sprintPut]
      rw [List.foldl_cons, hstep, foldl_sprintPut_none]
    | cons f fs =>
      have hstep : sprintPut (some { mem := pre ++ f :: fs, cursor := pre.length }) c
          = some { mem := (pre ++ [c]) ++ fs, cursor := (pre ++ [c]).length } := by
        have hlt : pre.length < (pre ++ f :: fs).length := by simp
        simp only [sprintPut, hlt, ↓reduceIte, set_at_append]
        simp
      rw [List.foldl_cons, hstep, ih (pre ++ [c]) fs (by simpa using h)]

/-- `vsnprintf` in closed form -/
theorem vsnprintf_done (mem : List Char) (n : Nat) (fmt : List Char) (args : List Arg) (out : List Char) (pc : Int)
    (h : printf fmt args = .done out pc) (hn : n ≤ mem.length) :
    vsnprintf mem n fmt args
      = some (if n = 0 then mem else out.take (n - 1) ++ NUL :: mem.drop (min (n - 1) out.length + 1), pc) := by
  unfold vsnprintf
  rw [h]
  cases n with
  | zero =>
    simp only [ne_eq, not_true_eq_false, ↓reduceIte]
    rw [foldl_snPut' out mem 0 (by omega)]
    simp
  | succ k =>
    simp only [ne_eq, Nat.add_one_ne_zero, not_false_eq_true, ↓reduceIte, Nat.add_sub_cancel]
    rw [foldl_snPut' out mem k (by omega)]
    simp only []
    have hc : min k out.length < mem.length := by omega
    have hlen : (out.take k).length = min k out.length := by simp [List.length_take]
    have hd : mem.drop (min k out.length) = mem[min k out.length] :: mem.drop (min k out.length + 1) :=
      List.drop_eq_getElem_cons hc
    have hlt : min k out.length < (out.take k ++ mem.drop (min k out.length)).length := by
      rw [List.length_append, hlen, List.length_drop]; omega
    rw [if_pos hlt]
    congr 2
    rw [hd]
    have := set_at_append (out.take k) mem[min k out.length] NUL (mem.drop (min k out.length + 1))
    rw [hlen] at this
    exact this

/-- `vsprintf` on a destination of known extent, in closed form -/
theorem vsprintfMem_done (mem : List Char) (fmt : List Char) (args : List Arg) (out : List Char) (pc : Int)
    (h : printf fmt args = .done out pc) :
    vsprintfMem mem fmt args
      = if out.length < mem.length then some (out ++ NUL :: mem.drop (out.length + 1), pc) else none := by
  unfold vsprintfMem
  rw [h]
  simp only []
  by_cases hlt : out.length < mem.length
  · rw [if_pos hlt]
    have := foldl_sprintPut out [] mem (by omega)
    simp only [List.nil_append, List.length_nil, Nat.zero_add] at this
    rw [this]
    simp only []
    have hd : mem.drop out.length = mem[out.length] :: mem.drop (out.length + 1) := List.drop_eq_getElem_cons hlt
    have hl2 : out.length < (out ++ mem.drop out.length).length := by
      rw [List.length_append, List.length_drop]; omega
    rw [if_pos hl2]
    congr 2
    rw [hd]
    exact set_at_append out mem[out.length] NUL (mem.drop (out.length + 1))
  · rw [if_neg hlt]
    by_cases heq : out.length = mem.length
    · have := foldl_sprintPut out [] mem (by omega)
      simp only [List.nil_append, List.length_nil, Nat.zero_add] at this
      rw [this]
      simp only []
      have : ¬ out.length < (out ++ mem.drop out.length).length := by
        rw [List.length_append, List.length_drop]; omega
      rw [if_neg this]
    · have := foldl_sprintPut_fault out [] mem (by omega)
      simp only [List.nil_append, List.length_nil] at this
      rw [this]

end Igris.C06
