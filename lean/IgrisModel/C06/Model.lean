/-
  C06 — executable model of igris/util/printf_impl.c (`__printf`, `print_i`,
  `print_s`) for the conversions d i u o x X c s p %, and of the wrappers in
  compat/libc/stdio/sprintf.c and fdprintf.c.

  The definitions follow the C text statement by statement (the C line is
  quoted next to each step).  Conventions:
    * the `format` pointer is the list of characters still ahead of it; reading
      `*format` at the end of the list yields the terminator NUL (`hd`);
    * `ops` (a bit mask in C) is a record of independent booleans plus the
      length-modifier bit (the parser sets at most one per directive);
    * C `int` quantities that the code computes with (width, precision, the
      *_count variables, pc) are `Int`; argument values are `BitVec 32/64`
      and every conversion the code performs on them is written out;
    * the callback is modelled by the list of characters handed to it; the
      code's own `pc` bookkeeping is kept separately from that list;
    * a `%s` argument is the exact list of readable bytes of its allocation;
      a read behind it is `fault`.
  Platform facts used (asserted by the harness): LP64, `char` signed.
  Core Lean only.
-/
namespace Igris.C06

/-- `OPS_LEN_*`: the parser sets at most one of these bits per directive -/
inductive Len
  | none | hh | h | l | ll | j | z | t | bigL
  deriving DecidableEq, Repr

/-- the `ops` bit mask -/
structure Ops where
  left : Bool := false   -- OPS_FLAG_LEFT_ALIGN
  sign : Bool := false   -- OPS_FLAG_WITH_SIGN
  space : Bool := false  -- OPS_FLAG_EXTRA_SPACE
  spec : Bool := false   -- OPS_FLAG_WITH_SPEC
  zero : Bool := false   -- OPS_FLAG_ZERO_PAD
  prec : Bool := false   -- OPS_PREC_IS_GIVEN
  upper : Bool := false  -- OPS_SPEC_UPPER_CASE
  ptr : Bool := false    -- OPS_SPEC_POINTER
  chr : Bool := false    -- OPS_SPEC_CHAR
  len : Len := .none     -- OPS_LEN_*
  deriving DecidableEq, Repr

/-- one variadic argument, by the C type it was passed with (LP64) -/
inductive Arg
  | int (v : BitVec 32)     -- int / unsigned int (and the promoted char, short)
  | long (v : BitVec 64)    -- long, long long, intmax_t, size_t, ptrdiff_t and unsigned
  | ptr (v : BitVec 64)     -- void *
  | str (mem : List Char)   -- char * to an allocation holding exactly these bytes
  | null                    -- (char *)0
  deriving DecidableEq, Repr

inductive Outcome
  | done (out : List Char) (pc : Int)  -- characters handed to the callback, returned value
  | fault        -- a %s argument was read outside its allocation, or print_i's buffer overflowed
  | badarg       -- va_arg does not find an argument of the expected type (undefined in C)
  | unsupported  -- f F e E g G a A (property C13) and n: outside this model
  | diverged     -- fuel exhausted (non-termination)
  deriving DecidableEq, Repr

def NUL : Char := Char.ofNat 0

/-- `*format` -/
def hd (s : List Char) : Char := s.headD NUL

/-- `isspace` in the C locale (used by `atoi`) -/
def isSpaceC (c : Char) : Bool := c = ' ' || (9 ≤ c.toNat && c.toNat ≤ 13)

/-! ### atoi (libc, textbook meaning; overflow is undefined and not modelled) -/

def atoiDigits : List Char → Int → Int
  | [], acc => acc
  | c :: cs, acc => if c.isDigit then atoiDigits cs (acc * 10 + ((c.toNat : Int) - 48)) else acc

def atoiSign : List Char → Int
  | '-' :: cs => - atoiDigits cs 0
  | '+' :: cs => atoiDigits cs 0
  | s => atoiDigits s 0

def atoi : List Char → Int
  | [] => 0
  | c :: cs => if isSpaceC c then atoi cs else atoiSign (c :: cs)

/-- `char c = *format; while (isdigit(c)) c = *++format;` -/
def skipDigits : List Char → List Char
  | [] => []
  | c :: cs => if c.isDigit then skipDigits cs else c :: cs

/-! ### strlen / strnlen on an exactly sized allocation -/

/-- `strlen(str)`: `none` = a byte behind the allocation was read -/
def strlen : List Char → Option Nat
  | [] => none
  | c :: cs => if c = NUL then some 0 else (strlen cs).map (· + 1)

/-- `strnlen(str, maxlen)` -/
def strnlen : List Char → Nat → Option Nat
  | _, 0 => some 0
  | [], _ + 1 => none
  | c :: cs, n + 1 => if c = NUL then some 0 else (strnlen cs n).map (· + 1)

/-! ### print_s -/

/-- `print_s(handler, data, str, width, max_len, ops)`; result: emitted characters and `pc` -/
def printS (mem : List Char) (width maxLen : Int) (ops : Ops) : Option (List Char × Int) :=
  -- len = ops & OPS_SPEC_CHAR ? 1 : ops & OPS_PREC_IS_GIVEN ? (int)strnlen(str, max_len) : (int)strlen(str);
  -- (with OPS_SPEC_CHAR nothing is measured; the emission loop below reads `str[0]`)
  match (if ops.chr then (if 1 ≤ mem.length then some 1 else none)
         else if ops.prec then strnlen mem maxLen.toNat else strlen mem) with
  | none => none
  | some n =>
    let len : Int := n
    -- space_count = width > len ? width - len : 0;
    let spaceCount : Int := if width > len then width - len else 0
    -- if (!(ops & OPS_FLAG_LEFT_ALIGN)) { pc += space_count; for (; space_count; --space_count) handler(' '); }
    let (out, pc, spaceCount) :=
      if !ops.left then (List.replicate spaceCount.toNat ' ', (0 : Int) + spaceCount, (0 : Int))
      else ([], (0 : Int), spaceCount)
    -- pc += len; while (len--) handler(*str++);
    let pc := pc + len
    let out := out ++ mem.take n
    -- pc += space_count; while (space_count--) handler(' ');
    let pc := pc + spaceCount
    let out := out ++ List.replicate spaceCount.toNat ' '
    some (out, pc)

/-! ### print_i -/

/-- `PRINT_I_BUFF_SZ` -/
def PRINT_I_BUFF_SZ : Nat := 23

/-- `ch = u % base; if (ch >= 10) ch += letter_base - 10 - '0'; *--str = ch + '0';` -/
def digitOf (u base : Nat) (letterBase : Nat) : Char :=
  let ch := u % base
  let ch := if ch ≥ 10 then ch + (letterBase - 10 - 48) else ch
  Char.ofNat (ch + 48)

/-- `do { …; *--str = …; u /= base; } while (u);` — `room` is the number of
bytes still free in front of `str` in `buff`; `none` = the buffer overflowed -/
def digitLoop (base letterBase : Nat) : (room : Nat) → (u : Nat) → (acc : List Char) → Option (List Char)
  | 0, _, _ => none
  | room + 1, u, acc =>
    let acc := digitOf u base letterBase :: acc
    let u := u / base
    if u ≠ 0 then digitLoop base letterBase room u acc else some acc

/-- `print_i(handler, data, u, is_signed, width, min_len, ops, base)` -/
def printI (u : BitVec 64) (isSigned : Bool) (width minLen : Int) (ops : Ops) (base : Nat) :
    Option (List Char × Int) :=
  -- prefix = is_signed && ((long long)u < 0) ? (u = -u, "-") : is_signed && (ops & WITH_SIGN) ? "+" : …
  let neg := isSigned && u.msb
  let u := if neg then -u else u
  let pfx : List Char :=
    if neg then ['-']
    else if isSigned && ops.sign then ['+']
    else if isSigned && ops.space then [' ']
    -- : (base == 8) && (ops & WITH_SPEC) && (u || (!min_len && (ops & PREC_IS_GIVEN))) ? "0"
    else if base = 8 && ops.spec && (u ≠ 0 || (minLen = 0 && ops.prec)) then ['0']
    -- : (base == 16) && (ops & WITH_SPEC) && (u || (ops & OPS_SPEC_POINTER)) ? upper ? "0X" : "0x" : ""
    else if base = 16 && ops.spec && (u ≠ 0 || ops.ptr) then (if ops.upper then ['0', 'X'] else ['0', 'x'])
    else []
  let prefixLen : Int := pfx.length
  -- letter_base = ops & OPS_SPEC_UPPER_CASE ? 'A' : 'a';
  let letterBase : Nat := if ops.upper then 65 else 97
  -- if (u || min_len || !(ops & OPS_PREC_IS_GIVEN)) do { … } while (u);
  let digits? : Option (List Char) :=
    if u ≠ 0 || minLen ≠ 0 || !ops.prec then digitLoop base letterBase (PRINT_I_BUFF_SZ - 1) u.toNat []
    else some []
  match digits? with
  | none => none
  | some digits =>
    -- len = (int)(end - str);
    let len : Int := digits.length
    -- zero_count = (len < min_len ? min_len + (base == 8 ? 0 : prefix_len)
    --               : (ops & ZERO_PAD) && !(ops & (LEFT_ALIGN | PREC_IS_GIVEN)) ? width : 0) - len - prefix_len;
    let zeroCount : Int :=
      (if len < minLen then minLen + (if base = 8 then 0 else prefixLen)
       else if ops.zero && !(ops.left || ops.prec) then width else 0) - len - prefixLen
    -- zero_count = MAX(zero_count, 0);
    let zeroCount := max zeroCount 0
    -- space_count = width - len - prefix_len - zero_count; space_count = MAX(space_count, 0);
    let spaceCount := max (width - len - prefixLen - zeroCount) 0
    -- if (!(ops & LEFT_ALIGN)) { pc += space_count; for (; space_count; --space_count) handler(' '); }
    let (out, pc, spaceCount) :=
      if !ops.left then (List.replicate spaceCount.toNat ' ', (0 : Int) + spaceCount, (0 : Int))
      else ([], (0 : Int), spaceCount)
    -- pc += prefix_len; while (prefix_len--) handler(*prefix++);
    let pc := pc + prefixLen
    let out := out ++ pfx
    -- pc += zero_count; while (zero_count--) handler('0');
    let pc := pc + zeroCount
    let out := out ++ List.replicate zeroCount.toNat '0'
    -- pc += len; while (len--) handler(*str++);
    let pc := pc + len
    let out := out ++ digits
    -- pc += space_count; while (space_count--) handler(' ');
    let pc := pc + spaceCount
    let out := out ++ List.replicate spaceCount.toNat ' '
    some (out, pc)

/-! ### the directive parser of `__printf` -/

/-- `while (*++format) switch (*format) { default: goto after_flags; case '-': … }` -/
def flagsLoop : List Char → Ops → List Char × Ops
  | [], ops => ([], ops)
  | c :: cs, ops =>
    if c = '-' then flagsLoop cs { ops with left := true }
    else if c = '+' then flagsLoop cs { ops with sign := true }
    else if c = ' ' then flagsLoop cs { ops with space := true }
    else if c = '#' then flagsLoop cs { ops with spec := true }
    else if c = '0' then flagsLoop cs { ops with zero := true }
    else (c :: cs, ops)

/-- `va_arg(args, int)` -/
def vaInt : List Arg → Option (BitVec 32 × List Arg)
  | .int v :: as => some (v, as)
  | _ => none

/-- `va_arg(args, T)` for the 64-bit integer types -/
def vaLong : List Arg → Option (BitVec 64 × List Arg)
  | .long v :: as => some (v, as)
  | _ => none

/-- "get width" -/
def getWidth (s : List Char) (args : List Arg) (ops : Ops) : Option (Int × List Char × List Arg × Ops) :=
  let r : Option (Int × List Char × List Arg) :=
    if hd s = '*' then
      -- width = va_arg(args, int); ++format;
      (vaInt args).map fun (v, as) => (v.toInt, s.tail, as)
    else
      -- width = atoi(format); char c = *format; while (isdigit(c)) c = *++format;
      some (atoi s, skipDigits s, args)
  r.map fun (width, s, args) =>
    -- if (width < 0) { ops |= OPS_FLAG_LEFT_ALIGN; width = -width; }
    if width < 0 then (-width, s, args, { ops with left := true }) else (width, s, args, ops)

/-- "get precision" -/
def getPrec (s : List Char) (args : List Arg) (ops : Ops) : Option (Int × List Char × List Arg × Ops) :=
  -- ops |= *format == '.' ? OPS_PREC_IS_GIVEN : 0;
  let ops := if hd s = '.' then { ops with prec := true } else ops
  -- if ((*format == '.') && (*++format == '*')) { precision = va_arg(args, int); ++format; }
  -- else { precision = atoi(format); char c = *format; while (isdigit(c)) c = *++format; }
  let r : Option (Int × List Char × List Arg) :=
    if hd s = '.' then
      let s := s.tail
      if hd s = '*' then (vaInt args).map fun (v, as) => (v.toInt, s.tail, as)
      else some (atoi s, skipDigits s, args)
    else some (atoi s, skipDigits s, args)
  r.map fun (precision, s, args) =>
    -- precision = precision >= 0 ? precision : (ops &= ~OPS_PREC_IS_GIVEN, 0);
    if precision ≥ 0 then (precision, s, args, ops) else (0, s, args, { ops with prec := false })

/-- "get length" -/
def getLen (s : List Char) (ops : Ops) : List Char × Ops :=
  let c := hd s
  if c = 'h' then
    -- ops |= *++format != 'h' ? OPS_LEN_SHORT : (++format, OPS_LEN_MIN);
    if hd s.tail ≠ 'h' then (s.tail, { ops with len := .h }) else (s.tail.tail, { ops with len := .hh })
  else if c = 'l' then
    if hd s.tail ≠ 'l' then (s.tail, { ops with len := .l }) else (s.tail.tail, { ops with len := .ll })
  else if c = 'j' then (s.tail, { ops with len := .j })
  else if c = 'z' then (s.tail, { ops with len := .z })
  else if c = 't' then (s.tail, { ops with len := .t })
  else if c = 'L' then (s.tail, { ops with len := .bigL })
  else (s, ops)

/-- argument fetch of `case 'd': case 'i':` -/
def fetchSigned (len : Len) (args : List Arg) : Option (BitVec 64 × List Arg) :=
  match len with
  | .hh => (vaInt args).map fun (v, as) => ((v.truncate 8).signExtend 64, as)   -- (signed char)va_arg(args, int)
  | .h => (vaInt args).map fun (v, as) => ((v.truncate 16).signExtend 64, as)   -- (short int)va_arg(args, int)
  | .l | .ll | .j | .z | .t => vaLong args
  | .none | .bigL => (vaInt args).map fun (v, as) => (v.signExtend 64, as)      -- va_arg(args, int)

/-- argument fetch of `case 'u': case 'o': case 'x': case 'X':` -/
def fetchUnsigned (len : Len) (args : List Arg) : Option (BitVec 64 × List Arg) :=
  match len with
  | .hh => (vaInt args).map fun (v, as) => ((v.truncate 8).zeroExtend 64, as)   -- (unsigned char)va_arg(args, unsigned int)
  | .h => (vaInt args).map fun (v, as) => ((v.truncate 16).zeroExtend 64, as)   -- (unsigned short)va_arg(args, unsigned int)
  | .l | .ll | .j | .z | .t => vaLong args
  | .none | .bigL => (vaInt args).map fun (v, as) => (v.zeroExtend 64, as)      -- va_arg(args, unsigned int)

/-- what one pass of the `for` body does after a `%` was seen -/
inductive Step
  | ok (emit : List Char) (pc : Int) (rest : List Char) (args : List Arg)
  | fault | badarg | unsupported
  deriving DecidableEq, Repr

def PRINT_S_NULL_STR : List Char := "(null)".toList ++ [NUL]

/-- "handle specifier": `begin` is the directive text from its `%`, `s` the
position of `format`; the returned `rest` is where `++format` of the `for`
statement lands -/
def convert (begin s : List Char) (args : List Arg) (width precision : Int) (ops : Ops) : Step :=
  -- char c = *format; ops |= isupper(c) ? OPS_SPEC_UPPER_CASE : 0;
  let c := hd s
  let ops := if c.isUpper then { ops with upper := true } else ops
  let fin (r : Option (List Char × Int)) (args : List Arg) : Step :=
    match r with
    | none => .fault
    | some (out, pc) => .ok out pc s.tail args
  if c = '%' then
    -- goto single_print: ++pc; handler(*format);
    .ok ['%'] 1 s.tail args
  else if c = 'd' || c = 'i' then
    match fetchSigned ops.len args with
    | none => .badarg
    | some (u, args) => fin (printI u true width precision ops 10) args
  else if c = 'u' || c = 'o' || c = 'x' || c = 'X' then
    match fetchUnsigned ops.len args with
    | none => .badarg
    | some (u, args) => fin (printI u false width precision ops (if c = 'u' then 10 else if c = 'o' then 8 else 16)) args
  else if c = 'f' || c = 'F' || c = 'e' || c = 'E' || c = 'g' || c = 'G' || c = 'a' || c = 'A' || c = 'n' then
    .unsupported
  else if c = 'c' then
    -- tmp.ca[0] = (char)va_arg(args, int); tmp.ca[1] = '\0'; print_s(…, &tmp.ca[0], width, precision, ops | OPS_SPEC_CHAR)
    match vaInt args with
    | none => .badarg
    | some (v, args) => fin (printS [Char.ofNat (v.toNat % 256), NUL] width precision { ops with chr := true }) args
  else if c = 's' then
    -- tmp.cp = va_arg(args, char *); print_s(…, tmp.cp ? tmp.cp : PRINT_S_NULL_STR, …)
    match args with
    | .str mem :: args => fin (printS mem width precision ops) args
    | .null :: args => fin (printS PRINT_S_NULL_STR width precision ops) args
    | _ => .badarg
  else if c = 'p' then
    -- print_i(…, (size_t)tmp.vp, 0, width, sizeof tmp.vp * 2, ops | (WITH_SPEC | PREC_IS_GIVEN | OPS_SPEC_POINTER), 16)
    match args with
    | .ptr v :: args => fin (printI v false width 16 { ops with spec := true, prec := true, ptr := true } 16) args
    | _ => .badarg
  else
    -- default: if (!c) --format; pc += (int)(format - begin + 1);
    --          do handler(*begin); while (++begin <= format);
    let s' := if c = NUL then s else s.tail           -- where `++format` of the for statement lands
    let n := begin.length - s'.length                 -- format - begin + 1
    .ok (begin.take n) n s' args

/-- the body of the `for` loop for `*format == '%'`; `begin` starts at the `%` -/
def directive (begin : List Char) (args : List Arg) : Step :=
  -- ops = 0; get flags
  let (s, ops) := flagsLoop begin.tail {}
  match getWidth s args ops with
  | none => .badarg
  | some (width, s, args, ops) =>
    match getPrec s args ops with
    | none => .badarg
    | some (precision, s, args, ops) =>
      let (s, ops) := getLen s ops
      convert begin s args width precision ops

/-- `for (begin = format; *format; begin = ++format) { … }`, `fuel` bounds the
number of passes through the body -/
def loop : Nat → List Char → List Arg → List Char → Int → Outcome
  | _, [], _, out, pc => .done out pc
  | 0, _ :: _, _, _, _ => .diverged
  | fuel + 1, c :: cs, args, out, pc =>
    if c = NUL then .done out pc    -- `*format` is false (only if the list carries its terminator)
    else if c ≠ '%' then
      -- single_print: ++pc; handler(*format); continue;
      loop fuel cs args (out ++ [c]) (pc + 1)
    else
      match directive (c :: cs) args with
      | .ok emit dpc rest args => loop fuel rest args (out ++ emit) (pc + dpc)
      | .fault => .fault
      | .badarg => .badarg
      | .unsupported => .unsupported

/-- `__printf(handler, data, format, args)`: every pass consumes at least one
character of the format, so `length + 1` passes always suffice
(`printf_terminates`) -/
def printf (format : List Char) (args : List Arg) : Outcome :=
  loop (format.length + 1) format args [] 0

/-! ### the wrappers -/

/-- compat/libc/stdio/sprintf.c `vsprintf` / `sprintf`: buffer contents and returned value -/
def vsprintf (format : List Char) (args : List Arg) : Option (List Char × Int) :=
  match printf format args with
  | .done out pc => some (out ++ [NUL], pc)   -- *data.cursor = 0;
  | _ => none

/-- compat/libc/stdio/fdprintf.c `vfdprintf` with an `fdputc` that starts
failing (returning `err < 0`) once `limit` characters were written -/
def vfdprintf (limit : Option Nat) (err : Int) (format : List Char) (args : List Arg) : Option (List Char × Int) :=
  match printf format args with
  | .done out pc =>
    match limit with
    | some l => if out.length > l then some (out.take l, err) else some (out, pc)
    | none => some (out, pc)
  | _ => none

/-- compat/libc/stdio/sprintf.c `sprintf`: `va_start(args, format); ret =
vsprintf(buf, format, args); va_end(args); return ret;` -/
def sprintf (format : List Char) (args : List Arg) : Option (List Char × Int) :=
  vsprintf format args

/-- compat/libc/stdio/fdprintf.c `fdprintf`: `va_start(args, format); ret =
vfdprintf(fd, format, args); va_end(args); return ret;` -/
def fdprintf (limit : Option Nat) (err : Int) (format : List Char) (args : List Arg) : Option (List Char × Int) :=
  vfdprintf limit err format args

/-- `struct sprint_char_handler_data` with the destination as an explicit
memory: `mem` is the caller's allocation, `cursor` an index into it -/
structure Cursor where
  mem : List Char
  cursor : Nat
  deriving DecidableEq, Repr

/-- `sprint_printchar`: `*(data->cursor)++ = c;` — a store behind the allocation is `none` -/
def sprintPut (st : Option Cursor) (c : Char) : Option Cursor :=
  match st with
  | none => none
  | some st =>
    if st.cursor < st.mem.length then some { mem := st.mem.set st.cursor c, cursor := st.cursor + 1 } else none

/-- `vsprintf(s, format, ap)` on a destination of known extent: `data.cursor =
s; ret = __printf(sprint_printchar, &data, format, ap); *data.cursor = 0;` -/
def vsprintfMem (mem : List Char) (format : List Char) (args : List Arg) : Option (List Char × Int) :=
  match printf format args with
  | .done out pc =>
    match out.foldl sprintPut (some { mem := mem, cursor := 0 }) with
    | none => none
    | some st => if st.cursor < st.mem.length then some (st.mem.set st.cursor NUL, pc) else none
  | _ => none

/-- `struct snprint_char_handler_data { char *cursor; size_t room; }` -/
structure SnData where
  mem : List Char
  cursor : Nat
  room : Nat
  deriving DecidableEq, Repr

/-- `snprint_printchar`: `if (data->room) { *data->cursor++ = c; --data->room; }` -/
def snPut (st : Option SnData) (c : Char) : Option SnData :=
  match st with
  | none => none
  | some st =>
    if st.room ≠ 0 then
      if st.cursor < st.mem.length then
        some { mem := st.mem.set st.cursor c, cursor := st.cursor + 1, room := st.room - 1 }
      else none
    else some st

/-- `vsnprintf(s, n, format, ap)`: `data.cursor = s; data.room = n ? n - 1 : 0;
ret = __printf(snprint_printchar, &data, format, ap); if (n) *data.cursor = 0;
return ret;` — `mem` is the caller's allocation (its extent need not be `n`) -/
def vsnprintf (mem : List Char) (n : Nat) (format : List Char) (args : List Arg) : Option (List Char × Int) :=
  match printf format args with
  | .done out pc =>
    match out.foldl snPut (some { mem := mem, cursor := 0, room := if n ≠ 0 then n - 1 else 0 }) with
    | none => none
    | some st =>
      if n ≠ 0 then
        if st.cursor < st.mem.length then some (st.mem.set st.cursor NUL, pc) else none
      else some (st.mem, pc)
  | _ => none

/-- `snprintf(buf, maxlen, format, ...)`: `va_start; ret = vsnprintf(buf,
maxlen, format, args); va_end; return ret;` -/
def snprintf (mem : List Char) (n : Nat) (format : List Char) (args : List Arg) : Option (List Char × Int) :=
  vsnprintf mem n format args

/-! ### the code as it was before the `fix:` commits (for the witness theorems) -/

/-- `snprintf` before `fix: snprintf honours its size argument`:
`(void) maxlen; //TODO … ret = vsprintf(buf, format, args);` -/
def snprintfOrig (mem : List Char) (_n : Nat) (format : List Char) (args : List Arg) : Option (List Char × Int) :=
  vsprintfMem mem format args

/-- `char c = *format; while (isdigit(c)) ++format;` — `c` is never re-read -/
def skipDigitsOrig : Nat → Char → List Char → Option (List Char)
  | 0, c, s => if c.isDigit then none else some s
  | fuel + 1, c, s => if c.isDigit then skipDigitsOrig fuel c s.tail else some s

/-- `u = -((int)u)` -/
def negOrig (u : BitVec 64) : BitVec 64 := (-(u.truncate 32)).signExtend 64

/-- `len = (int)strlen(str); if (ops & OPS_PREC_IS_GIVEN) len = MIN(max_len, len);` -/
def lenOrig (mem : List Char) (maxLen : Nat) (prec : Bool) : Option Nat :=
  (strlen mem).map fun n => if prec then min maxLen n else n

/-- print_i's prefix for an unsigned conversion before `fix: the # flag with a
zero value`: `(base == 8) && (ops & WITH_SPEC) ? "0" : (base == 16) && (ops &
WITH_SPEC) ? … "0x" : ""` — chosen without looking at the value -/
def pfxOrig (ops : Ops) (base : Nat) : List Char :=
  if base = 8 && ops.spec then ['0']
  else if base = 16 && ops.spec then (if ops.upper then ['0', 'X'] else ['0', 'x'])
  else []

/-- `%c` before `fix: %c of a NUL character`: print_s without OPS_SPEC_CHAR
measures the two-byte string with strlen -/
def printCOrig (v : BitVec 32) (width precision : Int) (ops : Ops) : Option (List Char × Int) :=
  printS [Char.ofNat (v.toNat % 256), NUL] width precision { ops with chr := false }

/-! ### round 3: the `n` conversion and the C `int` range

`printf` above answers `unsupported` for `%n` and computes width, precision and
`pc` in unbounded `Int`.  `printfN` is the same engine (every conversion except
`n` goes through `directive`, unchanged) with
  * `case 'n':` transcribed: the count so far is stored through the pointer
    argument, converted to the type the length modifier names;
  * every place where the C code computes a value of type `int` that the
    unbounded model could carry out of the range of `int` guarded: `atoi` of a
    literal width/precision beyond INT_MAX (undefined, 7.22.1), `width = -width`
    for INT_MIN, `pc` growing beyond INT_MAX.  The result is then `intovf`
    ("undefined behaviour in C: the model says nothing about the code"). -/

def INT_MAX : Int := 2147483647

/-- `*va_arg(args, T *) = (T)pc;` -/
structure NStore where
  addr : BitVec 64   -- the pointer argument
  size : Nat         -- sizeof(T)
  pc : Int           -- the value of `pc` that is converted and stored
  emitted : Nat      -- (ghost) number of characters handed to the callback so far
  deriving DecidableEq, Repr

/-- the object representation that is stored: `(T)pc` as an unsigned number of `size` bytes -/
def NStore.val (s : NStore) : Nat := (s.pc % ((2 : Int) ^ (8 * s.size))).toNat

/-- `sizeof(T)` of `case 'n':` — `signed char`, `short`, `long`, `long long`,
`intmax_t`, `size_t`, `ptrdiff_t`, else (`int`; also for `L`) -/
def nSize : Len → Nat
  | .hh => 1
  | .h => 2
  | .l | .ll | .j | .z | .t => 8
  | .none | .bigL => 4

inductive OutcomeN
  | done (out : List Char) (pc : Int) (stores : List NStore)
  | fault | badarg | unsupported | diverged
  | intovf   -- a computation in `int` left the range of `int` (undefined in C)
  deriving DecidableEq, Repr

inductive StepN
  | ok (emit : List Char) (pc : Int) (rest : List Char) (args : List Arg) (store : Option (BitVec 64 × Nat))
  | fault | badarg | unsupported | intovf
  deriving DecidableEq, Repr

/-- flags, width, precision, length: the first half of `directive`; result:
width, precision, position of `format`, arguments left, `ops` -/
def parseOpts (begin : List Char) (args : List Arg) : Option (Int × Int × List Char × List Arg × Ops) :=
  let (s, ops) := flagsLoop begin.tail {}
  match getWidth s args ops with
  | none => none
  | some (width, s, args, ops) =>
    match getPrec s args ops with
    | none => none
    | some (precision, s, args, ops) =>
      let (s, ops) := getLen s ops
      some (width, precision, s, args, ops)

/-- the value `width` receives before `if (width < 0)`: `va_arg(args, int)` or `atoi(format)` -/
def rawWidth (s : List Char) (args : List Arg) : Option Int :=
  if hd s = '*' then (vaInt args).map fun (v, _) => v.toInt else some (atoi s)

/-- the value `atoi(format)` yields for a literal precision (`none`: the precision is a `*`) -/
def rawPrec (s : List Char) : Option Int :=
  if hd s = '.' then (if hd s.tail = '*' then none else some (atoi s.tail)) else some (atoi s)

/-- does this directive make the C code compute outside `int`?  `atoi` beyond
the range of `int`; `width = -width` for INT_MIN -/
def intGuard (begin : List Char) (args : List Arg) : Bool :=
  let (s, ops) := flagsLoop begin.tail {}
  (match rawWidth s args with
   | some w => decide (w > INT_MAX ∨ w ≤ -INT_MAX - 1)
   | none => false) ||
  (match getWidth s args ops with
   | some (_, s, _, _) =>
     (match rawPrec s with
      | some p => decide (p > INT_MAX ∨ p < -INT_MAX - 1)
      | none => false)
   | none => false)

/-- the body of the `for` loop for `*format == '%'`, `pc` = the count so far -/
def directiveN (begin : List Char) (args : List Arg) : StepN :=
  if intGuard begin args then .intovf else
  match parseOpts begin args with
  | none => .badarg
  | some (_, _, s, args', ops) =>
    if hd s = 'n' then
      -- case 'n': if (ops & OPS_LEN_MIN) *va_arg(args, signed char *) = (signed char)pc; else if … else *va_arg(args, int *) = pc;
      match args' with
      | .ptr a :: as => .ok [] 0 s.tail as (some (a, nSize ops.len))
      | _ => .badarg
    else
      match directive begin args with
      | .ok emit dpc rest as => .ok emit dpc rest as none
      | .fault => .fault
      | .badarg => .badarg
      | .unsupported => .unsupported

/-- `for (begin = format; *format; begin = ++format) { … }` with `pc` an `int` -/
def loopN : Nat → List Char → List Arg → List Char → Int → List NStore → OutcomeN
  | _, [], _, out, pc, st => .done out pc st
  | 0, _ :: _, _, _, _, _ => .diverged
  | fuel + 1, c :: cs, args, out, pc, st =>
    if c = NUL then .done out pc st
    else if c ≠ '%' then
      -- single_print: ++pc;
      if pc + 1 > INT_MAX then .intovf else loopN fuel cs args (out ++ [c]) (pc + 1) st
    else
      match directiveN (c :: cs) args with
      | .ok emit dpc rest args store =>
        -- pc += print_i(…) / print_s(…) / (int)(format - begin + 1)
        if pc + dpc > INT_MAX then .intovf else
        loopN fuel rest args (out ++ emit) (pc + dpc)
          (match store with
           | some (a, sz) => st ++ [{ addr := a, size := sz, pc := pc, emitted := out.length }]
           | none => st)
      | .fault => .fault
      | .badarg => .badarg
      | .unsupported => .unsupported
      | .intovf => .intovf

/-- `__printf` with `%n` and with `int` arithmetic -/
def printfN (format : List Char) (args : List Arg) : OutcomeN :=
  loopN (format.length + 1) format args [] 0 []

/-- every value of type `int` that print_i computes on the way — the operands and
results of its additions and subtractions and `pc` after each `pc +=` — in the
order of the C text (same prefix and digits as `printI`); for the range theorem
`print_i_ints_in_range` -/
def printIInts (u : BitVec 64) (isSigned : Bool) (width minLen : Int) (ops : Ops) (base : Nat) : List Int :=
  let neg := isSigned && u.msb
  let u := if neg then -u else u
  let pfx : List Char :=
    if neg then ['-']
    else if isSigned && ops.sign then ['+']
    else if isSigned && ops.space then [' ']
    else if base = 8 && ops.spec && (u ≠ 0 || (minLen = 0 && ops.prec)) then ['0']
    else if base = 16 && ops.spec && (u ≠ 0 || ops.ptr) then (if ops.upper then ['0', 'X'] else ['0', 'x'])
    else []
  let prefixLen : Int := pfx.length
  let letterBase : Nat := if ops.upper then 65 else 97
  let digits? : Option (List Char) :=
    if u ≠ 0 || minLen ≠ 0 || !ops.prec then digitLoop base letterBase (PRINT_I_BUFF_SZ - 1) u.toNat []
    else some []
  match digits? with
  | none => []
  | some digits =>
    let len : Int := digits.length
    -- (len < min_len ? min_len + (base == 8 ? 0 : prefix_len) : … ? width : 0)
    let t1 : Int :=
      if len < minLen then minLen + (if base = 8 then 0 else prefixLen)
      else if ops.zero && !(ops.left || ops.prec) then width else 0
    -- … - len - prefix_len;  MAX(zero_count, 0)
    let zc0 := t1 - len - prefixLen
    let zeroCount := max zc0 0
    -- width - len - prefix_len - zero_count;  MAX(space_count, 0)
    let sc0 := width - len - prefixLen - zeroCount
    let spaceCount := max sc0 0
    let pc1 : Int := if !ops.left then 0 + spaceCount else 0
    [prefixLen, len, t1, t1 - len, zc0, zeroCount, width - len, width - len - prefixLen, sc0, spaceCount,
     pc1, pc1 + prefixLen, pc1 + prefixLen + zeroCount, pc1 + prefixLen + zeroCount + len,
     pc1 + prefixLen + zeroCount + len + (if !ops.left then 0 else spaceCount)]

/-- no directive met on the way makes the C code leave the range of `int` in
`atoi` or in `width = -width` (follows the passes of `loop`) -/
def guardFree : Nat → List Char → List Arg → Bool
  | _, [], _ => true
  | 0, _ :: _, _ => true
  | fuel + 1, c :: cs, args =>
    if c = NUL then true
    else if c ≠ '%' then guardFree fuel cs args
    else
      !intGuard (c :: cs) args &&
      (match directive (c :: cs) args with
       | .ok _ _ rest args => guardFree fuel rest args
       | _ => true)

/-! ### round 3b -/

/-- the arguments with which the directive at `begin` calls print_i — `(u, is_signed,
width, min_len, ops, base)` as `convert` passes them (d i: the fetched value,
signed, base 10; u o x X; p: 16 digits, WITH_SPEC | PREC_IS_GIVEN | SPEC_POINTER) —
or `none` when it does not call print_i (another conversion, a missing or
wrongly typed argument).  `directive_printICall` (LemR3b) shows that this IS the
call `directive` makes. -/
def printICall (begin : List Char) (args : List Arg) : Option (BitVec 64 × Bool × Int × Int × Ops × Nat) :=
  match parseOpts begin args with
  | none => none
  | some (width, precision, s, args, ops) =>
    let c := hd s
    let ops := if c.isUpper then { ops with upper := true } else ops
    if c = 'd' || c = 'i' then
      (fetchSigned ops.len args).map fun (u, _) => (u, true, width, precision, ops, 10)
    else if c = 'u' || c = 'o' || c = 'x' || c = 'X' then
      (fetchUnsigned ops.len args).map fun (u, _) =>
        (u, false, width, precision, ops, if c = 'u' then 10 else if c = 'o' then 8 else 16)
    else if c = 'p' then
      match args with
      | .ptr v :: _ => some (v, false, width, 16, { ops with spec := true, prec := true, ptr := true }, 16)
      | _ => none
    else none

end Igris.C06
