/-
  C06 — model, second file (round 3b; core Lean only).  Kept apart from Model.lean so that the
  properties that import the C06 model (C13) are not rebuilt: nothing here changes an existing definition.
    * `vsnprintfFast` / `snprintfFast`: `vsnprintf` in closed form, linear in the output (the callback fold of
      Model.lean writes through `List.set`, quadratic) — the driver runs this one; theorem `vsnprintf_fast_eq`
      (Props) shows it IS `vsnprintf` for all inputs;
    * `printSInts`: every value of type `int` print_s computes, for `print_s_ints_in_range`
      (`(int)strlen(str)` of a string of 2^31 or more bytes);
    * `digitRunsOk`, `noIntMinArg`: a purely syntactic sufficient condition for `guardFree`.
-/
import IgrisModel.C06.Model
namespace Igris.C06

/-- `vsnprintf` in closed form: when the destination has the `n` bytes the caller announces, the callback
fold stores the first `n-1` characters and the terminator and leaves the rest alone (`vsnprintf_spec`);
otherwise (a caller that lies about the size) the fold itself is run -/
def vsnprintfFast (mem : List Char) (n : Nat) (format : List Char) (args : List Arg) : Option (List Char × Int) :=
  if n ≤ mem.length then
    match printf format args with
    | .done out pc =>
      some (if n = 0 then mem else out.take (n - 1) ++ NUL :: mem.drop (min (n - 1) out.length + 1), pc)
    | _ => none
  else vsnprintf mem n format args

def snprintfFast (mem : List Char) (n : Nat) (format : List Char) (args : List Arg) : Option (List Char × Int) :=
  vsnprintfFast mem n format args

/-- every value of type `int` that print_s computes, in the order of the C text: `len` (the result of
`(int)strnlen(...)` / `(int)strlen(...)` — the cast is value-preserving exactly when the length fits an `int`),
`space_count`, and `pc` after each `pc +=` -/
def printSInts (mem : List Char) (width maxLen : Int) (ops : Ops) : List Int :=
  match (if ops.chr then (if 1 ≤ mem.length then some 1 else none)
         else if ops.prec then strnlen mem maxLen.toNat else strlen mem) with
  | none => []
  | some n =>
    let len : Int := n
    let spaceCount : Int := if width > len then width - len else 0
    let pc1 : Int := if !ops.left then 0 + spaceCount else 0
    [len, spaceCount, pc1, pc1 + len, pc1 + len + (if !ops.left then 0 else spaceCount)]

/-- every run of decimal digits in the text has at most 9 digits (stated for every suffix, hence closed under
taking suffixes) -/
def digitRunsOk : List Char → Bool
  | [] => true
  | c :: cs => decide (((c :: cs).takeWhile Char.isDigit).length ≤ 9) && digitRunsOk cs

/-- no `int` argument is INT_MIN -/
def noIntMinArg : List Arg → Bool
  | [] => true
  | a :: as => (a != Arg.int (BitVec.intMin 32)) && noIntMinArg as

end Igris.C06
