/- C06 helper lemmas: the two formulations of the ISO integer conversion agree; shape of the result -/
import IgrisModel.C06.LemInt
import IgrisModel.C06.SpecAlt
namespace Igris.C06
open Iso

theorem digitsDiv_eq (base : Nat) (hb : 2 ≤ base) (fuel n : Nat) (h : n < fuel) :
    digitsDiv base fuel n = Nat.toDigits base n := by
  induction fuel generalizing n with
  | zero => omega
  | succ f ih =>
    rw [Nat.toDigits_eq_if (by omega)]
    simp only [digitsDiv]
    split
    · rfl
    · have h1 := Nat.div_lt_self (n := n) (k := base) (by omega) (by omega)
      rw [ih _ (by omega)]

theorem layoutS_length (minus zero pn : Bool) (width : Nat) (X D : List Char) :
    (layoutS minus zero pn width X D).length = max width (X.length + D.length) := by
  unfold layoutS
  cases minus <;> cases zero <;> cases pn <;> simp <;> omega

theorem layoutS_zero (minus zero pn : Bool) (X D : List Char) : layoutS minus zero pn 0 X D = X ++ D := by
  unfold layoutS
  cases minus <;> cases zero <;> cases pn <;> simp

/-- first character of the precision-expanded digit string, decided from the value -/
theorem head_specDigits_oct (prec : Option Nat) (mag : Nat) :
    ((specDigits prec mag 8 false).head? ≠ some '0') ↔
      (prec.getD 1 - (if mag = 0 ∧ prec = some 0 then [] else Nat.toDigits 8 mag).length = 0 ∧
        ((if mag = 0 ∧ prec = some 0 then ([] : List Char) else Nat.toDigits 8 mag) = [] ∨ mag ≠ 0)) := by
  unfold specDigits
  simp only [Bool.false_eq_true, if_false]
  generalize hraw : (if mag = 0 ∧ prec = some 0 then ([] : List Char) else Nat.toDigits 8 mag) = raw
  cases hk : prec.getD 1 - raw.length with
  | succ k => simp [List.replicate_succ]
  | zero =>
    simp only [List.replicate_zero, List.nil_append, true_and]
    by_cases h0 : mag = 0
    · subst h0
      by_cases hp : prec = some 0
      · simp [hp] at hraw; subst hraw; simp
      · simp [hp] at hraw; subst hraw; simp
    · have hr : raw = Nat.toDigits 8 mag := by simp [h0] at hraw; exact hraw.symm
      have := toDigits_head_ne_zero 8 (by omega) mag (by omega)
      rw [hr]
      simp [h0, this]

theorem layoutS_shape (minus zero pn : Bool) (width : Nat) (X D : List Char) :
    ∃ l z r, layoutS minus zero pn width X D
        = List.replicate l ' ' ++ X ++ List.replicate z '0' ++ D ++ List.replicate r ' ' ∧
      l + z + r = width - (X.length + D.length) ∧
      (minus = true → l = 0 ∧ z = 0) ∧ (minus = false → r = 0) ∧
      (z ≠ 0 → l = 0 ∧ zero = true ∧ pn = true) := by
  unfold layoutS
  by_cases hm : minus = true
  · refine ⟨0, 0, width - (X.length + D.length), ?_, by omega, fun _ => ⟨rfl, rfl⟩,
      fun h => by simp [hm] at h, fun h => absurd rfl h⟩
    simp [hm]
  · have hm' : minus = false := by simpa using hm
    by_cases hz : zero = true ∧ pn = true
    · refine ⟨0, width - (X.length + D.length), 0, ?_, by omega, fun h => by simp [hm'] at h, fun _ => rfl,
        fun _ => ⟨rfl, hz.1, hz.2⟩⟩
      simp [hm', hz.1, hz.2]
    · refine ⟨width - (X.length + D.length), 0, 0, ?_, by omega, fun h => by simp [hm'] at h, fun _ => rfl,
        fun h => absurd rfl h⟩
      simp [hm', hz]

theorem layoutS_counts (minus zero pn : Bool) (width : Nat) (sign pfx raw : List Char) (pz oz : Nat) :
    layoutS minus zero pn width (sign ++ pfx) (List.replicate (pz + oz) '0' ++ raw)
      = List.replicate
            (if minus = true then 0
             else (width - (sign.length + pfx.length + pz + oz + raw.length))
                  - (if minus = false ∧ zero = true ∧ pn = true
                     then width - (sign.length + pfx.length + pz + oz + raw.length) else 0)) ' '
          ++ sign ++ pfx
          ++ List.replicate
              ((if minus = false ∧ zero = true ∧ pn = true
                then width - (sign.length + pfx.length + pz + oz + raw.length) else 0) + pz + oz) '0'
          ++ raw
          ++ List.replicate
              (if minus = true then width - (sign.length + pfx.length + pz + oz + raw.length) else 0) ' ' := by
  have hn : (sign ++ pfx).length + (List.replicate (pz + oz) '0' ++ raw).length
      = sign.length + pfx.length + pz + oz + raw.length := by
    simp only [List.length_append, List.length_replicate]; omega
  unfold layoutS
  simp only []
  rw [hn]
  generalize width - (sign.length + pfx.length + pz + oz + raw.length) = F
  cases minus <;> cases zero <;> cases pn <;> simp [List.append_assoc]
  rw [← List.append_assoc, List.replicate_append_replicate, Nat.add_assoc]

/-- the two formulations of the ISO integer conversion agree -/
theorem isoInt2_eq (minus plus space hash zero : Bool) (width : Nat) (prec : Option Nat)
    (signedConv neg : Bool) (mag base : Nat) (upper : Bool) (hb : 2 ≤ base) (hup : upper = true → base = 16) :
    isoInt2 minus plus space hash zero width prec signedConv neg mag base upper
      = isoInt minus plus space hash zero width prec signedConv neg mag base upper := by
  rw [isoInt_layout]
  unfold isoInt2
  simp only [digitsDiv_eq base hb (mag + 1) mag (Nat.lt_succ_self _)]
  -- the digit string of the first formulation as zeros ++ raw digits
  generalize hraw0 : (if mag = 0 ∧ prec = some 0 then ([] : List Char) else Nat.toDigits base mag) = raw0
  generalize hraw : (if upper = true then List.map Char.toUpper raw0 else raw0) = raw
  have hS : specDigits prec mag base upper = List.replicate (prec.getD 1 - raw.length) '0' ++ raw := by
    unfold specDigits
    simp only [hraw0, hraw]
  have hD : (if hash = true ∧ base = 8 ∧ (specDigits prec mag base upper).head? ≠ some '0'
        then '0' :: specDigits prec mag base upper else specDigits prec mag base upper)
      = List.replicate ((prec.getD 1 - raw.length)
          + (if hash = true ∧ base = 8 ∧ prec.getD 1 - raw.length = 0 ∧ (raw = [] ∨ mag ≠ 0) then 1 else 0)) '0'
        ++ raw := by
    by_cases hc : hash = true ∧ base = 8
    · obtain ⟨hh, hb8⟩ := hc
      subst hb8
      have hu : upper = false := by
        cases hx : upper
        · rfl
        · have := hup hx; omega
      subst hu
      simp only [Bool.false_eq_true, if_false] at hraw
      subst hraw
      have hhead := head_specDigits_oct prec mag
      rw [hraw0] at hhead
      by_cases hcond : raw0 = [] ∨ mag ≠ 0
      · by_cases hz : prec.getD 1 - raw0.length = 0
        · have : (specDigits prec mag 8 false).head? ≠ some '0' := hhead.mpr ⟨hz, hcond⟩
          simp only [hh, this, hz, hcond, true_and, and_self, ne_eq, not_false_eq_true, if_true]
          rw [hS, hz]
          simp
        · have : ¬ ((specDigits prec mag 8 false).head? ≠ some '0') := fun h => hz (hhead.mp h).1
          simp only [hh, true_and, this, if_false, hz, false_and]
          rw [hS]
          simp
      · have : ¬ ((specDigits prec mag 8 false).head? ≠ some '0') := fun h => hcond (hhead.mp h).2
        simp only [hh, true_and, this, if_false, hcond, and_false]
        rw [hS]
        simp
    · have h1 : ¬ (hash = true ∧ base = 8 ∧ (specDigits prec mag base upper).head? ≠ some '0') :=
        fun h => hc ⟨h.1, h.2.1⟩
      have h2 : ¬ (hash = true ∧ base = 8 ∧ prec.getD 1 - raw.length = 0 ∧ (raw = [] ∨ mag ≠ 0)) :=
        fun h => hc ⟨h.1, h.2.1⟩
      rw [if_neg h1, if_neg h2, hS]
      simp
  rw [hD]
  have hsign : specSign signedConv neg plus space
      = (if signedConv = false then ([] : List Char) else if neg = true then ['-'] else if plus = true then ['+']
          else if space = true then [' '] else []) := by
    cases signedConv <;> simp [specSign]
  rw [hsign, layoutS_counts]
  simp only [decide_eq_true_eq]

end Igris.C06
