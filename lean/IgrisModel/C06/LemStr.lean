/- C06 helper lemmas: print_s against the ISO definition, and what it reads -/
import IgrisModel.C06.LemCount
import IgrisModel.C06.Spec
namespace Igris.C06
open Iso

theorem strlen_of_mem (mem : List Char) (h : NUL ∈ mem) :
    strlen mem = some (mem.takeWhile (· ≠ NUL)).length := by
  induction mem with
  | nil => simp at h
  | cons c cs ih =>
    simp only [strlen]
    by_cases hc : c = NUL
    · simp [hc]
    · have : NUL ∈ cs := by
        simp only [List.mem_cons] at h
        rcases h with h | h
        · exact absurd h.symm hc
        · exact h
      simp [hc, ih this]

theorem strnlen_of_ok (mem : List Char) (p : Nat) (h : NUL ∈ mem.take p ∨ p ≤ mem.length) :
    strnlen mem p = some ((mem.take p).takeWhile (· ≠ NUL)).length := by
  induction mem generalizing p with
  | nil =>
    cases p with
    | zero => simp [strnlen]
    | succ p => simp at h
  | cons c cs ih =>
    cases p with
    | zero => simp [strnlen]
    | succ p =>
      simp only [strnlen]
      by_cases hc : c = NUL
      · simp [hc]
      · have : NUL ∈ cs.take p ∨ p ≤ cs.length := by
          rcases h with h | h
          · left
            simp only [List.take_succ_cons, List.mem_cons] at h
            rcases h with h | h
            · exact absurd h.symm hc
            · exact h
          · right; simp at h; omega
        simp [hc, ih p this]

theorem take_takeWhile_length (l : List Char) (q : Char → Bool) :
    l.take (l.takeWhile q).length = l.takeWhile q := by
  induction l with
  | nil => simp
  | cons a as ih =>
    simp only [List.takeWhile_cons]
    split
    · simp [ih]
    · simp

theorem length_takeWhile_le' (l : List Char) (q : Char → Bool) : (l.takeWhile q).length ≤ l.length := by
  induction l with
  | nil => simp
  | cons a as ih => simp only [List.takeWhile_cons]; split <;> simp <;> omega

theorem take_take_takeWhile (mem : List Char) (p : Nat) (q : Char → Bool) :
    mem.take ((mem.take p).takeWhile q).length = (mem.take p).takeWhile q := by
  have h1 := take_takeWhile_length (mem.take p) q
  have h2 : ((mem.take p).takeWhile q).length ≤ p := by
    have := length_takeWhile_le' (mem.take p) q
    have := List.length_take_le p mem
    omega
  rw [List.take_take, Nat.min_eq_left h2] at h1
  exact h1

theorem pad_aux (W L : Nat) : (if L < W then (W : Int) - (L : Int) else 0).toNat = W - L := by
  split <;> omega

/-- print_s pads like the spec's `pad` -/
theorem printS_iso (mem : List Char) (W m : Nat) (ops : Ops) (body : List Char) (hc : ops.chr = false)
    (h : isoStr mem (if ops.prec then some m else none) = some body) :
    ∃ pc, printS mem W m ops = some (pad ops.left W body, pc) := by
  unfold printS
  simp only [hc, Bool.false_eq_true, ↓reduceIte]
  cases hp : ops.prec
  · simp only [hp, Bool.false_eq_true, ↓reduceIte, isoStr] at h
    split at h
    · rename_i hmem
      simp only [Option.some.injEq] at h
      simp only [Bool.false_eq_true, ↓reduceIte, strlen_of_mem mem hmem]
      rw [← h]
      have ht' := take_takeWhile_length mem (fun x => !decide (x = NUL))
      cases hl : ops.left <;> simp [pad, ht', pad_aux]
    · simp at h
  · simp only [hp, ↓reduceIte, isoStr] at h
    split at h
    · rename_i hok
      simp only [Option.some.injEq] at h
      simp only [↓reduceIte, Int.toNat_natCast, strnlen_of_ok mem m hok]
      rw [← h]
      have ht' := take_take_takeWhile mem m (fun x => !decide (x = NUL))
      cases hl : ops.left <;> simp [pad, ht', pad_aux]
    · simp at h


/-- `%c`: print_s with OPS_SPEC_CHAR emits exactly the first byte, whatever it is -/
theorem printS_chr (c x : Char) (W m : Nat) (ops : Ops) (hc : ops.chr = true) :
    ∃ pc, printS [c, x] W m ops = some (pad ops.left W [c], pc) := by
  unfold printS
  simp only [hc, ↓reduceIte, List.length_cons, List.length_nil]
  cases hl : ops.left <;> simp [pad] <;> split <;> simp <;> omega

/-! what print_s reads -/

theorem strlen_append {pre : List Char} {n : Nat} (rest : List Char) (h : strlen pre = some n) :
    strlen (pre ++ rest) = some n := by
  induction pre generalizing n with
  | nil => simp [strlen] at h
  | cons c cs ih =>
    simp only [List.cons_append, strlen] at h ⊢
    split
    · rename_i hc; simpa [hc] using h
    · rename_i hc
      simp only [hc, if_false] at h
      cases hs : strlen cs with
      | none => simp [hs] at h
      | some k => simp [hs] at h; simp [ih hs, h]

theorem strnlen_append {pre : List Char} {p n : Nat} (rest : List Char) (h : strnlen pre p = some n) :
    strnlen (pre ++ rest) p = some n := by
  induction pre generalizing p n with
  | nil =>
    cases p with
    | zero => simpa [strnlen] using h
    | succ p => simp [strnlen] at h
  | cons c cs ih =>
    cases p with
    | zero => simpa [strnlen] using h
    | succ p =>
      simp only [List.cons_append, strnlen] at h ⊢
      split
      · rename_i hc; simpa [hc] using h
      · rename_i hc
        simp only [hc, if_false] at h
        cases hs : strnlen cs p with
        | none => simp [hs] at h
        | some k => simp [hs] at h; simp [ih hs, h]

theorem printS_append (pre rest : List Char) (W m : Int) (ops : Ops) (r : List Char × Int)
    (h : printS pre W m ops = some r) : printS (pre ++ rest) W m ops = some r := by
  unfold printS at h ⊢
  cases hlen : (if ops.chr = true then (if 1 ≤ pre.length then some 1 else none)
      else if ops.prec = true then strnlen pre m.toNat else strlen pre) with
  | none => simp [hlen] at h
  | some n =>
    have hle : n ≤ pre.length := by
      split at hlen
      · split at hlen
        · cases hlen; assumption
        · cases hlen
      · split at hlen
        · exact (strnlen_le hlen).1
        · exact Nat.le_of_lt (strlen_le hlen)
    have hlen' : (if ops.chr = true then (if 1 ≤ (pre ++ rest).length then some 1 else none)
        else if ops.prec = true then strnlen (pre ++ rest) m.toNat else strlen (pre ++ rest)) = some n := by
      cases hc : ops.chr
      · simp only [hc, Bool.false_eq_true, if_false] at hlen ⊢
        cases hp : ops.prec
        · simp only [hp, Bool.false_eq_true, if_false] at hlen ⊢; exact strlen_append rest hlen
        · simp only [hp, if_true] at hlen ⊢; exact strnlen_append rest hlen
      · simp only [hc, if_true] at hlen ⊢
        have h1 : 1 ≤ pre.length := by
          by_cases hx : 1 ≤ pre.length
          · exact hx
          · rw [if_neg hx] at hlen; cases hlen
        rw [if_pos h1] at hlen
        rw [if_pos (by simp only [List.length_append]; omega)]
        exact hlen
    simp only [hlen] at h
    simp only [hlen']
    rw [List.take_append_of_le_length hle]
    exact h

theorem strlen_some_of_mem (mem : List Char) (h : NUL ∈ mem) : (strlen mem).isSome := by
  rw [strlen_of_mem mem h]; rfl

end Igris.C06
