/- C06 helper lemmas: print_i against the ISO definition `Iso.isoInt` -/
import IgrisModel.C06.LemDigits
import IgrisModel.C06.Spec
namespace Igris.C06
open Iso

/-- the digit string print_i builds -/
def digitsOf (mag : Nat) (minLen : Int) (prec upper : Bool) (base : Nat) : List Char :=
  if mag ≠ 0 ∨ minLen ≠ 0 ∨ prec = false then (Nat.toDigits base mag).map (caseMap upper) else []

/-- print_i's prefix selection -/
def prefixOf (neg isSigned : Bool) (ops : Ops) (base : Nat) (nz : Bool) (minLen : Int) : List Char :=
  if neg then ['-']
  else if isSigned && ops.sign then ['+']
  else if isSigned && ops.space then [' ']
  else if base = 8 && ops.spec && (nz || (decide (minLen = 0) && ops.prec)) then ['0']
  else if base = 16 && ops.spec && (nz || ops.ptr) then (if ops.upper then ['0', 'X'] else ['0', 'x'])
  else []

theorem bv_nz (v : BitVec 64) : decide (v ≠ 0) = decide (v.toNat ≠ 0) := by
  have hv : v ≠ 0 ↔ v.toNat ≠ 0 := by
    constructor
    · intro h h0; apply h; apply BitVec.eq_of_toNat_eq; simpa using h0
    · intro h h0; apply h; simp [h0]
  simp only [hv]

/-- print_i's padding arithmetic and emission order for a given prefix and digit string -/
def layoutM (left zero prec oct : Bool) (width minLen : Int) (pfx D : List Char) : List Char :=
  let len : Int := D.length
  let P : Int := pfx.length
  let Z : Int := max ((if len < minLen then minLen + (if oct then 0 else P)
                       else if zero && !(left || prec) then width else 0) - len - P) 0
  let S : Int := max (width - len - P - Z) 0
  (if left then [] else List.replicate S.toNat ' ') ++ pfx ++ List.replicate Z.toNat '0' ++ D
    ++ (if left then List.replicate S.toNat ' ' else [])

theorem printI_digits (u : BitVec 64) (neg : Bool) (minLen : Int) (ops : Ops) (base : Nat)
    (hb : 8 ≤ base) (hb16 : base ≤ 16) :
    (if (decide ((if neg then -u else u) ≠ 0) || decide (minLen ≠ 0) || !ops.prec) = true then
        digitLoop base (if ops.upper then 65 else 97) (PRINT_I_BUFF_SZ - 1) (if neg then -u else u).toNat []
      else some [])
    = some (digitsOf (if neg then -u else u).toNat minLen ops.prec ops.upper base) := by
  generalize (if neg then -u else u) = v
  have hloop := digitLoop_eq base ops.upper (by omega) hb16 22 v.toNat []
    (toDigits_length_le_22 base hb v.toNat v.isLt)
  have hv : v ≠ 0 ↔ v.toNat ≠ 0 := by
    constructor
    · intro h h0; apply h; apply BitVec.eq_of_toNat_eq; simpa using h0
    · intro h h0; apply h; simp [h0]
  by_cases hz : v.toNat ≠ 0 ∨ minLen ≠ 0 ∨ ops.prec = false
  · have hcond : (decide (v ≠ 0) || decide (minLen ≠ 0) || !ops.prec) = true := by
      simp only [Bool.or_eq_true, decide_eq_true_eq, Bool.not_eq_true']
      rcases hz with h | h | h
      · exact Or.inl (Or.inl (hv.mpr h))
      · exact Or.inl (Or.inr h)
      · exact Or.inr h
    rw [if_pos hcond]
    simp only [PRINT_I_BUFF_SZ, digitsOf, if_pos hz]
    simpa using hloop
  · have hcond : ¬ (decide (v ≠ 0) || decide (minLen ≠ 0) || !ops.prec) = true := by
      simp only [Bool.or_eq_true, decide_eq_true_eq, Bool.not_eq_true']
      intro h; apply hz
      rcases h with (h | h) | h
      · exact Or.inl (hv.mp h)
      · exact Or.inr (Or.inl h)
      · exact Or.inr (Or.inr h)
    rw [if_neg hcond]
    simp only [digitsOf, if_neg hz]

/-- print_i in closed form: the digit loop never overflows `buff` and yields `Nat.toDigits` -/
theorem printI_form (u : BitVec 64) (isSigned : Bool) (width minLen : Int) (ops : Ops) (base : Nat)
    (hb : 8 ≤ base) (hb16 : base ≤ 16) :
    ∃ pc, printI u isSigned width minLen ops base
      = some (layoutM ops.left ops.zero ops.prec (base = 8) width minLen
                (prefixOf (isSigned && u.msb) isSigned ops base
                  (decide ((if (isSigned && u.msb) then -u else u).toNat ≠ 0)) minLen)
                (digitsOf (if (isSigned && u.msb) then -u else u).toNat minLen ops.prec ops.upper base), pc) := by
  unfold printI
  simp only []
  rw [printI_digits u (isSigned && u.msb) minLen ops base hb hb16]
  simp only [layoutM, prefixOf, ← bv_nz]
  cases ops.left <;> simp

def layoutS (minus zero precNone : Bool) (width : Nat) (X ds : List Char) : List Char :=
  let n := X.length + ds.length
  if minus then X ++ ds ++ List.replicate (width - n) ' '
  else if zero ∧ precNone then X ++ List.replicate (width - n) '0' ++ ds
  else List.replicate (width - n) ' ' ++ X ++ ds

theorem shape_right {a a' b b' : Nat} (X D : List Char) (ha : a = a') (hb : b = b') :
    List.replicate a ' ' ++ (X ++ (List.replicate b '0' ++ D))
      = List.replicate a' ' ' ++ (X ++ (List.replicate b' '0' ++ D)) := by subst ha hb; rfl

theorem shape_zero {a b z q : Nat} (X D : List Char) (ha : a = 0) (hb : b = z + q) :
    List.replicate a ' ' ++ (X ++ (List.replicate b '0' ++ D))
      = X ++ (List.replicate z '0' ++ (List.replicate q '0' ++ D)) := by
  subst ha hb; simp [← List.append_assoc, List.replicate_append_replicate]

theorem shape_left {b b' c c' : Nat} (D : List Char) (hb : b = b') (hc : c = c') :
    List.replicate b '0' ++ (D ++ List.replicate c ' ')
      = List.replicate b' '0' ++ (D ++ List.replicate c' ' ') := by subst hb hc; rfl

theorem layout_plain (left zero prec oct : Bool) (W m : Nat) (X D : List Char)
    (hoct : oct = true → X = []) (hm : prec = false → m = 0 ∧ 1 ≤ D.length) :
    layoutM left zero prec oct W m X D
      = layoutS left zero (!prec) W X (List.replicate ((if prec then m else 1) - D.length) '0' ++ D) := by
  have hP : oct = true → X.length = 0 := fun h => by simp [hoct h]
  unfold layoutM layoutS
  simp only []
  cases left <;> cases zero <;> cases prec <;> simp
  all_goals (by_cases h1 : D.length < m <;> by_cases h2 : oct = true <;>
    simp only [h1, h2, Bool.false_eq_true, ↓reduceIte] <;> (try have hP0 := hP h2) <;> (try have hm0 := hm rfl))
  all_goals first
    | (apply shape_right <;> omega)
    | (apply shape_zero <;> omega)
    | (apply shape_left <;> omega)
theorem rep_cons_comm (k : Nat) (c : Char) (D : List Char) :
    List.replicate k c ++ c :: D = c :: (List.replicate k c ++ D) := by
  induction k with
  | zero => rfl
  | succ k ih => simp [List.replicate_succ, ih]

/-- octal alternative form, precision does not exceed the digit count: the `0` prefix is the extra digit -/
theorem layout_oct_le (left zero prec : Bool) (W m : Nat) (D : List Char)
    (hle : m ≤ D.length) (hm : prec = false → m = 0) :
    layoutM left zero prec true W m ['0'] D = layoutS left zero (!prec) W [] ('0' :: D) := by
  unfold layoutM layoutS
  have h1 : ¬ (D.length < m) := by omega
  have e1 : (max (-(D.length : Int) - 1) 0).toNat = 0 := by omega
  have e2 : (max ((W : Int) - D.length - 1 - max (-(D.length : Int) - 1) 0) 0).toNat = W - (D.length + 1) := by omega
  have e3 : (max ((W : Int) - D.length - 1 - max ((W : Int) - D.length - 1) 0) 0).toNat = 0 := by omega
  have e4 : (max ((W : Int) - D.length - 1) 0).toNat = W - (D.length + 1) := by omega
  cases left <;> cases zero <;> cases prec <;> simp [h1, e1, e2, e3, e4, rep_cons_comm]

/-- octal alternative form, precision exceeds the digit count: the `0` prefix is one of the precision's zeros -/
theorem layout_oct_gt (left zero : Bool) (W m : Nat) (D : List Char) (hgt : D.length < m) :
    layoutM left zero true true W m ['0'] D
      = layoutS left zero false W [] (List.replicate (m - D.length) '0' ++ D) := by
  unfold layoutM layoutS
  obtain ⟨k, hk⟩ : ∃ k, m - D.length = k + 1 := ⟨m - D.length - 1, by omega⟩
  have e1 : (max ((m : Int) - D.length - 1) 0).toNat = k := by omega
  have e2 : (max ((W : Int) - D.length - 1 - max ((m : Int) - D.length - 1) 0) 0).toNat = W - (k + 1 + D.length) := by omega
  cases left <;> cases zero <;> simp [hgt, hk, e1, e2, List.replicate_succ] <;> omega
/-- the pieces of `isoInt` -/
def specDigits (prec : Option Nat) (mag base : Nat) (upper : Bool) : List Char :=
  let ds := if mag = 0 ∧ prec = some 0 then [] else Nat.toDigits base mag
  let ds := if upper then ds.map Char.toUpper else ds
  List.replicate (prec.getD 1 - ds.length) '0' ++ ds

def specSign (signedConv neg plus space : Bool) : List Char :=
  if signedConv then (if neg then ['-'] else if plus then ['+'] else if space then [' '] else []) else []

theorem isoInt_layout (minus plus space hash zero : Bool) (width : Nat) (prec : Option Nat)
    (signedConv neg : Bool) (mag base : Nat) (upper : Bool) :
    isoInt minus plus space hash zero width prec signedConv neg mag base upper
      = layoutS minus zero (prec = none) width
          (specSign signedConv neg plus space ++
            (if hash ∧ base = 16 ∧ mag ≠ 0 then (if upper then ['0', 'X'] else ['0', 'x']) else []))
          (if hash ∧ base = 8 ∧ (specDigits prec mag base upper).head? ≠ some '0'
            then '0' :: specDigits prec mag base upper else specDigits prec mag base upper) := by
  unfold isoInt layoutS specSign specDigits
  simp only [List.append_assoc, List.length_append, Nat.add_assoc, decide_eq_true_eq]


theorem caseMap_false : caseMap false = id := by funext c; simp [caseMap]
theorem caseMap_true : caseMap true = Char.toUpper := by funext c; simp [caseMap]

/-- print_i's digit string is the spec's digit string before precision expansion -/
theorem digitsOf_spec (mag m : Nat) (prec upper : Bool) (base : Nat) (hm : prec = false → m = 0) :
    List.replicate ((if prec then m else 1) - (digitsOf mag m prec upper base).length) '0'
        ++ digitsOf mag m prec upper base
      = specDigits (if prec then some m else none) mag base upper := by
  unfold digitsOf specDigits
  by_cases h : mag = 0 ∧ m = 0
  · obtain ⟨h1, h2⟩ := h
    cases prec <;> cases upper <;> simp [caseMap_false, caseMap_true, h1, h2]
  · have h' : ¬mag = 0 ∨ ¬m = 0 := by omega
    cases prec <;> cases upper <;> simp [caseMap_false, caseMap_true, h, h']

theorem digitsOf_length_pos (mag : Nat) (m : Int) (upper : Bool) (base : Nat) :
    1 ≤ (digitsOf mag m false upper base).length := by
  simp only [digitsOf, or_true, if_true, List.length_map]
  exact Nat.length_toDigits_pos

theorem precNone_eq (prec : Bool) (m : Nat) :
    decide ((if prec = true then some m else none) = none) = !prec := by
  cases prec <;> simp

theorem prefixOf_signed (b : Bool) (ops : Ops) (nz : Bool) (m : Int) :
    prefixOf b true ops 10 nz m = specSign true b ops.sign ops.space := by
  cases b <;> cases h1 : ops.sign <;> cases h2 : ops.space <;> simp [prefixOf, specSign, h1, h2]

theorem printI_iso (u : BitVec 64) (isSigned : Bool) (W m : Nat) (ops : Ops) (base : Nat)
    (hbase : base = 8 ∨ base = 10 ∨ base = 16)
    (hsig : isSigned = true → base = 10)
    (hup : ops.upper = true → base = 16)
    (hm : ops.prec = false → m = 0)
    (hptr : ops.ptr = false) :
    ∃ pc, printI u isSigned W m ops base
      = some (isoInt ops.left ops.sign ops.space ops.spec ops.zero W (if ops.prec then some m else none)
                isSigned (isSigned && u.msb) (if (isSigned && u.msb) then -u else u).toNat base ops.upper, pc) := by
  obtain ⟨pc, h⟩ := printI_form u isSigned W m ops base (by omega) (by omega)
  refine ⟨pc, ?_⟩
  rw [h, isoInt_layout, precNone_eq]
  generalize hmag : (if (isSigned && u.msb) then -u else u).toNat = mag at *
  have hm' : ops.prec = false → m = 0 ∧ 1 ≤ (digitsOf mag m ops.prec ops.upper base).length := by
    intro hp; refine ⟨hm hp, ?_⟩; rw [hp]; exact digitsOf_length_pos mag m ops.upper base
  have hD := digitsOf_spec mag m ops.prec ops.upper base hm
  congr 2
  rcases hbase with hb | hb | hb
  · -- octal
    subst hb
    have hs : isSigned = false := by cases isSigned <;> simp_all
    subst hs
    cases hsp : ops.spec
    · rw [layout_plain _ _ _ _ W m _ _ (by simp [prefixOf, hsp]) hm', hD]
      simp [prefixOf, specSign, hsp]
    · have hu : ops.upper = false := by cases hx : ops.upper <;> simp_all
      have h88 : decide (8 = 8) = true := by decide
      rw [h88]
      by_cases h0 : mag = 0
      · -- a zero value: the lone digit 0 is its own alternative form; no digit at all gets the prefix
        subst h0
        by_cases hmp : m = 0 ∧ ops.prec = true
        · obtain ⟨hm0, hpt⟩ := hmp
          subst hm0
          have hpre : prefixOf (false && u.msb) false ops 8 (decide (0 ≠ 0)) ((0 : Nat) : Int) = ['0'] := by
            simp [prefixOf, hsp, hpt]
          have hDe : digitsOf 0 ((0 : Nat) : Int) ops.prec ops.upper 8 = [] := by simp [digitsOf, hpt]
          rw [hpre, hDe, layout_oct_le _ _ _ W 0 [] (by simp) hm]
          simp [specSign, specDigits, hpt]
        · have hpre : prefixOf (false && u.msb) false ops 8 (decide (0 ≠ 0)) (m : Int) = [] := by
            have : ¬ ((m : Int) = 0 ∧ ops.prec = true) := by
              intro ⟨a, b⟩; exact hmp ⟨by omega, b⟩
            cases hpx : ops.prec <;> simp_all [prefixOf]
          rw [hpre, layout_plain _ _ _ _ W m _ _ (by simp) hm', hD]
          have hhd : (specDigits (if ops.prec = true then some m else none) 0 8 ops.upper).head? = some '0' := by
            unfold specDigits
            cases hpx : ops.prec
            · simp [hu]
            · have hm1 : m ≠ 0 := by intro h; exact hmp ⟨h, hpx⟩
              obtain ⟨k, hk⟩ : ∃ k, m = k + 1 := ⟨m - 1, by omega⟩
              subst hk
              cases k <;> simp [hu, List.replicate_succ]
          simp [specSign, hhd]
      have hpre : prefixOf (false && u.msb) false ops 8 (decide (mag ≠ 0)) (m : Int) = ['0'] := by
        simp [prefixOf, hsp, h0]
      rw [hpre]
      by_cases hlt : (digitsOf mag m ops.prec ops.upper 8).length < m
      · have hp : ops.prec = true := by
          cases hx : ops.prec
          · have := (hm' hx).1; omega
          · rfl
        rw [hp] at hD hlt ⊢
        rw [layout_oct_gt _ _ W m _ hlt]
        simp only [↓reduceIte] at hD ⊢
        rw [← hD]
        obtain ⟨k, hk⟩ : ∃ k, m - (digitsOf mag m true ops.upper 8).length = k + 1 :=
          ⟨m - (digitsOf mag m true ops.upper 8).length - 1, by omega⟩
        simp [specSign, hk, List.replicate_succ]
      · have hle : m ≤ (digitsOf mag m ops.prec ops.upper 8).length := by omega
        rw [layout_oct_le _ _ _ W m _ hle hm]
        have hz : (if ops.prec = true then m else 1) - (digitsOf mag m ops.prec ops.upper 8).length = 0 := by
          cases hx : ops.prec
          · have := (hm' hx).2; rw [hx] at this; simp; omega
          · rw [hx] at hle; simp; omega
        rw [hz] at hD
        simp only [List.replicate_zero, List.nil_append] at hD
        rw [← hD]
        have hhead : (digitsOf mag m ops.prec ops.upper 8).head? ≠ some '0' := by
          unfold digitsOf
          split
          · rw [hu, caseMap_false, List.map_id]
            exact toDigits_head_ne_zero 8 (by omega) mag (by omega)
          · simp
        simp [specSign, hhead]
  · -- decimal
    subst hb
    have hu : ops.upper = false := by cases hx : ops.upper <;> simp_all
    rw [layout_plain _ _ _ _ W m _ _ (by simp) hm', hD]
    cases isSigned
    · simp [prefixOf, specSign]
    · simp [prefixOf_signed]
  · -- hexadecimal
    subst hb
    have hs : isSigned = false := by cases isSigned <;> simp_all
    subst hs
    rw [layout_plain _ _ _ _ W m _ _ (by simp) hm', hD]
    cases hsp : ops.spec
    · simp [prefixOf, specSign, hsp]
    · by_cases h0 : mag = 0 <;> simp [prefixOf, specSign, hsp, hptr, h0]
theorem toDigits16_length (v : Nat) (h : v < 2 ^ 64) : (Nat.toDigits 16 v).length ≤ 16 := by
  rw [Nat.length_toDigits_le_iff (by omega) (by omega)]
  have : (2 : Nat) ^ 64 = 16 ^ 16 := by decide
  omega

theorem layout_ptr (left zero : Bool) (W : Nat) (D : List Char) (hL : D.length ≤ 16) :
    layoutM left zero true false W 16 ['0', 'x'] D
      = pad left W ('0' :: 'x' :: (List.replicate (16 - D.length) '0' ++ D)) := by
  unfold layoutM pad
  have e1 : (max ((if (D.length : Int) < 16 then (18 : Int) else 0) - D.length - 2) 0).toNat = 16 - D.length := by
    split <;> omega
  have e2 : (max ((W : Int) - D.length - 2 - max ((if (D.length : Int) < 16 then (18 : Int) else 0) - D.length - 2) 0) 0).toNat
      = W - (16 - D.length + D.length + 1 + 1) := by
    split <;> omega
  cases left <;> cases zero <;> simp [e1, e2]
theorem printI_ptr (v : BitVec 64) (W : Nat) (ops : Ops) (hu : ops.upper = false) :
    ∃ pc, printI v false W 16 { ops with spec := true, prec := true, ptr := true } 16
      = some (pad ops.left W (igrisPtr v.toNat), pc) := by
  obtain ⟨pc, h⟩ := printI_form v false W 16 { ops with spec := true, prec := true, ptr := true } 16 (by omega) (by omega)
  refine ⟨pc, ?_⟩
  rw [h]
  have hD : digitsOf (if (false && v.msb) = true then -v else v).toNat 16 true ops.upper 16 = Nat.toDigits 16 v.toNat := by
    simp [digitsOf, hu, caseMap_false]
  have hP : ∀ nz m, prefixOf (false && v.msb) false { ops with spec := true, prec := true, ptr := true } 16 nz m = ['0', 'x'] := by
    intro nz m; simp [prefixOf, hu]
  simp only [hP]
  show some (layoutM ops.left ops.zero true (decide (16 = 8)) W 16 ['0', 'x']
        (digitsOf (if (false && v.msb) = true then -v else v).toNat 16 true ops.upper 16), pc) = _
  rw [hD]
  have h168 : decide (16 = 8) = false := by decide
  rw [h168, layout_ptr _ _ W _ (toDigits16_length v.toNat v.isLt)]
  rfl
end Igris.C06
