/-
  C09 — helper lemmas (byte images, the fault-checked memcpy, the element loop,
  std::map insertion of an ordered entry list).
-/
import IgrisModel.C09.Model
namespace Igris.C09
open Igris.Proto

/-! ### little-endian images -/

@[simp] theorem leBytes_length (w n : Nat) : (leBytes w n).length = w := by
  induction w generalizing n with
  | zero => rfl
  | succ w ih => simp [leBytes, ih]

theorem leVal_leBytes (w n : Nat) : leVal (leBytes w n) = n % 2 ^ (8 * w) := by
  induction w generalizing n with
  | zero => simp [leBytes, leVal, Nat.mod_one]
  | succ w ih =>
    simp only [leBytes, leVal, ih, BitVec.toNat_ofNat]
    have h : 2 ^ (8 * (w + 1)) = 256 * 2 ^ (8 * w) := by
      rw [Nat.mul_add, Nat.pow_add]; simp [Nat.mul_comm]
    rw [h, Nat.mod_mul]

theorem leVal_leBytes_of_lt (w n : Nat) (h : n < 2 ^ (8 * w)) : leVal (leBytes w n) = n := by
  rw [leVal_leBytes, Nat.mod_eq_of_lt h]

/-- byte `i` of the image is digit `i` of `n` in base 256 -/
theorem leBytes_getElem? (w n i : Nat) (h : i < w) :
    (leBytes w n)[i]? = some (BitVec.ofNat 8 (n / 256 ^ i)) := by
  induction w generalizing n i with
  | zero => omega
  | succ w ih =>
    cases i with
    | zero => simp [leBytes]
    | succ i =>
      simp only [leBytes, List.getElem?_cons_succ]
      rw [ih (n / 256) i (by omega), Nat.div_div_eq_div_mul, Nat.pow_succ, Nat.mul_comm]

theorem leVal_lt (bs : List Byte) : leVal bs < 2 ^ (8 * bs.length) := by
  induction bs with
  | nil => simp [leVal]
  | cons b bs ih =>
    have hb := b.isLt
    have h : 2 ^ (8 * (bs.length + 1)) = 256 * 2 ^ (8 * bs.length) := by
      rw [Nat.mul_add, Nat.pow_add]; simp [Nat.mul_comm]
    simp only [leVal, List.length_cons, h]
    omega

theorem leBytes_leVal (bs : List Byte) : leBytes bs.length (leVal bs) = bs := by
  induction bs with
  | nil => rfl
  | cons b bs ih =>
    have hb := b.isLt
    simp only [List.length_cons, leBytes, leVal]
    have h1 : (b.toNat + 256 * leVal bs) / 256 = leVal bs := by omega
    have h2 : BitVec.ofNat 8 (b.toNat + 256 * leVal bs) = b := by
      apply BitVec.eq_of_toNat_eq
      simp only [BitVec.toNat_ofNat]; omega
    rw [h1, h2, ih]

theorem u16_of_le {n : Nat} (h : n ≤ 65535) : u16 n = n := by
  unfold u16; omega

theorem width_le (k : Sc) : k.width ≤ 8 := by cases k <;> decide
theorem width_pos (k : Sc) : 0 < k.width := by cases k <;> decide

@[simp] theorem u16_width (k : Sc) : u16 k.width = k.width :=
  u16_of_le (by have := width_le k; omega)

/-! ### the fault-checked memcpy -/

theorem readN_append (xs rest : List Byte) : readN xs.length (xs ++ rest) = some (xs, rest) := by
  induction xs with
  | nil => simp [readN]
  | cons x xs ih => simp [readN, ih]

theorem readN_of_le (n : Nat) (rem : List Byte) (h : n ≤ rem.length) :
    readN n rem = some (rem.take n, rem.drop n) := by
  induction n generalizing rem with
  | zero => simp [readN]
  | succ n ih =>
    cases rem with
    | nil => simp at h
    | cons b rem =>
      simp only [List.length_cons] at h
      simp [readN, ih rem (by omega)]

theorem readN_none_of_lt (n : Nat) (rem : List Byte) (h : rem.length < n) : readN n rem = none := by
  induction n generalizing rem with
  | zero => omega
  | succ n ih =>
    cases rem with
    | nil => simp [readN]
    | cons b rem =>
      simp only [List.length_cons] at h
      simp [readN, ih rem (by omega)]

/-! ### scalars and buffers of the A stack -/

theorem dumpScalar_eq (k : Sc) (bits : Nat) : dumpScalar k bits = leBytes k.width bits := by
  simp only [dumpScalar, dumpData, u16_width]
  exact List.take_of_length_le (by simp)

@[simp] theorem dumpScalar_length (k : Sc) (bits : Nat) : (dumpScalar k bits).length = k.width := by
  simp [dumpScalar_eq]

theorem loadScalar_dumpScalar (k : Sc) (bits : Nat) (rest : List Byte) (h : bits < 2 ^ (8 * k.width)) :
    loadScalar k (dumpScalar k bits ++ rest) = some (bits, rest) := by
  have := readN_append (leBytes k.width bits) rest
  simp only [leBytes_length] at this
  simp [loadScalar, loadData, dumpScalar_eq, this, leVal_leBytes_of_lt _ _ h]

theorem loadScalar_u16 (n : Nat) (rest : List Byte) (h : n ≤ 65535) :
    loadScalar .u16 (dumpScalar .u16 (u16 n) ++ rest) = some (n, rest) := by
  rw [u16_of_le h]
  exact loadScalar_dumpScalar .u16 n rest (by simp [Sc.width]; omega)

theorem dumpBuffer_eq (bs : List Byte) (h : bs.length ≤ 65535) :
    dumpBuffer bs = leBytes 2 bs.length ++ bs := by
  simp [dumpBuffer, dumpData, dumpScalar_eq, u16_of_le h, Sc.width]

theorem loadBuffer_dumpBuffer (bs rest : List Byte) (h : bs.length ≤ 65535) :
    loadBuffer (dumpBuffer bs ++ rest) = some (bs, rest) := by
  unfold loadBuffer dumpBuffer
  rw [List.append_assoc, loadScalar_u16 _ _ h]
  simp [loadData, dumpData, u16_of_le h, readN_append]

/-! ### the element loop -/

theorem repeatN_flatMap {α : Type} (f : List Byte → Option (α × List Byte)) (enc : α → List Byte)
    (xs : List α) (rest : List Byte)
    (h : ∀ x ∈ xs, ∀ rest, f (enc x ++ rest) = some (x, rest)) :
    repeatN f xs.length (xs.flatMap enc ++ rest) = some (xs, rest) := by
  induction xs with
  | nil => simp [repeatN]
  | cons x xs ih =>
    have hx := h x (by simp) (xs.flatMap enc ++ rest)
    have ih' := ih (fun y hy => h y (by simp [hy]))
    simp [repeatN, hx, ih']

/-! ### std::map insertion -/

theorem mapInsert_append (kt : Ty) (kv : Val) (acc : List Val)
    (h : ∀ e ∈ acc, keyOrdered kt e kv) : mapInsert kt kv acc = acc ++ [kv] := by
  induction acc with
  | nil => rfl
  | cons e es ih =>
    have he := h e (by simp)
    simp only [keyOrdered] at he
    simp [mapInsert, he.1, he.2.1, ih (fun x hx => h x (by simp [hx]))]

theorem mapFromList_aux (kt : Ty) (kvs acc : List Val)
    (hk : kvs.Pairwise (keyOrdered kt)) (ha : ∀ e ∈ acc, ∀ x ∈ kvs, keyOrdered kt e x) :
    kvs.foldl (fun m kv => mapInsert kt kv m) acc = acc ++ kvs := by
  induction kvs generalizing acc with
  | nil => simp
  | cons x xs ih =>
    rw [List.pairwise_cons] at hk
    simp only [List.foldl_cons]
    rw [mapInsert_append kt x acc (fun e he => ha e he x (by simp))]
    rw [ih (acc ++ [x]) hk.2 ?_]
    · simp
    · intro e he y hy
      rcases List.mem_append.mp he with he | he
      · exact ha e he y (by simp [hy])
      · simp only [List.mem_singleton] at he; subst he; exact hk.1 y hy

/-- inserting the entries of an ordered list one by one rebuilds the list -/
theorem mapFromList_ordered (kt : Ty) (kvs : List Val) (hk : kvs.Pairwise (keyOrdered kt)) :
    mapFromList kt kvs = kvs := by
  have := mapFromList_aux kt kvs [] hk (by simp)
  simpa [mapFromList] using this

/-! ### the clamped storage read never faults -/

theorem loadS_eq (rem : List Byte) (size : Nat) :
    loadS rem size = some (rem.take size ++ List.replicate (size - rem.length) 0#8, rem.drop size) := by
  unfold loadS
  simp only [List.length_take]
  rw [readN_of_le _ _ (Nat.min_le_right _ _)]
  by_cases h : size ≤ rem.length
  · have h0 : size - rem.length = 0 := by omega
    simp [Nat.min_eq_left h, h0]
  · have h' : rem.length ≤ size := by omega
    simp [Nat.min_eq_right h', List.take_of_length_le h', List.drop_of_length_le h']

theorem loadS_full (bs rest : List Byte) : loadS (bs ++ rest) bs.length = some (bs, rest) := by
  rw [loadS_eq]; simp

/-! ### round trip of the A stack (mutual induction over the type descriptor) -/

mutual
theorem rtA : ∀ (ty : Ty) (v : Val) (rest : List Byte), WF ty v →
    decodeA ty (encodeA ty v ++ rest) = some (v, rest)
  | .sc k, v, rest, h => by
    simp only [WF] at h
    obtain ⟨n, rfl, hn⟩ := h
    simp [encodeA, decodeA, Val.bits, loadScalar_dumpScalar k n rest hn]
  | .str, v, rest, h => by
    simp only [WF] at h
    obtain ⟨bs, rfl, hn⟩ := h
    simp [encodeA, decodeA, Val.bs, loadBuffer_dumpBuffer bs rest hn]
  | .buf, v, rest, h => by
    simp only [WF] at h
    obtain ⟨bs, rfl, hn⟩ := h
    simp [encodeA, decodeA, Val.bs, loadBuffer_dumpBuffer bs rest hn]
  | .vec t, v, rest, h => by
    simp only [WF] at h
    obtain ⟨vs, rfl, hl, hall⟩ := h
    have ih : ∀ x ∈ vs, ∀ rest, decodeA t (encodeA t x ++ rest) = some (x, rest) :=
      fun x hx rest => rtA t x rest (hall x hx)
    simp only [encodeA, decodeA, Val.items, List.append_assoc, loadScalar_u16 _ _ hl,
      repeatN_flatMap (decodeA t) (encodeA t) vs rest ih]
  | .pair a b, v, rest, h => by
    simp only [WF] at h
    obtain ⟨x, y, rfl, hx, hy⟩ := h
    simp [encodeA, decodeA, Val.fst, Val.snd, Val.items, rtA a x _ hx, rtA b y _ hy]
  | .tuple ts, v, rest, h => by
    simp only [WF] at h
    obtain ⟨vs, rfl, hvs⟩ := h
    simp [encodeA, decodeA, Val.items, rtAs ts vs rest hvs]
  | .map k t, v, rest, h => by
    simp only [WF] at h
    obtain ⟨kvs, rfl, hl, hall, hord⟩ := h
    have ih : ∀ kv ∈ kvs, ∀ rest,
        (fun rem => match decodeA k rem with
          | none => none
          | some (x, r) =>
            match decodeA t r with
            | some (y, r2) => some (Val.list [x, y], r2)
            | none => none) ((fun kv => encodeA k kv.fst ++ encodeA t kv.snd) kv ++ rest) = some (kv, rest) := by
      intro kv hkv rest
      obtain ⟨x, y, rfl, hx, hy⟩ := hall kv hkv
      simp [Val.fst, Val.snd, Val.items, rtA k x _ hx, rtA t y _ hy]
    simp only [encodeA, decodeA, Val.items, List.append_assoc, loadScalar_u16 _ _ hl]
    rw [repeatN_flatMap _ _ kvs rest ih]
    simp [mapFromList_ordered k kvs hord]
  | .struct fs, v, rest, h => by
    simp only [WF] at h
    obtain ⟨vs, rfl, hvs⟩ := h
    simp [encodeA, decodeA, Val.items, rtAs fs vs rest hvs]
theorem rtAs : ∀ (ts : List Ty) (vs : List Val) (rest : List Byte), WFs ts vs →
    decodeFieldsA ts (encodeFieldsA ts vs ++ rest) = some (vs, rest)
  | [], vs, rest, h => by
    simp only [WFs] at h; subst h
    simp [encodeFieldsA, decodeFieldsA]
  | t :: ts, vs, rest, h => by
    simp only [WFs] at h
    obtain ⟨x, xs, rfl, hx, hxs⟩ := h
    simp [encodeFieldsA, decodeFieldsA, rtA t x _ hx, rtAs ts xs rest hxs]
end

/-! ### round trip of the S stack -/

theorem loadS_leBytes (w n : Nat) (rest : List Byte) :
    loadS (leBytes w n ++ rest) w = some (leBytes w n, rest) := by
  have := loadS_full (leBytes w n) rest
  simpa using this

mutual
theorem rtS : ∀ (ty : Ty) (v : Val) (rest : List Byte), ty.supportedS = true → WF ty v →
    decodeS ty (encodeS ty v ++ rest) = some (v, rest)
  | .sc k, v, rest, _, h => by
    simp only [WF] at h
    obtain ⟨n, rfl, hn⟩ := h
    simp [encodeS, decodeS, Val.bits, loadS_leBytes, leVal_leBytes_of_lt _ _ hn]
  | .vec t, v, rest, hs, h => by
    simp only [WF] at h
    obtain ⟨vs, rfl, hl, hall⟩ := h
    simp only [Ty.supportedS] at hs
    have ih : ∀ x ∈ vs, ∀ rest, decodeS t (encodeS t x ++ rest) = some (x, rest) :=
      fun x hx rest => rtS t x rest hs (hall x hx)
    have h2 : leVal (leBytes 2 vs.length) = vs.length := leVal_leBytes_of_lt _ _ (by omega)
    simp only [encodeS, decodeS, Val.items, List.append_assoc, u16_of_le hl, loadS_leBytes, h2,
      repeatN_flatMap (decodeS t) (encodeS t) vs rest ih]
  | .struct fs, v, rest, hs, h => by
    simp only [WF] at h
    obtain ⟨vs, rfl, hvs⟩ := h
    simp only [Ty.supportedS] at hs
    simp [encodeS, decodeS, Val.items, rtSs fs vs rest hs hvs]
  | .str, _, _, hs, _ => by simp [Ty.supportedS] at hs
  | .buf, _, _, hs, _ => by simp [Ty.supportedS] at hs
  | .pair _ _, _, _, hs, _ => by simp [Ty.supportedS] at hs
  | .tuple _, _, _, hs, _ => by simp [Ty.supportedS] at hs
  | .map _ _, _, _, hs, _ => by simp [Ty.supportedS] at hs
theorem rtSs : ∀ (ts : List Ty) (vs : List Val) (rest : List Byte), supportedSs ts = true → WFs ts vs →
    decodeFieldsS ts (encodeFieldsS ts vs ++ rest) = some (vs, rest)
  | [], vs, rest, _, h => by
    simp only [WFs] at h; subst h
    simp [encodeFieldsS, decodeFieldsS]
  | t :: ts, vs, rest, hs, h => by
    simp only [WFs] at h
    obtain ⟨x, xs, rfl, hx, hxs⟩ := h
    simp only [supportedSs, Bool.and_eq_true] at hs
    simp [encodeFieldsS, decodeFieldsS, rtS t x _ hs.1 hx, rtSs ts xs rest hs.2 hxs]
end

/-! ### both stacks write the same bytes for the types both accept -/

mutual
theorem encS_eq_encA : ∀ (ty : Ty) (v : Val), ty.supportedS = true → encodeS ty v = encodeA ty v
  | .sc k, v, _ => by simp [encodeS, encodeA, dumpScalar_eq]
  | .vec t, v, hs => by
    simp only [Ty.supportedS] at hs
    have : v.items.flatMap (encodeS t) = v.items.flatMap (encodeA t) := by
      have hf : encodeS t = encodeA t := funext fun x => encS_eq_encA t x hs
      rw [hf]
    simp [encodeS, encodeA, dumpScalar_eq, Sc.width, this]
  | .struct fs, v, hs => by
    simp only [Ty.supportedS] at hs
    simp [encodeS, encodeA, encSs_eq_encAs fs v.items hs]
  | .str, _, hs => by simp [Ty.supportedS] at hs
  | .buf, _, hs => by simp [Ty.supportedS] at hs
  | .pair _ _, _, hs => by simp [Ty.supportedS] at hs
  | .tuple _, _, hs => by simp [Ty.supportedS] at hs
  | .map _ _, _, hs => by simp [Ty.supportedS] at hs
theorem encSs_eq_encAs : ∀ (ts : List Ty) (vs : List Val), supportedSs ts = true →
    encodeFieldsS ts vs = encodeFieldsA ts vs
  | [], _, _ => by simp [encodeFieldsS, encodeFieldsA]
  | t :: ts, vs, hs => by
    simp only [supportedSs, Bool.and_eq_true] at hs
    simp [encodeFieldsS, encodeFieldsA, encS_eq_encA t _ hs.1, encSs_eq_encAs ts _ hs.2]
end

/-! ### the bounded reader: every decoder over `loadS` returns, and leaves a suffix of its input -/

/-- a decoder step that never faults and only moves forward inside its input -/
def Safe {α : Type} (f : List Byte → Option (α × List Byte)) : Prop :=
  ∀ rem, ∃ x c, c ≤ rem.length ∧ f rem = some (x, rem.drop c)

theorem safe_loadS (size : Nat) : Safe (fun rem => loadS rem size) := by
  intro rem
  refine ⟨rem.take size ++ List.replicate (size - rem.length) 0#8, min size rem.length,
    Nat.min_le_right _ _, ?_⟩
  show loadS rem size = _
  rw [loadS_eq]
  by_cases h : size ≤ rem.length
  · simp [Nat.min_eq_left h]
  · have h' : rem.length ≤ size := by omega
    simp [Nat.min_eq_right h', List.drop_of_length_le h']

theorem safe_repeatN {α : Type} (f : List Byte → Option (α × List Byte)) (hf : Safe f) (n : Nat) :
    Safe (repeatN f n) := by
  induction n with
  | zero => intro rem; exact ⟨[], 0, by omega, by simp [repeatN]⟩
  | succ n ih =>
    intro rem
    obtain ⟨x, c, hc, e1⟩ := hf rem
    obtain ⟨xs, c2, hc2, e2⟩ := ih (rem.drop c)
    refine ⟨x :: xs, c + c2, ?_, ?_⟩
    · simp only [List.length_drop] at hc2; omega
    · simp [repeatN, e1, e2, List.drop_drop]

mutual
theorem safe_decodeS : ∀ (ty : Ty), Safe (decodeS ty)
  | .sc k => by
    intro rem
    obtain ⟨bs, c, hc, e⟩ := safe_loadS k.width rem
    exact ⟨_, c, hc, by simp only [decodeS]; simp only [] at e; rw [e]⟩
  | .vec t => by
    intro rem
    obtain ⟨bs, c, hc, e⟩ := safe_loadS 2 rem
    obtain ⟨xs, c2, hc2, e2⟩ := safe_repeatN (decodeS t) (safe_decodeS t) (leVal bs) (rem.drop c)
    refine ⟨.list xs, c + c2, ?_, ?_⟩
    · simp only [List.length_drop] at hc2; omega
    · simp only [] at e
      simp [decodeS, e, e2, List.drop_drop]
  | .struct fs => by
    intro rem
    obtain ⟨xs, c, hc, e⟩ := safe_decodeFieldsS fs rem
    exact ⟨.list xs, c, hc, by simp [decodeS, e]⟩
  | .str => fun rem => ⟨default, 0, by omega, by simp [decodeS]⟩
  | .buf => fun rem => ⟨default, 0, by omega, by simp [decodeS]⟩
  | .pair _ _ => fun rem => ⟨default, 0, by omega, by simp [decodeS]⟩
  | .tuple _ => fun rem => ⟨default, 0, by omega, by simp [decodeS]⟩
  | .map _ _ => fun rem => ⟨default, 0, by omega, by simp [decodeS]⟩
theorem safe_decodeFieldsS : ∀ (ts : List Ty), Safe (decodeFieldsS ts)
  | [] => fun rem => ⟨[], 0, by omega, by simp [decodeFieldsS]⟩
  | t :: ts => by
    intro rem
    obtain ⟨x, c, hc, e1⟩ := safe_decodeS t rem
    obtain ⟨xs, c2, hc2, e2⟩ := safe_decodeFieldsS ts (rem.drop c)
    refine ⟨x :: xs, c + c2, ?_, ?_⟩
    · simp only [List.length_drop] at hc2; omega
    · simp [decodeFieldsS, e1, e2, List.drop_drop]
end

/-! ### the raw-image vector body of the unrepaired tree -/

theorem flatMap_leBytes_length (w : Nat) (vs : List Val) :
    (vs.flatMap fun v => leBytes w v.bits).length = vs.length * w := by
  induction vs with
  | nil => simp
  | cons v vs ih => simp [List.flatMap_cons, ih, Nat.add_mul, Nat.add_comm]

/-! ### the executable well-formedness check implies `WF` -/

theorem pairwiseB_sound (r : Val → Val → Bool) (l : List Val) (h : pairwiseB r l = true) :
    l.Pairwise (fun a b => r a b = true) := by
  induction l with
  | nil => exact List.Pairwise.nil
  | cons x xs ih =>
    simp only [pairwiseB, Bool.and_eq_true, List.all_eq_true] at h
    exact List.Pairwise.cons h.1 (ih h.2)

theorem entry_shape (k t : Ty) (kv : Val)
    (h : (match kv with
        | .list [x, y] => wfb k x && wfb t y
        | _ => false) = true) :
    ∃ x y, kv = .list [x, y] ∧ wfb k x = true ∧ wfb t y = true := by
  match kv, h with
  | .list [x, y], h =>
    simp only [Bool.and_eq_true] at h
    exact ⟨x, y, rfl, h.1, h.2⟩

mutual
theorem wfb_sound : ∀ (ty : Ty) (v : Val), wfb ty v = true → WF ty v
  | .sc k, v, h => by
    cases v <;> simp [wfb] at h
    simp only [WF]; exact ⟨_, rfl, h⟩
  | .str, v, h => by
    cases v <;> simp [wfb] at h
    simp only [WF]; exact ⟨_, rfl, h⟩
  | .buf, v, h => by
    cases v <;> simp [wfb] at h
    simp only [WF]; exact ⟨_, rfl, h⟩
  | .vec t, v, h => by
    cases v <;> simp [wfb] at h
    simp only [WF]
    exact ⟨_, rfl, h.1, fun x hx => wfb_sound t x (h.2 x hx)⟩
  | .pair a b, v, h => by
    match v, h with
    | .list [x, y], h =>
      simp only [wfb, Bool.and_eq_true] at h
      simp only [WF]
      exact ⟨x, y, rfl, wfb_sound a x h.1, wfb_sound b y h.2⟩
  | .tuple ts, v, h => by
    cases v <;> simp [wfb] at h
    simp only [WF]; exact ⟨_, rfl, wfbs_sound ts _ h⟩
  | .map k t, v, h => by
    match v, h with
    | .list kvs, h =>
      simp only [wfb, Bool.and_eq_true, List.all_eq_true, decide_eq_true_eq] at h
      simp only [WF]
      refine ⟨kvs, rfl, h.1.1, ?_, ?_⟩
      · intro kv hkv
        obtain ⟨x, y, e, hx, hy⟩ := entry_shape k t kv (h.1.2 kv hkv)
        exact ⟨x, y, e, wfb_sound k x hx, wfb_sound t y hy⟩
      · have := pairwiseB_sound _ _ h.2
        refine this.imp ?_
        intro a b hab
        simp only [Bool.and_eq_true, Bool.not_eq_true'] at hab
        exact ⟨hab.1.1.1, hab.1.1.2, hab.1.2, hab.2⟩
  | .struct fs, v, h => by
    cases v <;> simp [wfb] at h
    simp only [WF]; exact ⟨_, rfl, wfbs_sound fs _ h⟩
theorem wfbs_sound : ∀ (ts : List Ty) (vs : List Val), wfbs ts vs = true → WFs ts vs
  | [], vs, h => by
    cases vs <;> simp [wfbs] at h
    simp [WFs]
  | t :: ts, vs, h => by
    cases vs with
    | nil => simp [wfbs] at h
    | cons x xs =>
      simp only [wfbs, Bool.and_eq_true] at h
      simp only [WFs]
      exact ⟨x, xs, rfl, wfb_sound t x h.1, wfbs_sound ts xs h.2⟩
end

theorem vec_raw_wraps (k : Sc) (vs : List Val) (h : vs.length * k.width = 65536) :
    encodeVecRaw k vs = leBytes 2 (u16 vs.length) := by
  have h0 : u16 (vs.length * k.width) = 0 := by rw [h]; rfl
  simp only [encodeVecRaw, dumpData, h0, dumpScalar_eq, List.take_zero, List.append_nil]
  rfl

end Igris.C09
