/-
  C09 extension 2 — THE DOCUMENTED WIRE FORMAT, written from the format description
  alone.  Nothing of the model's writer is used: no `u16`, no `dumpData`/`dumpScalar`,
  no `leBytes` (the byte image is the closed form "byte i = ⌊n / 256^i⌋ mod 256"),
  no value accessors (the value is taken apart by pattern matching).  Only the
  type/value universe `Ty`/`Val` and the platform's `sizeof` table `Sc.width` are shared.
-/
import IgrisModel.C09.More
namespace Igris.C09
open Igris.Proto

/-- a `w`-byte unsigned little-endian number: byte `i` is digit `i` of `n` in base 256 -/
def digitsLE (w n : Nat) : List Byte := (List.range w).map fun i => BitVec.ofNat 8 (n / 256 ^ i)

mutual
/-- the format:
  * arithmetic type  — its `sizeof` bytes, least significant first;
  * string / buffer  — 2-byte length, then the bytes;
  * vector           — 2-byte element count, then the elements;
  * map              — 2-byte entry count, then key, value, key, value … in key order;
  * pair / tuple / user type — the members in declaration order, nothing else. -/
def layoutDoc : Ty → Val → List Byte
  | .sc k, .sc n => digitsLE k.width n
  | .str, .bytes bs => digitsLE 2 bs.length ++ bs
  | .buf, .bytes bs => digitsLE 2 bs.length ++ bs
  | .vec t, .list vs => digitsLE 2 vs.length ++ vs.flatMap (layoutDoc t)
  | .pair a b, .list [x, y] => layoutDoc a x ++ layoutDoc b y
  | .tuple ts, .list vs => layoutDocSeq ts vs
  | .map k t, .list kvs => digitsLE 2 kvs.length ++ kvs.flatMap fun kv =>
      match kv with
      | .list [x, y] => layoutDoc k x ++ layoutDoc t y
      | _ => []
  | .struct fs, .list vs => layoutDocSeq fs vs
  | _, _ => []
def layoutDocSeq : List Ty → List Val → List Byte
  | t :: ts, v :: vs => layoutDoc t v ++ layoutDocSeq ts vs
  | _, _ => []
end

theorem digitsLE_eq (w n : Nat) : digitsLE w n = leBytes w n := by
  apply List.ext_getElem?
  intro i
  by_cases h : i < w
  · rw [leBytes_getElem? w n i h]
    simp [digitsLE, h]
  · have h1 : (digitsLE w n)[i]? = none := List.getElem?_eq_none (by simp [digitsLE]; omega)
    have h2 : (leBytes w n)[i]? = none := List.getElem?_eq_none (by simp; omega)
    rw [h1, h2]

mutual
theorem encodeA_eq_layoutDoc : ∀ (ty : Ty) (v : Val), WF ty v → encodeA ty v = layoutDoc ty v
  | .sc k, v, h => by
    simp only [WF] at h; obtain ⟨n, rfl, _⟩ := h
    simp [encodeA, layoutDoc, dumpScalar_eq, digitsLE_eq, Val.bits]
  | .str, v, h => by
    simp only [WF] at h; obtain ⟨bs, rfl, hn⟩ := h
    simp [encodeA, layoutDoc, Val.bs, dumpBuffer_eq bs hn, digitsLE_eq]
  | .buf, v, h => by
    simp only [WF] at h; obtain ⟨bs, rfl, hn⟩ := h
    simp [encodeA, layoutDoc, Val.bs, dumpBuffer_eq bs hn, digitsLE_eq]
  | .vec t, v, h => by
    simp only [WF] at h; obtain ⟨vs, rfl, hl, hall⟩ := h
    have := flatMap_congr' (encodeA t) (layoutDoc t) vs (fun x hx => encodeA_eq_layoutDoc t x (hall x hx))
    simp [encodeA, layoutDoc, Val.items, dumpScalar_eq, u16_of_le hl, Sc.width, this, digitsLE_eq]
  | .pair a b, v, h => by
    simp only [WF] at h; obtain ⟨x, y, rfl, hx, hy⟩ := h
    simp [encodeA, layoutDoc, Val.fst, Val.snd, Val.items, encodeA_eq_layoutDoc a x hx, encodeA_eq_layoutDoc b y hy]
  | .tuple ts, v, h => by
    simp only [WF] at h; obtain ⟨vs, rfl, hvs⟩ := h
    simp [encodeA, layoutDoc, Val.items, encodeFieldsA_eq_layoutDoc ts vs hvs]
  | .map k t, v, h => by
    simp only [WF] at h; obtain ⟨kvs, rfl, hl, hall, _⟩ := h
    have := flatMap_congr' (fun kv => encodeA k kv.fst ++ encodeA t kv.snd)
      (fun kv => match kv with
        | .list [x, y] => layoutDoc k x ++ layoutDoc t y
        | _ => []) kvs (fun kv hkv => by
        obtain ⟨x, y, rfl, hx, hy⟩ := hall kv hkv
        have e1 : (Val.list [x, y]).fst = x := rfl
        have e2 : (Val.list [x, y]).snd = y := rfl
        simp only [e1, e2, encodeA_eq_layoutDoc k x hx, encodeA_eq_layoutDoc t y hy])
    simp [encodeA, layoutDoc, Val.items, dumpScalar_eq, u16_of_le hl, Sc.width, this, digitsLE_eq]
  | .struct fs, v, h => by
    simp only [WF] at h; obtain ⟨vs, rfl, hvs⟩ := h
    simp [encodeA, layoutDoc, Val.items, encodeFieldsA_eq_layoutDoc fs vs hvs]
theorem encodeFieldsA_eq_layoutDoc : ∀ (ts : List Ty) (vs : List Val), WFs ts vs →
    encodeFieldsA ts vs = layoutDocSeq ts vs
  | [], vs, h => by simp only [WFs] at h; subst h; simp [encodeFieldsA, layoutDocSeq]
  | t :: ts, vs, h => by
    simp only [WFs] at h
    obtain ⟨x, xs, rfl, hx, hxs⟩ := h
    simp [encodeFieldsA, layoutDocSeq, encodeA_eq_layoutDoc t x hx, encodeFieldsA_eq_layoutDoc ts xs hxs]
end

end Igris.C09
