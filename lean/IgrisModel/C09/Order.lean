/-
  C09 extension 2 — the key order of `std::map<K, …>` on the whole type universe:
  `keyLt` is a strict weak order on the keys without NaN (asymmetric +
  negatively transitive, hence transitive with a transitive incomparability),
  and `std::map::insert` over ANY wire order of entries yields a map value
  (`Pairwise keyOrdered`).
-/
import IgrisModel.C09.Lemmas
namespace Igris.C09
open Igris.Proto

/-- strict weak order of a Bool-valued relation on the values satisfying `P`:
asymmetric and negatively transitive -/
structure SWO (P : Val → Prop) (lt : Val → Val → Bool) : Prop where
  asym : ∀ a b, P a → P b → lt a b = true → lt b a = false
  neg : ∀ a b c, P a → P b → P c → lt a c = true → lt a b = true ∨ lt b c = true

theorem SWO.irrefl {P lt} (h : SWO P lt) (a : Val) (ha : P a) : lt a a = false := by
  cases e : lt a a with
  | false => rfl
  | true => have := h.asym a a ha ha e; rw [e] at this; exact this

theorem SWO.trans {P lt} (h : SWO P lt) (a b c : Val) (ha : P a) (hb : P b) (hc : P c)
    (h1 : lt a b = true) (h2 : lt b c = true) : lt a c = true := by
  rcases h.neg a c b ha hc hb h1 with h3 | h3
  · exact h3
  · have := h.asym b c hb hc h2; rw [h3] at this; exact absurd this (by simp)

/-- incomparability (= equivalence of keys in a `std::map`) is transitive -/
theorem SWO.equiv_trans {P lt} (h : SWO P lt) (a b c : Val) (ha : P a) (hb : P b) (hc : P c)
    (h1 : lt a b = false) (h2 : lt b a = false) (h3 : lt b c = false) (h4 : lt c b = false) :
    lt a c = false ∧ lt c a = false := by
  constructor
  · cases e : lt a c with
    | false => rfl
    | true => rcases h.neg a b c ha hb hc e with h5 | h5 <;> simp_all
  · cases e : lt c a with
    | false => rfl
    | true => rcases h.neg c b a hc hb ha e with h5 | h5 <;> simp_all

/-! ### scalars -/

/-- the number a clean scalar is compared by -/
def scOrd (k : Sc) (n : Nat) : Int :=
  if k.isFloat then fOrd k.width n else if k.signed then toInt k.width n else (n : Int)

theorem scLt_eq (k : Sc) (a b : Nat) (ha : isNaN k a = false) (hb : isNaN k b = false) :
    scLt k a b = decide (scOrd k a < scOrd k b) := by
  unfold scLt scOrd
  by_cases hf : k.isFloat = true
  · simp [hf, ha, hb]
  · simp only [hf]
    by_cases hs : k.signed = true
    · simp [hs]
    · simp [hs]

theorem swo_sc (k : Sc) : SWO (fun v => isNaN k v.bits = false) (fun x y => scLt k x.bits y.bits) where
  asym := by
    intro a b ha hb h
    rw [scLt_eq k _ _ ha hb] at h
    rw [scLt_eq k _ _ hb ha]
    simp only [decide_eq_true_eq] at h
    simp only [decide_eq_false_iff_not]
    omega
  neg := by
    intro a b c ha hb hc h
    rw [scLt_eq k _ _ ha hc] at h
    rw [scLt_eq k _ _ ha hb, scLt_eq k _ _ hb hc]
    simp only [decide_eq_true_eq] at h ⊢
    omega

/-! ### strings -/

theorem bytesLt_asym : ∀ (a b : List Byte), bytesLt a b = true → bytesLt b a = false
  | _, [], h => by simp [bytesLt] at h
  | [], _ :: _, _ => by simp [bytesLt]
  | x :: xs, y :: ys, h => by
    simp only [bytesLt] at h ⊢
    by_cases h1 : x.toNat < y.toNat
    · have : ¬ y.toNat < x.toNat := by omega
      simp [this, h1]
    · by_cases h2 : y.toNat < x.toNat
      · simp [h1, h2] at h
      · simp only [h1, h2, if_false] at h ⊢
        exact bytesLt_asym xs ys h

theorem bytesLt_neg : ∀ (a b c : List Byte), bytesLt a c = true → bytesLt a b = true ∨ bytesLt b c = true
  | _, _, [], h => by simp [bytesLt] at h
  | [], [], _ :: _, _ => by simp [bytesLt]
  | [], _ :: _, _ :: _, _ => by simp [bytesLt]
  | _ :: _, [], _ :: _, _ => by simp [bytesLt]
  | x :: xs, y :: ys, z :: zs, h => by
    simp only [bytesLt] at h ⊢
    by_cases h1 : x.toNat < z.toNat
    · by_cases h2 : x.toNat < y.toNat
      · simp [h2]
      · have h3 : y.toNat < z.toNat := by omega
        simp [h3]
    · by_cases h2 : z.toNat < x.toNat
      · simp [h1, h2] at h
      · simp only [h1, h2, if_false] at h
        have hxz : x.toNat = z.toNat := by omega
        by_cases h3 : x.toNat < y.toNat
        · simp [h3]
        · by_cases h4 : y.toNat < x.toNat
          · have : y.toNat < z.toNat := by omega
            simp [this]
          · have h5 : ¬ y.toNat < z.toNat := by omega
            have h6 : ¬ z.toNat < y.toNat := by omega
            simp only [h3, h4, h5, h6, if_false]
            exact bytesLt_neg xs ys zs h

theorem swo_bytes : SWO (fun _ => True) (fun x y => bytesLt x.bs y.bs) where
  asym := fun _ _ _ _ h => bytesLt_asym _ _ h
  neg := fun _ _ _ _ _ _ h => bytesLt_neg _ _ _ h

/-! ### lexicographic combinations -/

/-- the `std::pair` step on Booleans: asymmetry -/
theorem lex2_asym {p q p' q' : Bool} (hp : p = true → p' = false) (hq : q = true → q' = false)
    (h : (p || (!p' && q)) = true) : (p' || (!p && q')) = false := by
  cases p <;> cases p' <;> cases q <;> cases q' <;> simp_all

/-- the `std::pair` step on Booleans: negative transitivity -/
theorem lex2_neg {ac ab bc ba cb ca sac sab sbc : Bool}
    (n1 : ac = true → ab = true ∨ bc = true) (n3 : ba = true → bc = true ∨ ca = true)
    (n4 : cb = true → ca = true ∨ ab = true) (n2 : sac = true → sab = true ∨ sbc = true)
    (h : (ac || (!ca && sac)) = true) : (ab || (!ba && sab)) = true ∨ (bc || (!cb && sbc)) = true := by
  cases ac <;> cases ab <;> cases bc <;> cases ba <;> cases cb <;> cases ca <;>
    cases sac <;> cases sab <;> cases sbc <;> simp_all

theorem swo_pair {P1 P2 : Val → Prop} {l1 l2 : Val → Val → Bool} (h1 : SWO P1 l1) (h2 : SWO P2 l2) :
    SWO (fun v => P1 v.fst ∧ P2 v.snd) (pairLt l1 l2) where
  asym := by
    intro a b ha hb h
    unfold pairLt at h ⊢
    exact lex2_asym (h1.asym _ _ ha.1 hb.1) (h2.asym _ _ ha.2 hb.2) h
  neg := by
    intro a b c ha hb hc h
    unfold pairLt at h ⊢
    exact lex2_neg (h1.neg a.fst b.fst c.fst ha.1 hb.1 hc.1) (h1.neg b.fst c.fst a.fst hb.1 hc.1 ha.1)
      (h1.neg c.fst a.fst b.fst hc.1 ha.1 hb.1) (h2.neg a.snd b.snd c.snd ha.2 hb.2 hc.2) h

theorem lexBy_asym {P : Val → Prop} {lt : Val → Val → Bool} (h : SWO P lt) :
    ∀ (xs ys : List Val), (∀ x ∈ xs, P x) → (∀ y ∈ ys, P y) → lexBy lt xs ys = true → lexBy lt ys xs = false
  | _, [], _, _, e => by simp [lexBy] at e
  | [], _ :: _, _, _, _ => by simp [lexBy]
  | x :: xs, y :: ys, hx, hy, e => by
    have px := hx x (by simp)
    have py := hy y (by simp)
    simp only [lexBy] at e ⊢
    cases e1 : lt x y with
    | true => simp [h.asym x y px py e1]
    | false =>
      cases e2 : lt y x with
      | true => simp [e1, e2] at e
      | false =>
        simp only [e1, e2, Bool.false_eq_true, if_false] at e ⊢
        exact lexBy_asym h xs ys (fun z hz => hx z (by simp [hz])) (fun z hz => hy z (by simp [hz])) e

theorem lexBy_neg {P : Val → Prop} {lt : Val → Val → Bool} (h : SWO P lt) :
    ∀ (xs ys zs : List Val), (∀ x ∈ xs, P x) → (∀ y ∈ ys, P y) → (∀ z ∈ zs, P z) →
      lexBy lt xs zs = true → lexBy lt xs ys = true ∨ lexBy lt ys zs = true
  | _, _, [], _, _, _, e => by simp [lexBy] at e
  | [], [], _ :: _, _, _, _, _ => by simp [lexBy]
  | [], _ :: _, _ :: _, _, _, _, _ => by simp [lexBy]
  | _ :: _, [], _ :: _, _, _, _, _ => by simp [lexBy]
  | x :: xs, y :: ys, z :: zs, hx, hy, hz, e => by
    have px := hx x (by simp)
    have py := hy y (by simp)
    have pz := hz z (by simp)
    have ih := lexBy_neg h xs ys zs (fun w hw => hx w (by simp [hw])) (fun w hw => hy w (by simp [hw]))
      (fun w hw => hz w (by simp [hw]))
    have n1 := h.neg x y z px py pz
    have n2 := h.neg y z x py pz px
    have n3 := h.neg z x y pz px py
    have a1 := h.asym x z px pz
    simp only [lexBy] at e ⊢
    cases e1 : lt x z <;> cases e2 : lt x y <;> cases e3 : lt y z <;>
      cases e4 : lt y x <;> cases e5 : lt z y <;> cases e6 : lt z x <;> simp_all

theorem swo_lex {P : Val → Prop} {lt : Val → Val → Bool} (h : SWO P lt) :
    SWO (fun v => ∀ x ∈ v.items, P x) (fun x y => lexBy lt x.items y.items) where
  asym := fun a b ha hb e => lexBy_asym h _ _ ha hb e
  neg := fun a b c ha hb hc e => lexBy_neg h _ _ _ ha hb hc e

/-! ### the whole universe -/

/-- `P`/`lt` of a field list (tuple / `std::tie` of a user type) -/
structure SWOs (P : List Val → Prop) (lt : List Val → List Val → Bool) : Prop where
  asym : ∀ a b, P a → P b → lt a b = true → lt b a = false
  neg : ∀ a b c, P a → P b → P c → lt a c = true → lt a b = true ∨ lt b c = true

theorem swo_of_fields {ts : List Ty} (h : SWOs (fun vs => keyCleanFields ts vs = true) (keyLtFields ts)) :
    SWO (fun v => keyCleanFields ts v.items = true) (fun x y => keyLtFields ts x.items y.items) where
  asym := fun a b ha hb e => h.asym _ _ ha hb e
  neg := fun a b c ha hb hc e => h.neg _ _ _ ha hb hc e

mutual
theorem swo_key : ∀ (ty : Ty), SWO (fun v => keyClean ty v = true) (keyLt ty)
  | .sc k => by
    have := swo_sc k
    refine ⟨fun a b ha hb e => ?_, fun a b c ha hb hc e => ?_⟩
    · simp only [keyClean, Bool.not_eq_true'] at ha hb
      simp only [keyLt] at e ⊢
      exact this.asym a b ha hb e
    · simp only [keyClean, Bool.not_eq_true'] at ha hb hc
      simp only [keyLt] at e ⊢
      exact this.neg a b c ha hb hc e
  | .str => by
    refine ⟨fun _ _ _ _ e => ?_, fun _ _ _ _ _ _ e => ?_⟩
    · simp only [keyLt] at e ⊢; exact bytesLt_asym _ _ e
    · simp only [keyLt] at e ⊢; exact bytesLt_neg _ _ _ e
  | .buf => by
    refine ⟨fun _ _ _ _ e => ?_, fun _ _ _ _ _ _ e => ?_⟩
    · simp only [keyLt] at e ⊢; exact bytesLt_asym _ _ e
    · simp only [keyLt] at e ⊢; exact bytesLt_neg _ _ _ e
  | .vec t => by
    have := swo_lex (swo_key t)
    refine ⟨fun a b ha hb e => ?_, fun a b c ha hb hc e => ?_⟩
    · simp only [keyClean, List.all_eq_true] at ha hb
      simp only [keyLt] at e ⊢
      exact this.asym a b ha hb e
    · simp only [keyClean, List.all_eq_true] at ha hb hc
      simp only [keyLt] at e ⊢
      exact this.neg a b c ha hb hc e
  | .pair a b => by
    have := swo_pair (swo_key a) (swo_key b)
    refine ⟨fun x y hx hy e => ?_, fun x y z hx hy hz e => ?_⟩
    · simp only [keyClean, Bool.and_eq_true] at hx hy
      simp only [keyLt] at e ⊢
      exact this.asym x y hx hy e
    · simp only [keyClean, Bool.and_eq_true] at hx hy hz
      simp only [keyLt] at e ⊢
      exact this.neg x y z hx hy hz e
  | .tuple ts => by
    have := swo_of_fields (swo_keys ts)
    refine ⟨fun x y hx hy e => ?_, fun x y z hx hy hz e => ?_⟩
    · simp only [keyClean] at hx hy
      simp only [keyLt] at e ⊢
      exact this.asym x y hx hy e
    · simp only [keyClean] at hx hy hz
      simp only [keyLt] at e ⊢
      exact this.neg x y z hx hy hz e
  | .map k t => by
    have := swo_lex (swo_pair (swo_key k) (swo_key t))
    refine ⟨fun x y hx hy e => ?_, fun x y z hx hy hz e => ?_⟩
    · simp only [keyClean, List.all_eq_true, Bool.and_eq_true] at hx hy
      simp only [keyLt] at e ⊢
      exact this.asym x y hx hy e
    · simp only [keyClean, List.all_eq_true, Bool.and_eq_true] at hx hy hz
      simp only [keyLt] at e ⊢
      exact this.neg x y z hx hy hz e
  | .struct fs => by
    have := swo_of_fields (swo_keys fs)
    refine ⟨fun x y hx hy e => ?_, fun x y z hx hy hz e => ?_⟩
    · simp only [keyClean] at hx hy
      simp only [keyLt] at e ⊢
      exact this.asym x y hx hy e
    · simp only [keyClean] at hx hy hz
      simp only [keyLt] at e ⊢
      exact this.neg x y z hx hy hz e
theorem swo_keys : ∀ (ts : List Ty), SWOs (fun vs => keyCleanFields ts vs = true) (keyLtFields ts)
  | [] => ⟨fun _ _ _ _ e => by simp [keyLtFields] at e, fun _ _ _ _ _ _ e => by simp [keyLtFields] at e⟩
  | t :: ts => by
    have h1 := swo_key t
    have h2 := swo_keys ts
    refine ⟨fun a b ha hb e => ?_, fun a b c ha hb hc e => ?_⟩
    · simp only [keyCleanFields, Bool.and_eq_true] at ha hb
      simp only [keyLtFields] at e ⊢
      exact lex2_asym (h1.asym _ _ ha.1 hb.1) (h2.asym _ _ ha.2 hb.2) e
    · simp only [keyCleanFields, Bool.and_eq_true] at ha hb hc
      simp only [keyLtFields] at e ⊢
      exact lex2_neg (h1.neg (a.headD default) (b.headD default) (c.headD default) ha.1 hb.1 hc.1)
        (h1.neg (b.headD default) (c.headD default) (a.headD default) hb.1 hc.1 ha.1)
        (h1.neg (c.headD default) (a.headD default) (b.headD default) hc.1 ha.1 hb.1)
        (h2.neg a.tail b.tail c.tail ha.2 hb.2 hc.2) e
end

/-! ### `std::map::insert` over any wire order yields a map value -/

/-- every entry of the list has a clean key -/
def CleanKeys (kt : Ty) (kvs : List Val) : Prop := ∀ e ∈ kvs, keyClean kt e.fst = true

theorem mapInsert_mem (kt : Ty) (kv : Val) (m : List Val) : ∀ e ∈ mapInsert kt kv m, e = kv ∨ e ∈ m := by
  induction m with
  | nil => intro e he; simp [mapInsert] at he; exact Or.inl he
  | cons x xs ih =>
    intro e he
    simp only [mapInsert] at he
    split at he
    · simp only [List.mem_cons] at he ⊢; rcases he with h | h | h <;> simp [h]
    · split at he
      · simp only [List.mem_cons] at he ⊢
        rcases he with h | h
        · simp [h]
        · rcases ih e h with h | h <;> simp [h]
      · exact Or.inr he

theorem mapInsert_sorted (kt : Ty) (kv : Val) (m : List Val) (hk : keyClean kt kv.fst = true)
    (hc : CleanKeys kt m) (hs : m.Pairwise (keyOrdered kt)) : (mapInsert kt kv m).Pairwise (keyOrdered kt) := by
  have sw := swo_key kt
  induction m with
  | nil => simp [mapInsert]
  | cons x xs ih =>
    have hx := hc x (by simp)
    have hcx : CleanKeys kt xs := fun e he => hc e (by simp [he])
    rw [List.pairwise_cons] at hs
    simp only [mapInsert]
    split
    · rename_i h1
      refine List.Pairwise.cons ?_ (List.Pairwise.cons hs.1 hs.2)
      intro e he
      simp only [List.mem_cons] at he
      rcases he with rfl | he
      · exact ⟨h1, sw.asym _ _ hk hx h1, hk, hx⟩
      · have hxe := hs.1 e he
        have hlt := sw.trans _ _ _ hk hx (hcx e he) h1 hxe.1
        exact ⟨hlt, sw.asym _ _ hk (hcx e he) hlt, hk, hcx e he⟩
    · split
      · rename_i h1 h2
        refine List.Pairwise.cons ?_ (ih hcx hs.2)
        intro e he
        rcases mapInsert_mem kt kv xs e he with rfl | he
        · exact ⟨h2, sw.asym _ _ hx hk h2, hx, hk⟩
        · exact hs.1 e he
      · exact List.Pairwise.cons hs.1 hs.2

theorem mapFromList_sorted_aux (kt : Ty) (kvs acc : List Val) (hk : CleanKeys kt kvs) (hc : CleanKeys kt acc)
    (hs : acc.Pairwise (keyOrdered kt)) :
    (kvs.foldl (fun m kv => mapInsert kt kv m) acc).Pairwise (keyOrdered kt) ∧
    ∀ e ∈ kvs.foldl (fun m kv => mapInsert kt kv m) acc, e ∈ acc ∨ e ∈ kvs := by
  induction kvs generalizing acc with
  | nil => exact ⟨hs, fun e he => Or.inl he⟩
  | cons x xs ih =>
    simp only [List.foldl_cons]
    have hx := hk x (by simp)
    have hc' : CleanKeys kt (mapInsert kt x acc) := by
      intro e he
      rcases mapInsert_mem kt x acc e he with rfl | he
      · exact hx
      · exact hc e he
    have := ih (mapInsert kt x acc) (fun e he => hk e (by simp [he])) hc' (mapInsert_sorted kt x acc hx hc hs)
    refine ⟨this.1, fun e he => ?_⟩
    rcases this.2 e he with h | h
    · rcases mapInsert_mem kt x acc e h with rfl | h
      · exact Or.inr (by simp)
      · exact Or.inl h
    · exact Or.inr (by simp [h])

/-- the map left by inserting ANY list of clean-keyed entries is in strict key
order, and every entry of it is one of the inserted ones -/
theorem mapFromList_sorted (kt : Ty) (kvs : List Val) (hk : CleanKeys kt kvs) :
    (mapFromList kt kvs).Pairwise (keyOrdered kt) ∧ ∀ e ∈ mapFromList kt kvs, e ∈ kvs := by
  have := mapFromList_sorted_aux kt kvs [] hk (fun _ h => by simp at h) List.Pairwise.nil
  refine ⟨this.1, fun e he => ?_⟩
  rcases this.2 e he with h | h
  · simp at h
  · exact h

theorem mapInsert_length (kt : Ty) (kv : Val) (m : List Val) : (mapInsert kt kv m).length ≤ m.length + 1 := by
  induction m with
  | nil => simp [mapInsert]
  | cons x xs ih =>
    simp only [mapInsert]
    split
    · simp
    · split
      · simp only [List.length_cons]; omega
      · simp

theorem mapFromList_length_aux (kt : Ty) (kvs acc : List Val) :
    (kvs.foldl (fun m kv => mapInsert kt kv m) acc).length ≤ acc.length + kvs.length := by
  induction kvs generalizing acc with
  | nil => simp
  | cons x xs ih =>
    simp only [List.foldl_cons, List.length_cons]
    have := ih (mapInsert kt x acc)
    have := mapInsert_length kt x acc
    omega

theorem mapFromList_length (kt : Ty) (kvs : List Val) : (mapFromList kt kvs).length ≤ kvs.length := by
  have := mapFromList_length_aux kt kvs []
  simpa [mapFromList] using this

/-- every inserted key is present (up to equivalence) in the result -/
theorem mapInsert_has (kt : Ty) (kv : Val) (m : List Val) :
    ∃ e ∈ mapInsert kt kv m, keyLt kt e.fst kv.fst = false ∧ keyLt kt kv.fst e.fst = false ∨ e = kv := by
  induction m with
  | nil => exact ⟨kv, by simp [mapInsert], Or.inr rfl⟩
  | cons x xs ih =>
    simp only [mapInsert]
    split
    · exact ⟨kv, by simp, Or.inr rfl⟩
    · split
      · obtain ⟨e, he, h⟩ := ih
        exact ⟨e, by simp [he], h⟩
      · rename_i h1 h2
        refine ⟨x, by simp, Or.inl ⟨?_, ?_⟩⟩
        · simpa using h2
        · simpa using h1

end Igris.C09
