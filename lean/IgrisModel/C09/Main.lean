/-
  C09 driver.  Line protocol (all fields without blanks):

    type  := u8|i8|u16|i16|u32|i32|u64|i64|f32|f64|str|buf
           | V(type) | P(type,type) | T(type,...) | M(type,type) | S(type,...)
    value := 2*sizeof hex digits (raw bits, most significant digit first)
           | "hex"            string / buffer bytes
           | [value,...]      vector
           | (value,...)      pair / tuple / struct
           | {value:value,...} map, entries in key order

    sizes                        sizeof of the ten scalar types
    a  <type> <value> <rest>     archive stack: encode, append <rest>, decode  -> <hex> <value> <consumed>
    s  <type> <value> <rest>     serializer stack, same
    seqa <rest> (<type> <value>)+   several values through ONE writer / ONE reader -> <hex> <value>... <consumed>
    seqs <rest> (<type> <value>)+
    da <type> <hex>              archive reader on recorded bytes      -> <value> <consumed> | fault
    ds <type> <hex>              bounded storage reader on any bytes   -> <value> <consumed>
    ga|gs <type> <hex> <value>   recorded encoding with its recorded value       -> <value> <consumed> <hex of encode(value)>
    ts <type> <value> <ks>       serializer stack: encode, then decode the prefix of length k for every k in
                                 <ks> (`all` = 0..len, or k1,k2,...)   -> <value>@<consumed>|...

  extension:
    type also b8|c8|ll|ull       bool / char / long long / unsigned long long of the serializer stack: the
                                 representation classes u8 / i8 / i64 / u64
    sizes2                       sizeof of those four
    cap <c|w|v> <cap> <payload hex> <type> <value> <rest>
                                 dump(const char*,u16) | dump(buffer) | dump(string_view), then a value; read with
                                 load(char*,cap) | load(writable_buffer of cap bytes), then the value
                                 -> <hex> "<stored bytes>" <value> <consumed>
    bw <type> <value>            binary_buffer_writer -> <hex>
    dat <sc>:<N> <[value,...]> <rest>   archive::data<T>(xs, N) in a reflected type -> <hex> <[...]> <consumed>
    wa|ws <type> <value> <rest>  like a|s but without the domain check (16-bit count wrap)
    sl <hex> <n1,n2,...>         storage dumps, then loads(n) for each n -> <hex>|<hex>... <avail>
    ta <type> <value> <k>        archive reader on the k-byte prefix of the encoding -> <value>@<consumed>
    tb <type> <value> <ks>       like ts for the archive stack (bounded binary_buffer_reader)
    capt <cap> <payload hex> <type> <value> <k>   dump(buffer) + value, input cut to k bytes, load(writable_buffer of cap
                                 bytes) + value -> "<stored bytes>" <value> <consumed>

  extension 2: the archive-stack ops run `decodeB` (the reader after `fix: binary_buffer_reader never reads
  beyond _end`); the serializer-stack ops run the cursor model `decodeC` (size_t cursor, clamp exactly as the
  code) on inputs up to 2048 bytes and its proved equal `decodeS` beyond (List.drop per load is quadratic).
-/
import IgrisModel.C09.Model
open Igris.Proto Igris.C09

def scOf? : String → Option Sc
  | "u8" => some .u8 | "i8" => some .i8 | "u16" => some .u16 | "i16" => some .i16
  | "u32" => some .u32 | "i32" => some .i32 | "u64" => some .u64 | "i64" => some .i64
  | "f32" => some .f32 | "f64" => some .f64
  -- further arithmetic types of the serializer stack, by representation class
  | "b8" => some .u8 | "c8" => some .i8 | "ll" => some .i64 | "ull" => some .u64
  | _ => none

def isIdent (c : Char) : Bool := c.isAlphanum

mutual
partial def parseTy (cs : List Char) : Option (Ty × List Char) :=
  let name := cs.takeWhile isIdent
  let rest := cs.dropWhile isIdent
  let nm := String.ofList name
  match scOf? nm with
  | some k => some (.sc k, rest)
  | none =>
    match nm, rest with
    | "str", _ => some (.str, rest)
    | "buf", _ => some (.buf, rest)
    | "V", '(' :: r =>
      match parseTys r with
      | some ([t], r2) => some (.vec t, r2)
      | _ => none
    | "P", '(' :: r =>
      match parseTys r with
      | some ([a, b], r2) => some (.pair a b, r2)
      | _ => none
    | "M", '(' :: r =>
      match parseTys r with
      | some ([a, b], r2) => some (.map a b, r2)
      | _ => none
    | "T", '(' :: r =>
      match parseTys r with
      | some (ts, r2) => some (.tuple ts, r2)
      | _ => none
    | "S", '(' :: r =>
      match parseTys r with
      | some (ts, r2) => some (.struct ts, r2)
      | _ => none
    | _, _ => none
/-- `type (',' type)* ')'` -/
partial def parseTys (cs : List Char) : Option (List Ty × List Char) :=
  match parseTy cs with
  | none => none
  | some (t, ',' :: r) =>
    match parseTys r with
    | some (ts, r2) => some (t :: ts, r2)
    | none => none
  | some (t, ')' :: r) => some ([t], r)
  | _ => none
end

def parseTyStr (s : String) : Option Ty :=
  match parseTy s.toList with
  | some (t, []) => some t
  | _ => none

def hexNat (cs : List Char) : Option Nat :=
  cs.foldl (fun acc c => do let a ← acc; let d ← hexVal? c; pure (a * 16 + d)) (some 0)

mutual
partial def parseVal (ty : Ty) (cs : List Char) : Option (Val × List Char) :=
  match ty with
  | .sc k =>
    let n := 2 * k.width
    let ds := cs.take n
    if ds.length < n then none else
    match hexNat ds with
    | some v => some (.sc v, cs.drop n)
    | none => none
  | .str | .buf =>
    match cs with
    | '"' :: r =>
      let body := r.takeWhile (· ≠ '"')
      match parseBytesAux body, r.dropWhile (· ≠ '"') with
      | some bs, '"' :: r2 => some (.bytes bs, r2)
      | _, _ => none
    | _ => none
  | .vec t =>
    match cs with
    | '[' :: ']' :: r => some (.list [], r)
    | '[' :: r => (parseSeq t ']' r).map fun (vs, r2) => (.list vs, r2)
    | _ => none
  | .pair a b =>
    match cs with
    | '(' :: r => (parseFields [a, b] r).map fun (vs, r2) => (.list vs, r2)
    | _ => none
  | .tuple ts | .struct ts =>
    match cs with
    | '(' :: r => (parseFields ts r).map fun (vs, r2) => (.list vs, r2)
    | _ => none
  | .map k t =>
    match cs with
    | '{' :: '}' :: r => some (.list [], r)
    | '{' :: r => (parseEntries k t r).map fun (vs, r2) => (.list vs, r2)
    | _ => none
/-- `value (',' value)* close` -/
partial def parseSeq (t : Ty) (close : Char) (cs : List Char) : Option (List Val × List Char) :=
  match parseVal t cs with
  | none => none
  | some (v, c :: r) =>
    if c = ',' then (parseSeq t close r).map fun (vs, r2) => (v :: vs, r2)
    else if c = close then some ([v], r) else none
  | _ => none
/-- one value per field type, `,`-separated, closed by `)` -/
partial def parseFields (ts : List Ty) (cs : List Char) : Option (List Val × List Char) :=
  match ts with
  | [] => match cs with
    | ')' :: r => some ([], r)
    | _ => none
  | [t] =>
    match parseVal t cs with
    | some (v, ')' :: r) => some ([v], r)
    | _ => none
  | t :: ts =>
    match parseVal t cs with
    | some (v, ',' :: r) => (parseFields ts r).map fun (vs, r2) => (v :: vs, r2)
    | _ => none
partial def parseEntries (k t : Ty) (cs : List Char) : Option (List Val × List Char) :=
  match parseVal k cs with
  | some (x, ':' :: r) =>
    match parseVal t r with
    | some (y, ',' :: r2) => (parseEntries k t r2).map fun (vs, r3) => (Val.list [x, y] :: vs, r3)
    | some (y, '}' :: r2) => some ([Val.list [x, y]], r2)
    | _ => none
  | _ => none
end

def parseValStr (ty : Ty) (s : String) : Option Val :=
  match parseVal ty s.toList with
  | some (v, []) => some v
  | _ => none

mutual
partial def showVal (ty : Ty) (v : Val) : String :=
  match ty with
  | .sc k => hexOfNat (2 * k.width) v.bits
  | .str | .buf => "\"" ++ String.join (v.bs.map byteHex) ++ "\""
  | .vec t => "[" ++ ",".intercalate (v.items.map (showVal t)) ++ "]"
  | .pair a b => "(" ++ showVal a v.fst ++ "," ++ showVal b v.snd ++ ")"
  | .tuple ts | .struct ts => "(" ++ ",".intercalate (showFields ts v.items) ++ ")"
  | .map k t => "{" ++ ",".intercalate (v.items.map fun kv => showVal k kv.fst ++ ":" ++ showVal t kv.snd) ++ "}"
partial def showFields (ts : List Ty) (vs : List Val) : List String :=
  match ts with
  | [] => []
  | t :: ts => showVal t (vs.headD default) :: showFields ts vs.tail
end

/-- (type, value) pairs of a `seq` op -/
def parseItems : List String → Option (List Ty × List Val)
  | [] => some ([], [])
  | t :: v :: rest => do
      let ty ← parseTyStr t
      let va ← parseValStr ty v
      let (ts, vs) ← parseItems rest
      pure (ty :: ts, va :: vs)
  | _ => none

/-- the storage reader: cursor model on small inputs (theorem storage_cursor_model: same result) -/
def decS (ty : Ty) (input : List Byte) : Option (Val × List Byte) :=
  if input.length ≤ 2048 then
    match decodeC ty ⟨input, 0⟩ with
    | some (v, s) => some (v, input.drop s.cursor)
    | none => none
  else decodeS ty input

def decFieldsS (ts : List Ty) (input : List Byte) : Option (List Val × List Byte) :=
  if input.length ≤ 2048 then
    match decodeFieldsC ts ⟨input, 0⟩ with
    | some (vs, s) => some (vs, input.drop s.cursor)
    | none => none
  else decodeFieldsS ts input

def allScs : List Sc := [.u8, .i8, .u16, .i16, .u32, .i32, .u64, .i64, .f32, .f64]

def roundTrip (enc : Ty → Val → List Byte) (dec : Ty → List Byte → Option (Val × List Byte))
    (ty : Ty) (v : Val) (rest : List Byte) : String :=
  if !wfb ty v then "illformed" else
  let e := enc ty v
  let input := e ++ rest
  match dec ty input with
  | some (v', r) => bytesHex e ++ " " ++ showVal ty v' ++ " " ++ toString (input.length - r.length)
  | none => bytesHex e ++ " fault"

/-- the same without the domain check (values beyond the 16-bit count) -/
def roundTripRaw (enc : Ty → Val → List Byte) (dec : Ty → List Byte → Option (Val × List Byte))
    (ty : Ty) (v : Val) (rest : List Byte) : String :=
  let e := enc ty v
  let input := e ++ rest
  match dec ty input with
  | some (v', r) => bytesHex e ++ " " ++ showVal ty v' ++ " " ++ toString (input.length - r.length)
  | none => bytesHex e ++ " fault"

def seqTrip (enc : List Ty → List Val → List Byte)
    (dec : List Ty → List Byte → Option (List Val × List Byte)) (okb : List Ty → List Val → Bool)
    (ts : List Ty) (vs : List Val) (rest : List Byte) : String :=
  if !okb ts vs then "illformed" else
  let e := enc ts vs
  let input := e ++ rest
  match dec ts input with
  | some (vs', r) => bytesHex e ++ " " ++ " ".intercalate (showFields ts vs') ++ " " ++ toString (input.length - r.length)
  | none => bytesHex e ++ " fault"

def decodeShow (dec : Ty → List Byte → Option (Val × List Byte)) (ty : Ty) (input : List Byte) : String :=
  match dec ty input with
  | some (v, r) => showVal ty v ++ " " ++ toString (input.length - r.length)
  | none => "fault"

/-- round 3c: an input is COMPLETE when the strict reader of the documented layout (`decodeA`: `none` as soon as a
byte that is not there is needed) accepts it.  For every other input - truncated, hostile counts - the property only
states "never reads beyond the bytes supplied": the compared result is the canonical word `truncated-ok` (the model's
reader stayed inside its input: `some`), NOT the value (theorems `truncated_decode_zero_extended_*` describe it). -/
def completeIn (ty : Ty) (input : List Byte) : Bool := (decodeA ty input).isSome

def truncVerdict {α : Type} (r : Option (α × List Byte)) (input : List Byte) : String :=
  match r with
  | some (_, rest) => if rest.length ≤ input.length then "truncated-ok" else "truncated-cursor-out-of-range"
  | none => "fault"

def decodeShowC (dec : Ty → List Byte → Option (Val × List Byte)) (ty : Ty) (input : List Byte) : String :=
  if completeIn ty input then decodeShow dec ty input else truncVerdict (dec ty input) input

/-- index of the first `loads(n)` that asks for more bytes than are left -/
def firstShort (len : Nat) : List Nat → Nat → Nat → Option Nat
  | [], _, _ => none
  | n :: ns, pos, i => if pos + n > len then some i else firstShort len ns (pos + n) (i + 1)

def parseKs (s : String) (len : Nat) : Option (List Nat) :=
  if s = "all" then some (List.range (len + 1))
  else (s.splitOn ",").mapM String.toNat?

/-- `loads(n)` for each n of the list on one storage -/
def loadsSeq : List Nat → Store → List (List Byte) × Store
  | [], s => ([], s)
  | n :: ns, s =>
    match s.load n with
    | some (bs, s1) => let (xs, s2) := loadsSeq ns s1; (bs :: xs, s2)
    | none => ([], s)

def cappedOp (kind : String) (cap : Nat) (payload : List Byte) (ty : Ty) (v : Val) (rest : List Byte) : String :=
  if !wfb ty v || payload.length > 65535 then "illformed" else
  let e := (if kind = "c" then dumpCharArr payload else dumpBuffer payload) ++ encodeA ty v
  let input := e ++ rest
  let first := if kind = "c" then loadCharArrB input cap else loadWritableB input cap
  match first with
  | none => bytesHex e ++ " fault"
  | some (got, r) =>
    match decodeB ty r with
    | some (v', r2) => bytesHex e ++ " \"" ++ String.join (got.map byteHex) ++ "\" " ++ showVal ty v' ++ " " ++
        toString (input.length - r2.length)
    | none => bytesHex e ++ " fault"

/-- round 3: `ia|is <type> <dest> <value> <rest> <k|->` -/
def intoOp (st : String) (ty : Ty) (d v : Val) (rest : List Byte) (k : Option Nat) : String :=
  if !wfb ty v then "illformed" else
  if st = "s" ∧ !ty.supportedS then "unsupported" else
  let e := if st = "a" then encodeA ty v else encodeS ty v
  let full := e ++ rest
  let input := match k with
    | some n => full.take n
    | none => full
  let res := if st = "a" then decodeInto true ty d input else decodeIntoS true ty d input
  if k.isSome ∧ input.length < e.length then bytesHex e ++ " " ++ truncVerdict res input else
  match res with
  | some (v', r) => bytesHex e ++ " " ++ showVal ty v' ++ " " ++ toString (input.length - r.length)
  | none => bytesHex e ++ " fault"

def stepCore (line : List String) : Option String :=
    match line with
    | ["consts"] => some constsLine
    | ["ia", t, d, v, rest, k] | ["is", t, d, v, rest, k] => do
        let ty ← parseTyStr t
        let dv ← parseValStr ty d
        let va ← parseValStr ty v
        let rs ← parseBytes? rest
        let kk ← if k = "-" then some none else k.toNat?.map some
        pure (intoOp (if line.head? = some "ia" then "a" else "s") ty dv va rs kk)
    | "tseqa" :: k :: items => do
        let kn ← k.toNat?
        let (ts, vs) ← parseItems items
        if !wfbs ts vs then pure "illformed" else
        let input := (encodeFieldsA ts vs).take kn
        if kn < (encodeFieldsA ts vs).length then pure (truncVerdict (decodeFieldsB ts input) input) else
        match decodeFieldsB ts input with
        | some (vs', r) => pure (" ".intercalate (showFields ts vs') ++ " " ++ toString (input.length - r.length))
        | none => pure "fault"
    | "tseqs" :: k :: items => do
        let kn ← k.toNat?
        let (ts, vs) ← parseItems items
        if !supportedSs ts then pure "unsupported" else
        if !wfbs ts vs then pure "illformed" else
        let input := (encodeFieldsS ts vs).take kn
        if kn < (encodeFieldsS ts vs).length then pure (truncVerdict (decFieldsS ts input) input) else
        match decFieldsS ts input with
        | some (vs', r) => pure (" ".intercalate (showFields ts vs') ++ " " ++ toString (input.length - r.length))
        | none => pure "fault"
    | ["sizes"] => some (" ".intercalate (allScs.map fun k => toString k.width))
    | ["sizes2"] => some (" ".intercalate ([Sc.u8, .i8, .i64, .u64].map fun k => toString k.width))
    | ["cap", kind, cap, payload, t, v, rest] => do
        let ty ← parseTyStr t
        let va ← parseValStr ty v
        let c ← cap.toNat?
        let pl ← parseBytes? payload
        let rs ← parseBytes? rest
        pure (cappedOp kind c pl ty va rs)
    | ["capt", cap, payload, t, v, ks] => do
        let ty ← parseTyStr t
        let va ← parseValStr ty v
        let c ← cap.toNat?
        let pl ← parseBytes? payload
        let k ← ks.toNat?
        if !wfb ty va || pl.length > 65535 then pure "illformed" else
        let input := (dumpBuffer pl ++ encodeA ty va).take k
        if k < (dumpBuffer pl ++ encodeA ty va).length then
          match loadWritableB input c with
          | none => pure "fault"
          | some (_, r) => pure (truncVerdict (decodeB ty r) input)
        else
        match loadWritableB input c with
        | none => pure "fault"
        | some (got, r) =>
          match decodeB ty r with
          | some (v', r2) => pure ("\"" ++ String.join (got.map byteHex) ++ "\" " ++ showVal ty v' ++ " " ++
              toString (input.length - r2.length))
          | none => pure "fault"
    | ["bwc", t, v, caps] => do
        -- round 3b: binary_buffer_writer into a caller buffer of `cap` bytes that held 0xEE
        let ty ← parseTyStr t
        let va ← parseValStr ty v
        let cap ← caps.toNat?
        if !wfb ty va then pure "illformed" else
        let w := bufWrite (List.replicate cap 0xEE#8) (encodeA ty va)
        pure (bytesHex w.data ++ " " ++ toString w.cursor)
    | ["bw", t, v] => do
        let ty ← parseTyStr t
        let va ← parseValStr ty v
        if !wfb ty va then pure "illformed" else pure (bytesHex (encodeA ty va))
    | ["sl", h, nss] => do
        let bs ← parseBytes? h
        let ns ← (nss.splitOn ",").mapM String.toNat?
        let (xs, st) := loadsSeq ns ⟨bs, 0⟩
        match firstShort bs.length ns 0 0 with
        | none => pure ("|".intercalate (xs.map bytesHex) ++ " " ++ toString st.avail)
        | some c =>
          -- from the first short read on: only "position within the input" is compared
          let segs := (xs.zip (List.range xs.length)).map fun (x, i) => if i < c then bytesHex x else "truncated-ok"
          pure ("|".intercalate segs ++ " " ++
            (if st.avail ≤ bs.length then "truncated-ok" else "truncated-cursor-out-of-range"))
    | ["dat", key, v, rest] => do
        match key.splitOn ":" with
        | [scn, ns] => do
            let k ← scOf? scn
            let n ← ns.toNat?
            let va ← parseValStr (.vec (.sc k)) v
            let rs ← parseBytes? rest
            if va.items.length ≠ n then none else
            let e := encodeData k va.items
            let input := e ++ rs
            match decodeDataB k n input with
            | some (xs, r) => pure (bytesHex e ++ " " ++ showVal (.vec (.sc k)) (.list xs) ++ " " ++ toString (input.length - r.length))
            | none => pure (bytesHex e ++ " fault")
        | _ => none
    | [op, t, v, rest] => do
        let ty ← parseTyStr t
        if op = "ga" ∨ op = "gs" then
          -- recorded encoding `v` (hex) with its recorded value `rest`
          let bs ← parseBytes? v
          let ev ← parseValStr ty rest
          if op = "gs" ∧ !ty.supportedS then pure "unsupported" else
          let dec := if op = "ga" then decodeB else decS
          let enc := if op = "ga" then encodeA else encodeS
          pure (decodeShow dec ty bs ++ " " ++ bytesHex (enc ty ev))
        else
        let va ← parseValStr ty v
        match op with
        | "wa" => do
            let rs ← parseBytes? rest
            pure (roundTripRaw encodeA decodeB ty va rs)
        | "ws" => do
            let rs ← parseBytes? rest
            if !ty.supportedS then pure "unsupported" else
            pure (roundTripRaw encodeS decS ty va rs)
        | "ta" => do
            let k ← rest.toNat?
            let input := (encodeA ty va).take k
            if k < (encodeA ty va).length then pure (truncVerdict (decodeB ty input) input) else
            match decodeB ty input with
            | some (v', r) => pure (showVal ty v' ++ "@" ++ toString (input.length - r.length))
            | none => pure "fault"
        | "tb" => do
            if !wfb ty va then pure "illformed" else
            let e := encodeA ty va
            let ks ← parseKs rest e.length
            pure ("|".intercalate (ks.map fun k =>
              let input := e.take k
              if !completeIn ty input then truncVerdict (decodeB ty input) input else
              match decodeB ty input with
              | some (v', r) => showVal ty v' ++ "@" ++ toString (input.length - r.length)
              | none => "fault"))
        | "a" => do
            let rs ← parseBytes? rest
            pure (roundTrip encodeA decodeB ty va rs)
        | "s" => do
            let rs ← parseBytes? rest
            if !ty.supportedS then pure "unsupported" else
            pure (roundTrip encodeS decS ty va rs)
        | "ts" => do
            if !ty.supportedS then pure "unsupported" else
            if !wfb ty va then pure "illformed" else
            let e := encodeS ty va
            let ks ← parseKs rest e.length
            pure ("|".intercalate (ks.map fun k =>
              let input := e.take k
              if !completeIn ty input then truncVerdict (decS ty input) input else
              match decS ty input with
              | some (v', r) => showVal ty v' ++ "@" ++ toString (input.length - r.length)
              | none => "fault"))
        | _ => none
    | [op, t, h] => do
        let ty ← parseTyStr t
        let bs ← parseBytes? h
        match op with
        | "da" => pure (decodeShowC decodeB ty bs)
        | "ds" => if !ty.supportedS then pure "unsupported" else pure (decodeShowC decS ty bs)
        | _ => none
    | op :: rest :: items => do
        let rs ← parseBytes? rest
        let (ts, vs) ← parseItems items
        match op with
        | "seqa" => pure (seqTrip encodeFieldsA decodeFieldsB wfbs ts vs rs)
        | "seqs" => if !supportedSs ts then pure "unsupported" else
            pure (seqTrip encodeFieldsS decFieldsS wfbs ts vs rs)
        | _ => none
    | _ => none

def stepLine (_ : Unit) (line : String) : Unit × String :=
  let r : Option String :=
    match words line with
    -- `pm <i> <op…>`: the op the harness ran before main(); the model has no "before"
    | "pm" :: _ :: op => stepCore op
    | ws => stepCore ws
  ((), r.getD "bad-op")

def main : IO Unit := run () stepLine
