/-
  C09 extension 2 — the bounded readers.
    * decoder combinators (`mapD`, `seqD`, `bindD`) and the equations that present
      `decodeA` (strict reader = archive reader before the fix), `decodeB` (archive
      reader after `fix: binary_buffer_reader never reads beyond _end`) and `decodeS`
      (storage reader) as the same composition over different `load` primitives;
    * `Safe` (never faults, ends inside the input) for `decodeB` on every type;
    * `Mono`: whenever the strict reader succeeds the bounded one returns the same;
    * `ZeroExt`: the bounded decode of ANY input is the strict decode of the
      zero-extended input;
    * `decodeS = decodeB` on the types the serializer stack accepts;
    * the storage reader with its `size_t` cursor simulates `decodeS` under the
      invariant `cursor <= size`.
-/
import IgrisModel.C09.More
namespace Igris.C09
open Igris.Proto

abbrev Dec (α : Type) := List Byte → Option (α × List Byte)

def mapD {α β : Type} (m : α → β) (f : Dec α) : Dec β := fun rem =>
  match f rem with
  | some (a, r) => some (m a, r)
  | none => none

def seqD {α β γ : Type} (c : α → β → γ) (f : Dec α) (g : Dec β) : Dec γ := fun rem =>
  match f rem with
  | none => none
  | some (a, r) =>
    match g r with
    | some (b, r2) => some (c a b, r2)
    | none => none

def bindD {α β γ : Type} (m : β → γ) (f : Dec α) (g : α → Dec β) : Dec γ := fun rem =>
  match f rem with
  | none => none
  | some (a, r) =>
    match g a r with
    | some (b, r2) => some (m b, r2)
    | none => none

theorem seqD_some {α β γ : Type} {c : α → β → γ} {f : Dec α} {g : Dec β} {rem : List Byte} {z : γ} {r : List Byte}
    (h : seqD c f g rem = some (z, r)) : ∃ a r1 b, f rem = some (a, r1) ∧ g r1 = some (b, r) ∧ z = c a b := by
  simp only [seqD] at h
  cases h1 : f rem with
  | none => simp [h1] at h
  | some p1 =>
    obtain ⟨a, r1⟩ := p1
    simp only [h1] at h
    cases h2 : g r1 with
    | none => simp [h2] at h
    | some p2 =>
      obtain ⟨b, r2⟩ := p2
      simp only [h2, Option.some.injEq, Prod.mk.injEq] at h
      obtain ⟨rfl, rfl⟩ := h
      exact ⟨a, r1, b, rfl, h2, rfl⟩

theorem seqD_intro {α β γ : Type} {c : α → β → γ} {f : Dec α} {g : Dec β} {rem r1 r : List Byte} {a : α} {b : β}
    (h1 : f rem = some (a, r1)) (h2 : g r1 = some (b, r)) : seqD c f g rem = some (c a b, r) := by
  simp only [seqD, h1, h2]

theorem bindD_some {α β γ : Type} {m : β → γ} {f : Dec α} {g : α → Dec β} {rem : List Byte} {z : γ} {r : List Byte}
    (h : bindD m f g rem = some (z, r)) : ∃ a r1 b, f rem = some (a, r1) ∧ g a r1 = some (b, r) ∧ z = m b := by
  simp only [bindD] at h
  cases h1 : f rem with
  | none => simp [h1] at h
  | some p1 =>
    obtain ⟨a, r1⟩ := p1
    simp only [h1] at h
    cases h2 : g a r1 with
    | none => simp [h2] at h
    | some p2 =>
      obtain ⟨b, r2⟩ := p2
      simp only [h2, Option.some.injEq, Prod.mk.injEq] at h
      obtain ⟨rfl, rfl⟩ := h
      exact ⟨a, r1, b, rfl, h2, rfl⟩

theorem bindD_intro {α β γ : Type} {m : β → γ} {f : Dec α} {g : α → Dec β} {rem r1 r : List Byte} {a : α} {b : β}
    (h1 : f rem = some (a, r1)) (h2 : g a r1 = some (b, r)) : bindD m f g rem = some (m b, r) := by
  simp only [bindD, h1, h2]

theorem mapD_some {α β : Type} {m : α → β} {f : Dec α} {rem : List Byte} {z : β} {r : List Byte}
    (h : mapD m f rem = some (z, r)) : ∃ a, f rem = some (a, r) ∧ z = m a := by
  simp only [mapD] at h
  cases h1 : f rem with
  | none => simp [h1] at h
  | some p1 =>
    obtain ⟨a, r1⟩ := p1
    simp only [h1, Option.some.injEq, Prod.mk.injEq] at h
    obtain ⟨rfl, rfl⟩ := h
    exact ⟨a, rfl, rfl⟩

theorem mapD_intro {α β : Type} {m : α → β} {f : Dec α} {rem r : List Byte} {a : α}
    (h1 : f rem = some (a, r)) : mapD m f rem = some (m a, r) := by
  simp only [mapD, h1]

/-! ### the three readers as compositions -/

def pairV (x y : Val) : Val := .list [x, y]

theorem loadScalar_eq (k : Sc) : loadScalar k = mapD leVal (fun rem => loadData rem k.width) := by
  funext rem; simp only [loadScalar, mapD]; split <;> simp_all
theorem loadScalarB_eq (k : Sc) : loadScalarB k = mapD leVal (fun rem => loadDataB rem k.width) := by
  funext rem; simp only [loadScalarB, mapD]; split <;> simp_all
theorem loadBuffer_eq : loadBuffer = bindD id (loadScalar .u16) (fun n rem => loadData rem n) := by
  funext rem; simp only [loadBuffer, bindD]
  cases loadScalar .u16 rem with
  | none => rfl
  | some p => obtain ⟨n, r⟩ := p; simp only [id]; cases loadData r n <;> rfl
theorem loadStringB_eq : loadStringB = bindD id (loadScalarB .u16) (fun n rem => loadDataB rem n) := by
  funext rem; simp only [loadStringB, bindD]
  cases loadScalarB .u16 rem with
  | none => rfl
  | some p => obtain ⟨n, r⟩ := p; simp only [id]; cases loadDataB r n <;> rfl
theorem loadViewB_eq : loadViewB = bindD id (loadScalarB .u16) (fun n rem => some (rem.take (u16 n), rem.drop (u16 n))) := by
  funext rem; simp only [loadViewB, bindD, skipB]
  cases loadScalarB .u16 rem with
  | none => rfl
  | some p => rfl

theorem decodeA_sc (k : Sc) : decodeA (.sc k) = mapD Val.sc (loadScalar k) := by funext rem; simp only [decodeA, mapD]; split <;> simp_all
theorem decodeA_str : decodeA .str = mapD Val.bytes loadBuffer := by funext rem; simp only [decodeA, mapD]; split <;> simp_all
theorem decodeA_buf : decodeA .buf = mapD Val.bytes loadBuffer := by funext rem; simp only [decodeA, mapD]; split <;> simp_all
theorem decodeA_vec (t : Ty) : decodeA (.vec t) = bindD Val.list (loadScalar .u16) (fun n => repeatN (decodeA t) n) := by
  funext rem; simp only [decodeA, bindD]; split <;> (try split) <;> simp_all
theorem decodeA_pair (a b : Ty) : decodeA (.pair a b) = seqD pairV (decodeA a) (decodeA b) := by
  funext rem; simp only [decodeA, seqD, pairV]; split <;> (try split) <;> simp_all
theorem decodeA_tuple (ts : List Ty) : decodeA (.tuple ts) = mapD Val.list (decodeFieldsA ts) := by
  funext rem; simp only [decodeA, mapD]; split <;> simp_all
theorem decodeA_struct (ts : List Ty) : decodeA (.struct ts) = mapD Val.list (decodeFieldsA ts) := by
  funext rem; simp only [decodeA, mapD]; split <;> simp_all
theorem entryA_eq (k t : Ty) : entryA k t = seqD pairV (decodeA k) (decodeA t) := by
  funext rem; simp only [entryA, seqD, pairV]; split <;> (try split) <;> simp_all
theorem decodeA_map (k t : Ty) : decodeA (.map k t) =
    bindD (fun kvs => Val.list (mapFromList k kvs)) (loadScalar .u16) (fun n => repeatN (seqD pairV (decodeA k) (decodeA t)) n) := by
  funext rem; rw [decodeA_map_eq, entryA_eq]; simp only [bindD]; split <;> (try split) <;> simp_all
theorem decodeFieldsA_cons (t : Ty) (ts : List Ty) :
    decodeFieldsA (t :: ts) = seqD List.cons (decodeA t) (decodeFieldsA ts) := by
  funext rem; simp only [decodeFieldsA, seqD]; split <;> (try split) <;> simp_all

theorem decodeB_sc (k : Sc) : decodeB (.sc k) = mapD Val.sc (loadScalarB k) := by funext rem; simp only [decodeB, mapD]; split <;> simp_all
theorem decodeB_str : decodeB .str = mapD Val.bytes loadStringB := by funext rem; simp only [decodeB, mapD]; split <;> simp_all
theorem decodeB_buf : decodeB .buf = mapD Val.bytes loadViewB := by funext rem; simp only [decodeB, mapD]; split <;> simp_all
theorem decodeB_vec (t : Ty) : decodeB (.vec t) = bindD Val.list (loadScalarB .u16) (fun n => repeatN (decodeB t) n) := by
  funext rem; simp only [decodeB, bindD]; split <;> (try split) <;> simp_all
theorem decodeB_pair (a b : Ty) : decodeB (.pair a b) = seqD pairV (decodeB a) (decodeB b) := by
  funext rem; simp only [decodeB, seqD, pairV]; split <;> (try split) <;> simp_all
theorem decodeB_tuple (ts : List Ty) : decodeB (.tuple ts) = mapD Val.list (decodeFieldsB ts) := by
  funext rem; simp only [decodeB, mapD]; split <;> simp_all
theorem decodeB_struct (ts : List Ty) : decodeB (.struct ts) = mapD Val.list (decodeFieldsB ts) := by
  funext rem; simp only [decodeB, mapD]; split <;> simp_all
theorem decodeB_map (k t : Ty) : decodeB (.map k t) =
    bindD (fun kvs => Val.list (mapFromList k kvs)) (loadScalarB .u16) (fun n => repeatN (seqD pairV (decodeB k) (decodeB t)) n) := by
  funext rem
  rw [decodeB]
  simp only [bindD]
  cases h1 : loadScalarB .u16 rem with
  | none => rfl
  | some p1 =>
    obtain ⟨n, r⟩ := p1
    simp only []
    rw [repeatN_congr _ (seqD pairV (decodeB k) (decodeB t)) (fun rem => by
      simp only [seqD, pairV]
      cases h2 : decodeB k rem with
      | none => rfl
      | some p2 =>
        obtain ⟨x, r1⟩ := p2
        simp only []
        cases h3 : decodeB t r1 <;> rfl)]
    cases h4 : repeatN (seqD pairV (decodeB k) (decodeB t)) n r <;> rfl
theorem decodeFieldsB_cons (t : Ty) (ts : List Ty) :
    decodeFieldsB (t :: ts) = seqD List.cons (decodeB t) (decodeFieldsB ts) := by
  funext rem; simp only [decodeFieldsB, seqD]; split <;> (try split) <;> simp_all

/-! ### Safe: never faults, ends inside the input -/

theorem safe_mapD {α β : Type} (m : α → β) {f : Dec α} (hf : Safe f) : Safe (mapD m f) := by
  intro rem
  obtain ⟨a, c, hc, e⟩ := hf rem
  exact ⟨m a, c, hc, mapD_intro e⟩

theorem safe_seqD {α β γ : Type} (c : α → β → γ) {f : Dec α} {g : Dec β} (hf : Safe f) (hg : Safe g) :
    Safe (seqD c f g) := by
  intro rem
  obtain ⟨a, c1, hc1, e1⟩ := hf rem
  obtain ⟨b, c2, hc2, e2⟩ := hg (rem.drop c1)
  refine ⟨c a b, c1 + c2, ?_, ?_⟩
  · simp only [List.length_drop] at hc2; omega
  · rw [List.drop_drop] at e2; exact seqD_intro e1 e2

theorem safe_bindD {α β γ : Type} (m : β → γ) {f : Dec α} {g : α → Dec β} (hf : Safe f) (hg : ∀ a, Safe (g a)) :
    Safe (bindD m f g) := by
  intro rem
  obtain ⟨a, c1, hc1, e1⟩ := hf rem
  obtain ⟨b, c2, hc2, e2⟩ := hg a (rem.drop c1)
  refine ⟨m b, c1 + c2, ?_, ?_⟩
  · simp only [List.length_drop] at hc2; omega
  · rw [List.drop_drop] at e2; exact bindD_intro e1 e2

theorem safe_loadDataB (sz : Nat) : Safe (fun rem => loadDataB rem sz) := safe_loadS (u16 sz)

theorem safe_view (n : Nat) : Safe (fun rem : List Byte => some (rem.take n, rem.drop n)) := by
  intro rem
  refine ⟨rem.take n, min n rem.length, Nat.min_le_right _ _, ?_⟩
  by_cases h : n ≤ rem.length
  · simp [Nat.min_eq_left h]
  · have h' : rem.length ≤ n := by omega
    simp [Nat.min_eq_right h', List.drop_of_length_le h']

theorem safe_loadScalarB (k : Sc) : Safe (loadScalarB k) := by
  rw [loadScalarB_eq]; exact safe_mapD _ (safe_loadDataB _)

mutual
theorem safe_decodeB : ∀ (ty : Ty), Safe (decodeB ty)
  | .sc k => by rw [decodeB_sc]; exact safe_mapD _ (safe_loadScalarB k)
  | .str => by
    rw [decodeB_str, loadStringB_eq]
    exact safe_mapD _ (safe_bindD _ (safe_loadScalarB _) (fun n => safe_loadDataB n))
  | .buf => by
    rw [decodeB_buf, loadViewB_eq]
    exact safe_mapD _ (safe_bindD _ (safe_loadScalarB _) (fun n => safe_view (u16 n)))
  | .vec t => by
    rw [decodeB_vec]
    exact safe_bindD _ (safe_loadScalarB _) (fun n => safe_repeatN _ (safe_decodeB t) n)
  | .pair a b => by rw [decodeB_pair]; exact safe_seqD _ (safe_decodeB a) (safe_decodeB b)
  | .tuple ts => by rw [decodeB_tuple]; exact safe_mapD _ (safe_decodeFieldsB ts)
  | .map k t => by
    rw [decodeB_map]
    exact safe_bindD _ (safe_loadScalarB _) (fun n => safe_repeatN _ (safe_seqD _ (safe_decodeB k) (safe_decodeB t)) n)
  | .struct fs => by rw [decodeB_struct]; exact safe_mapD _ (safe_decodeFieldsB fs)
theorem safe_decodeFieldsB : ∀ (ts : List Ty), Safe (decodeFieldsB ts)
  | [] => fun rem => ⟨[], 0, by omega, by simp [decodeFieldsB]⟩
  | t :: ts => by rw [decodeFieldsB_cons]; exact safe_seqD _ (safe_decodeB t) (safe_decodeFieldsB ts)
end

/-! ### Mono: where the strict reader succeeds, the bounded reader returns the same -/

def Mono {α : Type} (f g : Dec α) : Prop := ∀ rem x r, f rem = some (x, r) → g rem = some (x, r)

theorem mono_mapD {α β : Type} (m : α → β) {f g : Dec α} (h : Mono f g) : Mono (mapD m f) (mapD m g) := by
  intro rem z r e
  obtain ⟨a, e1, rfl⟩ := mapD_some e
  exact mapD_intro (h _ _ _ e1)

theorem mono_seqD {α β γ : Type} (c : α → β → γ) {f1 g1 : Dec α} {f2 g2 : Dec β} (h1 : Mono f1 g1) (h2 : Mono f2 g2) :
    Mono (seqD c f1 f2) (seqD c g1 g2) := by
  intro rem z r e
  obtain ⟨a, r1, b, e1, e2, rfl⟩ := seqD_some e
  exact seqD_intro (h1 _ _ _ e1) (h2 _ _ _ e2)

theorem mono_bindD {α β γ : Type} (m : β → γ) {f1 g1 : Dec α} {f2 g2 : α → Dec β} (h1 : Mono f1 g1)
    (h2 : ∀ a, Mono (f2 a) (g2 a)) : Mono (bindD m f1 f2) (bindD m g1 g2) := by
  intro rem z r e
  obtain ⟨a, r1, b, e1, e2, rfl⟩ := bindD_some e
  exact bindD_intro (h1 _ _ _ e1) (h2 a _ _ _ e2)

theorem mono_repeatN {α : Type} {f g : Dec α} (h : Mono f g) (n : Nat) : Mono (repeatN f n) (repeatN g n) := by
  induction n with
  | zero => intro rem x r e; simpa [repeatN] using e
  | succ n ih =>
    intro rem z r e
    simp only [repeatN] at e ⊢
    cases h1 : f rem with
    | none => simp [h1] at e
    | some p1 =>
      obtain ⟨a, r1⟩ := p1
      simp only [h1] at e
      cases h2 : repeatN f n r1 with
      | none => simp [h2] at e
      | some p2 =>
        obtain ⟨b, r2⟩ := p2
        simp only [h2] at e
        simp only [h _ _ _ h1, ih _ _ _ h2]
        exact e

theorem readN_some (n : Nat) (rem bs r : List Byte) (h : readN n rem = some (bs, r)) :
    n ≤ rem.length ∧ bs = rem.take n ∧ r = rem.drop n := by
  by_cases hn : n ≤ rem.length
  · rw [readN_of_le n rem hn] at h
    simp only [Option.some.injEq, Prod.mk.injEq] at h
    exact ⟨hn, h.1.symm, h.2.symm⟩
  · rw [readN_none_of_lt n rem (by omega)] at h
    exact absurd h (by simp)

theorem mono_loadData (sz : Nat) : Mono (fun rem => loadData rem sz) (fun rem => loadDataB rem sz) := by
  intro rem bs r e
  obtain ⟨hn, rfl, rfl⟩ := readN_some _ _ _ _ e
  show loadS rem (u16 sz) = _
  rw [loadS_eq]
  have : u16 sz - rem.length = 0 := by omega
  simp [this]

theorem mono_loadScalar (k : Sc) : Mono (loadScalar k) (loadScalarB k) := by
  rw [loadScalar_eq, loadScalarB_eq]; exact mono_mapD _ (mono_loadData _)

theorem mono_view (n : Nat) :
    Mono (fun rem => loadData rem n) (fun rem : List Byte => some (rem.take (u16 n), rem.drop (u16 n))) := by
  intro rem bs r e
  obtain ⟨_, rfl, rfl⟩ := readN_some _ _ _ _ e
  rfl

mutual
theorem mono_decode : ∀ (ty : Ty), Mono (decodeA ty) (decodeB ty)
  | .sc k => by rw [decodeA_sc, decodeB_sc]; exact mono_mapD _ (mono_loadScalar k)
  | .str => by
    rw [decodeA_str, decodeB_str, loadBuffer_eq, loadStringB_eq]
    exact mono_mapD _ (mono_bindD _ (mono_loadScalar _) (fun n => mono_loadData n))
  | .buf => by
    rw [decodeA_buf, decodeB_buf, loadBuffer_eq, loadViewB_eq]
    exact mono_mapD _ (mono_bindD _ (mono_loadScalar _) (fun n => mono_view n))
  | .vec t => by
    rw [decodeA_vec, decodeB_vec]
    exact mono_bindD _ (mono_loadScalar _) (fun n => mono_repeatN (mono_decode t) n)
  | .pair a b => by rw [decodeA_pair, decodeB_pair]; exact mono_seqD _ (mono_decode a) (mono_decode b)
  | .tuple ts => by rw [decodeA_tuple, decodeB_tuple]; exact mono_mapD _ (mono_decodeFields ts)
  | .map k t => by
    rw [decodeA_map, decodeB_map]
    exact mono_bindD _ (mono_loadScalar _) (fun n => mono_repeatN (mono_seqD _ (mono_decode k) (mono_decode t)) n)
  | .struct fs => by rw [decodeA_struct, decodeB_struct]; exact mono_mapD _ (mono_decodeFields fs)
theorem mono_decodeFields : ∀ (ts : List Ty), Mono (decodeFieldsA ts) (decodeFieldsB ts)
  | [] => by intro rem x r e; simpa [decodeFieldsA, decodeFieldsB] using e
  | t :: ts => by
    rw [decodeFieldsA_cons, decodeFieldsB_cons]; exact mono_seqD _ (mono_decode t) (mono_decodeFields ts)
end

/-! ### ZeroExt: the bounded decode is the strict decode of the zero-extended input -/

def zeros (n : Nat) : List Byte := List.replicate n 0#8

theorem zeros_add (a b : Nat) : zeros a ++ zeros b = zeros (a + b) := by
  simp [zeros, List.replicate_append_replicate]

/-- `g` (bounded) on `rem` returns what `f` (strict) returns on `rem` followed by
`pad` zero bytes, for a suitable `pad` that is 0 unless `g` used up `rem`; whatever
follows (`y`) is left in the stream by `f` -/
def ZeroExt {α : Type} (f g : Dec α) : Prop :=
  ∀ rem v r, g rem = some (v, r) → r.length ≤ rem.length ∧
    ∃ pad, (pad = 0 ∨ r = []) ∧ ∀ y, f (rem ++ zeros pad ++ y) = some (v, r ++ y)

theorem ze_chain {α β : Type} {f1 g1 : Dec α} {f2 g2 : Dec β} (h1 : ZeroExt f1 g1) (h2 : ZeroExt f2 g2)
    {rem r1 r2 : List Byte} {a : α} {b : β} (e1 : g1 rem = some (a, r1)) (e2 : g2 r1 = some (b, r2)) :
    r2.length ≤ rem.length ∧ ∃ pad, (pad = 0 ∨ r2 = []) ∧
      ∀ y, ∃ q, f1 (rem ++ zeros pad ++ y) = some (a, q) ∧ f2 q = some (b, r2 ++ y) := by
  obtain ⟨l1, p1, hp1, z1⟩ := h1 rem a r1 e1
  obtain ⟨l2, p2, hp2, z2⟩ := h2 r1 b r2 e2
  refine ⟨by omega, ?_⟩
  rcases hp1 with rfl | rfl
  · refine ⟨p2, hp2, fun y => ⟨r1 ++ zeros p2 ++ y, ?_, z2 y⟩⟩
    have := z1 (zeros p2 ++ y)
    simpa [zeros, List.append_assoc] using this
  · have hr2 : r2 = [] := List.eq_nil_of_length_eq_zero (by simpa using l2)
    refine ⟨p1 + p2, Or.inr hr2, fun y => ⟨zeros p2 ++ y, ?_, ?_⟩⟩
    · have := z1 (zeros p2 ++ y)
      rw [← zeros_add]
      simpa [List.append_assoc] using this
    · have := z2 y
      simpa using this

theorem ze_mapD {α β : Type} (m : α → β) {f g : Dec α} (h : ZeroExt f g) : ZeroExt (mapD m f) (mapD m g) := by
  intro rem z r e
  obtain ⟨a, e1, rfl⟩ := mapD_some e
  obtain ⟨l, pad, hp, zz⟩ := h rem a r e1
  exact ⟨l, pad, hp, fun y => mapD_intro (zz y)⟩

theorem ze_seqD {α β γ : Type} (c : α → β → γ) {f1 g1 : Dec α} {f2 g2 : Dec β} (h1 : ZeroExt f1 g1)
    (h2 : ZeroExt f2 g2) : ZeroExt (seqD c f1 f2) (seqD c g1 g2) := by
  intro rem z r e
  obtain ⟨a, r1, b, e1, e2, rfl⟩ := seqD_some e
  obtain ⟨l, pad, hp, zz⟩ := ze_chain h1 h2 e1 e2
  refine ⟨l, pad, hp, fun y => ?_⟩
  obtain ⟨q, q1, q2⟩ := zz y
  exact seqD_intro q1 q2

theorem ze_bindD {α β γ : Type} (m : β → γ) {f1 g1 : Dec α} {f2 g2 : α → Dec β} (h1 : ZeroExt f1 g1)
    (h2 : ∀ a, ZeroExt (f2 a) (g2 a)) : ZeroExt (bindD m f1 f2) (bindD m g1 g2) := by
  intro rem z r e
  obtain ⟨a, r1, b, e1, e2, rfl⟩ := bindD_some e
  obtain ⟨l, pad, hp, zz⟩ := ze_chain h1 (h2 a) e1 e2
  refine ⟨l, pad, hp, fun y => ?_⟩
  obtain ⟨q, q1, q2⟩ := zz y
  exact bindD_intro q1 q2

theorem ze_repeatN {α : Type} {f g : Dec α} (h : ZeroExt f g) (n : Nat) : ZeroExt (repeatN f n) (repeatN g n) := by
  induction n with
  | zero =>
    intro rem v r e
    simp only [repeatN, Option.some.injEq, Prod.mk.injEq] at e
    obtain ⟨rfl, rfl⟩ := e
    exact ⟨Nat.le_refl _, 0, Or.inl rfl, fun y => by simp [repeatN, zeros]⟩
  | succ n ih =>
    intro rem z r e
    simp only [repeatN] at e
    cases h1 : g rem with
    | none => simp [h1] at e
    | some p1 =>
      obtain ⟨a, r1⟩ := p1
      simp only [h1] at e
      cases h2 : repeatN g n r1 with
      | none => simp [h2] at e
      | some p2 =>
        obtain ⟨b, r2⟩ := p2
        simp only [h2, Option.some.injEq, Prod.mk.injEq] at e
        obtain ⟨rfl, rfl⟩ := e
        obtain ⟨l, pad, hp, zz⟩ := ze_chain h ih h1 h2
        refine ⟨l, pad, hp, fun y => ?_⟩
        obtain ⟨q, q1, q2⟩ := zz y
        simp only [repeatN, q1, q2]

theorem ze_loadData (sz : Nat) : ZeroExt (fun rem => loadData rem sz) (fun rem => loadDataB rem sz) := by
  intro rem bs r e
  have e' : loadS rem (u16 sz) = some (bs, r) := e
  rw [loadS_eq] at e'
  simp only [Option.some.injEq, Prod.mk.injEq] at e'
  obtain ⟨rfl, rfl⟩ := e'
  refine ⟨by simp, ?_⟩
  by_cases hn : u16 sz ≤ rem.length
  · refine ⟨0, Or.inl rfl, fun y => ?_⟩
    have h0 : u16 sz - rem.length = 0 := by omega
    show readN (u16 sz) (rem ++ zeros 0 ++ y) = _
    rw [readN_of_le _ _ (by simp [zeros]; omega)]
    simp [zeros, h0, List.take_append_of_le_length hn, List.drop_append_of_le_length hn]
  · have hl : rem.length ≤ u16 sz := by omega
    refine ⟨u16 sz - rem.length, Or.inr (List.drop_of_length_le hl), fun y => ?_⟩
    show readN (u16 sz) (rem ++ zeros (u16 sz - rem.length) ++ y) = _
    have hlen : (rem ++ zeros (u16 sz - rem.length)).length = u16 sz := by simp [zeros]; omega
    have := readN_append (rem ++ zeros (u16 sz - rem.length)) y
    rw [hlen] at this
    rw [this, List.take_of_length_le hl, List.drop_of_length_le hl]
    rfl

theorem ze_loadScalar (k : Sc) : ZeroExt (loadScalar k) (loadScalarB k) := by
  rw [loadScalar_eq, loadScalarB_eq]; exact ze_mapD _ (ze_loadData _)

mutual
/-- the types without `igris::buffer` (a zero-copy view is cut, not zero-filled) -/
def Ty.noView : Ty → Bool
  | .buf => false
  | .sc _ => true
  | .str => true
  | .vec t => t.noView
  | .pair a b => a.noView && b.noView
  | .tuple ts => noViews ts
  | .map k t => k.noView && t.noView
  | .struct fs => noViews fs
def noViews : List Ty → Bool
  | [] => true
  | t :: ts => t.noView && noViews ts
end

mutual
theorem ze_decode : ∀ (ty : Ty), ty.noView = true → ZeroExt (decodeA ty) (decodeB ty)
  | .sc k, _ => by rw [decodeA_sc, decodeB_sc]; exact ze_mapD _ (ze_loadScalar k)
  | .str, _ => by
    rw [decodeA_str, decodeB_str, loadBuffer_eq, loadStringB_eq]
    exact ze_mapD _ (ze_bindD _ (ze_loadScalar _) (fun n => ze_loadData n))
  | .buf, h => by simp [Ty.noView] at h
  | .vec t, h => by
    simp only [Ty.noView] at h
    rw [decodeA_vec, decodeB_vec]
    exact ze_bindD _ (ze_loadScalar _) (fun n => ze_repeatN (ze_decode t h) n)
  | .pair a b, h => by
    simp only [Ty.noView, Bool.and_eq_true] at h
    rw [decodeA_pair, decodeB_pair]; exact ze_seqD _ (ze_decode a h.1) (ze_decode b h.2)
  | .tuple ts, h => by
    simp only [Ty.noView] at h
    rw [decodeA_tuple, decodeB_tuple]; exact ze_mapD _ (ze_decodeFields ts h)
  | .map k t, h => by
    simp only [Ty.noView, Bool.and_eq_true] at h
    rw [decodeA_map, decodeB_map]
    exact ze_bindD _ (ze_loadScalar _) (fun n => ze_repeatN (ze_seqD _ (ze_decode k h.1) (ze_decode t h.2)) n)
  | .struct fs, h => by
    simp only [Ty.noView] at h
    rw [decodeA_struct, decodeB_struct]; exact ze_mapD _ (ze_decodeFields fs h)
theorem ze_decodeFields : ∀ (ts : List Ty), noViews ts = true → ZeroExt (decodeFieldsA ts) (decodeFieldsB ts)
  | [], _ => by
    intro rem v r e
    simp only [decodeFieldsB, Option.some.injEq, Prod.mk.injEq] at e
    obtain ⟨rfl, rfl⟩ := e
    exact ⟨Nat.le_refl _, 0, Or.inl rfl, fun y => by simp [decodeFieldsA, zeros]⟩
  | t :: ts, h => by
    simp only [noViews, Bool.and_eq_true] at h
    rw [decodeFieldsA_cons, decodeFieldsB_cons]; exact ze_seqD _ (ze_decode t h.1) (ze_decodeFields ts h.2)
end

/-! ### the storage reader is the bounded reader on the types it accepts -/

theorem loadS_eq_loadDataB (rem : List Byte) (n : Nat) (h : n ≤ 65535) : loadS rem n = loadDataB rem n := by
  simp [loadDataB, u16_of_le h]

mutual
theorem decodeS_eq_decodeB : ∀ (ty : Ty), ty.supportedS = true → decodeS ty = decodeB ty
  | .sc k, _ => by
    funext rem
    have := width_le k
    simp only [decodeS, decodeB, loadScalarB, ← loadS_eq_loadDataB rem k.width (by omega)]
    cases loadS rem k.width with
    | none => rfl
    | some p => rfl
  | .vec t, h => by
    simp only [Ty.supportedS] at h
    funext rem
    have e : loadDataB rem (Sc.width .u16) = loadS rem 2 := (loadS_eq_loadDataB rem 2 (by decide)).symm
    simp only [decodeS, decodeB, loadScalarB, e, decodeS_eq_decodeB t h]
    cases h1 : loadS rem 2 with
    | none => rfl
    | some p => rfl
  | .struct fs, h => by
    simp only [Ty.supportedS] at h
    funext rem
    simp only [decodeS, decodeB, decodeFieldsS_eq_decodeFieldsB fs h]
  | .str, h => by simp [Ty.supportedS] at h
  | .buf, h => by simp [Ty.supportedS] at h
  | .pair _ _, h => by simp [Ty.supportedS] at h
  | .tuple _, h => by simp [Ty.supportedS] at h
  | .map _ _, h => by simp [Ty.supportedS] at h
theorem decodeFieldsS_eq_decodeFieldsB : ∀ (ts : List Ty), supportedSs ts = true → decodeFieldsS ts = decodeFieldsB ts
  | [], _ => by funext rem; simp [decodeFieldsS, decodeFieldsB]
  | t :: ts, h => by
    simp only [supportedSs, Bool.and_eq_true] at h
    funext rem
    simp only [decodeFieldsS, decodeFieldsB, decodeS_eq_decodeB t h.1, decodeFieldsS_eq_decodeFieldsB ts h.2]
end

mutual
theorem noView_of_supportedS : ∀ (ty : Ty), ty.supportedS = true → ty.noView = true
  | .sc _, _ => rfl
  | .vec t, h => by simp only [Ty.supportedS] at h; simp only [Ty.noView]; exact noView_of_supportedS t h
  | .struct fs, h => by simp only [Ty.supportedS] at h; simp only [Ty.noView]; exact noViews_of_supportedSs fs h
  | .str, h => by simp [Ty.supportedS] at h
  | .buf, h => by simp [Ty.supportedS] at h
  | .pair _ _, h => by simp [Ty.supportedS] at h
  | .tuple _, h => by simp [Ty.supportedS] at h
  | .map _ _, h => by simp [Ty.supportedS] at h
theorem noViews_of_supportedSs : ∀ (ts : List Ty), supportedSs ts = true → noViews ts = true
  | [], _ => rfl
  | t :: ts, h => by
    simp only [supportedSs, Bool.and_eq_true] at h
    simp only [noViews, Bool.and_eq_true]
    exact ⟨noView_of_supportedS t h.1, noViews_of_supportedSs ts h.2⟩
end

/-! ### the cursor -/

/-- the invariant of `deserialize_buffer_storage` (sizes are `size_t`), and what the
list-of-remaining-bytes view of it is -/
def Store.Rel (s : Store) (rem : List Byte) : Prop :=
  s.cursor ≤ s.data.length ∧ s.data.length < 2 ^ 64 ∧ rem = s.data.drop s.cursor

theorem subSize_of_le {a b : Nat} (h : b ≤ a) (ha : a < 2 ^ 64) : subSize a b = a - b := by
  unfold subSize
  have hb : b % 2 ^ 64 = b := Nat.mod_eq_of_lt (by omega)
  have ha' : a % 2 ^ 64 = a := Nat.mod_eq_of_lt ha
  rw [hb, ha']
  have : a + (2 ^ 64 - b) = (a - b) + 2 ^ 64 := by omega
  rw [this, Nat.add_mod_right]
  exact Nat.mod_eq_of_lt (by omega)

/-- one clamped load: cursor model and remaining-list model agree, the invariant is kept -/
theorem store_load_sim (s : Store) (rem : List Byte) (size : Nat) (h : s.Rel rem) :
    ∃ bs s' rem', s.load size = some (bs, s') ∧ loadS rem size = some (bs, rem') ∧ s'.Rel rem' ∧ s'.data = s.data ∧
      s.cursor ≤ s'.cursor := by
  obtain ⟨hc, hl, rfl⟩ := h
  have hsub := subSize_of_le hc hl
  have hrl : (s.data.drop s.cursor).length = s.data.length - s.cursor := by simp
  have hmin : min size (s.data.length - s.cursor) ≤ (s.data.drop s.cursor).length := by rw [hrl]; exact Nat.min_le_right _ _
  have hmod : (s.cursor + min size (s.data.length - s.cursor)) % 2 ^ 64 = s.cursor + min size (s.data.length - s.cursor) :=
    Nat.mod_eq_of_lt (by have := Nat.min_le_right size (s.data.length - s.cursor); omega)
  refine ⟨(s.data.drop s.cursor).take size ++ List.replicate (size - (s.data.length - s.cursor)) 0#8,
    { s with cursor := s.cursor + min size (s.data.length - s.cursor) }, (s.data.drop s.cursor).drop size, ?_, ?_, ?_, rfl, ?_⟩
  · simp only [Store.load, hsub, readN_of_le _ _ hmin, hmod]
    by_cases hs : size ≤ s.data.length - s.cursor
    · have h0 : size - (s.data.length - s.cursor) = 0 := by omega
      simp [Nat.min_eq_left hs, h0]
    · have hs' : s.data.length - s.cursor ≤ size := by omega
      simp [Nat.min_eq_right hs']
  · rw [loadS_eq, hrl]
  · refine ⟨?_, hl, ?_⟩
    · show s.cursor + min size (s.data.length - s.cursor) ≤ s.data.length
      have := Nat.min_le_right size (s.data.length - s.cursor); omega
    · show (s.data.drop s.cursor).drop size = s.data.drop (s.cursor + min size (s.data.length - s.cursor))
      rw [List.drop_drop]
      by_cases hs : size ≤ s.data.length - s.cursor
      · rw [Nat.min_eq_left hs]
      · have hs' : s.data.length - s.cursor ≤ size := by omega
        rw [Nat.min_eq_right hs', List.drop_of_length_le (by omega), List.drop_of_length_le (by omega)]
  · show s.cursor ≤ s.cursor + _
    omega

/-- a cursor-level decoder simulates a remaining-list decoder -/
def Sim {α : Type} (f : Store → Option (α × Store)) (g : Dec α) : Prop :=
  ∀ s rem, s.Rel rem → ∃ x s' rem', f s = some (x, s') ∧ g rem = some (x, rem') ∧ s'.Rel rem' ∧ s'.data = s.data ∧
    s.cursor ≤ s'.cursor

theorem sim_repeat {α : Type} {f : Store → Option (α × Store)} {g : Dec α} (h : Sim f g) (n : Nat) :
    Sim (repeatC f n) (repeatN g n) := by
  induction n with
  | zero => intro s rem hr; exact ⟨[], s, rem, rfl, rfl, hr, rfl, Nat.le_refl _⟩
  | succ n ih =>
    intro s rem hr
    obtain ⟨x, s1, r1, e1, e2, hr1, hd1, hc1⟩ := h s rem hr
    obtain ⟨xs, s2, r2, e3, e4, hr2, hd2, hc2⟩ := ih s1 r1 hr1
    exact ⟨x :: xs, s2, r2, by simp [repeatC, e1, e3], by simp [repeatN, e2, e4], hr2, by rw [hd2, hd1], by omega⟩

mutual
theorem sim_decodeC : ∀ (ty : Ty), Sim (decodeC ty) (decodeS ty)
  | .sc k => by
    intro s rem hr
    obtain ⟨bs, s', rem', e1, e2, hr', hd, hc⟩ := store_load_sim s rem k.width hr
    exact ⟨.sc (leVal bs), s', rem', by simp [decodeC, e1], by simp [decodeS, e2], hr', hd, hc⟩
  | .vec t => by
    intro s rem hr
    obtain ⟨bs, s1, r1, e1, e2, hr1, hd1, hc1⟩ := store_load_sim s rem 2 hr
    obtain ⟨xs, s2, r2, e3, e4, hr2, hd2, hc2⟩ := sim_repeat (sim_decodeC t) (leVal bs) s1 r1 hr1
    exact ⟨.list xs, s2, r2, by simp [decodeC, e1, e3], by simp [decodeS, e2, e4], hr2, by rw [hd2, hd1], by omega⟩
  | .struct fs => by
    intro s rem hr
    obtain ⟨xs, s', rem', e1, e2, hr', hd, hc⟩ := sim_decodeFieldsC fs s rem hr
    exact ⟨.list xs, s', rem', by simp [decodeC, e1], by simp [decodeS, e2], hr', hd, hc⟩
  | .str => fun s rem hr => ⟨default, s, rem, by simp [decodeC], by simp [decodeS], hr, rfl, Nat.le_refl _⟩
  | .buf => fun s rem hr => ⟨default, s, rem, by simp [decodeC], by simp [decodeS], hr, rfl, Nat.le_refl _⟩
  | .pair _ _ => fun s rem hr => ⟨default, s, rem, by simp [decodeC], by simp [decodeS], hr, rfl, Nat.le_refl _⟩
  | .tuple _ => fun s rem hr => ⟨default, s, rem, by simp [decodeC], by simp [decodeS], hr, rfl, Nat.le_refl _⟩
  | .map _ _ => fun s rem hr => ⟨default, s, rem, by simp [decodeC], by simp [decodeS], hr, rfl, Nat.le_refl _⟩
theorem sim_decodeFieldsC : ∀ (ts : List Ty), Sim (decodeFieldsC ts) (decodeFieldsS ts)
  | [] => fun s rem hr => ⟨[], s, rem, by simp [decodeFieldsC], by simp [decodeFieldsS], hr, rfl, Nat.le_refl _⟩
  | t :: ts => by
    intro s rem hr
    obtain ⟨x, s1, r1, e1, e2, hr1, hd1, hc1⟩ := sim_decodeC t s rem hr
    obtain ⟨xs, s2, r2, e3, e4, hr2, hd2, hc2⟩ := sim_decodeFieldsC ts s1 r1 hr1
    exact ⟨x :: xs, s2, r2, by simp [decodeFieldsC, e1, e3], by simp [decodeFieldsS, e2, e4], hr2, by rw [hd2, hd1], by omega⟩
end

/-! ### the capped loads and the raw array over the bounded reader -/

theorem skipA_some {rem r : List Byte} {n : Nat} (h : skipA rem n = some r) : r = skipB rem n := by
  simp only [skipA] at h
  cases h1 : readN n rem with
  | none => simp [h1] at h
  | some p =>
    obtain ⟨bs, r'⟩ := p
    simp only [h1, Option.some.injEq] at h
    obtain ⟨_, _, e⟩ := readN_some _ _ _ _ h1
    rw [← h, e]; rfl

theorem loadWritableB_of (rem : List Byte) (cap : Nat) (x r : List Byte)
    (h : loadWritable rem cap = some (x, r)) : loadWritableB rem cap = some (x, r) := by
  simp only [loadWritable] at h
  simp only [loadWritableB]
  cases h1 : loadScalar .u16 rem with
  | none => simp [h1] at h
  | some p1 =>
    obtain ⟨len, r1⟩ := p1
    simp only [h1] at h
    rw [mono_loadScalar _ _ _ _ h1]
    simp only []
    cases h2 : loadData r1 (if cap < len then cap else len) with
    | none => simp [h2] at h
    | some p2 =>
      obtain ⟨bs, r2⟩ := p2
      simp only [h2] at h
      have h2' : loadDataB r1 (if cap < len then cap else len) = some (bs, r2) := mono_loadData _ _ _ _ h2
      rw [h2']
      simp only []
      cases h3 : skipA r2 (len - if cap < len then cap else len) with
      | none => simp [h3] at h
      | some r3 =>
        simp only [h3, Option.some.injEq, Prod.mk.injEq] at h
        rw [← skipA_some h3, h.1, h.2]

theorem loadCharArrB_of (rem : List Byte) (maxsz : Nat) (x r : List Byte)
    (h : loadCharArr rem maxsz = some (x, r)) : loadCharArrB rem maxsz = some (x, r) := by
  simp only [loadCharArr] at h
  simp only [loadCharArrB]
  cases h1 : loadScalar .u16 rem with
  | none => simp [h1] at h
  | some p1 =>
    obtain ⟨sz, r1⟩ := p1
    simp only [h1] at h
    rw [mono_loadScalar _ _ _ _ h1]
    simp only []
    cases h2 : loadData r1 (if u16 maxsz < sz then u16 maxsz else sz) with
    | none => simp [h2] at h
    | some p2 =>
      obtain ⟨bs, r2⟩ := p2
      simp only [h2] at h
      have h2' : loadDataB r1 (if u16 maxsz < sz then u16 maxsz else sz) = some (bs, r2) := mono_loadData _ _ _ _ h2
      rw [h2']
      simp only []
      cases h3 : skipA r2 (sz - if u16 maxsz < sz then u16 maxsz else sz) with
      | none => simp [h3] at h
      | some r3 =>
        simp only [h3, Option.some.injEq, Prod.mk.injEq] at h
        rw [← skipA_some h3, h.1, h.2]

theorem decodeDataB_of (k : Sc) (n : Nat) (rem : List Byte) (x : List Val) (r : List Byte)
    (h : decodeData k n rem = some (x, r)) : decodeDataB k n rem = some (x, r) := by
  simp only [decodeData] at h
  simp only [decodeDataB]
  cases h1 : loadData rem (n * k.width) with
  | none => simp [h1] at h
  | some p1 =>
    obtain ⟨bs, r1⟩ := p1
    simp only [h1] at h
    have : loadDataB rem (n * k.width) = some (bs, r1) := mono_loadData _ _ _ _ h1
    rw [this]
    exact h

end Igris.C09
