/-
  C09 extension 3 — COST MODEL of the bounded archive reader on hostile input: what a decode
  can allocate is bounded by the number of bytes it consumed.

  `vsize v` = number of nodes of the decoded value (one per scalar, per string byte, per
  container / entry node): the memory the C++ object needs, up to a constant factor per node.
  `blank ty` = the size of the value an exhausted input decodes to (all counts zero).
  A count field is 2 bytes: it can announce at most 65535 elements, and it announces none when
  the input is exhausted (missing bytes read as zero).
-/
import IgrisModel.C09.Bounded
namespace Igris.C09
open Igris.Proto

mutual
def vsize : Val → Nat
  | .sc _ => 1
  | .bytes bs => 1 + bs.length
  | .list vs => 1 + vsizes vs
def vsizes : List Val → Nat
  | [] => 0
  | v :: vs => vsize v + vsizes vs
end

mutual
def blank : Ty → Nat
  | .sc _ => 1
  | .str => 1
  | .buf => 1
  | .vec t => 1 + blank t
  | .pair a b => 1 + blank a + blank b
  | .tuple ts => 1 + blanks ts
  | .map k t => 2 + blank k + blank t
  | .struct fs => 1 + blanks fs
def blanks : List Ty → Nat
  | [] => 0
  | t :: ts => blank t + blanks ts
end

/-- decoder `f` consumes `c` bytes and delivers a value of at most `B * (1 + 65535 * c)` nodes -/
def Bnd (B : Nat) (f : List Byte → Option (Val × List Byte)) : Prop :=
  ∀ rem x r, f rem = some (x, r) → ∃ c, rem.length = r.length + c ∧ vsize x ≤ B * (1 + 65535 * c)

def BndL (B : Nat) (f : List Byte → Option (List Val × List Byte)) : Prop :=
  ∀ rem xs r, f rem = some (xs, r) → ∃ c, rem.length = r.length + c ∧ vsizes xs ≤ B * (1 + 65535 * c)

theorem vsizes_append (xs ys : List Val) : vsizes (xs ++ ys) = vsizes xs + vsizes ys := by
  induction xs with
  | nil => simp [vsizes]
  | cons x xs ih => simp [vsizes, ih]; omega

/-! ### the loads -/

theorem loadDataB_spec (rem : List Byte) (sz : Nat) (bs r : List Byte) (h : loadDataB rem sz = some (bs, r)) :
    r = rem.drop (u16 sz) ∧ bs.length = u16 sz ∧ ∃ c, rem.length = r.length + c ∧ c ≤ u16 sz := by
  unfold loadDataB at h
  rw [loadS_eq] at h
  injection h with h
  injection h with h1 h2
  subst h1; subst h2
  refine ⟨rfl, ?_, rem.length - (rem.drop (u16 sz)).length, ?_, ?_⟩
  · simp only [List.length_append, List.length_take, List.length_replicate]; omega
  · simp only [List.length_drop]; omega
  · simp only [List.length_drop]; omega

/-- a 2-byte count: at most 65535, and 0 unless at least one byte was there to be consumed -/
theorem count_spec (rem : List Byte) (n : Nat) (r : List Byte) (h : loadScalarB .u16 rem = some (n, r)) :
    n ≤ 65535 ∧ ∃ c, rem.length = r.length + c ∧ (n = 0 ∨ 1 ≤ c) := by
  unfold loadScalarB loadDataB at h
  rw [loadS_eq] at h
  simp only [Sc.width, u16, Nat.reduceMod] at h
  injection h with h
  injection h with h1 h2
  subst h1; subst h2
  have hlen : (List.take 2 rem ++ List.replicate (2 - rem.length) 0#8).length = 2 := by
    simp only [List.length_append, List.length_take, List.length_replicate]; omega
  have hlt := leVal_lt (List.take 2 rem ++ List.replicate (2 - rem.length) 0#8)
  rw [hlen] at hlt
  refine ⟨by omega, rem.length - (rem.drop 2).length, by simp only [List.length_drop]; omega, ?_⟩
  cases rem with
  | nil => left; rfl
  | cons b bs => right; simp only [List.length_drop, List.length_cons]; omega

/-! ### the element loop -/

theorem bnd_repeatN (f : List Byte → Option (Val × List Byte)) (B : Nat) (hf : Bnd B f) :
    ∀ (n : Nat) (rem : List Byte) (xs : List Val) (r : List Byte), repeatN f n rem = some (xs, r) →
      ∃ c, rem.length = r.length + c ∧ vsizes xs ≤ n * B + 65535 * (B * c)
  | 0, rem, xs, r, h => by
    simp only [repeatN] at h
    injection h with h
    injection h with h1 h2
    subst h1; subst h2
    exact ⟨0, rfl, by simp [vsizes]⟩
  | n + 1, rem, xs, r, h => by
    simp only [repeatN] at h
    cases hfr : f rem with
    | none => simp [hfr] at h
    | some p =>
      obtain ⟨x, r1⟩ := p
      simp only [hfr] at h
      cases hrep : repeatN f n r1 with
      | none => simp [hrep] at h
      | some q =>
        obtain ⟨xs', r2⟩ := q
        simp only [hrep] at h
        injection h with h
        injection h with h1 h2
        subst h1; subst h2
        obtain ⟨c1, e1, b1⟩ := hf rem x r1 hfr
        obtain ⟨c2, e2, b2⟩ := bnd_repeatN f B hf n r1 xs' r2 hrep
        refine ⟨c1 + c2, by omega, ?_⟩
        simp only [vsizes]
        have e : B * (c1 + c2) = B * c1 + B * c2 := Nat.mul_add _ _ _
        have e' : B * (1 + 65535 * c1) = B + 65535 * (B * c1) := by
          rw [Nat.mul_add, Nat.mul_one, ← Nat.mul_assoc, Nat.mul_comm B 65535, Nat.mul_assoc]
        have e'' : (n + 1) * B = n * B + B := Nat.succ_mul _ _
        rw [e'] at b1
        rw [e, e'']
        omega

/-! ### std::map insertion never grows the value beyond what was inserted -/

theorem vsizes_mapInsert (kt : Ty) (kv : Val) (m : List Val) : vsizes (mapInsert kt kv m) ≤ vsize kv + vsizes m := by
  induction m with
  | nil => simp [mapInsert, vsizes]
  | cons e es ih =>
    simp only [mapInsert]
    split
    · simp only [vsizes]; omega
    · split
      · simp only [vsizes]; omega
      · simp only [vsizes]; omega

theorem vsizes_foldl_mapInsert (kt : Ty) (kvs acc : List Val) :
    vsizes (kvs.foldl (fun m kv => mapInsert kt kv m) acc) ≤ vsizes acc + vsizes kvs := by
  induction kvs generalizing acc with
  | nil => simp [vsizes]
  | cons x xs ih =>
    simp only [List.foldl_cons, vsizes]
    have h1 := ih (mapInsert kt x acc)
    have h2 := vsizes_mapInsert kt x acc
    omega

/-! ### the bound, by mutual induction over the type descriptor -/

theorem bnd_arith_vec (S n B c1 c2 : Nat) (hS : S ≤ n * B + 65535 * (B * c2)) (hn : n ≤ 65535) (hc : n = 0 ∨ 1 ≤ c1) :
    1 + S ≤ (1 + B) * (1 + 65535 * (c1 + c2)) := by
  have hX : (1 + B) * (1 + 65535 * (c1 + c2)) = (1 + 65535 * (c1 + c2)) + B * (1 + 65535 * (c1 + c2)) := by
    rw [Nat.add_mul, Nat.one_mul]
  rw [hX]
  rcases hc with h | h
  · subst h
    have h1 : B * (65535 * c2) ≤ B * (1 + 65535 * (c1 + c2)) := Nat.mul_le_mul_left B (by omega)
    rw [Nat.mul_left_comm] at h1
    rw [Nat.zero_mul] at hS
    omega
  · have h1 : n * B ≤ 65535 * B := Nat.mul_le_mul_right B hn
    have h2 : B * (65535 + 65535 * c2) ≤ B * (1 + 65535 * (c1 + c2)) := Nat.mul_le_mul_left B (by omega)
    rw [Nat.mul_add, Nat.mul_left_comm B 65535 c2, Nat.mul_comm B 65535] at h2
    omega

theorem bnd_arith_two (s1 s2 B1 B2 c1 c2 k : Nat) (h1 : s1 ≤ B1 * (1 + 65535 * c1)) (h2 : s2 ≤ B2 * (1 + 65535 * c2)) :
    k + s1 + s2 ≤ (k + B1 + B2) * (1 + 65535 * (c1 + c2)) := by
  have hx1 : 1 + 65535 * c1 ≤ 1 + 65535 * (c1 + c2) := by omega
  have hx2 : 1 + 65535 * c2 ≤ 1 + 65535 * (c1 + c2) := by omega
  have a1 := Nat.le_trans h1 (Nat.mul_le_mul_left B1 hx1)
  have a2 := Nat.le_trans h2 (Nat.mul_le_mul_left B2 hx2)
  have a0 : k ≤ k * (1 + 65535 * (c1 + c2)) := Nat.le_mul_of_pos_right k (by omega)
  rw [Nat.add_mul, Nat.add_mul]
  omega

mutual
theorem bndB : ∀ (ty : Ty), Bnd (blank ty) (decodeB ty)
  | .sc k => by
    intro rem x r h
    simp only [decodeB] at h
    cases hl : loadScalarB k rem with
    | none => simp [hl] at h
    | some p =>
      obtain ⟨n, r'⟩ := p
      simp only [hl] at h
      injection h with h
      injection h with h1 h2
      subst h1; subst h2
      unfold loadScalarB at hl
      cases hd : loadDataB rem k.width with
      | none => simp [hd] at hl
      | some q =>
        obtain ⟨bs, r''⟩ := q
        simp only [hd] at hl
        injection hl with hl
        injection hl with _ h2
        subst h2
        obtain ⟨_, _, c, e, _⟩ := loadDataB_spec rem k.width bs r'' hd
        exact ⟨c, e, by simp only [vsize, blank]; omega⟩
  | .str => by
    intro rem x r h
    simp only [decodeB, loadStringB] at h
    cases hl : loadScalarB .u16 rem with
    | none => simp [hl] at h
    | some p =>
      obtain ⟨n, r1⟩ := p
      simp only [hl] at h
      cases hd : loadDataB r1 n with
      | none => simp [hd] at h
      | some q =>
        obtain ⟨bs, r2⟩ := q
        simp only [hd] at h
        injection h with h
        injection h with h1 h2
        subst h1; subst h2
        obtain ⟨hn, c1, e1, hc⟩ := count_spec rem n r1 hl
        obtain ⟨_, hlen, c2, e2, _⟩ := loadDataB_spec r1 n bs r2 hd
        have hu : u16 n = n := u16_of_le hn
        refine ⟨c1 + c2, by omega, ?_⟩
        simp only [vsize, blank]
        rcases hc with h0 | h1 <;> omega
  | .buf => by
    intro rem x r h
    simp only [decodeB, loadViewB] at h
    cases hl : loadScalarB .u16 rem with
    | none => simp [hl] at h
    | some p =>
      obtain ⟨n, r1⟩ := p
      simp only [hl] at h
      injection h with h
      injection h with h1 h2
      subst h1; subst h2
      obtain ⟨hn, c1, e1, hc⟩ := count_spec rem n r1 hl
      have hu : u16 n = n := u16_of_le hn
      refine ⟨c1 + (r1.length - (skipB r1 (u16 n)).length), by
        simp only [skipB, List.length_drop]; omega, ?_⟩
      simp only [vsize, blank, List.length_take, skipB, List.length_drop, hu]
      rcases hc with h0 | h1 <;> omega
  | .vec t => by
    intro rem x r h
    simp only [decodeB] at h
    cases hl : loadScalarB .u16 rem with
    | none => simp [hl] at h
    | some p =>
      obtain ⟨n, r1⟩ := p
      simp only [hl] at h
      cases hrep : repeatN (decodeB t) n r1 with
      | none => simp [hrep] at h
      | some q =>
        obtain ⟨xs, r2⟩ := q
        simp only [hrep] at h
        injection h with h
        injection h with h1 h2
        subst h1; subst h2
        obtain ⟨hn, c1, e1, hc⟩ := count_spec rem n r1 hl
        obtain ⟨c2, e2, b2⟩ := bnd_repeatN (decodeB t) (blank t) (bndB t) n r1 xs r2 hrep
        refine ⟨c1 + c2, by omega, ?_⟩
        simp only [vsize, blank]
        exact bnd_arith_vec _ _ _ _ _ b2 hn hc
  | .pair a b => by
    intro rem x r h
    simp only [decodeB] at h
    cases ha : decodeB a rem with
    | none => simp [ha] at h
    | some p =>
      obtain ⟨x1, r1⟩ := p
      simp only [ha] at h
      cases hb : decodeB b r1 with
      | none => simp [hb] at h
      | some q =>
        obtain ⟨x2, r2⟩ := q
        simp only [hb] at h
        injection h with h
        injection h with h1 h2
        subst h1; subst h2
        obtain ⟨c1, e1, b1⟩ := bndB a rem x1 r1 ha
        obtain ⟨c2, e2, b2⟩ := bndB b r1 x2 r2 hb
        refine ⟨c1 + c2, by omega, ?_⟩
        simp only [vsize, vsizes, blank, Nat.add_zero]
        have := bnd_arith_two _ _ _ _ _ _ 1 b1 b2
        omega
  | .tuple ts => by
    intro rem x r h
    simp only [decodeB] at h
    cases hf : decodeFieldsB ts rem with
    | none => simp [hf] at h
    | some p =>
      obtain ⟨xs, r1⟩ := p
      simp only [hf] at h
      injection h with h
      injection h with h1 h2
      subst h1; subst h2
      obtain ⟨c, e, b⟩ := bndFieldsB ts rem xs r1 hf
      refine ⟨c, e, ?_⟩
      simp only [vsize, blank]
      have := bnd_arith_two 0 _ 0 _ 0 c 1 (Nat.zero_le _) b
      simpa [Nat.add_comm, Nat.add_left_comm] using this
  | .map k t => by
    intro rem x r h
    simp only [decodeB] at h
    cases hl : loadScalarB .u16 rem with
    | none => simp [hl] at h
    | some p =>
      obtain ⟨n, r1⟩ := p
      simp only [hl] at h
      have hentry : Bnd (1 + blank k + blank t) (fun rem =>
          match decodeB k rem with
          | none => none
          | some (x, r) =>
            match decodeB t r with
            | some (y, r2) => some (Val.list [x, y], r2)
            | none => none) := by
        intro rem' e r' he
        simp only at he
        cases hk : decodeB k rem' with
        | none => simp [hk] at he
        | some pk =>
          obtain ⟨x1, ra⟩ := pk
          simp only [hk] at he
          cases ht : decodeB t ra with
          | none => simp [ht] at he
          | some pt =>
            obtain ⟨x2, rb⟩ := pt
            simp only [ht] at he
            injection he with he
            injection he with h1 h2
            subst h1; subst h2
            obtain ⟨c1, e1, b1⟩ := bndB k rem' x1 ra hk
            obtain ⟨c2, e2, b2⟩ := bndB t ra x2 rb ht
            refine ⟨c1 + c2, by omega, ?_⟩
            simp only [vsize, vsizes, Nat.add_zero]
            have := bnd_arith_two _ _ _ _ _ _ 1 b1 b2
            omega
      split at h
      · rename_i kvs r2 hrep
        injection h with h
        injection h with h1 h2
        subst h1; subst h2
        obtain ⟨hn, c1, e1, hc⟩ := count_spec rem n r1 hl
        obtain ⟨c2, e2, b2⟩ := bnd_repeatN _ _ hentry n r1 kvs r2 hrep
        refine ⟨c1 + c2, by omega, ?_⟩
        have hm := vsizes_foldl_mapInsert k kvs []
        simp only [vsize, blank, mapFromList]
        simp only [vsizes, Nat.zero_add] at hm
        have := bnd_arith_vec _ _ _ c1 c2 (Nat.le_trans hm b2) hn hc
        have e : 2 + blank k + blank t = 1 + (1 + blank k + blank t) := by omega
        rw [e]
        exact this
      · cases h
  | .struct fs => by
    intro rem x r h
    simp only [decodeB] at h
    cases hf : decodeFieldsB fs rem with
    | none => simp [hf] at h
    | some p =>
      obtain ⟨xs, r1⟩ := p
      simp only [hf] at h
      injection h with h
      injection h with h1 h2
      subst h1; subst h2
      obtain ⟨c, e, b⟩ := bndFieldsB fs rem xs r1 hf
      refine ⟨c, e, ?_⟩
      simp only [vsize, blank]
      have := bnd_arith_two 0 _ 0 _ 0 c 1 (Nat.zero_le _) b
      simpa [Nat.add_comm, Nat.add_left_comm] using this
theorem bndFieldsB : ∀ (ts : List Ty), BndL (blanks ts) (decodeFieldsB ts)
  | [] => by
    intro rem xs r h
    simp only [decodeFieldsB] at h
    injection h with h
    injection h with h1 h2
    subst h1; subst h2
    exact ⟨0, rfl, by simp [vsizes]⟩
  | t :: ts => by
    intro rem xs r h
    simp only [decodeFieldsB] at h
    cases ha : decodeB t rem with
    | none => simp [ha] at h
    | some p =>
      obtain ⟨x1, r1⟩ := p
      simp only [ha] at h
      cases hb : decodeFieldsB ts r1 with
      | none => simp [hb] at h
      | some q =>
        obtain ⟨xs', r2⟩ := q
        simp only [hb] at h
        injection h with h
        injection h with h1 h2
        subst h1; subst h2
        obtain ⟨c1, e1, b1⟩ := bndB t rem x1 r1 ha
        obtain ⟨c2, e2, b2⟩ := bndFieldsB ts r1 xs' r2 hb
        refine ⟨c1 + c2, by omega, ?_⟩
        simp only [vsizes, blanks]
        have := bnd_arith_two _ _ _ _ _ _ 0 b1 b2
        simp only [Nat.zero_add] at this
        omega
end


/-! ### the bound is reached: two bytes of input, 65535 elements -/

theorem repeatN_exhausted (n : Nat) :
    repeatN (decodeB (.sc .u8)) n [] = some (List.replicate n (.sc 0), []) := by
  have h0 : decodeB (.sc .u8) [] = some (.sc 0, []) := rfl
  induction n with
  | zero => rfl
  | succ n ih => simp only [repeatN, h0, ih, List.replicate_succ]

theorem vsizes_replicate_sc (n b : Nat) : vsizes (List.replicate n (.sc b)) = n := by
  induction n with
  | zero => rfl
  | succ n ih => simp only [List.replicate_succ, vsizes, vsize, ih]; omega

theorem hostile_count_decode_gen (n : Nat) (input : List Byte) (hc : loadScalarB .u16 input = some (n, [])) :
    decodeB (.vec (.sc .u8)) input = some (.list (List.replicate n (.sc 0)), []) := by
  rw [decodeB, hc]
  simp only [repeatN_exhausted]

theorem hostile_count_decode :
    decodeB (.vec (.sc .u8)) [0xff#8, 0xff#8] = some (.list (List.replicate 65535 (.sc 0)), []) :=
  hostile_count_decode_gen 65535 _ rfl

end Igris.C09
