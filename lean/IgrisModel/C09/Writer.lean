/-
  C09 round 3b — the fixed-buffer writer `binary_buffer_writer` at store level: lemmas.

  A buffer is split as `pre ++ free` at the write pointer. One `dump_data` call stores the prefix of its
  chunk that fits into `free`; a sequence of calls stores the prefix of the concatenation.
-/
import IgrisModel.C09.Bounded
namespace Igris.C09
open Igris.Proto

theorem bufw_dumpData_split (pre free dat : List Byte) :
    (BufW.mk (pre ++ free) pre.length).dumpData dat =
      ⟨(pre ++ dat.take free.length) ++ free.drop dat.length, (pre ++ dat.take free.length).length⟩ := by
  simp only [BufW.dumpData, BufW.poke, List.length_append, Nat.add_sub_cancel_left]
  by_cases h : dat.length < free.length
  · simp only [h, if_true]
    have h1 : List.take free.length dat = dat := List.take_of_length_le (by omega)
    simp [h1, List.take_of_length_le, List.drop_append]
  · simp only [h, if_false]
    have h2 : List.drop dat.length free = [] := List.drop_eq_nil_of_le (by omega)
    have h3 : (List.take free.length dat).length = free.length := by simp; omega
    simp [h2, h3, List.drop_append]

theorem bufw_dumpAll_split : ∀ (cs : List (List Byte)) (pre free : List Byte),
    (BufW.mk (pre ++ free) pre.length).dumpAll cs =
      ⟨(pre ++ cs.flatten.take free.length) ++ free.drop cs.flatten.length,
       (pre ++ cs.flatten.take free.length).length⟩
  | [], pre, free => by simp [BufW.dumpAll]
  | c :: cs, pre, free => by
    rw [BufW.dumpAll, bufw_dumpData_split, bufw_dumpAll_split cs]
    by_cases h : c.length ≤ free.length
    · have h1 : List.take free.length c = c := List.take_of_length_le h
      simp [h1, List.take_append, List.drop_drop]
    · have h2 : List.drop c.length free = [] := List.drop_eq_nil_of_le (by omega)
      have h6 : free.length - c.length = 0 := by omega
      simp [h2, h6, List.take_append]
      omega

end Igris.C09
