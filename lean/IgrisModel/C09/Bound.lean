/-
  C09 extension 2 — the 16-bit count as an explicit hypothesis: `WF` split into
  `Typed` (v is a value of the C++ type: shape, scalar widths, map order — no
  length limit) and `Counts16` (every string/buffer and every container, at every
  nesting level, has at most 65535 bytes/elements); maps and serializer-stack
  vectors of any length.
-/
import IgrisModel.C09.Order
import IgrisModel.C09.More
namespace Igris.C09
open Igris.Proto

mutual
/-- `v` is a value of C++ type `ty`, whatever its size: scalars fit their width,
containers have the right shape, map entries are in strict key order -/
def Typed : Ty → Val → Prop
  | .sc k, v => ∃ n, v = .sc n ∧ n < 2 ^ (8 * k.width)
  | .str, v => ∃ bs, v = .bytes bs
  | .buf, v => ∃ bs, v = .bytes bs
  | .vec t, v => ∃ vs, v = .list vs ∧ ∀ x ∈ vs, Typed t x
  | .pair a b, v => ∃ x y, v = .list [x, y] ∧ Typed a x ∧ Typed b y
  | .tuple ts, v => ∃ vs, v = .list vs ∧ Typeds ts vs
  | .map k t, v => ∃ kvs, v = .list kvs ∧
      (∀ kv ∈ kvs, ∃ x y, kv = .list [x, y] ∧ Typed k x ∧ Typed t y) ∧ kvs.Pairwise (keyOrdered k)
  | .struct fs, v => ∃ vs, v = .list vs ∧ Typeds fs vs
def Typeds : List Ty → List Val → Prop
  | [], vs => vs = []
  | t :: ts, vs => ∃ x xs, vs = x :: xs ∧ Typed t x ∧ Typeds ts xs
end

mutual
/-- THE 16-BIT BOUND: every string / buffer inside `v` has at most 65535 bytes and
every vector / map inside `v` at most 65535 elements (at every nesting level) -/
def Counts16 : Ty → Val → Prop
  | .sc _, _ => True
  | .str, v => v.bs.length ≤ 65535
  | .buf, v => v.bs.length ≤ 65535
  | .vec t, v => v.items.length ≤ 65535 ∧ ∀ x ∈ v.items, Counts16 t x
  | .pair a b, v => Counts16 a v.fst ∧ Counts16 b v.snd
  | .tuple ts, v => Counts16s ts v.items
  | .map k t, v => v.items.length ≤ 65535 ∧ ∀ kv ∈ v.items, Counts16 k kv.fst ∧ Counts16 t kv.snd
  | .struct fs, v => Counts16s fs v.items
def Counts16s : List Ty → List Val → Prop
  | [], _ => True
  | t :: ts, vs => Counts16 t (vs.headD default) ∧ Counts16s ts vs.tail
end

mutual
theorem wf_of_typed : ∀ (ty : Ty) (v : Val), Typed ty v → Counts16 ty v → WF ty v
  | .sc k, v, h, _ => by simp only [Typed] at h; simp only [WF]; exact h
  | .str, v, h, c => by
    simp only [Typed] at h; obtain ⟨bs, rfl⟩ := h
    simp only [Counts16, Val.bs] at c; simp only [WF]; exact ⟨bs, rfl, c⟩
  | .buf, v, h, c => by
    simp only [Typed] at h; obtain ⟨bs, rfl⟩ := h
    simp only [Counts16, Val.bs] at c; simp only [WF]; exact ⟨bs, rfl, c⟩
  | .vec t, v, h, c => by
    simp only [Typed] at h; obtain ⟨vs, rfl, hall⟩ := h
    simp only [Counts16, Val.items] at c; simp only [WF]
    exact ⟨vs, rfl, c.1, fun x hx => wf_of_typed t x (hall x hx) (c.2 x hx)⟩
  | .pair a b, v, h, c => by
    simp only [Typed] at h; obtain ⟨x, y, rfl, hx, hy⟩ := h
    simp only [Counts16] at c; simp only [WF]
    exact ⟨x, y, rfl, wf_of_typed a x hx c.1, wf_of_typed b y hy c.2⟩
  | .tuple ts, v, h, c => by
    simp only [Typed] at h; obtain ⟨vs, rfl, hvs⟩ := h
    simp only [Counts16, Val.items] at c; simp only [WF]
    exact ⟨vs, rfl, wfs_of_typed ts vs hvs c⟩
  | .map k t, v, h, c => by
    simp only [Typed] at h; obtain ⟨kvs, rfl, hall, hord⟩ := h
    simp only [Counts16, Val.items] at c; simp only [WF]
    refine ⟨kvs, rfl, c.1, fun kv hkv => ?_, hord⟩
    obtain ⟨x, y, rfl, hx, hy⟩ := hall kv hkv
    have := c.2 _ hkv
    exact ⟨x, y, rfl, wf_of_typed k x hx this.1, wf_of_typed t y hy this.2⟩
  | .struct fs, v, h, c => by
    simp only [Typed] at h; obtain ⟨vs, rfl, hvs⟩ := h
    simp only [Counts16, Val.items] at c; simp only [WF]
    exact ⟨vs, rfl, wfs_of_typed fs vs hvs c⟩
theorem wfs_of_typed : ∀ (ts : List Ty) (vs : List Val), Typeds ts vs → Counts16s ts vs → WFs ts vs
  | [], vs, h, _ => by simp only [Typeds] at h; simp only [WFs]; exact h
  | t :: ts, vs, h, c => by
    simp only [Typeds] at h; obtain ⟨x, xs, rfl, hx, hxs⟩ := h
    simp only [Counts16s, List.headD_cons, List.tail_cons] at c; simp only [WFs]
    exact ⟨x, xs, rfl, wf_of_typed t x hx c.1, wfs_of_typed ts xs hxs c.2⟩
end

mutual
theorem typed_of_wf : ∀ (ty : Ty) (v : Val), WF ty v → Typed ty v ∧ Counts16 ty v
  | .sc k, v, h => by simp only [WF] at h; simp only [Typed, Counts16]; exact ⟨h, trivial⟩
  | .str, v, h => by
    simp only [WF] at h; obtain ⟨bs, rfl, hl⟩ := h
    simp only [Typed, Counts16, Val.bs]; exact ⟨⟨bs, rfl⟩, hl⟩
  | .buf, v, h => by
    simp only [WF] at h; obtain ⟨bs, rfl, hl⟩ := h
    simp only [Typed, Counts16, Val.bs]; exact ⟨⟨bs, rfl⟩, hl⟩
  | .vec t, v, h => by
    simp only [WF] at h; obtain ⟨vs, rfl, hl, hall⟩ := h
    simp only [Typed, Counts16, Val.items]
    exact ⟨⟨vs, rfl, fun x hx => (typed_of_wf t x (hall x hx)).1⟩, hl, fun x hx => (typed_of_wf t x (hall x hx)).2⟩
  | .pair a b, v, h => by
    simp only [WF] at h; obtain ⟨x, y, rfl, hx, hy⟩ := h
    simp only [Typed, Counts16]
    exact ⟨⟨x, y, rfl, (typed_of_wf a x hx).1, (typed_of_wf b y hy).1⟩, (typed_of_wf a x hx).2, (typed_of_wf b y hy).2⟩
  | .tuple ts, v, h => by
    simp only [WF] at h; obtain ⟨vs, rfl, hvs⟩ := h
    simp only [Typed, Counts16, Val.items]
    exact ⟨⟨vs, rfl, (typeds_of_wfs ts vs hvs).1⟩, (typeds_of_wfs ts vs hvs).2⟩
  | .map k t, v, h => by
    simp only [WF] at h; obtain ⟨kvs, rfl, hl, hall, hord⟩ := h
    simp only [Typed, Counts16, Val.items]
    refine ⟨⟨kvs, rfl, fun kv hkv => ?_, hord⟩, hl, fun kv hkv => ?_⟩
    · obtain ⟨x, y, rfl, hx, hy⟩ := hall kv hkv
      exact ⟨x, y, rfl, (typed_of_wf k x hx).1, (typed_of_wf t y hy).1⟩
    · obtain ⟨x, y, rfl, hx, hy⟩ := hall kv hkv
      exact ⟨(typed_of_wf k x hx).2, (typed_of_wf t y hy).2⟩
  | .struct fs, v, h => by
    simp only [WF] at h; obtain ⟨vs, rfl, hvs⟩ := h
    simp only [Typed, Counts16, Val.items]
    exact ⟨⟨vs, rfl, (typeds_of_wfs fs vs hvs).1⟩, (typeds_of_wfs fs vs hvs).2⟩
theorem typeds_of_wfs : ∀ (ts : List Ty) (vs : List Val), WFs ts vs → Typeds ts vs ∧ Counts16s ts vs
  | [], vs, h => by simp only [WFs] at h; simp only [Typeds, Counts16s]; exact ⟨h, trivial⟩
  | t :: ts, vs, h => by
    simp only [WFs] at h; obtain ⟨x, xs, rfl, hx, hxs⟩ := h
    simp only [Typeds, Counts16s, List.headD_cons, List.tail_cons]
    exact ⟨⟨x, xs, rfl, (typed_of_wf t x hx).1, (typeds_of_wfs ts xs hxs).1⟩, (typed_of_wf t x hx).2, (typeds_of_wfs ts xs hxs).2⟩
end

/-! ### a map of ANY number of entries -/

/-- bytes of one map entry -/
def entryEnc (k t : Ty) (kv : Val) : List Byte := encodeA k kv.fst ++ encodeA t kv.snd

theorem entryA_entryEnc (k t : Ty) (kv : Val) (rest : List Byte)
    (h : ∃ x y, kv = .list [x, y] ∧ WF k x ∧ WF t y) : entryA k t (entryEnc k t kv ++ rest) = some (kv, rest) := by
  obtain ⟨x, y, rfl, hx, hy⟩ := h
  simp [entryA, entryEnc, Val.fst, Val.snd, Val.items, rtA k x _ hx, rtA t y _ hy]

/-- the count is `n mod 65536` but ALL n entries are written; the reader takes the
first `n mod 65536` (a sorted prefix, so insertion rebuilds it) and leaves the others in the stream -/
theorem decodeA_map_any (k t : Ty) (kvs : List Val) (rest : List Byte)
    (hall : ∀ kv ∈ kvs, ∃ x y, kv = .list [x, y] ∧ WF k x ∧ WF t y) (hord : kvs.Pairwise (keyOrdered k)) :
    decodeA (.map k t) (encodeA (.map k t) (.list kvs) ++ rest) =
      some (.list (kvs.take (u16 kvs.length)), (kvs.drop (u16 kvs.length)).flatMap (entryEnc k t) ++ rest) := by
  have hsplit : kvs.flatMap (entryEnc k t) =
      (kvs.take (u16 kvs.length)).flatMap (entryEnc k t) ++ (kvs.drop (u16 kvs.length)).flatMap (entryEnc k t) := by
    rw [← List.flatMap_append, List.take_append_drop]
  have hl : (kvs.take (u16 kvs.length)).length = u16 kvs.length := by
    simp [List.length_take, Nat.min_eq_left (u16_le_self _)]
  have ih : ∀ x ∈ kvs.take (u16 kvs.length), ∀ rest, entryA k t (entryEnc k t x ++ rest) = some (x, rest) :=
    fun x hx rest => entryA_entryEnc k t x rest (hall x (List.mem_of_mem_take hx))
  have hrep := repeatN_flatMap (entryA k t) (entryEnc k t) (kvs.take (u16 kvs.length))
    ((kvs.drop (u16 kvs.length)).flatMap (entryEnc k t) ++ rest) ih
  rw [hl] at hrep
  have henc : encodeA (.map k t) (.list kvs) = dumpScalar .u16 (u16 kvs.length) ++ kvs.flatMap (entryEnc k t) := by
    simp only [encodeA, Val.items]; rfl
  rw [decodeA_map_eq, henc, List.append_assoc, loadScalar_u16_any, hsplit, List.append_assoc]
  simp only [hrep]
  rw [mapFromList_ordered k _ (hord.sublist (List.take_sublist _ _))]

/-! ### a serializer-stack vector of ANY length -/

theorem leVal_leBytes_u16 (n : Nat) : leVal (leBytes 2 (u16 n)) = u16 n :=
  leVal_leBytes_of_lt _ _ (by have := u16_le n; omega)

theorem decodeS_vec_any (t : Ty) (vs : List Val) (rest : List Byte) (hs : t.supportedS = true)
    (hall : ∀ x ∈ vs, WF t x) :
    decodeS (.vec t) (encodeS (.vec t) (.list vs) ++ rest) =
      some (.list (vs.take (u16 vs.length)), (vs.drop (u16 vs.length)).flatMap (encodeS t) ++ rest) := by
  have hsplit : vs.flatMap (encodeS t) =
      (vs.take (u16 vs.length)).flatMap (encodeS t) ++ (vs.drop (u16 vs.length)).flatMap (encodeS t) := by
    rw [← List.flatMap_append, List.take_append_drop]
  have hl : (vs.take (u16 vs.length)).length = u16 vs.length := by
    simp [List.length_take, Nat.min_eq_left (u16_le_self _)]
  have ih : ∀ x ∈ vs.take (u16 vs.length), ∀ rest, decodeS t (encodeS t x ++ rest) = some (x, rest) :=
    fun x hx rest => rtS t x rest hs (hall x (List.mem_of_mem_take hx))
  have hrep := repeatN_flatMap (decodeS t) (encodeS t) (vs.take (u16 vs.length))
    ((vs.drop (u16 vs.length)).flatMap (encodeS t) ++ rest) ih
  rw [hl] at hrep
  simp only [encodeS, decodeS, Val.items, List.append_assoc, loadS_leBytes, leVal_leBytes_u16, hsplit, hrep]

/-! ### 65536 entries with `uint16_t` keys 0, 1, …, 65535 -/

def bigMap (n : Nat) : List Val := (List.range n).map fun i => Val.list [.sc i, .sc 0]

theorem bigMap_length (n : Nat) : (bigMap n).length = n := by simp [bigMap]

theorem bigMap_entries (n : Nat) (hn : n ≤ 65536) :
    ∀ kv ∈ bigMap n, ∃ x y, kv = .list [x, y] ∧ WF (.sc .u16) x ∧ WF (.sc .u8) y := by
  intro kv hkv
  simp only [bigMap, List.mem_map, List.mem_range] at hkv
  obtain ⟨i, hi, rfl⟩ := hkv
  refine ⟨.sc i, .sc 0, rfl, ?_, ?_⟩
  · simp only [WF]; exact ⟨i, rfl, by simp [Sc.width]; omega⟩
  · simp only [WF]; exact ⟨0, rfl, by simp [Sc.width]⟩

theorem bigMap_ordered (n : Nat) : (bigMap n).Pairwise (keyOrdered (.sc .u16)) := by
  unfold bigMap
  rw [List.pairwise_map]
  refine List.Pairwise.imp ?_ (List.pairwise_lt_range (n := n))
  intro i j hij0
  have hij : i < j := hij0
  have h1 : keyLt (.sc .u16) (Val.sc i) (Val.sc j) = true := by
    simp [keyLt, scLt, Sc.isFloat, Sc.signed, Val.bits, hij]
  have h2 : keyLt (.sc .u16) (Val.sc j) (Val.sc i) = false := by
    simp only [keyLt, scLt, Sc.isFloat, Sc.signed, Val.bits, Bool.false_eq_true, if_false]
    exact decide_eq_false (by omega)
  exact ⟨h1, h2, by simp [keyClean, isNaN], by simp [keyClean, isNaN]⟩

end Igris.C09
