/-
  C09 — PROPERTY THEOREMS: binary serialization round-trips every value with a
  stable wire format.

  "For every value of every supported type (fixed-width integers, floating
  point, strings and buffers up to 65535 bytes, vectors, pairs, tuples, maps and
  user types exposing reflect/serialize_reflect, arbitrarily nested)
  deserialize(serialize(v)) equals v and consumes exactly the bytes serialize
  produced, so concatenated values decode in sequence.  The byte layout is
  stable: scalars as their fixed-width native-endian image and containers as a
  16-bit count followed by the elements, so recorded encodings keep decoding to
  the same value.  Decoding through the bounded storage reader never reads
  beyond the bytes supplied, however truncated."

  `Ty` = type descriptor (arbitrary nesting), `Val` = value tree, `WF ty v` =
  "v is a value of C++ type ty" (scalars fit their width, strings/buffers <= 65535
  bytes, containers <= 65535 elements, map entries in key order).  A/S = the two
  stacks (archive.h+stdtypes.h / serializer<Storage,binary_protocol>).  A reader
  is the list of bytes in front of it; `none` = a read outside the input.
-/
import IgrisModel.C09.Lemmas
import IgrisModel.C09.More
import IgrisModel.C09.Order
import IgrisModel.C09.Bound
import IgrisModel.C09.Bounded
import IgrisModel.C09.Layout
import IgrisModel.C09.Into
import IgrisModel.C09.Cost
import IgrisModel.C09.Writer
namespace Igris.C09
open Igris.Proto

/-! ## 1. round trip, exact consumption, sequencing -/

/-- ROUND TRIP, archive stack: for every type descriptor, every well-formed
value and every continuation `rest` of the stream, decoding what was encoded
returns the value and leaves exactly `rest` in front of the reader. -/
theorem roundtrip_prefix_A (ty : Ty) (v : Val) (rest : List Byte) (h : WF ty v) :
    decodeA ty (encodeA ty v ++ rest) = some (v, rest) :=
  rtA ty v rest h

/-- ROUND TRIP, serializer stack over the bounded storage reader (types the
stack accepts: arithmetic, vectors, serialize_reflect structs, nested). -/
theorem roundtrip_prefix_S (ty : Ty) (v : Val) (rest : List Byte) (hs : ty.supportedS = true)
    (h : WF ty v) : decodeS ty (encodeS ty v ++ rest) = some (v, rest) :=
  rtS ty v rest hs h

/-- "consumes exactly the bytes serialize produced": the reader position after
the decode is the length of the encoding, whatever follows it -/
theorem consumes_exactly_A (ty : Ty) (v : Val) (rest : List Byte) (h : WF ty v) :
    ∃ r, decodeA ty (encodeA ty v ++ rest) = some (v, r) ∧
      (encodeA ty v ++ rest).length - r.length = (encodeA ty v).length ∧
      r = (encodeA ty v ++ rest).drop (encodeA ty v).length :=
  ⟨rest, rtA ty v rest h, by simp, by simp⟩

theorem consumes_exactly_S (ty : Ty) (v : Val) (rest : List Byte) (hs : ty.supportedS = true)
    (h : WF ty v) :
    ∃ r, decodeS ty (encodeS ty v ++ rest) = some (v, r) ∧
      (encodeS ty v ++ rest).length - r.length = (encodeS ty v).length ∧
      r = (encodeS ty v ++ rest).drop (encodeS ty v).length :=
  ⟨rest, rtS ty v rest hs h, by simp, by simp⟩

/-- "concatenated values decode in sequence": any list of values of any types,
written one after the other, is read back one after the other -/
theorem sequence_A (ts : List Ty) (vs : List Val) (rest : List Byte) (h : WFs ts vs) :
    decodeFieldsA ts (encodeFieldsA ts vs ++ rest) = some (vs, rest) :=
  rtAs ts vs rest h

theorem sequence_S (ts : List Ty) (vs : List Val) (rest : List Byte) (hs : supportedSs ts = true)
    (h : WFs ts vs) : decodeFieldsS ts (encodeFieldsS ts vs ++ rest) = some (vs, rest) :=
  rtSs ts vs rest hs h

/-- the two-value form, spelled out -/
theorem sequence_two_A (t1 t2 : Ty) (v1 v2 : Val) (rest : List Byte) (h1 : WF t1 v1) (h2 : WF t2 v2) :
    decodeA t1 (encodeA t1 v1 ++ encodeA t2 v2 ++ rest) = some (v1, encodeA t2 v2 ++ rest) ∧
    decodeA t2 (encodeA t2 v2 ++ rest) = some (v2, rest) := by
  rw [List.append_assoc]
  exact ⟨rtA t1 v1 _ h1, rtA t2 v2 _ h2⟩

/-- consequence: distinct values never share an encoding -/
theorem encodeA_injective (ty : Ty) (v w : Val) (hv : WF ty v) (hw : WF ty w)
    (h : encodeA ty v = encodeA ty w) : v = w := by
  have a := rtA ty v [] hv
  have b := rtA ty w [] hw
  rw [h, b] at a
  simp only [Option.some.injEq, Prod.mk.injEq] at a
  exact a.1.symm

/-! ## 2. stable wire format (equations on `encode`) -/

/-- a scalar is its `sizeof`-byte little-endian image: exactly `width` bytes … -/
theorem wire_scalar (k : Sc) (n : Nat) :
    encodeA (.sc k) (.sc n) = leBytes k.width n ∧ encodeS (.sc k) (.sc n) = leBytes k.width n := by
  simp [encodeA, encodeS, Val.bits, dumpScalar_eq]

/-- … and byte `i` is digit `i` of the value in base 256 (least significant first) -/
theorem wire_scalar_bytes (w n : Nat) :
    (leBytes w n).length = w ∧
    ∀ i, i < w → (leBytes w n)[i]? = some (BitVec.ofNat 8 (n / 256 ^ i)) :=
  ⟨leBytes_length w n, fun i hi => leBytes_getElem? w n i hi⟩

/-- std::string / igris::buffer: 16-bit length, then the bytes (embedded NULs included) -/
theorem wire_string (bs : List Byte) (h : bs.length ≤ 65535) :
    encodeA .str (.bytes bs) = leBytes 2 bs.length ++ bs ∧
    encodeA .buf (.bytes bs) = leBytes 2 bs.length ++ bs := by
  simp [encodeA, Val.bs, dumpBuffer_eq bs h]

/-- std::vector: 16-bit count, then the elements one after the other (both stacks) -/
theorem wire_vector (t : Ty) (vs : List Val) (h : vs.length ≤ 65535) :
    encodeA (.vec t) (.list vs) = leBytes 2 vs.length ++ vs.flatMap (encodeA t) ∧
    encodeS (.vec t) (.list vs) = leBytes 2 vs.length ++ vs.flatMap (encodeS t) := by
  simp [encodeA, encodeS, Val.items, dumpScalar_eq, u16_of_le h, Sc.width]

/-- std::map: 16-bit count, then key, value, key, value … in key order -/
theorem wire_map (k t : Ty) (kvs : List Val) (h : kvs.length ≤ 65535) :
    encodeA (.map k t) (.list kvs) =
      leBytes 2 kvs.length ++ kvs.flatMap (fun kv => encodeA k kv.fst ++ encodeA t kv.snd) := by
  simp [encodeA, Val.items, dumpScalar_eq, u16_of_le h, Sc.width]

/-- std::pair: first then second, nothing else -/
theorem wire_pair (a b : Ty) (x y : Val) :
    encodeA (.pair a b) (.list [x, y]) = encodeA a x ++ encodeA b y := by
  simp [encodeA, Val.fst, Val.snd, Val.items]

/-- tuples and reflected user types: the fields in declaration order, nothing
else (no count, no padding) -/
theorem wire_fields (ts : List Ty) (vs : List Val) :
    encodeA (.tuple ts) (.list vs) = encodeFieldsA ts vs ∧
    encodeA (.struct ts) (.list vs) = encodeFieldsA ts vs ∧
    encodeS (.struct ts) (.list vs) = encodeFieldsS ts vs ∧
    (∀ t x, encodeFieldsA (t :: ts) (x :: vs) = encodeA t x ++ encodeFieldsA ts vs) ∧
    (∀ t x, encodeFieldsS (t :: ts) (x :: vs) = encodeS t x ++ encodeFieldsS ts vs) ∧
    encodeFieldsA [] [] = [] ∧ encodeFieldsS [] [] = [] := by
  simp [encodeA, encodeS, encodeFieldsA, encodeFieldsS, Val.items]

/-- the two stacks produce identical bytes on every type both accept -/
theorem wire_same_on_both_stacks (ty : Ty) (v : Val) (hs : ty.supportedS = true) :
    encodeS ty v = encodeA ty v :=
  encS_eq_encA ty v hs

/-- "recorded encodings keep decoding to the same value": the vector body the
library wrote BEFORE the repair (raw object image) is, for every scalar element
type and every count whose image fits the 16-bit size (count*sizeof <= 65535),
byte for byte the element-wise encoding of the repaired library. -/
theorem recorded_vector_encodings_unchanged (k : Sc) (vs : List Val)
    (h : vs.length * k.width ≤ 65535) :
    encodeVecRaw k vs = encodeA (.vec (.sc k)) (.list vs) := by
  have hl : (vs.flatMap fun v => leBytes k.width v.bits).length ≤ u16 (vs.length * k.width) := by
    rw [flatMap_leBytes_length, u16_of_le h]; exact Nat.le_refl _
  simp only [encodeVecRaw, encodeA, Val.items, dumpData]
  rw [List.take_of_length_le hl]
  simp only [dumpScalar_eq]

/-- recorded encodings (golden vectors, also in corpus/C09/golden.ops) decode
to the recorded values -/
theorem golden_decodings :
    decodeA (.map .str (.sc .i32)) [0x02,0,1,0,0x41,0x21,0,0,0,1,0,0x42,0x2c,0,0,0] =
      some (.list [.list [.bytes [0x41], .sc 33], .list [.bytes [0x42], .sc 44]], []) ∧
    decodeA (.tuple [.sc .u8, .str, .sc .f64]) [1, 2,0,0x78,0x79, 0,0,0,0,0,0,0xf8,0x3f] =
      some (.list [.sc 1, .bytes [0x78, 0x79], .sc 0x3ff8000000000000], []) ∧
    decodeA (.vec (.sc .i32)) [3,0, 1,0,0,0, 2,0,0,0, 3,0,0,0] =
      some (.list [.sc 1, .sc 2, .sc 3], []) ∧
    decodeS (.vec (.sc .u32)) [4,0, 31,0,0,0, 32,0,0,0, 33,0,0,0, 34,0,0,0] =
      some (.list [.sc 31, .sc 32, .sc 33, .sc 34], []) ∧
    decodeS (.struct [.sc .u8, .sc .i32, .vec (.sc .u16)]) [1, 2,0,0,0, 2,0, 3,0, 4,0] =
      some (.list [.sc 1, .sc 2, .list [.sc 3, .sc 4]], []) :=
  ⟨rfl, rfl, rfl, rfl, rfl⟩

/-! ## 3. the bounded storage reader -/

/-- BOUNDED READER: for every type and EVERY input (in particular every
truncation of an encoding, and arbitrary bytes) decoding through
`deserialize_buffer_storage` never faults — no byte at an offset >= the
supplied length is read — and the cursor ends inside the input. -/
theorem bounded_reader_safe (ty : Ty) (input : List Byte) :
    ∃ v cursor, cursor ≤ input.length ∧ decodeS ty input = some (v, input.drop cursor) :=
  safe_decodeS ty input

/-- the same for every truncation point of an encoding, spelled out -/
theorem bounded_reader_safe_truncated (ty : Ty) (v : Val) (k : Nat) :
    ∃ v' cursor, cursor ≤ ((encodeS ty v).take k).length ∧
      decodeS ty ((encodeS ty v).take k) = some (v', ((encodeS ty v).take k).drop cursor) :=
  safe_decodeS ty _

/-- the clamp itself: a storage read delivers the available prefix, padded with
the zeros of the value-initialised object, and never faults -/
theorem bounded_load (rem : List Byte) (size : Nat) :
    loadS rem size = some (rem.take size ++ List.replicate (size - rem.length) 0#8, rem.drop size) :=
  loadS_eq rem size

/-- historical (before `fix: binary_buffer_reader never reads beyond _end`;
`decodeA` = the reader as it was, now the strict reference reader):
`binary_buffer_reader` stored `_end` but never compared with it; on a truncated
input it read past the end.  The code now is `decodeB`, section 13. -/
theorem archive_reader_unbounded_witness : decodeA (.sc .u32) [1, 2] = none := by decide

/-! ## 4. what the repairs changed (historical witnesses on the model of the old code) -/

/-- before `fix: serialize std::vector element by element`: when
count*sizeof(T) reaches 65536 the 16-bit size of the raw image wraps; a
`std::vector<int32_t>` of 16384 elements was written as its 2-byte count and
nothing else … -/
theorem vec_raw_image_witness :
    encodeVecRaw .i32 (List.replicate 16384 (.sc 7)) = [0x00, 0x40] := by
  rw [vec_raw_wraps .i32 _ (by rw [List.length_replicate]; rfl), List.length_replicate]
  decide

/-- … which the (unchanged) element-wise decoder reads past the end -/
theorem vec_raw_image_overread_witness : decodeA (.vec (.sc .i32)) [0x00, 0x40] = none := by decide

/-! ## 5. the driver's domain check -/

/-- the executable check the driver applies to every generated value implies
`WF`: every op the model answers (rather than `illformed`) lies in the domain of
the round-trip theorems -/
theorem driver_domain_check_sound (ty : Ty) (v : Val) (h : wfb ty v = true) : WF ty v :=
  wfb_sound ty v h

/-- std::map: inserting entries that arrive in key order rebuilds the same map
(the only place where the decoded container is not the wire order) -/
theorem map_insert_ordered (kt : Ty) (kvs : List Val) (h : kvs.Pairwise (keyOrdered kt)) :
    mapFromList kt kvs = kvs :=
  mapFromList_ordered kt kvs h

/-! ## 6. extension: framing, locality, truncation of the archive reader -/

/-- UNIQUE PARSE (framing / prefix-freeness): if two encodings of a type, each
followed by anything, are the same byte string, the values and the
continuations are the same — no encoding is a proper prefix of another one,
which is what makes concatenated values decodable -/
theorem unique_parse_A (ty : Ty) (v w : Val) (x y : List Byte) (hv : WF ty v) (hw : WF ty w)
    (h : encodeA ty v ++ x = encodeA ty w ++ y) : v = w ∧ x = y := by
  have a := rtA ty v x hv
  have b := rtA ty w y hw
  rw [h, b] at a
  simp only [Option.some.injEq, Prod.mk.injEq] at a
  exact ⟨a.1.symm, a.2.symm⟩

theorem unique_parse_S (ty : Ty) (v w : Val) (x y : List Byte) (hs : ty.supportedS = true)
    (hv : WF ty v) (hw : WF ty w) (h : encodeS ty v ++ x = encodeS ty w ++ y) : v = w ∧ x = y := by
  have a := rtS ty v x hs hv
  have b := rtS ty w y hs hw
  rw [h, b] at a
  simp only [Option.some.injEq, Prod.mk.injEq] at a
  exact ⟨a.1.symm, a.2.symm⟩

/-- no encoding is a proper prefix of another encoding of the same type -/
theorem prefix_free_A (ty : Ty) (v w : Val) (x : List Byte) (hv : WF ty v) (hw : WF ty w)
    (h : encodeA ty v ++ x = encodeA ty w) : v = w ∧ x = [] := by
  have := unique_parse_A ty v w x [] hv hw (by rw [h, List.append_nil])
  exact this

/-- NO LOOK-AHEAD: whenever the archive reader returns, what it leaves is a
suffix of its input, and the value and the consumption are determined by the
consumed bytes alone: replace what follows them by anything (`y`) and the same
value comes back with `y` untouched.  For every type, every input (not only
encodings). -/
theorem archive_reader_local (ty : Ty) (input : List Byte) (v : Val) (r : List Byte)
    (h : decodeA ty input = some (v, r)) :
    ∃ p, input = p ++ r ∧ ∀ y, decodeA ty (p ++ y) = some (v, y) :=
  local_decodeA ty input v r h

theorem archive_reader_local_seq (ts : List Ty) (input : List Byte) (vs : List Val) (r : List Byte)
    (h : decodeFieldsA ts input = some (vs, r)) :
    ∃ p, input = p ++ r ∧ ∀ y, decodeFieldsA ts (p ++ y) = some (vs, y) :=
  local_decodeFieldsA ts input vs r h

/- TRUNCATED INPUT, archive reader AS IT WAS (`decodeA`).  The full statement "on a
   truncated encoding the reader never reads beyond the supplied bytes":
       ∀ ty v k, ∃ v' c, c ≤ k ∧ decode ty ((encodeA ty v).take k) = some (v', …)
   was FALSE for the code: `binary_buffer_reader` stored `_end` and never compared
   with it (C09-archive-reader-unbounded, now repaired by b8eaf2a; the full statement is
   `bounded_archive_reader_safe` on `decodeB`, section 13).  For the old reader the
   exact opposite held, for EVERY proper prefix of EVERY encoding: -/

/-- `_partial` (characterisation of the finding): on every proper prefix of the
encoding of a well-formed value the archive reader reads past the end of the
supplied bytes (model fault = ASan heap-buffer-overflow on an exactly sized
copy).  With `roundtrip_prefix_A`: the reader stays inside its input iff the
input contains a complete encoding. -/
theorem truncated_A_faults (ty : Ty) (v : Val) (h : WF ty v) (k : Nat)
    (hk : k < (encodeA ty v).length) : decodeA ty ((encodeA ty v).take k) = none :=
  decodeA_prefix_none ty v h k hk

/-- `_witness`: a `uint32_t` cut after two bytes / a string whose length field survives but not its bytes -/
theorem truncated_A_witness :
    decodeA (.sc .u32) ((encodeA (.sc .u32) (.sc 0x04030201)).take 2) = none ∧
    decodeA .str ((encodeA .str (.bytes [0x61, 0x62, 0x63])).take 4) = none := by decide

/-! ## 7. extension: the documented layout as one recursive specification -/

/-- the bytes written for ANY type of the universe are the documented layout
(`layout`: defined from the format description alone — lengths as 2-byte
little-endian numbers, no `uint16_t` conversion, no `dump_data`) -/
theorem wire_layout_A (ty : Ty) (v : Val) (h : WF ty v) : encodeA ty v = layout ty v :=
  encodeA_eq_layout ty v h

theorem wire_layout_S (ty : Ty) (v : Val) (hs : ty.supportedS = true) (h : WF ty v) :
    encodeS ty v = layout ty v := by
  rw [encS_eq_encA ty v hs]; exact encodeA_eq_layout ty v h

/-- the layout of a nested value, spelled out once: map<string, vector<u16>> {"A": [1, 0x203]} -/
theorem wire_layout_example :
    layout (.map .str (.vec (.sc .u16))) (.list [.list [.bytes [0x41], .list [.sc 1, .sc 0x203]]]) =
      [1, 0,  1, 0, 0x41,  2, 0,  1, 0,  3, 2] := by decide

/-- `dump(const char*, uint16_t)` and `dump(std::string_view)` write what `dump(igris::buffer)` writes -/
theorem wire_char_array (bs : List Byte) : dumpCharArr bs = dumpBuffer bs :=
  dumpCharArr_eq_dumpBuffer bs

/-! ## 8. extension: capped buffer loads (`load(char*, maxsz)`, `load(writable_buffer&)`) -/

/-- after `fix: capped buffer loads … skip the part of the payload that does
not fit`: whatever the capacity of the destination, the load delivers the first
min(capacity, length) bytes and leaves the reader exactly behind the payload —
the following fields are read in step -/
theorem capped_load_in_step (bs rest : List Byte) (cap : Nat) (h : bs.length ≤ 65535) :
    loadWritable (dumpBuffer bs ++ rest) cap = some (bs.take cap, rest) ∧
    loadCharArr (dumpCharArr bs ++ rest) cap = some (bs.take (cap % 65536), rest) :=
  ⟨loadWritable_dumpBuffer bs rest cap h, loadCharArr_dumpCharArr bs rest cap h⟩

/-- hence a value written after the payload is read back after the capped load -/
theorem capped_load_then_value (bs rest : List Byte) (cap : Nat) (ty : Ty) (v : Val)
    (h : bs.length ≤ 65535) (hv : WF ty v) :
    ∃ r, loadWritable (dumpBuffer bs ++ (encodeA ty v ++ rest)) cap = some (bs.take cap, r) ∧
      decodeA ty r = some (v, rest) :=
  ⟨_, loadWritable_dumpBuffer bs _ cap h, rtA ty v rest hv⟩

/-- historical: the loads as they were — the unread part of the payload stayed
in front of the reader … -/
theorem capped_load_old_out_of_step (bs rest : List Byte) (cap : Nat) (h : bs.length ≤ 65535) :
    loadCappedOld (dumpBuffer bs ++ rest) cap = some (bs.take cap, bs.drop cap ++ rest) :=
  loadCappedOld_dumpBuffer bs rest cap h

/-- … e.g. the replayed violation `cap c 0 2f u8 14 -`: payload `2f` into a
0-byte destination, then the `uint8_t` 0x14 was read back as 0x2f -/
theorem capped_load_old_out_of_step_witness :
    loadCappedOld (dumpBuffer [0x2f] ++ encodeA (.sc .u8) (.sc 0x14)) 0 = some ([], [0x2f, 0x14]) ∧
    decodeA (.sc .u8) [0x2f, 0x14] = some (.sc 0x2f, [0x14]) := ⟨rfl, rfl⟩

/-! ## 9. extension: beyond the 16-bit count (outside the property's domain — what exactly happens) -/

/-- a string/buffer of ANY length: count = length mod 65536 and only that many
bytes are written; the value is cut, the stream stays in step.  (`roundtrip_prefix_A`
is the case length <= 65535, where nothing is cut.) -/
theorem string_any_length (bs rest : List Byte) :
    decodeA .str (encodeA .str (.bytes bs) ++ rest) = some (.bytes (bs.take (bs.length % 65536)), rest) := by
  simp only [encodeA, decodeA, Val.bs, loadBuffer_dumpBuffer_any]
  rfl

/-- a vector of ANY length: count = n mod 65536 but ALL n elements are written;
the reader takes the first n mod 65536 and the others stay in the stream -/
theorem vector_any_length (t : Ty) (vs : List Val) (rest : List Byte) (hall : ∀ x ∈ vs, WF t x) :
    decodeA (.vec t) (encodeA (.vec t) (.list vs) ++ rest) =
      some (.list (vs.take (vs.length % 65536)),
            (vs.drop (vs.length % 65536)).flatMap (encodeA t) ++ rest) :=
  decodeA_vec_any t vs rest hall

/-- witness beyond the precondition of the round trip: 65536 bytes / elements
come back as none, and for the vector the reader is left 65536 bytes early -/
theorem count_wrap_witness (rest : List Byte) :
    decodeA .str (encodeA .str (.bytes (List.replicate 65536 0x41#8)) ++ rest) = some (.bytes [], rest) ∧
    decodeA (.vec (.sc .u8)) (encodeA (.vec (.sc .u8)) (.list (List.replicate 65536 (.sc 7))) ++ rest) =
      some (.list [], (List.replicate 65536 (Val.sc 7)).flatMap (encodeA (.sc .u8)) ++ rest) := by
  constructor
  · have := string_any_length (List.replicate 65536 0x41#8) rest
    rw [List.length_replicate] at this
    exact this
  · have := vector_any_length (.sc .u8) (List.replicate 65536 (.sc 7)) rest (by
      intro x hx
      rw [List.eq_of_mem_replicate hx]
      exact wfb_sound _ _ (by decide))
    rw [List.length_replicate] at this
    exact this

/-! ## 10. extension: `archive::data<T>(xs, N)` — a fixed-size array as its raw image, no count -/

/-- round trip of an N-element scalar array whenever the image fits the 16-bit
size parameter (N*sizeof(T) <= 65535) -/
theorem data_array_roundtrip (k : Sc) (vs : List Val) (rest : List Byte)
    (hfit : ∀ v ∈ vs, ∃ n, v = .sc n ∧ n < 2 ^ (8 * k.width)) (h : vs.length * k.width ≤ 65535) :
    decodeData k vs.length (encodeData k vs ++ rest) = some (vs, rest) :=
  decodeData_encodeData k vs rest hfit h

/-- witness beyond it: `uint16_t xs[32768]` (65536 bytes) is written as NOTHING -/
theorem data_array_wrap_witness : encodeData .u16 (List.replicate 32768 (.sc 7)) = [] := by
  have h0 : u16 ((List.replicate 32768 (Val.sc 7)).length * Sc.width .u16) = 0 := by
    rw [List.length_replicate]; decide
  simp only [encodeData, dumpData, h0, List.take_zero]

/-- `deserialize_storage::loads(n)` is the clamped load: the available prefix, zero-padded -/
theorem storage_loads (rem : List Byte) (n : Nat) :
    loadsS rem n = some (rem.take n ++ List.replicate (n - rem.length) 0#8, rem.drop n) :=
  loadS_eq rem n

/-! ## 11. extension 2: the key order of `std::map<K, …>` for EVERY key type

`keyLt` is `std::less<K>` on the whole universe (IEEE `<` for float/double,
lexicographic for vector / pair / tuple / map / `std::tie` of a user type), so
`WF (.map k t)` — entries in strict key order — describes the maps of every key
type, and `roundtrip_prefix_A` covers them all (before, `keyLt` was `false`
outside integers/strings/pairs and `WF` admitted at most one entry there). -/

/-- `operator<` is a STRICT WEAK ORDER on the keys of every type, NaN excluded:
asymmetric, transitive, and incomparability (the key equivalence of `std::map`)
is transitive.  This is the requirement `std::map` puts on its comparison. -/
theorem key_order_strict_weak (kt : Ty) :
    (∀ a b, keyClean kt a = true → keyClean kt b = true → keyLt kt a b = true → keyLt kt b a = false) ∧
    (∀ a b c, keyClean kt a = true → keyClean kt b = true → keyClean kt c = true →
      keyLt kt a b = true → keyLt kt b c = true → keyLt kt a c = true) ∧
    (∀ a b c, keyClean kt a = true → keyClean kt b = true → keyClean kt c = true →
      keyLt kt a b = false → keyLt kt b a = false → keyLt kt b c = false → keyLt kt c b = false →
      keyLt kt a c = false ∧ keyLt kt c a = false) :=
  ⟨(swo_key kt).asym, (swo_key kt).trans, (swo_key kt).equiv_trans⟩

/-- `_witness` for the exclusion: with a NaN the incomparability is not transitive
(1.0f ~ NaN ~ 2.0f but 1.0f < 2.0f), also inside a `vector<float>` key -/
theorem key_order_nan_witness :
    keyLt (.sc .f32) (.sc 0x3f800000) (.sc 0x7fc00000) = false ∧ keyLt (.sc .f32) (.sc 0x7fc00000) (.sc 0x3f800000) = false ∧
    keyLt (.sc .f32) (.sc 0x7fc00000) (.sc 0x40000000) = false ∧ keyLt (.sc .f32) (.sc 0x40000000) (.sc 0x7fc00000) = false ∧
    keyLt (.sc .f32) (.sc 0x3f800000) (.sc 0x40000000) = true ∧
    keyClean (.sc .f32) (.sc 0x7fc00000) = false ∧
    keyClean (.vec (.sc .f64)) (.list [.sc 0, .sc 0x7ff8000000000001]) = false := by decide

/-- IEEE order on the bit patterns: -inf < -1.0 < -0.0 = +0.0 < denormal < 1.0 < +inf;
`-0.0` and `+0.0` are EQUIVALENT keys (a map holds at most one of them) -/
theorem key_order_float_examples :
    keyLt (.sc .f32) (.sc 0xff800000) (.sc 0xbf800000) = true ∧ keyLt (.sc .f32) (.sc 0xbf800000) (.sc 0x80000000) = true ∧
    keyLt (.sc .f32) (.sc 0x80000000) (.sc 0) = false ∧ keyLt (.sc .f32) (.sc 0) (.sc 0x80000000) = false ∧
    keyLt (.sc .f32) (.sc 0) (.sc 1) = true ∧ keyLt (.sc .f32) (.sc 1) (.sc 0x3f800000) = true ∧
    keyLt (.sc .f32) (.sc 0x3f800000) (.sc 0x7f800000) = true ∧
    keyLt (.sc .f64) (.sc 0xbff0000000000000) (.sc 0x8000000000000000) = true ∧
    keyLt (.sc .f64) (.sc 0x8000000000000000) (.sc 0) = false ∧ keyLt (.sc .f64) (.sc 0) (.sc 0x8000000000000000) = false := by
  decide

/-- a wire image that carries both `+0.0f` and `-0.0f` as keys decodes to ONE entry
(the first one inserted wins), like `std::map<float, uint8_t>` -/
theorem map_float_zero_keys_collapse :
    decodeA (.map (.sc .f32) (.sc .u8)) [2, 0,  0, 0, 0, 0,  1,  0, 0, 0, 0x80,  2] =
      some (.list [.list [.sc 0, .sc 1]], []) := rfl

/-- the audit's probe, now with the right answer: a 2-entry `map<vector<u8>, u8>`,
`map<tuple<u8,u8>, u8>` and `map<float, u8>` (keys -1.0f, 2.0f) come back complete -/
theorem map_compound_keys_roundtrip_examples :
    decodeA (.map (.vec (.sc .u8)) (.sc .u8))
        (encodeA (.map (.vec (.sc .u8)) (.sc .u8)) (.list [.list [.list [.sc 1], .sc 10], .list [.list [.sc 1, .sc 0], .sc 20]])) =
      some (.list [.list [.list [.sc 1], .sc 10], .list [.list [.sc 1, .sc 0], .sc 20]], []) ∧
    decodeA (.map (.tuple [.sc .u8, .sc .u8]) (.sc .u8))
        (encodeA (.map (.tuple [.sc .u8, .sc .u8]) (.sc .u8)) (.list [.list [.list [.sc 1, .sc 9], .sc 10], .list [.list [.sc 2, .sc 0], .sc 20]])) =
      some (.list [.list [.list [.sc 1, .sc 9], .sc 10], .list [.list [.sc 2, .sc 0], .sc 20]], []) ∧
    decodeA (.map (.sc .f32) (.sc .u8))
        (encodeA (.map (.sc .f32) (.sc .u8)) (.list [.list [.sc 0xbf800000, .sc 10], .list [.sc 0x40000000, .sc 20]])) =
      some (.list [.list [.sc 0xbf800000, .sc 10], .list [.sc 0x40000000, .sc 20]], []) := ⟨rfl, rfl, rfl⟩

/-- DECODE OF ANY WIRE ORDER (shuffled, repeated keys): inserting any list of
well-typed entries with clean keys leaves a map VALUE — entries in strict key
order, each one of the inserted entries, not more than were sent -/
theorem map_decode_is_map_value (k t : Ty) (kvs : List Val) (hl : kvs.length ≤ 65535)
    (hall : ∀ kv ∈ kvs, ∃ x y, kv = .list [x, y] ∧ WF k x ∧ WF t y)
    (hclean : ∀ kv ∈ kvs, keyClean k kv.fst = true) :
    WF (.map k t) (.list (mapFromList k kvs)) ∧ (∀ e ∈ mapFromList k kvs, e ∈ kvs) ∧
      (mapFromList k kvs).length ≤ kvs.length := by
  have hs := mapFromList_sorted k kvs hclean
  have hlen := mapFromList_length k kvs
  refine ⟨?_, hs.2, hlen⟩
  simp only [WF]
  exact ⟨_, rfl, by omega, fun kv hkv => hall kv (hs.2 kv hkv), hs.1⟩

/-- every map with two or more entries has NaN-free keys (so the order above is
the order that was used to build it) -/
theorem wf_map_keys_clean (k t : Ty) (kvs : List Val) (h : WF (.map k t) (.list kvs)) (h2 : 2 ≤ kvs.length) :
    ∀ kv ∈ kvs, keyClean k kv.fst = true := by
  simp only [WF] at h
  obtain ⟨kvs', e, _, _, hord⟩ := h
  cases e
  match kvs, h2, hord with
  | a :: b :: rest, _, hord =>
    rw [List.pairwise_cons] at hord
    intro kv hkv
    simp only [List.mem_cons] at hkv
    rcases hkv with rfl | rfl | hkv
    · exact (hord.1 b (by simp)).2.2.1
    · exact (hord.1 kv (by simp)).2.2.2
    · exact (hord.1 kv (by simp [hkv])).2.2.2

/-! ## 12. extension 2: THE 16-BIT BOUND, explicit

`WF ty v` ⇔ `Typed ty v` (v is a value of the type, of any size) ∧ `Counts16 ty v`
(every string/buffer ≤ 65535 bytes, every vector/map ≤ 65535 elements, at every
level).  The round trip holds under the bound and FAILS at 65536 — for vectors
and maps the stream is even left out of step. -/

theorem wf_iff_typed_counts16 (ty : Ty) (v : Val) : WF ty v ↔ Typed ty v ∧ Counts16 ty v :=
  ⟨typed_of_wf ty v, fun h => wf_of_typed ty v h.1 h.2⟩

/-- ROUND TRIP, archive stack, `_partial`: for every value of every type whose
sub-containers all have at most 65535 elements (`Counts16`).  The full statement
(without `h16`) is FALSE for the code: the count on the wire is a `uint16_t`
(`(uint16_t)vec.size()`), see the two witnesses below. -/
theorem roundtrip_A_partial (ty : Ty) (v : Val) (rest : List Byte) (ht : Typed ty v) (h16 : Counts16 ty v) :
    decodeA ty (encodeA ty v ++ rest) = some (v, rest) :=
  rtA ty v rest (wf_of_typed ty v ht h16)

/-- `_witness` (vector): 65536 elements — a value of the type, outside the bound,
comes back EMPTY and the 65536 element bytes stay in front of the reader -/
theorem roundtrip_A_witness (rest : List Byte) :
    Typed (.vec (.sc .u8)) (.list (List.replicate 65536 (.sc 7))) ∧
    ¬ Counts16 (.vec (.sc .u8)) (.list (List.replicate 65536 (.sc 7))) ∧
    decodeA (.vec (.sc .u8)) (encodeA (.vec (.sc .u8)) (.list (List.replicate 65536 (.sc 7))) ++ rest) =
      some (.list [], (List.replicate 65536 (Val.sc 7)).flatMap (encodeA (.sc .u8)) ++ rest) := by
  refine ⟨?_, ?_, (count_wrap_witness rest).2⟩
  · simp only [Typed]
    exact ⟨_, rfl, fun x hx => by rw [List.eq_of_mem_replicate hx]; exact ⟨7, rfl, by decide⟩⟩
  · simp only [Counts16, Val.items, List.length_replicate]
    omega

/-- a map of ANY number of entries: the count is `n mod 65536`, all n entries are
written, the reader inserts the first `n mod 65536` and leaves the others in the stream -/
theorem map_any_length (k t : Ty) (kvs : List Val) (rest : List Byte)
    (hall : ∀ kv ∈ kvs, ∃ x y, kv = .list [x, y] ∧ WF k x ∧ WF t y) (hord : kvs.Pairwise (keyOrdered k)) :
    decodeA (.map k t) (encodeA (.map k t) (.list kvs) ++ rest) =
      some (.list (kvs.take (kvs.length % 65536)),
            (kvs.drop (kvs.length % 65536)).flatMap (fun kv => encodeA k kv.fst ++ encodeA t kv.snd) ++ rest) :=
  decodeA_map_any k t kvs rest hall hord

/-- `_witness` (map): `std::map<uint16_t, uint8_t>` with all 65536 keys — a value
of the type, outside the bound, comes back EMPTY, stream out of step -/
theorem roundtrip_A_map_witness (rest : List Byte) :
    Typed (.map (.sc .u16) (.sc .u8)) (.list (bigMap 65536)) ∧
    ¬ Counts16 (.map (.sc .u16) (.sc .u8)) (.list (bigMap 65536)) ∧
    decodeA (.map (.sc .u16) (.sc .u8)) (encodeA (.map (.sc .u16) (.sc .u8)) (.list (bigMap 65536)) ++ rest) =
      some (.list [], (bigMap 65536).flatMap (fun kv => encodeA (.sc .u16) kv.fst ++ encodeA (.sc .u8) kv.snd) ++ rest) := by
  refine ⟨?_, ?_, ?_⟩
  · simp only [Typed]
    refine ⟨_, rfl, fun kv hkv => ?_, bigMap_ordered _⟩
    obtain ⟨x, y, e, hx, hy⟩ := bigMap_entries 65536 (Nat.le_refl _) kv hkv
    exact ⟨x, y, e, (typed_of_wf _ _ hx).1, (typed_of_wf _ _ hy).1⟩
  · simp only [Counts16, Val.items, bigMap_length]
    omega
  · have := map_any_length (.sc .u16) (.sc .u8) (bigMap 65536) rest (bigMap_entries 65536 (Nat.le_refl _)) (bigMap_ordered _)
    rw [bigMap_length] at this
    exact this

/-- ROUND TRIP, serializer stack, `_partial` under the same explicit bound -/
theorem roundtrip_S_partial (ty : Ty) (v : Val) (rest : List Byte) (hs : ty.supportedS = true)
    (ht : Typed ty v) (h16 : Counts16 ty v) : decodeS ty (encodeS ty v ++ rest) = some (v, rest) :=
  rtS ty v rest hs (wf_of_typed ty v ht h16)

/-- serializer stack, a vector of ANY length (`binary_protocol::dump` of a list
tag writes `(uint16_t)size` and then every element) -/
theorem vector_any_length_S (t : Ty) (vs : List Val) (rest : List Byte) (hs : t.supportedS = true)
    (hall : ∀ x ∈ vs, WF t x) :
    decodeS (.vec t) (encodeS (.vec t) (.list vs) ++ rest) =
      some (.list (vs.take (vs.length % 65536)), (vs.drop (vs.length % 65536)).flatMap (encodeS t) ++ rest) :=
  decodeS_vec_any t vs rest hs hall

/-- `_witness`, serializer stack -/
theorem roundtrip_S_witness (rest : List Byte) :
    Typed (.vec (.sc .u8)) (.list (List.replicate 65536 (.sc 7))) ∧
    ¬ Counts16 (.vec (.sc .u8)) (.list (List.replicate 65536 (.sc 7))) ∧
    decodeS (.vec (.sc .u8)) (encodeS (.vec (.sc .u8)) (.list (List.replicate 65536 (.sc 7))) ++ rest) =
      some (.list [], (List.replicate 65536 (Val.sc 7)).flatMap (encodeS (.sc .u8)) ++ rest) := by
  refine ⟨(roundtrip_A_witness rest).1, (roundtrip_A_witness rest).2.1, ?_⟩
  have := vector_any_length_S (.sc .u8) (List.replicate 65536 (.sc 7)) rest rfl (by
    intro x hx
    rw [List.eq_of_mem_replicate hx]
    exact wfb_sound _ _ (by decide))
  rw [List.length_replicate] at this
  exact this

/-! ## 13. extension 2: the bounded readers

`decodeB` = the archive reader after `fix: binary_buffer_reader never reads beyond
_end` (clamp + zero-fill like the storage reader; `decodeA` above is the reader as it
was and serves as the STRICT reference reader: `none` = a byte outside the input is
needed).  `decodeC` = the storage reader with its `size_t` cursor. -/

/-- BOUNDED ARCHIVE READER: for every type of the universe (strings, buffers,
pairs, tuples, maps included) and EVERY input the repaired `binary_buffer_reader`
returns, having read no byte at an offset >= the supplied length -/
theorem bounded_archive_reader_safe (ty : Ty) (input : List Byte) :
    ∃ v cursor, cursor ≤ input.length ∧ decodeB ty input = some (v, input.drop cursor) :=
  safe_decodeB ty input

/-- the repair changes NOTHING where the old reader stayed inside its input -/
theorem bounded_archive_reader_conservative (ty : Ty) (input : List Byte) (v : Val) (r : List Byte)
    (h : decodeA ty input = some (v, r)) : decodeB ty input = some (v, r) :=
  mono_decode ty input v r h

/-- hence every round-trip statement holds for the code as it is now -/
theorem roundtrip_prefix_B (ty : Ty) (v : Val) (rest : List Byte) (h : WF ty v) :
    decodeB ty (encodeA ty v ++ rest) = some (v, rest) :=
  mono_decode ty _ _ _ (rtA ty v rest h)

theorem sequence_B (ts : List Ty) (vs : List Val) (rest : List Byte) (h : WFs ts vs) :
    decodeFieldsB ts (encodeFieldsA ts vs ++ rest) = some (vs, rest) :=
  mono_decodeFields ts _ _ _ (rtAs ts vs rest h)

/-- the capped loads and the raw array over the repaired reader -/
theorem capped_load_in_step_B (bs rest : List Byte) (cap : Nat) (h : bs.length ≤ 65535) :
    loadWritableB (dumpBuffer bs ++ rest) cap = some (bs.take cap, rest) ∧
    loadCharArrB (dumpCharArr bs ++ rest) cap = some (bs.take (cap % 65536), rest) :=
  ⟨loadWritableB_of _ _ _ _ (loadWritable_dumpBuffer bs rest cap h),
   loadCharArrB_of _ _ _ _ (loadCharArr_dumpCharArr bs rest cap h)⟩

theorem data_array_roundtrip_B (k : Sc) (vs : List Val) (rest : List Byte)
    (hfit : ∀ v ∈ vs, ∃ n, v = .sc n ∧ n < 2 ^ (8 * k.width)) (h : vs.length * k.width ≤ 65535) :
    decodeDataB k vs.length (encodeData k vs ++ rest) = some (vs, rest) :=
  decodeDataB_of _ _ _ _ _ (decodeData_encodeData k vs rest hfit h)

/-- TRUNCATED DECODE = DECODE OF THE ZERO-EXTENDED INPUT, archive reader: whatever
the bounded reader returns on ANY input (`v`, leaving `r`), the strict reader
returns on that input followed by `pad` zero bytes — `pad` is 0 unless the input
was used up (`r = []`) — and anything after that (`y`) is left untouched.  So the
result is a function of the supplied bytes alone: the missing bytes read as zero.
(Types containing `igris::buffer` excepted: a zero-copy view is cut, see below.) -/
theorem truncated_decode_zero_extended_B (ty : Ty) (hnv : ty.noView = true) (input : List Byte) (v : Val)
    (r : List Byte) (h : decodeB ty input = some (v, r)) :
    ∃ pad, (pad = 0 ∨ r = []) ∧ ∀ y, decodeA ty (input ++ List.replicate pad 0#8 ++ y) = some (v, r ++ y) :=
  (ze_decode ty hnv input v r h).2

/-- the same for the storage reader of the serializer stack (the harness oracle
"truncated decode == reference decoder with the missing bytes as zero") -/
theorem truncated_decode_zero_extended_S (ty : Ty) (hs : ty.supportedS = true) (input : List Byte) (v : Val)
    (r : List Byte) (h : decodeS ty input = some (v, r)) :
    ∃ pad, (pad = 0 ∨ r = []) ∧ ∀ y, decodeA ty (input ++ List.replicate pad 0#8 ++ y) = some (v, r ++ y) := by
  rw [decodeS_eq_decodeB ty hs] at h
  exact (ze_decode ty (noView_of_supportedS ty hs) input v r h).2

/-- in particular for every truncation point of an encoding: the value decoded
from the first k bytes is the value of those bytes followed by zeros, and the
cursor stays inside the k bytes -/
theorem truncated_encoding_S (ty : Ty) (hs : ty.supportedS = true) (w : Val) (k : Nat) :
    ∃ v cursor pad, cursor ≤ ((encodeS ty w).take k).length ∧
      decodeS ty ((encodeS ty w).take k) = some (v, ((encodeS ty w).take k).drop cursor) ∧
      ∀ y, decodeA ty ((encodeS ty w).take k ++ List.replicate pad 0#8 ++ y) =
        some (v, ((encodeS ty w).take k).drop cursor ++ y) := by
  obtain ⟨v, c, hc, e⟩ := safe_decodeS ty ((encodeS ty w).take k)
  obtain ⟨pad, _, hz⟩ := truncated_decode_zero_extended_S ty hs _ v _ e
  exact ⟨v, c, pad, hc, e, hz⟩

/-- a truncated `std::string` is zero-filled to its announced length, a truncated
`igris::buffer` VIEW is cut to the bytes that exist (it cannot be filled) -/
theorem truncated_string_vs_view_witness :
    decodeB .str [3, 0, 0x41] = some (.bytes [0x41, 0, 0], []) ∧
    decodeB .buf [3, 0, 0x41] = some (.bytes [0x41], []) ∧
    decodeB (.sc .u32) [1, 2] = some (.sc 0x0201, []) := ⟨rfl, rfl, rfl⟩

/-- STORAGE READER WITH ITS CURSOR (`size_t cursor`, `len = MIN(size, size() - cursor)`
in `size_t` arithmetic, `memcpy` of `[cursor, cursor+len)`): started at 0 on an
input shorter than 2^64 it never faults, the cursor ends inside the input — the
invariant `cursor <= size` keeps `size() - cursor` from wrapping — and value and
position are those of the remaining-bytes model `decodeS` all other theorems use -/
theorem storage_cursor_model (ty : Ty) (input : List Byte) (hsz : input.length < 2 ^ 64) :
    ∃ v c, c ≤ input.length ∧ decodeC ty ⟨input, 0⟩ = some (v, ⟨input, c⟩) ∧
      decodeS ty input = some (v, input.drop c) := by
  obtain ⟨v, s', rem', e1, e2, hr, hd, _⟩ := sim_decodeC ty ⟨input, 0⟩ input ⟨Nat.zero_le _, hsz, rfl⟩
  obtain ⟨hc, _, rfl⟩ := hr
  cases s' with
  | mk d c =>
    simp only at hd hc e2
    subst hd
    exact ⟨v, c, hc, e1, e2⟩

theorem storage_cursor_model_seq (ts : List Ty) (input : List Byte) (hsz : input.length < 2 ^ 64) :
    ∃ vs c, c ≤ input.length ∧ decodeFieldsC ts ⟨input, 0⟩ = some (vs, ⟨input, c⟩) ∧
      decodeFieldsS ts input = some (vs, input.drop c) := by
  obtain ⟨v, s', rem', e1, e2, hr, hd, _⟩ := sim_decodeFieldsC ts ⟨input, 0⟩ input ⟨Nat.zero_le _, hsz, rfl⟩
  obtain ⟨hc, _, rfl⟩ := hr
  cases s' with
  | mk d c =>
    simp only at hd hc e2
    subst hd
    exact ⟨v, c, hc, e1, e2⟩

/-- one `load` keeps the invariant and is the clamped load of the remaining bytes -/
theorem storage_load_keeps_invariant (s : Store) (size : Nat) (hc : s.cursor ≤ s.data.length)
    (hsz : s.data.length < 2 ^ 64) :
    ∃ bs c, s.load size = some (bs, ⟨s.data, c⟩) ∧ s.cursor ≤ c ∧ c ≤ s.data.length ∧
      loadS (s.data.drop s.cursor) size = some (bs, s.data.drop c) := by
  obtain ⟨bs, s', rem', e1, e2, hr, hd, hmono⟩ := store_load_sim s _ size ⟨hc, hsz, rfl⟩
  obtain ⟨hc', _, rfl⟩ := hr
  cases s' with
  | mk d c =>
    simp only at hd hc' e2 hmono
    subst hd
    exact ⟨bs, c, e1, hmono, hc', e2⟩

/-- `_witness` why the invariant matters: with the cursor beyond the size (what
`cursor += size` instead of `cursor += len` produces) `size() - cursor` wraps to
2^64-1, the clamp is void and the next `load` copies from outside the buffer -/
theorem storage_cursor_wrap_witness :
    Store.avail ⟨[], 1⟩ = 18446744073709551615 ∧ Store.load ⟨[0x55], 2⟩ 1 = none := by decide

/-! ## 14. extension 2: the wire format against a specification that shares nothing with the writer

`layout` (section 7) still used the model's `leBytes` and value accessors.
`layoutDoc` (Layout.lean) is written from the format description alone: the byte
image is the closed form "byte i = ⌊n / 256^i⌋ mod 256", values are taken apart by
pattern matching; no `u16`, `dumpData`, `dumpScalar`, `leBytes`. -/

/-- the bytes written for ANY well-formed value of ANY type are the documented layout -/
theorem wire_layout_documented_A (ty : Ty) (v : Val) (h : WF ty v) : encodeA ty v = layoutDoc ty v :=
  encodeA_eq_layoutDoc ty v h

theorem wire_layout_documented_S (ty : Ty) (v : Val) (hs : ty.supportedS = true) (h : WF ty v) :
    encodeS ty v = layoutDoc ty v := by
  rw [encS_eq_encA ty v hs]; exact encodeA_eq_layoutDoc ty v h

/-- and the bounded readers invert the documented layout -/
theorem documented_layout_decodes (ty : Ty) (v : Val) (rest : List Byte) (h : WF ty v) :
    decodeB ty (layoutDoc ty v ++ rest) = some (v, rest) := by
  rw [← encodeA_eq_layoutDoc ty v h]; exact mono_decode ty _ _ _ (rtA ty v rest h)

/-- the specification evaluated: map<string, vector<u16>> {"A": [1, 0x203]}, and a float -/
theorem wire_layout_documented_example :
    layoutDoc (.map .str (.vec (.sc .u16))) (.list [.list [.bytes [0x41], .list [.sc 1, .sc 0x203]]]) =
      [1, 0,  1, 0, 0x41,  2, 0,  1, 0,  3, 2] ∧
    layoutDoc (.sc .f32) (.sc 0x3f800000) = [0, 0, 0x80, 0x3f] := by decide

/-! ## non-vacuity: the hypotheses are satisfiable by non-trivial values -/

-- a map<string, vector<pair<i8,u16>>> with two entries in key order
example : WF (.map .str (.vec (.pair (.sc .i8) (.sc .u16))))
    (.list [.list [.bytes [0x41], .list [.list [.sc 0xff, .sc 7]]],
            .list [.bytes [0x41, 0x00], .list []]]) :=
  wfb_sound _ _ (by decide)

-- a struct accepted by the S stack
example : Ty.supportedS (.struct [.sc .u8, .vec (.vec (.sc .f32)), .struct [.sc .i64]]) = true := by decide

example : WFs [.sc .u8, .str] [.sc 5, .bytes [0, 0]] := wfbs_sound _ _ (by decide)

example : (List.replicate 16383 (Val.sc 7)).length * Sc.width .i32 ≤ 65535 := by
  rw [List.length_replicate]; decide

-- extension
example : WF (.sc .u32) (.sc 0x04030201) ∧ 2 < (encodeA (.sc .u32) (.sc 0x04030201)).length := by
  refine ⟨wfb_sound _ _ (by decide), by decide⟩
example : encodeA (.sc .u8) (.sc 1) ++ [5] = encodeA (.sc .u8) (.sc 1) ++ [5] := rfl
example : decodeA (.pair (.sc .u8) .str) [7, 1, 0, 0x41, 9] = some (.list [.sc 7, .bytes [0x41]], [9]) := rfl
example : ([0x61, 0x62, 0x63] : List Byte).length ≤ 65535 := by decide
example : ∀ v ∈ [Val.sc 1, Val.sc 0xffff], ∃ n, v = .sc n ∧ n < 2 ^ (8 * Sc.width .u16) := by
  intro v hv
  simp only [List.mem_cons, List.not_mem_nil, or_false] at hv
  rcases hv with rfl | rfl
  · exact ⟨1, rfl, by decide⟩
  · exact ⟨0xffff, rfl, by decide⟩


/-! ## 15. extension 3: decoding INTO an object that already holds a value

`igris::deserialize(reader, obj)` (also every `r & field` of a `reflect`, and `deserialize<T>(buffer)` with its
`T ret;` — a user type whose default constructor fills a container is NOT empty there) and
`deserializer::operator&(T &obj)`.  `decodeInto true` / `decodeIntoS true` = the code after
`fix: the container deserialisers replace what the destination held`; `… false` = the code before. -/

/-- DESTINATION INDEPENDENCE, archive stack: for every type, EVERY previous content `d` of the object and EVERY
input (complete, truncated, hostile) the in-place reader delivers what the reader into a new object delivers -/
theorem decode_into_destination_independent (ty : Ty) (d : Val) (input : List Byte) :
    decodeInto true ty d input = decodeB ty input := by
  rw [decodeInto_eq true ty d (Or.inl rfl)]

/-- ROUND TRIP INTO ANY OBJECT, archive stack: whatever the object held, it holds `v` afterwards and the reader
stands exactly behind the encoding -/
theorem roundtrip_into_any_destination_A (ty : Ty) (d v : Val) (rest : List Byte) (h : WF ty v) :
    decodeInto true ty d (encodeA ty v ++ rest) = some (v, rest) := by
  rw [decode_into_destination_independent]; exact roundtrip_prefix_B ty v rest h

/-- the same for the serializer stack -/
theorem roundtrip_into_any_destination_S (ty : Ty) (d v : Val) (rest : List Byte) (hs : ty.supportedS = true)
    (h : WF ty v) : decodeIntoS true ty d (encodeS ty v ++ rest) = some (v, rest) :=
  rtIntoS true ty d v rest (Or.inl rfl) hs h

/-- into a value-initialised object the in-place reader of the serializer stack IS `deserialize<T>()`, on EVERY
input — all statements about `decodeS` (bounds, truncation = zero extension) carry over -/
theorem decode_into_fresh_is_deserialize_S (ty : Ty) (input : List Byte) :
    decodeIntoS true ty (fresh ty) input = decodeS ty input := by
  rw [decodeIntoS_fresh]

/-- contrast: on a TRUNCATED input the storage reader copies only the bytes that exist, a scalar that is decoded
in place keeps the other bytes of its old value (the archive reader zero-fills: theorem above) -/
theorem decode_into_S_truncated_keeps_destination_witness :
    decodeIntoS true (.sc .u32) (.sc 0xAABBCCDD) [0x01, 0x02] = some (.sc 0xAABB0201, []) ∧
    decodeInto true (.sc .u32) (.sc 0xAABBCCDD) [0x01, 0x02] = some (.sc 0x00000201, []) := ⟨rfl, rfl⟩

/-- the fix changes nothing where the old code was right: into a default-constructed object (empty containers)
the code before the fix decoded, on every input, what the code after it decodes -/
theorem decode_into_old_fresh (ty : Ty) (input : List Byte) :
    decodeInto false ty (fresh ty) input = decodeB ty input := by
  rw [decodeInto_eq false ty _ (Or.inr rfl)]

/-- THE DEFECT (code before the fix), general: a vector decoded into an object that holds `d` comes back as
`d ++ v` — the round trip `deserialize(serialize v) = v` failed for every non-empty destination -/
theorem decode_into_old_appends (t : Ty) (d : Val) (vs : List Val) (rest : List Byte)
    (h : WF (.vec t) (.list vs)) :
    decodeInto false (.vec t) d (encodeA (.vec t) (.list vs) ++ rest) = some (.list (d.items ++ vs), rest) := by
  rw [decodeInto_old_vec, roundtrip_prefix_B _ _ _ h]
  rfl

/-- … exactly: the old code round-tripped a vector iff the destination was empty -/
theorem decode_into_old_roundtrip_iff (t : Ty) (d : Val) (vs : List Val) (rest : List Byte)
    (h : WF (.vec t) (.list vs)) :
    decodeInto false (.vec t) d (encodeA (.vec t) (.list vs) ++ rest) = some (.list vs, rest) ↔ d.items = [] := by
  rw [decode_into_old_appends t d vs rest h]
  constructor
  · intro e
    injection e with e
    injection e with e _
    injection e with e
    have hl := congrArg List.length e   -- d.items ++ vs = vs
    rw [List.length_append] at hl
    exact List.eq_nil_of_length_eq_zero (by omega)
  · intro e; rw [e]; rfl

/-- `_witness` (the replayed violations `ia V(u8) [01] [02] - -` and `ia M(u8,u8) {01:02} {01:03} - -`): the vector
came back as [01,02]; the map kept the OLD value of the key that was sent again -/
theorem decode_into_old_witness :
    decodeInto false (.vec (.sc .u8)) (.list [.sc 1]) [1, 0, 2] = some (.list [.sc 1, .sc 2], []) ∧
    decodeInto false (.map (.sc .u8) (.sc .u8)) (.list [.list [.sc 1, .sc 2]]) [1, 0, 1, 3] =
      some (.list [.list [.sc 1, .sc 2]], []) ∧
    decodeInto true (.map (.sc .u8) (.sc .u8)) (.list [.list [.sc 1, .sc 2]]) [1, 0, 1, 3] =
      some (.list [.list [.sc 1, .sc 3]], []) := ⟨rfl, rfl, rfl⟩

example : WF (.vec (.sc .u8)) (.list [.sc 2]) := wfb_sound _ _ (by decide)
example : WF (.struct [.vec (.sc .u8), .sc .i16, .map (.sc .u8) (.sc .u8)])
    (.list [.list [.sc 9], .sc 1, .list [.list [.sc 2, .sc 3]]]) := wfb_sound _ _ (by decide)
example : (Ty.struct [.vec (.sc .u8), .sc .u16, .vec (.sc .u16)]).supportedS = true := by decide

/-! ## 16. extension 3: the 16-bit bound is decidable; what a wrapped count does to the NEXT value -/

/-- the domain of the round trip (`Counts16`: every string / buffer / vector / map inside the value has at most
65535 bytes / elements) is a decidable predicate: `counts16b` computes it -/
theorem counts16_decidable (ty : Ty) (v : Val) : counts16b ty v = true ↔ Counts16 ty v :=
  counts16b_iff ty v

/-- inside the domain = round trip (restated over the executable predicate) -/
theorem roundtrip_inside_counts16 (ty : Ty) (v : Val) (rest : List Byte) (ht : Typed ty v)
    (h16 : counts16b ty v = true) : decodeB ty (encodeA ty v ++ rest) = some (v, rest) :=
  roundtrip_prefix_B ty v rest (wf_of_typed ty v ht ((counts16b_iff ty v).mp h16))

example : counts16b (.vec .str) (.list [.bytes [1, 2]]) = true := by decide

/-- `_witness` at 65536, THE NEXT VALUE: a `vector<uint8_t>` of 65536 sevens followed by the `uint8_t` 5 through one
writer and one reader — the count on the wire is 0, the vector comes back empty, and the value behind it is read from
the first element byte: 7 instead of 5, 65536 bytes left over (finding C09-count-wraps-at-65536) -/
theorem count_wrap_following_value_witness :
    decodeFieldsA [.vec (.sc .u8), .sc .u8]
        (encodeFieldsA [.vec (.sc .u8), .sc .u8] [.list (List.replicate 65536 (.sc 7)), .sc 5]) =
      some ([.list [], .sc 7], List.replicate 65535 7#8 ++ [5#8]) :=
  wrap_following_65536

/-! ## 17. extension 3: HOSTILE INPUT — what a decode can allocate (cost model)

`vsize v` = number of nodes of the decoded value (one per scalar, per string byte, per container / entry node),
`blank ty` = the size of the value an exhausted input decodes to.  A count is 2 bytes on the wire: it announces at
most 65535 elements and, because missing bytes read as zero, it announces NONE once the input is exhausted. -/

/-- DECODE ALLOCATES AT MOST `blank ty * (1 + 65535 * consumed)` nodes: for every type, arbitrarily nested, and EVERY
input (counts larger than the remaining input, 65535 x 65535 nested counts, …).  Memory is linear in the bytes
actually consumed with the constant 65535 of the count width — a 4-byte input can never make the reader allocate
4 GiB (`vector<vector<uint8_t>>` on 4 bytes: at most 2 * 262141 nodes) -/
theorem decode_allocates_at_most (ty : Ty) (input : List Byte) (v : Val) (r : List Byte)
    (h : decodeB ty input = some (v, r)) :
    vsize v ≤ blank ty * (1 + 65535 * (input.length - r.length)) := by
  obtain ⟨c, e, b⟩ := bndB ty input v r h
  have hc : input.length - r.length = c := by omega
  rw [hc]; exact b

/-- … in particular linear in the length of the input -/
theorem decode_allocates_linear_in_input (ty : Ty) (input : List Byte) (v : Val) (r : List Byte)
    (h : decodeB ty input = some (v, r)) : vsize v ≤ blank ty * (1 + 65535 * input.length) :=
  Nat.le_trans (decode_allocates_at_most ty input v r h)
    (Nat.mul_le_mul_left _ (Nat.add_le_add_left (Nat.mul_le_mul_left _ (Nat.sub_le _ _)) _))

/-- the constant is reached (so memory is NOT bounded by the input length alone): the 2-byte input `ff ff` decodes,
as a `vector<uint8_t>`, to 65535 zero elements -/
theorem decode_allocation_witness :
    decodeB (.vec (.sc .u8)) [0xff#8, 0xff#8] = some (.list (List.replicate 65535 (.sc 0)), []) ∧
    vsize (.list (List.replicate 65535 (.sc 0))) = 65536 ∧ blank (.vec (.sc .u8)) = 2 := by
  refine ⟨hostile_count_decode, ?_, rfl⟩
  simp only [vsize, vsizes_replicate_sc]

example : ∃ v r, decodeB (.vec (.vec (.sc .u8))) [0xff, 0xff, 0x02, 0x00, 0x07] = some (v, r) :=
  let ⟨v, _, _, h⟩ := bounded_archive_reader_safe (.vec (.vec (.sc .u8))) [0xff, 0xff, 0x02, 0x00, 0x07]
  ⟨v, _, h⟩

-- extension 2: maps in key order for the key types that were excluded before
example : WF (.map (.vec (.sc .u8)) .str)
    (.list [.list [.list [], .bytes []], .list [.list [.sc 0], .bytes [1]], .list [.list [.sc 0, .sc 0], .bytes []],
            .list [.list [.sc 1], .bytes []]]) := wfb_sound _ _ (by decide)
example : WF (.map (.tuple [.sc .i8, .str]) (.sc .u8))
    (.list [.list [.list [.sc 0xff, .bytes [0x7a]], .sc 1], .list [.list [.sc 0, .bytes []], .sc 2],
            .list [.list [.sc 0, .bytes [0]], .sc 3]]) := wfb_sound _ _ (by decide)
example : WF (.map (.sc .f64) (.sc .u8))
    (.list [.list [.sc 0xfff0000000000000, .sc 1], .list [.sc 0x8000000000000000, .sc 2], .list [.sc 0x3ff0000000000000, .sc 3]]) :=
  wfb_sound _ _ (by decide)
example : WF (.map (.map (.sc .u8) (.sc .u8)) (.sc .u8))
    (.list [.list [.list [], .sc 1], .list [.list [.list [.sc 1, .sc 2]], .sc 2], .list [.list [.list [.sc 1, .sc 3]], .sc 2]]) :=
  wfb_sound _ _ (by decide)
example : WF (.map (.struct [.sc .i16, .str]) (.sc .u8))
    (.list [.list [.list [.sc 0x8000, .bytes []], .sc 1], .list [.list [.sc 1, .bytes [0x41]], .sc 2]]) := wfb_sound _ _ (by decide)
-- a single entry may carry a NaN key (nothing is compared)
example : WF (.map (.sc .f32) (.sc .u8)) (.list [.list [.sc 0x7fc00000, .sc 1]]) := wfb_sound _ _ (by decide)
example : keyClean (.vec (.sc .f32)) (.list [.sc 0x3f800000, .sc 0x80000000]) = true := by decide
example : Typed (.vec .str) (.list [.bytes [1, 2]]) ∧ Counts16 (.vec .str) (.list [.bytes [1, 2]]) :=
  typed_of_wf _ _ (wfb_sound _ _ (by decide))

-- bounded readers
example : Ty.noView (.map .str (.vec (.tuple [.sc .u8, .str]))) = true := by decide
example : decodeB (.vec (.sc .u16)) [2, 0, 7] = some (.list [.sc 7, .sc 0], []) := rfl
example : decodeA (.vec (.sc .u16)) ([2, 0, 7] ++ List.replicate 3 0#8 ++ [9]) = some (.list [.sc 7, .sc 0], [] ++ [9]) := rfl
example : decodeC (.vec (.sc .u16)) ⟨[2, 0, 7], 0⟩ = some (.list [.sc 7, .sc 0], ⟨[2, 0, 7], 3⟩) := rfl


/-! ### Round 3b — the fixed-buffer writer `binary_buffer_writer` (after repair) and the storage reader's allocation bound -/

/-- WRITER SIDE BOUND. For every caller buffer `pre ++ free` with the write pointer behind `pre`, and EVERY sequence
of `dump_data` calls (every `dump` of `binary_serializer_basic` ends in that virtual call, so: every value of every
type): the buffer afterwards is `pre`, then the first `free.length` bytes of the concatenated chunks, then the part
of `free` they do not reach; the pointer stands behind what was stored. The right-hand side is list arithmetic only. -/
theorem buffer_writer_spec (pre free : List Byte) (cs : List (List Byte)) :
    (BufW.mk (pre ++ free) pre.length).dumpAll cs =
      ⟨pre ++ cs.flatten.take free.length ++ free.drop cs.flatten.length,
       pre.length + min cs.flatten.length free.length⟩ := by
  rw [bufw_dumpAll_split]
  generalize cs.flatten = e
  congr 1
  simp only [List.length_append, List.length_take]
  omega

theorem bufw_spec_bounds (pre free e : List Byte) :
    (pre ++ e.take free.length ++ free.drop e.length).length = (pre ++ free).length ∧
    pre.length + min e.length free.length ≤ (pre ++ e.take free.length ++ free.drop e.length).length ∧
    (pre ++ e.take free.length ++ free.drop e.length).take pre.length = pre ∧
    (pre ++ e.take free.length ++ free.drop e.length).drop (pre.length + min e.length free.length) =
      free.drop e.length := by
  have hlen : (pre ++ e.take free.length ++ free.drop e.length).length = (pre ++ free).length := by
    simp only [List.length_append, List.length_take, List.length_drop]; omega
  refine ⟨hlen, ?_, ?_, ?_⟩
  · rw [hlen, List.length_append]; omega
  · rw [List.append_assoc, List.take_left']; rfl
  · by_cases h : e.length ≤ free.length
    · have h1 : e.take free.length = e := List.take_of_length_le h
      have h3 : pre.length + min e.length free.length = (pre ++ e).length := by
        rw [List.length_append]; omega
      rw [h1, h3, List.drop_left]
    · have h2 : free.drop e.length = [] := List.drop_eq_nil_of_le (by omega)
      rw [h2]
      apply List.drop_eq_nil_of_le
      simp only [List.length_append, List.length_take, List.length_nil]; omega

/-- … hence it never writes outside `[buf, _end)`: the extent of the buffer is unchanged, the bytes in front of the
start position and behind the final position are the caller's, and the pointer never passes `_end` -/
theorem buffer_writer_never_outside (pre free : List Byte) (cs : List (List Byte)) :
    let w := (BufW.mk (pre ++ free) pre.length).dumpAll cs
    w.data.length = (pre ++ free).length ∧ w.cursor ≤ w.data.length ∧
      w.data.take pre.length = pre ∧ w.data.drop w.cursor = free.drop cs.flatten.length := by
  simp only [buffer_writer_spec]
  exact bufw_spec_bounds pre free cs.flatten

/-- how the encoding is cut into `dump_data` calls does not matter: only the concatenation is observable -/
theorem buffer_writer_chunking_irrelevant (pre free : List Byte) (cs : List (List Byte)) :
    (BufW.mk (pre ++ free) pre.length).dumpAll cs = (BufW.mk (pre ++ free) pre.length).dumpAll [cs.flatten] := by
  rw [buffer_writer_spec, buffer_writer_spec]; simp

/-- a value of any type into a buffer of any capacity: the first `cap` bytes of its encoding, the rest of the buffer
untouched, the pointer at `min(len, cap)` (what op `bwc` compares) -/
theorem buffer_writer_value (ty : Ty) (v : Val) (fill : List Byte) :
    bufWrite fill (encodeA ty v) =
      ⟨(encodeA ty v).take fill.length ++ fill.drop (encodeA ty v).length, min (encodeA ty v).length fill.length⟩ := by
  have := buffer_writer_spec [] fill [encodeA ty v]
  simpa [bufWrite] using this

/-- an EXACTLY fitting (or larger) buffer holds the whole encoding — no field is dropped — and decodes back to the
value with the spare bytes left over -/
theorem buffer_writer_exact_fit_roundtrip (ty : Ty) (v : Val) (fill : List Byte) (h : WF ty v)
    (hfit : (encodeA ty v).length ≤ fill.length) :
    (bufWrite fill (encodeA ty v)).cursor = (encodeA ty v).length ∧
    (bufWrite fill (encodeA ty v)).data = encodeA ty v ++ fill.drop (encodeA ty v).length ∧
    decodeB ty (bufWrite fill (encodeA ty v)).data = some (v, fill.drop (encodeA ty v).length) := by
  rw [buffer_writer_value]
  have h1 : (encodeA ty v).take fill.length = encodeA ty v := List.take_of_length_le hfit
  rw [h1]
  exact ⟨Nat.min_eq_left hfit, rfl, roundtrip_prefix_B ty v _ h⟩

example : bufWrite [0xEE, 0xEE, 0xEE] (encodeA (.vec (.sc .u8)) (.list [.sc 7])) = ⟨[1, 0, 7], 3⟩ := by decide
example : bufWrite [0xEE, 0xEE] (encodeA (.vec (.sc .u8)) (.list [.sc 7])) = ⟨[1, 0], 2⟩ := by decide
example : WF (.vec (.sc .u8)) (.list [.sc 7]) := wfb_sound _ _ (by decide)

/-- the code before the repair (`memcpy(ptr, dat, size)` with `_end` never consulted): a 2-byte chunk into a 1-byte
buffer overwrites a byte that is not the caller's (the list grows); the repaired writer stores the byte that fits -/
theorem buffer_writer_old_overflow_witness :
    (BufW.mk [0xEE] 0).dumpDataOld [1, 2] = ⟨[1, 2], 2⟩ ∧ (BufW.mk [0xEE] 0).dumpData [1, 2] = ⟨[1], 1⟩ := by decide

/-- where the buffer is large enough the repair changes nothing -/
theorem buffer_writer_conservative (pre free dat : List Byte) (h : dat.length ≤ free.length) :
    (BufW.mk (pre ++ free) pre.length).dumpData dat = (BufW.mk (pre ++ free) pre.length).dumpDataOld dat := by
  simp only [BufW.dumpData, BufW.dumpDataOld, List.length_append, Nat.add_sub_cancel_left]
  by_cases h2 : dat.length < free.length
  · simp [h2]
  · have : dat.length = free.length := by omega
    simp [this]

/-- ALLOCATION BOUND FOR THE STORAGE READER (was an oracle clause of `ds` only): a decode through
`deserialize_buffer_storage` allocates at most `blank ty * (1 + 65535 * consumed bytes)` nodes, for every type the
serializer stack accepts and EVERY input -/
theorem decode_allocates_at_most_S (ty : Ty) (hs : ty.supportedS = true) (input : List Byte) (v : Val) (r : List Byte)
    (h : decodeS ty input = some (v, r)) :
    vsize v ≤ blank ty * (1 + 65535 * (input.length - r.length)) := by
  rw [decodeS_eq_decodeB ty hs] at h
  exact decode_allocates_at_most ty input v r h

/-- the same for the literal cursor model (`size_t` cursor, wrapping subtraction): total on every input below 2^64
bytes, and what it builds is bounded by what the cursor advanced -/
theorem decode_allocates_at_most_cursor (ty : Ty) (hs : ty.supportedS = true) (input : List Byte)
    (hsz : input.length < 2 ^ 64) :
    ∃ v c, c ≤ input.length ∧ decodeC ty ⟨input, 0⟩ = some (v, ⟨input, c⟩) ∧
      vsize v ≤ blank ty * (1 + 65535 * c) := by
  obtain ⟨v, c, hc, e1, e2⟩ := storage_cursor_model ty input hsz
  refine ⟨v, c, hc, e1, ?_⟩
  have := decode_allocates_at_most_S ty hs input v _ e2
  simpa [List.length_drop, Nat.sub_sub_self hc] using this

/-- THE CAPPED LOADS AND THE RAW ARRAY ON EVERY INPUT (they are operations on the stream beside the universe `Ty`, so
they get their own totality statement): `load(writable_buffer&)`, `load(char*, maxsz)` and `archive::data<T>(xs,N)`
over the bounded reader return for EVERY input and every capacity, stay inside the input, and never deliver more than
the destination holds -/
theorem capped_load_total_B (input : List Byte) (cap : Nat) :
    (∃ got c, c ≤ input.length ∧ loadWritableB input cap = some (got, input.drop c) ∧ got.length ≤ cap) ∧
    (∃ got c, c ≤ input.length ∧ loadCharArrB input cap = some (got, input.drop c) ∧ got.length ≤ cap % 65536) := by
  have key : ∀ (readsize : Nat → Nat) (k : Nat → Nat),
      ∃ got c, c ≤ input.length ∧
        (match loadScalarB .u16 input with
         | none => none
         | some (len, r) =>
           match loadDataB r (readsize len) with
           | none => none
           | some (bs, r2) => some (bs, skipB r2 (k len))) = some (got, input.drop c) ∧
        ∃ len, got.length = u16 (readsize len) := by
    intro readsize k
    obtain ⟨len, c1, hc1, e1⟩ := safe_loadScalarB .u16 input
    obtain ⟨bs, c2, hc2, e2⟩ := safe_loadDataB (readsize len) (input.drop c1)
    have hl := (loadDataB_spec _ _ _ _ e2).2.1
    refine ⟨bs, min (c1 + c2 + k len) input.length, Nat.min_le_right _ _, ?_, len, hl⟩
    simp only [e1, e2, skipB, List.drop_drop]
    congr 2
    by_cases h : c1 + c2 + k len ≤ input.length
    · rw [Nat.min_eq_left h]
    · rw [Nat.min_eq_right (by omega), List.drop_eq_nil_of_le (by omega), List.drop_eq_nil_of_le (Nat.le_refl _)]
  constructor
  · obtain ⟨got, c, hc, e, len, hl⟩ := key (fun len => if cap < len then cap else len) (fun len => len - (if cap < len then cap else len))
    refine ⟨got, c, hc, e, ?_⟩
    rw [hl]; unfold u16; split <;> omega
  · obtain ⟨got, c, hc, e, len, hl⟩ := key (fun sz => if u16 cap < sz then u16 cap else sz) (fun sz => sz - (if u16 cap < sz then u16 cap else sz))
    refine ⟨got, c, hc, e, ?_⟩
    rw [hl]; unfold u16; split <;> omega

theorem data_array_total_B (k : Sc) (n : Nat) (input : List Byte) :
    ∃ xs c, c ≤ input.length ∧ c ≤ (n * k.width) % 65536 ∧ decodeDataB k n input = some (xs, input.drop c) := by
  obtain ⟨bs, c, hc, e⟩ := safe_loadDataB (n * k.width) input
  obtain ⟨_, _, c', hc1, hc2⟩ := loadDataB_spec _ _ _ _ e
  have hd : (input.drop c).length = input.length - c := List.length_drop
  have hcc : c ≤ (n * k.width) % 65536 := by unfold u16 at hc2; omega
  have e' : loadDataB input (n * k.width) = some (bs, input.drop c) := e
  exact ⟨chunks k.width n (bs ++ List.replicate (n * k.width - bs.length) 0#8), c, hc, hcc, by
    simp only [decodeDataB, e']⟩

example : loadWritableB [5, 0, 1, 2] 1 = some ([1], []) := by decide
example : loadCharArrB [2, 0, 1, 2, 9] 1 = some ([1], [9]) := by decide

example : Ty.supportedS (.vec (.vec (.sc .u16))) = true := by decide

end Igris.C09
