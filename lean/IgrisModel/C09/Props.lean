/-
  C09 — PROPERTY THEOREMS: binary serialization round-trips every value with a
  stable wire format.

  "For every value of every supported type (fixed-width integers, floating
  point, strings and buffers up to 65535 bytes, vectors, pairs, tuples, maps and
  user types exposing reflect/serialize_reflect, arbitrarily nested)
  deserialize(serialize(v)) equals v and consumes exactly the bytes serialize
  produced, so concatenated values decode in sequence.  The byte layout is
  stable: scalars as their fixed-width native-endian image and containers as a
  16-bit count followed by the elements, so recorded encodings keep decoding to
  the same value.  Decoding through the bounded storage reader never reads
  beyond the bytes supplied, however truncated."

  `Ty` = type descriptor (arbitrary nesting), `Val` = value tree, `WF ty v` =
  "v is a value of C++ type ty" (scalars fit their width, strings/buffers <= 65535
  bytes, containers <= 65535 elements, map entries in key order).  A/S = the two
  stacks (archive.h+stdtypes.h / serializer<Storage,binary_protocol>).  A reader
  is the list of bytes in front of it; `none` = a read outside the input.
-/
import IgrisModel.C09.Lemmas
namespace Igris.C09
open Igris.Proto

/-! ## 1. round trip, exact consumption, sequencing -/

/-- ROUND TRIP, archive stack: for every type descriptor, every well-formed
value and every continuation `rest` of the stream, decoding what was encoded
returns the value and leaves exactly `rest` in front of the reader. -/
theorem roundtrip_prefix_A (ty : Ty) (v : Val) (rest : List Byte) (h : WF ty v) :
    decodeA ty (encodeA ty v ++ rest) = some (v, rest) :=
  rtA ty v rest h

/-- ROUND TRIP, serializer stack over the bounded storage reader (types the
stack accepts: arithmetic, vectors, serialize_reflect structs, nested). -/
theorem roundtrip_prefix_S (ty : Ty) (v : Val) (rest : List Byte) (hs : ty.supportedS = true)
    (h : WF ty v) : decodeS ty (encodeS ty v ++ rest) = some (v, rest) :=
  rtS ty v rest hs h

/-- "consumes exactly the bytes serialize produced": the reader position after
the decode is the length of the encoding, whatever follows it -/
theorem consumes_exactly_A (ty : Ty) (v : Val) (rest : List Byte) (h : WF ty v) :
    ∃ r, decodeA ty (encodeA ty v ++ rest) = some (v, r) ∧
      (encodeA ty v ++ rest).length - r.length = (encodeA ty v).length ∧
      r = (encodeA ty v ++ rest).drop (encodeA ty v).length :=
  ⟨rest, rtA ty v rest h, by simp, by simp⟩

theorem consumes_exactly_S (ty : Ty) (v : Val) (rest : List Byte) (hs : ty.supportedS = true)
    (h : WF ty v) :
    ∃ r, decodeS ty (encodeS ty v ++ rest) = some (v, r) ∧
      (encodeS ty v ++ rest).length - r.length = (encodeS ty v).length ∧
      r = (encodeS ty v ++ rest).drop (encodeS ty v).length :=
  ⟨rest, rtS ty v rest hs h, by simp, by simp⟩

/-- "concatenated values decode in sequence": any list of values of any types,
written one after the other, is read back one after the other -/
theorem sequence_A (ts : List Ty) (vs : List Val) (rest : List Byte) (h : WFs ts vs) :
    decodeFieldsA ts (encodeFieldsA ts vs ++ rest) = some (vs, rest) :=
  rtAs ts vs rest h

theorem sequence_S (ts : List Ty) (vs : List Val) (rest : List Byte) (hs : supportedSs ts = true)
    (h : WFs ts vs) : decodeFieldsS ts (encodeFieldsS ts vs ++ rest) = some (vs, rest) :=
  rtSs ts vs rest hs h

/-- the two-value form, spelled out -/
theorem sequence_two_A (t1 t2 : Ty) (v1 v2 : Val) (rest : List Byte) (h1 : WF t1 v1) (h2 : WF t2 v2) :
    decodeA t1 (encodeA t1 v1 ++ encodeA t2 v2 ++ rest) = some (v1, encodeA t2 v2 ++ rest) ∧
    decodeA t2 (encodeA t2 v2 ++ rest) = some (v2, rest) := by
  rw [List.append_assoc]
  exact ⟨rtA t1 v1 _ h1, rtA t2 v2 _ h2⟩

/-- consequence: distinct values never share an encoding -/
theorem encodeA_injective (ty : Ty) (v w : Val) (hv : WF ty v) (hw : WF ty w)
    (h : encodeA ty v = encodeA ty w) : v = w := by
  have a := rtA ty v [] hv
  have b := rtA ty w [] hw
  rw [h, b] at a
  simp only [Option.some.injEq, Prod.mk.injEq] at a
  exact a.1.symm

/-! ## 2. stable wire format (equations on `encode`) -/

/-- a scalar is its `sizeof`-byte little-endian image: exactly `width` bytes … -/
theorem wire_scalar (k : Sc) (n : Nat) :
    encodeA (.sc k) (.sc n) = leBytes k.width n ∧ encodeS (.sc k) (.sc n) = leBytes k.width n := by
  simp [encodeA, encodeS, Val.bits, dumpScalar_eq]

/-- … and byte `i` is digit `i` of the value in base 256 (least significant first) -/
theorem wire_scalar_bytes (w n : Nat) :
    (leBytes w n).length = w ∧
    ∀ i, i < w → (leBytes w n)[i]? = some (BitVec.ofNat 8 (n / 256 ^ i)) :=
  ⟨leBytes_length w n, fun i hi => leBytes_getElem? w n i hi⟩

/-- std::string / igris::buffer: 16-bit length, then the bytes (embedded NULs included) -/
theorem wire_string (bs : List Byte) (h : bs.length ≤ 65535) :
    encodeA .str (.bytes bs) = leBytes 2 bs.length ++ bs ∧
    encodeA .buf (.bytes bs) = leBytes 2 bs.length ++ bs := by
  simp [encodeA, Val.bs, dumpBuffer_eq bs h]

/-- std::vector: 16-bit count, then the elements one after the other (both stacks) -/
theorem wire_vector (t : Ty) (vs : List Val) (h : vs.length ≤ 65535) :
    encodeA (.vec t) (.list vs) = leBytes 2 vs.length ++ vs.flatMap (encodeA t) ∧
    encodeS (.vec t) (.list vs) = leBytes 2 vs.length ++ vs.flatMap (encodeS t) := by
  simp [encodeA, encodeS, Val.items, dumpScalar_eq, u16_of_le h, Sc.width]

/-- std::map: 16-bit count, then key, value, key, value … in key order -/
theorem wire_map (k t : Ty) (kvs : List Val) (h : kvs.length ≤ 65535) :
    encodeA (.map k t) (.list kvs) =
      leBytes 2 kvs.length ++ kvs.flatMap (fun kv => encodeA k kv.fst ++ encodeA t kv.snd) := by
  simp [encodeA, Val.items, dumpScalar_eq, u16_of_le h, Sc.width]

/-- std::pair: first then second, nothing else -/
theorem wire_pair (a b : Ty) (x y : Val) :
    encodeA (.pair a b) (.list [x, y]) = encodeA a x ++ encodeA b y := by
  simp [encodeA, Val.fst, Val.snd, Val.items]

/-- tuples and reflected user types: the fields in declaration order, nothing
else (no count, no padding) -/
theorem wire_fields (ts : List Ty) (vs : List Val) :
    encodeA (.tuple ts) (.list vs) = encodeFieldsA ts vs ∧
    encodeA (.struct ts) (.list vs) = encodeFieldsA ts vs ∧
    encodeS (.struct ts) (.list vs) = encodeFieldsS ts vs ∧
    (∀ t x, encodeFieldsA (t :: ts) (x :: vs) = encodeA t x ++ encodeFieldsA ts vs) ∧
    (∀ t x, encodeFieldsS (t :: ts) (x :: vs) = encodeS t x ++ encodeFieldsS ts vs) ∧
    encodeFieldsA [] [] = [] ∧ encodeFieldsS [] [] = [] := by
  simp [encodeA, encodeS, encodeFieldsA, encodeFieldsS, Val.items]

/-- the two stacks produce identical bytes on every type both accept -/
theorem wire_same_on_both_stacks (ty : Ty) (v : Val) (hs : ty.supportedS = true) :
    encodeS ty v = encodeA ty v :=
  encS_eq_encA ty v hs

/-- "recorded encodings keep decoding to the same value": the vector body the
library wrote BEFORE the repair (raw object image) is, for every scalar element
type and every count whose image fits the 16-bit size (count*sizeof <= 65535),
byte for byte the element-wise encoding of the repaired library. -/
theorem recorded_vector_encodings_unchanged (k : Sc) (vs : List Val)
    (h : vs.length * k.width ≤ 65535) :
    encodeVecRaw k vs = encodeA (.vec (.sc k)) (.list vs) := by
  have hl : (vs.flatMap fun v => leBytes k.width v.bits).length ≤ u16 (vs.length * k.width) := by
    rw [flatMap_leBytes_length, u16_of_le h]; exact Nat.le_refl _
  simp only [encodeVecRaw, encodeA, Val.items, dumpData]
  rw [List.take_of_length_le hl]
  simp only [dumpScalar_eq]

/-- recorded encodings (golden vectors, also in corpus/C09/golden.ops) decode
to the recorded values -/
theorem golden_decodings :
    decodeA (.map .str (.sc .i32)) [0x02,0,1,0,0x41,0x21,0,0,0,1,0,0x42,0x2c,0,0,0] =
      some (.list [.list [.bytes [0x41], .sc 33], .list [.bytes [0x42], .sc 44]], []) ∧
    decodeA (.tuple [.sc .u8, .str, .sc .f64]) [1, 2,0,0x78,0x79, 0,0,0,0,0,0,0xf8,0x3f] =
      some (.list [.sc 1, .bytes [0x78, 0x79], .sc 0x3ff8000000000000], []) ∧
    decodeA (.vec (.sc .i32)) [3,0, 1,0,0,0, 2,0,0,0, 3,0,0,0] =
      some (.list [.sc 1, .sc 2, .sc 3], []) ∧
    decodeS (.vec (.sc .u32)) [4,0, 31,0,0,0, 32,0,0,0, 33,0,0,0, 34,0,0,0] =
      some (.list [.sc 31, .sc 32, .sc 33, .sc 34], []) ∧
    decodeS (.struct [.sc .u8, .sc .i32, .vec (.sc .u16)]) [1, 2,0,0,0, 2,0, 3,0, 4,0] =
      some (.list [.sc 1, .sc 2, .list [.sc 3, .sc 4]], []) :=
  ⟨rfl, rfl, rfl, rfl, rfl⟩

/-! ## 3. the bounded storage reader -/

/-- BOUNDED READER: for every type and EVERY input (in particular every
truncation of an encoding, and arbitrary bytes) decoding through
`deserialize_buffer_storage` never faults — no byte at an offset >= the
supplied length is read — and the cursor ends inside the input. -/
theorem bounded_reader_safe (ty : Ty) (input : List Byte) :
    ∃ v cursor, cursor ≤ input.length ∧ decodeS ty input = some (v, input.drop cursor) :=
  safe_decodeS ty input

/-- the same for every truncation point of an encoding, spelled out -/
theorem bounded_reader_safe_truncated (ty : Ty) (v : Val) (k : Nat) :
    ∃ v' cursor, cursor ≤ ((encodeS ty v).take k).length ∧
      decodeS ty ((encodeS ty v).take k) = some (v', ((encodeS ty v).take k).drop cursor) :=
  safe_decodeS ty _

/-- the clamp itself: a storage read delivers the available prefix, padded with
the zeros of the value-initialised object, and never faults -/
theorem bounded_load (rem : List Byte) (size : Nat) :
    loadS rem size = some (rem.take size ++ List.replicate (size - rem.length) 0#8, rem.drop size) :=
  loadS_eq rem size

/-- contrast (NOT part of the property, which speaks of the bounded storage
reader only): `binary_buffer_reader` of the archive stack stores `_end` but
never compares with it; on a truncated input it reads past the end -/
theorem archive_reader_unbounded_witness : decodeA (.sc .u32) [1, 2] = none := by decide

/-! ## 4. what the repairs changed (historical witnesses on the model of the old code) -/

/-- before `fix: serialize std::vector element by element`: when
count*sizeof(T) reaches 65536 the 16-bit size of the raw image wraps; a
`std::vector<int32_t>` of 16384 elements was written as its 2-byte count and
nothing else … -/
theorem vec_raw_image_witness :
    encodeVecRaw .i32 (List.replicate 16384 (.sc 7)) = [0x00, 0x40] := by
  rw [vec_raw_wraps .i32 _ (by rw [List.length_replicate]; rfl), List.length_replicate]
  decide

/-- … which the (unchanged) element-wise decoder reads past the end -/
theorem vec_raw_image_overread_witness : decodeA (.vec (.sc .i32)) [0x00, 0x40] = none := by decide

/-! ## 5. the driver's domain check -/

/-- the executable check the driver applies to every generated value implies
`WF`: every op the model answers (rather than `illformed`) lies in the domain of
the round-trip theorems -/
theorem driver_domain_check_sound (ty : Ty) (v : Val) (h : wfb ty v = true) : WF ty v :=
  wfb_sound ty v h

/-- std::map: inserting entries that arrive in key order rebuilds the same map
(the only place where the decoded container is not the wire order) -/
theorem map_insert_ordered (kt : Ty) (kvs : List Val) (h : kvs.Pairwise (keyOrdered kt)) :
    mapFromList kt kvs = kvs :=
  mapFromList_ordered kt kvs h

/-! ## non-vacuity: the hypotheses are satisfiable by non-trivial values -/

-- a map<string, vector<pair<i8,u16>>> with two entries in key order
example : WF (.map .str (.vec (.pair (.sc .i8) (.sc .u16))))
    (.list [.list [.bytes [0x41], .list [.list [.sc 0xff, .sc 7]]],
            .list [.bytes [0x41, 0x00], .list []]]) :=
  wfb_sound _ _ (by decide)

-- a struct accepted by the S stack
example : Ty.supportedS (.struct [.sc .u8, .vec (.vec (.sc .f32)), .struct [.sc .i64]]) = true := by decide

example : WFs [.sc .u8, .str] [.sc 5, .bytes [0, 0]] := wfbs_sound _ _ (by decide)

example : (List.replicate 16383 (Val.sc 7)).length * Sc.width .i32 ≤ 65535 := by
  rw [List.length_replicate]; decide

end Igris.C09
