/-
  C09 — model of the two binary serialization stacks of igris:

    A  "archive" stack       igris/serialize/archive.h  (binary_serializer_basic::dump*,
                             binary_deserializer_basic::load*, binary_string_writer,
                             binary_buffer_reader), helper.h (dispatch), stdtypes.h
                             (serialize_helper for string / vector / pair / tuple / map)
    S  "serializer" stack    serializer.h + serialize_protocol.h (binary_protocol) +
                             serialize_scheme.h (vector) + serialize_storage.h
                             (appendable_storage, deserialize_buffer_storage) + serialize_archive.h

  The model is the code AFTER the two repairs on branch fix-C09:
    * `fix: serialize std::vector element by element` (stdtypes.h) — before, the
      vector body was the raw object image `count*sizeof(T)` (see `encodeVecRaw`);
    * `fix: deserializer value-initialises the object it loads into`
      (serializer.h) — before, a truncated input left stale stack bytes in the result.

  A C++ type is described by a `Ty`, a C++ value by a `Val` tree; scalars are raw
  bit patterns (so floats incl. NaN payloads are just 32/64-bit patterns).
  A reader is modelled by the list of bytes that remain in front of it
  (`ptr .. _end`, resp. `_storage.data()+cursor .. +size()`); a read of bytes
  that are not there is the fault `none` (what ASan reports on an exactly sized
  heap copy of the input).

  Platform facts (asserted by the harness): little-endian, sizeof as in `Sc.width`.
-/
import IgrisModel.Common.Proto
namespace Igris.C09
open Igris.Proto

/-! ### type descriptors and values -/

/-- the fixed-width arithmetic types of the family -/
inductive Sc | u8 | i8 | u16 | i16 | u32 | i32 | u64 | i64 | f32 | f64
deriving DecidableEq, Repr

/-- `sizeof` -/
def Sc.width : Sc → Nat
  | .u8 | .i8 => 1
  | .u16 | .i16 => 2
  | .u32 | .i32 | .f32 => 4
  | .u64 | .i64 | .f64 => 8

inductive Ty
  | sc (k : Sc)
  | str                      -- std::string
  | buf                      -- igris::buffer (dump(igris::buffer) / load_set_buffer)
  | vec (t : Ty)             -- std::vector<T>
  | pair (a b : Ty)          -- std::pair<A,B>
  | tuple (ts : List Ty)     -- std::tuple<Ts...>
  | map (k v : Ty)           -- std::map<K,V>
  | struct (fs : List Ty)    -- user type: reflect(R&) / serialize_reflect(Archive&) doing `r & field` per field
deriving Repr

/-- value tree: a scalar's raw bits; the bytes of a string/buffer; the
elements of a vector / the components of a pair, tuple or struct / the
`[key, value]` entries of a map (in key order) -/
inductive Val
  | sc (bits : Nat)
  | bytes (bs : List Byte)
  | list (vs : List Val)
deriving Repr

instance : Inhabited Val := ⟨.list []⟩

def Val.bits : Val → Nat
  | .sc n => n
  | _ => 0
def Val.bs : Val → List Byte
  | .bytes b => b
  | _ => []
def Val.items : Val → List Val
  | .list vs => vs
  | _ => []
def Val.fst (v : Val) : Val := v.items.headD default
def Val.snd (v : Val) : Val := v.items.tail.headD default

/-! ### byte images -/

/-- the `w`-byte little-endian object representation of the integer `n` (mod 2^(8w)) -/
def leBytes : Nat → Nat → List Byte
  | 0, _ => []
  | w + 1, n => BitVec.ofNat 8 n :: leBytes w (n / 256)

/-- the integer whose little-endian representation is `bs` -/
def leVal : List Byte → Nat
  | [] => 0
  | b :: bs => b.toNat + 256 * leVal bs

/-- conversion to `uint16_t` -/
def u16 (n : Nat) : Nat := n % 65536

/-- `memcpy` of `n` bytes out of the reader's remaining bytes; `none` = a byte
at or after the end of the supplied input is read -/
def readN : Nat → List Byte → Option (List Byte × List Byte)
  | 0, rem => some ([], rem)
  | _ + 1, [] => none
  | n + 1, b :: rem =>
    match readN n rem with
    | some (bs, r) => some (b :: bs, r)
    | none => none

/-- run a decoder `n` times, collecting the results (the `for (i < size)` loops) -/
def repeatN {α : Type} (f : List Byte → Option (α × List Byte)) : Nat → List Byte → Option (List α × List Byte)
  | 0, rem => some ([], rem)
  | n + 1, rem =>
    match f rem with
    | none => none
    | some (x, r1) =>
      match repeatN f n r1 with
      | none => none
      | some (xs, r2) => some (x :: xs, r2)

/-! ### A stack, writer side (archive.h binary_serializer_basic + binary_string_writer) -/

/-- `dump_data(const char *dat, uint16_t sz)`: the size parameter is a
`uint16_t`, whatever the caller passes is converted; `sstr.append(dat, size)` -/
def dumpData (dat : List Byte) (sz : Nat) : List Byte := dat.take (u16 sz)

/-- `dump(short) … dump(double)`: `dump_data((char*)&i, sizeof(i))` -/
def dumpScalar (k : Sc) (bits : Nat) : List Byte := dumpData (leBytes k.width bits) k.width

/-- `dump(igris::buffer buf)`: `dump((uint16_t)buf.size()); dump_data(buf.data(), buf.size());` -/
def dumpBuffer (bs : List Byte) : List Byte :=
  dumpScalar .u16 (u16 bs.length) ++ dumpData bs bs.length

mutual
/-- `igris::serialize(keeper, obj)` for the archive stack, dispatched by
`serialize_helper` (stdtypes.h) and `dump` (archive.h) -/
def encodeA : Ty → Val → List Byte
  | .sc k, v => dumpScalar k v.bits
  -- serialize_helper<Archive,std::string>: serialize(keeper, igris::buffer(str.data(), str.size()))
  | .str, v => dumpBuffer v.bs
  | .buf, v => dumpBuffer v.bs
  -- serialize_helper<Archive,std::vector<T>> (after the fix): (uint16_t)vec.size(), then every element
  | .vec t, v => dumpScalar .u16 (u16 v.items.length) ++ v.items.flatMap (encodeA t)
  -- pair: first, second
  | .pair a b, v => encodeA a v.fst ++ encodeA b v.snd
  -- tuple: `int ___[] = {(serialize(keeper, std::get<I>(tpl)), 0)...}` — left to right
  | .tuple ts, v => encodeFieldsA ts v.items
  -- map: (uint16_t)map.size(), then `for (auto pair : map) serialize(keeper, pair)`
  | .map k t, v => dumpScalar .u16 (u16 v.items.length) ++
      v.items.flatMap (fun kv => encodeA k kv.fst ++ encodeA t kv.snd)
  -- template dump(const T&): ref.reflect(*this); each `r & field` is serialize(*this, field)
  | .struct fs, v => encodeFieldsA fs v.items
def encodeFieldsA : List Ty → List Val → List Byte
  | [], _ => []
  | t :: ts, vs => encodeA t (vs.headD default) ++ encodeFieldsA ts vs.tail
end

/-- The vector body as it was written BEFORE `fix: serialize std::vector
element by element`, for a scalar element type: `archive::data<T>{vec.data(),
vec.size()}.reflect(r)` = `r.do_data((char*)ptr, sz*sizeof(T))`, and `do_data`
takes the size as `uint16_t`. (For non-scalar `T` the raw object image contains
pointers and padding and has no model.) -/
def encodeVecRaw (k : Sc) (vs : List Val) : List Byte :=
  dumpScalar .u16 (u16 vs.length) ++
    dumpData (vs.flatMap fun v => leBytes k.width v.bits) (vs.length * k.width)

/-! ### A stack, reader side (binary_deserializer_basic + binary_buffer_reader) -/

/-- `binary_buffer_reader::load_data(char *dat, uint16_t size)`:
`memcpy(dat, ptr, size); ptr += size;` — there is no comparison with `_end` -/
def loadData (rem : List Byte) (sz : Nat) : Option (List Byte × List Byte) := readN (u16 sz) rem

/-- `load(int8_t&) … load(double&)`: `load_data((char*)&i, sizeof(i))` -/
def loadScalar (k : Sc) (rem : List Byte) : Option (Nat × List Byte) :=
  match loadData rem k.width with
  | some (bs, r) => some (leVal bs, r)
  | none => none

/-- string: `uint16_t size; deserialize(keeper, size); str.resize(size);
keeper.load_data(str.data(), str.size())`.  buffer (`load(settable_buffer&)`):
`load(len); buf.ref = buffer(pointer(), len); skip(len)` followed by the
caller reading the view — the same `len` bytes. -/
def loadBuffer (rem : List Byte) : Option (List Byte × List Byte) :=
  match loadScalar .u16 rem with
  | none => none
  | some (n, r) => loadData r n

/-! std::map: `map.insert(std::make_pair(first, second))` on a red-black tree
ordered by `operator<` of the key type.  The map is modelled by its in-order
entry list. -/

def Sc.signed : Sc → Bool
  | .i8 | .i16 | .i32 | .i64 => true
  | _ => false

def Sc.isFloat : Sc → Bool
  | .f32 | .f64 => true
  | _ => false

/-- two's complement reading of a `w`-byte pattern -/
def toInt (w : Nat) (n : Nat) : Int :=
  if n < 2 ^ (8 * w - 1) then (n : Int) else (n : Int) - (2 ^ (8 * w) : Nat)

/-! IEEE-754 `operator<` on the raw bit patterns (`float` = 4 bytes, `double` = 8
bytes): a NaN compares `false` with everything; otherwise the order is the order
of the sign-magnitude integers, `-0.0` and `+0.0` both at 0 (they compare equal). -/

/-- exponent all ones and a non-zero mantissa -/
def isNaN : Sc → Nat → Bool
  | .f32, n => decide (0x7f800000 < n % 0x80000000)
  | .f64, n => decide (0x7ff0000000000000 < n % 0x8000000000000000)
  | _, _ => false

/-- place of a non-NaN `w`-byte IEEE pattern on the number line: sign bit set →
minus the magnitude bits, else the magnitude bits (monotone in the value; ±0 ↦ 0) -/
def fOrd (w : Nat) (n : Nat) : Int :=
  if n / 2 ^ (8 * w - 1) % 2 = 1 then -((n % 2 ^ (8 * w - 1) : Nat) : Int) else ((n % 2 ^ (8 * w - 1) : Nat) : Int)

/-- `operator<` of the arithmetic types: integers numerically (two's complement for
the signed ones), `float`/`double` by IEEE `<` -/
def scLt (k : Sc) (a b : Nat) : Bool :=
  if k.isFloat then !isNaN k a && !isNaN k b && decide (fOrd k.width a < fOrd k.width b)
  else if k.signed then decide (toInt k.width a < toInt k.width b) else decide (a < b)

/-- `std::string::operator<`: lexicographic on `unsigned char`, a proper prefix is smaller -/
def bytesLt : List Byte → List Byte → Bool
  | _, [] => false
  | [], _ :: _ => true
  | a :: as, b :: bs => if a.toNat < b.toNat then true else if b.toNat < a.toNat then false else bytesLt as bs

/-- `std::lexicographical_compare` (= `operator<` of `std::vector`, and of `std::map`
over its entries): the first position where one element is smaller decides; a
proper prefix is smaller -/
def lexBy (lt : Val → Val → Bool) : List Val → List Val → Bool
  | _, [] => false
  | [], _ :: _ => true
  | a :: as, b :: bs => if lt a b then true else if lt b a then false else lexBy lt as bs

/-- `operator<` of `std::pair`: `x.first < y.first || (!(y.first < x.first) && x.second < y.second)` -/
def pairLt (l1 l2 : Val → Val → Bool) (x y : Val) : Bool :=
  l1 x.fst y.fst || (!l1 y.fst x.fst && l2 x.snd y.snd)

mutual
/-- `std::less<K>` = `operator<` of EVERY type of the universe, the order
`std::map<K, …>` keeps its entries in: arithmetic types numerically (IEEE `<` for
float/double), `std::string` bytewise, `std::vector` / `std::pair` / `std::tuple`
lexicographically over the order of their components, a `std::map` used as a key
lexicographically over its entries (each a `std::pair`).  A user type has no
`operator<` of its own; it is given the usual one, `std::tie(fields…) < std::tie(fields…)`
(what the harness' key type `UK` declares).  `igris::buffer` cannot be a key
(no `load` for it inside a container); it is given the byte order of strings. -/
def keyLt : Ty → Val → Val → Bool
  | .sc k, x, y => scLt k x.bits y.bits
  | .str, x, y => bytesLt x.bs y.bs
  | .buf, x, y => bytesLt x.bs y.bs
  | .vec t, x, y => lexBy (keyLt t) x.items y.items
  | .pair a b, x, y => pairLt (keyLt a) (keyLt b) x y
  | .tuple ts, x, y => keyLtFields ts x.items y.items
  | .map k t, x, y => lexBy (pairLt (keyLt k) (keyLt t)) x.items y.items
  | .struct fs, x, y => keyLtFields fs x.items y.items
/-- `operator<` of `std::tuple` (and of `std::tie` of the fields of a user type) -/
def keyLtFields : List Ty → List Val → List Val → Bool
  | [], _, _ => false
  | t :: ts, xs, ys =>
    keyLt t (xs.headD default) (ys.headD default) ||
      (!keyLt t (ys.headD default) (xs.headD default) && keyLtFields ts xs.tail ys.tail)
end

mutual
/-- no NaN anywhere inside the value: exactly the keys on which `operator<` is a
strict weak order (the requirement `std::map` puts on its `Compare`) -/
def keyClean : Ty → Val → Bool
  | .sc k, v => !isNaN k v.bits
  | .str, _ => true
  | .buf, _ => true
  | .vec t, v => v.items.all (keyClean t)
  | .pair a b, v => keyClean a v.fst && keyClean b v.snd
  | .tuple ts, v => keyCleanFields ts v.items
  | .map k t, v => v.items.all (fun kv => keyClean k kv.fst && keyClean t kv.snd)
  | .struct fs, v => keyCleanFields fs v.items
def keyCleanFields : List Ty → List Val → Bool
  | [], _ => true
  | t :: ts, vs => keyClean t (vs.headD default) && keyCleanFields ts vs.tail
end

/-- `std::map::insert(value_type)`: no effect when an equivalent key is present -/
def mapInsert (kt : Ty) (kv : Val) : List Val → List Val
  | [] => [kv]
  | e :: es =>
    if keyLt kt kv.fst e.fst then kv :: e :: es
    else if keyLt kt e.fst kv.fst then e :: mapInsert kt kv es
    else e :: es

/-- the map left after inserting the entries in wire order into an empty map -/
def mapFromList (kt : Ty) (kvs : List Val) : List Val :=
  kvs.foldl (fun m kv => mapInsert kt kv m) []

mutual
/-- `igris::deserialize(keeper, obj)` for the archive stack; result = decoded
value and the reader's remaining bytes; `none` = the reader ran past `_end` -/
def decodeA : Ty → List Byte → Option (Val × List Byte)
  | .sc k, rem =>
    match loadScalar k rem with
    | some (n, r) => some (.sc n, r)
    | none => none
  | .str, rem =>
    match loadBuffer rem with
    | some (bs, r) => some (.bytes bs, r)
    | none => none
  | .buf, rem =>
    match loadBuffer rem with
    | some (bs, r) => some (.bytes bs, r)
    | none => none
  -- `uint16_t size; for (i < size) { T value; deserialize(keeper, value); vec.push_back(value); }`
  | .vec t, rem =>
    match loadScalar .u16 rem with
    | none => none
    | some (n, r) =>
      match repeatN (decodeA t) n r with
      | some (xs, r2) => some (.list xs, r2)
      | none => none
  | .pair a b, rem =>
    match decodeA a rem with
    | none => none
    | some (x, r) =>
      match decodeA b r with
      | some (y, r2) => some (.list [x, y], r2)
      | none => none
  | .tuple ts, rem =>
    match decodeFieldsA ts rem with
    | some (xs, r) => some (.list xs, r)
    | none => none
  -- `uint16_t size; for (i < size) { K first; T second; deserialize first, second; map.insert(make_pair(first, second)); }`
  | .map k t, rem =>
    match loadScalar .u16 rem with
    | none => none
    | some (n, r) =>
      match repeatN (fun rem =>
          match decodeA k rem with
          | none => none
          | some (x, r) =>
            match decodeA t r with
            | some (y, r2) => some (Val.list [x, y], r2)
            | none => none) n r with
      | some (kvs, r2) => some (.list (mapFromList k kvs), r2)
      | none => none
  | .struct fs, rem =>
    match decodeFieldsA fs rem with
    | some (xs, r) => some (.list xs, r)
    | none => none
def decodeFieldsA : List Ty → List Byte → Option (List Val × List Byte)
  | [], rem => some ([], rem)
  | t :: ts, rem =>
    match decodeA t rem with
    | none => none
    | some (x, r) =>
      match decodeFieldsA ts r with
      | some (xs, r2) => some (x :: xs, r2)
      | none => none
end

/-! ### S stack: serializer<Storage, binary_protocol> -/

mutual
/-- the types the S stack accepts: arithmetic (binary_protocol::dump),
std::vector (serialize_scheme), user types with serialize_reflect -/
def Ty.supportedS : Ty → Bool
  | .sc _ => true
  | .vec t => t.supportedS
  | .struct fs => supportedSs fs
  | _ => false
def supportedSs : List Ty → Bool
  | [] => true
  | t :: ts => t.supportedS && supportedSs ts
end

mutual
/-- `serializer::serialize(obj)` into an `appendable_storage<std::string>` -/
def encodeS : Ty → Val → List Byte
  -- binary_protocol::dump(arithmetic): archive.dump((const char*)&obj, sizeof(Type)) → _storage.append(data, size)
  | .sc k, v => leBytes k.width v.bits
  -- serialize_scheme<vector<T>> → binary_protocol::dump(list tag):
  -- archive.serialize((uint16_t)listtag.size()); then every element of the container
  | .vec t, v => leBytes 2 (u16 v.items.length) ++ v.items.flatMap (encodeS t)
  -- obj.serialize_reflect(*this): `arch & field` per field
  | .struct fs, v => encodeFieldsS fs v.items
  | _, _ => []   -- not accepted by the S stack (does not compile)
def encodeFieldsS : List Ty → List Val → List Byte
  | [], _ => []
  | t :: ts, vs => encodeS t (vs.headD default) ++ encodeFieldsS ts vs.tail
end

/-- `deserialize_buffer_storage::load(char *data, size_t size)` into a
value-initialised object of `size` bytes: `len = MIN(size, _storage.size() -
cursor); memcpy(data, _storage.data() + cursor, len); cursor += len;` — the
bytes of the object that are not overwritten stay zero (`T obj{}`). -/
def loadS (rem : List Byte) (size : Nat) : Option (List Byte × List Byte) :=
  -- MIN(size, remaining), computed without walking the whole remaining input
  let len := (rem.take size).length
  match readN len rem with
  | some (bs, r) => some (bs ++ List.replicate (size - len) 0#8, r)
  | none => none

mutual
/-- `deserializer::deserialize<T>()` over a `deserialize_buffer_storage` -/
def decodeS : Ty → List Byte → Option (Val × List Byte)
  | .sc k, rem =>
    match loadS rem k.width with
    | some (bs, r) => some (.sc (leVal bs), r)
    | none => none
  -- `auto size = archive.deserialize<uint16_t>(); for (i < size) { Type elem = archive.deserialize<Type>(); push_back(elem); }`
  | .vec t, rem =>
    match loadS rem 2 with
    | none => none
    | some (bs, r) =>
      match repeatN (decodeS t) (leVal bs) r with
      | some (xs, r2) => some (.list xs, r2)
      | none => none
  | .struct fs, rem =>
    match decodeFieldsS fs rem with
    | some (xs, r) => some (.list xs, r)
    | none => none
  | _, rem => some (default, rem)  -- not accepted by the S stack
def decodeFieldsS : List Ty → List Byte → Option (List Val × List Byte)
  | [], rem => some ([], rem)
  | t :: ts, rem =>
    match decodeS t rem with
    | none => none
    | some (x, r) =>
      match decodeFieldsS ts r with
      | some (xs, r2) => some (x :: xs, r2)
      | none => none
end

/-! ### well-formed values: the domain of the round-trip theorems -/

/-- two entries of one map, the first before the second: strictly increasing
key order (what iterating a std::map yields) and — because a map with two or more
entries has compared its keys — keys without NaN (`std::map` requires a strict
weak order; NaN breaks it, see `key_order_nan_witness`).  A map with a single
entry may have any key. -/
def keyOrdered (kt : Ty) (a b : Val) : Prop :=
  keyLt kt a.fst b.fst = true ∧ keyLt kt b.fst a.fst = false ∧
    keyClean kt a.fst = true ∧ keyClean kt b.fst = true

mutual
/-- `v` is a value of C++ type `ty`: scalars fit their width, strings/buffers
have at most 65535 bytes, containers at most 65535 elements, map entries are
in strictly increasing key order -/
def WF : Ty → Val → Prop
  | .sc k, v => ∃ n, v = .sc n ∧ n < 2 ^ (8 * k.width)
  | .str, v => ∃ bs, v = .bytes bs ∧ bs.length ≤ 65535
  | .buf, v => ∃ bs, v = .bytes bs ∧ bs.length ≤ 65535
  | .vec t, v => ∃ vs, v = .list vs ∧ vs.length ≤ 65535 ∧ ∀ x ∈ vs, WF t x
  | .pair a b, v => ∃ x y, v = .list [x, y] ∧ WF a x ∧ WF b y
  | .tuple ts, v => ∃ vs, v = .list vs ∧ WFs ts vs
  | .map k t, v => ∃ kvs, v = .list kvs ∧ kvs.length ≤ 65535 ∧
      (∀ kv ∈ kvs, ∃ x y, kv = .list [x, y] ∧ WF k x ∧ WF t y) ∧ kvs.Pairwise (keyOrdered k)
  | .struct fs, v => ∃ vs, v = .list vs ∧ WFs fs vs
def WFs : List Ty → List Val → Prop
  | [], vs => vs = []
  | t :: ts, vs => ∃ x xs, vs = x :: xs ∧ WF t x ∧ WFs ts xs
end

/-! executable version of `WF`, used by the driver to confirm that every value
the harness generates lies in the domain of the theorems -/

def pairwiseB (r : Val → Val → Bool) : List Val → Bool
  | [] => true
  | x :: xs => xs.all (r x) && pairwiseB r xs

mutual
def wfb : Ty → Val → Bool
  | .sc k, .sc n => decide (n < 2 ^ (8 * k.width))
  | .str, .bytes bs => decide (bs.length ≤ 65535)
  | .buf, .bytes bs => decide (bs.length ≤ 65535)
  | .vec t, .list vs => decide (vs.length ≤ 65535) && vs.all (wfb t)
  | .pair a b, .list [x, y] => wfb a x && wfb b y
  | .tuple ts, .list vs => wfbs ts vs
  | .map k t, .list kvs => decide (kvs.length ≤ 65535) &&
      kvs.all (fun kv => match kv with
        | .list [x, y] => wfb k x && wfb t y
        | _ => false) &&
      pairwiseB (fun a b => keyLt k a.fst b.fst && !keyLt k b.fst a.fst &&
        keyClean k a.fst && keyClean k b.fst) kvs
  | .struct fs, .list vs => wfbs fs vs
  | _, _ => false
def wfbs : List Ty → List Val → Bool
  | [], [] => true
  | t :: ts, x :: xs => wfb t x && wfbs ts xs
  | _, _ => false
end

/-! ### extension: the remaining entry points of archive.h / serialize_storage.h -/

/-- `dump(const char *dat, uint16_t sz)`: `dump(sz); dump_data(dat, sz);` — the
caller's length is converted to `uint16_t` at the call.  `dump(std::string_view)`
is, statement for statement, `dump(igris::buffer)` = `dumpBuffer`. -/
def dumpCharArr (bs : List Byte) : List Byte :=
  dumpScalar .u16 (u16 bs.length) ++ dumpData bs (u16 bs.length)

/-- `binary_buffer_reader::skip(int size)`: `ptr += size`.  Moving the cursor
over bytes that are not there is treated like reading them (fault). -/
def skipA (rem : List Byte) (n : Nat) : Option (List Byte) :=
  match readN n rem with
  | some (_, r) => some r
  | none => none

/-- `load(char *dat, uint16_t maxsz)` (after `fix: capped buffer loads skip
the part of the payload that does not fit`):
`load(sz); readsize = sz > maxsz ? maxsz : sz; load_data(dat, readsize); skip(sz - readsize);`
Result = the bytes stored into `dat`. -/
def loadCharArr (rem : List Byte) (maxsz : Nat) : Option (List Byte × List Byte) :=
  match loadScalar .u16 rem with
  | none => none
  | some (sz, r) =>
    let readsize := if u16 maxsz < sz then u16 maxsz else sz
    match loadData r readsize with
    | none => none
    | some (bs, r2) =>
      match skipA r2 (sz - readsize) with
      | some r3 => some (bs, r3)
      | none => none

/-- `load(writable_buffer &buf)` with `buf.size() = cap` (after the same fix):
`load(len); readsize = buf.size() < len ? buf.size() : len; load_data(buf.data(), readsize);
skip(len - readsize); buf = buffer(buf.data(), readsize);` -/
def loadWritable (rem : List Byte) (cap : Nat) : Option (List Byte × List Byte) :=
  match loadScalar .u16 rem with
  | none => none
  | some (len, r) =>
    let readsize := if cap < len then cap else len
    match loadData r readsize with
    | none => none
    | some (bs, r2) =>
      match skipA r2 (len - readsize) with
      | some r3 => some (bs, r3)
      | none => none

/-- the capped loads as they were BEFORE the fix: no `skip`, the unread part of
the payload stays in front of the reader -/
def loadCappedOld (rem : List Byte) (cap : Nat) : Option (List Byte × List Byte) :=
  match loadScalar .u16 rem with
  | none => none
  | some (len, r) => loadData r (if cap < len then cap else len)

/-- `archive::data<T>{ptr, n}.reflect(r)` on the writer, `T` a scalar type:
`r.do_data((char*)ptr, n * sizeof(T))` — the product is a `size_t`, `do_data`
takes it as `uint16_t`; there is NO count on the wire. -/
def encodeData (k : Sc) (vs : List Val) : List Byte :=
  dumpData (vs.flatMap fun v => leBytes k.width v.bits) (vs.length * k.width)

/-- cut a byte image into `n` scalars of `w` bytes (the array `T xs[n]` seen through `xs[i]`) -/
def chunks (w : Nat) : Nat → List Byte → List Val
  | 0, _ => []
  | n + 1, bs => .sc (leVal (bs.take w)) :: chunks w n (bs.drop w)

/-- `archive::data<T>{ptr, n}.reflect(r)` on the reader into a value-initialised
array: `load_data((char*)ptr, (uint16_t)(n*sizeof(T)))`; the elements that the
(wrapped) size does not reach stay zero. -/
def decodeData (k : Sc) (n : Nat) (rem : List Byte) : Option (List Val × List Byte) :=
  match loadData rem (n * k.width) with
  | none => none
  | some (bs, r) => some (chunks k.width n (bs ++ List.replicate (n * k.width - bs.length) 0#8), r)

/-- `deserialize_storage::loads(size)`: `ret.resize(size)` (zero-filled), then
the clamped `load(&*ret.begin(), size)` -/
def loadsS (rem : List Byte) (size : Nat) : Option (List Byte × List Byte) := loadS rem size

/-! ### extension 2: the archive reader AFTER `fix: binary_buffer_reader never reads beyond _end`

`decodeA` above is the reader as it was (no comparison with `_end`: `none` = a read
past the input); it stays as the strict reference reader.  The code now is `decodeB`. -/

/-- `binary_buffer_reader::load_data(char *dat, uint16_t size)` after the fix:
`avail = _end - ptr; len = size < avail ? size : avail; memcpy(dat, ptr, len);
memset(dat + len, 0, size - len); ptr += len;` — the clamp of the storage reader -/
def loadDataB (rem : List Byte) (sz : Nat) : Option (List Byte × List Byte) := loadS rem (u16 sz)

/-- `skip(int size)` after the fix: `if (size > _end - ptr) size = _end - ptr; ptr += size;` -/
def skipB (rem : List Byte) (n : Nat) : List Byte := rem.drop n

def loadScalarB (k : Sc) (rem : List Byte) : Option (Nat × List Byte) :=
  match loadDataB rem k.width with
  | some (bs, r) => some (leVal bs, r)
  | none => none

/-- std::string: `deserialize(keeper, size); str.resize(size); keeper.load_data(str.data(), str.size())` -/
def loadStringB (rem : List Byte) : Option (List Byte × List Byte) :=
  match loadScalarB .u16 rem with
  | none => none
  | some (n, r) => loadDataB r n

/-- `load(settable_buffer&)` after the fix: `load(len); if (len > end() - pointer()) len = end() - pointer();
buf.ref = buffer(pointer(), len); skip(len);` — a zero-copy view cannot be zero-filled, it is cut -/
def loadViewB (rem : List Byte) : Option (List Byte × List Byte) :=
  match loadScalarB .u16 rem with
  | none => none
  | some (n, r) => some (r.take (u16 n), skipB r (u16 n))   -- `len` is a `uint16_t`

mutual
/-- `igris::deserialize(keeper, obj)` over the bounded `binary_buffer_reader` -/
def decodeB : Ty → List Byte → Option (Val × List Byte)
  | .sc k, rem =>
    match loadScalarB k rem with
    | some (n, r) => some (.sc n, r)
    | none => none
  | .str, rem =>
    match loadStringB rem with
    | some (bs, r) => some (.bytes bs, r)
    | none => none
  | .buf, rem =>
    match loadViewB rem with
    | some (bs, r) => some (.bytes bs, r)
    | none => none
  | .vec t, rem =>
    match loadScalarB .u16 rem with
    | none => none
    | some (n, r) =>
      match repeatN (decodeB t) n r with
      | some (xs, r2) => some (.list xs, r2)
      | none => none
  | .pair a b, rem =>
    match decodeB a rem with
    | none => none
    | some (x, r) =>
      match decodeB b r with
      | some (y, r2) => some (.list [x, y], r2)
      | none => none
  | .tuple ts, rem =>
    match decodeFieldsB ts rem with
    | some (xs, r) => some (.list xs, r)
    | none => none
  | .map k t, rem =>
    match loadScalarB .u16 rem with
    | none => none
    | some (n, r) =>
      match repeatN (fun rem =>
          match decodeB k rem with
          | none => none
          | some (x, r) =>
            match decodeB t r with
            | some (y, r2) => some (Val.list [x, y], r2)
            | none => none) n r with
      | some (kvs, r2) => some (.list (mapFromList k kvs), r2)
      | none => none
  | .struct fs, rem =>
    match decodeFieldsB fs rem with
    | some (xs, r) => some (.list xs, r)
    | none => none
def decodeFieldsB : List Ty → List Byte → Option (List Val × List Byte)
  | [], rem => some ([], rem)
  | t :: ts, rem =>
    match decodeB t rem with
    | none => none
    | some (x, r) =>
      match decodeFieldsB ts r with
      | some (xs, r2) => some (x :: xs, r2)
      | none => none
end

/-- `load(char *dat, uint16_t maxsz)` over the bounded reader (`dat` zero-initialised by the caller) -/
def loadCharArrB (rem : List Byte) (maxsz : Nat) : Option (List Byte × List Byte) :=
  match loadScalarB .u16 rem with
  | none => none
  | some (sz, r) =>
    let readsize := if u16 maxsz < sz then u16 maxsz else sz
    match loadDataB r readsize with
    | none => none
    | some (bs, r2) => some (bs, skipB r2 (sz - readsize))

/-- `load(writable_buffer &buf)` over the bounded reader -/
def loadWritableB (rem : List Byte) (cap : Nat) : Option (List Byte × List Byte) :=
  match loadScalarB .u16 rem with
  | none => none
  | some (len, r) =>
    let readsize := if cap < len then cap else len
    match loadDataB r readsize with
    | none => none
    | some (bs, r2) => some (bs, skipB r2 (len - readsize))

/-- `archive::data<T>{ptr, n}.reflect(r)` over the bounded reader -/
def decodeDataB (k : Sc) (n : Nat) (rem : List Byte) : Option (List Val × List Byte) :=
  match loadDataB rem (n * k.width) with
  | none => none
  | some (bs, r) => some (chunks k.width n (bs ++ List.replicate (n * k.width - bs.length) 0#8), r)

/-! ### extension 2: the storage reader with its cursor, exactly as the code has it -/

/-- `deserialize_buffer_storage`: the buffer it was constructed over and `size_t cursor` -/
structure Store where
  data : List Byte
  cursor : Nat

/-- subtraction of two `size_t` (wraps modulo 2^64) -/
def subSize (a b : Nat) : Nat := (a % 2 ^ 64 + (2 ^ 64 - b % 2 ^ 64)) % 2 ^ 64

/-- `deserialize_buffer_storage::load(char *data, size_t size)` into a value-initialised object:
`auto len = MIN(size, _storage.size() - cursor);` (size_t arithmetic: wraps when cursor > size)
`memcpy(data, _storage.data() + cursor, len);` (reads `[cursor, cursor+len)`: `none` when that leaves the buffer)
`cursor += len;` -/
def Store.load (s : Store) (size : Nat) : Option (List Byte × Store) :=
  let len := min size (subSize s.data.length s.cursor)
  match readN len (s.data.drop s.cursor) with
  | some (bs, _) => some (bs ++ List.replicate (size - len) 0#8, { s with cursor := (s.cursor + len) % 2 ^ 64 })
  | none => none

/-- `avail()` as a `size_t` (the code returns it as `int`) -/
def Store.avail (s : Store) : Nat := subSize s.data.length s.cursor

/-- the element loops over a store -/
def repeatC {α : Type} (f : Store → Option (α × Store)) : Nat → Store → Option (List α × Store)
  | 0, s => some ([], s)
  | n + 1, s =>
    match f s with
    | none => none
    | some (x, s1) =>
      match repeatC f n s1 with
      | none => none
      | some (xs, s2) => some (x :: xs, s2)

mutual
/-- `deserializer::deserialize<T>()` over a `deserialize_buffer_storage`, cursor and all -/
def decodeC : Ty → Store → Option (Val × Store)
  | .sc k, s =>
    match s.load k.width with
    | some (bs, s1) => some (.sc (leVal bs), s1)
    | none => none
  | .vec t, s =>
    match s.load 2 with
    | none => none
    | some (bs, s1) =>
      match repeatC (decodeC t) (leVal bs) s1 with
      | some (xs, s2) => some (.list xs, s2)
      | none => none
  | .struct fs, s =>
    match decodeFieldsC fs s with
    | some (xs, s1) => some (.list xs, s1)
    | none => none
  | _, s => some (default, s)
def decodeFieldsC : List Ty → Store → Option (List Val × Store)
  | [], s => some ([], s)
  | t :: ts, s =>
    match decodeC t s with
    | none => none
    | some (x, s1) =>
      match decodeFieldsC ts s1 with
      | some (xs, s2) => some (x :: xs, s2)
      | none => none
end


/-! ### extension 3: the in-place reader API on an object that already holds a value

`igris::deserialize(reader, obj)` (archive stack; also what every `r & field` of a `reflect` does, and what
`deserialize<T>(buffer)` does with its `T ret;`) and `deserializer::operator&(T &obj)` / `deserialize(T &obj)`
(serializer stack) decode INTO `obj`.  `clear = true` is the code after `fix: container deserialisers clear the
destination`; `clear = false` the code before it (vector: `push_back` onto what is there, map: `insert` into what is
there). -/

mutual
/-- a default-constructed object of the type (`T value;`, `K first; T second;`, `T obj{}`): empty containers;
scalars are written in full before they are read, 0 stands for "whatever" -/
def fresh : Ty → Val
  | .sc _ => .sc 0
  | .str => .bytes []
  | .buf => .bytes []
  | .vec _ => .list []
  | .pair a b => .list [fresh a, fresh b]
  | .tuple ts => .list (freshs ts)
  | .map _ _ => .list []
  | .struct fs => .list (freshs fs)
def freshs : List Ty → List Val
  | [] => []
  | t :: ts => fresh t :: freshs ts
end

mutual
/-- `igris::deserialize(keeper, obj)` over the bounded `binary_buffer_reader`, `obj` holding `d` -/
def decodeInto (clear : Bool) : Ty → Val → List Byte → Option (Val × List Byte)
  -- `load_data((char*)&i, sizeof(i))`: all sizeof bytes are written (zero-filled beyond the input)
  | .sc k, _, rem =>
    match loadScalarB k rem with
    | some (n, r) => some (.sc n, r)
    | none => none
  -- `str.resize(size); keeper.load_data(str.data(), str.size())`: every byte of the resized string is written
  | .str, _, rem =>
    match loadStringB rem with
    | some (bs, r) => some (.bytes bs, r)
    | none => none
  -- `buf.ref = igris::buffer(pointer(), len)`: the view is replaced
  | .buf, _, rem =>
    match loadViewB rem with
    | some (bs, r) => some (.bytes bs, r)
    | none => none
  -- `uint16_t size; deserialize(keeper, size); [vec.clear();] for (i < size) { T value; deserialize(keeper, value); vec.push_back(value); }`
  | .vec t, d, rem =>
    match loadScalarB .u16 rem with
    | none => none
    | some (n, r) =>
      match repeatN (decodeInto clear t (fresh t)) n r with
      | some (xs, r2) => some (.list ((if clear then [] else d.items) ++ xs), r2)
      | none => none
  -- `deserialize(keeper, pair.first); deserialize(keeper, pair.second);` — into the members that are there
  | .pair a b, d, rem =>
    match decodeInto clear a d.fst rem with
    | none => none
    | some (x, r) =>
      match decodeInto clear b d.snd r with
      | some (y, r2) => some (.list [x, y], r2)
      | none => none
  | .tuple ts, d, rem =>
    match decodeIntoFields clear ts d.items rem with
    | some (xs, r) => some (.list xs, r)
    | none => none
  -- `[map.clear();] for (i < size) { K first; T second; deserialize first, second; map.insert(make_pair(first, second)); }`
  | .map k t, d, rem =>
    match loadScalarB .u16 rem with
    | none => none
    | some (n, r) =>
      match repeatN (fun rem =>
          match decodeInto clear k (fresh k) rem with
          | none => none
          | some (x, r) =>
            match decodeInto clear t (fresh t) r with
            | some (y, r2) => some (Val.list [x, y], r2)
            | none => none) n r with
      | some (kvs, r2) => some (.list (kvs.foldl (fun m kv => mapInsert k kv m) (if clear then [] else d.items)), r2)
      | none => none
  -- `ref.reflect(*this)`: `r & field` is `deserialize(*this, field)` into the member that is there
  | .struct fs, d, rem =>
    match decodeIntoFields clear fs d.items rem with
    | some (xs, r) => some (.list xs, r)
    | none => none
def decodeIntoFields (clear : Bool) : List Ty → List Val → List Byte → Option (List Val × List Byte)
  | [], _, rem => some ([], rem)
  | t :: ts, ds, rem =>
    match decodeInto clear t (ds.headD default) rem with
    | none => none
    | some (x, r) =>
      match decodeIntoFields clear ts ds.tail r with
      | some (xs, r2) => some (x :: xs, r2)
      | none => none
end

/-- `deserialize_buffer_storage::load(char *data, size_t size)` into an object whose `size`-byte image is `old`:
`len = MIN(size, remaining); memcpy(data, …, len);` — the bytes the input does not cover KEEP their value -/
def loadIntoS (rem : List Byte) (size : Nat) (old : List Byte) : Option (List Byte × List Byte) :=
  let len := (rem.take size).length
  match readN len rem with
  | some (bs, r) => some (bs ++ (old.drop len).take (size - len), r)
  | none => none

mutual
/-- `deserializer::deserialize(T &obj)` / `operator&(T &obj)` over a `deserialize_buffer_storage`, `obj` holding `d` -/
def decodeIntoS (clear : Bool) : Ty → Val → List Byte → Option (Val × List Byte)
  -- `Protocol::load(*this, obj)`: `archive.load((char*)&obj, sizeof(Type))`
  | .sc k, d, rem =>
    match loadIntoS rem k.width (leBytes k.width d.bits) with
    | some (bs, r) => some (.sc (leVal bs), r)
    | none => none
  -- `auto size = archive.deserialize<uint16_t>();` (a fresh `uint16_t obj{}`) `[container.clear();]`
  -- `for (i < size) { Type elem = archive.deserialize<Type>(); container.push_back(elem); }` (`T obj{}` per element)
  | .vec t, d, rem =>
    match loadS rem 2 with
    | none => none
    | some (bs, r) =>
      match repeatN (decodeIntoS clear t (fresh t)) (leVal bs) r with
      | some (xs, r2) => some (.list ((if clear then [] else d.items) ++ xs), r2)
      | none => none
  -- `obj.serialize_reflect(*this)`: `arch & field` into the member that is there
  | .struct fs, d, rem =>
    match decodeIntoFieldsS clear fs d.items rem with
    | some (xs, r) => some (.list xs, r)
    | none => none
  | _, _, rem => some (default, rem)
def decodeIntoFieldsS (clear : Bool) : List Ty → List Val → List Byte → Option (List Val × List Byte)
  | [], _, rem => some ([], rem)
  | t :: ts, ds, rem =>
    match decodeIntoS clear t (ds.headD default) rem with
    | none => none
    | some (x, r) =>
      match decodeIntoFieldsS clear ts ds.tail r with
      | some (xs, r2) => some (x :: xs, r2)
      | none => none
end

/-! widths the model embeds. Round 3b: only the count on the wire (fixed by the property text) is COMPARED by op
`consts`; the internal widths below are reported by the harness as tags `w.<name>=<bytes>` (today
dump_data_sz=2 do_data_sz=2 load_data_sz=2 skip=4 data_sz=8 load_sz=8 avail=4 cursor=8): a re-typed size parameter
is no change of the property; its observable effect beyond the 16-bit domain is tied by the ops `dat`, `wa`, `ws`, `sl`.
Widths the model embeds: the count on the wire is 2 bytes on
both stacks (`u16`), `dump_data` / `do_data` / `load_data` take their size as a 2-byte `uint16_t` (`dumpData`,
`loadDataB` apply `u16`), `skip` takes a 4-byte `int`, `archive::data::sz` is a `size_t`; the storage's `load` takes a
`size_t`, its cursor is a `size_t` (`subSize` wraps at 2^64), `avail()` returns a 4-byte `int`. -/
def constsLine : String :=
  "cnt=2,2,2 cnt=2"

/-! Round 3b — `binary_buffer_writer` (archive.h) at STORE level: a caller buffer `[buf, _end)` of fixed extent
and the write pointer `ptr` as an offset. Every `dump` of `binary_serializer_basic` ends in the virtual
`dump_data(dat, size)`; the chunk `dat` below is what `binary_string_writer::dump_data` would append
(`dumpData`, already cut by the `uint16_t` size).

    void dump_data(const char *dat, uint16_t size) override {
        size_t room = (size_t)(_end - ptr);
        size_t len = size < room ? size : room;
        if (len) memcpy(ptr, dat, len);
        ptr += len;
    }                                                                     -/
structure BufW where
  data : List Byte
  cursor : Nat
deriving Repr, DecidableEq

/-- `memcpy(ptr, dat, len)` on the buffer as a list: the bytes before `ptr` and behind `ptr + len` stay -/
def BufW.poke (w : BufW) (dat : List Byte) (len : Nat) : List Byte :=
  w.data.take w.cursor ++ dat.take len ++ w.data.drop (w.cursor + len)

/-- the repaired `binary_buffer_writer::dump_data` -/
def BufW.dumpData (w : BufW) (dat : List Byte) : BufW :=
  let room := w.data.length - w.cursor
  let len := if dat.length < room then dat.length else room
  ⟨w.poke dat len, w.cursor + len⟩

/-- the code before the repair: `memcpy(ptr, dat, size); ptr += size;` (`_end` never consulted). A write behind the
end of the buffer shows as a LONGER list: bytes that are not the caller's were overwritten. -/
def BufW.dumpDataOld (w : BufW) (dat : List Byte) : BufW :=
  ⟨w.poke dat dat.length, w.cursor + dat.length⟩

/-- a serialisation = the sequence of `dump_data` calls it makes -/
def BufW.dumpAll (w : BufW) : List (List Byte) → BufW
  | [] => w
  | c :: cs => (w.dumpData c).dumpAll cs

/-- `binary_buffer_writer w(buf, cap); igris::serialize(w, v);` on a buffer that held `fill` -/
def bufWrite (fill : List Byte) (enc : List Byte) : BufW := (BufW.mk fill 0).dumpAll [enc]

end Igris.C09
