/-
  C09 extension — lemmas: locality of the decoders (no look-ahead; the value and
  the consumption depend on the consumed bytes only), the capped buffer loads,
  the 16-bit count beyond 65535, the raw array image `archive::data`, and the
  documented layout as a recursive specification.
-/
import IgrisModel.C09.Lemmas
namespace Igris.C09
open Igris.Proto

/-! ### locality -/

/-- a decoder step is *local*: what it leaves is a suffix of its input, and the
value it returns and the number of bytes it takes depend on those bytes only —
whatever follows them (`y`) is left untouched and does not influence the value -/
def Local {α : Type} (f : List Byte → Option (α × List Byte)) : Prop :=
  ∀ rem x r, f rem = some (x, r) → ∃ p, rem = p ++ r ∧ ∀ y, f (p ++ y) = some (x, y)

theorem local_readN (n : Nat) : Local (readN n) := by
  intro rem x r h
  by_cases hn : n ≤ rem.length
  · rw [readN_of_le n rem hn] at h
    simp only [Option.some.injEq, Prod.mk.injEq] at h
    obtain ⟨rfl, rfl⟩ := h
    refine ⟨rem.take n, (List.take_append_drop n rem).symm, fun y => ?_⟩
    have hl : (rem.take n).length = n := by simp [List.length_take, Nat.min_eq_left hn]
    have := readN_append (rem.take n) y
    rw [hl] at this
    exact this
  · rw [readN_none_of_lt n rem (by omega)] at h
    exact absurd h (by simp)

/-- two local steps one after the other -/
theorem chain2 {α β : Type} {f : List Byte → Option (α × List Byte)} {g : List Byte → Option (β × List Byte)}
    (hf : Local f) (hg : Local g) {rem r1 r2 : List Byte} {a : α} {b : β}
    (h1 : f rem = some (a, r1)) (h2 : g r1 = some (b, r2)) :
    ∃ p, rem = p ++ r2 ∧ ∀ y, ∃ q, f (p ++ y) = some (a, q) ∧ g q = some (b, y) := by
  obtain ⟨pa, ea, fa⟩ := hf rem a r1 h1
  obtain ⟨pb, eb, fb⟩ := hg r1 b r2 h2
  exact ⟨pa ++ pb, by rw [ea, eb, List.append_assoc], fun y => ⟨pb ++ y, by rw [List.append_assoc]; exact fa _, fb y⟩⟩

theorem local_repeatN {α : Type} (f : List Byte → Option (α × List Byte)) (hf : Local f) (n : Nat) :
    Local (repeatN f n) := by
  induction n with
  | zero =>
    intro rem x r h
    simp only [repeatN, Option.some.injEq, Prod.mk.injEq] at h
    obtain ⟨rfl, rfl⟩ := h
    exact ⟨[], by simp, fun y => by simp [repeatN]⟩
  | succ n ih =>
    intro rem z r h
    simp only [repeatN] at h
    cases h1 : f rem with
    | none => simp [h1] at h
    | some p1 =>
      obtain ⟨a, r1⟩ := p1
      simp only [h1] at h
      cases h2 : repeatN f n r1 with
      | none => simp [h2] at h
      | some p2 =>
        obtain ⟨b, r2⟩ := p2
        simp only [h2, Option.some.injEq, Prod.mk.injEq] at h
        obtain ⟨rfl, rfl⟩ := h
        obtain ⟨p, e, fp⟩ := chain2 hf ih h1 h2
        refine ⟨p, e, fun y => ?_⟩
        obtain ⟨q, e1, e2⟩ := fp y
        simp only [repeatN, e1, e2]

theorem local_loadData (sz : Nat) : Local (fun rem => loadData rem sz) := local_readN (u16 sz)

theorem local_loadScalar (k : Sc) : Local (loadScalar k) := by
  intro rem x r h
  simp only [loadScalar] at h
  cases h1 : loadData rem k.width with
  | none => simp [h1] at h
  | some p1 =>
    obtain ⟨a, r1⟩ := p1
    simp only [h1, Option.some.injEq, Prod.mk.injEq] at h
    obtain ⟨rfl, rfl⟩ := h
    obtain ⟨p, e, fp⟩ := local_loadData k.width rem a r1 h1
    refine ⟨p, e, fun y => ?_⟩
    have this : loadData (p ++ y) k.width = some (a, y) := fp y
    simp only [loadScalar, this]

theorem local_loadBuffer : Local loadBuffer := by
  intro rem x r h
  simp only [loadBuffer] at h
  cases h1 : loadScalar .u16 rem with
  | none => simp [h1] at h
  | some p1 =>
    obtain ⟨n, r1⟩ := p1
    simp only [h1] at h
    obtain ⟨p, e, fp⟩ := chain2 (local_loadScalar .u16) (local_loadData n) h1 h
    refine ⟨p, e, fun y => ?_⟩
    obtain ⟨q, e1, e2⟩ := fp y
    have e2' : loadData q n = some (x, y) := e2
    simp only [loadBuffer, e1, e2']

/-- decoders of the shape `match f rem with | some (x, r) => some (m x, r) | none => none` -/
theorem local_of_map {α β : Type} {f : List Byte → Option (α × List Byte)} {F : List Byte → Option (β × List Byte)}
    (m : α → β) (hf : Local f)
    (inv : ∀ rem z r, F rem = some (z, r) → ∃ a, f rem = some (a, r) ∧ z = m a)
    (intro : ∀ rem a r, f rem = some (a, r) → F rem = some (m a, r)) : Local F := by
  intro rem z r h
  obtain ⟨a, h1, rfl⟩ := inv rem z r h
  obtain ⟨p, e, fp⟩ := hf rem a r h1
  exact ⟨p, e, fun y => intro _ _ _ (fp y)⟩

/-- decoders of the shape "f, then g, combine" -/
theorem local_of_seq2 {α β γ : Type} {f : List Byte → Option (α × List Byte)}
    {g : List Byte → Option (β × List Byte)} {F : List Byte → Option (γ × List Byte)}
    (c : α → β → γ) (hf : Local f) (hg : Local g)
    (inv : ∀ rem z r, F rem = some (z, r) → ∃ a r1 b, f rem = some (a, r1) ∧ g r1 = some (b, r) ∧ z = c a b)
    (intro : ∀ rem a r1 b r, f rem = some (a, r1) → g r1 = some (b, r) → F rem = some (c a b, r)) : Local F := by
  intro rem z r h
  obtain ⟨a, r1, b, h1, h2, rfl⟩ := inv rem z r h
  obtain ⟨p, e, fp⟩ := chain2 hf hg h1 h2
  refine ⟨p, e, fun y => ?_⟩
  obtain ⟨q, e1, e2⟩ := fp y
  exact intro _ _ _ _ _ e1 e2

/-- decoders of the shape "read a count n with f, then g n, map the result" -/
theorem local_of_bind {α β γ : Type} {f : List Byte → Option (α × List Byte)}
    {g : α → List Byte → Option (β × List Byte)} {F : List Byte → Option (γ × List Byte)}
    (m : β → γ) (hf : Local f) (hg : ∀ a, Local (g a))
    (inv : ∀ rem z r, F rem = some (z, r) → ∃ a r1 b, f rem = some (a, r1) ∧ g a r1 = some (b, r) ∧ z = m b)
    (intro : ∀ rem a r1 b r, f rem = some (a, r1) → g a r1 = some (b, r) → F rem = some (m b, r)) : Local F := by
  intro rem z r h
  obtain ⟨a, r1, b, h1, h2, rfl⟩ := inv rem z r h
  obtain ⟨p, e, fp⟩ := chain2 hf (hg a) h1 h2
  refine ⟨p, e, fun y => ?_⟩
  obtain ⟨q, e1, e2⟩ := fp y
  exact intro _ _ _ _ _ e1 e2

/-- the entry decoder of the map loop, named -/
def entryA (k t : Ty) (rem : List Byte) : Option (Val × List Byte) :=
  match decodeA k rem with
  | none => none
  | some (x, r) =>
    match decodeA t r with
    | some (y, r2) => some (Val.list [x, y], r2)
    | none => none

theorem repeatN_congr {α : Type} (f g : List Byte → Option (α × List Byte)) (h : ∀ rem, f rem = g rem) (n : Nat)
    (rem : List Byte) : repeatN f n rem = repeatN g n rem := by
  have : f = g := funext h
  rw [this]

theorem decodeA_map_eq (k t : Ty) (rem : List Byte) :
    decodeA (.map k t) rem =
      match loadScalar .u16 rem with
      | none => none
      | some (n, r) =>
        match repeatN (entryA k t) n r with
        | some (kvs, r2) => some (.list (mapFromList k kvs), r2)
        | none => none := by
  rw [decodeA]
  cases h1 : loadScalar .u16 rem with
  | none => rfl
  | some p1 =>
    obtain ⟨n, r⟩ := p1
    simp only []
    rw [repeatN_congr _ (entryA k t) (fun rem => by
      simp only [entryA]
      cases h2 : decodeA k rem with
      | none => rfl
      | some p2 =>
        obtain ⟨x, r1⟩ := p2
        simp only []
        cases h3 : decodeA t r1 with
        | none => rfl
        | some p3 => rfl)]
    cases h4 : repeatN (entryA k t) n r with
    | none => rfl
    | some p4 => rfl

mutual
/-- the archive reader is local on every type -/
theorem local_decodeA : ∀ (ty : Ty), Local (decodeA ty)
  | .sc k => local_of_map Val.sc (local_loadScalar k)
      (fun rem z r h => by
        simp only [decodeA] at h
        cases h1 : loadScalar k rem with
        | none => simp [h1] at h
        | some p1 =>
          obtain ⟨a, r1⟩ := p1
          simp only [h1, Option.some.injEq, Prod.mk.injEq] at h
          obtain ⟨rfl, rfl⟩ := h
          exact ⟨a, rfl, rfl⟩)
      (fun rem a r h1 => by simp only [decodeA, h1])
  | .str => local_of_map Val.bytes local_loadBuffer
      (fun rem z r h => by
        simp only [decodeA] at h
        cases h1 : loadBuffer rem with
        | none => simp [h1] at h
        | some p1 =>
          obtain ⟨a, r1⟩ := p1
          simp only [h1, Option.some.injEq, Prod.mk.injEq] at h
          obtain ⟨rfl, rfl⟩ := h
          exact ⟨a, rfl, rfl⟩)
      (fun rem a r h1 => by simp only [decodeA, h1])
  | .buf => local_of_map Val.bytes local_loadBuffer
      (fun rem z r h => by
        simp only [decodeA] at h
        cases h1 : loadBuffer rem with
        | none => simp [h1] at h
        | some p1 =>
          obtain ⟨a, r1⟩ := p1
          simp only [h1, Option.some.injEq, Prod.mk.injEq] at h
          obtain ⟨rfl, rfl⟩ := h
          exact ⟨a, rfl, rfl⟩)
      (fun rem a r h1 => by simp only [decodeA, h1])
  | .vec t => local_of_bind (g := fun n => repeatN (decodeA t) n) Val.list (local_loadScalar .u16)
      (fun n => local_repeatN _ (local_decodeA t) n)
      (fun rem z r h => by
        simp only [decodeA] at h
        cases h1 : loadScalar .u16 rem with
        | none => simp [h1] at h
        | some p1 =>
          obtain ⟨n, r1⟩ := p1
          simp only [h1] at h
          cases h2 : repeatN (decodeA t) n r1 with
          | none => simp [h2] at h
          | some p2 =>
            obtain ⟨xs, r2⟩ := p2
            simp only [h2, Option.some.injEq, Prod.mk.injEq] at h
            obtain ⟨rfl, rfl⟩ := h
            exact ⟨n, r1, xs, rfl, h2, rfl⟩)
      (fun rem a r1 b r h1 h2 => by simp only [decodeA, h1, h2])
  | .pair a b => local_of_seq2 (fun x y => Val.list [x, y]) (local_decodeA a) (local_decodeA b)
      (fun rem z r h => by
        simp only [decodeA] at h
        cases h1 : decodeA a rem with
        | none => simp [h1] at h
        | some p1 =>
          obtain ⟨x, r1⟩ := p1
          simp only [h1] at h
          cases h2 : decodeA b r1 with
          | none => simp [h2] at h
          | some p2 =>
            obtain ⟨y, r2⟩ := p2
            simp only [h2, Option.some.injEq, Prod.mk.injEq] at h
            obtain ⟨rfl, rfl⟩ := h
            exact ⟨x, r1, y, rfl, h2, rfl⟩)
      (fun rem x r1 y r h1 h2 => by simp only [decodeA, h1, h2])
  | .tuple ts => local_of_map Val.list (local_decodeFieldsA ts)
      (fun rem z r h => by
        simp only [decodeA] at h
        cases h1 : decodeFieldsA ts rem with
        | none => simp [h1] at h
        | some p1 =>
          obtain ⟨a, r1⟩ := p1
          simp only [h1, Option.some.injEq, Prod.mk.injEq] at h
          obtain ⟨rfl, rfl⟩ := h
          exact ⟨a, rfl, rfl⟩)
      (fun rem a r h1 => by simp only [decodeA, h1])
  | .map k t => by
    have hentry : Local (entryA k t) :=
      local_of_seq2 (fun x y => Val.list [x, y]) (local_decodeA k) (local_decodeA t)
        (fun rem z r h => by
          simp only [entryA] at h
          cases h1 : decodeA k rem with
          | none => simp [h1] at h
          | some p1 =>
            obtain ⟨x, r1⟩ := p1
            simp only [h1] at h
            cases h2 : decodeA t r1 with
            | none => simp [h2] at h
            | some p2 =>
              obtain ⟨y, r2⟩ := p2
              simp only [h2, Option.some.injEq, Prod.mk.injEq] at h
              obtain ⟨rfl, rfl⟩ := h
              exact ⟨x, r1, y, rfl, h2, rfl⟩)
        (fun rem x r1 y r h1 h2 => by simp only [entryA, h1, h2])
    exact local_of_bind (g := fun n => repeatN (entryA k t) n) (fun kvs => Val.list (mapFromList k kvs))
      (local_loadScalar .u16) (fun n => local_repeatN _ hentry n)
      (fun rem z r h => by
        rw [decodeA_map_eq] at h
        cases h1 : loadScalar .u16 rem with
        | none => simp [h1] at h
        | some p1 =>
          obtain ⟨n, r1⟩ := p1
          simp only [h1] at h
          cases h2 : repeatN (entryA k t) n r1 with
          | none => simp [h2] at h
          | some p2 =>
            obtain ⟨xs, r2⟩ := p2
            simp only [h2, Option.some.injEq, Prod.mk.injEq] at h
            obtain ⟨rfl, rfl⟩ := h
            exact ⟨n, r1, xs, rfl, h2, rfl⟩)
      (fun rem a r1 b r h1 h2 => by rw [decodeA_map_eq]; simp only [h1, h2])
  | .struct fs => local_of_map Val.list (local_decodeFieldsA fs)
      (fun rem z r h => by
        simp only [decodeA] at h
        cases h1 : decodeFieldsA fs rem with
        | none => simp [h1] at h
        | some p1 =>
          obtain ⟨a, r1⟩ := p1
          simp only [h1, Option.some.injEq, Prod.mk.injEq] at h
          obtain ⟨rfl, rfl⟩ := h
          exact ⟨a, rfl, rfl⟩)
      (fun rem a r h1 => by simp only [decodeA, h1])
theorem local_decodeFieldsA : ∀ (ts : List Ty), Local (decodeFieldsA ts)
  | [] => by
    intro rem x r h
    simp only [decodeFieldsA, Option.some.injEq, Prod.mk.injEq] at h
    obtain ⟨rfl, rfl⟩ := h
    exact ⟨[], by simp, fun y => by simp [decodeFieldsA]⟩
  | t :: ts => local_of_seq2 (fun x xs => x :: xs) (local_decodeA t) (local_decodeFieldsA ts)
      (fun rem z r h => by
        simp only [decodeFieldsA] at h
        cases h1 : decodeA t rem with
        | none => simp [h1] at h
        | some p1 =>
          obtain ⟨x, r1⟩ := p1
          simp only [h1] at h
          cases h2 : decodeFieldsA ts r1 with
          | none => simp [h2] at h
          | some p2 =>
            obtain ⟨y, r2⟩ := p2
            simp only [h2, Option.some.injEq, Prod.mk.injEq] at h
            obtain ⟨rfl, rfl⟩ := h
            exact ⟨x, r1, y, rfl, h2, rfl⟩)
      (fun rem x r1 y r h1 h2 => by simp only [decodeFieldsA, h1, h2])
end

/-- a successful decode of a proper prefix of an encoding is impossible: the
reader wants bytes that are not there -/
theorem decodeA_prefix_none (ty : Ty) (v : Val) (h : WF ty v) (k : Nat)
    (hk : k < (encodeA ty v).length) : decodeA ty ((encodeA ty v).take k) = none := by
  cases hd : decodeA ty ((encodeA ty v).take k) with
  | none => rfl
  | some pr =>
    obtain ⟨x, r⟩ := pr
    obtain ⟨p, e, fp⟩ := local_decodeA ty _ x r hd
    have hfull := fp (r ++ (encodeA ty v).drop k)
    rw [← List.append_assoc, ← e, List.take_append_drop] at hfull
    have hrt := rtA ty v [] h
    rw [List.append_nil, hfull] at hrt
    simp only [Option.some.injEq, Prod.mk.injEq, List.append_eq_nil_iff] at hrt
    have : ((encodeA ty v).drop k).length = 0 := by rw [hrt.2.2]; rfl
    simp only [List.length_drop] at this
    omega

/-! ### capped buffer loads -/

theorem u16_u16 (n : Nat) : u16 (u16 n) = u16 n := by unfold u16; omega
theorem u16_le (n : Nat) : u16 n ≤ 65535 := by unfold u16; omega
theorem u16_le_self (n : Nat) : u16 n ≤ n := by unfold u16; exact Nat.mod_le _ _

theorem dumpCharArr_eq_dumpBuffer (bs : List Byte) : dumpCharArr bs = dumpBuffer bs := by
  simp [dumpCharArr, dumpBuffer, dumpData, u16_u16]

theorem skipA_append (xs rest : List Byte) : skipA (xs ++ rest) xs.length = some rest := by
  simp [skipA, readN_append]

/-- reading the first `c <= len` bytes of a payload and skipping the other `len - c` -/
theorem capped_core (bs rest : List Byte) (c : Nat) (hc : c ≤ bs.length) (h : bs.length ≤ 65535) :
    (match loadData (bs ++ rest) c with
      | none => none
      | some (got, r2) =>
        match skipA r2 (bs.length - c) with
        | some r3 => some (got, r3)
        | none => none) = some (bs.take c, rest) := by
  have hc' : u16 c = c := u16_of_le (by omega)
  have h1 : loadData (bs ++ rest) c = some (bs.take c, bs.drop c ++ rest) := by
    simp only [loadData, hc']
    rw [readN_of_le c (bs ++ rest) (by simp; omega)]
    simp [List.take_append_of_le_length hc, List.drop_append_of_le_length hc]
  have h2 : skipA (bs.drop c ++ rest) (bs.length - c) = some rest := by
    have := skipA_append (bs.drop c) rest
    simpa [List.length_drop] using this
  simp only [h1, h2]

theorem loadWritable_dumpBuffer (bs rest : List Byte) (cap : Nat) (h : bs.length ≤ 65535) :
    loadWritable (dumpBuffer bs ++ rest) cap = some (bs.take cap, rest) := by
  unfold loadWritable dumpBuffer
  rw [List.append_assoc, loadScalar_u16 _ _ h]
  simp only [dumpData, u16_of_le h, List.take_length]
  by_cases hc : cap < bs.length
  · simp only [hc, if_true]
    exact capped_core bs rest cap (by omega) h
  · simp only [hc, if_false]
    have := capped_core bs rest bs.length (Nat.le_refl _) h
    rw [List.take_of_length_le (by omega : bs.length ≤ cap)]
    rw [List.take_length] at this
    exact this

theorem loadCharArr_dumpCharArr (bs rest : List Byte) (maxsz : Nat) (h : bs.length ≤ 65535) :
    loadCharArr (dumpCharArr bs ++ rest) maxsz = some (bs.take (u16 maxsz), rest) := by
  rw [dumpCharArr_eq_dumpBuffer]
  unfold loadCharArr dumpBuffer
  rw [List.append_assoc, loadScalar_u16 _ _ h]
  simp only [dumpData, u16_of_le h, List.take_length]
  by_cases hc : u16 maxsz < bs.length
  · simp only [hc, if_true]
    exact capped_core bs rest (u16 maxsz) (by omega) h
  · simp only [hc, if_false]
    have := capped_core bs rest bs.length (Nat.le_refl _) h
    rw [List.take_of_length_le (by omega : bs.length ≤ u16 maxsz)]
    rw [List.take_length] at this
    exact this

theorem loadCappedOld_dumpBuffer (bs rest : List Byte) (cap : Nat) (h : bs.length ≤ 65535) :
    loadCappedOld (dumpBuffer bs ++ rest) cap = some (bs.take cap, bs.drop cap ++ rest) := by
  unfold loadCappedOld dumpBuffer
  rw [List.append_assoc, loadScalar_u16 _ _ h]
  simp only [dumpData, u16_of_le h, List.take_length]
  by_cases hc : cap < bs.length
  · simp only [hc, if_true, loadData]
    rw [u16_of_le (by omega), readN_of_le cap (bs ++ rest) (by simp; omega)]
    simp [List.take_append_of_le_length (Nat.le_of_lt hc), List.drop_append_of_le_length (Nat.le_of_lt hc)]
  · simp only [hc, if_false, loadData, u16_of_le h, readN_append]
    rw [List.take_of_length_le (by omega), List.drop_of_length_le (by omega)]
    simp

/-! ### beyond the 16-bit count -/

theorem loadScalar_u16_any (n : Nat) (rest : List Byte) :
    loadScalar .u16 (dumpScalar .u16 (u16 n) ++ rest) = some (u16 n, rest) := by
  have := loadScalar_u16 (u16 n) rest (u16_le n)
  rwa [u16_u16] at this

/-- a string/buffer of ANY length: the count is `len mod 65536` and only that
many bytes are written, so the value is cut but the stream stays in step -/
theorem loadBuffer_dumpBuffer_any (bs rest : List Byte) :
    loadBuffer (dumpBuffer bs ++ rest) = some (bs.take (u16 bs.length), rest) := by
  unfold loadBuffer dumpBuffer
  rw [List.append_assoc, loadScalar_u16_any]
  simp only [loadData, dumpData, u16_u16]
  have hl : (bs.take (u16 bs.length)).length = u16 bs.length := by
    simp [List.length_take, Nat.min_eq_left (u16_le_self _)]
  have := readN_append (bs.take (u16 bs.length)) rest
  rwa [hl] at this

/-- a vector of ANY length: the count is `n mod 65536` but ALL `n` elements are
written; the reader takes the first `n mod 65536` and leaves the others in the stream -/
theorem decodeA_vec_any (t : Ty) (vs : List Val) (rest : List Byte) (hall : ∀ x ∈ vs, WF t x) :
    decodeA (.vec t) (encodeA (.vec t) (.list vs) ++ rest) =
      some (.list (vs.take (u16 vs.length)),
            (vs.drop (u16 vs.length)).flatMap (encodeA t) ++ rest) := by
  have hsplit : vs.flatMap (encodeA t) =
      (vs.take (u16 vs.length)).flatMap (encodeA t) ++ (vs.drop (u16 vs.length)).flatMap (encodeA t) := by
    rw [← List.flatMap_append, List.take_append_drop]
  have hl : (vs.take (u16 vs.length)).length = u16 vs.length := by
    simp [List.length_take, Nat.min_eq_left (u16_le_self _)]
  have ih : ∀ x ∈ vs.take (u16 vs.length), ∀ rest, decodeA t (encodeA t x ++ rest) = some (x, rest) :=
    fun x hx rest => rtA t x rest (hall x (List.mem_of_mem_take hx))
  have hrep := repeatN_flatMap (decodeA t) (encodeA t) (vs.take (u16 vs.length))
    ((vs.drop (u16 vs.length)).flatMap (encodeA t) ++ rest) ih
  rw [hl] at hrep
  simp only [encodeA, decodeA, Val.items, List.append_assoc, loadScalar_u16_any, hsplit, hrep]

/-! ### the raw array image `archive::data<T>(xs, N)` -/

theorem chunks_flatMap (w : Nat) (vs : List Val) (tail : List Byte)
    (hfit : ∀ v ∈ vs, ∃ n, v = .sc n ∧ n < 2 ^ (8 * w)) :
    chunks w vs.length ((vs.flatMap fun v => leBytes w v.bits) ++ tail) = vs := by
  induction vs with
  | nil => simp [chunks]
  | cons v vs ih =>
    obtain ⟨n, rfl, hn⟩ := hfit v (by simp)
    have ih' := ih (fun x hx => hfit x (by simp [hx]))
    have hb : (Val.sc n).bits = n := rfl
    simp only [List.length_cons, chunks, List.flatMap_cons, hb, List.append_assoc]
    have ht : (leBytes w n ++ ((vs.flatMap fun v => leBytes w v.bits) ++ tail)).take w = leBytes w n := by
      rw [List.take_append_of_le_length (by simp)]
      exact List.take_of_length_le (by simp)
    have hd : (leBytes w n ++ ((vs.flatMap fun v => leBytes w v.bits) ++ tail)).drop w =
        (vs.flatMap fun v => leBytes w v.bits) ++ tail := by
      have := List.drop_left (l₁ := leBytes w n) (l₂ := (vs.flatMap fun v => leBytes w v.bits) ++ tail)
      simpa using this
    rw [ht, hd, ih', leVal_leBytes_of_lt _ _ hn]

theorem decodeData_encodeData (k : Sc) (vs : List Val) (rest : List Byte)
    (hfit : ∀ v ∈ vs, ∃ n, v = .sc n ∧ n < 2 ^ (8 * k.width))
    (h : vs.length * k.width ≤ 65535) :
    decodeData k vs.length (encodeData k vs ++ rest) = some (vs, rest) := by
  have hlen := flatMap_leBytes_length k.width vs
  have henc : encodeData k vs = vs.flatMap fun v => leBytes k.width v.bits := by
    simp only [encodeData, dumpData, u16_of_le h]
    exact List.take_of_length_le (by rw [hlen]; exact Nat.le_refl _)
  have hread := readN_append (vs.flatMap fun v => leBytes k.width v.bits) rest
  rw [hlen] at hread
  simp only [decodeData, loadData, henc, u16_of_le h, hread, hlen, Nat.sub_self, List.replicate_zero]
  have := chunks_flatMap k.width vs [] hfit
  rw [this]

/-! ### the documented layout as a recursive specification -/

mutual
/-- THE DOCUMENTED WIRE FORMAT, written without reference to the code (no
`uint16_t` conversions, no `dump_data`): scalars as `sizeof` little-endian
bytes; string/buffer = 2-byte length, then the bytes; vector = 2-byte count,
then the elements; map = 2-byte count, then key, value, key, value …; pair /
tuple / user type = the members in declaration order -/
def layout : Ty → Val → List Byte
  | .sc k, v => leBytes k.width v.bits
  | .str, v => leBytes 2 v.bs.length ++ v.bs
  | .buf, v => leBytes 2 v.bs.length ++ v.bs
  | .vec t, v => leBytes 2 v.items.length ++ v.items.flatMap (layout t)
  | .pair a b, v => layout a v.fst ++ layout b v.snd
  | .tuple ts, v => layoutFields ts v.items
  | .map k t, v => leBytes 2 v.items.length ++ v.items.flatMap (fun kv => layout k kv.fst ++ layout t kv.snd)
  | .struct fs, v => layoutFields fs v.items
def layoutFields : List Ty → List Val → List Byte
  | [], _ => []
  | t :: ts, vs => layout t (vs.headD default) ++ layoutFields ts vs.tail
end

theorem flatMap_congr' {α β : Type} (f g : α → List β) (l : List α) (h : ∀ x ∈ l, f x = g x) :
    l.flatMap f = l.flatMap g := by
  induction l with
  | nil => rfl
  | cons x xs ih =>
    simp only [List.flatMap_cons, h x (by simp), ih (fun y hy => h y (by simp [hy]))]

mutual
theorem encodeA_eq_layout : ∀ (ty : Ty) (v : Val), WF ty v → encodeA ty v = layout ty v
  | .sc k, v, _ => by simp [encodeA, layout, dumpScalar_eq]
  | .str, v, h => by
    simp only [WF] at h
    obtain ⟨bs, rfl, hn⟩ := h
    simp [encodeA, layout, Val.bs, dumpBuffer_eq bs hn]
  | .buf, v, h => by
    simp only [WF] at h
    obtain ⟨bs, rfl, hn⟩ := h
    simp [encodeA, layout, Val.bs, dumpBuffer_eq bs hn]
  | .vec t, v, h => by
    simp only [WF] at h
    obtain ⟨vs, rfl, hl, hall⟩ := h
    have := flatMap_congr' (encodeA t) (layout t) vs (fun x hx => encodeA_eq_layout t x (hall x hx))
    simp [encodeA, layout, Val.items, dumpScalar_eq, u16_of_le hl, Sc.width, this]
  | .pair a b, v, h => by
    simp only [WF] at h
    obtain ⟨x, y, rfl, hx, hy⟩ := h
    simp [encodeA, layout, Val.fst, Val.snd, Val.items, encodeA_eq_layout a x hx, encodeA_eq_layout b y hy]
  | .tuple ts, v, h => by
    simp only [WF] at h
    obtain ⟨vs, rfl, hvs⟩ := h
    simp [encodeA, layout, Val.items, encodeFieldsA_eq_layout ts vs hvs]
  | .map k t, v, h => by
    simp only [WF] at h
    obtain ⟨kvs, rfl, hl, hall, _⟩ := h
    have := flatMap_congr' (fun kv => encodeA k kv.fst ++ encodeA t kv.snd)
      (fun kv => layout k kv.fst ++ layout t kv.snd) kvs (fun kv hkv => by
        obtain ⟨x, y, rfl, hx, hy⟩ := hall kv hkv
        have e1 : (Val.list [x, y]).fst = x := rfl
        have e2 : (Val.list [x, y]).snd = y := rfl
        simp only [e1, e2, encodeA_eq_layout k x hx, encodeA_eq_layout t y hy])
    simp [encodeA, layout, Val.items, dumpScalar_eq, u16_of_le hl, Sc.width, this]
  | .struct fs, v, h => by
    simp only [WF] at h
    obtain ⟨vs, rfl, hvs⟩ := h
    simp [encodeA, layout, Val.items, encodeFieldsA_eq_layout fs vs hvs]
theorem encodeFieldsA_eq_layout : ∀ (ts : List Ty) (vs : List Val), WFs ts vs →
    encodeFieldsA ts vs = layoutFields ts vs
  | [], _, _ => by simp [encodeFieldsA, layoutFields]
  | t :: ts, vs, h => by
    simp only [WFs] at h
    obtain ⟨x, xs, rfl, hx, hxs⟩ := h
    simp [encodeFieldsA, layoutFields, encodeA_eq_layout t x hx, encodeFieldsA_eq_layout ts xs hxs]
end

end Igris.C09
