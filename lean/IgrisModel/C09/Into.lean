/-
  C09 extension 3 — decoding INTO an object that already holds a value
  (`igris::deserialize(reader, obj)`, `deserializer::operator&(T &obj)`).
-/
import IgrisModel.C09.Bounded
import IgrisModel.C09.Bound
namespace Igris.C09
open Igris.Proto

theorem items_list (vs : List Val) : (Val.list vs).items = vs := rfl
theorem bits_sc (n : Nat) : (Val.sc n).bits = n := rfl

/-! ### the repaired code (clear = true) does not look at the destination; neither does the old
code when the destination is a default-constructed object -/

mutual
theorem decodeInto_eq : ∀ (c : Bool) (ty : Ty) (d : Val), (c = true ∨ d = fresh ty) →
    decodeInto c ty d = decodeB ty
  | c, .sc k, d, _ => by funext rem; simp [decodeInto, decodeB]
  | c, .str, d, _ => by funext rem; simp [decodeInto, decodeB]
  | c, .buf, d, _ => by funext rem; simp [decodeInto, decodeB]
  | c, .vec t, d, h => by
    funext rem
    have ih := decodeInto_eq c t (fresh t) (Or.inr rfl)
    have hd : (if c = true then [] else d.items) = [] := by
      rcases h with h | h
      · simp [h]
      · subst h; simp [fresh, Val.items]
    simp only [decodeInto, decodeB, ih, hd, List.nil_append]
  | c, .pair a b, d, h => by
    funext rem
    have ha : decodeInto c a d.fst = decodeB a := decodeInto_eq c a d.fst (by
      rcases h with h | h
      · exact Or.inl h
      · subst h; exact Or.inr (by simp [fresh, Val.fst, Val.items]))
    have hb : decodeInto c b d.snd = decodeB b := decodeInto_eq c b d.snd (by
      rcases h with h | h
      · exact Or.inl h
      · subst h; exact Or.inr (by simp [fresh, Val.snd, Val.items]))
    simp only [decodeInto, decodeB, ha, hb]
  | c, .tuple ts, d, h => by
    funext rem
    have hf := decodeIntoFields_eq c ts d.items (by
      rcases h with h | h
      · exact Or.inl h
      · subst h; exact Or.inr (by simp [fresh, Val.items]))
    simp only [decodeInto, decodeB, hf]
  | c, .map k t, d, h => by
    funext rem
    have hk := decodeInto_eq c k (fresh k) (Or.inr rfl)
    have ht := decodeInto_eq c t (fresh t) (Or.inr rfl)
    have hd : (if c = true then [] else d.items) = [] := by
      rcases h with h | h
      · simp [h]
      · subst h; simp [fresh, Val.items]
    simp only [decodeInto, decodeB, hk, ht, hd, mapFromList]
  | c, .struct fs, d, h => by
    funext rem
    have hf := decodeIntoFields_eq c fs d.items (by
      rcases h with h | h
      · exact Or.inl h
      · subst h; exact Or.inr (by simp [fresh, Val.items]))
    simp only [decodeInto, decodeB, hf]
theorem decodeIntoFields_eq : ∀ (c : Bool) (ts : List Ty) (ds : List Val), (c = true ∨ ds = freshs ts) →
    decodeIntoFields c ts ds = decodeFieldsB ts
  | c, [], ds, _ => by funext rem; simp [decodeIntoFields, decodeFieldsB]
  | c, t :: ts, ds, h => by
    funext rem
    have h1 : decodeInto c t (ds.headD default) = decodeB t := decodeInto_eq c t _ (by
      rcases h with h | h
      · exact Or.inl h
      · subst h; exact Or.inr (by simp [freshs]))
    have h2 : decodeIntoFields c ts ds.tail = decodeFieldsB ts := decodeIntoFields_eq c ts _ (by
      rcases h with h | h
      · exact Or.inl h
      · subst h; exact Or.inr (by simp [freshs]))
    simp only [decodeIntoFields, decodeFieldsB, h1, h2]
end

/-! ### the code before the fix: a vector is appended to, a map is inserted into -/

theorem decodeInto_old_vec (t : Ty) (d : Val) (rem : List Byte) :
    decodeInto false (.vec t) d rem =
      match decodeB (.vec t) rem with
      | some (v, r) => some (.list (d.items ++ v.items), r)
      | none => none := by
  have ih := decodeInto_eq false t (fresh t) (Or.inr rfl)
  simp only [decodeInto, decodeB, ih]
  cases loadScalarB .u16 rem with
  | none => rfl
  | some p =>
    obtain ⟨n, r⟩ := p
    simp only
    cases repeatN (decodeB t) n r with
    | none => rfl
    | some q => obtain ⟨xs, r2⟩ := q; simp [Val.items]

theorem decodeInto_old_map (k t : Ty) (d : Val) (input rest r : List Byte) (kvs : List Val) (n : Nat)
    (h1 : loadScalarB .u16 input = some (n, r))
    (h2 : repeatN (fun rem =>
          match decodeB k rem with
          | none => none
          | some (x, r) =>
            match decodeB t r with
            | some (y, r2) => some (Val.list [x, y], r2)
            | none => none) n r = some (kvs, rest)) :
    decodeInto false (.map k t) d input =
      some (.list (kvs.foldl (fun m kv => mapInsert k kv m) d.items), rest) := by
  have hk := decodeInto_eq false k (fresh k) (Or.inr rfl)
  have ht := decodeInto_eq false t (fresh t) (Or.inr rfl)
  simp only [decodeInto, hk, ht, h1]
  split
  · rename_i kvs' r2 heq
    have e : some (kvs, rest) = some (kvs', r2) := h2.symm.trans heq
    injection e with e
    injection e with e1 e2
    subst e1; subst e2
    simp
  · rename_i heq
    have e : some (kvs, rest) = none := h2.symm.trans heq
    cases e

/-! ### serializer stack -/

theorem loadIntoS_full (bs rest old : List Byte) :
    loadIntoS (bs ++ rest) bs.length old = some (bs, rest) := by
  unfold loadIntoS
  have hl : ((bs ++ rest).take bs.length).length = bs.length := by simp
  simp only [hl, readN_append, Nat.sub_self, List.take_zero, List.append_nil]

theorem loadIntoS_zero (rem : List Byte) (w : Nat) :
    loadIntoS rem w (leBytes w 0) = loadS rem w := by
  have hz : ∀ w : Nat, leBytes w 0 = List.replicate w 0#8 := by
    intro w
    induction w with
    | zero => rfl
    | succ w ih => simp [leBytes, ih, List.replicate_succ]
  unfold loadIntoS loadS
  simp only [hz]
  cases readN ((rem.take w).length) rem with
  | none => rfl
  | some p =>
    obtain ⟨bs, r⟩ := p
    simp only [List.drop_replicate, List.take_replicate, List.length_take]
    rw [Nat.min_self]

mutual
theorem rtIntoS : ∀ (c : Bool) (ty : Ty) (d v : Val) (rest : List Byte),
    (c = true ∨ d = fresh ty) → ty.supportedS = true → WF ty v →
    decodeIntoS c ty d (encodeS ty v ++ rest) = some (v, rest)
  | c, .sc k, d, v, rest, _, _, h => by
    simp only [WF] at h
    obtain ⟨n, rfl, hn⟩ := h
    have := loadIntoS_full (leBytes k.width (Val.sc n).bits) rest (leBytes k.width d.bits)
    simp only [leBytes_length] at this
    simp only [encodeS, decodeIntoS, this]
    simp [Val.bits, leVal_leBytes_of_lt _ _ hn]
  | c, .vec t, d, v, rest, hc, hs, h => by
    simp only [WF] at h
    obtain ⟨vs, rfl, hl, hall⟩ := h
    simp only [Ty.supportedS] at hs
    have ih : ∀ x ∈ vs, ∀ rest, decodeIntoS c t (fresh t) (encodeS t x ++ rest) = some (x, rest) :=
      fun x hx rest => rtIntoS c t (fresh t) x rest (Or.inr rfl) hs (hall x hx)
    have h2 : leVal (leBytes 2 vs.length) = vs.length := leVal_leBytes_of_lt _ _ (by omega)
    have hd : (if c = true then [] else d.items) = [] := by
      rcases hc with h | h
      · simp [h]
      · subst h; simp [fresh, Val.items]
    simp only [encodeS, decodeIntoS, items_list, List.append_assoc, u16_of_le hl, loadS_leBytes, h2,
      repeatN_flatMap (decodeIntoS c t (fresh t)) (encodeS t) vs rest ih, hd, List.nil_append]
  | c, .struct fs, d, v, rest, hc, hs, h => by
    simp only [WF] at h
    obtain ⟨vs, rfl, hvs⟩ := h
    simp only [Ty.supportedS] at hs
    have := rtIntoSs c fs d.items vs rest (by
      rcases hc with h | h
      · exact Or.inl h
      · subst h; exact Or.inr (by simp [fresh, Val.items])) hs hvs
    simp only [encodeS, decodeIntoS, items_list, this]
  | _, .str, _, _, _, _, hs, _ => by simp [Ty.supportedS] at hs
  | _, .buf, _, _, _, _, hs, _ => by simp [Ty.supportedS] at hs
  | _, .pair _ _, _, _, _, _, hs, _ => by simp [Ty.supportedS] at hs
  | _, .tuple _, _, _, _, _, hs, _ => by simp [Ty.supportedS] at hs
  | _, .map _ _, _, _, _, _, hs, _ => by simp [Ty.supportedS] at hs
theorem rtIntoSs : ∀ (c : Bool) (ts : List Ty) (ds vs : List Val) (rest : List Byte),
    (c = true ∨ ds = freshs ts) → supportedSs ts = true → WFs ts vs →
    decodeIntoFieldsS c ts ds (encodeFieldsS ts vs ++ rest) = some (vs, rest)
  | c, [], ds, vs, rest, _, _, h => by
    simp only [WFs] at h; subst h
    simp [encodeFieldsS, decodeIntoFieldsS]
  | c, t :: ts, ds, vs, rest, hc, hs, h => by
    simp only [WFs] at h
    obtain ⟨x, xs, rfl, hx, hxs⟩ := h
    simp only [supportedSs, Bool.and_eq_true] at hs
    have h1 := rtIntoS c t (ds.headD default) x (encodeFieldsS ts xs ++ rest) (by
      rcases hc with h | h
      · exact Or.inl h
      · subst h; exact Or.inr (by simp [freshs])) hs.1 hx
    have h2 := rtIntoSs c ts ds.tail xs rest (by
      rcases hc with h | h
      · exact Or.inl h
      · subst h; exact Or.inr (by simp [freshs])) hs.2 hxs
    simp only [encodeFieldsS, decodeIntoFieldsS, List.headD_cons, List.tail_cons, List.append_assoc, h1, h2]
end

/-! into a value-initialised object (`T obj{}`) the in-place reader IS `deserialize<T>()`, on every input -/
mutual
theorem decodeIntoS_fresh : ∀ (c : Bool) (ty : Ty), decodeIntoS c ty (fresh ty) = decodeS ty
  | c, .sc k => by
    funext rem
    simp only [decodeIntoS, decodeS, fresh, Val.bits, loadIntoS_zero]
  | c, .vec t => by
    funext rem
    simp only [decodeIntoS, decodeS, decodeIntoS_fresh c t, fresh, Val.items]
    cases loadS rem 2 with
    | none => rfl
    | some p =>
      obtain ⟨bs, r⟩ := p
      simp only
      cases repeatN (decodeS t) (leVal bs) r with
      | none => rfl
      | some q => obtain ⟨xs, r2⟩ := q; cases c <;> simp
  | c, .struct fs => by
    funext rem
    simp only [decodeIntoS, decodeS, fresh, Val.items, decodeIntoFieldsS_fresh c fs]
  | c, .str => by funext rem; simp [decodeIntoS, decodeS]
  | c, .buf => by funext rem; simp [decodeIntoS, decodeS]
  | c, .pair _ _ => by funext rem; simp [decodeIntoS, decodeS]
  | c, .tuple _ => by funext rem; simp [decodeIntoS, decodeS]
  | c, .map _ _ => by funext rem; simp [decodeIntoS, decodeS]
theorem decodeIntoFieldsS_fresh : ∀ (c : Bool) (ts : List Ty), decodeIntoFieldsS c ts (freshs ts) = decodeFieldsS ts
  | c, [] => by funext rem; simp [decodeIntoFieldsS, decodeFieldsS]
  | c, t :: ts => by
    funext rem
    simp only [decodeIntoFieldsS, decodeFieldsS, freshs, List.headD_cons, List.tail_cons,
      decodeIntoS_fresh c t, decodeIntoFieldsS_fresh c ts]
end


/-! ### the 16-bit bound as a decidable predicate -/

mutual
/-- executable `Counts16` -/
def counts16b : Ty → Val → Bool
  | .sc _, _ => true
  | .str, v => decide (v.bs.length ≤ 65535)
  | .buf, v => decide (v.bs.length ≤ 65535)
  | .vec t, v => decide (v.items.length ≤ 65535) && v.items.all (counts16b t)
  | .pair a b, v => counts16b a v.fst && counts16b b v.snd
  | .tuple ts, v => counts16bs ts v.items
  | .map k t, v => decide (v.items.length ≤ 65535) && v.items.all (fun kv => counts16b k kv.fst && counts16b t kv.snd)
  | .struct fs, v => counts16bs fs v.items
def counts16bs : List Ty → List Val → Bool
  | [], _ => true
  | t :: ts, vs => counts16b t (vs.headD default) && counts16bs ts vs.tail
end

mutual
theorem counts16b_iff : ∀ (ty : Ty) (v : Val), counts16b ty v = true ↔ Counts16 ty v
  | .sc _, v => by simp [counts16b, Counts16]
  | .str, v => by simp [counts16b, Counts16]
  | .buf, v => by simp [counts16b, Counts16]
  | .vec t, v => by
    simp only [counts16b, Counts16, Bool.and_eq_true, decide_eq_true_eq, List.all_eq_true]
    exact and_congr Iff.rfl (forall_congr' fun x => imp_congr Iff.rfl (counts16b_iff t x))
  | .pair a b, v => by
    simp only [counts16b, Counts16, Bool.and_eq_true]
    exact and_congr (counts16b_iff a _) (counts16b_iff b _)
  | .tuple ts, v => by simp only [counts16b, Counts16]; exact counts16bs_iff ts _
  | .map k t, v => by
    simp only [counts16b, Counts16, Bool.and_eq_true, decide_eq_true_eq, List.all_eq_true]
    exact and_congr Iff.rfl (forall_congr' fun x => imp_congr Iff.rfl
      (and_congr (counts16b_iff k _) (counts16b_iff t _)))
  | .struct fs, v => by simp only [counts16b, Counts16]; exact counts16bs_iff fs _
theorem counts16bs_iff : ∀ (ts : List Ty) (vs : List Val), counts16bs ts vs = true ↔ Counts16s ts vs
  | [], vs => by simp [counts16bs, Counts16s]
  | t :: ts, vs => by
    simp only [counts16bs, Counts16s, Bool.and_eq_true]
    exact and_congr (counts16b_iff t _) (counts16bs_iff ts _)
end

instance (ty : Ty) (v : Val) : Decidable (Counts16 ty v) :=
  decidable_of_iff _ (counts16b_iff ty v)


/-! ### a wrapped count and the value behind it -/

theorem wrap_following (m : Nat) (hm : (m + 1) % 65536 = 0) :
    decodeFieldsA [.vec (.sc .u8), .sc .u8]
        (encodeFieldsA [.vec (.sc .u8), .sc .u8] [.list (List.replicate (m + 1) (.sc 7)), .sc 5]) =
      some ([.list [], .sc 7], List.replicate m 7#8 ++ [5#8]) := by
  have hv := decodeA_vec_any (.sc .u8) (List.replicate (m + 1) (.sc 7)) ([5#8] ++ []) (by
      intro x hx
      rw [List.eq_of_mem_replicate hx]
      exact wfb_sound _ _ (by decide))
  rw [List.length_replicate] at hv
  simp only [u16, hm, List.take_zero, List.drop_zero] at hv
  have e1 : ∀ X : Val, encodeFieldsA [.vec (.sc .u8), .sc .u8] [X, .sc 5] =
      encodeA (.vec (.sc .u8)) X ++ ([5#8] ++ []) := fun _ => rfl
  have e2 : ∀ n, (List.replicate n (Val.sc 7)).flatMap (encodeA (.sc .u8)) = List.replicate n 7#8 := by
    intro n
    induction n with
    | zero => rfl
    | succ n ih => rw [List.replicate_succ, List.flatMap_cons, ih]; rfl
  rw [e1]
  unfold decodeFieldsA
  rw [hv, e2, List.replicate_succ]
  generalize List.replicate m 7#8 = R
  rfl

theorem wrap_following_65536 :
    decodeFieldsA [.vec (.sc .u8), .sc .u8]
        (encodeFieldsA [.vec (.sc .u8), .sc .u8] [.list (List.replicate 65536 (.sc 7)), .sc 5]) =
      some ([.list [], .sc 7], List.replicate 65535 7#8 ++ [5#8]) :=
  wrap_following 65535 (by decide)

end Igris.C09
