/-
  C14 — element constructors that THROW.

  `Model.lean` describes the member functions of static_vector for element
  types whose constructors return normally.  Here every member function that
  constructs elements is written again, the way the (repaired) code is written,
  with a possible failure at each construction:

      b : Nat      the number of element constructions of this call that still
                   succeed; the next one throws (nothing is constructed by the
                   throwing constructor: no object, no event)

  so `b = k` is "the (k+1)-th construction of the call throws" and any `b` not
  smaller than the number of constructions of the call is "nothing throws".
  Each member function has exactly one loop that constructs, so one counter per
  call covers every throw point of every operation.

  What the code does when the exception leaves the member function:

    push_back / emplace_back   `new (&_data[m_size]) T(...); ++m_size;` — the
                               count is bumped only after the constructor returned
    copy/move assignment       `clear();` then `{ new (&_data[pos]) T(...); ++m_size; }`
                               per element: m_size counts what has been constructed
                               (the move assignment does not reach `other.clear()`)
    resize                     `while (m_size < newsize) { new (&_data[m_size]) T{}; ++m_size; }`
    the four constructors      delegate to `static_vector()` first, so the object
                               is complete when the body runs and `~static_vector()`
                               destroys the `m_size` elements constructed so far;
                               the exception then leaves the constructor: no object

  The bodies as they were (m_size assigned before the loop / after the loop, no
  clean-up in the constructors) are kept as `…XOrig` for the witness theorems.
  Core Lean only.
-/
import IgrisModel.C14.Model

namespace Igris.C14

/-! ## the loops that construct -/

/-- `while (m_size < newsize) { new (&_data[m_size]) T{}; ++m_size; }` —
    returns (storage, events, number of `++m_size` executed, threw) -/
def valueInitLoopX : (k pos : Nat) → Slots → (b : Nat) → Except Fault (Slots × Tr × Nat × Bool)
  | 0, _, s, _ => .ok (s, [], 0, false)
  | _ + 1, _, s, 0 => .ok (s, [], 0, true)
  | k + 1, pos, s, b + 1 => do
      let s ← construct s pos (some 0)
      let (s, tr, n, t) ← valueInitLoopX k (pos + 1) s b
      pure (s, ⟨false, .ctor, pos⟩ :: tr, n + 1, t)

/-- `for (pos = 0; pos < other.m_size; ++pos) { new (&_data[pos]) T(other[pos]); ++m_size; }` -/
def copyLoopX (src : Slots) : (k pos : Nat) → Slots → (b : Nat) → Except Fault (Slots × Tr × Nat × Bool)
  | 0, _, d, _ => .ok (d, [], 0, false)
  | _ + 1, _, d, 0 => .ok (d, [], 0, true)
  | k + 1, pos, d, b + 1 => do
      let e ← readObj src pos
      let d ← construct d pos e
      let (d, tr, n, t) ← copyLoopX src k (pos + 1) d b
      pure (d, ⟨false, .ctor, pos⟩ :: tr, n + 1, t)

/-- `for (…) { new (&_data[pos]) T(std::move(other[pos])); ++m_size; }` — a move
    constructor that throws has not touched its source -/
def moveLoopX (trk : Bool) : (k pos : Nat) → (d src : Slots) → (b : Nat) →
    Except Fault (Slots × Slots × Tr × Nat × Bool)
  | 0, _, d, s, _ => .ok (d, s, [], 0, false)
  | _ + 1, _, d, s, 0 => .ok (d, s, [], 0, true)
  | k + 1, pos, d, s, b + 1 => do
      let (e, s) ← moveOut trk s pos
      let d ← construct d pos e
      let (d, s, tr, n, t) ← moveLoopX trk k (pos + 1) d s b
      pure (d, s, ⟨true, .mv, pos⟩ :: ⟨false, .ctor, pos⟩ :: tr, n + 1, t)

/-! ## member functions -/

/-- `push_back` / `emplace_back`: `if (m_size >= N) return; new (&_data[m_size]) T(x); ++m_size;` -/
def pushBackX (N : Nat) (v : SVec) (x : Nat) : (b : Nat) → Except Fault (SVec × Tr × Bool)
  | 0 => if v.size ≥ N then .ok (v, [], false) else .ok (v, [], true)
  | _ + 1 =>
      if v.size ≥ N then .ok (v, [], false)
      else do
        let s ← construct v.slots v.size (some x)
        pure (⟨s, v.size + 1⟩, [⟨false, .ctor, v.size⟩], false)

/-- `for (; b != e; ++b) push_back(*b);` -/
def rangeLoopX (N : Nat) : List Nat → SVec → (b : Nat) → Except Fault (SVec × Tr × Bool)
  | [], v, _ => .ok (v, [], false)
  | x :: xs, v, b =>
      if v.size ≥ N then rangeLoopX N xs v b
      else
        match b with
        | 0 => .ok (v, [], true)
        | b + 1 => do
            let s ← construct v.slots v.size (some x)
            let (v', tr, t) ← rangeLoopX N xs ⟨s, v.size + 1⟩ b
            pure (v', ⟨false, .ctor, v.size⟩ :: tr, t)

/-- `for (auto &obj : lst) { if (m_size >= N) break; new (&_data[m_size]) T(obj); ++m_size; }` -/
def ilLoopX (N : Nat) : List Nat → SVec → (b : Nat) → Except Fault (SVec × Tr × Bool)
  | [], v, _ => .ok (v, [], false)
  | x :: xs, v, b =>
      if v.size ≥ N then .ok (v, [], false)
      else
        match b with
        | 0 => .ok (v, [], true)
        | b + 1 => do
            let s ← construct v.slots v.size (some x)
            let (v', tr, t) ← ilLoopX N xs ⟨s, v.size + 1⟩ b
            pure (v', ⟨false, .ctor, v.size⟩ :: tr, t)

/-- an exception leaves the body of a constructor that delegated to
    `static_vector()`: the object was complete, `~static_vector()` runs on it,
    and there is no object afterwards -/
def unwindCtor (v : SVec) (tr : Tr) : Except Fault (Option SVec × Tr × Bool) := do
  let (_, tr2) ← destructor v
  pure (none, tr ++ tr2, true)

/-- `static_vector(const static_vector &other) : static_vector()` -/
def copyCtorX (N : Nat) (other : SVec) (b : Nat) : Except Fault (Option SVec × Tr × Bool) := do
  let (d, tr, n, t) ← copyLoopX other.slots other.size 0 (rawStore N) b
  if t then unwindCtor ⟨d, n⟩ tr else pure (some ⟨d, n⟩, tr, false)

/-- `static_vector(static_vector &&other) : static_vector()`; container/ ends with
    `other.clear()`, which a throw does not reach -/
def moveCtorX (port trk : Bool) (N : Nat) (other : SVec) (b : Nat) :
    Except Fault (Option SVec × SVec × Tr × Bool) := do
  let (d, s, tr, n, t) ← moveLoopX trk other.size 0 (rawStore N) other.slots b
  if t then do
    let (_, tr2) ← destructor ⟨d, n⟩
    pure (none, ⟨s, other.size⟩, tr ++ tr2, true)
  else if port then pure (some ⟨d, n⟩, ⟨s, other.size⟩, tr, false)
  else do
    let (o, tr2) ← clear ⟨s, other.size⟩
    pure (some ⟨d, n⟩, o, tr ++ tr2.map Ev.flip, false)

def rangeCtorX (N : Nat) (xs : List Nat) (b : Nat) : Except Fault (Option SVec × Tr × Bool) := do
  let (v, tr, t) ← rangeLoopX N xs ⟨rawStore N, 0⟩ b
  if t then unwindCtor v tr else pure (some v, tr, false)

def ilCtorX (N : Nat) (xs : List Nat) (b : Nat) : Except Fault (Option SVec × Tr × Bool) := do
  let (v, tr, t) ← ilLoopX N xs ⟨rawStore N, 0⟩ b
  if t then unwindCtor v tr else pure (some v, tr, false)

/-- `operator=(const static_vector &other)`, `this != &other`:
    `clear(); for (…) { new (&_data[pos]) T(other[pos]); ++m_size; }` -/
def assignCopyX (v other : SVec) (b : Nat) : Except Fault (SVec × Tr × Bool) := do
  let (v, tr1) ← clear v
  let (d, tr2, n, t) ← copyLoopX other.slots other.size 0 v.slots b
  pure (⟨d, n⟩, tr1 ++ tr2, t)

/-- `operator=(static_vector &&other)`: `clear();` move loop with `++m_size`; `other.clear();` -/
def assignMoveX (trk : Bool) (v other : SVec) (b : Nat) : Except Fault (SVec × SVec × Tr × Bool) := do
  let (v, tr1) ← clear v
  let (d, s, tr2, n, t) ← moveLoopX trk other.size 0 v.slots other.slots b
  if t then pure (⟨d, n⟩, ⟨s, other.size⟩, tr1 ++ tr2, true)
  else do
    let (o, tr3) ← clear ⟨s, other.size⟩
    pure (⟨d, n⟩, o, tr1 ++ tr2 ++ tr3.map Ev.flip, false)

/-- `resize(newsize)`: clamp; `while (m_size < newsize) { new (&_data[m_size]) T{}; ++m_size; }`;
    `for (i = newsize; i < m_size; ++i) ~T(); m_size = newsize;` -/
def resizeX (N : Nat) (v : SVec) (newsize : Nat) (b : Nat) : Except Fault (SVec × Tr × Bool) := do
  let newsize := if newsize ≥ N then N else newsize
  let (s, tr1, n, t) ← valueInitLoopX (newsize - v.size) v.size v.slots b
  if t then pure (⟨s, v.size + n⟩, tr1, true)
  else do
    let (s, tr2) ← destroyLoop (v.size - newsize) newsize s
    pure (⟨s, newsize⟩, tr1 ++ tr2, false)

/-! ## the machine: one operation with a throw point -/

/-- `step` with the construction budget `b` of this operation; the third
    component says whether the operation threw -/
def stepX (c : Cfg) (m : Mach) (op : Op) (b : Nat) : Except Fault (Mach × Res × Bool) :=
  match op with
  | .copy r s =>
      match decide (r < c.K ∧ s < c.K), m.regs r, m.regs s with
      | true, none, some o => do
          let (v, tr, t) ← copyCtorX c.N o b
          let (m', res) := m.log (setReg m.regs r v) (glob r s tr)
          pure (m', res, t)
      | _, _, _ => .ok (m, none, false)
  | .move r s =>
      match decide (r < c.K ∧ s < c.K), m.regs r, m.regs s with
      | true, none, some o => do
          let (v, o', tr, t) ← moveCtorX c.port c.trk c.N o b
          let (m', res) := m.log (setReg (setReg m.regs s (some o')) r v) (glob r s tr)
          pure (m', res, t)
      | _, _, _ => .ok (m, none, false)
  | .range r xs =>
      match decide (r < c.K ∧ c.port = false), m.regs r with
      | true, none => do
          let (v, tr, t) ← rangeCtorX c.N xs b
          let (m', res) := m.log (setReg m.regs r v) (glob r r tr)
          pure (m', res, t)
      | _, _ => .ok (m, none, false)
  | .il r xs =>
      match decide (r < c.K ∧ c.port = false), m.regs r with
      | true, none => do
          let (v, tr, t) ← ilCtorX c.N xs b
          let (m', res) := m.log (setReg m.regs r v) (glob r r tr)
          pure (m', res, t)
      | _, _ => .ok (m, none, false)
  | .acopy r s =>
      match decide (r < c.K ∧ s < c.K), m.regs r, m.regs s with
      | true, some v, some o =>
          if r = s then
            let (m', res) := m.log m.regs []
            .ok (m', res, false)
          else do
            let (v', tr, t) ← assignCopyX v o b
            let (m', res) := m.log (setReg m.regs r (some v')) (glob r s tr)
            pure (m', res, t)
      | _, _, _ => .ok (m, none, false)
  | .amove r s =>
      match decide (r < c.K ∧ s < c.K), m.regs r, m.regs s with
      | true, some v, some o =>
          if r = s then
            let (m', res) := m.log m.regs []
            .ok (m', res, false)
          else do
            let (v', o', tr, t) ← assignMoveX c.trk v o b
            let (m', res) := m.log (setReg (setReg m.regs s (some o')) r (some v')) (glob r s tr)
            pure (m', res, t)
      | _, _, _ => .ok (m, none, false)
  | .push r x =>
      match decide (r < c.K), m.regs r with
      | true, some v => do
          let (v', tr, t) ← pushBackX c.N v x b
          let (m', res) := m.log (setReg m.regs r (some v')) (glob r r tr)
          pure (m', res, t)
      | _, _ => .ok (m, none, false)
  | .emplace r x =>
      match decide (r < c.K), m.regs r with
      | true, some v => do
          let (v', tr, t) ← pushBackX c.N v x b
          let (m', res) := m.log (setReg m.regs r (some v')) (glob r r tr)
          pure (m', res, t)
      | _, _ => .ok (m, none, false)
  | .resize r n =>
      match decide (r < c.K), m.regs r with
      | true, some v => do
          let (v', tr, t) ← resizeX c.N v n b
          let (m', res) := m.log (setReg m.regs r (some v')) (glob r r tr)
          pure (m', res, t)
      | _, _ => .ok (m, none, false)
  -- new, erase, clear, del, finish construct no element
  | op => do
      let (m', res) ← step c m op
      pure (m', res, false)

/-- a history of operations, each with its own throw point; the first fault ends it -/
def runX (c : Cfg) : List (Op × Nat) → Mach → Except Fault Mach
  | [], m => .ok m
  | (op, b) :: ops, m => do
      let (m', _, _) ← stepX c m op b
      runX c ops m'

/-! ## the bodies as they were before the repair (for the witness theorems) -/

/-- `m_size = other.m_size;` first, then the loop: a throw leaves `m_size`
    counting elements that were never constructed -/
def assignCopyXOrig (v other : SVec) (b : Nat) : Except Fault (SVec × Tr × Bool) := do
  let (v, tr1) ← clear v
  let (d, tr2, _, t) ← copyLoopX other.slots other.size 0 v.slots b
  pure (⟨d, other.size⟩, tr1 ++ tr2, t)

/-- `for (i = m_size; i < newsize; ++i) new (&_data[i]) T{}; … m_size = newsize;` —
    a throw leaves the new elements above `m_size` -/
def resizeXOrig (N : Nat) (v : SVec) (newsize : Nat) (b : Nat) : Except Fault (SVec × Tr × Bool) := do
  let newsize := if newsize ≥ N then N else newsize
  let (s, tr1, _, t) ← valueInitLoopX (newsize - v.size) v.size v.slots b
  if t then pure (⟨s, v.size⟩, tr1, true)
  else do
    let (s, tr2) ← destroyLoop (v.size - newsize) newsize s
    pure (⟨s, newsize⟩, tr1 ++ tr2, false)

/-- the copy constructor without delegation: the exception leaves a constructor
    of an incomplete object, no destructor runs, the elements constructed so far
    are lost -/
def copyCtorXOrig (N : Nat) (other : SVec) (b : Nat) : Except Fault (Option SVec × Tr × Bool) := do
  let (d, tr, _, t) ← copyLoopX other.slots other.size 0 (rawStore N) b
  if t then pure (none, tr, true) else pure (some ⟨d, other.size⟩, tr, false)

end Igris.C14
