/-
  C14 — lemmas for `Exc.lean` (element constructors that throw).

  A loop with a throw point is the plain loop of `Model.lean` run for
  `min k b` iterations (`…X_eq`), so the pointwise closed forms of `Lemmas.lean`
  apply to what a failed call leaves behind.  Each member function is then
  shown to map the abstraction `Abs N v es` to the abstraction of the reference
  result *with the failure* (`spec…X`: a failed push changes nothing, a failed
  assignment keeps the prefix it had constructed, a failed resize the elements
  added so far, a failed constructor leaves no object and nothing constructed).
-/
import IgrisModel.C14.Exc
import IgrisModel.C14.Lemmas

namespace Igris.C14

/-! ### loops with a throw point = plain loops run for `min k b` iterations -/

theorem valueInitLoopX_eq : ∀ (k pos : Nat) (s : Slots) (b : Nat),
    valueInitLoopX k pos s b =
      (valueInitLoop (min k b) pos s).map fun p => (p.1, p.2, min k b, decide (b < k))
  | 0, pos, s, b => by simp [valueInitLoopX, valueInitLoop, Except.map]
  | k + 1, pos, s, 0 => by simp [valueInitLoopX, valueInitLoop, Except.map]
  | k + 1, pos, s, b + 1 => by
      have ih := valueInitLoopX_eq k (pos + 1)
      rw [Nat.add_min_add_right]
      simp only [valueInitLoopX, valueInitLoop, bind, Except.bind]
      cases construct s pos (some 0) with
      | error e => rfl
      | ok s1 =>
        simp only [ih s1 b]
        cases valueInitLoop (min k b) (pos + 1) s1 with
        | error e => rfl
        | ok p => simp [Except.map, pure, Except.pure]

theorem copyLoopX_eq (src : Slots) : ∀ (k pos : Nat) (d : Slots) (b : Nat),
    copyLoopX src k pos d b =
      (copyLoop src (min k b) pos d).map fun p => (p.1, p.2, min k b, decide (b < k))
  | 0, pos, d, b => by simp [copyLoopX, copyLoop, Except.map]
  | k + 1, pos, d, 0 => by simp [copyLoopX, copyLoop, Except.map]
  | k + 1, pos, d, b + 1 => by
      have ih := copyLoopX_eq src k (pos + 1)
      rw [Nat.add_min_add_right]
      simp only [copyLoopX, copyLoop, bind, Except.bind]
      cases readObj src pos with
      | error e => rfl
      | ok e =>
        simp only []
        cases construct d pos e with
        | error e => rfl
        | ok d1 =>
          simp only [ih d1 b]
          cases copyLoop src (min k b) (pos + 1) d1 with
          | error e => rfl
          | ok p => simp [Except.map, pure, Except.pure]

theorem moveLoopX_eq (trk : Bool) : ∀ (k pos : Nat) (d s : Slots) (b : Nat),
    moveLoopX trk k pos d s b =
      (moveLoop trk (min k b) pos d s).map fun p => (p.1, p.2.1, p.2.2, min k b, decide (b < k))
  | 0, pos, d, s, b => by simp [moveLoopX, moveLoop, Except.map]
  | k + 1, pos, d, s, 0 => by simp [moveLoopX, moveLoop, Except.map]
  | k + 1, pos, d, s, b + 1 => by
      have ih := moveLoopX_eq trk k (pos + 1)
      rw [Nat.add_min_add_right]
      simp only [moveLoopX, moveLoop, bind, Except.bind]
      cases moveOut trk s pos with
      | error e => rfl
      | ok es =>
        obtain ⟨e, s1⟩ := es
        simp only []
        cases construct d pos e with
        | error e => rfl
        | ok d1 =>
          simp only [ih d1 s1 b]
          cases moveLoop trk (min k b) (pos + 1) d1 s1 with
          | error e => rfl
          | ok p => simp [Except.map, pure, Except.pure]

/-! ### prefixes -/

/-- the first `m` elements of `es` moved from, the rest untouched -/
def movedPrefix (trk : Bool) (m : Nat) (es : List Elem) : List Elem :=
  if trk then (es.take m).map (fun _ => none) ++ es.drop m else es

@[simp] theorem movedPrefix_length (trk : Bool) (m : Nat) (es : List Elem) :
    (movedPrefix trk m es).length = es.length := by
  simp only [movedPrefix]; split
  · simp; omega
  · rfl

theorem movedPrefix_get (trk : Bool) (m : Nat) (es : List Elem) (p : Nat) :
    (movedPrefix trk m es)[p]? = if trk = true ∧ p < m ∧ p < es.length then some none else es[p]? := by
  cases trk
  · simp [movedPrefix]
  · simp only [movedPrefix, if_true, true_and]
    by_cases h1 : p < m ∧ p < es.length
    · rw [if_pos h1, List.getElem?_append_left (by simp; omega)]
      simp [List.getElem?_map, List.getElem?_take, h1.1]
      exact ⟨es[p], List.getElem?_eq_getElem h1.2⟩
    · rw [if_neg h1]
      by_cases h2 : p < es.length
      · have hm : m ≤ p := by omega
        rw [List.getElem?_append_right (by simp; omega)]
        simp only [List.length_map, List.length_take, List.getElem?_drop]
        congr 1; omega
      · have e1 : es[p]? = none := List.getElem?_eq_none_iff.mpr (by omega)
        rw [e1]
        apply List.getElem?_eq_none_iff.mpr
        simp; omega

theorem movedPrefix_full (trk : Bool) {m : Nat} {es : List Elem} (h : es.length ≤ m) :
    movedPrefix trk m es = movedFrom trk es := by
  simp [movedPrefix, movedFrom, List.take_of_length_le h, List.drop_of_length_le h]

theorem copyInto_prefix {N : Nat} {d o : SVec} {eo : List Elem} (hd : Abs N d []) (ho : Abs N o eo)
    (m : Nat) (hm : m ≤ eo.length) :
    ∃ d' tr, copyLoop o.slots m 0 d.slots = .ok (d', tr) ∧ Abs N ⟨d', m⟩ (eo.take m) ∧ nC tr = m ∧ nD tr = 0 := by
  obtain ⟨d', tr, h1, h2, h3, h4, h5⟩ := copyLoop_spec o.slots m 0 d.slots (by
    intro p _ hp
    have := ho.size; have := ho.le
    rw [hd.pt p, ho.pt p]
    exact ⟨slotAt_raw (by simp) (by omega), slotAt_obj (by omega)⟩)
  have := ho.le
  refine ⟨d', tr, h1, ⟨by rw [h4, hd.len], by simp; omega, by simp; omega, ?_⟩, h2, h3⟩
  intro p
  have := hd.pt p; have := ho.pt p; have := ho.size; have := h5 p
  simp only [slotAt, List.length_take, List.getElem?_take, List.length_nil] at *
  grind

theorem moveInto_prefix (trk : Bool) {N : Nat} {d o : SVec} {eo : List Elem} (hd : Abs N d []) (ho : Abs N o eo)
    (m : Nat) (hm : m ≤ eo.length) :
    ∃ d' s' tr, moveLoop trk m 0 d.slots o.slots = .ok (d', s', tr) ∧ Abs N ⟨d', m⟩ (eo.take m) ∧
      Abs N ⟨s', o.size⟩ (movedPrefix trk m eo) ∧ nC tr = m ∧ nD tr = 0 := by
  obtain ⟨d', s', tr, h1, h2, h3, h4, h4', h5, h6⟩ := moveLoop_spec trk m 0 d.slots o.slots (by
    intro p _ hp
    have := ho.size; have := ho.le
    rw [hd.pt p, ho.pt p]
    exact ⟨slotAt_raw (by simp) (by omega), slotAt_obj (by omega)⟩)
  have := ho.le
  refine ⟨d', s', tr, h1, ⟨by rw [h4, hd.len], by simp; omega, by simp; omega, ?_⟩,
    ⟨by rw [h4', ho.len], by simp [ho.size], by simp [ho.le], ?_⟩, h2, h3⟩
  · intro p
    have := hd.pt p; have := ho.pt p; have := ho.size; have := h5 p
    simp only [slotAt, List.length_take, List.getElem?_take, List.length_nil] at *
    grind
  · intro p
    have := ho.pt p; have := ho.size; have := h6 p
    have hg := movedPrefix_get trk m eo p
    simp only [slotAt, movedPrefix_length] at *
    by_cases hp : p < eo.length
    · have : eo[p]? = some (eo[p]) := List.getElem?_eq_getElem hp
      cases trk <;> grind
    · cases trk <;> grind

/-! ### reference semantics with a failure -/

def specPushX (N : Nat) (es : List Elem) (x : Nat) (b : Nat) : List Elem × Bool :=
  if es.length < N ∧ b = 0 then (es, true) else (specPush N es x, false)

def specResizeX (N : Nat) (es : List Elem) (n : Nat) (b : Nat) : List Elem × Bool :=
  if es.length < min n N ∧ b < min n N - es.length then (es ++ List.replicate b (some 0), true)
  else (specResize N es n, false)

theorem pushBackX_spec {N : Nat} {v : SVec} {es : List Elem} (h : Abs N v es) (x b : Nat) :
    ∃ v' tr, pushBackX N v x b = .ok (v', tr, (specPushX N es x b).2) ∧ Abs N v' (specPushX N es x b).1 ∧
      nC tr + es.length = (specPushX N es x b).1.length ∧ nD tr = 0 := by
  have hs := h.size
  cases b with
  | zero =>
    by_cases hf : v.size ≥ N
    · have e : specPushX N es x 0 = (es, false) := by
        have : ¬ es.length < N := by omega
        simp [specPushX, specPush, this]
      exact ⟨v, [], by simp [pushBackX, hf, e], by rw [e]; exact h, by rw [e]; simp, rfl⟩
    · have e : specPushX N es x 0 = (es, true) := by
        have : es.length < N := by omega
        simp [specPushX, this]
      exact ⟨v, [], by simp [pushBackX, hf, e], by rw [e]; exact h, by rw [e]; simp, rfl⟩
  | succ b =>
    have e : specPushX N es x (b + 1) = (specPush N es x, false) := by simp [specPushX]
    obtain ⟨v', tr, p1, p2, p3, p4⟩ := pushBack_spec h x
    refine ⟨v', tr, ?_, by rw [e]; exact p2, by rw [e]; exact p3, p4⟩
    rw [e]
    unfold pushBack at p1
    simp only [pushBackX]
    by_cases hf : v.size ≥ N
    · rw [if_pos hf] at p1 ⊢; cases p1; rfl
    · rw [if_neg hf] at p1 ⊢
      cases hc : construct v.slots v.size (some x) with
      | error er => rw [hc] at p1; simp [bind, Except.bind] at p1
      | ok s1 => rw [hc] at p1; cases p1; rfl

theorem resizeX_spec {N : Nat} {v : SVec} {es : List Elem} (h : Abs N v es) (n b : Nat) :
    ∃ v' tr, resizeX N v n b = .ok (v', tr, (specResizeX N es n b).2) ∧ Abs N v' (specResizeX N es n b).1 ∧
      nC tr + es.length = nD tr + (specResizeX N es n b).1.length := by
  have hs := h.size; have hl := h.le
  have hn : (if n ≥ N then N else n) = min n N := by split <;> omega
  by_cases hb : es.length < min n N ∧ b < min n N - es.length
  · -- the (b+1)-th `T{}` throws
    have e : specResizeX N es n b = (es ++ List.replicate b (some 0), true) := by simp [specResizeX, hb]
    have hmin : min (min n N - v.size) b = b := by omega
    obtain ⟨s1, tr1, a1, a2, a3, a4, a5⟩ := valueInitLoop_spec b v.size v.slots (by
      intro p hp1 hp2
      rw [h.pt p]; exact slotAt_raw (by omega) (by omega))
    refine ⟨⟨s1, v.size + b⟩, tr1, ?_, ?_, ?_⟩
    · rw [e]
      simp only [resizeX, hn, valueInitLoopX_eq, hmin, a1, Except.map, bind, Except.bind, pure, Except.pure]
      have : decide (b < min n N - v.size) = true := by simp; omega
      simp [this]
    · rw [e]
      refine ⟨by rw [a4, h.len], by simp; omega, by simp; omega, ?_⟩
      intro p
      have := h.pt p; have := a5 p
      simp only [slotAt, List.length_append, List.length_replicate, List.getElem?_append, List.getElem?_replicate] at *
      grind
    · rw [e]; simp only [a2, a3, List.length_append, List.length_replicate]; omega
  · -- nothing throws: the body of `resize`
    have e : specResizeX N es n b = (specResize N es n, false) := by simp [specResizeX, hb]
    have hmin : min (min n N - v.size) b = min n N - v.size := by omega
    obtain ⟨v', tr, p1, p2, p3⟩ := resize_spec h n
    refine ⟨v', tr, ?_, by rw [e]; exact p2, by rw [e]; exact p3⟩
    rw [e]
    simp only [resize, hn, bind, Except.bind] at p1
    simp only [resizeX, hn, valueInitLoopX_eq, hmin, bind, Except.bind]
    cases hv : valueInitLoop (min n N - v.size) v.size v.slots with
    | error er => rw [hv] at p1; cases p1
    | ok q =>
      rw [hv] at p1
      have : decide (b < min n N - v.size) = false := by simp; omega
      simp only [Except.map, this]
      cases hd : destroyLoop (v.size - min n N) (min n N) q.1 with
      | error er => simp only [hd] at p1; cases p1
      | ok q2 =>
        simp only [hd, pure, Except.pure] at p1 ⊢
        cases p1; rfl

/-- a failed constructor call: what was constructed is destroyed again -/
theorem unwind_spec {N : Nat} {v : SVec} {es : List Elem} (h : Abs N v es) (tr : Tr) :
    ∃ tr2, unwindCtor v tr = .ok (none, tr ++ tr2, true) ∧ nC tr2 = 0 ∧ nD tr2 = es.length := by
  obtain ⟨v', tr2, p1, _, p3, p4⟩ := destructor_spec h
  exact ⟨tr2, by simp [unwindCtor, p1, bind, Except.bind, pure, Except.pure], p3, p4⟩

theorem copyCtorX_spec {N : Nat} {o : SVec} {eo : List Elem} (ho : Abs N o eo) (b : Nat) :
    ∃ w tr, copyCtorX N o b = .ok (w, tr, decide (b < eo.length)) ∧
      Rel N w (if b < eo.length then none else some eo) ∧
      nC tr = min eo.length b ∧ nD tr = (if b < eo.length then b else 0) := by
  have hs := ho.size
  obtain ⟨d', tr, h1, h2, h3, h4⟩ := copyInto_prefix (abs_fresh N) ho (min eo.length b) (by omega)
  simp only at h1
  by_cases hb : b < eo.length
  · have hm : min eo.length b = b := by omega
    rw [hm] at h1 h2 h3
    obtain ⟨tr2, u1, u2, u3⟩ := unwind_spec h2 tr
    refine ⟨none, tr ++ tr2, ?_, by simp [hb, Rel], by simp [h3, u2, hm], by simp [h4, u3, hb]; omega⟩
    have : decide (b < o.size) = true := by simp; omega
    simp only [copyCtorX, copyLoopX_eq, hs, hm, h1, Except.map, bind, Except.bind]
    rw [hs] at this
    simp [this, u1, hb]
  · have hm : min eo.length b = eo.length := by omega
    rw [hm] at h1 h2 h3
    rw [List.take_of_length_le (Nat.le_refl _)] at h2
    refine ⟨some ⟨d', eo.length⟩, tr, ?_, by simpa [hb, Rel] using h2, by simp [h3, hm], by simp [h4, hb]⟩
    have : decide (b < eo.length) = false := by simp; omega
    simp only [copyCtorX, copyLoopX_eq, hs, hm, h1, Except.map, bind, Except.bind]
    simp [this, pure, Except.pure]

theorem assignCopyX_spec {N : Nat} {v o : SVec} {es eo : List Elem} (hv : Abs N v es) (ho : Abs N o eo) (b : Nat) :
    ∃ v' tr, assignCopyX v o b = .ok (v', tr, decide (b < eo.length)) ∧ Abs N v' (eo.take b) ∧
      nC tr = min eo.length b ∧ nD tr = es.length := by
  have hs := ho.size
  obtain ⟨v1, tr1, a1, a2, a3, a4⟩ := clear_spec hv
  obtain ⟨d', tr, h1, h2, h3, h4⟩ := copyInto_prefix a2 ho (min eo.length b) (by omega)
  have ht : eo.take (min eo.length b) = eo.take b := by
    by_cases hb : b < eo.length
    · rw [show min eo.length b = b by omega]
    · rw [show min eo.length b = eo.length by omega, List.take_of_length_le (Nat.le_refl _),
        List.take_of_length_le (by omega)]
  rw [ht] at h2
  refine ⟨⟨d', min eo.length b⟩, tr1 ++ tr, ?_, h2, by simp [a3, h3], by simp [a4, h4]⟩
  simp only [assignCopyX, a1, copyLoopX_eq, hs, h1, Except.map, bind, Except.bind, pure, Except.pure]

theorem moveCtorX_spec (port trk : Bool) {N : Nat} {o : SVec} {eo : List Elem} (ho : Abs N o eo) (b : Nat) :
    ∃ w o' tr, moveCtorX port trk N o b = .ok (w, o', tr, decide (b < eo.length)) ∧
      Rel N w (if b < eo.length then none else some eo) ∧
      Abs N o' (if b < eo.length then movedPrefix trk b eo else if port then movedFrom trk eo else []) ∧
      nC tr = min eo.length b ∧
      nD tr = (if b < eo.length then b else if port then 0 else eo.length) := by
  have hs := ho.size
  obtain ⟨d', s', tr, h1, h2, h3, h4, h5⟩ := moveInto_prefix trk (abs_fresh N) ho (min eo.length b) (by omega)
  simp only at h1
  by_cases hb : b < eo.length
  · have hm : min eo.length b = b := by omega
    rw [hm] at h1 h2 h3 h4
    obtain ⟨v', tr2, p1, _, p3, p4⟩ := destructor_spec h2
    refine ⟨none, ⟨s', o.size⟩, tr ++ tr2, ?_, by simp [hb, Rel], by simpa [hb] using h3,
      by simp [h4, p3, hm], by simp [h5, p4, hb]; omega⟩
    have : decide (b < eo.length) = true := by simp; omega
    simp only [moveCtorX, moveLoopX_eq, hs, hm, h1, Except.map, bind, Except.bind]
    simp [this, p1, pure, Except.pure]
  · have hm : min eo.length b = eo.length := by omega
    rw [hm] at h1 h2 h3 h4
    rw [List.take_of_length_le (Nat.le_refl _)] at h2
    rw [movedPrefix_full trk (Nat.le_refl _)] at h3
    have hd : decide (b < eo.length) = false := by simp; omega
    cases port
    · obtain ⟨o', tr2, c1, c2, c3, c4⟩ := clear_spec h3
      rw [hs] at c1
      refine ⟨some ⟨d', eo.length⟩, o', tr ++ tr2.map Ev.flip, ?_, by simpa [hb, Rel] using h2,
        by simpa [hb] using c2, by simp [h4, c3, hm], by simp [h5, c4, hb]⟩
      simp only [moveCtorX, moveLoopX_eq, hs, hm, h1, Except.map, bind, Except.bind]
      simp [hd, c1, pure, Except.pure]
    · refine ⟨some ⟨d', eo.length⟩, ⟨s', o.size⟩, tr, ?_, by simpa [hb, Rel] using h2,
        by simpa [hb] using h3, by simp [h4, hm], by simp [h5, hb]⟩
      simp only [moveCtorX, moveLoopX_eq, hs, hm, h1, Except.map, bind, Except.bind]
      simp [hd, pure, Except.pure]

theorem assignMoveX_spec (trk : Bool) {N : Nat} {v o : SVec} {es eo : List Elem} (hv : Abs N v es) (ho : Abs N o eo)
    (b : Nat) :
    ∃ v' o' tr, assignMoveX trk v o b = .ok (v', o', tr, decide (b < eo.length)) ∧ Abs N v' (eo.take b) ∧
      Abs N o' (if b < eo.length then movedPrefix trk b eo else []) ∧
      nC tr = min eo.length b ∧ nD tr = es.length + (if b < eo.length then 0 else eo.length) := by
  have hs := ho.size
  obtain ⟨v1, tr1, a1, a2, a3, a4⟩ := clear_spec hv
  obtain ⟨d', s', tr, h1, h2, h3, h4, h5⟩ := moveInto_prefix trk a2 ho (min eo.length b) (by omega)
  by_cases hb : b < eo.length
  · have hm : min eo.length b = b := by omega
    rw [hm] at h1 h2 h3 h4
    refine ⟨⟨d', b⟩, ⟨s', o.size⟩, tr1 ++ tr, ?_, h2, by simpa [hb] using h3, by simp [a3, h4, hm],
      by simp [a4, h5, hb]⟩
    have : decide (b < eo.length) = true := by simp; omega
    simp only [assignMoveX, a1, moveLoopX_eq, hs, hm, h1, Except.map, bind, Except.bind]
    simp [this, pure, Except.pure]
  · have hm : min eo.length b = eo.length := by omega
    rw [hm] at h1 h2 h3 h4
    rw [List.take_of_length_le (Nat.le_refl _)] at h2
    rw [movedPrefix_full trk (Nat.le_refl _)] at h3
    have ht : eo.take b = eo := List.take_of_length_le (by omega)
    obtain ⟨o', tr2, c1, c2, c3, c4⟩ := clear_spec h3
    rw [hs] at c1
    refine ⟨⟨d', eo.length⟩, o', tr1 ++ tr ++ tr2.map Ev.flip, ?_, by rw [ht]; exact h2, by simpa [hb] using c2,
      by simp [a3, h4, c3, hm], by simp [a4, h5, c4, hb]⟩
    have : decide (b < eo.length) = false := by simp; omega
    simp only [assignMoveX, a1, moveLoopX_eq, hs, hm, h1, Except.map, bind, Except.bind]
    simp [this, c1, pure, Except.pure]

/-- how many elements a list constructor constructs when nothing throws, from a vector holding `es` -/
def listCount (N : Nat) (es : List Elem) (xs : List Nat) : Nat := min xs.length (N - es.length)

theorem rangeLoopX_spec (N : Nat) : ∀ (xs : List Nat) (v : SVec) (es : List Elem) (b : Nat), Abs N v es →
    ∃ v' tr, rangeLoopX N xs v b = .ok (v', tr, decide (b < listCount N es xs)) ∧
      Abs N v' (es ++ (xs.take (min (N - es.length) b)).map some) ∧
      nC tr = min (listCount N es xs) b ∧ nD tr = 0 := by
  intro xs
  induction xs with
  | nil => intro v es b h; exact ⟨v, [], by simp [rangeLoopX, listCount], by simpa using h, by simp [listCount], rfl⟩
  | cons x xs ih =>
    intro v es b h
    have hs := h.size; have hl := h.le
    by_cases hf : v.size ≥ N
    · have h0 : N - es.length = 0 := by omega
      obtain ⟨v', tr, q1, q2, q3, q4⟩ := ih v es b h
      refine ⟨v', tr, ?_, ?_, ?_, q4⟩
      · simp only [rangeLoopX, if_pos hf]; rw [q1]; simp [listCount, h0]
      · simpa [h0] using q2
      · simpa [listCount, h0] using q3
    · cases b with
      | zero =>
        refine ⟨v, [], ?_, by simpa using h, by simp, rfl⟩
        have : 0 < listCount N es (x :: xs) := by simp [listCount]; omega
        simp [rangeLoopX, hf, this]
      | succ b =>
        obtain ⟨v1, tr1, p1, p2, p3, p4⟩ := pushBack_spec h x
        have hsp : specPush N es x = es ++ [some x] := by simp [specPush]; omega
        rw [hsp] at p2
        have hr : v.slots[v.size]? = some .raw := by rw [h.pt]; exact slotAt_raw (by omega) (by omega)
        have hv1 : v1 = ⟨v.slots.set v.size (.obj (some x)), v.size + 1⟩ := by
          simp [pushBack, hf, construct_ok _ hr, bind, Except.bind, pure, Except.pure] at p1
          exact p1.1.symm
        obtain ⟨v', tr, q1, q2, q3, q4⟩ := ih v1 _ b p2
        rw [hv1] at q1
        refine ⟨v', ⟨false, .ctor, v.size⟩ :: tr, ?_, ?_, ?_, by simp [q4]⟩
        · simp only [rangeLoopX, if_neg hf, construct_ok _ hr, q1, bind, Except.bind, pure, Except.pure]
          have hlt : es.length < N := by omega
          have : (decide (b < listCount N (es ++ [some x]) xs)) = decide (b + 1 < listCount N es (x :: xs)) := by
            apply decide_eq_decide.mpr
            simp only [listCount, List.length_cons, List.length_append, List.length_nil]
            constructor <;> intro _ <;> omega
          rw [this]
        · have e1 : min (N - es.length) (b + 1) = min (N - (es ++ [some x]).length) b + 1 := by simp; omega
          rw [e1, List.take_succ_cons]
          simpa using q2
        · have hc : nC (⟨false, .ctor, v.size⟩ :: tr) = nC tr + 1 := by simp; omega
          have hlt : es.length < N := by omega
          rw [hc, q3]
          simp only [listCount, List.length_cons, List.length_append, List.length_nil]
          omega

theorem ilLoopX_spec (N : Nat) : ∀ (xs : List Nat) (v : SVec) (es : List Elem) (b : Nat), Abs N v es →
    ∃ v' tr, ilLoopX N xs v b = .ok (v', tr, decide (b < listCount N es xs)) ∧
      Abs N v' (es ++ (xs.take (min (N - es.length) b)).map some) ∧
      nC tr = min (listCount N es xs) b ∧ nD tr = 0 := by
  intro xs
  induction xs with
  | nil => intro v es b h; exact ⟨v, [], by simp [ilLoopX, listCount], by simpa using h, by simp [listCount], rfl⟩
  | cons x xs ih =>
    intro v es b h
    have hs := h.size; have hl := h.le
    by_cases hf : v.size ≥ N
    · have h0 : N - es.length = 0 := by omega
      exact ⟨v, [], by simp [ilLoopX, hf, listCount, h0], by simpa [h0] using h, by simp [listCount, h0], rfl⟩
    · cases b with
      | zero =>
        refine ⟨v, [], ?_, by simpa using h, by simp, rfl⟩
        have : 0 < listCount N es (x :: xs) := by simp [listCount]; omega
        simp [ilLoopX, hf, this]
      | succ b =>
        obtain ⟨v1, tr1, p1, p2, p3, p4⟩ := pushBack_spec h x
        have hsp : specPush N es x = es ++ [some x] := by simp [specPush]; omega
        rw [hsp] at p2
        have hr : v.slots[v.size]? = some .raw := by rw [h.pt]; exact slotAt_raw (by omega) (by omega)
        have hv1 : v1 = ⟨v.slots.set v.size (.obj (some x)), v.size + 1⟩ := by
          simp [pushBack, hf, construct_ok _ hr, bind, Except.bind, pure, Except.pure] at p1
          exact p1.1.symm
        obtain ⟨v', tr, q1, q2, q3, q4⟩ := ih v1 _ b p2
        rw [hv1] at q1
        refine ⟨v', ⟨false, .ctor, v.size⟩ :: tr, ?_, ?_, ?_, by simp [q4]⟩
        · simp only [ilLoopX, if_neg hf, construct_ok _ hr, q1, bind, Except.bind, pure, Except.pure]
          have hlt : es.length < N := by omega
          have : (decide (b < listCount N (es ++ [some x]) xs)) = decide (b + 1 < listCount N es (x :: xs)) := by
            apply decide_eq_decide.mpr
            simp only [listCount, List.length_cons, List.length_append, List.length_nil]
            constructor <;> intro _ <;> omega
          rw [this]
        · have e1 : min (N - es.length) (b + 1) = min (N - (es ++ [some x]).length) b + 1 := by simp; omega
          rw [e1, List.take_succ_cons]
          simpa using q2
        · have hc : nC (⟨false, .ctor, v.size⟩ :: tr) = nC tr + 1 := by simp; omega
          have hlt : es.length < N := by omega
          rw [hc, q3]
          simp only [listCount, List.length_cons, List.length_append, List.length_nil]
          omega

/-- both list constructors: with the throw at construction `b` -/
theorem listCtorX_spec (N : Nat) (xs : List Nat) (b : Nat)
    (ctor : Nat → List Nat → Nat → Except Fault (Option SVec × Tr × Bool))
    (loop : Nat → List Nat → SVec → Nat → Except Fault (SVec × Tr × Bool))
    (hdef : ∀ N xs b, ctor N xs b = (do
      let (v, tr, t) ← loop N xs ⟨rawStore N, 0⟩ b
      if t then unwindCtor v tr else pure (some v, tr, false)))
    (hloop : ∀ (xs : List Nat) (v : SVec) (es : List Elem) (b : Nat), Abs N v es →
      ∃ v' tr, loop N xs v b = .ok (v', tr, decide (b < listCount N es xs)) ∧
        Abs N v' (es ++ (xs.take (min (N - es.length) b)).map some) ∧
        nC tr = min (listCount N es xs) b ∧ nD tr = 0) :
    ∃ w tr, ctor N xs b = .ok (w, tr, decide (b < min xs.length N)) ∧
      Rel N w (if b < min xs.length N then none else some (specCtor N xs)) ∧
      nC tr = min (min xs.length N) b ∧ nD tr = (if b < min xs.length N then b else 0) := by
  obtain ⟨v, tr, h1, h2, h3, h4⟩ := hloop xs _ [] b (abs_fresh N)
  have hc : listCount N [] xs = min xs.length N := by simp [listCount]
  rw [hc] at h1 h3
  simp only [List.length_nil, Nat.sub_zero, List.nil_append] at h2
  by_cases hb : b < min xs.length N
  · obtain ⟨tr2, u1, u2, u3⟩ := unwind_spec h2 tr
    have hlen : ((xs.take (min N b)).map some).length = b := by simp; omega
    refine ⟨none, tr ++ tr2, ?_, by simp [hb, Rel], by simp [h3, u2], by rw [nD_append, h4, u3, hlen]; simp [hb]⟩
    rw [hdef]
    have : decide (b < min xs.length N) = true := by simpa using hb
    simp only [h1, this, bind, Except.bind]
    simpa using u1
  · have hm : (xs.take (min N b)).map some = specCtor N xs := by
      simp only [specCtor]
      by_cases hN : N ≤ b
      · rw [show min N b = N by omega]
      · have : xs.length ≤ b := by omega
        rw [List.take_of_length_le (by omega), List.take_of_length_le (by omega)]
    rw [hm] at h2
    refine ⟨some v, tr, ?_, by simpa [hb, Rel] using h2, h3, by simp [h4, hb]⟩
    rw [hdef]
    have : decide (b < min xs.length N) = false := by simpa using hb
    simp only [h1, this, bind, Except.bind]
    rfl

theorem rangeCtorX_spec (N : Nat) (xs : List Nat) (b : Nat) :
    ∃ w tr, rangeCtorX N xs b = .ok (w, tr, decide (b < min xs.length N)) ∧
      Rel N w (if b < min xs.length N then none else some (specCtor N xs)) ∧
      nC tr = min (min xs.length N) b ∧ nD tr = (if b < min xs.length N then b else 0) :=
  listCtorX_spec N xs b rangeCtorX rangeLoopX (fun _ _ _ => rfl) (rangeLoopX_spec N)

theorem ilCtorX_spec (N : Nat) (xs : List Nat) (b : Nat) :
    ∃ w tr, ilCtorX N xs b = .ok (w, tr, decide (b < min xs.length N)) ∧
      Rel N w (if b < min xs.length N then none else some (specCtor N xs)) ∧
      nC tr = min (min xs.length N) b ∧ nD tr = (if b < min xs.length N then b else 0) :=
  listCtorX_spec N xs b ilCtorX ilLoopX (fun _ _ _ => rfl) (ilLoopX_spec N)

end Igris.C14
