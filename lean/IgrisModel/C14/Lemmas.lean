/-
  C14 — helper lemmas.  Every loop of the model gets a *pointwise* closed form
  (`∀ p, s'[p]? = …`), the member functions are then shown to map the
  abstraction `Abs N v es` (storage = the objects of `es`, then raw slots up to
  N) to the abstraction of the reference operation.
-/
import IgrisModel.C14.Model

namespace Igris.C14

/-- number of constructor / destructor events of a trace -/
def nC (tr : Tr) : Nat := (tr.filter fun e => e.k = .ctor).length
def nD (tr : Tr) : Nat := (tr.filter fun e => e.k = .dtor).length

@[simp] theorem nC_nil : nC [] = 0 := rfl
@[simp] theorem nD_nil : nD [] = 0 := rfl
@[simp] theorem nC_append (a b : Tr) : nC (a ++ b) = nC a + nC b := by simp [nC]
@[simp] theorem nD_append (a b : Tr) : nD (a ++ b) = nD a + nD b := by simp [nD]
@[simp] theorem nC_cons (e : Ev) (t : Tr) : nC (e :: t) = (if e.k = .ctor then 1 else 0) + nC t := by
  simp [nC, List.filter_cons]; split <;> simp <;> omega
@[simp] theorem nD_cons (e : Ev) (t : Tr) : nD (e :: t) = (if e.k = .dtor then 1 else 0) + nD t := by
  simp [nD, List.filter_cons]; split <;> simp <;> omega
@[simp] theorem nC_flip (t : Tr) : nC (t.map Ev.flip) = nC t := by
  induction t with
  | nil => rfl
  | cons e t ih => simp [Ev.flip, ih]
@[simp] theorem nD_flip (t : Tr) : nD (t.map Ev.flip) = nD t := by
  induction t with
  | nil => rfl
  | cons e t ih => simp [Ev.flip, ih]

/-! ### one-step facts -/

theorem construct_ok {s : Slots} {i : Nat} (e : Elem) (h : s[i]? = some .raw) :
    construct s i e = .ok (s.set i (.obj e)) := by simp [construct, h]

theorem destroy_ok {s : Slots} {i : Nat} {e : Elem} (h : s[i]? = some (.obj e)) :
    destroy s i = .ok (s.set i .raw) := by simp [destroy, h]

theorem readObj_ok {s : Slots} {i : Nat} {e : Elem} (h : s[i]? = some (.obj e)) :
    readObj s i = .ok e := by simp [readObj, h]

theorem assign_ok {s : Slots} {i : Nat} {e0 : Elem} (e : Elem) (h : s[i]? = some (.obj e0)) :
    assign s i e = .ok (s.set i (.obj e)) := by simp [assign, h]

theorem moveOut_ok (trk : Bool) {s : Slots} {i : Nat} {e : Elem} (h : s[i]? = some (.obj e)) :
    moveOut trk s i = .ok (e, if trk then s.set i (.obj none) else s) := by simp [moveOut, h]

theorem lt_of_getElem?_some {α} {l : List α} {i : Nat} {a : α} (h : l[i]? = some a) : i < l.length := by
  have := List.getElem?_eq_none_iff (l := l) (i := i)
  grind

/-! ### loops -/

theorem destroyLoop_spec : ∀ (k pos : Nat) (s : Slots),
    (∀ p, pos ≤ p → p < pos + k → ∃ e, s[p]? = some (.obj e)) →
    ∃ s' tr, destroyLoop k pos s = .ok (s', tr) ∧ nC tr = 0 ∧ nD tr = k ∧ s'.length = s.length ∧
      ∀ p, s'[p]? = if pos ≤ p ∧ p < pos + k then some .raw else s[p]? := by
  intro k
  induction k with
  | zero => intro pos s _; exact ⟨s, [], rfl, rfl, rfl, rfl, by intro p; simp; omega⟩
  | succ k ih =>
    intro pos s h
    obtain ⟨e, he⟩ := h pos (by omega) (by omega)
    have hlt := lt_of_getElem?_some he
    obtain ⟨s', tr, h1, h2, h3, h4, h5⟩ := ih (pos + 1) (s.set pos .raw) (by
      intro p hp1 hp2
      obtain ⟨e', he'⟩ := h p (by omega) (by omega)
      exact ⟨e', by rw [List.getElem?_set_ne (by omega)]; exact he'⟩)
    refine ⟨s', ⟨false, .dtor, pos⟩ :: tr, by simp [destroyLoop, destroy_ok he, h1, bind, Except.bind, pure, Except.pure], ?_, ?_, ?_, ?_⟩
    · simp [h2]
    · simp [h3]; omega
    · simp [h4]
    · intro p
      rw [h5 p]
      by_cases hp : p = pos
      · subst hp; simp [List.getElem?_set_self hlt]
      · rw [List.getElem?_set_ne (by omega)]
        by_cases h6 : pos + 1 ≤ p ∧ p < pos + 1 + k
        · rw [if_pos h6, if_pos (by omega)]
        · rw [if_neg h6, if_neg (by omega)]


theorem valueInitLoop_spec : ∀ (k pos : Nat) (s : Slots),
    (∀ p, pos ≤ p → p < pos + k → s[p]? = some .raw) →
    ∃ s' tr, valueInitLoop k pos s = .ok (s', tr) ∧ nC tr = k ∧ nD tr = 0 ∧ s'.length = s.length ∧
      ∀ p, s'[p]? = if pos ≤ p ∧ p < pos + k then some (.obj (some 0)) else s[p]? := by
  intro k
  induction k with
  | zero => intro pos s _; exact ⟨s, [], rfl, rfl, rfl, rfl, by intro p; simp; omega⟩
  | succ k ih =>
    intro pos s h
    have he := h pos (by omega) (by omega)
    have hlt := lt_of_getElem?_some he
    obtain ⟨s', tr, h1, h2, h3, h4, h5⟩ := ih (pos + 1) (s.set pos (.obj (some 0))) (by
      intro p hp1 hp2
      rw [List.getElem?_set_ne (by omega)]; exact h p (by omega) (by omega))
    refine ⟨s', ⟨false, .ctor, pos⟩ :: tr, by simp [valueInitLoop, construct_ok _ he, h1, bind, Except.bind, pure, Except.pure], ?_, ?_, ?_, ?_⟩
    · simp [h2]; omega
    · simp [h3]
    · simp [h4]
    · intro p
      rw [h5 p]
      by_cases hp : p = pos
      · subst hp; simp [List.getElem?_set_self hlt]
      · rw [List.getElem?_set_ne (by omega)]
        by_cases h6 : pos + 1 ≤ p ∧ p < pos + 1 + k
        · rw [if_pos h6, if_pos (by omega)]
        · rw [if_neg h6, if_neg (by omega)]

theorem copyLoop_spec (src : Slots) : ∀ (k pos : Nat) (d : Slots),
    (∀ p, pos ≤ p → p < pos + k → d[p]? = some .raw ∧ ∃ e, src[p]? = some (.obj e)) →
    ∃ d' tr, copyLoop src k pos d = .ok (d', tr) ∧ nC tr = k ∧ nD tr = 0 ∧ d'.length = d.length ∧
      ∀ p, d'[p]? = if pos ≤ p ∧ p < pos + k then src[p]? else d[p]? := by
  intro k
  induction k with
  | zero => intro pos d _; exact ⟨d, [], rfl, rfl, rfl, rfl, by intro p; simp; omega⟩
  | succ k ih =>
    intro pos d h
    obtain ⟨hr, e, he⟩ := h pos (by omega) (by omega)
    have hlt := lt_of_getElem?_some hr
    obtain ⟨d', tr, h1, h2, h3, h4, h5⟩ := ih (pos + 1) (d.set pos (.obj e)) (by
      intro p hp1 hp2
      rw [List.getElem?_set_ne (by omega)]; exact h p (by omega) (by omega))
    refine ⟨d', ⟨false, .ctor, pos⟩ :: tr, by simp [copyLoop, readObj_ok he, construct_ok _ hr, h1, bind, Except.bind, pure, Except.pure], ?_, ?_, ?_, ?_⟩
    · simp [h2]; omega
    · simp [h3]
    · simp [h4]
    · intro p
      rw [h5 p]
      by_cases hp : p = pos
      · subst hp; simp [List.getElem?_set_self hlt, he]
      · rw [List.getElem?_set_ne (by omega)]
        by_cases h6 : pos + 1 ≤ p ∧ p < pos + 1 + k
        · rw [if_pos h6, if_pos (by omega)]
        · rw [if_neg h6, if_neg (by omega)]

theorem moveLoop_spec (trk : Bool) : ∀ (k pos : Nat) (d s : Slots),
    (∀ p, pos ≤ p → p < pos + k → d[p]? = some .raw ∧ ∃ e, s[p]? = some (.obj e)) →
    ∃ d' s' tr, moveLoop trk k pos d s = .ok (d', s', tr) ∧ nC tr = k ∧ nD tr = 0 ∧
      d'.length = d.length ∧ s'.length = s.length ∧
      (∀ p, d'[p]? = if pos ≤ p ∧ p < pos + k then s[p]? else d[p]?) ∧
      (∀ p, s'[p]? = if pos ≤ p ∧ p < pos + k ∧ trk = true then some (.obj none) else s[p]?) := by
  intro k
  induction k with
  | zero => intro pos d s _; exact ⟨d, s, [], rfl, rfl, rfl, rfl, rfl, by intro p; simp; omega, by intro p; simp; omega⟩
  | succ k ih =>
    intro pos d s h
    obtain ⟨hr, e, he⟩ := h pos (by omega) (by omega)
    have hlt := lt_of_getElem?_some hr
    have hlts := lt_of_getElem?_some he
    obtain ⟨d', s', tr, h1, h2, h3, h4, h4', h5, h6⟩ := ih (pos + 1) (d.set pos (.obj e))
        (if trk then s.set pos (.obj none) else s) (by
      intro p hp1 hp2
      rw [List.getElem?_set_ne (by omega)]
      refine ⟨(h p (by omega) (by omega)).1, ?_⟩
      obtain ⟨e', he'⟩ := (h p (by omega) (by omega)).2
      refine ⟨e', ?_⟩
      split
      · rw [List.getElem?_set_ne (by omega)]; exact he'
      · exact he')
    refine ⟨d', s', ⟨true, .mv, pos⟩ :: ⟨false, .ctor, pos⟩ :: tr,
      by simp [moveLoop, moveOut_ok trk he, construct_ok _ hr, h1, bind, Except.bind, pure, Except.pure], ?_, ?_, ?_, ?_, ?_, ?_⟩
    · simp [h2]; omega
    · simp [h3]
    · simp [h4]
    · rw [h4']; split <;> simp
    · intro p
      have := h5 p
      cases trk <;> grind [List.getElem?_set]
    · intro p
      have := h6 p
      cases trk <;> grind [List.getElem?_set]


def isObj : Option Slot → Prop
  | some (.obj _) => True
  | _ => False

theorem isObj_iff {o : Option Slot} : isObj o ↔ ∃ e, o = some (.obj e) := by
  cases o with
  | none => simp [isObj]
  | some s => cases s <;> simp [isObj]

theorem shiftLoop_spec (trk : Bool) : ∀ (k src dst : Nat) (s : Slots), dst < src →
    (∀ p, dst ≤ p → p < src + k → ∃ e, s[p]? = some (.obj e)) →
    ∃ s' tr, shiftLoop trk k src dst s = .ok (s', tr) ∧ nC tr = 0 ∧ nD tr = 0 ∧ s'.length = s.length ∧
      ∀ p, s'[p]? = if dst ≤ p ∧ p < dst + k then s[p + (src - dst)]?
                    else if src ≤ p ∧ p < src + k ∧ trk = true then some (.obj none) else s[p]? := by
  intro k
  induction k with
  | zero => intro src dst s _ _; exact ⟨s, [], rfl, rfl, rfl, rfl, by intro p; grind⟩
  | succ k ih =>
    intro src dst s hlt h
    obtain ⟨e, he⟩ := h src (by omega) (by omega)
    obtain ⟨e0, he0⟩ := h dst (by omega) (by omega)
    have hl1 := lt_of_getElem?_some he
    have hl0 := lt_of_getElem?_some he0
    have hd : (if trk then s.set src (.obj none) else s)[dst]? = some (.obj e0) := by
      cases trk
      · exact he0
      · grind
    obtain ⟨s', tr, h1, h2, h3, h4, h5⟩ := ih (src + 1) (dst + 1)
        ((if trk then s.set src (.obj none) else s).set dst (.obj e)) (by omega) (by
      intro p hp1 hp2
      obtain ⟨e', he'⟩ := h p (by omega) (by omega)
      rw [List.getElem?_set_ne (by omega)]
      cases trk
      · exact ⟨e', he'⟩
      · simp
        by_cases hps : p = src
        · subst hps; exact ⟨none, by rw [List.getElem?_set_self hl1]⟩
        · exact ⟨e', by rw [List.getElem?_set_ne (by omega)]; exact he'⟩)
    refine ⟨s', ⟨false, .mv, src⟩ :: ⟨false, .asg, dst⟩ :: tr,
      by simp [shiftLoop, moveOut_ok trk he, assign_ok _ hd, h1, bind, Except.bind, pure, Except.pure], ?_, ?_, ?_, ?_⟩
    · simp [h2]
    · simp [h3]
    · rw [h4]; cases trk <;> simp
    · intro p
      have h5p := h5 p
      have e1 : p + (src + 1 - (dst + 1)) = p + (src - dst) := by omega
      rw [e1] at h5p
      clear h5 h1 ih hd h4
      cases trk
      · simp only [Bool.false_eq_true, if_false, and_false] at h5p ⊢
        grind
      · simp only [if_true, and_true] at h5p ⊢
        grind


/-! ## abstraction: the storage holds the objects of `es`, then raw slots up to N -/

def slotAt (N : Nat) (es : List Elem) (p : Nat) : Option Slot :=
  if p < es.length then (es[p]?).map .obj else if p < N then some .raw else none

structure Abs (N : Nat) (v : SVec) (es : List Elem) : Prop where
  len : v.slots.length = N
  size : v.size = es.length
  le : es.length ≤ N
  pt : ∀ p, v.slots[p]? = slotAt N es p

theorem slotAt_obj {N : Nat} {es : List Elem} {p : Nat} (h : p < es.length) :
    ∃ e, slotAt N es p = some (.obj e) := by
  simp [slotAt, h]

theorem slotAt_raw {N : Nat} {es : List Elem} {p : Nat} (h1 : es.length ≤ p) (h2 : p < N) :
    slotAt N es p = some .raw := by
  simp [slotAt, h2]; omega

theorem rawStore_getElem? (N p : Nat) : (rawStore N)[p]? = if p < N then some .raw else none := by
  simp [rawStore, List.getElem?_replicate]

theorem abs_fresh (N : Nat) : Abs N ⟨rawStore N, 0⟩ [] :=
  ⟨by simp [rawStore], rfl, by simp, by intro p; simp [rawStore_getElem?, slotAt]⟩

theorem Abs.contents {N : Nat} {v : SVec} {es : List Elem} (h : Abs N v es) : v.contents = es := by
  apply List.ext_getElem?
  intro p
  simp only [SVec.contents, List.getElem?_map, List.getElem?_take]
  have hpt := h.pt p
  have hsz := h.size
  by_cases hp : p < es.length
  · simp [slotAt, hp] at hpt
    rw [if_pos (by omega), hpt]
    cases hq : es[p]? with
    | none => have := List.getElem?_eq_none_iff.mp hq; omega
    | some e => simp [slotElem]; grind
  · rw [if_neg (by omega)]
    simp; omega

theorem clear_spec {N : Nat} {v : SVec} {es : List Elem} (h : Abs N v es) :
    ∃ v' tr, clear v = .ok (v', tr) ∧ Abs N v' [] ∧ nC tr = 0 ∧ nD tr = es.length := by
  obtain ⟨s', tr, h1, h2, h3, h4, h5⟩ := destroyLoop_spec v.size 0 v.slots (by
    intro p _ hp
    rw [h.pt p]; exact slotAt_obj (by have := h.size; omega))
  refine ⟨⟨s', 0⟩, tr, by simp [clear, h1, bind, Except.bind, pure, Except.pure], ⟨by rw [h4, h.len], rfl, by simp, ?_⟩, h2, by rw [h3, h.size]⟩
  intro p
  have := h.pt p; have := h.size; have := h.le; have := h5 p
  simp only [slotAt] at *
  grind

theorem destructor_spec {N : Nat} {v : SVec} {es : List Elem} (h : Abs N v es) :
    ∃ v' tr, destructor v = .ok (v', tr) ∧ Abs N v' [] ∧ nC tr = 0 ∧ nD tr = es.length := by
  obtain ⟨v', tr, h1, h2⟩ := clear_spec h
  exact ⟨v', tr, by simpa [destructor, clear] using h1, h2⟩

theorem abs_nil_rawStore {N : Nat} {v : SVec} (h : Abs N v []) : v.slots = rawStore N ∧ v.size = 0 := by
  refine ⟨?_, h.size⟩
  apply List.ext_getElem?
  intro p
  rw [h.pt p, rawStore_getElem?]; simp [slotAt]

theorem copyInto_spec {N : Nat} {d o : SVec} {eo : List Elem} (hd : Abs N d []) (ho : Abs N o eo) :
    ∃ d' tr, copyLoop o.slots o.size 0 d.slots = .ok (d', tr) ∧ Abs N ⟨d', o.size⟩ eo ∧ nC tr = eo.length ∧ nD tr = 0 := by
  obtain ⟨d', tr, h1, h2, h3, h4, h5⟩ := copyLoop_spec o.slots o.size 0 d.slots (by
    intro p _ hp
    have := ho.size; have := ho.le
    rw [hd.pt p, ho.pt p]
    exact ⟨slotAt_raw (by simp) (by omega), slotAt_obj (by omega)⟩)
  refine ⟨d', tr, h1, ⟨by rw [h4, hd.len], ho.size, ho.le, ?_⟩, by rw [h2, ho.size], h3⟩
  intro p
  have := hd.pt p; have := ho.pt p; have := ho.size; have := ho.le; have := h5 p
  simp only [slotAt] at *
  grind

theorem copyCtor_spec {N : Nat} {o : SVec} {eo : List Elem} (ho : Abs N o eo) :
    ∃ v tr, copyCtor N o = .ok (v, tr) ∧ Abs N v eo ∧ nC tr = eo.length ∧ nD tr = 0 := by
  obtain ⟨d', tr, h1, h2, h3, h4⟩ := copyInto_spec (abs_fresh N) ho
  exact ⟨⟨d', o.size⟩, tr, by simp at h1; simp [copyCtor, h1, bind, Except.bind, pure, Except.pure], h2, h3, h4⟩

theorem assignCopy_spec {N : Nat} {v o : SVec} {es eo : List Elem} (hv : Abs N v es) (ho : Abs N o eo) :
    ∃ v' tr, assignCopy v o = .ok (v', tr) ∧ Abs N v' eo ∧ nC tr = eo.length ∧ nD tr = es.length := by
  obtain ⟨v1, tr1, a1, a2, a3, a4⟩ := clear_spec hv
  obtain ⟨d', tr, h1, h2, h3, h4⟩ := copyInto_spec a2 ho
  exact ⟨⟨d', o.size⟩, tr1 ++ tr, by simp [assignCopy, a1, h1, bind, Except.bind, pure, Except.pure], h2, by simp [a3, h3], by simp [a4, h4]⟩

/-- the elements of a container whose elements have all been moved from -/
def movedFrom (trk : Bool) (es : List Elem) : List Elem := if trk then es.map fun _ => none else es

@[simp] theorem movedFrom_length (trk : Bool) (es : List Elem) : (movedFrom trk es).length = es.length := by
  simp [movedFrom]; split <;> simp

theorem moveInto_spec (trk : Bool) {N : Nat} {d o : SVec} {eo : List Elem} (hd : Abs N d []) (ho : Abs N o eo) :
    ∃ d' s' tr, moveLoop trk o.size 0 d.slots o.slots = .ok (d', s', tr) ∧ Abs N ⟨d', o.size⟩ eo ∧
      Abs N ⟨s', o.size⟩ (movedFrom trk eo) ∧ nC tr = eo.length ∧ nD tr = 0 := by
  obtain ⟨d', s', tr, h1, h2, h3, h4, h4', h5, h6⟩ := moveLoop_spec trk o.size 0 d.slots o.slots (by
    intro p _ hp
    have := ho.size; have := ho.le
    rw [hd.pt p, ho.pt p]
    exact ⟨slotAt_raw (by simp) (by omega), slotAt_obj (by omega)⟩)
  refine ⟨d', s', tr, h1, ⟨by rw [h4, hd.len], ho.size, ho.le, ?_⟩, ⟨by rw [h4', ho.len], by simp [ho.size], by simp [ho.le], ?_⟩, by rw [h2, ho.size], h3⟩
  · intro p
    have := hd.pt p; have := ho.pt p; have := ho.size; have := ho.le; have := h5 p
    simp only [slotAt] at *
    grind
  · intro p
    have := ho.pt p; have := ho.size; have := ho.le; have := h6 p
    cases trk
    · simp only [movedFrom, slotAt] at *
      grind
    · simp only [movedFrom, slotAt, if_true, List.length_map, List.getElem?_map] at *
      by_cases hp : p < eo.length
      · have : eo[p]? = some (eo[p]) := List.getElem?_eq_getElem hp
        grind
      · grind

theorem moveCtor_spec (port trk : Bool) {N : Nat} {o : SVec} {eo : List Elem} (ho : Abs N o eo) :
    ∃ v o' tr, moveCtor port trk N o = .ok (v, o', tr) ∧ Abs N v eo ∧
      Abs N o' (if port then movedFrom trk eo else []) ∧ nC tr = eo.length ∧
      nD tr = (if port then 0 else eo.length) := by
  obtain ⟨d', s', tr, h1, h2, h3, h4, h5⟩ := moveInto_spec trk (abs_fresh N) ho
  simp at h1
  cases port
  · obtain ⟨o', tr2, c1, c2, c3, c4⟩ := clear_spec h3
    exact ⟨⟨d', o.size⟩, o', tr ++ tr2.map Ev.flip,
      by simp [moveCtor, h1, c1, bind, Except.bind, pure, Except.pure], h2, by simpa using c2, by simp [h4, c3], by simp [h5, c4]⟩
  · exact ⟨⟨d', o.size⟩, ⟨s', o.size⟩, tr, by simp [moveCtor, h1, bind, Except.bind, pure, Except.pure], h2, by simpa using h3, h4, by simp [h5]⟩

theorem assignMove_spec (trk : Bool) {N : Nat} {v o : SVec} {es eo : List Elem} (hv : Abs N v es) (ho : Abs N o eo) :
    ∃ v' o' tr, assignMove trk v o = .ok (v', o', tr) ∧ Abs N v' eo ∧ Abs N o' [] ∧
      nC tr = eo.length ∧ nD tr = es.length + eo.length := by
  obtain ⟨v1, tr1, a1, a2, a3, a4⟩ := clear_spec hv
  obtain ⟨d', s', tr, h1, h2, h3, h4, h5⟩ := moveInto_spec trk a2 ho
  obtain ⟨o', tr2, c1, c2, c3, c4⟩ := clear_spec h3
  exact ⟨⟨d', o.size⟩, o', tr1 ++ tr ++ tr2.map Ev.flip,
    by simp [assignMove, a1, h1, c1, bind, Except.bind, pure, Except.pure], h2, c2, by simp [a3, h4, c3], by simp [a4, h5, c4]⟩


/-! ## reference semantics on `List Elem` with capacity N -/

def specPush (N : Nat) (es : List Elem) (x : Nat) : List Elem :=
  if es.length < N then es ++ [some x] else es

/-- excess input is dropped, the prefix is kept -/
def specCtor (N : Nat) (xs : List Nat) : List Elem := (xs.take N).map some

def specResize (N : Nat) (es : List Elem) (n : Nat) : List Elem :=
  if min n N ≤ es.length then es.take (min n N) else es ++ List.replicate (min n N - es.length) (some 0)

def specErase (es : List Elem) (i j : Nat) : List Elem := es.take i ++ es.drop j

theorem pushBack_spec {N : Nat} {v : SVec} {es : List Elem} (h : Abs N v es) (x : Nat) :
    ∃ v' tr, pushBack N v x = .ok (v', tr) ∧ Abs N v' (specPush N es x) ∧
      nC tr + es.length = (specPush N es x).length ∧ nD tr = 0 := by
  have hs := h.size; have hl := h.le
  by_cases hf : v.size ≥ N
  · have hsp : specPush N es x = es := by simp [specPush]; omega
    refine ⟨v, [], by simp [pushBack, hf], ?_, ?_, rfl⟩
    · rw [hsp]; exact h
    · rw [hsp]; simp
  · have hr : v.slots[v.size]? = some .raw := by rw [h.pt]; exact slotAt_raw (by omega) (by omega)
    have hlt : v.size < v.slots.length := by rw [h.len]; omega
    have hsp : specPush N es x = es ++ [some x] := by simp [specPush]; omega
    refine ⟨⟨v.slots.set v.size (.obj (some x)), v.size + 1⟩, [⟨false, .ctor, v.size⟩],
      by simp [pushBack, hf, construct_ok _ hr, bind, Except.bind, pure, Except.pure], ?_, ?_, by simp⟩
    · rw [hsp]
      refine ⟨by simp [h.len], by simp [hs], by simp; omega, ?_⟩
      intro p
      have := h.pt p
      simp only [slotAt, List.length_append, List.length_singleton, List.getElem?_append] at *
      grind
    · rw [hsp]; simp; omega

theorem emplaceBack_eq (N : Nat) (v : SVec) (x : Nat) : emplaceBack N v x = pushBack N v x := rfl

theorem ilLoop_spec (N : Nat) : ∀ (xs : List Nat) (v : SVec) (es : List Elem), Abs N v es →
    ∃ v' tr, ilLoop N xs v = .ok (v', tr) ∧ Abs N v' (es ++ (xs.take (N - es.length)).map some) ∧
      nC tr = min xs.length (N - es.length) ∧ nD tr = 0 := by
  intro xs
  induction xs with
  | nil => intro v es h; exact ⟨v, [], rfl, by simpa using h, by simp, rfl⟩
  | cons x xs ih =>
    intro v es h
    have hs := h.size; have hl := h.le
    by_cases hf : v.size ≥ N
    · have : N - es.length = 0 := by omega
      exact ⟨v, [], by simp [ilLoop, hf], by simpa [this] using h, by simp [this], rfl⟩
    · obtain ⟨v1, tr1, p1, p2, p3, p4⟩ := pushBack_spec h x
      have hsp : specPush N es x = es ++ [some x] := by simp [specPush]; omega
      rw [hsp] at p2
      have hr : v.slots[v.size]? = some .raw := by rw [h.pt]; exact slotAt_raw (by omega) (by omega)
      have hv1 : v1 = ⟨v.slots.set v.size (.obj (some x)), v.size + 1⟩ := by
        simp [pushBack, hf, construct_ok _ hr, bind, Except.bind, pure, Except.pure] at p1
        exact p1.1.symm
      obtain ⟨v', tr, q1, q2, q3, q4⟩ := ih v1 _ p2
      refine ⟨v', ⟨false, .ctor, v.size⟩ :: tr,
        by rw [hv1] at q1; simp [ilLoop, hf, construct_ok _ hr, q1, bind, Except.bind, pure, Except.pure], ?_, ?_, by simp [q4]⟩
      · have e1 : N - es.length = (N - (es ++ [some x]).length) + 1 := by simp; omega
        rw [e1, List.take_succ_cons]
        simpa using q2
      · simp [q3]; omega

theorem ilCtor_spec (N : Nat) (xs : List Nat) :
    ∃ v tr, ilCtor N xs = .ok (v, tr) ∧ Abs N v (specCtor N xs) ∧ nC tr = (specCtor N xs).length ∧ nD tr = 0 := by
  obtain ⟨v, tr, h1, h2, h3, h4⟩ := ilLoop_spec N xs _ [] (abs_fresh N)
  exact ⟨v, tr, h1, by simpa [specCtor] using h2, by simp [specCtor, h3, Nat.min_comm], h4⟩

theorem rangeLoop_spec (N : Nat) : ∀ (xs : List Nat) (v : SVec) (es : List Elem), Abs N v es →
    ∃ v' tr, rangeLoop N xs v = .ok (v', tr) ∧ Abs N v' (es ++ (xs.take (N - es.length)).map some) ∧
      nC tr = min xs.length (N - es.length) ∧ nD tr = 0 := by
  intro xs
  induction xs with
  | nil => intro v es h; exact ⟨v, [], rfl, by simpa using h, by simp, rfl⟩
  | cons x xs ih =>
    intro v es h
    have hl := h.le
    obtain ⟨v1, tr1, p1, p2, p3, p4⟩ := pushBack_spec h x
    obtain ⟨v', tr, q1, q2, q3, q4⟩ := ih v1 _ p2
    refine ⟨v', tr1 ++ tr, by simp [rangeLoop, p1, q1, bind, Except.bind, pure, Except.pure], ?_, ?_, by simp [p4, q4]⟩
    · by_cases hf : es.length < N
      · have hsp : specPush N es x = es ++ [some x] := by simp [specPush, hf]
        rw [hsp] at q2
        have e1 : N - es.length = (N - (es ++ [some x]).length) + 1 := by simp; omega
        rw [e1, List.take_succ_cons]
        simpa using q2
      · have hsp : specPush N es x = es := by simp [specPush, hf]
        rw [hsp] at q2
        have : N - es.length = 0 := by omega
        simpa [this] using q2
    · simp [q3]
      by_cases hf : es.length < N
      · have hsp : specPush N es x = es ++ [some x] := by simp [specPush, hf]
        rw [hsp] at p3 ⊢; simp at p3 ⊢; omega
      · have hsp : specPush N es x = es := by simp [specPush, hf]
        rw [hsp] at p3 ⊢; omega

theorem rangeCtor_spec (N : Nat) (xs : List Nat) :
    ∃ v tr, rangeCtor N xs = .ok (v, tr) ∧ Abs N v (specCtor N xs) ∧ nC tr = (specCtor N xs).length ∧ nD tr = 0 := by
  obtain ⟨v, tr, h1, h2, h3, h4⟩ := rangeLoop_spec N xs _ [] (abs_fresh N)
  exact ⟨v, tr, h1, by simpa [specCtor] using h2, by simp [specCtor, h3, Nat.min_comm], h4⟩

theorem resize_spec {N : Nat} {v : SVec} {es : List Elem} (h : Abs N v es) (n : Nat) :
    ∃ v' tr, resize N v n = .ok (v', tr) ∧ Abs N v' (specResize N es n) ∧
      nC tr + es.length = nD tr + (specResize N es n).length := by
  have hs := h.size; have hl := h.le
  have hn : (if n ≥ N then N else n) = min n N := by split <;> omega
  obtain ⟨s1, tr1, a1, a2, a3, a4, a5⟩ := valueInitLoop_spec (min n N - v.size) v.size v.slots (by
    intro p hp1 hp2
    rw [h.pt p]; exact slotAt_raw (by omega) (by omega))
  obtain ⟨s2, tr2, b1, b2, b3, b4, b5⟩ := destroyLoop_spec (v.size - min n N) (min n N) s1 (by
    intro p hp1 hp2
    rw [a5 p, if_neg (by omega), h.pt p]; exact slotAt_obj (by omega))
  refine ⟨⟨s2, min n N⟩, tr1 ++ tr2, by simp only [resize, hn]; simp [a1, b1, bind, Except.bind, pure, Except.pure], ?_, ?_⟩
  · by_cases hc : min n N ≤ es.length
    · have hsp : specResize N es n = es.take (min n N) := by simp [specResize, hc]
      rw [hsp]
      refine ⟨by rw [b4, a4, h.len], by simp; omega, by simp; omega, ?_⟩
      intro p
      have := h.pt p; have := a5 p; have := b5 p
      simp only [slotAt, List.length_take, List.getElem?_take] at *
      grind
    · have hsp : specResize N es n = es ++ List.replicate (min n N - es.length) (some 0) := by simp [specResize, hc]
      rw [hsp]
      refine ⟨by rw [b4, a4, h.len], by simp; omega, by simp; omega, ?_⟩
      intro p
      have := h.pt p; have := a5 p; have := b5 p
      simp only [slotAt, List.length_append, List.length_replicate, List.getElem?_append, List.getElem?_replicate] at *
      grind
  · simp [a2, a3, b2, b3]
    by_cases hc : min n N ≤ es.length
    · simp [specResize, hc]; omega
    · simp [specResize, hc]; omega

theorem erase_spec (trk : Bool) {N : Nat} {v : SVec} {es : List Elem} (h : Abs N v es) {i j : Nat}
    (hij : i ≤ j) (hj : j ≤ es.length) :
    ∃ v' tr, erase trk v i j = .ok (v', tr) ∧ Abs N v' (specErase es i j) ∧
      nC tr = 0 ∧ nD tr + (specErase es i j).length = es.length := by
  have hs := h.size; have hl := h.le
  by_cases hijeq : i = j
  · subst hijeq
    have : specErase es i i = es := by simp [specErase]
    exact ⟨v, [], by simp [erase], by rw [this]; exact h, rfl, by rw [this]; simp⟩
  · obtain ⟨s1, tr1, a1, a2, a3, a4, a5⟩ := shiftLoop_spec trk (v.size - j) j i v.slots (by omega) (by
      intro p hp1 hp2
      rw [h.pt p]; exact slotAt_obj (by omega))
    obtain ⟨s2, tr2, b1, b2, b3, b4, b5⟩ := destroyLoop_spec (j - i) (v.size - (j - i)) s1 (by
      intro p hp1 hp2
      apply isObj_iff.mp
      rw [a5 p]
      have := h.pt p
      have h2 := h.pt (p + (j - i))
      simp only [slotAt] at *
      have hp : p < es.length := by omega
      have : es[p]? = some (es[p]) := List.getElem?_eq_getElem hp
      by_cases hq : p + (j - i) < es.length
      · have : es[p + (j - i)]? = some (es[p + (j - i)]) := List.getElem?_eq_getElem hq
        cases trk <;> grind [isObj]
      · cases trk <;> grind [isObj])
    refine ⟨⟨s2, v.size - (j - i)⟩, tr1 ++ tr2, by simp [erase, hijeq, a1, b1, bind, Except.bind, pure, Except.pure], ?_, by simp [a2, b2], ?_⟩
    · refine ⟨by rw [b4, a4, h.len], by simp [specErase]; omega, by simp [specErase]; omega, ?_⟩
      intro p
      have := h.pt p; have h2 := h.pt (p + (j - i)); have := a5 p; have := b5 p
      have e1 : j + (p - i) = p + (j - i) ∨ p < i := by omega
      simp only [slotAt, specErase, List.length_append, List.length_take, List.length_drop,
        List.getElem?_append, List.getElem?_take, List.getElem?_drop] at *
      have e2 : min i es.length = i := by omega
      rw [e2] at *
      cases trk <;> grind
    · simp [a3, b3, specErase]; omega

end Igris.C14
